/-
C02 — MetricFrame aggregates are the documented functions of by_group and overall.
Property theorems only.  Model: `Model/Aggregate.lean` (written in terms of the GENERATED
`AggregateSpec`: grouping functions and `ratio_sub_one` lifted from `_disaggregated_result.py`).

Everything is per control stratum `c ∈ strata t` ("within every control-feature combination"):
`vals t c` are the values of the sensitive-feature groups of that stratum (NaN = empty group,
skipped), `overallAt t c` the overall value of the stratum.  `valueAt r c = some x` means "the call
did not raise and its entry for stratum `c` is `x`".  Tables are arbitrary (any number of strata and
groups, NaN cells anywhere); `FiniteCells` only excludes ±inf / non-scalar metric values.

FINDINGS (proved here, reproduced on real fairlearn by harness/props/c02.py):
  F8  `ratio(between_groups) ≤ 1` is FALSE when every group value is negative
      (`ratio_between_gt_one_of_all_negative`, witness `ratio_le_one_false`); the true statement is
      `ratio_between_le_one_partial` (hypothesis: the group maximum is not negative).
  F8b `ratio(to_overall)` uses `ratio_sub_one r`, which equals `min r (1/r)` exactly when
      `r ∉ (-1,0)` (`ratioSubOne_eq_min_iff`); for a negative quotient in (-1,0) it keeps `r`.

CLAUSE → THEOREM TABLE (review R1; every theorem is per control stratum `c ∈ strata t` = "within every
control-feature combination"; `t` is an ARBITRARY table unless stated, and `ofFrame_finite` /
`wmean_frame_finite` discharge the side conditions for the tables MetricFrame builds from data)
  group_min / group_max = min / max of the non-empty groups   groupMin_spec, groupMax_spec, groupMin_le_groupMax,
                                                               groupMin_groupMax_cases (NaN together)
  difference(between_groups) = group_max − group_min           difference_between_eq, difference_between_nan
  difference(to_overall) = largest |group − overall|           difference_overall_eq, difference_overall_nan
  ratio(between_groups) = group_min / group_max                ratio_between_eq (IEEE quotient of ANY two extended values),
                                                               ratio_between_cases (which of NaN / −inf / number; never +inf)
  ratio(to_overall) = smallest min(r, 1/r), r = group/overall  ratio_overall_eq + ratioSubOne_eq_min_of_nonneg / _pinf_eq_min;
      FALSE of the code for r ∈ (−1,0) (F8b)                   ratioSubOne_eq_min_iff, ratioSubOne_ne_min_of_neg (witness for every such r)
  errors='raise' = errors='coerce' on scalar metrics           raise_eq_coerce; non-scalar: raise_fails_coerce_answers, frame_raise_fails_iff
  difference ≥ 0                                               difference_nonneg, difference_cases (NaN or number ≥ 0, never ±inf)
  ratio ≤ 1   to_overall                                       ratio_overall_le_one, ratio_overall_leOne (all tables, extended values)
              between_groups: FALSE (F8)                       ratio_le_one_false, ratio_gt_one_of_all_negative;
                 PARTIAL: some group value ≥ 0                 ratio_between_le_one_partial, ratio_between_leOne
  ratio ≥ 0 for non-negative metrics                           ratio_between_nonneg, ratio_overall_nonneg
  between_groups difference ≤ 2 × to_overall difference        between_le_two_overall
  weighted-mean metrics: to_overall ≤ between_groups           overall_le_between_of_weighted_mean_data (ANY dataset, weights ≥ 0, no side
                                                               conditions; through C01.stratum_partition), wmean_overall_between_nonneg;
                                                               older form with weights > 0: overall_le_between_of_weighted_mean;
                                                               selection rate / accuracy / mean prediction ARE such means:
                                                               selrate_frame_is_wmean, named_metrics_are_wmean, eval_*_eq_wmean
  callable-vs-dict / several metric columns                    frame_*_col, frame_all_results_col (column j of the frame = the single-metric model);
  result cache keyed by (method, errors), accessor defaults,   src_populate_eq_model, src_group_min_eq_model, src_group_max_eq_model,
  callable-vs-dict unwrapping (`_extract_result`)              src_difference_eq_model, src_ratio_eq_model, src_cache_explicit_calls,
                                                               src_cache_default_calls, src_extract_documented (LIFTED: Generated/PopulateSrc.lean
                                                               interpreted by Model/AggregateCache.lean, + FrameSrc.extract_result)
  zero denominators / all-equal groups                         ratio_between_cases, single_group, ratio_between_eq_one_iff, difference_*_eq_zero_iff
  the model IS the lifted source text                          applyGroupingGen_eq_model, differenceGen_eq_model, ratioGen_eq_model
NOT COVERED by theorems with a `FiniteCells` hypothesis: metric values ±inf (the model computes them in IEEE
arithmetic and `ratio_between_eq`, `ratio_overall_eq`, `ratio_overall_leOne`, `raise_eq_coerce` hold for them, the
order/bounds theorems do not speak about them; the generator does not produce ±inf cells).
-/
import FairModel.Lemmas.Aggregate
import FairModel.Lemmas.AggregateGen
import FairModel.Lemmas.AggregateCache
import FairModel.Lemmas.AggregateFrame
import FairModel.Lemmas.AggregateMore
import FairModel.Lemmas.WeightedMean
import FairModel.Lemmas.C02Review
import FairModel.Properties.C01
import FairModel.Model.MetricPool

namespace C02
open Aggregate XR Frame

/-! ### group_min / group_max -/

/-- group_min is NaN iff the stratum has no non-empty group, otherwise the value of some group
    that is a lower bound of all (non-empty) group values -/
theorem groupMin_spec (e : Errors) (t : Tables) (hs : e = .coerce ∨ hasNonscalar t = false)
    (hf : FiniteCells t) (c : Key) (hc : c ∈ strata t) :
    ∃ x, valueAt (groupMin e t) c = some x ∧
      ((fins (vals t c) = [] ∧ x = nan) ∨
       (∃ m, x = fin m ∧ m ∈ fins (vals t c) ∧ ∀ q ∈ fins (vals t c), m ≤ q)) :=
  ⟨_, groupMin_at e t hs hc, minSkip_spec (finNan_vals hf c)⟩

theorem groupMax_spec (e : Errors) (t : Tables) (hs : e = .coerce ∨ hasNonscalar t = false)
    (hf : FiniteCells t) (c : Key) (hc : c ∈ strata t) :
    ∃ x, valueAt (groupMax e t) c = some x ∧
      ((fins (vals t c) = [] ∧ x = nan) ∨
       (∃ m, x = fin m ∧ m ∈ fins (vals t c) ∧ ∀ q ∈ fins (vals t c), q ≤ m)) :=
  ⟨_, groupMax_at e t hs hc, maxSkip_spec (finNan_vals hf c)⟩

theorem groupMin_le_groupMax (e : Errors) (t : Tables) (hs : e = .coerce ∨ hasNonscalar t = false)
    (hf : FiniteCells t) (c : Key) (hc : c ∈ strata t) (m M : Rat)
    (hm : valueAt (groupMin e t) c = some (fin m)) (hM : valueAt (groupMax e t) c = some (fin M)) :
    m ≤ M := by
  rw [groupMin_at e t hs hc] at hm
  rw [groupMax_at e t hs hc] at hM
  injection hm with hm; injection hM with hM
  rcases min_max_together (finNan_vals hf c) with ⟨h1, _⟩ | ⟨m', M', h1, h2, hle⟩
  · rw [h1] at hm; cases hm
  · rw [h1] at hm; rw [h2] at hM; cases hm; cases hM; exact hle

/-! ### difference -/

/-- between_groups: difference = group_max - group_min -/
theorem difference_between_eq (e : Errors) (t : Tables) (hs : e = .coerce ∨ hasNonscalar t = false)
    (hf : FiniteCells t) (c : Key) (hc : c ∈ strata t) (m M : Rat)
    (hm : valueAt (groupMin e t) c = some (fin m)) (hM : valueAt (groupMax e t) c = some (fin M)) :
    valueAt (difference .between e t) c = some (fin (M - m)) := by
  rw [groupMin_at e t hs hc] at hm
  rw [groupMax_at e t hs hc] at hM
  injection hm with hm; injection hM with hM
  rw [difference_between_at e t hs hc, hm, diffOf_min (finNan_vals hf c) hm hM]

/-- ... and NaN when the stratum has no non-empty group -/
theorem difference_between_nan (e : Errors) (t : Tables) (hs : e = .coerce ∨ hasNonscalar t = false)
    (c : Key) (hc : c ∈ strata t) (hm : valueAt (groupMin e t) c = some nan) :
    valueAt (difference .between e t) c = some nan := by
  rw [groupMin_at e t hs hc] at hm
  injection hm with hm
  rw [difference_between_at e t hs hc, hm, diffOf_nan]

/-- to_overall: difference = the largest |group - overall| (attained by a group; the overall value
    is the one of the SAME control stratum), NaN iff no non-empty group -/
theorem difference_overall_eq (e : Errors) (t : Tables) (hs : hasNonscalar t = false)
    (hf : FiniteCells t) (c : Key) (hc : c ∈ strata t) (o : Rat) (ho : overallAt t c = fin o) :
    ∃ x, valueAt (difference .toOverall e t) c = some x ∧
      ((fins (vals t c) = [] ∧ x = nan) ∨
       (∃ D, x = fin D ∧ (∃ q ∈ fins (vals t c), D = |q - o|) ∧ ∀ q ∈ fins (vals t c), |q - o| ≤ D)) := by
  refine ⟨_, difference_overall_at e t hs hc, ?_⟩
  rw [ho]
  exact diffOf_spec (finNan_vals hf c) o

theorem difference_overall_nan (e : Errors) (t : Tables) (hs : hasNonscalar t = false)
    (c : Key) (hc : c ∈ strata t) (ho : overallAt t c = nan) :
    valueAt (difference .toOverall e t) c = some nan := by
  rw [difference_overall_at e t hs hc, ho, diffOf_nan]

/-- difference ≥ 0, both methods -/
theorem difference_nonneg (m : Method) (e : Errors) (t : Tables) (hs : hasNonscalar t = false)
    (hf : FiniteCells t) (c : Key) (hc : c ∈ strata t) (d : Rat)
    (hd : valueAt (difference m e t) c = some (fin d)) : 0 ≤ d := by
  have hfn := finNan_vals hf c
  cases m with
  | between =>
    rw [difference_between_at e t (Or.inr hs) hc] at hd
    injection hd with hd
    rcases min_max_together hfn with ⟨h1, _⟩ | ⟨m, M, h1, h2, hle⟩
    · rw [h1, diffOf_nan] at hd; cases hd
    · rw [h1, diffOf_min hfn h1 h2] at hd
      cases hd; linarith
  | toOverall =>
    rw [difference_overall_at e t hs hc] at hd
    injection hd with hd
    rcases overallAt_finNan hf c with ho | ⟨o, ho⟩
    · rw [ho, diffOf_nan] at hd; cases hd
    · rw [ho] at hd
      rcases diffOf_spec hfn o with ⟨_, hn⟩ | ⟨D, hD, ⟨q, _, hq⟩, _⟩
      · rw [hn] at hd; cases hd
      · rw [hD] at hd; cases hd; rw [hq]; exact abs_nonneg _

/-- the between_groups difference never exceeds twice the to_overall difference -/
theorem between_le_two_overall (e : Errors) (t : Tables) (hs : hasNonscalar t = false)
    (hf : FiniteCells t) (c : Key) (hc : c ∈ strata t) (db dov : Rat)
    (hb : valueAt (difference .between e t) c = some (fin db))
    (ho : valueAt (difference .toOverall e t) c = some (fin dov)) : db ≤ 2 * dov := by
  have hfn := finNan_vals hf c
  rw [difference_between_at e t (Or.inr hs) hc] at hb
  rw [difference_overall_at e t hs hc] at ho
  injection hb with hb; injection ho with ho
  rcases min_max_together hfn with ⟨h1, _⟩ | ⟨m, M, h1, h2, _⟩
  · rw [h1, diffOf_nan] at hb; cases hb
  · rw [h1, diffOf_min hfn h1 h2] at hb
    cases hb
    obtain ⟨hm1, _⟩ := minSkip_eq_fin hfn h1
    obtain ⟨hM1, _⟩ := maxSkip_eq_fin hfn h2
    rcases overallAt_finNan hf c with ho' | ⟨o, ho'⟩
    · rw [ho', diffOf_nan] at ho; cases ho
    · rw [ho'] at ho
      rcases diffOf_spec hfn o with ⟨_, hn⟩ | ⟨D, hD, _, hle⟩
      · rw [hn] at ho; cases ho
      · rw [hD] at ho; cases ho
        have a1 := hle m hm1
        have a2 := hle M hM1
        have b1 := neg_abs_le (m - o)
        have b2 := le_abs_self (M - o)
        linarith

/-- if the overall value of the stratum lies between the group minimum and maximum, the
    to_overall difference never exceeds the between_groups difference -/
theorem overall_le_between (e : Errors) (t : Tables) (hs : hasNonscalar t = false)
    (hf : FiniteCells t) (c : Key) (hc : c ∈ strata t) (m M o db dov : Rat)
    (hm : valueAt (groupMin e t) c = some (fin m)) (hM : valueAt (groupMax e t) c = some (fin M))
    (ho : overallAt t c = fin o) (hmo : m ≤ o) (hoM : o ≤ M)
    (hb : valueAt (difference .between e t) c = some (fin db))
    (hov : valueAt (difference .toOverall e t) c = some (fin dov)) : dov ≤ db := by
  have hfn := finNan_vals hf c
  rw [difference_between_eq e t (Or.inr hs) hf c hc m M hm hM] at hb
  injection hb with hb; injection hb with hb
  rw [groupMin_at e t (Or.inr hs) hc] at hm
  rw [groupMax_at e t (Or.inr hs) hc] at hM
  injection hm with hm; injection hM with hM
  obtain ⟨_, hlo⟩ := minSkip_eq_fin hfn hm
  obtain ⟨_, hhi⟩ := maxSkip_eq_fin hfn hM
  rw [difference_overall_at e t hs hc, ho] at hov
  injection hov with hov
  rcases diffOf_spec hfn o with ⟨_, hn⟩ | ⟨D, hD, ⟨q, hq, hDq⟩, _⟩
  · rw [hn] at hov; cases hov
  · rw [hD] at hov; cases hov
    rw [hDq, ← hb, abs_le]
    constructor <;> linarith [hlo q hq, hhi q hq]

/-! ### ratio -/

/-- between_groups: ratio = group_min / group_max (IEEE division: 0/0 = NaN, x/0 = ±inf) -/
theorem ratio_between_eq (e : Errors) (t : Tables) (hs : e = .coerce ∨ hasNonscalar t = false)
    (c : Key) (hc : c ∈ strata t) (a b : XR)
    (ha : valueAt (groupMin e t) c = some a) (hb : valueAt (groupMax e t) c = some b) :
    valueAt (ratio .between e t) c = some (XR.div a b) := by
  rw [groupMin_at e t hs hc] at ha
  rw [groupMax_at e t hs hc] at hb
  injection ha with ha; injection hb with hb
  rw [ratio_between_at e t hs hc, ha, hb]

/-- to_overall: ratio = the smallest `ratio_sub_one (group / overall)` over the non-empty groups -/
theorem ratio_overall_eq (e : Errors) (t : Tables) (hs : hasNonscalar t = false)
    (c : Key) (hc : c ∈ strata t) :
    valueAt (ratio .toOverall e t) c =
      some (minSkip ((vals t c).map (fun v => AggregateSpec.ratioSubOne (XR.div v (overallAt t c))))) :=
  ratio_overall_at e t hs hc

/-- `ratio_sub_one r = min(r, 1/r)` for every non-negative quotient (incl. 0 and +inf) ... -/
theorem ratioSubOne_eq_min_of_nonneg (r : Rat) (hr : 0 ≤ r) :
    AggregateSpec.ratioSubOne (fin r) = minSkip2 (fin r) (XR.div (fin 1) (fin r)) := by
  rw [ratioSubOne_fin, div_fin_fin]
  by_cases h0 : r = 0
  · subst h0; simp [minSkip2, isNan, XR.lt]
  · have hpos : 0 < r := lt_of_le_of_ne hr (Ne.symm h0)
    rw [if_neg h0, minSkip2_fin_fin]
    by_cases h1 : 1 < r
    · have : 1 / r < r := by
        rw [div_lt_iff₀ hpos]; nlinarith
      rw [if_pos h1, if_pos this]
    · have : ¬ 1 / r < r := by
        rw [not_lt, le_div_iff₀ hpos]; nlinarith [not_lt.mp h1]
      rw [if_neg h1, if_neg this]

theorem ratioSubOne_pinf_eq_min :
    AggregateSpec.ratioSubOne pinf = minSkip2 pinf (XR.div (fin 1) pinf) := by decide +kernel

/-- the equation also holds for the two remaining extended quotients (-inf: group < 0 = overall;
    NaN: 0/0 or an empty group) -/
theorem ratioSubOne_ninf_nan_eq_min :
    AggregateSpec.ratioSubOne ninf = minSkip2 ninf (XR.div (fin 1) ninf) ∧
    AggregateSpec.ratioSubOne nan = minSkip2 nan (XR.div (fin 1) nan) := by decide +kernel

/-- ... and, for finite quotients, EXACTLY when `r ∉ (-1, 0)` (finding F8b: a negative quotient
    in (-1,0) is kept as `r` although `1/r` is smaller) -/
theorem ratioSubOne_eq_min_iff (r : Rat) :
    AggregateSpec.ratioSubOne (fin r) = minSkip2 (fin r) (XR.div (fin 1) (fin r)) ↔ ¬ (-1 < r ∧ r < 0) := by
  by_cases hr : 0 ≤ r
  · constructor
    · intro _ h; linarith [h.2]
    · intro _; exact ratioSubOne_eq_min_of_nonneg r hr
  · have hneg : r < 0 := not_le.mp hr
    have h0 : r ≠ 0 := ne_of_lt hneg
    have h1 : ¬ 1 < r := by linarith
    rw [ratioSubOne_fin, div_fin_fin, if_neg h0, if_neg h1, minSkip2_fin_fin]
    have hinv : 1 / r < r ↔ -1 < r := by
      rw [div_lt_iff_of_neg hneg]
      constructor <;> intro h <;> nlinarith
    by_cases h : -1 < r
    · simp only [hinv.mpr h, if_true]
      constructor
      · intro he
        injection he with he
        have : r * r = 1 := by field_simp at he; nlinarith
        nlinarith
      · intro hcon; exact absurd ⟨h, hneg⟩ hcon
    · simp only [mt hinv.mp h, if_false]
      constructor
      · intro _ hcon; exact h hcon.1
      · intro _; trivial

/-- to_overall ratio ≤ 1, unconditionally (it may be NaN = undefined, or -inf) -/
theorem ratio_overall_le_one (e : Errors) (t : Tables) (hs : hasNonscalar t = false)
    (c : Key) (hc : c ∈ strata t) (r : Rat)
    (hr : valueAt (ratio .toOverall e t) c = some (fin r)) : r ≤ 1 := by
  rw [ratio_overall_at e t hs hc] at hr
  injection hr with hr
  rcases ratioOverallOf_leOne (vals t c) (overallAt t c) with h | h | ⟨r', h, hle⟩
  · rw [h] at hr; cases hr
  · rw [h] at hr; cases hr
  · rw [h] at hr; cases hr; exact hle

/-- between_groups ratio ≤ 1 PROVIDED the group maximum is not negative.
    (Full statement "ratio ≤ 1" is false: see `ratio_between_gt_one_of_all_negative`.) -/
theorem ratio_between_le_one_partial (e : Errors) (t : Tables) (hs : e = .coerce ∨ hasNonscalar t = false)
    (hf : FiniteCells t) (c : Key) (hc : c ∈ strata t) (M r : Rat)
    (hM : valueAt (groupMax e t) c = some (fin M)) (hnn : 0 ≤ M)
    (hr : valueAt (ratio .between e t) c = some (fin r)) : r ≤ 1 := by
  have hfn := finNan_vals hf c
  rw [groupMax_at e t hs hc] at hM
  injection hM with hM
  rw [ratio_between_at e t hs hc, hM] at hr
  injection hr with hr
  rcases min_max_together hfn with ⟨h1, _⟩ | ⟨m, M', h1, h2, hle⟩
  · rw [h1] at hr; cases hr
  · rw [h2] at hM; cases hM
    rw [h1, div_fin_fin] at hr
    by_cases h0 : M = 0
    · rw [if_pos h0] at hr
      split at hr
      · cases hr
      · split at hr <;> cases hr
    · rw [if_neg h0] at hr
      cases hr
      have : 0 < M := lt_of_le_of_ne hnn (Ne.symm h0)
      rw [div_le_one this]; exact hle

/-- F8, general form: if every group value of the stratum is negative and they are not all equal
    (min < max < 0), the between_groups ratio is min/max and it EXCEEDS 1. -/
theorem ratio_between_gt_one_of_all_negative (e : Errors) (t : Tables)
    (hs : e = .coerce ∨ hasNonscalar t = false) (c : Key) (hc : c ∈ strata t) (m M : Rat)
    (hm : valueAt (groupMin e t) c = some (fin m)) (hM : valueAt (groupMax e t) c = some (fin M))
    (hneg : M < 0) (hlt : m < M) :
    valueAt (ratio .between e t) c = some (fin (m / M)) ∧ 1 < m / M := by
  constructor
  · rw [ratio_between_eq e t hs c hc _ _ hm hM, div_fin_fin, if_neg (ne_of_lt hneg)]
  · rw [lt_div_iff_of_neg hneg]; linarith

/-- F8, concrete witness: groups -3 and -2 give ratio 3/2 -/
def negTable : Tables := ⟨0, [(["a"], .scalar (fin (-3))), (["b"], .scalar (fin (-2)))], [([], .scalar (fin (-5/2)))], false⟩

theorem ratio_le_one_false :
    ¬ (∀ (t : Tables) (c : Key) (r : Rat), hasNonscalar t = false → c ∈ strata t →
        valueAt (ratio .between .coerce t) c = some (fin r) → r ≤ 1) := by
  intro h
  have := h negTable [] (3/2) (by decide +kernel) (by decide +kernel) (by decide +kernel)
  norm_num at this

/-- ratio ≥ 0 on non-negative tables, both methods -/
theorem ratio_between_nonneg (e : Errors) (t : Tables) (hs : e = .coerce ∨ hasNonscalar t = false)
    (hf : FiniteCells t) (c : Key) (hc : c ∈ strata t) (hnn : ∀ q ∈ fins (vals t c), 0 ≤ q) (r : Rat)
    (hr : valueAt (ratio .between e t) c = some (fin r)) : 0 ≤ r := by
  have hfn := finNan_vals hf c
  rw [ratio_between_at e t hs hc] at hr
  injection hr with hr
  rcases min_max_together hfn with ⟨h1, _⟩ | ⟨m, M, h1, h2, _⟩
  · rw [h1] at hr; cases hr
  · rw [h1, h2] at hr
    have hm := hnn m (minSkip_eq_fin hfn h1).1
    have hM := hnn M (maxSkip_eq_fin hfn h2).1
    rcases div_nonneg_fin hm hM with h | h | ⟨r', h, hr'⟩
    · rw [h] at hr; cases hr
    · rw [h] at hr; cases hr
    · rw [h] at hr; cases hr; exact hr'

theorem ratio_overall_nonneg (e : Errors) (t : Tables) (hs : hasNonscalar t = false)
    (hf : FiniteCells t) (c : Key) (hc : c ∈ strata t) (hnn : ∀ q ∈ fins (vals t c), 0 ≤ q)
    (o : Rat) (ho : overallAt t c = fin o) (hon : 0 ≤ o) (r : Rat)
    (hr : valueAt (ratio .toOverall e t) c = some (fin r)) : 0 ≤ r := by
  rw [ratio_overall_at e t hs hc, ho] at hr
  injection hr with hr
  rcases ratioOverallOf_nonneg (finNan_vals hf c) hnn hon with h | h | ⟨r', h, hr'⟩
  · rw [h] at hr; cases hr
  · rw [h] at hr; cases hr
  · rw [h] at hr; cases hr; exact hr'

/-! ### errors='raise' and errors='coerce' agree on scalar frames -/

theorem raise_eq_coerce (t : Tables) (hs : hasNonscalar t = false) :
    groupMin .raise t = groupMin .coerce t ∧ groupMax .raise t = groupMax .coerce t ∧
    (∀ m, difference m .raise t = difference m .coerce t) ∧
    (∀ m, ratio m .raise t = ratio m .coerce t) := by
  have hg : ∀ g, applyGrouping g .raise t = applyGrouping g .coerce t := by
    intro g
    rw [applyGrouping_eq g .raise t (Or.inr hs), applyGrouping_eq g .coerce t (Or.inl rfl)]
  refine ⟨hg _, hg _, ?_, ?_⟩
  · intro m; cases m
    · simp only [difference, hg]
    · rfl
  · intro m; cases m
    · simp only [ratio, hg]
    · rfl

/-- with a non-scalar cell somewhere, errors='raise' fails while 'coerce' still answers -/
theorem raise_fails_coerce_answers (g : Grouping) (t : Tables) (hs : hasNonscalar t = true) :
    applyGrouping g .raise t = none ∧ (applyGrouping g .coerce t).isSome := by
  constructor
  · simp [applyGrouping, hs]
  · simp [applyGrouping]

/-! ### weighted-mean metrics: the overall value lies between the group extremes -/

open MetricPool in
/-- a sample-weighted mean of a per-row quantity `q` (weights `p0`): selection rate
    (`q = [pred = 1]`), accuracy (`q = [y = pred]`), mean prediction (`q = pred`), ... -/
def wmean (q : Dat → Rat) (ds : List Dat) : Cell :=
  quot (sumBy (fun d => q d * d.p0) ds) (sumBy (·.p0) ds)

open MetricPool in
theorem eval_selrate_eq_wmean (ds : List Dat) (hne : ds ≠ []) :
    eval .selrate ds = wmean (fun d => if d.pred = 1 then 1 else 0) ds := by
  cases ds with
  | nil => exact absurd rfl hne
  | cons d ds =>
    have h : ∀ l : List Dat, sumBy (fun d => if d.pred = 1 then d.p0 else 0) l =
        sumBy (fun d => (if d.pred = 1 then 1 else 0) * d.p0) l := by
      intro l; unfold sumBy; congr 1
      apply List.map_congr_left; intro x _
      by_cases h : x.pred = 1 <;> simp [h]
    simp only [eval, selRateCell, wmean, List.isEmpty_cons, Bool.false_eq_true, if_false, h]

open MetricPool in
theorem eval_accuracy_eq_wmean (ds : List Dat) :
    eval .accuracy ds = wmean (fun d => if d.y = d.pred then 1 else 0) ds := by
  have h : ∀ l : List Dat, sumBy (fun d => if d.y = d.pred then d.p0 else 0) l =
      sumBy (fun d => (if d.y = d.pred then 1 else 0) * d.p0) l := by
    intro l; unfold sumBy; congr 1
    apply List.map_congr_left; intro x _
    by_cases h : x.y = x.pred <;> simp [h]
  simp only [eval, wmean, h]

open MetricPool in
theorem eval_meanpred_eq_wmean (ds : List Dat) : eval .meanpred ds = wmean (·.pred) ds := rfl

open MetricPool in
theorem wmean_of_pos (q : Dat → Rat) (ds : List Dat) (hw : ∀ d ∈ ds, 0 < d.p0) (hne : ds ≠ []) :
    wmean q ds = .scalar (fin (WeightedMean.num q (·.p0) ds / WeightedMean.den (·.p0) ds)) := by
  have hd := WeightedMean.den_pos (·.p0) ds hw hne
  unfold wmean quot
  rw [div_fin_fin]
  have : sumBy (·.p0) ds = WeightedMean.den (·.p0) ds := rfl
  rw [this, if_neg (ne_of_gt hd)]
  rfl

open MetricPool in
/-- For a weighted-mean metric with positive weights, on the tables MetricFrame builds from ANY
    dataset, the overall value of every stratum lies between the smallest and the largest group
    value of that stratum. -/
theorem wmean_overall_between (q : Dat → Rat) (ncf nsf : Nat) (hn : 0 < ncf + nsf)
    (rows : List (Row Dat)) (hwf : WF ncf nsf rows) (hw : ∀ r ∈ rows, 0 < r.dat.p0)
    (c : Key) (o m M : Rat)
    (ho : overallAt (ofFrame ncf nsf (wmean q) rows) c = fin o)
    (hm : minSkip (vals (ofFrame ncf nsf (wmean q) rows) c) = fin m)
    (hM : maxSkip (vals (ofFrame ncf nsf (wmean q) rows) c) = fin M) : m ≤ o ∧ o ≤ M := by
  set t := ofFrame ncf nsf (wmean q) rows with ht
  -- the cell function of the by_group table
  let cellOf : Key → Cell := fun k =>
    if rowsOf Row.key k rows = [] then Cell.nan else wmean q (slice (rowsOf Row.key k rows))
  have hby : ∀ e ∈ t.byGroup, e.2 = cellOf e.1 := by
    intro e he
    exact C01.applyFunctions_cell Cell.nan Row.key (ncf + nsf) hn (wmean q) rows e.1 e.2 he
  have hwslice : ∀ k, ∀ d ∈ slice (rowsOf Row.key k rows), 0 < d.p0 := by
    intro k d hd
    obtain ⟨r, hr, rfl⟩ := List.mem_map.mp hd
    exact hw r (mem_rowsOf.mp hr).1
  -- finite group values are exactly the means of the non-empty cells of the stratum
  have hfin : ∀ x, fin x ∈ vals t c → ∃ k ∈ C01.keys t.byGroup, k.take ncf = c ∧
      rowsOf Row.key k rows ≠ [] ∧
      x = WeightedMean.num q (·.p0) (slice (rowsOf Row.key k rows)) /
          WeightedMean.den (·.p0) (slice (rowsOf Row.key k rows)) := by
    intro x hx
    simp only [vals, List.mem_map, List.mem_filter] at hx
    obtain ⟨e, ⟨he, hpre⟩, hcx⟩ := hx
    refine ⟨e.1, List.mem_map.mpr ⟨e, he, rfl⟩, by simpa [stratumOf, ht, ofFrame] using hpre, ?_⟩
    rw [hby e he] at hcx
    by_cases hemp : rowsOf Row.key e.1 rows = []
    · simp [cellOf, hemp, Cell.nan, coerce] at hcx
    · refine ⟨hemp, ?_⟩
      have hne : slice (rowsOf Row.key e.1 rows) ≠ [] := by simpa [slice] using hemp
      simp only [cellOf, hemp, if_false] at hcx
      rw [wmean_of_pos q _ (hwslice e.1) hne] at hcx
      simp only [coerce] at hcx
      injection hcx with hcx
      exact hcx.symm
  -- every non-empty cell of the stratum contributes a finite group value
  have hcell : ∀ k ∈ C01.keys t.byGroup, k.take ncf = c → rowsOf Row.key k rows ≠ [] →
      fin (WeightedMean.num q (·.p0) (slice (rowsOf Row.key k rows)) /
           WeightedMean.den (·.p0) (slice (rowsOf Row.key k rows))) ∈ vals t c := by
    intro k hk hpre hemp
    obtain ⟨e, he, rfl⟩ := List.mem_map.mp hk
    simp only [vals, List.mem_map, List.mem_filter]
    refine ⟨e, ⟨he, by simpa [stratumOf, ht, ofFrame] using hpre⟩, ?_⟩
    rw [hby e he]
    have hne : slice (rowsOf Row.key e.1 rows) ≠ [] := by simpa [slice] using hemp
    simp only [cellOf, hemp, if_false]
    rw [wmean_of_pos q _ (hwslice e.1) hne]
    rfl
  have hfc : FinNan (vals t c) := by
    intro x hx
    simp only [vals, List.mem_map, List.mem_filter] at hx
    obtain ⟨e, ⟨he, _⟩, rfl⟩ := hx
    rw [hby e he]
    by_cases hemp : rowsOf Row.key e.1 rows = []
    · left; simp [cellOf, hemp, Cell.nan, coerce]
    · right
      have hne : slice (rowsOf Row.key e.1 rows) ≠ [] := by simpa [slice] using hemp
      simp only [cellOf, hemp, if_false]
      rw [wmean_of_pos q _ (hwslice e.1) hne]
      exact ⟨_, rfl⟩
  obtain ⟨_, hlo⟩ := minSkip_eq_fin hfc hm
  obtain ⟨_, hhi⟩ := maxSkip_eq_fin hfc hM
  -- the overall cell of the stratum
  have hov : rowsOf Row.ckey c rows ≠ [] ∧
      o = WeightedMean.num q (·.p0) (slice (rowsOf Row.ckey c rows)) /
          WeightedMean.den (·.p0) (slice (rowsOf Row.ckey c rows)) := by
    unfold overallAt at ho
    split at ho
    · next cell hl =>
      have hmem := lookup_mem hl
      have hcell' : cell = if rowsOf Row.ckey c rows = [] then Cell.nan
          else wmean q (slice (rowsOf Row.ckey c rows)) := by
        by_cases h0 : ncf = 0
        · have hmem' : (c, cell) ∈ [(([] : Key), wmean q (slice rows))] := by
            simpa [ht, ofFrame, overall, applyFunctions, h0] using hmem
          simp only [List.mem_singleton, Prod.mk.injEq] at hmem'
          obtain ⟨hc0, hcell0⟩ := hmem'
          have hall : rowsOf Row.ckey c rows = rows := by
            rw [hc0]
            simp only [rowsOf, List.filter_eq_self, beq_iff_eq]
            intro r hr
            exact List.eq_nil_of_length_eq_zero (by rw [Row.ckey, (hwf r hr).1, h0])
          rw [hall, hcell0]
          by_cases hr0 : rows = []
          · subst hr0
            simp [slice, wmean, MetricPool.quot, MetricPool.sumBy, XR.div, Cell.nan]
          · simp [hr0]
        · exact C01.applyFunctions_cell Cell.nan Row.ckey ncf (by omega) (wmean q) rows c cell hmem
      rw [hcell'] at ho
      by_cases hemp : rowsOf Row.ckey c rows = []
      · simp [hemp, Cell.nan, coerce] at ho
      · refine ⟨hemp, ?_⟩
        have hne : slice (rowsOf Row.ckey c rows) ≠ [] := by simpa [slice] using hemp
        have hws : ∀ d ∈ slice (rowsOf Row.ckey c rows), 0 < d.p0 := by
          intro d hd
          obtain ⟨r, hr, rfl⟩ := List.mem_map.mp hd
          exact hw r (mem_rowsOf.mp hr).1
        simp only [hemp, if_false] at ho
        rw [wmean_of_pos q _ hws hne] at ho
        simp only [coerce] at ho
        injection ho with ho
        exact ho.symm
    · cases ho
  obtain ⟨hcne, ho'⟩ := hov
  -- partition of the stratum's rows into its cells
  have hpart := C01.stratum_partition Cell.nan ncf nsf hn (wmean q) rows hwf c
  set ks := (C01.keys (byGroup Cell.nan ncf nsf (wmean q) rows)).filter (fun k => k.take ncf == c) with hks
  have hpart' : (ks.flatMap (fun k => slice (rowsOf Row.key k rows))).Perm (slice (rowsOf Row.ckey c rows)) := by
    have := hpart.map (·.dat)
    rwa [List.map_flatMap] at this
  rw [ho', ← WeightedMean.num_perm q (·.p0) hpart', ← WeightedMean.den_perm (·.p0) hpart']
  apply WeightedMean.mean_between q (·.p0) ks (fun k => slice (rowsOf Row.key k rows))
  · intro k _ d hd; exact hwslice k d hd
  · intro k hk hne
    have hk' := List.mem_filter.mp hk
    have hemp : rowsOf Row.key k rows ≠ [] := by simpa [slice] using hne
    have hv := hcell k hk'.1 (by simpa using hk'.2) hemp
    exact ⟨hlo _ (mem_fins.mpr hv), hhi _ (mem_fins.mpr hv)⟩
  · intro hnil
    have := hpart'.length_eq
    rw [hnil] at this
    have hl : (slice (rowsOf Row.ckey c rows)).length = 0 := by simpa using this.symm
    exact hcne (by simpa [slice] using List.eq_nil_of_length_eq_zero hl)

open MetricPool in
/-- Hence, for weighted-mean metrics (selection rate, accuracy, mean prediction) the to_overall
    difference never exceeds the between_groups difference — for every dataset, any number of
    sensitive/control features, any positive weights. -/
theorem overall_le_between_of_weighted_mean (q : Dat → Rat) (ncf nsf : Nat) (hn : 0 < ncf + nsf)
    (rows : List (Row Dat)) (hwf : WF ncf nsf rows) (hw : ∀ r ∈ rows, 0 < r.dat.p0)
    (e : Errors) (c : Key) (hc : c ∈ strata (ofFrame ncf nsf (wmean q) rows))
    (hs : hasNonscalar (ofFrame ncf nsf (wmean q) rows) = false)
    (hf : FiniteCells (ofFrame ncf nsf (wmean q) rows)) (db dov : Rat)
    (hb : valueAt (difference .between e (ofFrame ncf nsf (wmean q) rows)) c = some (fin db))
    (hov : valueAt (difference .toOverall e (ofFrame ncf nsf (wmean q) rows)) c = some (fin dov)) :
    dov ≤ db := by
  set t := ofFrame ncf nsf (wmean q) rows
  have hfn := finNan_vals hf c
  have hb' := hb
  rw [difference_between_at e t (Or.inr hs) hc] at hb'
  injection hb' with hb'
  rcases min_max_together hfn with ⟨h1, _⟩ | ⟨m, M, h1, h2, _⟩
  · rw [h1, diffOf_nan] at hb'; cases hb'
  · have hov' := hov
    rw [difference_overall_at e t hs hc] at hov'
    injection hov' with hov'
    rcases overallAt_finNan hf c with ho | ⟨o, ho⟩
    · rw [ho, diffOf_nan] at hov'; cases hov'
    · obtain ⟨hmo, hoM⟩ := wmean_overall_between q ncf nsf hn rows hwf hw c o m M ho h1 h2
      exact overall_le_between e t hs hf c hc m M o db dov
        (by rw [groupMin_at e t (Or.inr hs) hc, h1]) (by rw [groupMax_at e t (Or.inr hs) hc, h2])
        ho hmo hoM hb hov

/-! ### the method bodies lifted from the source are the model

`Generated/AggregateGen.lean` is rewritten on every run by symbolic execution of the bodies of
`DisaggregatedResult.apply_grouping / difference / ratio` (method dispatch, which grouping function is
combined with which operator, the `.abs()`, the final `groupby(level=control).max()` / `.min()`, the
unstack round trip), as compositions of the pandas-level primitives of `Model/AggregatePrim.lean`.
Every theorem of this file is about `Aggregate.applyGrouping / difference / ratio`; these three say
that this IS the lifted source text, for every table, method and errors value. -/

theorem applyGroupingGen_eq_model (g : Grouping) (e : Errors) (t : Tables) :
    AggregateGen.applyGroupingGen g e t = applyGrouping g e t := AggregateGen.applyGroupingGen_eq g e t

theorem differenceGen_eq_model (m : Method) (e : Errors) (t : Tables) :
    AggregateGen.differenceGen m e t = difference m e t := AggregateGen.differenceGen_eq m e t

theorem ratioGen_eq_model (m : Method) (e : Errors) (t : Tables) :
    AggregateGen.ratioGen m e t = ratio m e t := AggregateGen.ratioGen_eq m e t

/-! ### the result cache, the accessor defaults and `_extract_result`, lifted from `_metric_frame.py`

`Generated/PopulateSrc.lean` (lifter `populate.py`) is the symbolically executed `_populate_results` (+ `_group`): for every
cache slot the `DisaggregatedResult` call, the `method` / `errors` value and the `no_control_levels=` flag it is computed
with, plus the default `errors=` / `method=` of `MetricFrame.group_min / group_max / difference / ratio` and the slot each
of them returns.  `Model/AggregateCache.lean` interprets it (driver op `aggc.eval`, compared with the real accessors on
every case, with and without explicit arguments).  The theorems say that slot `(method, errors)` holds the aggregate
evaluated with exactly THAT method and errors value, that the accessors default to errors='raise' (group_min / group_max)
resp. method='between_groups', errors='coerce' (difference / ratio), and that the lifted `_extract_result`
(`FrameSrc.extract_result`) hands out the documented part (scalar / Series / frame) for every accessor. -/

theorem src_populate_eq_model (usc : Bool) (s : PopulateSrc.Slot) (t : Tables) :
    AggCache.cached usc s t = .got (AggCache.documentedMode usc t.ncf) (AggCache.direct s t) := AggCache.cached_eq usc s t

theorem src_group_min_eq_model (errors : Option Errors) (usc : Bool) (t : Tables) :
    AggCache.groupMinPub errors usc t = .got (AggCache.documentedMode usc t.ncf) (groupMin (errors.getD .raise) t) :=
  AggCache.groupMinPub_eq errors usc t

theorem src_group_max_eq_model (errors : Option Errors) (usc : Bool) (t : Tables) :
    AggCache.groupMaxPub errors usc t = .got (AggCache.documentedMode usc t.ncf) (groupMax (errors.getD .raise) t) :=
  AggCache.groupMaxPub_eq errors usc t

theorem src_difference_eq_model (method : Option Method) (errors : Option Errors) (usc : Bool) (t : Tables) :
    AggCache.differencePub method errors usc t =
      .got (AggCache.documentedMode usc t.ncf) (difference (method.getD .between) (errors.getD .coerce) t) :=
  AggCache.differencePub_eq method errors usc t

theorem src_ratio_eq_model (method : Option Method) (errors : Option Errors) (usc : Bool) (t : Tables) :
    AggCache.ratioPub method errors usc t =
      .got (AggCache.documentedMode usc t.ncf) (ratio (method.getD .between) (errors.getD .coerce) t) :=
  AggCache.ratioPub_eq method errors usc t

/-- the 12 explicit `(method, errors)` calls of the lifted op `aggc.eval` are the 12 results of `agg.eval` (`allResults`,
    the list every other theorem of this file is about) -/
theorem src_cache_explicit_calls (usc : Bool) (t : Tables) :
    ((AggCache.allCalls usc t).take 12).map AggCache.Got.value = allResults t := AggCache.allCalls_explicit usc t

/-- the calls that leave `errors=` and / or `method=` out: the documented defaults -/
theorem src_cache_default_calls (usc : Bool) (t : Tables) :
    ((AggCache.allCalls usc t).drop 12).map AggCache.Got.value =
      [groupMin .raise t, groupMax .raise t,
       difference .between .coerce t, difference .between .coerce t, difference .toOverall .coerce t,
       difference .between .raise t, difference .between .coerce t,
       ratio .between .coerce t, ratio .between .coerce t, ratio .toOverall .coerce t,
       ratio .between .raise t, ratio .between .coerce t] := AggCache.allCalls_defaults usc t

/-- callable-vs-dict: every accessor hands out the documented part of the underlying pandas result (bare callable:
    the scalar without, a Series with control features; dict: the whole Series / DataFrame) -/
theorem src_extract_documented (usc : Bool) (t : Tables) :
    ∀ g ∈ AggCache.allCalls usc t, ∃ r, g = .got (AggCache.documentedMode usc t.ncf) r := AggCache.allCalls_mode usc t

-- non-vacuity / regression witness: groups 1 and a NON-SCALAR cell, bare callable, no control features: the raise and
-- coerce slots differ, group_min() / group_max() raise (default 'raise'), difference() / ratio() answer (default 'coerce')
example : (AggCache.allCalls true ⟨0, [(["a"], .scalar (fin 1)), (["b"], .nonscalar)], [([], .scalar (fin 1))], false⟩).map
    AggCache.Got.fmt =
    ["entry0:err", "entry0:-|1", "entry0:err", "entry0:-|1", "entry0:err", "entry0:-|0", "entry0:err", "entry0:err",
     "entry0:err", "entry0:-|1", "entry0:err", "entry0:err",
     "entry0:err", "entry0:err", "entry0:-|0", "entry0:-|0", "entry0:err", "entry0:err", "entry0:-|0",
     "entry0:-|1", "entry0:-|1", "entry0:err", "entry0:err", "entry0:-|1"] := by
  decide +kernel

/-! ### when the disparities vanish -/

/-- between_groups difference = 0 iff the stratum has a non-empty group and all non-empty groups have
    the same value -/
theorem difference_between_eq_zero_iff (e : Errors) (t : Tables) (hs : e = .coerce ∨ hasNonscalar t = false)
    (hf : FiniteCells t) (c : Key) (hc : c ∈ strata t) :
    valueAt (difference .between e t) c = some (fin 0) ↔
      (fins (vals t c) ≠ [] ∧ ∀ p ∈ fins (vals t c), ∀ q ∈ fins (vals t c), p = q) := by
  have hfn := finNan_vals hf c
  rw [difference_between_at e t hs hc]
  rcases min_max_together hfn with ⟨h1, _⟩ | ⟨m, M, h1, h2, _⟩
  · rw [h1, diffOf_nan]
    constructor
    · intro h; cases h
    · intro ⟨hne, _⟩; exact absurd (minSkip_eq_nan hfn h1) hne
  · rw [h1, diffOf_min hfn h1 h2]
    have hiff := min_eq_max_iff hfn h1 h2
    constructor
    · intro h
      injection h with h; injection h with h
      have hall := hiff.mp (by linarith)
      exact ⟨fins_ne_nil_of_min hfn h1, fun p hp q hq => by rw [hall p hp, hall q hq]⟩
    · intro ⟨_, hall⟩
      have : M = m := hall M (maxSkip_eq_fin hfn h2).1 m (minSkip_eq_fin hfn h1).1
      rw [this]; simp

/-- to_overall difference = 0 iff the stratum has a non-empty group and every non-empty group equals
    the overall value of the stratum -/
theorem difference_overall_eq_zero_iff (e : Errors) (t : Tables) (hs : hasNonscalar t = false)
    (hf : FiniteCells t) (c : Key) (hc : c ∈ strata t) (o : Rat) (ho : overallAt t c = fin o) :
    valueAt (difference .toOverall e t) c = some (fin 0) ↔
      (fins (vals t c) ≠ [] ∧ ∀ q ∈ fins (vals t c), q = o) := by
  rw [difference_overall_at e t hs hc, ho]
  constructor
  · intro h; injection h with h
    exact (diffOf_eq_zero_iff (finNan_vals hf c) o).mp h
  · intro h
    rw [(diffOf_eq_zero_iff (finNan_vals hf c) o).mpr h]

/-- between_groups ratio = 1 iff the stratum has a non-empty group, all non-empty groups have the
    same value, and that value is not zero (0/0 is NaN) -/
theorem ratio_between_eq_one_iff (e : Errors) (t : Tables) (hs : e = .coerce ∨ hasNonscalar t = false)
    (hf : FiniteCells t) (c : Key) (hc : c ∈ strata t) :
    valueAt (ratio .between e t) c = some (fin 1) ↔
      ∃ v, v ≠ 0 ∧ fins (vals t c) ≠ [] ∧ ∀ q ∈ fins (vals t c), q = v := by
  have hfn := finNan_vals hf c
  rw [ratio_between_at e t hs hc]
  rcases min_max_together hfn with ⟨h1, _⟩ | ⟨m, M, h1, h2, _⟩
  · rw [h1]
    constructor
    · intro h; cases h
    · intro ⟨_, _, hne, _⟩; exact absurd (minSkip_eq_nan hfn h1) hne
  · rw [h1, h2]
    have hiff := min_eq_max_iff hfn h1 h2
    constructor
    · intro h
      injection h with h
      obtain ⟨hmM, hM0⟩ := (div_eq_one_iff m M).mp h
      exact ⟨m, by rw [hmM]; exact hM0, fins_ne_nil_of_min hfn h1, hiff.mp hmM.symm⟩
    · intro ⟨v, hv, _, hall⟩
      have hm : m = v := hall m (minSkip_eq_fin hfn h1).1
      have hM : M = v := hall M (maxSkip_eq_fin hfn h2).1
      rw [(div_eq_one_iff m M).mpr ⟨by rw [hm, hM], by rw [hM]; exact hv⟩]

/-- exactly one non-empty group `v` in the stratum: between_groups difference 0, ratio 1 — or NaN when
    `v = 0` (0/0) -/
theorem single_group (e : Errors) (t : Tables) (hs : e = .coerce ∨ hasNonscalar t = false)
    (hf : FiniteCells t) (c : Key) (hc : c ∈ strata t) (v : Rat) (hv : fins (vals t c) = [v]) :
    valueAt (groupMin e t) c = some (fin v) ∧ valueAt (groupMax e t) c = some (fin v) ∧
    valueAt (difference .between e t) c = some (fin 0) ∧
    valueAt (ratio .between e t) c = some (if v = 0 then nan else fin 1) := by
  have hfn := finNan_vals hf c
  obtain ⟨h1, h2⟩ := single_min_max hfn hv
  refine ⟨by rw [groupMin_at e t hs hc, h1], by rw [groupMax_at e t hs hc, h2], ?_, ?_⟩
  · rw [difference_between_at e t hs hc, h1, diffOf_min hfn h1 h2]; simp
  · rw [ratio_between_at e t hs hc, h1, h2, div_fin_fin]
    by_cases h0 : v = 0
    · simp [h0]
    · simp [h0]

/-! ### ratio(to_overall) ≥ ratio(between_groups) -/

/-- on a stratum with non-negative group values whose overall value lies between the group minimum and
    maximum, the to_overall ratio is never smaller than the between_groups ratio -/
theorem ratio_overall_ge_between (e : Errors) (t : Tables) (hs : hasNonscalar t = false)
    (hf : FiniteCells t) (c : Key) (hc : c ∈ strata t) (hnn : ∀ q ∈ fins (vals t c), 0 ≤ q)
    (m M o rb ro : Rat) (hm : minSkip (vals t c) = fin m) (hM : maxSkip (vals t c) = fin M)
    (ho : overallAt t c = fin o) (hmo : m ≤ o) (hoM : o ≤ M)
    (hb : valueAt (ratio .between e t) c = some (fin rb))
    (hov : valueAt (ratio .toOverall e t) c = some (fin ro)) : rb ≤ ro := by
  rw [ratio_between_at e t (Or.inr hs) hc, hm, hM] at hb
  rw [ratio_overall_at e t hs hc, ho] at hov
  injection hb with hb; injection hov with hov
  exact ratioOverallOf_ge_between (finNan_vals hf c) hnn hm hM hmo hoM hb hov

/-- the clause is FALSE without "overall between the extremes": groups 1, 2 with overall 4 give
    between = 1/2 but to_overall = 1/4 -/
theorem ratio_overall_ge_between_needs_between :
    ∃ t : Tables, hasNonscalar t = false ∧
      valueAt (ratio .between .coerce t) [] = some (fin (1/2)) ∧
      valueAt (ratio .toOverall .coerce t) [] = some (fin (1/4)) :=
  ⟨⟨0, [(["a"], .scalar (fin 1)), (["b"], .scalar (fin 2))], [([], .scalar (fin 4))], false⟩,
   by decide +kernel, by decide +kernel, by decide +kernel⟩

open MetricPool in
/-- Hence for NON-NEGATIVE weighted-mean metrics (selection rate, accuracy, mean prediction of
    non-negative predictions) with positive weights, on the tables MetricFrame builds from any
    dataset with any number of sensitive / control features: ratio(to_overall) ≥ ratio(between_groups)
    in every control stratum. -/
theorem ratio_overall_ge_between_of_weighted_mean (q : Dat → Rat) (ncf nsf : Nat) (hn : 0 < ncf + nsf)
    (rows : List (Row Dat)) (hwf : WF ncf nsf rows) (hw : ∀ r ∈ rows, 0 < r.dat.p0)
    (e : Errors) (c : Key) (hc : c ∈ strata (ofFrame ncf nsf (wmean q) rows))
    (hs : hasNonscalar (ofFrame ncf nsf (wmean q) rows) = false)
    (hf : FiniteCells (ofFrame ncf nsf (wmean q) rows))
    (hnn : ∀ v ∈ fins (vals (ofFrame ncf nsf (wmean q) rows) c), 0 ≤ v) (rb ro : Rat)
    (hb : valueAt (ratio .between e (ofFrame ncf nsf (wmean q) rows)) c = some (fin rb))
    (hov : valueAt (ratio .toOverall e (ofFrame ncf nsf (wmean q) rows)) c = some (fin ro)) :
    rb ≤ ro := by
  set t := ofFrame ncf nsf (wmean q) rows
  have hfn := finNan_vals hf c
  have hb' := hb
  rw [ratio_between_at e t (Or.inr hs) hc] at hb'
  injection hb' with hb'
  rcases min_max_together hfn with ⟨h1, _⟩ | ⟨m, M, h1, h2, _⟩
  · rw [h1] at hb'; cases hb'
  · have hov' := hov
    rw [ratio_overall_at e t hs hc] at hov'
    injection hov' with hov'
    rcases overallAt_finNan hf c with ho | ⟨o, ho⟩
    · -- a NaN overall value makes every quotient NaN
      rw [ho] at hov'
      exfalso
      unfold ratioOverallOf at hov'
      simp only [AggregateSpec.ratioOverallAgg, Grouping.apply] at hov'
      rcases minSkip_mem ((vals t c).map (fun v => AggregateSpec.ratioSubOne (XR.div v nan))) with hn' | hmem
      · rw [hn'] at hov'; cases hov'
      · rw [hov'] at hmem
        obtain ⟨v, _, hve⟩ := List.mem_map.mp hmem
        have : XR.div v nan = nan := by cases v <;> rfl
        rw [this, ratioSubOne_nan] at hve; cases hve
    · obtain ⟨hmo, hoM⟩ := wmean_overall_between q ncf nsf hn rows hwf hw c o m M ho h1 h2
      exact ratio_overall_ge_between e t hs hf c hc hnn m M o rb ro h1 h2 ho hmo hoM hb hov

/-! ### multi-metric frames: every aggregate is computed column by column

`AggFrame.FTables` is a MetricFrame with any number `ncols` of metric columns (by_group / overall kept
row-major like the pandas DataFrames); `colTab ft j` is metric column `j` as a single-metric table, with
`othersNonscalar` = "some OTHER column holds a non-scalar cell"; `colX j` reads column `j` of a result.
For rectangular frames (`WF`) with any number of columns, rows and control strata: -/

open AggFrame in
/-- group_min / group_max.  With `errors='raise'` the call fails for EVERY column as soon as one
    by_group column holds a non-scalar cell (`frame_raise_fails_iff`), and so does the column model. -/
theorem frame_group_col (g : Grouping) (e : Errors) (ft : FTables) (j : Nat) (hj : j < ft.ncols)
    (hs : e = .coerce ∨ ovNs ft = false) :
    (applyGroupingF g e ft).map (colX j) = applyGrouping g e (colTab ft j) :=
  applyGroupingF_col g e ft hj hs

open AggFrame in
theorem frame_raise_fails_iff (g : Grouping) (ft : FTables) :
    applyGroupingF g .raise ft = none ↔ byNs ft = true := applyGroupingF_raise_none_iff g ft

open AggFrame in
theorem frame_coerce_answers (g : Grouping) (ft : FTables) :
    (applyGroupingF g .coerce ft).isSome = true := applyGroupingF_coerce_isSome g ft

open AggFrame in
theorem frame_difference_between_col (e : Errors) (ft : FTables) (hw : AggFrame.WF ft) (j : Nat)
    (hj : j < ft.ncols) (hs : e = .coerce ∨ ovNs ft = false) :
    (differenceF .between e ft).map (colX j) = difference .between e (colTab ft j) :=
  differenceF_between_col e ft hw hj hs

open AggFrame in
theorem frame_difference_overall_col (e : Errors) (ft : FTables) (hw : AggFrame.WF ft) (j : Nat)
    (hj : j < ft.ncols) (hs : byNs ft = false ∨ ovNs ft = true) :
    (differenceF .toOverall e ft).map (colX j) = difference .toOverall e (colTab ft j) :=
  differenceF_overall_col e ft hw hj hs

open AggFrame in
/-- `difference(method='to_overall')` coerces by_group but not overall: it fails iff an OVERALL cell is
    non-scalar, and non-scalar by_group cells count as NaN — for both values of `errors` -/
theorem frame_difference_overall_errors (e : Errors) (ft : FTables) :
    (differenceF .toOverall e ft = none ↔ ovNs ft = true) ∧
    differenceF .toOverall e ft = differenceF .toOverall e (scrubBy ft) :=
  ⟨differenceF_overall_none_iff e ft, differenceF_overall_scrub e ft⟩

open AggFrame in
theorem frame_ratio_between_col (e : Errors) (ft : FTables) (j : Nat)
    (hj : j < ft.ncols) (hs : e = .coerce ∨ ovNs ft = false) :
    (ratioF .between e ft).map (colX j) = ratio .between e (colTab ft j) :=
  ratioF_between_col e ft hj hs

open AggFrame in
theorem frame_ratio_overall_col (e : Errors) (ft : FTables) (hw : AggFrame.WF ft) (j : Nat)
    (hj : j < ft.ncols) :
    (ratioF .toOverall e ft).map (colX j) = ratio .toOverall e (colTab ft j) :=
  ratioF_overall_col e ft hw hj

open AggFrame in
/-- summary for all-scalar frames: all 12 results, column by column, are the single-metric results -/
theorem frame_all_results_col (ft : FTables) (hw : AggFrame.WF ft) (j : Nat) (hj : j < ft.ncols)
    (hb : byNs ft = false) (ho : ovNs ft = false) :
    (allResultsF ft).map (fun r => r.map (colX j)) = allResults (colTab ft j) := by
  simp only [allResultsF, allResults, groupMinF, groupMaxF, groupMin, groupMax, List.map_cons, List.map_nil]
  rw [applyGroupingF_col .min .raise ft hj (Or.inr ho), applyGroupingF_col .min .coerce ft hj (Or.inr ho),
    applyGroupingF_col .max .raise ft hj (Or.inr ho), applyGroupingF_col .max .coerce ft hj (Or.inr ho),
    differenceF_between_col .raise ft hw hj (Or.inr ho), differenceF_between_col .coerce ft hw hj (Or.inr ho),
    differenceF_overall_col .raise ft hw hj (Or.inl hb), differenceF_overall_col .coerce ft hw hj (Or.inl hb),
    ratioF_between_col .raise ft hj (Or.inr ho), ratioF_between_col .coerce ft hj (Or.inr ho),
    ratioF_overall_col .raise ft hw hj, ratioF_overall_col .coerce ft hw hj]

/-! ### Non-vacuity -/

def exT : Tables :=
  ⟨1, [(["k", "a"], .scalar (fin (1/2))), (["k", "b"], .scalar nan), (["k", "c"], .scalar (fin 1)),
       (["m", "a"], .scalar (fin 0)), (["m", "b"], .scalar (fin 0)), (["m", "c"], .scalar nan)],
      [(["k"], .scalar (fin (2/3))), (["m"], .scalar (fin 0))], false⟩

example : strata exT = [["k"], ["m"]] := by decide +kernel
example : hasNonscalar exT = false := by decide +kernel
example : groupMin .raise exT = some [(["k"], fin (1/2)), (["m"], fin 0)] := by decide +kernel
example : difference .between .coerce exT = some [(["k"], fin (1/2)), (["m"], fin 0)] := by decide +kernel
example : difference .toOverall .coerce exT = some [(["k"], fin (1/3)), (["m"], fin 0)] := by decide +kernel
example : ratio .between .coerce exT = some [(["k"], fin (1/2)), (["m"], nan)] := by decide +kernel
example : ratio .toOverall .coerce exT = some [(["k"], fin (2/3)), (["m"], nan)] := by decide +kernel
example : ratio .between .coerce negTable = some [([], fin (3/2))] := by decide +kernel
-- F8b witness: groups -1 and 3, overall 2: code keeps r = -1/2, min(r, 1/r) would be -2
example : ratio .toOverall .coerce ⟨0, [(["a"], .scalar (fin (-1))), (["b"], .scalar (fin 3))], [([], .scalar (fin 2))], false⟩
    = some [([], fin (-1/2))] := by decide +kernel
example : ¬ (AggregateSpec.ratioSubOne (fin (-1/2)) = minSkip2 (fin (-1/2)) (XR.div (fin 1) (fin (-1/2)))) := by
  decide +kernel
-- zero denominators
example : ratio .between .coerce ⟨0, [(["a"], .scalar (fin (-1))), (["b"], .scalar (fin 0))], [([], .scalar (fin 0))], false⟩
    = some [([], ninf)] := by decide +kernel
example : ratio .toOverall .coerce ⟨0, [(["a"], .scalar (fin 1)), (["b"], .scalar (fin 0))], [([], .scalar (fin 0))], false⟩
    = some [([], fin 0)] := by decide +kernel
-- a non-scalar column: raise fails, coerce skips it
example : groupMin .raise ⟨0, [(["a"], .nonscalar), (["b"], .scalar (fin 1))], [([], .nonscalar)], false⟩ = none := by
  decide +kernel
example : groupMin .coerce ⟨0, [(["a"], .nonscalar), (["b"], .scalar (fin 1))], [([], .nonscalar)], false⟩
    = some [([], fin 1)] := by decide +kernel


-- a two-metric frame with one control feature, a NaN cell and an all-NaN stratum; column 1 has a
-- non-scalar by_group cell
def exF : AggFrame.FTables :=
  ⟨1, 2, [(["k", "a"], [.scalar (fin (1/2)), .scalar (fin 3)]), (["k", "b"], [.scalar nan, .nonscalar]),
          (["m", "a"], [.scalar nan, .scalar nan]), (["m", "b"], [.scalar nan, .scalar (fin (-1))])],
      [(["k"], [.scalar (fin 1), .scalar (fin 2)]), (["m"], [.scalar nan, .scalar (fin (-1))])]⟩

example : AggFrame.WF exF := by decide +kernel
example : AggFrame.byNs exF = true ∧ AggFrame.ovNs exF = false := by decide +kernel
example : AggFrame.applyGroupingF .min .raise exF = none := by decide +kernel
example : AggFrame.applyGroupingF .min .coerce exF = some [(["k"], [fin (1/2), fin 3]), (["m"], [nan, fin (-1)])] := by
  decide +kernel
example : AggFrame.differenceF .toOverall .raise exF = some [(["k"], [fin (1/2), fin 1]), (["m"], [nan, fin 0])] := by
  decide +kernel
example : AggFrame.ratioF .toOverall .coerce exF = none := by decide +kernel
example : (AggFrame.colTab exF 0).othersNonscalar = true := by decide +kernel
-- single group, zero value: ratio 0/0 = NaN
example : ratio .between .coerce ⟨0, [(["a"], .scalar (fin 0)), (["b"], .scalar nan)], [([], .scalar (fin 0))], false⟩
    = some [([], nan)] := by decide +kernel


/-! ## Review additions (R1): full-strength forms, error/inf branches, data-level corollaries -/

/-! ### names cited by `known_findings.json` (F8 / F8b) -/

/-- F8 (name cited by known_findings.json): all group values negative, not all equal ⇒ ratio > 1 -/
theorem ratio_gt_one_of_all_negative (e : Errors) (t : Tables)
    (hs : e = .coerce ∨ hasNonscalar t = false) (c : Key) (hc : c ∈ strata t) (m M : Rat)
    (hm : valueAt (groupMin e t) c = some (fin m)) (hM : valueAt (groupMax e t) c = some (fin M))
    (hneg : M < 0) (hlt : m < M) :
    valueAt (ratio .between e t) c = some (fin (m / M)) ∧ 1 < m / M :=
  ratio_between_gt_one_of_all_negative e t hs c hc m M hm hM hneg hlt

-- hypotheses of F8 met by a concrete table with two DIFFERENT group values (m = -3 ≠ M = -2)
example : valueAt (groupMin .coerce negTable) [] = some (fin (-3)) ∧
    valueAt (groupMax .coerce negTable) [] = some (fin (-2)) ∧ ([] : Key) ∈ strata negTable := by decide +kernel

/-- F8b (name cited by known_findings.json): for EVERY quotient r ∈ (-1,0) the code's `ratio_sub_one`
    returns `r`, while `min(r, 1/r) = 1/r < r` -/
theorem ratioSubOne_ne_min_of_neg (r : Rat) (h1 : -1 < r) (h0 : r < 0) :
    AggregateSpec.ratioSubOne (fin r) = fin r ∧
    minSkip2 (fin r) (XR.div (fin 1) (fin r)) = fin (1 / r) ∧ 1 / r < r := by
  have hne : r ≠ 0 := ne_of_lt h0
  have hlt : 1 / r < r := by
    rw [div_lt_iff_of_neg h0]; nlinarith
  refine ⟨?_, ?_, hlt⟩
  · rw [ratioSubOne_fin, if_neg (by linarith)]
  · rw [div_fin_fin, if_neg hne, minSkip2_fin_fin, if_pos hlt]

example : (-1 : Rat) < -1/2 ∧ (-1/2 : Rat) < 0 := by norm_num

/-! ### the results on EXTENDED values (no `= some (fin r)` premise): which of NaN / ±inf can occur -/

/-- ratio(to_overall) is NaN, -inf, or a finite number ≤ 1 — NEVER +inf and never a finite number > 1;
    for every table (±inf cells included), every stratum. -/
theorem ratio_overall_leOne (e : Errors) (t : Tables) (hs : hasNonscalar t = false)
    (c : Key) (hc : c ∈ strata t) :
    ∃ x, valueAt (ratio .toOverall e t) c = some x ∧ LeOne x :=
  ⟨_, ratio_overall_at e t hs hc, ratioOverallOf_leOne _ _⟩

/-- ratio(between_groups) on a finite table, ALL cases: NaN iff no non-empty group or min = max = 0
    (0/0); -inf iff max = 0 > min; otherwise the exact quotient min/max.  Never +inf. -/
theorem ratio_between_cases (e : Errors) (t : Tables) (hs : e = .coerce ∨ hasNonscalar t = false)
    (hf : FiniteCells t) (c : Key) (hc : c ∈ strata t) :
    (fins (vals t c) = [] ∧ valueAt (ratio .between e t) c = some nan) ∨
    ∃ m M, valueAt (groupMin e t) c = some (fin m) ∧ valueAt (groupMax e t) c = some (fin M) ∧ m ≤ M ∧
      ((M = 0 ∧ m = 0 ∧ valueAt (ratio .between e t) c = some nan) ∨
       (M = 0 ∧ m < 0 ∧ valueAt (ratio .between e t) c = some ninf) ∨
       (M ≠ 0 ∧ valueAt (ratio .between e t) c = some (fin (m / M)))) := by
  have hfn := finNan_vals hf c
  rw [ratio_between_at e t hs hc, groupMin_at e t hs hc, groupMax_at e t hs hc]
  rcases min_max_together hfn with ⟨h1, h2⟩ | ⟨m, M, h1, h2, hle⟩
  · left; exact ⟨minSkip_eq_nan hfn h1, by rw [h1, h2]; rfl⟩
  · right
    refine ⟨m, M, by rw [h1], by rw [h2], hle, ?_⟩
    rw [h1, h2]
    rcases div_min_max_cases hle with ⟨a, b, h⟩ | ⟨a, b, h⟩ | ⟨a, h⟩
    · left; exact ⟨a, b, by rw [h]⟩
    · right; left; exact ⟨a, b, by rw [h]⟩
    · right; right; exact ⟨a, by rw [h]⟩

/-- "ratio ≤ 1" for between_groups at full strength on extended values: unless EVERY non-empty group
    value is negative (F8), the result is NaN, -inf or a finite number ≤ 1. -/
theorem ratio_between_leOne (e : Errors) (t : Tables) (hs : e = .coerce ∨ hasNonscalar t = false)
    (hf : FiniteCells t) (c : Key) (hc : c ∈ strata t) (hnn : ∃ q ∈ fins (vals t c), 0 ≤ q) :
    ∃ x, valueAt (ratio .between e t) c = some x ∧ LeOne x := by
  obtain ⟨q, hq, hq0⟩ := hnn
  have hfn := finNan_vals hf c
  rcases ratio_between_cases e t hs hf c hc with ⟨_, h⟩ | ⟨m, M, hm, hM, hle, h⟩
  · exact ⟨_, h, Or.inl rfl⟩
  · rw [groupMax_at e t hs hc] at hM
    injection hM with hM
    have hMq : q ≤ M := (maxSkip_eq_fin hfn hM).2 q hq
    rcases h with ⟨_, _, h⟩ | ⟨_, _, h⟩ | ⟨hM0, h⟩
    · exact ⟨_, h, Or.inl rfl⟩
    · exact ⟨_, h, Or.inr (Or.inl rfl)⟩
    · have hpos : 0 < M := lt_of_le_of_ne (le_trans hq0 hMq) (Ne.symm hM0)
      exact ⟨_, h, Or.inr (Or.inr ⟨_, rfl, by rw [div_le_one hpos]; exact hle⟩)⟩

/-- difference (both methods) on a finite scalar table is NaN or a finite number ≥ 0 — never ±inf -/
theorem difference_cases (m : Method) (e : Errors) (t : Tables) (hs : hasNonscalar t = false)
    (hf : FiniteCells t) (c : Key) (hc : c ∈ strata t) :
    ∃ x, valueAt (difference m e t) c = some x ∧ (x = nan ∨ ∃ d, x = fin d ∧ 0 ≤ d) := by
  have hfn := finNan_vals hf c
  cases m with
  | between =>
    refine ⟨_, difference_between_at e t (Or.inr hs) hc, ?_⟩
    rcases min_max_together hfn with ⟨h1, _⟩ | ⟨m, M, h1, h2, hle⟩
    · left; rw [h1, diffOf_nan]
    · right; exact ⟨M - m, by rw [h1, diffOf_min hfn h1 h2], by linarith⟩
  | toOverall =>
    refine ⟨_, difference_overall_at e t hs hc, ?_⟩
    rcases overallAt_finNan hf c with ho | ⟨o, ho⟩
    · left; rw [ho, diffOf_nan]
    · rw [ho]
      rcases diffOf_spec hfn o with ⟨_, hn⟩ | ⟨D, hD, ⟨q, _, hq⟩, _⟩
      · left; exact hn
      · right; exact ⟨D, hD, by rw [hq]; exact abs_nonneg _⟩

/-- group_min ≤ group_max and both are NaN together -/
theorem groupMin_groupMax_cases (e : Errors) (t : Tables) (hs : e = .coerce ∨ hasNonscalar t = false)
    (hf : FiniteCells t) (c : Key) (hc : c ∈ strata t) :
    (valueAt (groupMin e t) c = some nan ∧ valueAt (groupMax e t) c = some nan) ∨
    ∃ m M, valueAt (groupMin e t) c = some (fin m) ∧ valueAt (groupMax e t) c = some (fin M) ∧ m ≤ M := by
  rw [groupMin_at e t hs hc, groupMax_at e t hs hc]
  rcases min_max_together (finNan_vals hf c) with ⟨h1, h2⟩ | ⟨m, M, h1, h2, hle⟩
  · left; exact ⟨by rw [h1], by rw [h2]⟩
  · right; exact ⟨m, M, by rw [h1], by rw [h2], hle⟩

/-! ### the tables MetricFrame builds from data, for ANY metric function `f`

`ofFrame ncf nsf f rows` is `DisaggregatedResult.create` (model of C01).  Every theorem above is about
an arbitrary `Tables`, hence applies to it; the two side conditions `FiniteCells` / `hasNonscalar = false`
follow from a property of `f` alone: -/

/-- every by_group cell is NaN (empty intersection) or `f` of the rows with exactly that index tuple -/
theorem ofFrame_byGroup_cell {α : Type} (ncf nsf : Nat) (hn : 0 < ncf + nsf) (f : List α → Cell)
    (rows : List (Row α)) (e : Key × Cell) (he : e ∈ (ofFrame ncf nsf f rows).byGroup) :
    e.2 = if rowsOf Row.key e.1 rows = [] then Cell.nan else f (slice (rowsOf Row.key e.1 rows)) :=
  C01.applyFunctions_cell Cell.nan Row.key (ncf + nsf) hn f rows e.1 e.2 he

/-- every overall cell is `f` of all rows (no control features) / of the rows of that control
    combination, or NaN for an unobserved combination -/
theorem ofFrame_overall_cell {α : Type} (ncf nsf : Nat) (f : List α → Cell)
    (rows : List (Row α)) (e : Key × Cell) (he : e ∈ (ofFrame ncf nsf f rows).overall) :
    (ncf = 0 ∧ e = ([], f (slice rows))) ∨
    (0 < ncf ∧ e.2 = if rowsOf Row.ckey e.1 rows = [] then Cell.nan else f (slice (rowsOf Row.ckey e.1 rows))) := by
  by_cases h0 : ncf = 0
  · left
    refine ⟨h0, ?_⟩
    have : e ∈ [(([] : Key), f (slice rows))] := by
      simpa [ofFrame, overall, applyFunctions, h0] using he
    simpa using this
  · right
    exact ⟨by omega, C01.applyFunctions_cell Cell.nan Row.ckey ncf (by omega) f rows e.1 e.2 he⟩

/-- If the metric returns a finite number or NaN on every sub-list of the data, the frame built from
    ANY dataset satisfies both side conditions of the theorems of this file. -/
theorem ofFrame_finite {α : Type} (ncf nsf : Nat) (hn : 0 < ncf + nsf) (f : List α → Cell)
    (rows : List (Row α))
    (hfin : ∀ ds : List α, (∀ d ∈ ds, ∃ r ∈ rows, r.dat = d) →
      f ds = .scalar nan ∨ ∃ q, f ds = .scalar (fin q)) :
    FiniteCells (ofFrame ncf nsf f rows) ∧ hasNonscalar (ofFrame ncf nsf f rows) = false := by
  have hsub : ∀ (kf : Row α → Key) (k : Key), ∀ d ∈ slice (rowsOf kf k rows), ∃ r ∈ rows, r.dat = d := by
    intro kf k d hd
    obtain ⟨r, hr, rfl⟩ := List.mem_map.mp hd
    exact ⟨r, (mem_rowsOf.mp hr).1, rfl⟩
  have hall : ∀ d ∈ slice rows, ∃ r ∈ rows, r.dat = d := by
    intro d hd
    obtain ⟨r, hr, rfl⟩ := List.mem_map.mp hd
    exact ⟨r, hr, rfl⟩
  have hby : ∀ e ∈ (ofFrame ncf nsf f rows).byGroup, e.2 = .scalar nan ∨ ∃ q, e.2 = .scalar (fin q) := by
    intro e he
    rw [ofFrame_byGroup_cell ncf nsf hn f rows e he]
    split
    · left; rfl
    · exact hfin _ (hsub Row.key e.1)
  have hov : ∀ e ∈ (ofFrame ncf nsf f rows).overall, e.2 = .scalar nan ∨ ∃ q, e.2 = .scalar (fin q) := by
    intro e he
    rcases ofFrame_overall_cell ncf nsf f rows e he with ⟨_, rfl⟩ | ⟨_, h⟩
    · exact hfin _ hall
    · rw [h]
      split
      · left; rfl
      · exact hfin _ (hsub Row.ckey e.1)
  refine ⟨⟨hby, hov⟩, ?_⟩
  have hb' : (ofFrame ncf nsf f rows).byGroup.any (fun e => isNonscalar e.2) = false := by
    rw [List.any_eq_false]
    intro e he
    rcases hby e he with h | ⟨q, h⟩ <;> rw [h] <;> simp [isNonscalar]
  have ho' : (ofFrame ncf nsf f rows).overall.any (fun e => isNonscalar e.2) = false := by
    rw [List.any_eq_false]
    intro e he
    rcases hov e he with h | ⟨q, h⟩ <;> rw [h] <;> simp [isNonscalar]
  unfold hasNonscalar
  rw [hb', ho']
  rfl

/-! ### weighted-mean metrics with NON-NEGATIVE weights, without side conditions

`wmean_overall_between` / `overall_le_between_of_weighted_mean` above assume strictly positive weights
and take `hasNonscalar = false` / `FiniteCells` as hypotheses.  Replay on fairlearn (selection_rate and
mean_prediction with `sample_weight=[0,0,1,1]`, groups a a b b): the zero-weight group has the value
0/0 = NaN, is skipped by every aggregate, and the clause still holds.  The theorems below cover that:
weights ≥ 0, groups (or strata) of total weight 0 are NaN cells, and the two side conditions are
PROVED for the frame instead of assumed. -/

open MetricPool in
theorem wmean_of_nonneg (q : Dat → Rat) (ds : List Dat) (hw : ∀ d ∈ ds, 0 ≤ d.p0) :
    wmean q ds = if WeightedMean.den (·.p0) ds = 0 then Cell.nan
      else .scalar (fin (WeightedMean.num q (·.p0) ds / WeightedMean.den (·.p0) ds)) := by
  have h1 : sumBy (·.p0) ds = WeightedMean.den (·.p0) ds := rfl
  have h2 : sumBy (fun d => q d * d.p0) ds = WeightedMean.num q (·.p0) ds := rfl
  unfold wmean quot
  rw [div_fin_fin, h1, h2]
  by_cases hd : WeightedMean.den (·.p0) ds = 0
  · simp only [hd, if_true, WeightedMean.num_eq_zero_of_den_zero q (·.p0) ds hw hd]
    rfl
  · simp only [hd, if_false]

open MetricPool in
/-- a weighted mean is a finite number or NaN on every list with non-negative weights -/
theorem wmean_finNan (q : Dat → Rat) (ds : List Dat) (hw : ∀ d ∈ ds, 0 ≤ d.p0) :
    wmean q ds = .scalar nan ∨ ∃ x, wmean q ds = .scalar (fin x) := by
  rw [wmean_of_nonneg q ds hw]
  split
  · left; rfl
  · right; exact ⟨_, rfl⟩

open MetricPool in
/-- the frame of a weighted-mean metric built from ANY dataset with non-negative weights satisfies the
    side conditions of all theorems of this file -/
theorem wmean_frame_finite (q : Dat → Rat) (ncf nsf : Nat) (hn : 0 < ncf + nsf)
    (rows : List (Row Dat)) (hw : ∀ r ∈ rows, 0 ≤ r.dat.p0) :
    FiniteCells (ofFrame ncf nsf (wmean q) rows) ∧ hasNonscalar (ofFrame ncf nsf (wmean q) rows) = false :=
  ofFrame_finite ncf nsf hn (wmean q) rows (fun ds hsub => wmean_finNan q ds (by
    intro d hd
    obtain ⟨r, hr, rfl⟩ := hsub d hd
    exact hw r hr))

open MetricPool in
/-- NON-NEGATIVE weights: the overall value of every stratum lies between the smallest and the largest
    DEFINED group value of that stratum (groups of total weight 0 are NaN and skipped). -/
theorem wmean_overall_between_nonneg (q : Dat → Rat) (ncf nsf : Nat) (hn : 0 < ncf + nsf)
    (rows : List (Row Dat)) (hwf : WF ncf nsf rows) (hw : ∀ r ∈ rows, 0 ≤ r.dat.p0)
    (c : Key) (o m M : Rat)
    (ho : overallAt (ofFrame ncf nsf (wmean q) rows) c = fin o)
    (hm : minSkip (vals (ofFrame ncf nsf (wmean q) rows) c) = fin m)
    (hM : maxSkip (vals (ofFrame ncf nsf (wmean q) rows) c) = fin M) : m ≤ o ∧ o ≤ M := by
  set t := ofFrame ncf nsf (wmean q) rows with ht
  have hwslice : ∀ (kf : Row Dat → Key) (k : Key), ∀ d ∈ slice (rowsOf kf k rows), 0 ≤ d.p0 := by
    intro kf k d hd
    obtain ⟨r, hr, rfl⟩ := List.mem_map.mp hd
    exact hw r (mem_rowsOf.mp hr).1
  -- the cell of index tuple k, uniformly (an empty intersection has total weight 0)
  have hby : ∀ e ∈ t.byGroup, e.2 =
      if WeightedMean.den (·.p0) (slice (rowsOf Row.key e.1 rows)) = 0 then Cell.nan
      else .scalar (fin (WeightedMean.num q (·.p0) (slice (rowsOf Row.key e.1 rows)) /
                         WeightedMean.den (·.p0) (slice (rowsOf Row.key e.1 rows)))) := by
    intro e he
    rw [ofFrame_byGroup_cell ncf nsf hn (wmean q) rows e he]
    by_cases hemp : rowsOf Row.key e.1 rows = []
    · rw [if_pos hemp, hemp]; simp [slice]
    · rw [if_neg hemp, wmean_of_nonneg q _ (hwslice Row.key e.1)]
  have hfc : FinNan (vals t c) := finNan_vals (wmean_frame_finite q ncf nsf hn rows hw).1 c
  have hcell : ∀ k ∈ C01.keys t.byGroup, k.take ncf = c →
      WeightedMean.den (·.p0) (slice (rowsOf Row.key k rows)) ≠ 0 →
      fin (WeightedMean.num q (·.p0) (slice (rowsOf Row.key k rows)) /
           WeightedMean.den (·.p0) (slice (rowsOf Row.key k rows))) ∈ vals t c := by
    intro k hk hpre hd
    obtain ⟨e, he, rfl⟩ := List.mem_map.mp hk
    simp only [vals, List.mem_map, List.mem_filter]
    refine ⟨e, ⟨he, by simpa [stratumOf, ht, ofFrame] using hpre⟩, ?_⟩
    rw [hby e he, if_neg hd]
    rfl
  obtain ⟨_, hlo⟩ := minSkip_eq_fin hfc hm
  obtain ⟨_, hhi⟩ := maxSkip_eq_fin hfc hM
  -- the overall cell of the stratum
  have hov : WeightedMean.den (·.p0) (slice (rowsOf Row.ckey c rows)) ≠ 0 ∧
      o = WeightedMean.num q (·.p0) (slice (rowsOf Row.ckey c rows)) /
          WeightedMean.den (·.p0) (slice (rowsOf Row.ckey c rows)) := by
    unfold overallAt at ho
    split at ho
    · next cell hl =>
      have hmem := lookup_mem hl
      have hcell' : cell = if WeightedMean.den (·.p0) (slice (rowsOf Row.ckey c rows)) = 0 then Cell.nan
          else .scalar (fin (WeightedMean.num q (·.p0) (slice (rowsOf Row.ckey c rows)) /
                             WeightedMean.den (·.p0) (slice (rowsOf Row.ckey c rows)))) := by
        rcases ofFrame_overall_cell ncf nsf (wmean q) rows (c, cell) hmem with ⟨h0, he⟩ | ⟨_, he⟩
        · injection he with hc0 hcell0
          have hall : rowsOf Row.ckey c rows = rows := by
            rw [hc0]
            simp only [rowsOf, List.filter_eq_self, beq_iff_eq]
            intro r hr
            exact List.eq_nil_of_length_eq_zero (by rw [Row.ckey, (hwf r hr).1, h0])
          rw [hall, hcell0]
          exact wmean_of_nonneg q _ (fun d hd => by
            obtain ⟨r, hr, rfl⟩ := List.mem_map.mp hd
            exact hw r hr)
        · simp only at he
          rw [he]
          by_cases hemp : rowsOf Row.ckey c rows = []
          · rw [if_pos hemp, hemp]; simp [slice]
          · rw [if_neg hemp, wmean_of_nonneg q _ (hwslice Row.ckey c)]
      rw [hcell'] at ho
      by_cases hd : WeightedMean.den (·.p0) (slice (rowsOf Row.ckey c rows)) = 0
      · simp [hd, Cell.nan, coerce] at ho
      · refine ⟨hd, ?_⟩
        simp only [hd, if_false, coerce] at ho
        injection ho with ho
        exact ho.symm
    · cases ho
  obtain ⟨hcne, ho'⟩ := hov
  have hpart := C01.stratum_partition Cell.nan ncf nsf hn (wmean q) rows hwf c
  set ks := (C01.keys (byGroup Cell.nan ncf nsf (wmean q) rows)).filter (fun k => k.take ncf == c) with hks
  have hpart' : (ks.flatMap (fun k => slice (rowsOf Row.key k rows))).Perm (slice (rowsOf Row.ckey c rows)) := by
    have := hpart.map (·.dat)
    rwa [List.map_flatMap] at this
  rw [ho', ← WeightedMean.num_perm q (·.p0) hpart', ← WeightedMean.den_perm (·.p0) hpart']
  apply WeightedMean.mean_between_nonneg q (·.p0) ks (fun k => slice (rowsOf Row.key k rows))
  · intro k _ d hd; exact hwslice Row.key k d hd
  · intro k hk hd
    have hk' := List.mem_filter.mp hk
    have hv := hcell k hk'.1 (by simpa using hk'.2) hd
    exact ⟨hlo _ (mem_fins.mpr hv), hhi _ (mem_fins.mpr hv)⟩
  · rw [WeightedMean.den_perm (·.p0) hpart']; exact hcne

open MetricPool in
/-- **The weighted-mean clause at full strength**: for a sample-weighted mean of a per-row quantity
    (selection rate, accuracy, mean prediction, …), on the frame built from ANY dataset with any number
    of sensitive / control features and NON-NEGATIVE weights, in every control stratum in which both
    differences are numbers: to_overall difference ≤ between_groups difference.  No side conditions. -/
theorem overall_le_between_of_weighted_mean_data (q : Dat → Rat) (ncf nsf : Nat) (hn : 0 < ncf + nsf)
    (rows : List (Row Dat)) (hwf : WF ncf nsf rows) (hw : ∀ r ∈ rows, 0 ≤ r.dat.p0)
    (e : Errors) (c : Key) (hc : c ∈ strata (ofFrame ncf nsf (wmean q) rows)) (db dov : Rat)
    (hb : valueAt (difference .between e (ofFrame ncf nsf (wmean q) rows)) c = some (fin db))
    (hov : valueAt (difference .toOverall e (ofFrame ncf nsf (wmean q) rows)) c = some (fin dov)) :
    dov ≤ db := by
  obtain ⟨hf, hs⟩ := wmean_frame_finite q ncf nsf hn rows hw
  set t := ofFrame ncf nsf (wmean q) rows
  have hfn := finNan_vals hf c
  have hb' := hb
  rw [difference_between_at e t (Or.inr hs) hc] at hb'
  injection hb' with hb'
  rcases min_max_together hfn with ⟨h1, _⟩ | ⟨m, M, h1, h2, _⟩
  · rw [h1, diffOf_nan] at hb'; cases hb'
  · have hov' := hov
    rw [difference_overall_at e t hs hc] at hov'
    injection hov' with hov'
    rcases overallAt_finNan hf c with ho | ⟨o, ho⟩
    · rw [ho, diffOf_nan] at hov'; cases hov'
    · obtain ⟨hmo, hoM⟩ := wmean_overall_between_nonneg q ncf nsf hn rows hwf hw c o m M ho h1 h2
      exact overall_le_between e t hs hf c hc m M o db dov
        (by rw [groupMin_at e t (Or.inr hs) hc, h1]) (by rw [groupMax_at e t (Or.inr hs) hc, h2])
        ho hmo hoM hb hov

open MetricPool in
/-- the three metrics the property names are such weighted means (restated at the data level):
    the frames MetricFrame builds for selection rate / accuracy / mean prediction ARE `wmean` frames -/
theorem named_metrics_are_wmean (ncf nsf : Nat) (rows : List (Row Dat)) :
    ofFrame ncf nsf (eval .accuracy) rows = ofFrame ncf nsf (wmean (fun d => if d.y = d.pred then 1 else 0)) rows ∧
    ofFrame ncf nsf (eval .meanpred) rows = ofFrame ncf nsf (wmean (·.pred)) rows := by
  constructor
  · have : eval .accuracy = wmean (fun d => if d.y = d.pred then 1 else 0) := funext eval_accuracy_eq_wmean
    rw [this]
  · have : eval .meanpred = wmean (·.pred) := funext eval_meanpred_eq_wmean
    rw [this]

/-- two metric functions that agree on every NON-EMPTY list give the same frame on a non-empty dataset
    (MetricFrame never calls the metric on an empty slice: unobserved combinations are re-indexed NaN) -/
theorem ofFrame_congr {α : Type} (ncf nsf : Nat) (f g : List α → Cell) (h : ∀ ds, ds ≠ [] → f ds = g ds)
    (rows : List (Row α)) (hne : rows ≠ []) : ofFrame ncf nsf f rows = ofFrame ncf nsf g rows := by
  have hgr : ∀ kf : Row α → Key, grouped kf f rows = grouped kf g rows := by
    intro kf
    unfold grouped
    apply List.map_congr_left
    intro k hk
    have hk' : k ∈ rows.map kf := mem_uniq.mp hk
    obtain ⟨r, hr, rfl⟩ := List.mem_map.mp hk'
    have : slice (rowsOf kf (kf r) rows) ≠ [] := by
      have hm : r ∈ rowsOf kf (kf r) rows := mem_rowsOf.mpr ⟨hr, rfl⟩
      intro h0
      have := List.map_eq_nil_iff.mp h0
      rw [this] at hm; cases hm
    rw [h _ this]
  have hall : f (slice rows) = g (slice rows) := h _ (by simpa [slice] using hne)
  have hap : ∀ (kf : Row α → Key) (n : Nat),
      applyFunctions Cell.nan kf n f rows = applyFunctions Cell.nan kf n g rows := by
    intro kf n
    unfold applyFunctions
    rw [hall, hgr kf]
  unfold ofFrame byGroup overall
  rw [hap Row.key, hap Row.ckey]

open MetricPool in
/-- … and so is the selection-rate frame of every non-empty dataset -/
theorem selrate_frame_is_wmean (ncf nsf : Nat) (rows : List (Row Dat)) (hne : rows ≠ []) :
    ofFrame ncf nsf (eval .selrate) rows = ofFrame ncf nsf (wmean (fun d => if d.pred = 1 then 1 else 0)) rows :=
  ofFrame_congr ncf nsf _ _ (fun ds hds => eval_selrate_eq_wmean ds hds) rows hne

/-! ### Non-vacuity of the hypotheses (all of them simultaneously, non-degenerate inputs) -/

-- `exT` (2 strata, NaN cells, stratum "k" with two DIFFERENT finite group values 1/2 ≠ 1) meets the three
-- standing hypotheses of the table theorems at once
example : hasNonscalar exT = false ∧ FiniteCells exT ∧ ["k"] ∈ strata exT ∧ ["m"] ∈ strata exT :=
  ⟨by decide +kernel, finiteCells_of_B (by decide +kernel), by decide +kernel, by decide +kernel⟩
-- hm / hM of `difference_between_eq`, `groupMin_le_groupMax`, `overall_le_between` with m ≠ M, and ho, hmo, hoM
example : valueAt (groupMin .raise exT) ["k"] = some (fin (1/2)) ∧ valueAt (groupMax .raise exT) ["k"] = some (fin 1) ∧
    overallAt exT ["k"] = fin (2/3) ∧ ((1/2 : Rat) ≤ 2/3 ∧ (2/3 : Rat) ≤ 1) := by
  refine ⟨by decide +kernel, by decide +kernel, by decide +kernel, by norm_num⟩
-- hb / ho of `between_le_two_overall` and `overall_le_between`: both differences are numbers, 1/3 ≤ 1/2 ≤ 2·1/3
example : valueAt (difference .between .raise exT) ["k"] = some (fin (1/2)) ∧
    valueAt (difference .toOverall .raise exT) ["k"] = some (fin (1/3)) := by
  constructor <;> decide +kernel
-- `ratio_between_le_one_partial` / `ratio_*_nonneg`: max = 1 ≥ 0, ratio = 1/2; to_overall ratio = 2/3 (> between)
example : valueAt (ratio .between .raise exT) ["k"] = some (fin (1/2)) ∧
    valueAt (ratio .toOverall .raise exT) ["k"] = some (fin (2/3)) ∧ (∀ q ∈ fins (vals exT ["k"]), (0 : Rat) ≤ q) := by
  refine ⟨by decide +kernel, by decide +kernel, by decide +kernel⟩
-- `difference_overall_nan` / the NaN branch of `groupMin_spec`: a stratum whose groups are all empty
example : valueAt (groupMin .coerce ⟨0, [(["a"], .scalar nan), (["b"], .scalar nan)], [([], .scalar nan)], false⟩) [] = some nan ∧
    valueAt (difference .toOverall .coerce ⟨0, [(["a"], .scalar nan), (["b"], .scalar nan)], [([], .scalar nan)], false⟩) [] = some nan := by
  constructor <;> decide +kernel
-- `raise_fails_coerce_answers`: a frame with a non-scalar cell
example : hasNonscalar ⟨0, [(["a"], .nonscalar), (["b"], .scalar (fin 1))], [([], .nonscalar)], false⟩ = true := by decide +kernel
-- `single_group`: exactly one non-empty group
example : fins (vals ⟨0, [(["a"], .scalar (fin 3)), (["b"], .scalar nan)], [([], .scalar (fin 3))], false⟩ []) = [3] := by
  decide +kernel

/-- a dataset with one control feature (strata k, m), two sensitive groups in each stratum, weights
    1 2 1 0 3 1 (one ZERO weight), predictions 1 0 1 1 0 1 -/
def exRows : List (Row MetricPool.Dat) :=
  [⟨⟨1, 1, 1, 0⟩, ["k"], ["a"]⟩, ⟨⟨0, 0, 2, 0⟩, ["k"], ["a"]⟩, ⟨⟨1, 1, 1, 0⟩, ["k"], ["b"]⟩,
   ⟨⟨0, 1, 0, 0⟩, ["m"], ["a"]⟩, ⟨⟨1, 0, 3, 0⟩, ["m"], ["a"]⟩, ⟨⟨1, 1, 1, 0⟩, ["m"], ["b"]⟩]

-- all hypotheses of `overall_le_between_of_weighted_mean_data` (and, but for the zero weight, of
-- `overall_le_between_of_weighted_mean`) on real rows: ≥ 2 non-empty groups in each of 2 strata
example : WF 1 1 exRows ∧ (∀ r ∈ exRows, 0 ≤ r.dat.p0) ∧
    ["k"] ∈ strata (ofFrame 1 1 (wmean (·.pred)) exRows) := by
  refine ⟨by decide, by decide +kernel, by decide +kernel⟩
example : valueAt (difference .between .coerce (ofFrame 1 1 (wmean (·.pred)) exRows)) ["k"] = some (fin (2/3)) ∧
    valueAt (difference .toOverall .coerce (ofFrame 1 1 (wmean (·.pred)) exRows)) ["k"] = some (fin (1/2)) ∧
    valueAt (difference .between .coerce (ofFrame 1 1 (wmean (·.pred)) exRows)) ["m"] = some (fin 1) ∧
    valueAt (difference .toOverall .coerce (ofFrame 1 1 (wmean (·.pred)) exRows)) ["m"] = some (fin (3/4)) := by
  refine ⟨by decide +kernel, by decide +kernel, by decide +kernel, by decide +kernel⟩
-- a group of total weight 0 is a NaN cell and is skipped (replayed on fairlearn: selection_rate,
-- sample_weight=[0,0,1,1], groups a a b b -> by_group [nan, 0.5], both differences 0.0)
example : (ofFrame 0 1 (wmean (·.pred)) [⟨⟨1, 1, 0, 0⟩, [], ["a"]⟩, ⟨⟨0, 0, 0, 0⟩, [], ["a"]⟩,
      ⟨⟨1, 0, 1, 0⟩, [], ["b"]⟩, ⟨⟨0, 1, 1, 0⟩, [], ["b"]⟩]).byGroup = [(["a"], .scalar nan), (["b"], .scalar (fin (1/2)))] := by
  decide +kernel

end C02
