/-
C03 — named fairness metrics equal their first-principles definitions.
Property theorems only.  Model: `Model/Fairness.lean`, which interprets the tables of the GENERATED
`Generated/FairnessSpec.lean` (lifted from `_fairness_metrics.py`, `_generated_metrics.py`,
`_make_derived_metric.py`) with the MetricFrame model of C01/C02.

Reading guide.  `groupOf rows r` are the rows in the same sensitive-feature group as `r` (as the metric
sees them); `g (groupOf rows r)` is therefore "the base metric of the group of `r` computed directly
from the rows", `g (slice rows)` the base metric of the whole data.  All theorems hold for EVERY
dataset with at least one row, any number of groups of any sizes (single-member groups included),
one or more sensitive feature columns, any positive weights.

CLAUSE → THEOREM TABLE (review R1).  Standing hypotheses = the property's quantifier: `Valid nsf rows` (≥ 1 row,
≥ 1 sensitive column, weights > 0; no weights = all 1) and, for the confusion-matrix rates, `BinaryRows rows`.
  rates "directly from the rows" (specification side = `wsum` quotients, `Model/Fairness.lean` + `Lemmas/C03Review.lean`;
  model side = `MetricPool.eval`, for TPR/FPR/TNR/FNR through the `BaseMetrics` model of sklearn's normalised confusion
  matrix — two different definitions, the theorems are not `f = f`):
      selection_rate_eq_spec, true_positive_rate_eq_spec, false_positive_rate_eq_spec, finiteOn_of_spec (all 10 modelled
      bases: + TNR, FNR, accuracy, zero-one loss, MAE, MSE, mean prediction); the group values the aggregates see are
      exactly {rate(group of r) : r ∈ rows}: group_values
  demographic_parity_difference   between_groups: dp_difference_eq_spec      to_overall: dp_difference_overall_eq_spec
  demographic_parity_ratio        between_groups: dp_ratio_eq_spec           to_overall: dp_ratio_overall_eq_spec (overall ≠ 0),
                                                                             ratio_overall_nan_of_all_zero (overall = 0: NaN)
  equal_opportunity_difference    eopp_difference_eq_spec                    eopp_difference_overall_eq_spec
  equal_opportunity_ratio         eopp_ratio_eq_spec                         eopp_ratio_overall_eq_spec (overall TPR ≠ 0)
  equalized_odds_difference       eodds_difference_eq_spec (worst case AND mean)   eodds_difference_overall_eq_spec
  equalized_odds_ratio            eodds_ratio_eq_spec (both ratios defined)  any method / NaN / ±inf operands: eodds_general
  "worst case or mean as requested"  eodds_def, pyFold_max_pair / pyFold_min_pair / meanSkip_pair, worst_case_bounds
  every generated <metric>_{difference,ratio,group_min,group_max}:
      generated_family (EVERY entry of the lifted METRICS_SPEC with a modelled base is the MetricFrame aggregate its name
      says), generated_eq_spec (… hence the first-principles value, all four variants, both methods), generated_table_facts,
      metrics_spec_wellformed; coverage statement generated_bases: 18 of the 25 functions (9 of 16 bases).
      PARTIAL BY DESIGN: the 7 functions over sklearn-only scores (balanced_accuracy, precision, recall, roc_auc, r2, f1,
      log_loss; all group_min/group_max) have NO theorem (`generated … = some none`); they are checked only by the
      correspondence harness against sklearn evaluated on first-principles slices.
  single-member groups / empty denominators   all theorems quantify over arbitrary `rows`; tpr_zero_of_no_positive; the
      `if … = 0 then 0` branch of tprSpec/fprSpec/tnrSpec/fnrSpec; examples exF1 (weighted single-row group), exEO
  make_derived_metric = the equivalent MetricFrame call   derived_eq_metricframe, derived_eq, derived_finish_eq,
      derived_make_eq / _ok_iff / _fails, derived_route, derived_bad_method, derived_nameless_ok,
      derived_call_eq_finish (the whole __call__: routing of sample_weight / method, then the MetricFrame call)
  the MetricFrame accessor each function calls (default errors= / method=, cache slot, the (method, errors) the slot was
      computed with by `_populate_results`, `_extract_result`)   LIFTED (`Generated/PopulateSrc.lean`, `FrameSrc.extract_result`):
      applyAgg_lifted_eq_model, run_lifted_eq_model, src_accessor_calls
Consistency corollaries (C03X.lean): eodds_ge_eopp, dp_ratio_one_iff_difference_zero, dp_ranges, eopp_eodds_ranges.
-/
import FairModel.Lemmas.Fairness
import FairModel.Lemmas.C03Review
import FairModel.Model.Derived

namespace C03
open Fairness Frame Aggregate MetricPool XR

/-- a dataset the property quantifies over: ≥ 1 row, ≥ 1 sensitive column, positive weights -/
structure Valid (nsf : Nat) (rows : List (Row Dat)) : Prop where
  ne : rows ≠ []
  nsf_pos : 0 < nsf
  wf : WF 0 nsf rows
  wpos : ∀ r ∈ rows, 0 < r.dat.p0

/-- labels and predictions are 0/1 -/
def BinaryRows (rows : List (Row Dat)) : Prop :=
  ∀ r ∈ rows, (r.dat.y = 0 ∨ r.dat.y = 1) ∧ (r.dat.pred = 0 ∨ r.dat.pred = 1)

instance (rows : List (Row Dat)) : Decidable (BinaryRows rows) := by
  unfold BinaryRows; exact List.decidableBAll _ rows

/-! ### (1) the base rates are the direct weighted ratios on EVERY non-empty slice -/

theorem selection_rate_eq_spec (ds : List Dat) (hw : ∀ d ∈ ds, 0 < d.p0) (hne : ds ≠ []) :
    eval .selrate ds = .scalar (fin (wsum (fun d => d.pred == 1) ds / wsum (fun _ => true) ds)) :=
  selrate_eq_spec hw hne

/-- TPR = Σ_{y=1,pred=1} w / Σ_{y=1} w, and exactly 0 when the slice has no row with y = 1 -/
theorem true_positive_rate_eq_spec (ds : List Dat) (hb : Binary ds) (hne : ds ≠ []) :
    eval .tpr ds = .scalar (fin (
      if wsum (fun d => d.y == 1) ds = 0 then 0
      else wsum (fun d => d.y == 1 && d.pred == 1) ds / wsum (fun d => d.y == 1) ds)) :=
  tpr_eq_spec hb hne

theorem false_positive_rate_eq_spec (ds : List Dat) (hb : Binary ds) (hne : ds ≠ []) :
    eval .fpr ds = .scalar (fin (
      if wsum (fun d => d.y == 0) ds = 0 then 0
      else wsum (fun d => d.y == 0 && d.pred == 1) ds / wsum (fun d => d.y == 0) ds)) :=
  fpr_eq_spec hb hne

/-- the empty-denominator branch is really taken: a slice without positives has TPR 0 -/
theorem tpr_zero_of_no_positive (ds : List Dat) (h : ∀ d ∈ ds, d.y ≠ 1) : tprSpec ds = 0 := by
  unfold tprSpec
  rw [if_pos]
  exact wsum_eq_zero_of_none (by intro d hd; simpa using h d hd)

theorem selrate_finiteOn {nsf : Nat} {rows : List (Row Dat)} (hv : Valid nsf rows) :
    FiniteOn (eval .selrate) selRateSpec rows := by
  intro ds hne hsub
  apply selrate_eq_spec _ hne
  intro d hd
  obtain ⟨r, hr, rfl⟩ := hsub d hd
  exact hv.wpos r hr

theorem binary_of_sub {rows : List (Row Dat)} (hb : BinaryRows rows) {ds : List Dat}
    (hsub : ∀ d ∈ ds, ∃ r ∈ rows, r.dat = d) : Binary ds := by
  intro d hd
  obtain ⟨r, hr, rfl⟩ := hsub d hd
  exact hb r hr

theorem tpr_finiteOn {rows : List (Row Dat)} (hb : BinaryRows rows) : FiniteOn (eval .tpr) tprSpec rows :=
  fun _ hne hsub => tpr_eq_spec (binary_of_sub hb hsub) hne

theorem fpr_finiteOn {rows : List (Row Dat)} (hb : BinaryRows rows) : FiniteOn (eval .fpr) fprSpec rows :=
  fun _ hne hsub => fpr_eq_spec (binary_of_sub hb hsub) hne

/-! ### (2) what the aggregates of the one-stratum frame are, for any finite base metric `g` -/

/-- attained lower / upper bound of the group values computed directly from the rows -/
def IsGroupMin (g : List Dat → Rat) (rows : List (Row Dat)) (x : Rat) : Prop :=
  (∃ r ∈ rows, x = g (groupOf rows r)) ∧ ∀ r ∈ rows, x ≤ g (groupOf rows r)
def IsGroupMax (g : List Dat → Rat) (rows : List (Row Dat)) (x : Rat) : Prop :=
  (∃ r ∈ rows, x = g (groupOf rows r)) ∧ ∀ r ∈ rows, g (groupOf rows r) ≤ x

section general
variable {m : Metric} {g : List Dat → Rat} {nsf : Nat} {rows : List (Row Dat)}

/-- the function value is the per-stratum aggregate of the group values and the overall value -/
theorem run_value (hv : Valid nsf rows) (hf : FiniteOn (eval m) g rows) (k : AggKind) (meth : Method) :
    run m k meth true nsf rows =
      .value (perStratum k meth (vals (ofFrame 0 nsf (eval m) rows) []) (fin (g (slice rows)))) := by
  unfold run
  simp only [frameRaised_one hv.nsf_pos hf hv.ne, Bool.false_eq_true, if_false]
  rw [applyAgg_one hv.nsf_pos hv.wf hf hv.ne, overallAt_one hf hv.ne]
  rfl

/-- the finite values the aggregates see are exactly the base metric of every observed group -/
theorem group_values (hv : Valid nsf rows) (hf : FiniteOn (eval m) g rows) (x : Rat) :
    fin x ∈ vals (ofFrame 0 nsf (eval m) rows) [] ↔ ∃ r ∈ rows, x = g (groupOf rows r) :=
  mem_vals_one hv.nsf_pos hv.wf hf x

theorem extremes (hv : Valid nsf rows) (hf : FiniteOn (eval m) g rows) :
    ∃ mn mx, IsGroupMin g rows mn ∧ IsGroupMax g rows mx ∧
      minSkip (vals (ofFrame 0 nsf (eval m) rows) []) = fin mn ∧
      maxSkip (vals (ofFrame 0 nsf (eval m) rows) []) = fin mx := by
  have hfn := finNan_vals_one hv.nsf_pos hf
  obtain ⟨r0, hr0⟩ := List.exists_mem_of_ne_nil _ hv.ne
  have hmem0 : g (groupOf rows r0) ∈ fins (vals (ofFrame 0 nsf (eval m) rows) []) :=
    mem_fins.mpr ((group_values hv hf _).mpr ⟨r0, hr0, rfl⟩)
  rcases min_max_together hfn with ⟨h1, _⟩ | ⟨mn, mx, h1, h2, _⟩
  · rw [minSkip_eq_nan hfn h1] at hmem0; simp at hmem0
  · obtain ⟨a1, a2⟩ := minSkip_eq_fin hfn h1
    obtain ⟨b1, b2⟩ := maxSkip_eq_fin hfn h2
    refine ⟨mn, mx, ⟨(group_values hv hf mn).mp (mem_fins.mp a1), ?_⟩,
      ⟨(group_values hv hf mx).mp (mem_fins.mp b1), ?_⟩, h1, h2⟩
    · intro r hr; exact a2 _ (mem_fins.mpr ((group_values hv hf _).mpr ⟨r, hr, rfl⟩))
    · intro r hr; exact b2 _ (mem_fins.mpr ((group_values hv hf _).mpr ⟨r, hr, rfl⟩))

/-- `<metric>_group_min` / `_group_max`: the smallest / largest group value -/
theorem group_min_spec (hv : Valid nsf rows) (hf : FiniteOn (eval m) g rows) (meth : Method) :
    ∃ mn, IsGroupMin g rows mn ∧ run m .groupMin meth true nsf rows = .value (fin mn) := by
  obtain ⟨mn, _, h1, _, h3, _⟩ := extremes hv hf
  exact ⟨mn, h1, by rw [run_value hv hf]; simp [perStratum, h3]⟩

theorem group_max_spec (hv : Valid nsf rows) (hf : FiniteOn (eval m) g rows) (meth : Method) :
    ∃ mx, IsGroupMax g rows mx ∧ run m .groupMax meth true nsf rows = .value (fin mx) := by
  obtain ⟨_, mx, _, h2, _, h4⟩ := extremes hv hf
  exact ⟨mx, h2, by rw [run_value hv hf]; simp [perStratum, h4]⟩

/-- difference, between_groups: largest group value minus smallest group value -/
theorem difference_between_spec (hv : Valid nsf rows) (hf : FiniteOn (eval m) g rows) :
    ∃ mn mx, IsGroupMin g rows mn ∧ IsGroupMax g rows mx ∧
      run m .difference .between true nsf rows = .value (fin (mx - mn)) := by
  obtain ⟨mn, mx, h1, h2, h3, h4⟩ := extremes hv hf
  refine ⟨mn, mx, h1, h2, ?_⟩
  rw [run_value hv hf]
  simp only [perStratum]
  rw [h3, diffOf_min (finNan_vals_one hv.nsf_pos hf) h3 h4]

/-- difference, to_overall: the largest |group value − value on all rows| -/
theorem difference_overall_spec (hv : Valid nsf rows) (hf : FiniteOn (eval m) g rows) :
    ∃ D, run m .difference .toOverall true nsf rows = .value (fin D) ∧
      (∃ r ∈ rows, D = |g (groupOf rows r) - g (slice rows)|) ∧
      ∀ r ∈ rows, |g (groupOf rows r) - g (slice rows)| ≤ D := by
  have hfn := finNan_vals_one hv.nsf_pos hf
  obtain ⟨r0, hr0⟩ := List.exists_mem_of_ne_nil _ hv.ne
  rcases diffOf_spec hfn (g (slice rows)) with ⟨h0, _⟩ | ⟨D, hD, ⟨q, hq, hDq⟩, hle⟩
  · have : g (groupOf rows r0) ∈ fins (vals (ofFrame 0 nsf (eval m) rows) []) :=
      mem_fins.mpr ((group_values hv hf _).mpr ⟨r0, hr0, rfl⟩)
    rw [h0] at this; simp at this
  · refine ⟨D, by rw [run_value hv hf]; simp [perStratum, hD], ?_, ?_⟩
    · obtain ⟨r, hr, rfl⟩ := (group_values hv hf q).mp (mem_fins.mp hq)
      exact ⟨r, hr, hDq⟩
    · intro r hr
      exact hle _ (mem_fins.mpr ((group_values hv hf _).mpr ⟨r, hr, rfl⟩))

/-- ratio, between_groups: smallest group value / largest group value (float division:
    0/0 = NaN when every group value is 0) -/
theorem ratio_between_spec (hv : Valid nsf rows) (hf : FiniteOn (eval m) g rows) :
    ∃ mn mx, IsGroupMin g rows mn ∧ IsGroupMax g rows mx ∧
      run m .ratio .between true nsf rows = .value (XR.div (fin mn) (fin mx)) := by
  obtain ⟨mn, mx, h1, h2, h3, h4⟩ := extremes hv hf
  refine ⟨mn, mx, h1, h2, ?_⟩
  rw [run_value hv hf]
  simp only [perStratum]
  rw [h3, h4]

/-- `ratio_sub_one` on a finite quotient -/
def subOne (q : Rat) : Rat := if 1 < q then 1 / q else q

/-- for non-negative quotients `subOne q = min q (1/q)` (with `1/0` read as +inf) -/
theorem subOne_eq_min (q : Rat) (hq : 0 < q) : subOne q = min q (1 / q) := by
  unfold subOne
  by_cases h : 1 < q
  · rw [if_pos h, min_eq_right]
    rw [div_le_iff₀ hq]; nlinarith
  · rw [if_neg h, min_eq_left]
    rw [le_div_iff₀ hq]; nlinarith [not_lt.mp h]

/-- ratio, to_overall (overall value non-zero): the smallest `ratio_sub_one(group value / overall
    value)` over the groups, attained by a group -/
theorem ratio_overall_spec (hv : Valid nsf rows) (hf : FiniteOn (eval m) g rows)
    (ho : g (slice rows) ≠ 0) :
    ∃ ρ, run m .ratio .toOverall true nsf rows = .value (fin ρ) ∧
      (∃ r ∈ rows, ρ = subOne (g (groupOf rows r) / g (slice rows))) ∧
      ∀ r ∈ rows, ρ ≤ subOne (g (groupOf rows r) / g (slice rows)) := by
  have hfn := finNan_vals_one hv.nsf_pos hf
  set o := g (slice rows) with hoo
  set vs := vals (ofFrame 0 nsf (eval m) rows) [] with hvs
  obtain ⟨r0, hr0⟩ := List.exists_mem_of_ne_nil _ hv.ne
  have hmap : vs.map (fun v => AggregateSpec.ratioSubOne (XR.div v (fin o))) =
      vs.map (mapFin (fun q => subOne (q / o))) := by
    apply List.map_congr_left
    intro v hv'
    rcases hfn v hv' with rfl | ⟨q, rfl⟩
    · rfl
    · rw [div_fin_fin, if_neg ho, ratioSubOne_fin]
      simp only [mapFin, subOne]
      split <;> rfl
  have hrun : run m .ratio .toOverall true nsf rows =
      .value (minSkip (vs.map (mapFin (fun q => subOne (q / o))))) := by
    rw [run_value hv hf]
    simp only [perStratum, ratioOverallOf, AggregateSpec.ratioOverallAgg, Grouping.apply]
    rw [← hmap]
  have h' := finNan_map_mapFin (fun q => subOne (q / o)) hfn
  have hfm := fins_map_mapFin (fun q => subOne (q / o)) hfn
  rcases minSkip_spec h' with ⟨h0, _⟩ | ⟨ρ, hρ, hmem, hle⟩
  · have : g (groupOf rows r0) ∈ fins vs := mem_fins.mpr ((group_values hv hf _).mpr ⟨r0, hr0, rfl⟩)
    rw [hfm] at h0
    rw [List.map_eq_nil_iff.mp h0] at this; simp at this
  · rw [hfm] at hmem hle
    refine ⟨ρ, by rw [hrun, hρ], ?_, ?_⟩
    · obtain ⟨q, hq, rfl⟩ := List.mem_map.mp hmem
      obtain ⟨r, hr, rfl⟩ := (group_values hv hf q).mp (mem_fins.mp hq)
      exact ⟨r, hr, rfl⟩
    · intro r hr
      exact hle _ (List.mem_map.mpr ⟨_, mem_fins.mpr ((group_values hv hf _).mpr ⟨r, hr, rfl⟩), rfl⟩)

end general

/-! ### (3) the named functions are these aggregates of the stated base rate
(the right-hand sides are read off the tables lifted from `_fairness_metrics.py`) -/

theorem demographic_parity_difference_def (meth : Method) (nsf : Nat) (rows : List (Row Dat)) :
    named "demographic_parity_difference" meth nsf rows = some (run .selrate .difference meth true nsf rows) := by
  have h1 : FairnessSpec.named.find? (fun e => e.1 == "demographic_parity_difference") = some ("demographic_parity_difference", "selection_rate", "difference") := by
    decide +kernel
  have h2 : baseOfName "selection_rate" = some .selrate := by decide +kernel
  have h3 : aggOfName "difference" = some .difference := by decide +kernel
  unfold named
  rw [h1]
  simp only [Option.bind_eq_bind, Option.bind_some, h2, h3, Option.pure_def]

theorem demographic_parity_ratio_def (meth : Method) (nsf : Nat) (rows : List (Row Dat)) :
    named "demographic_parity_ratio" meth nsf rows = some (run .selrate .ratio meth true nsf rows) := by
  have h1 : FairnessSpec.named.find? (fun e => e.1 == "demographic_parity_ratio") = some ("demographic_parity_ratio", "selection_rate", "ratio") := by
    decide +kernel
  have h2 : baseOfName "selection_rate" = some .selrate := by decide +kernel
  have h3 : aggOfName "ratio" = some .ratio := by decide +kernel
  unfold named
  rw [h1]
  simp only [Option.bind_eq_bind, Option.bind_some, h2, h3, Option.pure_def]

theorem equal_opportunity_difference_def (meth : Method) (nsf : Nat) (rows : List (Row Dat)) :
    named "equal_opportunity_difference" meth nsf rows = some (run .tpr .difference meth true nsf rows) := by
  have h1 : FairnessSpec.named.find? (fun e => e.1 == "equal_opportunity_difference") = some ("equal_opportunity_difference", "true_positive_rate", "difference") := by
    decide +kernel
  have h2 : baseOfName "true_positive_rate" = some .tpr := by decide +kernel
  have h3 : aggOfName "difference" = some .difference := by decide +kernel
  unfold named
  rw [h1]
  simp only [Option.bind_eq_bind, Option.bind_some, h2, h3, Option.pure_def]

theorem equal_opportunity_ratio_def (meth : Method) (nsf : Nat) (rows : List (Row Dat)) :
    named "equal_opportunity_ratio" meth nsf rows = some (run .tpr .ratio meth true nsf rows) := by
  have h1 : FairnessSpec.named.find? (fun e => e.1 == "equal_opportunity_ratio") = some ("equal_opportunity_ratio", "true_positive_rate", "ratio") := by
    decide +kernel
  have h2 : baseOfName "true_positive_rate" = some .tpr := by decide +kernel
  have h3 : aggOfName "ratio" = some .ratio := by decide +kernel
  unfold named
  rw [h1]
  simp only [Option.bind_eq_bind, Option.bind_some, h2, h3, Option.pure_def]

/-- demographic parity difference = max − min of the group selection rates computed from the rows -/
theorem dp_difference_eq_spec (nsf : Nat) (rows : List (Row Dat)) (hv : Valid nsf rows) :
    ∃ mn mx, IsGroupMin selRateSpec rows mn ∧ IsGroupMax selRateSpec rows mx ∧
      named "demographic_parity_difference" .between nsf rows = some (.value (fin (mx - mn))) := by
  obtain ⟨mn, mx, h1, h2, h3⟩ := difference_between_spec hv (selrate_finiteOn hv)
  exact ⟨mn, mx, h1, h2, by rw [demographic_parity_difference_def, h3]⟩

theorem dp_difference_overall_eq_spec (nsf : Nat) (rows : List (Row Dat)) (hv : Valid nsf rows) :
    ∃ D, named "demographic_parity_difference" .toOverall nsf rows = some (.value (fin D)) ∧
      (∃ r ∈ rows, D = |selRateSpec (groupOf rows r) - selRateSpec (slice rows)|) ∧
      ∀ r ∈ rows, |selRateSpec (groupOf rows r) - selRateSpec (slice rows)| ≤ D := by
  obtain ⟨D, h1, h2, h3⟩ := difference_overall_spec hv (selrate_finiteOn hv)
  exact ⟨D, by rw [demographic_parity_difference_def, h1], h2, h3⟩

theorem dp_ratio_eq_spec (nsf : Nat) (rows : List (Row Dat)) (hv : Valid nsf rows) :
    ∃ mn mx, IsGroupMin selRateSpec rows mn ∧ IsGroupMax selRateSpec rows mx ∧
      named "demographic_parity_ratio" .between nsf rows = some (.value (XR.div (fin mn) (fin mx))) := by
  obtain ⟨mn, mx, h1, h2, h3⟩ := ratio_between_spec hv (selrate_finiteOn hv)
  exact ⟨mn, mx, h1, h2, by rw [demographic_parity_ratio_def, h3]⟩

theorem dp_ratio_overall_eq_spec (nsf : Nat) (rows : List (Row Dat)) (hv : Valid nsf rows)
    (ho : selRateSpec (slice rows) ≠ 0) :
    ∃ ρ, named "demographic_parity_ratio" .toOverall nsf rows = some (.value (fin ρ)) ∧
      (∃ r ∈ rows, ρ = subOne (selRateSpec (groupOf rows r) / selRateSpec (slice rows))) ∧
      ∀ r ∈ rows, ρ ≤ subOne (selRateSpec (groupOf rows r) / selRateSpec (slice rows)) := by
  obtain ⟨ρ, h1, h2, h3⟩ := ratio_overall_spec hv (selrate_finiteOn hv) ho
  exact ⟨ρ, by rw [demographic_parity_ratio_def, h1], h2, h3⟩

theorem eopp_difference_eq_spec (nsf : Nat) (rows : List (Row Dat)) (hv : Valid nsf rows)
    (hb : BinaryRows rows) :
    ∃ mn mx, IsGroupMin tprSpec rows mn ∧ IsGroupMax tprSpec rows mx ∧
      named "equal_opportunity_difference" .between nsf rows = some (.value (fin (mx - mn))) := by
  obtain ⟨mn, mx, h1, h2, h3⟩ := difference_between_spec hv (tpr_finiteOn hb)
  exact ⟨mn, mx, h1, h2, by rw [equal_opportunity_difference_def, h3]⟩

theorem eopp_ratio_eq_spec (nsf : Nat) (rows : List (Row Dat)) (hv : Valid nsf rows)
    (hb : BinaryRows rows) :
    ∃ mn mx, IsGroupMin tprSpec rows mn ∧ IsGroupMax tprSpec rows mx ∧
      named "equal_opportunity_ratio" .between nsf rows = some (.value (XR.div (fin mn) (fin mx))) := by
  obtain ⟨mn, mx, h1, h2, h3⟩ := ratio_between_spec hv (tpr_finiteOn hb)
  exact ⟨mn, mx, h1, h2, by rw [equal_opportunity_ratio_def, h3]⟩

/-! ### (4) equalized odds: worst case or mean of the TPR and FPR disparities -/

/-- on valid binary data the equalized-odds functions combine the two one-metric results -/
theorem eodds_def (fname : String) (aggName w : String) (k : AggKind)
    (hfn : FairnessSpec.eodds.find? (fun e => e.1 == fname) = some (fname, aggName, w))
    (hk : aggOfName aggName = some k)
    (meth : Method) (agg : Agg) (nsf : Nat) (rows : List (Row Dat))
    (hv : Valid nsf rows) (hb : BinaryRows rows) :
    ∃ a b, run .tpr k meth true nsf rows = .value a ∧ run .fpr k meth true nsf rows = .value b ∧
      eodds fname meth agg nsf rows =
        (match agg with
         | .worstCase => (pyFold w [a, b]).map Res.value
         | .mean => some (.value (XR.meanSkip [a, b]))) := by
  obtain ⟨a, ha⟩ : ∃ a, run .tpr k meth true nsf rows = .value a := ⟨_, run_value hv (tpr_finiteOn hb) k meth⟩
  obtain ⟨b, hb'⟩ : ∃ b, run .fpr k meth true nsf rows = .value b := ⟨_, run_value hv (fpr_finiteOn hb) k meth⟩
  refine ⟨a, b, ha, hb', ?_⟩
  have hr1 := frameRaised_one hv.nsf_pos (tpr_finiteOn hb) hv.ne
  have hr2 := frameRaised_one hv.nsf_pos (fpr_finiteOn hb) hv.ne
  have e1 : extract (applyAgg k meth true (ofFrame 0 nsf (eval .tpr) rows)) = .value a := by
    have := ha; unfold run at this; simpa [hr1] using this
  have e2 : extract (applyAgg k meth true (ofFrame 0 nsf (eval .fpr) rows)) = .value b := by
    have := hb'; unfold run at this; simpa [hr2] using this
  unfold eodds
  simp only [hfn, hk, FairnessSpec.eoFrame, List.mapM_cons, List.mapM_nil, baseOfName, Option.pure_def,
    Option.bind_eq_bind, Option.bind_some, List.map_cons, List.map_nil, List.any_cons, List.any_nil,
    hr1, hr2, Bool.or_self, Bool.false_eq_true, if_false, e1, e2, List.filterMap_cons, List.filterMap_nil,
    List.length_cons, List.length_nil, ne_eq, not_true_eq_false]
  cases agg <;> rfl

/-- Python's `max(a, b)` / `min(a, b)` on two finite floats, and the mean -/
theorem pyFold_max_fin (a b : Rat) : pyFold "max" [fin a, fin b] = some (fin (max a b)) := by
  simp only [pyFold, if_true, List.foldl_cons, List.foldl_nil, pyMax2, XR.lt]
  by_cases h : a < b
  · simp [h, max_eq_right (le_of_lt h)]
  · simp [h, max_eq_left (not_lt.mp h)]

theorem pyFold_min_fin (a b : Rat) : pyFold "min" [fin a, fin b] = some (fin (min a b)) := by
  have hne : ¬ ("min" = "max") := by decide
  simp only [pyFold, hne, if_false, if_true, List.foldl_cons, List.foldl_nil, pyMin2, XR.lt]
  by_cases h : b < a
  · simp [h, min_eq_right (le_of_lt h)]
  · simp [h, min_eq_left (not_lt.mp h)]

theorem meanSkip_fin (a b : Rat) : XR.meanSkip [fin a, fin b] = fin ((a + b) / 2) := by
  simp only [meanSkip, List.filter_cons, isNan, Bool.not_false, if_true, List.filter_nil,
    List.isEmpty_cons, Bool.false_eq_true, if_false, List.foldr_cons, List.foldr_nil, XR.add, XR.div,
    List.length_cons, List.length_nil]
  norm_num

/-- an undefined (NaN = 0/0) ratio: Python's `min` keeps a NaN FIRST argument and ignores a NaN
    second argument; pandas' mean skips NaN -/
theorem pyFold_min_nan_left (b : XR) : pyFold "min" [nan, b] = some nan := by
  have hne : ¬ ("min" = "max") := by decide
  cases b <;> simp [pyFold, hne, pyMin2, XR.lt]

theorem pyFold_min_nan_right (a : Rat) : pyFold "min" [fin a, nan] = some (fin a) := by
  have hne : ¬ ("min" = "max") := by decide
  simp [pyFold, hne, pyMin2, XR.lt]

theorem meanSkip_nan_left (b : Rat) : XR.meanSkip [nan, fin b] = fin b := by
  simp [meanSkip, isNan, XR.add, XR.div]

theorem meanSkip_nan_right (a : Rat) : XR.meanSkip [fin a, nan] = fin a := by
  simp [meanSkip, isNan, XR.add, XR.div]

/-! #### Python's `max` / `min` and pandas' `mean` on ANY pair of disparities (NaN, ±inf included) -/

/-- `max(a, b)`: a NaN first argument is returned, a NaN second argument is ignored, otherwise the
    NaN-skipping maximum (first argument on ties) -/
theorem pyFold_max_pair (a b : XR) :
    pyFold "max" [a, b] = some (if a.isNan then nan else if b.isNan then a else maxSkip2 a b) := by
  cases a <;> cases b <;> simp [pyFold, pyMax2, XR.lt, isNan, maxSkip2]

theorem pyFold_min_pair (a b : XR) :
    pyFold "min" [a, b] = some (if a.isNan then nan else if b.isNan then a else minSkip2 a b) := by
  have hne : ¬ ("min" = "max") := by decide
  cases a <;> cases b <;> simp [pyFold, hne, pyMin2, XR.lt, isNan, minSkip2]

/-- `Series.mean()` of two values: NaN entries are skipped; all-NaN gives NaN; otherwise the IEEE mean
    (`inf + -inf = NaN`) -/
theorem meanSkip_pair (a b : XR) :
    XR.meanSkip [a, b] =
      if a.isNan then b else if b.isNan then a else XR.div (XR.add a b) (fin 2) := by
  cases a <;> cases b <;> simp [meanSkip, isNan, XR.add, XR.div]

/-- on finite disparities: the worst case (max) dominates both components and the mean; the worst case
    of the ratios (min) is dominated by both and by the mean -/
theorem worst_case_bounds (a b : Rat) :
    (∃ M, pyFold "max" [fin a, fin b] = some (fin M) ∧ a ≤ M ∧ b ≤ M ∧
      ∃ μ, XR.meanSkip [fin a, fin b] = fin μ ∧ μ ≤ M) ∧
    (∃ m, pyFold "min" [fin a, fin b] = some (fin m) ∧ m ≤ a ∧ m ≤ b ∧
      ∃ μ, XR.meanSkip [fin a, fin b] = fin μ ∧ m ≤ μ) := by
  refine ⟨⟨max a b, pyFold_max_fin a b, le_max_left _ _, le_max_right _ _, (a + b) / 2, meanSkip_fin a b, ?_⟩,
          ⟨min a b, pyFold_min_fin a b, min_le_left _ _, min_le_right _ _, (a + b) / 2, meanSkip_fin a b, ?_⟩⟩
  · have h1 := le_max_left a b; have h2 := le_max_right a b; linarith
  · have h1 := min_le_left a b; have h2 := min_le_right a b; linarith

/-- equalized odds difference: worst case = the larger, mean = the average of the TPR and FPR
    between-group differences, each being max − min of the directly computed group rates -/
theorem eodds_difference_eq_spec (agg : Agg) (nsf : Nat) (rows : List (Row Dat)) (hv : Valid nsf rows)
    (hb : BinaryRows rows) :
    ∃ tmn tmx fmn fmx, IsGroupMin tprSpec rows tmn ∧ IsGroupMax tprSpec rows tmx ∧
      IsGroupMin fprSpec rows fmn ∧ IsGroupMax fprSpec rows fmx ∧
      eodds "equalized_odds_difference" .between agg nsf rows =
        some (.value (fin (match agg with
          | .worstCase => max (tmx - tmn) (fmx - fmn)
          | .mean => ((tmx - tmn) + (fmx - fmn)) / 2))) := by
  obtain ⟨tmn, tmx, t1, t2, t3⟩ := difference_between_spec hv (tpr_finiteOn hb)
  obtain ⟨fmn, fmx, f1, f2, f3⟩ := difference_between_spec hv (fpr_finiteOn hb)
  obtain ⟨a, b, ha, hb', he⟩ := eodds_def "equalized_odds_difference" "difference" "max" .difference
    (by decide +kernel) (by decide +kernel) .between agg nsf rows hv hb
  rw [t3] at ha; rw [f3] at hb'
  injection ha with ha; injection hb' with hb'
  subst ha; subst hb'
  refine ⟨tmn, tmx, fmn, fmx, t1, t2, f1, f2, ?_⟩
  rw [he]
  cases agg
  · simp only [pyFold_max_fin, Option.map_some]
  · simp only [meanSkip_fin]

/-- GENERAL form, any method, any pair of disparities (NaN = undefined ratio and ±inf included):
    with `a` / `b` the TPR / FPR aggregate of the two single-metric frames,
    equalized_odds_difference = Python `max(a, b)` resp. the NaN-skipping mean, and
    equalized_odds_ratio = Python `min(a, b)` resp. the NaN-skipping mean. -/
theorem eodds_general (meth : Method) (nsf : Nat) (rows : List (Row Dat)) (hv : Valid nsf rows)
    (hb : BinaryRows rows) :
    (∃ a b, run .tpr .difference meth true nsf rows = .value a ∧ run .fpr .difference meth true nsf rows = .value b ∧
      eodds "equalized_odds_difference" meth .worstCase nsf rows =
        some (.value (if a.isNan then nan else if b.isNan then a else maxSkip2 a b)) ∧
      eodds "equalized_odds_difference" meth .mean nsf rows =
        some (.value (if a.isNan then b else if b.isNan then a else XR.div (XR.add a b) (fin 2)))) ∧
    (∃ a b, run .tpr .ratio meth true nsf rows = .value a ∧ run .fpr .ratio meth true nsf rows = .value b ∧
      eodds "equalized_odds_ratio" meth .worstCase nsf rows =
        some (.value (if a.isNan then nan else if b.isNan then a else minSkip2 a b)) ∧
      eodds "equalized_odds_ratio" meth .mean nsf rows =
        some (.value (if a.isNan then b else if b.isNan then a else XR.div (XR.add a b) (fin 2)))) := by
  constructor
  · obtain ⟨a, b, ha, hb', he⟩ := eodds_def "equalized_odds_difference" "difference" "max" .difference
      (by decide +kernel) (by decide +kernel) meth .worstCase nsf rows hv hb
    obtain ⟨a', b', ha', hb'', he'⟩ := eodds_def "equalized_odds_difference" "difference" "max" .difference
      (by decide +kernel) (by decide +kernel) meth .mean nsf rows hv hb
    rw [ha] at ha'; rw [hb'] at hb''
    injection ha' with ha'; injection hb'' with hb''
    subst ha'; subst hb''
    refine ⟨a, b, ha, hb', ?_, ?_⟩
    · rw [he]; simp only [pyFold_max_pair, Option.map_some]
    · rw [he']; simp only [meanSkip_pair]
  · obtain ⟨a, b, ha, hb', he⟩ := eodds_def "equalized_odds_ratio" "ratio" "min" .ratio
      (by decide +kernel) (by decide +kernel) meth .worstCase nsf rows hv hb
    obtain ⟨a', b', ha', hb'', he'⟩ := eodds_def "equalized_odds_ratio" "ratio" "min" .ratio
      (by decide +kernel) (by decide +kernel) meth .mean nsf rows hv hb
    rw [ha] at ha'; rw [hb'] at hb''
    injection ha' with ha'; injection hb'' with hb''
    subst ha'; subst hb''
    refine ⟨a, b, ha, hb', ?_, ?_⟩
    · rw [he]; simp only [pyFold_min_pair, Option.map_some]
    · rw [he']; simp only [meanSkip_pair]

/-- equalized odds ratio when both ratios are defined (a group with a positive TPR and one with a
    positive FPR exist): worst case = the smaller, mean = the average of min/max ratios -/
theorem eodds_ratio_eq_spec (agg : Agg) (nsf : Nat) (rows : List (Row Dat)) (hv : Valid nsf rows)
    (hb : BinaryRows rows) :
    ∃ tmn tmx fmn fmx, IsGroupMin tprSpec rows tmn ∧ IsGroupMax tprSpec rows tmx ∧
      IsGroupMin fprSpec rows fmn ∧ IsGroupMax fprSpec rows fmx ∧
      (tmx ≠ 0 → fmx ≠ 0 →
        eodds "equalized_odds_ratio" .between agg nsf rows =
          some (.value (fin (match agg with
            | .worstCase => min (tmn / tmx) (fmn / fmx)
            | .mean => (tmn / tmx + fmn / fmx) / 2)))) := by
  obtain ⟨tmn, tmx, t1, t2, t3⟩ := ratio_between_spec hv (tpr_finiteOn hb)
  obtain ⟨fmn, fmx, f1, f2, f3⟩ := ratio_between_spec hv (fpr_finiteOn hb)
  obtain ⟨a, b, ha, hb', he⟩ := eodds_def "equalized_odds_ratio" "ratio" "min" .ratio
    (by decide +kernel) (by decide +kernel) .between agg nsf rows hv hb
  rw [t3] at ha; rw [f3] at hb'
  injection ha with ha; injection hb' with hb'
  subst ha; subst hb'
  refine ⟨tmn, tmx, fmn, fmx, t1, t2, f1, f2, ?_⟩
  intro h1 h2
  rw [he, div_fin_fin, div_fin_fin, if_neg h1, if_neg h2]
  cases agg
  · simp only [pyFold_min_fin, Option.map_some]
  · simp only [meanSkip_fin]

/-! ### (5) generated functions and make_derived_metric -/

/-- a function created by `make_derived_metric` returns what the equivalent MetricFrame call returns:
    `difference(method=…)`, `ratio(method=…)`, `group_min()`, `group_max()` of the frame of that metric
    (the `method` argument is passed on to difference/ratio only) -/
theorem derived_eq_metricframe (m : Metric) (meth : Method) (nsf : Nat) (rows : List (Row Dat)) :
    derived m "difference" meth nsf rows = some (run m .difference meth true nsf rows) ∧
    derived m "ratio" meth nsf rows = some (run m .ratio meth true nsf rows) ∧
    derived m "group_min" meth nsf rows = some (run m .groupMin meth false nsf rows) ∧
    derived m "group_max" meth nsf rows = some (run m .groupMax meth false nsf rows) := by
  refine ⟨?_, ?_, ?_, ?_⟩ <;> simp [derived, FairnessSpec.dispatch, aggOfName]

/-- group_min / group_max do not depend on the `method` argument -/
theorem run_group_method_irrelevant (m : Metric) (meth : Method) (b : Bool) (nsf : Nat) (rows : List (Row Dat)) :
    run m .groupMin meth b nsf rows = run m .groupMin .between true nsf rows ∧
    run m .groupMax meth b nsf rows = run m .groupMax .between true nsf rows := by
  constructor <;> simp [run, applyAgg, applyAggGot]

/-! ### argument plumbing of `make_derived_metric` (`Model/Derived.lean` over the generated `DerivedSpec`) -/

/-- The constructor succeeds exactly when the metric is callable, does not itself take a reserved
    transform parameter (`method`), and the transform is one of the four options; it then stores the
    transform and the sample parameter names (`None` ↦ no sample parameters).  Every way it fails is a
    ValueError (non-callable metric, a metric that takes `method`, an unknown transform string) — in
    particular `inspect.signature` (TypeError) is never reached for a non-callable. -/
theorem derived_make_eq (mi : Derived.MetricInfo) (tr : String) (spn : Option (List String)) :
    Derived.make mi tr spn =
      if mi.callable = true ∧ "method" ∉ mi.sigParams ∧ tr ∈ FairnessSpec.transformOptions
      then .ok ⟨tr, spn.getD []⟩ else .error .valueError := by
  obtain ⟨c, hn, sp, aa⟩ := mi
  cases c <;> by_cases hm : "method" ∈ sp <;> by_cases ht : tr ∈ FairnessSpec.transformOptions <;>
    simp [Derived.make, Derived.runChecks, Derived.checkStep, DerivedSpec.initChecks,
      FairnessSpec.parametersForTransforms, hm, ht]

theorem derived_make_ok_iff (mi : Derived.MetricInfo) (tr : String) (spn : Option (List String)) :
    Derived.make mi tr spn = .ok ⟨tr, spn.getD []⟩ ↔
      (mi.callable = true ∧ "method" ∉ mi.sigParams ∧ tr ∈ FairnessSpec.transformOptions) := by
  rw [derived_make_eq]
  split <;> simp_all

theorem derived_make_error_is_valueError (mi : Derived.MetricInfo) (tr : String) (spn : Option (List String))
    (e : Derived.Out) (h : Derived.make mi tr spn = .error e) : e = .valueError := by
  rw [derived_make_eq] at h
  split at h
  · cases h
  · injection h with h; exact h.symm

theorem derived_make_fails (mi : Derived.MetricInfo) (tr : String) (spn : Option (List String))
    (h : mi.callable = false ∨ "method" ∈ mi.sigParams ∨ tr ∉ FairnessSpec.transformOptions) :
    Derived.make mi tr spn = .error .valueError := by
  rw [derived_make_eq, if_neg]
  rintro ⟨h1, h2, h3⟩
  rcases h with h | h | h
  · rw [h1] at h; cases h
  · exact h2 h
  · exact h h3

/-- Routing of `**other_params`: a name listed in `sample_param_names` is a sample parameter (even
    `method`); otherwise `method` is a transform parameter; every other name is bound to the metric. -/
theorem derived_route (spn : List String) (k : String) :
    Derived.route spn k =
      if k ∈ spn then "sample" else if k = "method" then "transform" else "bound" := by
  unfold Derived.route
  simp only [DerivedSpec.routeChain, DerivedSpec.routeDefault, List.find?_cons, List.find?_nil, Derived.inCollection,
    FairnessSpec.parametersForTransforms]
  by_cases h1 : k ∈ spn
  · simp [h1]
  · by_cases h2 : k = "method"
    · subst h2; simp [h1]
    · simp [h1, h2]

/-- with the default `sample_param_names`, `method` reaches the transform and `sample_weight` is sliced -/
theorem derived_route_default :
    Derived.route DerivedSpec.defaultSampleParamNames "method" = "transform" ∧
    Derived.route DerivedSpec.defaultSampleParamNames "sample_weight" = "sample" ∧
    Derived.route DerivedSpec.defaultSampleParamNames "pos_label" = "bound" := by
  decide +kernel

/-- "returns what the equivalent MetricFrame call returns": after the routing, the call IS the frame
    construction + aggregate of `Fairness.derived` (the model of every generated `<metric>_<transform>`
    function), for every transform, dataset and valid `method=` string; without `method=` it is the
    default `between_groups`. -/
theorem derived_finish_eq (d : Derived.Made) (s : String) (m : Method) (hm : Derived.parseMethodStr s = some m)
    (nsf : Nat) (rows : List (Row Dat)) :
    Derived.finish d (some (.str s)) nsf rows = (derived .meanpred d.transform m nsf rows).map Derived.ofRes ∧
    Derived.finish d none nsf rows = (derived .meanpred d.transform .between nsf rows).map Derived.ofRes := by
  have hrun : ∀ k, run .meanpred k m false nsf rows = run .meanpred k .between false nsf rows := by
    intro k; simp [run, applyAgg, applyAggGot]
  unfold Derived.finish derived
  cases FairnessSpec.dispatch.find? (fun e => e.1 == d.transform) with
  | none => simp
  | some disp =>
    obtain ⟨t, mm, b⟩ := disp
    cases hk : aggOfName mm with
    | none => simp [hk]
    | some k => cases b <;> simp [hk, hm, hrun]

/-- an unknown `method=` string makes difference / ratio raise ValueError, while group_min / group_max
    never look at it -/
theorem derived_bad_method (d : Derived.Made) (s : String) (hs : Derived.parseMethodStr s = none)
    (nsf : Nat) (rows : List (Row Dat)) :
    (d.transform = "difference" ∨ d.transform = "ratio" → Derived.finish d (some (.str s)) nsf rows = some .valueError) ∧
    (d.transform = "group_min" ∨ d.transform = "group_max" →
      Derived.finish d (some (.str s)) nsf rows = Derived.finish d none nsf rows) := by
  constructor
  · rintro (h | h) <;> simp [Derived.finish, h, FairnessSpec.dispatch, aggOfName, hs]
  · rintro (h | h) <;> simp [Derived.finish, h, FairnessSpec.dispatch, aggOfName]

/-- STRICT name rule (`self._metric_fn.__name__`, the source before repair be74ce5 — finding F17): a
    callable without `__name__` (a `functools.partial` object, a callable instance) passes the constructor
    but every call raises AttributeError, although the equivalent `MetricFrame(metrics=functools.partial(...))`
    call answers. -/
theorem derived_nameless_raises (mi : Derived.MetricInfo) (hn : mi.hasName = false) (d : Derived.Made)
    (kw : List (String × Derived.KwVal)) (ys ps : List Rat) (cols : List (List Level)) :
    Derived.callWith true mi d kw ys ps cols = some .attributeError := by
  simp [Derived.callWith, hn]

/-- CURRENT source (name rule lifted into `DerivedSpec.readsName`): whether the metric object has a
    `__name__` makes no difference — a nameless callable gives exactly the result of the same metric as a
    plain function, i.e. the MetricFrame result of `derived_finish_eq`. -/
theorem derived_nameless_ok (mi : Derived.MetricInfo) (d : Derived.Made)
    (kw : List (String × Derived.KwVal)) (ys ps : List Rat) (cols : List (List Level)) :
    Derived.call mi d kw ys ps cols = Derived.call { mi with hasName := true } d kw ys ps cols := by
  simp [Derived.call, Derived.callWith, DerivedSpec.readsName]

/-- every variant listed in METRICS_SPEC is a transform `make_derived_metric` accepts and
    `_DerivedMetric.__call__` dispatches; the generated names are pairwise distinct -/
theorem metrics_spec_wellformed :
    (∀ e ∈ FairnessSpec.metricsSpec, ∀ v ∈ e.2, v ∈ FairnessSpec.transformOptions) ∧
    (∀ t ∈ FairnessSpec.transformOptions, (FairnessSpec.dispatch.find? (fun d => d.1 == t)).isSome) ∧
    (generatedNames.map (·.1)).Nodup ∧
    FairnessSpec.sampleParamNames = ["sample_weight"] := by
  decide +kernel

/-- e.g. the generated `selection_rate_difference` IS `make_derived_metric(selection_rate, "difference")`,
    hence equals demographic_parity_difference -/
theorem selection_rate_difference_eq_dp (meth : Method) (nsf : Nat) (rows : List (Row Dat)) :
    generated "selection_rate_difference" meth nsf rows =
      some (named "demographic_parity_difference" meth nsf rows) := by
  have g1 : generatedNames.find? (fun g => g.1 == "selection_rate_difference") = some ("selection_rate_difference", "selection_rate", "difference") := by
    decide +kernel
  have g2 : baseOfName "selection_rate" = some .selrate := by decide +kernel
  have g3 : FairnessSpec.dispatch.find? (fun d => d.1 == "difference") = some ("difference", "difference", true) := by
    decide +kernel
  have g4 : aggOfName "difference" = some .difference := by decide +kernel
  rw [demographic_parity_difference_def]
  unfold generated derived
  rw [g1]
  simp only [Option.bind_eq_bind, Option.bind_some, g2, g3, g4, Option.pure_def]

theorem true_positive_rate_ratio_eq_eopp (meth : Method) (nsf : Nat) (rows : List (Row Dat)) :
    generated "true_positive_rate_ratio" meth nsf rows =
      some (named "equal_opportunity_ratio" meth nsf rows) := by
  have g1 : generatedNames.find? (fun g => g.1 == "true_positive_rate_ratio") = some ("true_positive_rate_ratio", "true_positive_rate", "ratio") := by
    decide +kernel
  have g2 : baseOfName "true_positive_rate" = some .tpr := by decide +kernel
  have g3 : FairnessSpec.dispatch.find? (fun d => d.1 == "ratio") = some ("ratio", "ratio", true) := by
    decide +kernel
  have g4 : aggOfName "ratio" = some .ratio := by decide +kernel
  rw [equal_opportunity_ratio_def]
  unfold generated derived
  rw [g1]
  simp only [Option.bind_eq_bind, Option.bind_some, g2, g3, g4, Option.pure_def]

/-! ## Review additions (R1)

### the WHOLE generated family `<metric>_{difference,ratio,group_min,group_max}`, from the lifted table

`generatedNames` is computed from the lifted `METRICS_SPEC`; the theorems below quantify over ALL its
entries whose base metric the model can evaluate (9 of 16 bases, 18 of 25 functions: `generated_bases`),
instead of naming two of them. -/

/-- first-principles definition of every base metric of the model that occurs in `METRICS_SPEC` -/
def specOf : Metric → Option (List Dat → Rat)
  | .selrate => some selRateSpec
  | .tpr => some tprSpec | .fpr => some fprSpec | .tnr => some tnrSpec | .fnr => some fnrSpec
  | .accuracy => some accuracySpec | .zeroOne => some zeroOneSpec
  | .mae => some maeSpec | .mse => some mseSpec
  | .meanpred => some meanPredictionSpec
  | _ => none

/-- on valid binary data every such base metric returns its first-principles value on EVERY non-empty
    slice (each group, single-member groups, the whole data) -/
theorem finiteOn_of_spec {m : Metric} {sp : List Dat → Rat} {nsf : Nat} {rows : List (Row Dat)}
    (hv : Valid nsf rows) (hb : BinaryRows rows) (hs : specOf m = some sp) :
    FiniteOn (eval m) sp rows := by
  have hw : ∀ ds : List Dat, (∀ d ∈ ds, ∃ r ∈ rows, r.dat = d) → ∀ d ∈ ds, 0 < d.p0 := by
    intro ds hsub d hd
    obtain ⟨r, hr, rfl⟩ := hsub d hd
    exact hv.wpos r hr
  cases m <;> simp only [specOf, Option.some.injEq, reduceCtorEq] at hs <;> subst hs
  · exact selrate_finiteOn hv
  · exact tpr_finiteOn hb
  · exact fpr_finiteOn hb
  · exact fun _ hne hsub => tnr_eq_spec (binary_of_sub hb hsub) hne
  · exact fun _ hne hsub => fnr_eq_spec (binary_of_sub hb hsub) hne
  · exact fun ds hne hsub => meanpred_eq_spec (hw ds hsub) hne
  · exact fun ds hne hsub => accuracy_eq_spec (hw ds hsub) hne
  · exact fun ds hne hsub => zeroOne_eq_spec (hw ds hsub) hne
  · exact fun ds hne hsub => mae_eq_spec (hw ds hsub) hne
  · exact fun ds hne hsub => mse_eq_spec (hw ds hsub) hne

/-- what the property says each variant is: the MetricFrame method, and whether `method=` reaches it -/
def variantSpec : String → Option (AggKind × Bool)
  | "difference" => some (.difference, true)
  | "ratio" => some (.ratio, true)
  | "group_min" => some (.groupMin, false)
  | "group_max" => some (.groupMax, false)
  | _ => none

/-- `_DerivedMetric.__call__` as a function of the lifted dispatch table -/
theorem derived_eq (m : Metric) (t : String) (meth : Method) (nsf : Nat) (rows : List (Row Dat)) :
    derived m t meth nsf rows =
      ((FairnessSpec.dispatch.find? (fun d => d.1 == t)).bind
        (fun d => (aggOfName d.2.1).map (fun k => (k, d.2.2)))).map
        (fun kb => run m kb.1 meth kb.2 nsf rows) := by
  unfold derived
  cases FairnessSpec.dispatch.find? (fun d => d.1 == t) with
  | none => rfl
  | some d => cases h : aggOfName d.2.1 <;> simp [h]

/-- facts about the LIFTED tables, checked entry by entry (finite tables; re-checked on every run):
    every generated name is found as itself, and the lifted dispatch sends its variant to the MetricFrame
    method `variantSpec` says -/
theorem generated_table_facts :
    ∀ g ∈ generatedNames,
      generatedNames.find? (fun x => x.1 == g.1) = some g ∧
      (FairnessSpec.dispatch.find? (fun d => d.1 == g.2.2)).bind
        (fun d => (aggOfName d.2.1).map (fun k => (k, d.2.2))) = variantSpec g.2.2 ∧
      (variantSpec g.2.2).isSome = true := by
  decide +kernel

/-- EVERY generated function whose base metric is in the model is the MetricFrame aggregate its name
    says, of the frame of its base metric: for all datasets, both `method` values -/
theorem generated_family (g : String × String × String) (hg : g ∈ generatedNames) (m : Metric)
    (hm : baseOfName g.2.1 = some m) (meth : Method) (nsf : Nat) (rows : List (Row Dat)) :
    ∃ k b, variantSpec g.2.2 = some (k, b) ∧
      generated g.1 meth nsf rows = some (some (run m k meth b nsf rows)) := by
  obtain ⟨h1, h2, h3⟩ := generated_table_facts g hg
  obtain ⟨⟨k, b⟩, hkb⟩ := Option.isSome_iff_exists.mp h3
  refine ⟨k, b, hkb, ?_⟩
  unfold generated
  rw [h1]
  simp only [Option.bind_eq_bind, Option.bind_some, hm, Option.pure_def]
  rw [derived_eq, h2, hkb]
  rfl

/-- … and hence returns the value obtained by computing the base metric of each group DIRECTLY FROM THE
    ROWS (`sp`, the first-principles definition) and applying min / max / max−min / min÷max or their
    to_overall variants — the clause of the property for the whole generated family. -/
theorem generated_eq_spec (g : String × String × String) (hg : g ∈ generatedNames) (m : Metric)
    (hm : baseOfName g.2.1 = some m) (sp : List Dat → Rat) (hsp : specOf m = some sp)
    (nsf : Nat) (rows : List (Row Dat)) (hv : Valid nsf rows) (hb : BinaryRows rows) :
    (g.2.2 = "group_min" → ∀ meth, ∃ mn, IsGroupMin sp rows mn ∧
        generated g.1 meth nsf rows = some (some (.value (fin mn)))) ∧
    (g.2.2 = "group_max" → ∀ meth, ∃ mx, IsGroupMax sp rows mx ∧
        generated g.1 meth nsf rows = some (some (.value (fin mx)))) ∧
    (g.2.2 = "difference" →
        (∃ mn mx, IsGroupMin sp rows mn ∧ IsGroupMax sp rows mx ∧
          generated g.1 .between nsf rows = some (some (.value (fin (mx - mn))))) ∧
        (∃ D, generated g.1 .toOverall nsf rows = some (some (.value (fin D))) ∧
          (∃ r ∈ rows, D = |sp (groupOf rows r) - sp (slice rows)|) ∧
          ∀ r ∈ rows, |sp (groupOf rows r) - sp (slice rows)| ≤ D)) ∧
    (g.2.2 = "ratio" →
        (∃ mn mx, IsGroupMin sp rows mn ∧ IsGroupMax sp rows mx ∧
          generated g.1 .between nsf rows = some (some (.value (XR.div (fin mn) (fin mx))))) ∧
        (sp (slice rows) ≠ 0 → ∃ ρ, generated g.1 .toOverall nsf rows = some (some (.value (fin ρ))) ∧
          (∃ r ∈ rows, ρ = subOne (sp (groupOf rows r) / sp (slice rows))) ∧
          ∀ r ∈ rows, ρ ≤ subOne (sp (groupOf rows r) / sp (slice rows)))) := by
  have hf := finiteOn_of_spec hv hb hsp
  have fam := fun meth => generated_family g hg m hm meth nsf rows
  refine ⟨?_, ?_, ?_, ?_⟩
  · intro ht meth
    obtain ⟨k, b, hk, hgen⟩ := fam meth
    rw [ht] at hk; simp only [variantSpec, Option.some.injEq, Prod.mk.injEq] at hk
    obtain ⟨rfl, rfl⟩ := hk
    obtain ⟨mn, h1, h2⟩ := group_min_spec hv hf .between
    exact ⟨mn, h1, by rw [hgen, (run_group_method_irrelevant m meth false nsf rows).1, h2]⟩
  · intro ht meth
    obtain ⟨k, b, hk, hgen⟩ := fam meth
    rw [ht] at hk; simp only [variantSpec, Option.some.injEq, Prod.mk.injEq] at hk
    obtain ⟨rfl, rfl⟩ := hk
    obtain ⟨mx, h1, h2⟩ := group_max_spec hv hf .between
    exact ⟨mx, h1, by rw [hgen, (run_group_method_irrelevant m meth false nsf rows).2, h2]⟩
  · intro ht
    constructor
    · obtain ⟨k, b, hk, hgen⟩ := fam .between
      rw [ht] at hk; simp only [variantSpec, Option.some.injEq, Prod.mk.injEq] at hk
      obtain ⟨rfl, rfl⟩ := hk
      obtain ⟨mn, mx, h1, h2, h3⟩ := difference_between_spec hv hf
      exact ⟨mn, mx, h1, h2, by rw [hgen, h3]⟩
    · obtain ⟨k, b, hk, hgen⟩ := fam .toOverall
      rw [ht] at hk; simp only [variantSpec, Option.some.injEq, Prod.mk.injEq] at hk
      obtain ⟨rfl, rfl⟩ := hk
      obtain ⟨D, h1, h2, h3⟩ := difference_overall_spec hv hf
      exact ⟨D, by rw [hgen, h1], h2, h3⟩
  · intro ht
    constructor
    · obtain ⟨k, b, hk, hgen⟩ := fam .between
      rw [ht] at hk; simp only [variantSpec, Option.some.injEq, Prod.mk.injEq] at hk
      obtain ⟨rfl, rfl⟩ := hk
      obtain ⟨mn, mx, h1, h2, h3⟩ := ratio_between_spec hv hf
      exact ⟨mn, mx, h1, h2, by rw [hgen, h3]⟩
    · intro ho
      obtain ⟨k, b, hk, hgen⟩ := fam .toOverall
      rw [ht] at hk; simp only [variantSpec, Option.some.injEq, Prod.mk.injEq] at hk
      obtain ⟨rfl, rfl⟩ := hk
      obtain ⟨ρ, h1, h2, h3⟩ := ratio_overall_spec hv hf ho
      exact ⟨ρ, by rw [hgen, h1], h2, h3⟩

/-- coverage of the lifted `METRICS_SPEC` by the model: 9 base metrics (18 generated functions) are
    evaluated by the model and each has a first-principles definition in `specOf`; the other 7 bases
    (7 functions, all `group_min` / `group_max` of sklearn-only scores) are OUTSIDE the Lean model
    (`generated … = some none`): for them the property is checked only by the correspondence harness
    against sklearn on first-principles slices. -/
theorem generated_bases :
    (FairnessSpec.metricsSpec.filter (fun e => (baseOfName e.1).isSome)).map (·.1) =
      ["true_positive_rate", "true_negative_rate", "false_positive_rate", "false_negative_rate",
       "selection_rate", "accuracy_score", "zero_one_loss", "mean_absolute_error", "mean_squared_error"] ∧
    (FairnessSpec.metricsSpec.filter (fun e => !(baseOfName e.1).isSome)).map (·.1) =
      ["balanced_accuracy_score", "precision_score", "recall_score", "roc_auc_score", "r2_score",
       "f1_score", "log_loss"] ∧
    (∀ e ∈ FairnessSpec.metricsSpec, ∀ m, baseOfName e.1 = some m → (specOf m).isSome = true) ∧
    generatedNames.length = 25 ∧
    (generatedNames.filter (fun g => (baseOfName g.2.1).isSome)).length = 18 := by
  refine ⟨by decide +kernel, by decide +kernel, ?_, by decide +kernel, by decide +kernel⟩
  intro e he m hm
  have : ∀ e ∈ FairnessSpec.metricsSpec, (match baseOfName e.1 with | some m => (specOf m).isSome | none => true) = true := by
    decide +kernel
  have h := this e he
  rw [hm] at h
  exact h

/-! ### equal opportunity / equalized odds with `method="to_overall"`, and the zero-overall ratio branch -/

theorem eopp_difference_overall_eq_spec (nsf : Nat) (rows : List (Row Dat)) (hv : Valid nsf rows)
    (hb : BinaryRows rows) :
    ∃ D, named "equal_opportunity_difference" .toOverall nsf rows = some (.value (fin D)) ∧
      (∃ r ∈ rows, D = |tprSpec (groupOf rows r) - tprSpec (slice rows)|) ∧
      ∀ r ∈ rows, |tprSpec (groupOf rows r) - tprSpec (slice rows)| ≤ D := by
  obtain ⟨D, h1, h2, h3⟩ := difference_overall_spec hv (tpr_finiteOn hb)
  exact ⟨D, by rw [equal_opportunity_difference_def, h1], h2, h3⟩

theorem eopp_ratio_overall_eq_spec (nsf : Nat) (rows : List (Row Dat)) (hv : Valid nsf rows)
    (hb : BinaryRows rows) (ho : tprSpec (slice rows) ≠ 0) :
    ∃ ρ, named "equal_opportunity_ratio" .toOverall nsf rows = some (.value (fin ρ)) ∧
      (∃ r ∈ rows, ρ = subOne (tprSpec (groupOf rows r) / tprSpec (slice rows))) ∧
      ∀ r ∈ rows, ρ ≤ subOne (tprSpec (groupOf rows r) / tprSpec (slice rows)) := by
  obtain ⟨ρ, h1, h2, h3⟩ := ratio_overall_spec hv (tpr_finiteOn hb) ho
  exact ⟨ρ, by rw [equal_opportunity_ratio_def, h1], h2, h3⟩

/-- equalized odds difference, `method="to_overall"`: worst case = the larger, mean = the average of the
    TPR and FPR to_overall differences, each the largest |group rate − rate on all rows| -/
theorem eodds_difference_overall_eq_spec (agg : Agg) (nsf : Nat) (rows : List (Row Dat)) (hv : Valid nsf rows)
    (hb : BinaryRows rows) :
    ∃ DT DF,
      ((∃ r ∈ rows, DT = |tprSpec (groupOf rows r) - tprSpec (slice rows)|) ∧
        ∀ r ∈ rows, |tprSpec (groupOf rows r) - tprSpec (slice rows)| ≤ DT) ∧
      ((∃ r ∈ rows, DF = |fprSpec (groupOf rows r) - fprSpec (slice rows)|) ∧
        ∀ r ∈ rows, |fprSpec (groupOf rows r) - fprSpec (slice rows)| ≤ DF) ∧
      eodds "equalized_odds_difference" .toOverall agg nsf rows =
        some (.value (fin (match agg with
          | .worstCase => max DT DF
          | .mean => (DT + DF) / 2))) := by
  obtain ⟨DT, t1, t2, t3⟩ := difference_overall_spec hv (tpr_finiteOn hb)
  obtain ⟨DF, f1, f2, f3⟩ := difference_overall_spec hv (fpr_finiteOn hb)
  obtain ⟨a, b, ha, hb', he⟩ := eodds_def "equalized_odds_difference" "difference" "max" .difference
    (by decide +kernel) (by decide +kernel) .toOverall agg nsf rows hv hb
  rw [t1] at ha; rw [f1] at hb'
  injection ha with ha; injection hb' with hb'
  subst ha; subst hb'
  refine ⟨DT, DF, ⟨t2, t3⟩, ⟨f2, f3⟩, ?_⟩
  rw [he]
  cases agg
  · simp only [pyFold_max_fin, Option.map_some]
  · simp only [meanSkip_fin]

theorem minSkip_all_nan (l : List XR) (h : ∀ x ∈ l, x = nan) : minSkip l = nan := by
  induction l with
  | nil => rfl
  | cons x l ih =>
    have hx := h x (by simp)
    have := ih (fun y hy => h y (by simp [hy]))
    simp only [minSkip, List.foldr_cons] at this ⊢
    rw [this, hx]; rfl

/-- the branch excluded by `ratio_overall_spec` (`ho : overall ≠ 0`): when the overall value and every
    group value are 0, every quotient is 0/0 and ratio(to_overall) is NaN — replayed on fairlearn:
    `demographic_parity_ratio([0,1],[0,0],sensitive_features=['a','b'],method='to_overall')` is nan -/
theorem ratio_overall_nan_of_all_zero {m : Metric} {g : List Dat → Rat} {nsf : Nat} {rows : List (Row Dat)}
    (hv : Valid nsf rows) (hf : FiniteOn (eval m) g rows) (ho : g (slice rows) = 0)
    (hz : ∀ r ∈ rows, g (groupOf rows r) = 0) :
    run m .ratio .toOverall true nsf rows = .value nan := by
  rw [run_value hv hf, ho]
  simp only [perStratum, ratioOverallOf, AggregateSpec.ratioOverallAgg, Grouping.apply]
  congr 1
  apply minSkip_all_nan
  intro x hx
  obtain ⟨v, hvm, rfl⟩ := List.mem_map.mp hx
  rcases finNan_vals_one hv.nsf_pos hf v hvm with rfl | ⟨q, rfl⟩
  · rfl
  · obtain ⟨r, hr, hq⟩ := (group_values hv hf q).mp hvm
    rw [hq, hz r hr]
    decide +kernel

/-! ### the whole `_DerivedMetric.__call__`: routing, then the MetricFrame call -/

/-- For a metric that accepts `sample_weight` (in its signature or through `**kwargs`), created with
    `sample_weight` among the sample parameter names and `method` not among them (the default), the call
    `dm(y_true, y_pred, sensitive_features=cols, sample_weight=w[, method=s])` IS the MetricFrame
    construction on the rows weighted by `w`, followed by the transform's aggregate with `method=s`
    (`Derived.finish`, which `derived_finish_eq` identifies with `Fairness.derived`): the driver op
    `derived.call` evaluates exactly this function. -/
theorem derived_call_eq_finish (mi : Derived.MetricInfo) (d : Derived.Made) (w ys ps : List Rat)
    (cols : List (List Level)) (ms : Option String)
    (hsig : mi.acceptsAny = true ∨ "sample_weight" ∈ mi.sigParams)
    (hspn : "sample_weight" ∈ d.spn) (hmeth : "method" ∉ d.spn) :
    Derived.call mi d (("sample_weight", Derived.KwVal.col w) ::
        (match ms with | none => [] | some s => [("method", Derived.KwVal.str s)])) ys ps cols =
      (MetricPool.mkRows 0 ys ps w (ys.map (fun _ => 0)) cols).bind
        (fun rows => if rows.isEmpty then none
          else Derived.finish d (ms.map Derived.KwVal.str) cols.length rows) := by
  have r1 : Derived.route d.spn "sample_weight" = "sample" := by rw [derived_route, if_pos hspn]
  have r2 : Derived.route d.spn "method" = "transform" := by rw [derived_route, if_neg hmeth, if_pos rfl]
  have hc : mi.acceptsAny = false → "sample_weight" ∉ mi.sigParams → False := by
    intro h1 h2
    rcases hsig with h | h
    · rw [h] at h1; cases h1
    · exact h2 h
  cases ms with
  | none =>
    simp [Derived.call, Derived.callWith, DerivedSpec.readsName, Derived.lookupKw, r1]
    intro h1 h2; exact absurd h2 (fun h2 => hc h1 h2)
  | some s =>
    simp [Derived.call, Derived.callWith, DerivedSpec.readsName, Derived.lookupKw, r1, r2]
    intro h1 h2; exact absurd h2 (fun h2 => hc h1 h2)

-- its hypotheses with the default sample_param_names and the signature of the harness's plain metric
example : "sample_weight" ∈ DerivedSpec.defaultSampleParamNames ∧ "method" ∉ DerivedSpec.defaultSampleParamNames ∧
    "sample_weight" ∈ ["sample_weight", "scale"] := by decide +kernel

/-! ### Non-vacuity and regression examples -/

/-- three rows, groups a | b b, weights 2 1 3 (the input of the repaired defect F1:
    a WEIGHTED SINGLE-ROW group) -/
def exF1 : List (Row Dat) :=
  [⟨⟨1, 1, 2, 0⟩, [], ["a"]⟩, ⟨⟨0, 0, 1, 0⟩, [], ["b"]⟩, ⟨⟨1, 0, 3, 0⟩, [], ["b"]⟩]

example : Valid 1 exF1 := ⟨by decide, by decide, by decide, by decide +kernel⟩
example : BinaryRows exF1 := by decide +kernel
example : named "demographic_parity_difference" .between 1 exF1 = some (.value (fin 1)) := by decide +kernel
example : named "demographic_parity_ratio" .between 1 exF1 = some (.value (fin 0)) := by decide +kernel
example : named "demographic_parity_difference" .toOverall 1 exF1 = some (.value (fin (2/3))) := by decide +kernel
example : named "equal_opportunity_difference" .between 1 exF1 = some (.value (fin 1)) := by decide +kernel
example : eodds "equalized_odds_difference" .between .worstCase 1 exF1 = some (.value (fin 1)) := by decide +kernel
example : eodds "equalized_odds_difference" .between .mean 1 exF1 = some (.value (fin (1/2))) := by decide +kernel
-- FPR is 0 in both groups: the FPR ratio is 0/0 = NaN; TPR ratio 0/1 = 0; Python min(0, nan) = 0
example : eodds "equalized_odds_ratio" .between .worstCase 1 exF1 = some (.value (fin 0)) := by decide +kernel
-- a group without positives: TPR := 0 there (empty denominator)
example : eval .tpr [⟨0, 1, 1, 0⟩, ⟨0, 0, 2, 0⟩] = .scalar (fin 0) := by decide +kernel
-- non-binary labels are rejected by the rate metrics (the function raises)
example : named "equal_opportunity_difference" .between 1 [⟨⟨2, 1, 1, 0⟩, [], ["a"]⟩] = some .raised := by
  decide +kernel
example : generated "roc_auc_score_group_min" .between 1 exF1 = some none := by decide +kernel
example : generated "accuracy_score_group_min" .between 1 exF1 = some (some (.value (fin (1/4)))) := by decide +kernel


/-- seven weighted rows, groups a (3 rows) | b (4 rows), both labels in each group -/
def exEO : List (Row Dat) :=
  [⟨⟨1, 1, 1, 0⟩, [], ["a"]⟩, ⟨⟨0, 1, 2, 0⟩, [], ["a"]⟩, ⟨⟨0, 0, 1, 0⟩, [], ["a"]⟩,
   ⟨⟨1, 1, 1, 0⟩, [], ["b"]⟩, ⟨⟨1, 0, 1, 0⟩, [], ["b"]⟩, ⟨⟨0, 1, 1, 0⟩, [], ["b"]⟩, ⟨⟨0, 0, 3, 0⟩, [], ["b"]⟩]

-- ALL hypotheses of `eodds_ratio_eq_spec` incl. the antecedents `tmx ≠ 0`, `fmx ≠ 0` (exF1 has FPR 0 everywhere):
-- TPR a = 1, b = 1/2; FPR a = 2/3, b = 1/4; ratios 1/2 and 3/8
example : Valid 1 exEO ∧ BinaryRows exEO := ⟨⟨by decide, by decide, by decide, by decide +kernel⟩, by decide +kernel⟩
example : named "equal_opportunity_ratio" .between 1 exEO = some (.value (fin (1/2))) := by decide +kernel
example : generated "false_positive_rate_ratio" .between 1 exEO = some (some (.value (fin (3/8)))) := by decide +kernel
example : eodds "equalized_odds_ratio" .between .worstCase 1 exEO = some (.value (fin (3/8))) := by decide +kernel
example : eodds "equalized_odds_ratio" .between .mean 1 exEO = some (.value (fin (7/16))) := by decide +kernel
example : eodds "equalized_odds_difference" .toOverall .mean 1 exEO = some (.value (fin (2/7))) := by decide +kernel
-- `ho` of `dp_ratio_overall_eq_spec` / `ratio_overall_spec`: overall selection rate 1/2 ≠ 0 (groups 3/4 and 1/3)
example : selRateSpec (slice exEO) = 1/2 := by decide +kernel
example : named "demographic_parity_ratio" .toOverall 1 exEO = some (.value (fin (2/3))) := by decide +kernel
-- the excluded branch: overall selection rate 0
example : named "demographic_parity_ratio" .toOverall 1 [⟨⟨0, 0, 1, 0⟩, [], ["a"]⟩, ⟨⟨1, 0, 1, 0⟩, [], ["b"]⟩] = some (.value nan) := by
  decide +kernel
-- hypotheses of `generated_eq_spec` for a group_min / group_max member of the family
example : ("accuracy_score_group_min", "accuracy_score", "group_min") ∈ generatedNames ∧
    baseOfName "accuracy_score" = some .accuracy ∧ (specOf .accuracy).isSome = true := by decide +kernel
example : generated "zero_one_loss_group_max" .between 1 exEO = some (some (.value (fin (1/2)))) := by decide +kernel
example : generated "mean_squared_error_group_max" .toOverall 1 exEO = some (some (.value (fin (1/2)))) := by decide +kernel
example : generated "true_negative_rate_difference" .toOverall 1 exEO = some (some (.value (fin (5/21)))) := by decide +kernel

/-! ### the MetricFrame accessor a fairness function calls is read from the LIFTED result cache

`Fairness.applyAgg` (used by `run`, `named`, `eodds`, `derived`, `generated` and by the driver ops `fair.eval` /
`fair.derived`) is computed WITH `Generated/PopulateSrc.lean` (lifter `populate.py`: the default `errors=` / `method=` of
`MetricFrame.group_min / group_max / difference / ratio`, the cache slot each of them returns, the `(method, errors)` the
loops of `_populate_results` computed that slot with, the `no_control_levels=` flag) and the lifted `_extract_result` of
`Generated/FrameSrc.lean`.  The theorems below say that this is the call every other theorem of this file is about:
`difference(method=m)` / `ratio(method=m)` with errors='coerce', `group_min()` / `group_max()` with errors='raise',
`between_groups` when `method=` is not passed on, and `.iloc[0]` of the one-entry result.  A source edit that changes a
default, the slot an accessor reads, the errors / method value a slot is computed with or the extract flag breaks them. -/

theorem applyAgg_lifted_eq_model {α : Type} (k : AggKind) (meth : Method) (withMethod : Bool) (nsf : Nat)
    (f : List α → Cell) (rows : List (Row α)) :
    applyAgg k meth withMethod (ofFrame 0 nsf f rows) = applyAggModel k meth withMethod (ofFrame 0 nsf f rows) :=
  applyAgg_lifted_eq k meth withMethod _ rfl

/-- `run` (one MetricFrame of a bare callable + one accessor call) in terms of the hard-coded accessor model -/
theorem run_lifted_eq_model (m : Metric) (k : AggKind) (meth : Method) (withMethod : Bool) (nsf : Nat)
    (rows : List (Row Dat)) :
    run m k meth withMethod nsf rows =
      if frameRaised (ofFrame 0 nsf (eval m) rows) then .raised
      else extract (applyAggModel k meth withMethod (ofFrame 0 nsf (eval m) rows)) := by
  unfold run
  simp only [applyAgg_lifted_eq_model]

/-- the accessor call itself: documented defaults, and the scalar (`.iloc[0]`) is what is handed out -/
theorem src_accessor_calls (k : AggKind) (meth : Method) (withMethod : Bool) (t : Tables) (h : t.ncf = 0) :
    applyAggGot k meth withMethod t = .got .entry0 (applyAggModel k meth withMethod t) := by
  unfold applyAggGot applyAggModel
  cases k <;> cases withMethod <;> cases meth <;>
    simp [AggCache.groupMinPub, AggCache.groupMaxPub, AggCache.differencePub, AggCache.ratioPub, AggCache.cached,
      AggCache.entryOf, AggCache.evalCall, AggCache.extractFails, PopulateSrc.populate, PopulateSrc.validErrors,
      PopulateSrc.compareMethods, PopulateSrc.groupMinDefaultErrors, PopulateSrc.groupMaxDefaultErrors,
      PopulateSrc.differenceDefaultMethod, PopulateSrc.differenceDefaultErrors, PopulateSrc.ratioDefaultMethod,
      PopulateSrc.ratioDefaultErrors, PopulateSrc.groupMinSlot, PopulateSrc.groupMaxSlot, PopulateSrc.differenceSlot,
      PopulateSrc.ratioSlot, FrameSrc.extract_result, h, groupMin, groupMax]

end C03
