/-
C20 — inconsistent or unsupported inputs are rejected, never silently processed.
Property theorems only; helper lemmas live in `Lemmas/Validation.lean`.

`Validation.run c` is the outcome of one call (ok or the kind of exception); `WellFormed c` is the
declarative statement that none of the defects named by the property is present.  The main theorem is
`accepts_iff_wellFormed`; the corollaries below it spell out, defect by defect, that the defect alone
forces a rejection.

CLAUSE -> THEOREM TABLE (review R2).  Every theorem is about `Validation.run` / `accepts`, the functions the driver ops
`val.*` evaluate; the decision tables they use come from Generated/ValidationTables.lean.

  lengths disagree: labels / features(X = `d.n`) / sensitive / control features   length_mismatch_rejected (moments, EG, GS),
                    thr_length_mismatch_rejected (ThresholdOptimizer); predictions / sample parameters / sensitive or
                    control columns of MetricFrame: frame_length_mismatch_rejected; prediction time:
                    predict_time_sensitive_rejected, corr_rejected (transform on another width)
  labels outside {0,1} (moments, EG, GS, TO)          bad_label_rejected; empty / missing labels: empty_labels_rejected,
                                                      missing_sensitive_rejected
  missing sensitive feature                           missing_sensitive_rejected, frame_bad_names_rejected (3rd conjunct),
                                                      predict_time_sensitive_rejected (2nd conjunct)
  ThresholdOptimizer group lacking a label            degenerate_group_rejected  (guard lifted: `degenerateGroup`; the counts
                                                      are hand-written: Validation.sum_eq_nPositive, nPositive_add_nNegative)
  unsupported constraint / objective combination      unsupported_combination_rejected (1st), toFitPrefix_iff,
                                                      table_matches_documentation, table_metrics_defined
  control features for ThresholdOptimizer             unsupported_combination_rejected (2nd)
  conflicting / out-of-range parity bounds            bad_bounds_rejected
  cost / weight parameters                            bad_costs_rejected (key set: cost_keys_documented), constraint_weight_rejected,
                                                      gs_rejects_with_runtimeError
  duplicate / non-string MetricFrame feature names    frame_bad_names_rejected (1st, 2nd)
  (sample_params of the wrong type — not in the text) frame_sample_params_rejected
  "raise an exception at construction or fit time"    accepts_iff_wellFormed (rejected <-> some listed defect is present),
                                                      rejection_kind (which exception kinds; TypeError never)
  "in every accepted container type"                  NOT A THEOREM: the model sees a descriptor (lengths, labels, names);
                                                      the containers exist only in the harness stream (harness/props/c20.py)
  prediction before fit raises NotFittedError         predict_before_fit_rejected, every_entry_point_guarded (guard table
                                                      lifted: predict_guard_table), predict_time_sensitive_rejected (3rd)
  converse (valid input is never refused)             accepts_iff_wellFormed (<-), examples at the end
  the body of `_validate_and_reformat_input`                                     LIFTED (Generated/ValidateSrc.lean: ordered checks with
                                                      conditions and exception kinds, label set, check_array keywords);
                                                      `mitFit` / `toFit` / `toPredict` run the lifted list (`validateSrc`);
                                                      validateSrc_ok_iff, validateSrc_ok_iff_flags,
                                                      validateSrc_rejects_with_valueError, validateSrc_ok_iff_no_check_fires,
                                                      validate_checks_census, validate_label_set_and_array_calls; bridge to the
                                                      hand-written `validateWith`: Validation.validateSrc_eq_validateWith
  the argument checks of `MetricFrame.__init__`     LIFTED (Generated/FrameChecksSrc.lean, lifter frame_checks.py: eight ordered checks
                                                      ⟨text, what is compared, exception kind⟩, the five container branches of
                                                      `_process_features`); frame_checks_census, frameSrc_ok_iff,
                                                      frameSrc_ok_iff_no_check_fires, frame_rejected_of_lifted_check; the
                                                      frame_*_rejected theorems are proved through the lifted list; bridge to the
                                                      hand-written `frame`: FrameChecks.frameSrc_eq_frame
  hand-written, NOT lifted (see report): the meaning of the atoms on a descriptor (`evalAtom`, `FrameChecks.fires`), `corrFit`,
  `corrTransform`, `enforce_binary_labels=True` of the moments' `load_data`, the exception class of the two sklearn
  checks (`check_consistent_length`, `check_array`: ValueError, pinned in the lifter).
-/
import FairModel.Lemmas.Validation
import FairModel.Lemmas.FrameChecks

namespace Validation
open Generated.ValidationTables

/-! ### the documented constraint × objective table of `ThresholdOptimizer` (class docstring) -/

def docSimpleConstraints : List String :=
  ["selection_rate_parity", "demographic_parity", "false_positive_rate_parity",
   "false_negative_rate_parity", "true_positive_rate_parity", "true_negative_rate_parity"]
def docObjectivesSimple : List String :=
  ["accuracy_score", "balanced_accuracy_score", "selection_rate", "true_negative_rate", "true_positive_rate"]
def docObjectivesEO : List String := ["accuracy_score", "balanced_accuracy_score"]

/-- the supported combinations -/
def Supported (c o : String) : Prop :=
  (c ∈ docSimpleConstraints ∧ o ∈ docObjectivesSimple) ∨ (c = "equalized_odds" ∧ o ∈ docObjectivesEO)

/-! ### declarative well-formedness -/

/-- data accepted by `_validate_and_reformat_input` with binary labels enforced -/
def MitWF (d : MitData) : Prop :=
  (∃ y, d.y = some y ∧ y ≠ [] ∧ y.length = d.n ∧ ∀ v ∈ y, v = 0 ∨ v = 1)
  ∧ (∃ sf, d.sf = some sf ∧ sf.length = d.n)
  ∧ (∀ cf, d.cf = some cf → cf.length = d.n)

/-- every group of the sensitive feature has a row with label 1 and a row with label 0 -/
def BothLabelsPerGroup (d : MitData) : Prop :=
  ∀ sf y, d.sf = some sf → d.y = some y → ∀ g ∈ sf,
    (∃ p ∈ sf.zip y, p.1 = g ∧ p.2 = 1) ∧ (∃ p ∈ sf.zip y, p.1 = g ∧ p.2 = 0)

def FrameWF (a : FrameArgs) : Prop :=
  a.nPred = a.nTrue ∧ (∀ p ∈ a.params, p = a.nTrue) ∧ a.sf ≠ []
  ∧ (∀ c ∈ a.sf ++ a.cf, (∃ s, c.name = some s) ∧ c.len = a.nTrue)
  ∧ ((a.sf ++ a.cf).filterMap (·.name)).Nodup

/-- the prediction entry points of the estimators (class, method) as documented / read in the source -/
def docEntryPoints : List (String × String) :=
  [("ThresholdOptimizer", "predict"), ("ThresholdOptimizer", "_pmf_predict"),
   ("InterpolatedThresholder", "predict"), ("InterpolatedThresholder", "_pmf_predict"),
   ("ExponentiatedGradient", "predict"), ("ExponentiatedGradient", "_pmf_predict"),
   ("GridSearch", "predict"), ("GridSearch", "predict_proba"), ("CorrelationRemover", "transform"),
   ("_AdversarialFairness", "predict"), ("_AdversarialFairness", "_raw_predict")]

def WellFormed : Call → Prop
  | .mit d => MitWF d
  | .thr e c o d => e = true ∧ Supported c o ∧ d.cf = none ∧ MitWF d ∧ BothLabelsPerGroup d
  | .frame a => FrameWF a
  | .parity dGiven rGiven ratio diff slack =>
      ¬(dGiven = true ∧ rGiven = true) ∧ (rGiven = true → 0 < ratio ∧ ratio ≤ 1)
      ∧ (dGiven = true → rGiven = false → 0 ≤ diff) ∧ (rGiven = true → dGiven = false → 0 ≤ slack)
  | .costs given isDict keysOk fp fn =>
      given = true → isDict = true ∧ keysOk = true ∧ 0 ≤ fp ∧ 0 ≤ fn ∧ 0 < fp + fn
  | .gs isMoment ruleOk cw => isMoment = true ∧ ruleOk = true ∧ 0 ≤ cw ∧ cw ≤ 1
  | .predict fitted => fitted = true
  | .corrFit cols ids => ∀ c ∈ ids, c ∈ cols
  | .corrTransform fitted mFit mNew => fitted = true ∧ mFit = mNew
  | .predictM cls method fitted => (cls, method) ∈ docEntryPoints → fitted = true
  | .thrPredict fitted sfGiven nX nSf => fitted = true ∧ 0 < nX ∧ sfGiven = true ∧ nSf = nX
  | .frameFns spGiven spIsDict metricIsDict keysSubset innerDict =>
      (spGiven = true → spIsDict = true) ∧ (metricIsDict = true → keysSubset = true ∧ innerDict = true)

end Validation

namespace C20
open Validation Generated.ValidationTables

/-- the tables lifted from the source are the documented ones (finite table: kernel evaluation) -/
theorem table_matches_documentation :
    simpleConstraints.map Prod.fst = docSimpleConstraints
    ∧ objectivesSimple = docObjectivesSimple ∧ objectivesEO = docObjectivesEO := by
  decide +kernel

/-- every metric an accepted combination refers to is defined in `METRIC_DICT` -/
theorem table_metrics_defined :
    (∀ p ∈ simpleConstraints, p.2 ∈ metricDictKeys)
    ∧ (∀ o ∈ objectivesSimple, o ∈ metricDictKeys) ∧ (∀ o ∈ objectivesEO, o ∈ metricDictKeys) := by
  decide +kernel

/-- `ThresholdOptimizer.fit` before it looks at the data: passes exactly for a given estimator, a supported
    combination and no control features -/
theorem toFitPrefix_iff (e : Bool) (c o : String) (cfGiven : Bool) :
    toFitPrefix e c o cfGiven = true ↔ e = true ∧ cfGiven = false ∧ Supported c o := by
  obtain ⟨h1, h2, h3⟩ := table_matches_documentation
  have hne : "equalized_odds" ∉ docSimpleConstraints := by decide +kernel
  unfold toFitPrefix Supported
  rw [h1, h2, h3]
  by_cases hc : c ∈ docSimpleConstraints
  · have hce : c ≠ "equalized_odds" := fun h => hne (h ▸ hc)
    cases e <;> cases cfGiven <;> simp [hc, hce]
  · by_cases he : c = "equalized_odds"
    · subst he
      cases e <;> cases cfGiven <;> simp [hne]
    · cases e <;> cases cfGiven <;> simp [hc, he]

/-! ### each entry point accepts exactly the well-formed descriptors -/

theorem validate_ok_iff (d : MitData) : validate true d = .ok ↔ MitWF d := by
  unfold validate MitWF
  rcases d with ⟨n, y, sf, cf⟩
  cases y with
  | none => simp
  | some y =>
    cases sf with
    | none =>
      simp only [Bool.true_and]
      split <;> (try split) <;> (try split) <;> simp
    | some sf =>
      cases cf with
      | none =>
        simp only [Bool.true_and]
        by_cases h1 : y.isEmpty <;> by_cases h2 : isBinary y <;> by_cases h3 : y.length = n <;>
          by_cases h4 : sf.length = n <;>
          simp_all [isBinary_iff, List.isEmpty_iff]
      | some cf =>
        simp only [Bool.true_and]
        by_cases h1 : y.isEmpty <;> by_cases h2 : isBinary y <;> by_cases h3 : y.length = n <;>
          by_cases h4 : sf.length = n <;> by_cases h5 : cf.length = n <;>
          simp_all [isBinary_iff, List.isEmpty_iff]

/-- the generalised validation with the default expectations is the function the fit-time theorems are about -/
theorem validateWith_default (e : Bool) (d : MitData) : validateWith true true e d = validate e d := by
  unfold validateWith validate
  rcases d with ⟨n, y, sf, cf⟩
  cases y with
  | none => simp
  | some y =>
    have hn : y.isEmpty = false → y.length = n → (n == 0) = false := by
      intro h1 h2
      cases y with
      | nil => simp at h1
      | cons a l => subst h2; simp
    cases sf <;> cases cf <;> simp only [Bool.true_and] <;>
      by_cases h1 : y.isEmpty <;> by_cases h2 : (e && !isBinary y) <;> by_cases h3 : y.length = n <;>
      by_cases h4 : n = 0 <;> simp_all

/-! ### the LIFTED body of `_validate_and_reformat_input` (`Generated.ValidateSrc.checks`, lifter `validate_src.py`) -/

section Lifted
open Generated.ValidateSrc

/-- what was lifted: the conditions and exception kinds of the twelve checks, in execution order (`y is None`, empty y,
    shape of y, labels outside the lifted label set, `check_array(y)`, `check_array(X)`, rows of y against X,
    rows of the sensitive feature, its `check_array`, missing sensitive feature, rows of the control feature, its
    `check_array`).  A dropped, added, reordered or re-conditioned check changes this list. -/
theorem validate_checks_census :
    checks.map (fun c => (c.cond, c.exc)) =
      [(.and (.atom .expectY) (.neg (.atom .yGiven)), .valueError),
       (.and (.atom .expectY) (.neg (.atom .yNonempty)), .valueError),
       (.and (.atom .expectY) (.neg (.atom .yShapeOk)), .valueError),
       (.and (.atom .expectY) (.and (.atom .enforceBinary) (.neg (.atom .yBinary))), .valueError),
       (.and (.atom .expectY) (.neg (.atom .yArrayOk)), .valueError),
       (.neg (.atom .xArrayOk), .valueError),
       (.and (.atom .yGiven) (.neg (.atom .yRowsMatch)), .valueError),
       (.and (.atom .sfGiven) (.neg (.atom .sfRowsMatch)), .valueError),
       (.and (.atom .sfGiven) (.neg (.atom .sfArrayOk)), .valueError),
       (.and (.neg (.atom .sfGiven)) (.atom .expectSf), .valueError),
       (.and (.atom .cfGiven) (.neg (.atom .cfRowsMatch)), .valueError),
       (.and (.atom .cfGiven) (.neg (.atom .cfArrayOk)), .valueError)] := by
  decide +kernel

/-- the label set of the `enforce_binary_labels` test, and the keywords of the four `check_array` calls: X may be n-d and
    of any dtype, y is converted to a numeric dtype, NaN / inf are let through for X and y (not for the features).  The
    descriptor model evaluates the atoms `yShapeOk`, `yArrayOk`, `sfArrayOk`, `cfArrayOk` to true (flat rational labels,
    group ids) and `xArrayOk` to `0 < n`; these keyword lists are what that reading assumes of the calls. -/
theorem validate_label_set_and_array_calls :
    labelSet = [0, 1] ∧
    arrayCalls = [("y", [("dtype", "'numeric'"), ("ensure_2d", "False"), ("ensure_all_finite", "False")]),
                  ("x", [("allow_nd", "True"), ("dtype", "None"), ("ensure_all_finite", "False")]),
                  ("sf", [("dtype", "None"), ("ensure_2d", "False")]),
                  ("cf", [("dtype", "None"), ("ensure_2d", "False")])] := by
  decide +kernel

/-- the lifted validator accepts a descriptor iff no lifted check fires on it (holds for whatever list was lifted) -/
theorem validateSrc_ok_iff_no_check_fires (ey es eb : Bool) (d : MitData) :
    validateSrc ey es eb d = .ok ↔ ∀ c ∈ checks, evalCond (evalAtom ey es eb d) c.cond = false :=
  runChecks_ok_iff checks ey es eb d

/-- `validate_ok_iff` FOR THE LIFTED DEFINITION, any flags: accepted iff (under `expect_y`: y given, nonempty, and — under
    `enforce_binary_labels` — all labels 0/1, `Validation.isBinary_iff`), X has a row, a given y has as many rows as X, the sensitive feature is given
    (or not expected) and has as many rows as X, and so has a given control feature -/
theorem validateSrc_ok_iff_flags (ey es eb : Bool) (d : MitData) :
    validateSrc ey es eb d = .ok ↔
      (ey = true → ∃ y, d.y = some y ∧ y ≠ [] ∧ (eb = true → isBinary y = true))
      ∧ 0 < d.n ∧ (∀ y, d.y = some y → y.length = d.n)
      ∧ (es = true → d.sf ≠ none) ∧ (∀ sf, d.sf = some sf → sf.length = d.n)
      ∧ (∀ cf, d.cf = some cf → cf.length = d.n) := by
  rw [validateSrc_eq_validateWith]
  rcases d with ⟨n, y, sf, cf⟩
  unfold validateWith
  cases y with
  | none =>
    cases sf <;> cases cf <;> cases ey <;> cases es <;> simp [Nat.pos_iff_ne_zero] <;> split_ifs <;> simp_all
  | some y =>
    cases hB : isBinary y <;> cases sf <;> cases cf <;> cases ey <;> cases es <;> cases eb <;>
      simp [hB, List.isEmpty_iff, Nat.pos_iff_ne_zero] <;> (try split_ifs) <;> simp_all

/-- `validate_ok_iff` FOR THE LIFTED DEFINITION with the flags of the classification moments (`expect_y`,
    `expect_sensitive_features` at their default True, `enforce_binary_labels=True`): the check list read from the working
    tree accepts exactly the well-formed data -/
theorem validateSrc_ok_iff (d : MitData) : validateSrc true true true d = .ok ↔ MitWF d := by
  rw [validateSrc_eq_validateWith, validateWith_default]
  exact validate_ok_iff d

/-- ... and the rejection kind otherwise: every lifted check raises ValueError, so a rejected call ends in ValueError
    whatever the flags -/
theorem validateSrc_rejects_with_valueError (ey es eb : Bool) (d : MitData) (h : validateSrc ey es eb d ≠ .ok) :
    validateSrc ey es eb d = .valueError := by
  have hk : ∀ c ∈ checks, c.exc = .valueError := by decide +kernel
  rcases runChecks_kind checks hk ey es eb d with h' | h'
  · exact absurd h' h
  · exact h'

/-- BRIDGE (restated here so that it is an audited obligation of C20; proof in Lemmas/Validation.lean): the check list lifted
    from the working tree, run with first-match semantics, IS the hand-written model `validateWith`, for all flags and all
    descriptors — so every theorem of this file about `validate` / `validateWith` is a theorem about the source text -/
theorem lifted_validator_is_model (ey es eb : Bool) (d : MitData) : validateSrc ey es eb d = validateWith ey es eb d :=
  validateSrc_eq_validateWith ey es eb d

/-- the lifted validator with `enforce_binary_labels` as a parameter is the hand-written `validate` -/
theorem validateSrc_default (e : Bool) (d : MitData) : validateSrc true true e d = validate e d := by
  rw [validateSrc_eq_validateWith, validateWith_default]

end Lifted

theorem mitFit_ok_iff (d : MitData) : mitFit d = .ok ↔ MitWF d := validateSrc_ok_iff d

theorem toFit_ok_iff (e : Bool) (c o : String) (d : MitData) :
    toFit e c o d = .ok ↔ e = true ∧ Supported c o ∧ d.cf = none ∧ MitWF d ∧ BothLabelsPerGroup d := by
  have hb : toEnforcesBinary = true := rfl
  unfold toFit
  rw [hb]
  simp only [validateSrc_default]
  by_cases hp : toFitPrefix e c o d.cf.isSome = true
  · obtain ⟨he, hcf, hs⟩ := (toFitPrefix_iff _ _ _ _).mp hp
    have hcf' : d.cf = none := by
      cases h : d.cf with
      | none => rfl
      | some _ => simp [h] at hcf
    have hd : ({ d with cf := none } : MitData) = d := by
      rcases d with ⟨n, y, sf, cf⟩; simp at hcf'; subst hcf'; rfl
    simp only [hp, Bool.not_true, Bool.false_eq_true, ite_false, hd]
    by_cases hv : validate true d = .ok
    · have hw := (validate_ok_iff d).mp hv
      obtain ⟨⟨y, hy, _, _, hbin⟩, ⟨sf, hsf, _⟩, _⟩ := hw
      rw [hv]
      simp only [hsf, hy]
      have hdeg := anyDegenerate_eq_false_iff sf y hbin
      constructor
      · intro h
        have hf : anyDegenerate sf y = false := by
          cases hh : anyDegenerate sf y with
          | false => rfl
          | true => simp [hh] at h
        refine ⟨he, hs, hcf', (validate_ok_iff d).mp hv, ?_⟩
        intro sf' y' h1 h2
        rw [hsf] at h1; rw [hy] at h2
        cases h1; cases h2
        exact hdeg.mp hf
      · rintro ⟨_, _, _, _, hg⟩
        have := hdeg.mpr (hg sf y hsf hy)
        simp [this]
    · have hnw : ¬ MitWF d := fun h => hv ((validate_ok_iff d).mpr h)
      constructor
      · intro h
        exfalso
        cases hh : validate true d <;> simp [hh] at h hv
      · rintro ⟨_, _, _, hw, _⟩; exact absurd hw hnw
  · have hp' : toFitPrefix e c o d.cf.isSome = false := by simpa using hp
    simp only [hp', Bool.not_false, ite_true]
    constructor
    · intro h; cases h
    · rintro ⟨he, hs, hcf, _, _⟩
      exact absurd ((toFitPrefix_iff _ _ _ _).mpr ⟨he, by simp [hcf], hs⟩) hp

theorem frame_ok_iff (a : FrameArgs) : frame a = .ok ↔ FrameWF a := by
  have e1 : (a.nPred != a.nTrue) = false ↔ a.nPred = a.nTrue := by simp
  have e2 : a.params.any (· != a.nTrue) = false ↔ ∀ p ∈ a.params, p = a.nTrue := by
    simp [List.any_eq_false]
  have e3 : a.sf.isEmpty = false ↔ a.sf ≠ [] := by simp
  have e4 : (a.sf ++ a.cf).any (fun c => c.name.isNone || c.len != a.nTrue) = false ↔
      ∀ c ∈ a.sf ++ a.cf, (∃ s, c.name = some s) ∧ c.len = a.nTrue := by
    rw [List.any_eq_false]
    apply forall₂_congr
    intro c _
    cases hn : c.name <;> simp
  have e5 := hasDup_eq_false_iff ((a.sf ++ a.cf).filterMap (·.name))
  unfold FrameWF
  rw [← e1, ← e2, ← e3, ← e4, ← e5]
  unfold frame
  cases (a.nPred != a.nTrue) <;> cases a.params.any (· != a.nTrue) <;> cases a.sf.isEmpty <;>
    cases (a.sf ++ a.cf).any (fun c => c.name.isNone || c.len != a.nTrue) <;>
    cases hasDup ((a.sf ++ a.cf).filterMap (·.name)) <;> simp

/-- the constructor rule for either state of the trailing slack guard: the bounds chain, and — only with the guard — a
    non-negative slack (`difference_bound` when it is the bound given, `ratio_bound_slack` with a ratio bound) -/
theorem parityWith_ok_iff (guard dGiven rGiven : Bool) (ratio diff slack : Rat) :
    parityWith guard dGiven rGiven ratio diff slack = .ok ↔
      ¬(dGiven = true ∧ rGiven = true) ∧ (rGiven = true → 0 < ratio ∧ ratio ≤ 1)
      ∧ (guard = true → (dGiven = true → rGiven = false → 0 ≤ diff) ∧ (rGiven = true → dGiven = false → 0 ≤ slack)) := by
  unfold parityWith parityCtor parityEps
  cases guard <;> cases dGiven <;> cases rGiven <;> by_cases h1 : 0 < ratio <;> by_cases h2 : ratio ≤ 1 <;>
    by_cases h3 : 0 ≤ diff <;> by_cases h4 : 0 ≤ slack <;> simp [h1, h2, h3, h4]

/-- the trailing guard `if self.eps < 0: raise ValueError` is present in the source (lifted flag) -/
theorem slack_guard_present : slackMustBeNonneg = true := by decide +kernel

theorem parity_ok_iff (dGiven rGiven : Bool) (ratio diff slack : Rat) :
    parity dGiven rGiven ratio diff slack = .ok ↔
      ¬(dGiven = true ∧ rGiven = true) ∧ (rGiven = true → 0 < ratio ∧ ratio ≤ 1)
      ∧ (dGiven = true → rGiven = false → 0 ≤ diff) ∧ (rGiven = true → dGiven = false → 0 ≤ slack) := by
  unfold parity
  rw [slack_guard_present, parityWith_ok_iff]
  simp

/-- F24, the rule WITHOUT the guard (the source before the repair): a negative difference bound and a negative ratio
    slack are accepted silently -/
theorem negative_slack_accepted_without_guard :
    parityWith false true false 1 (-1) 0 = .ok ∧ parityWith false false true (1/2) 0 (-1/10) = .ok ∧
    parityWith true true false 1 (-1) 0 = .valueError ∧ parityWith true false true (1/2) 0 (-1/10) = .valueError := by
  decide +kernel

theorem costs_ok_iff (given isDict keysOk : Bool) (fp fn : Rat) :
    costs given isDict keysOk fp fn = .ok ↔
      (given = true → isDict = true ∧ keysOk = true ∧ 0 ≤ fp ∧ 0 ≤ fn ∧ 0 < fp + fn) := by
  unfold costs errorRateCtor
  cases given <;> cases isDict <;> cases keysOk <;> by_cases h1 : 0 ≤ fp <;> by_cases h2 : 0 ≤ fn <;>
    by_cases h3 : 0 < fp + fn <;> simp [h1, h2, h3]

theorem gridSearch_ok_iff (isMoment ruleOk : Bool) (cw : Rat) :
    gridSearch isMoment ruleOk cw = .ok ↔ isMoment = true ∧ ruleOk = true ∧ 0 ≤ cw ∧ cw ≤ 1 := by
  unfold gridSearch gridSearchCtor
  cases isMoment <;> cases ruleOk <;> by_cases h1 : 0 ≤ cw <;> by_cases h2 : cw ≤ 1 <;> simp [h1, h2]

/-- the lifted guard table lists exactly the documented entry points, every one guarded by `check_is_fitted` -/
theorem predict_guard_table : predictGuards = docEntryPoints.map (fun p => (p.1, p.2, true)) := by
  decide +kernel

theorem isGuarded_iff (cls method : String) : isGuarded cls method = true ↔ (cls, method) ∈ docEntryPoints := by
  unfold isGuarded
  rw [predict_guard_table, List.contains_iff_mem, List.mem_map]
  constructor
  · rintro ⟨⟨a, b⟩, hm, he⟩
    simp only [Prod.mk.injEq, and_true] at he
    obtain ⟨rfl, rfl⟩ := he
    exact hm
  · intro h; exact ⟨(cls, method), h, rfl⟩

theorem predictM_ok_iff (cls method : String) (fitted : Bool) :
    predictM cls method fitted = .ok ↔ ((cls, method) ∈ docEntryPoints → fitted = true) := by
  unfold predictM
  by_cases hg : isGuarded cls method = true
  · have hm := (isGuarded_iff cls method).mp hg
    cases fitted <;> simp [hg, hm, predict]
  · have hm : (cls, method) ∉ docEntryPoints := fun h => hg ((isGuarded_iff cls method).mpr h)
    simp [hg, hm]

theorem toPredict_ok_iff (fitted sfGiven : Bool) (nX nSf : Nat) :
    toPredict fitted sfGiven nX nSf = .ok ↔ fitted = true ∧ 0 < nX ∧ sfGiven = true ∧ nSf = nX := by
  have h1 : toPredictExpectsY = true := rfl
  have h2 : toPredictExpectsSf = true := rfl
  have h3 : toPredictEnforcesBinary = false := rfl
  unfold toPredict
  rw [validateSrc_eq_validateWith]
  unfold validateWith
  rw [h1, h2, h3]
  cases fitted <;> cases sfGiven <;> rcases Nat.eq_zero_or_pos nX with h | h <;>
    by_cases h5 : nSf = nX <;> simp_all <;> omega

theorem frameFns_ok_iff (spGiven spIsDict metricIsDict keysSubset innerDict : Bool) :
    frameFns spGiven spIsDict metricIsDict keysSubset innerDict = .ok ↔
      (spGiven = true → spIsDict = true) ∧ (metricIsDict = true → keysSubset = true ∧ innerDict = true) := by
  unfold frameFns frameFunctionsPrefix frameInnerParamsOk
  cases spGiven <;> cases spIsDict <;> cases metricIsDict <;> cases keysSubset <;> cases innerDict <;> simp

/-- MAIN THEOREM: a call is accepted exactly when its descriptor is well formed; in particular every listed
    defect forces a rejection (corollaries below) and valid inputs are never refused. -/
theorem accepts_iff_wellFormed (c : Call) : accepts c = true ↔ WellFormed c := by
  unfold accepts
  rw [beq_iff_eq]
  cases c with
  | mit d => exact mitFit_ok_iff d
  | thr e c o d => exact toFit_ok_iff e c o d
  | frame a => exact frame_ok_iff a
  | parity d r q df sl => exact parity_ok_iff d r q df sl
  | costs g d k fp fn => exact costs_ok_iff g d k fp fn
  | gs m r cw => exact gridSearch_ok_iff m r cw
  | predict f => cases f <;> simp [run, predict, WellFormed]
  | corrFit cols ids => simp [run, corrFit, WellFormed, List.all_eq_true]
  | corrTransform f a b => cases f <;> by_cases h : a = b <;> simp [run, corrTransform, WellFormed, h]
  | predictM c m f => exact predictM_ok_iff c m f
  | thrPredict f s a b => exact toPredict_ok_iff f s a b
  | frameFns a b c d e => exact frameFns_ok_iff a b c d e

theorem accepts_imp_wellFormed (c : Call) (h : accepts c = true) : WellFormed c :=
  (accepts_iff_wellFormed c).mp h

def okData : MitData := ⟨4, some [0, 1, 1, 0], some [7, 7, 9, 9], none⟩

/-! ### defect by defect: the defect alone forces `accepts = false` -/

/-- length mismatch in any argument position of a mitigator call (labels, sensitive, control features) -/
theorem length_mismatch_rejected (d : MitData) :
    (∀ y, d.y = some y → y.length ≠ d.n → accepts (.mit d) = false)
    ∧ (∀ sf, d.sf = some sf → sf.length ≠ d.n → accepts (.mit d) = false)
    ∧ (∀ cf, d.cf = some cf → cf.length ≠ d.n → accepts (.mit d) = false) := by
  refine ⟨?_, ?_, ?_⟩ <;> intro v hv hlen <;> rw [Bool.eq_false_iff] <;> intro h <;>
    obtain ⟨⟨y, hy, _, hyl, _⟩, ⟨sf, hsf, hsl⟩, hcf⟩ := accepts_imp_wellFormed _ h
  · rw [hv] at hy; cases hy; exact hlen hyl
  · rw [hv] at hsf; cases hsf; exact hlen hsl
  · exact hlen (hcf v hv)

/-- non-vacuity of `length_mismatch_rejected`: each of its three inner hypotheses is met (y one too long; sf one short; cf one short) -/
example : accepts (.mit ⟨4, some [0, 1, 1, 0, 1], some [7, 7, 9, 9], none⟩) = false ∧
    accepts (.mit ⟨4, some [0, 1, 1, 0], some [7, 9, 9], none⟩) = false ∧
    accepts (.mit ⟨4, some [0, 1, 1, 0], some [7, 7, 9, 9], some [1, 2, 1]⟩) = false :=
  ⟨(length_mismatch_rejected ⟨4, some [0, 1, 1, 0, 1], some [7, 7, 9, 9], none⟩).1 _ rfl (by decide),
   (length_mismatch_rejected ⟨4, some [0, 1, 1, 0], some [7, 9, 9], none⟩).2.1 _ rfl (by decide),
   (length_mismatch_rejected ⟨4, some [0, 1, 1, 0], some [7, 7, 9, 9], some [1, 2, 1]⟩).2.2 _ rfl (by decide)⟩

/-- a label outside {0,1} at any row -/
theorem bad_label_rejected (d : MitData) (y : List Rat) (hy : d.y = some y) (v : Rat) (hv : v ∈ y)
    (h0 : v ≠ 0) (h1 : v ≠ 1) (e : Bool) (c o : String) :
    accepts (.mit d) = false ∧ accepts (.thr e c o d) = false := by
  constructor <;> rw [Bool.eq_false_iff] <;> intro h
  · obtain ⟨⟨y', hy', _, _, hb⟩, _, _⟩ := accepts_imp_wellFormed _ h
    rw [hy] at hy'; cases hy'
    rcases hb v hv with h | h <;> contradiction
  · obtain ⟨_, _, _, ⟨⟨y', hy', _, _, hb⟩, _, _⟩, _⟩ := accepts_imp_wellFormed _ h
    rw [hy] at hy'; cases hy'
    rcases hb v hv with h | h <;> contradiction

/-- non-vacuity of `bad_label_rejected`: label 1/2 in the third of four rows, everything else valid -/
example : accepts (.mit ⟨4, some [0, 1, 1/2, 0], some [7, 7, 9, 9], none⟩) = false ∧
    accepts (.thr true "equalized_odds" "accuracy_score" ⟨4, some [0, 1, 1/2, 0], some [7, 7, 9, 9], none⟩) = false :=
  bad_label_rejected ⟨4, some [0, 1, 1/2, 0], some [7, 7, 9, 9], none⟩ [0, 1, 1/2, 0] rfl (1/2) (by simp)
    (by norm_num) (by norm_num) true _ _

/-- a missing sensitive feature (or missing labels) -/
theorem missing_sensitive_rejected (d : MitData) (h : d.sf = none ∨ d.y = none) (e : Bool) (c o : String) :
    accepts (.mit d) = false ∧ accepts (.thr e c o d) = false := by
  constructor <;> rw [Bool.eq_false_iff] <;> intro ha
  · obtain ⟨⟨y, hy, _⟩, ⟨sf, hsf, _⟩, _⟩ := accepts_imp_wellFormed _ ha
    rcases h with h | h <;> simp [h] at hsf hy
  · obtain ⟨_, _, _, ⟨⟨y, hy, _⟩, ⟨sf, hsf, _⟩, _⟩, _⟩ := accepts_imp_wellFormed _ ha
    rcases h with h | h <;> simp [h] at hsf hy

/-- non-vacuity of `missing_sensitive_rejected`: valid labels, no sensitive feature -/
example : accepts (.mit ⟨4, some [0, 1, 1, 0], none, none⟩) = false ∧
    accepts (.thr true "equalized_odds" "accuracy_score" ⟨4, some [0, 1, 1, 0], none, none⟩) = false :=
  missing_sensitive_rejected ⟨4, some [0, 1, 1, 0], none, none⟩ (Or.inl rfl) true _ _

/-- ThresholdOptimizer: a group lacking one of the two labels -/
theorem degenerate_group_rejected (d : MitData) (sf : List Nat) (y : List Rat) (hsf : d.sf = some sf)
    (hy : d.y = some y) (g : Nat) (hg : g ∈ sf) (v : Rat) (hv : v = 0 ∨ v = 1)
    (hmiss : ∀ p ∈ sf.zip y, p.1 = g → p.2 ≠ v) (e : Bool) (c o : String) :
    accepts (.thr e c o d) = false := by
  rw [Bool.eq_false_iff]; intro ha
  obtain ⟨_, _, _, _, hb⟩ := accepts_imp_wellFormed _ ha
  obtain ⟨⟨p1, hp1, hg1, hl1⟩, ⟨p0, hp0, hg0, hl0⟩⟩ := hb sf y hsf hy g hg
  rcases hv with rfl | rfl
  · exact hmiss p0 hp0 hg0 hl0
  · exact hmiss p1 hp1 hg1 hl1

/-- non-vacuity of `degenerate_group_rejected`: all five hypotheses at once — group 9 (two rows) has no label 0, group 7 has both -/
example : accepts (.thr true "equalized_odds" "accuracy_score" ⟨4, some [0, 1, 1, 1], some [7, 7, 9, 9], none⟩) = false :=
  degenerate_group_rejected ⟨4, some [0, 1, 1, 1], some [7, 7, 9, 9], none⟩ [7, 7, 9, 9] [0, 1, 1, 1] rfl rfl 9 (by decide)
    0 (Or.inl rfl) (by intro p hp hg; simp at hp; rcases hp with rfl | rfl | rfl | rfl <;> simp_all) true _ _

/-- ThresholdOptimizer: unsupported combination, control features, missing estimator -/
theorem unsupported_combination_rejected (e : Bool) (c o : String) (d : MitData) :
    (¬ Supported c o → accepts (.thr e c o d) = false)
    ∧ (d.cf ≠ none → accepts (.thr e c o d) = false)
    ∧ (e = false → accepts (.thr e c o d) = false) := by
  refine ⟨?_, ?_, ?_⟩ <;> intro hdef <;> rw [Bool.eq_false_iff] <;> intro ha <;>
    obtain ⟨he, hs, hcf, _, _⟩ := accepts_imp_wellFormed _ ha
  · exact hdef hs
  · exact hdef hcf
  · rw [he] at hdef; cases hdef

/-- non-vacuity of `unsupported_combination_rejected`: an unsupported pair; control features; on otherwise valid data -/
example : accepts (.thr true "equalized_odds" "selection_rate" okData) = false ∧
    accepts (.thr true "demographic_parity" "accuracy_score" ⟨4, some [0, 1, 1, 0], some [7, 7, 9, 9], some [1, 1, 2, 2]⟩) = false :=
  ⟨(unsupported_combination_rejected true _ _ okData).1 (by unfold Supported; decide),
   (unsupported_combination_rejected true _ _ ⟨4, some [0, 1, 1, 0], some [7, 7, 9, 9], some [1, 1, 2, 2]⟩).2.1 (by simp)⟩

/-- parity moments: both bounds given, a ratio bound outside (0,1], a negative difference bound, a negative ratio slack -/
theorem bad_bounds_rejected (ratio diff slack : Rat) :
    accepts (.parity true true ratio diff slack) = false
    ∧ (∀ dGiven, ¬(0 < ratio ∧ ratio ≤ 1) → accepts (.parity dGiven true ratio diff slack) = false)
    ∧ (diff < 0 → accepts (.parity true false ratio diff slack) = false)
    ∧ (slack < 0 → accepts (.parity false true ratio diff slack) = false) := by
  refine ⟨?_, ?_, ?_, ?_⟩
  · rw [Bool.eq_false_iff]; intro ha
    exact (accepts_imp_wellFormed _ ha).1 ⟨rfl, rfl⟩
  · intro dGiven hr
    rw [Bool.eq_false_iff]; intro ha
    exact hr ((accepts_imp_wellFormed _ ha).2.1 rfl)
  · intro hd
    rw [Bool.eq_false_iff]; intro ha
    have := (accepts_imp_wellFormed _ ha).2.2.1 rfl rfl
    linarith
  · intro hs
    rw [Bool.eq_false_iff]; intro ha
    have := (accepts_imp_wellFormed _ ha).2.2.2 rfl rfl
    linarith

/-- ErrorRate: costs that are not a dict with exactly the keys fp/fn, negative, or both zero -/
theorem bad_costs_rejected (isDict keysOk : Bool) (fp fn : Rat)
    (h : isDict = false ∨ keysOk = false ∨ fp < 0 ∨ fn < 0 ∨ fp + fn ≤ 0) :
    accepts (.costs true isDict keysOk fp fn) = false := by
  rw [Bool.eq_false_iff]; intro ha
  obtain ⟨h1, h2, h3, h4, h5⟩ := accepts_imp_wellFormed _ ha rfl
  rcases h with h | h | h | h | h
  · rw [h1] at h; cases h
  · rw [h2] at h; cases h
  · linarith
  · linarith
  · linarith

/-- GridSearch: constraint_weight outside [0,1] raises RuntimeError -/
theorem constraint_weight_rejected (isMoment ruleOk : Bool) (cw : Rat) (h : cw < 0 ∨ 1 < cw) :
    run (.gs isMoment ruleOk cw) = .runtimeError := by
  have hn : ¬ (isMoment = true ∧ ruleOk = true ∧ 0 ≤ cw ∧ cw ≤ 1) := by
    rintro ⟨_, _, h0, h1⟩; rcases h with h | h <;> linarith
  have := (gridSearch_ok_iff isMoment ruleOk cw).not.mpr hn
  simp only [run, gridSearch] at this ⊢
  split at this
  · exact absurd rfl this
  · next h' => simp [h']

/-- non-vacuity of `bad_bounds_rejected` (ratio 5/4 and 0), `bad_costs_rejected` (fp = -1/8), `constraint_weight_rejected` (5/4, -1/4) -/
example : accepts (.parity false true (5/4) 0 0) = false ∧ accepts (.parity false true 0 0 0) = false ∧
    accepts (.costs true true true (-1/8) 1) = false ∧ accepts (.costs true true true 0 0) = false ∧
    run (.gs true true (5/4)) = .runtimeError ∧ run (.gs true true (-1/4)) = .runtimeError :=
  ⟨(bad_bounds_rejected (5/4) 0 0).2.1 false (by norm_num), (bad_bounds_rejected 0 0 0).2.1 false (by norm_num),
   bad_costs_rejected true true (-1/8) 1 (by norm_num), bad_costs_rejected true true 0 0 (by norm_num),
   constraint_weight_rejected true true (5/4) (by norm_num), constraint_weight_rejected true true (-1/4) (by norm_num)⟩

/-! ### `MetricFrame.__init__`'s argument checks as lifted (Generated/FrameChecksSrc.lean) -/

/-- which checks the constructor makes, in execution order, what each compares and which exception it raises; and that every
    container branch of `_process_features` length-checks each column it appends, the DataFrame and dict branches also the
    column names.  (The texts of the statements are in `Generated.FrameChecksSrc.checks`.) -/
theorem frame_checks_census :
    Generated.FrameChecksSrc.checks.map (fun c => (c.pred, c.exc)) =
      [(.predLen, .valueError), (.paramLen, .valueError), (.sfMissing, .valueError), (.sfLen, .valueError),
       (.sfName, .valueError), (.cfLen, .valueError), (.cfName, .valueError), (.dupName, .valueError)]
    ∧ Generated.FrameChecksSrc.processBranches =
      [("Series", true, false), ("DataFrame", true, true), ("list", true, false), ("dict", true, true), ("else", true, false)] := by
  decide +kernel

/-- what the driver op `val.frame` answers is what the lifted list answers (op `fchk.frame`) -/
theorem frame_accepts_eq_frameSrc (a : FrameArgs) : accepts (.frame a) = (FrameChecks.frameSrc a == .ok) := by
  simp only [accepts, run, FrameChecks.frameSrc_eq_frame]

/-- the lifted list accepts exactly the well-formed constructor calls -/
theorem frameSrc_ok_iff (a : FrameArgs) : FrameChecks.frameSrc a = .ok ↔ FrameWF a := by
  rw [FrameChecks.frameSrc_eq_frame]; exact frame_ok_iff a

/-- ... and it accepts iff none of the lifted checks fires -/
theorem frameSrc_ok_iff_no_check_fires (a : FrameArgs) :
    FrameChecks.frameSrc a = .ok ↔ ∀ c ∈ Generated.FrameChecksSrc.checks, FrameChecks.fires a c.pred = false :=
  FrameChecks.runOn_ok_iff _ a

/-- the lifted list only ever raises ValueError -/
theorem frameSrc_rejects_with_valueError (a : FrameArgs) :
    FrameChecks.frameSrc a = .ok ∨ FrameChecks.frameSrc a = .valueError :=
  FrameChecks.runOn_kind _ FrameChecks.checks_all_valueError a

/-- a check that IS in the lifted list and fires on the descriptor makes `MetricFrame(..)` raise -/
theorem frame_rejected_of_lifted_check (a : FrameArgs) (p : Generated.FrameChecksSrc.Pred)
    (hp : p ∈ Generated.FrameChecksSrc.checks.map (·.pred)) (hf : FrameChecks.fires a p = true) :
    accepts (.frame a) = false := by
  obtain ⟨c, hc, rfl⟩ := List.mem_map.1 hp
  have := FrameChecks.runOn_rejects _ a c hc hf
  rw [frame_accepts_eq_frameSrc]
  simpa [FrameChecks.frameSrc] using this

/-- non-vacuity: the lifted list on a duplicate across sensitive and control features, on a control column one long, and on a
    well-formed call -/
example : FrameChecks.frameSrc ⟨3, 3, [3], [⟨some "a", 3⟩], [⟨some "a", 3⟩]⟩ = .valueError ∧
    FrameChecks.frameSrc ⟨3, 3, [3], [⟨some "a", 3⟩], [⟨some "b", 4⟩]⟩ = .valueError ∧
    FrameChecks.frameSrc ⟨3, 3, [3], [⟨some "a", 3⟩], [⟨some "b", 3⟩]⟩ = .ok := by decide +kernel

/-- MetricFrame: length mismatch of y_pred, a sample parameter, a sensitive or a control feature column
    (through the lifted checks predLen / paramLen / sfLen / cfLen: each must be present in the source) -/
theorem frame_length_mismatch_rejected (a : FrameArgs) :
    (a.nPred ≠ a.nTrue → accepts (.frame a) = false)
    ∧ (∀ p ∈ a.params, p ≠ a.nTrue → accepts (.frame a) = false)
    ∧ (∀ c ∈ a.sf ++ a.cf, c.len ≠ a.nTrue → accepts (.frame a) = false) := by
  refine ⟨?_, ?_, ?_⟩
  · intro h
    exact frame_rejected_of_lifted_check a .predLen (by decide) (by simp [FrameChecks.fires, h])
  · intro p hp h
    exact frame_rejected_of_lifted_check a .paramLen (by decide) (by simp only [FrameChecks.fires, List.any_eq_true]; exact ⟨p, hp, by simp [h]⟩)
  · intro c hc h
    rcases List.mem_append.1 hc with hc | hc
    · exact frame_rejected_of_lifted_check a .sfLen (by decide) (by simp only [FrameChecks.fires, List.any_eq_true]; exact ⟨c, hc, by simp [h]⟩)
    · exact frame_rejected_of_lifted_check a .cfLen (by decide) (by simp only [FrameChecks.fires, List.any_eq_true]; exact ⟨c, hc, by simp [h]⟩)

/-- MetricFrame: duplicate or non-string feature names, or no sensitive feature
    (through the lifted checks dupName / sfName / cfName / sfMissing) -/
theorem frame_bad_names_rejected (a : FrameArgs) :
    (¬ ((a.sf ++ a.cf).filterMap (·.name)).Nodup → accepts (.frame a) = false)
    ∧ (∀ c ∈ a.sf ++ a.cf, c.name = none → accepts (.frame a) = false)
    ∧ (a.sf = [] → accepts (.frame a) = false) := by
  refine ⟨?_, ?_, ?_⟩
  · intro h
    refine frame_rejected_of_lifted_check a .dupName (by decide) ?_
    simp only [FrameChecks.fires]
    cases hd : hasDup ((a.sf ++ a.cf).filterMap (·.name))
    · exact absurd ((hasDup_eq_false_iff _).1 hd) h
    · rfl
  · intro c hc h
    rcases List.mem_append.1 hc with hc | hc
    · exact frame_rejected_of_lifted_check a .sfName (by decide) (by simp only [FrameChecks.fires, List.any_eq_true]; exact ⟨c, hc, by simp [h]⟩)
    · exact frame_rejected_of_lifted_check a .cfName (by decide) (by simp only [FrameChecks.fires, List.any_eq_true]; exact ⟨c, hc, by simp [h]⟩)
  · intro h
    exact frame_rejected_of_lifted_check a .sfMissing (by decide) (by simp [FrameChecks.fires, h])

/-- non-vacuity of `frame_length_mismatch_rejected` / `frame_bad_names_rejected`: a sample parameter one short; a control column one
    long; a non-string control name; a duplicate across sensitive and control features -/
example : accepts (.frame ⟨3, 3, [3, 2], [⟨some "a", 3⟩], []⟩) = false ∧
    accepts (.frame ⟨3, 3, [3], [⟨some "a", 3⟩], [⟨some "b", 4⟩]⟩) = false ∧
    accepts (.frame ⟨3, 3, [], [⟨some "a", 3⟩], [⟨none, 3⟩]⟩) = false ∧
    accepts (.frame ⟨3, 3, [], [⟨some "a", 3⟩, ⟨some "b", 3⟩], [⟨some "a", 3⟩]⟩) = false :=
  ⟨(frame_length_mismatch_rejected ⟨3, 3, [3, 2], [⟨some "a", 3⟩], []⟩).2.1 2 (by simp) (by decide),
   (frame_length_mismatch_rejected ⟨3, 3, [3], [⟨some "a", 3⟩], [⟨some "b", 4⟩]⟩).2.2 ⟨some "b", 4⟩ (by simp) (by decide),
   (frame_bad_names_rejected ⟨3, 3, [], [⟨some "a", 3⟩], [⟨none, 3⟩]⟩).2.1 ⟨none, 3⟩ (by simp) rfl,
   (frame_bad_names_rejected ⟨3, 3, [], [⟨some "a", 3⟩, ⟨some "b", 3⟩], [⟨some "a", 3⟩]⟩).1 (by decide)⟩

/-- prediction (or transform) before fit raises NotFittedError, whatever else is passed -/
theorem predict_before_fit_rejected (a b : Nat) :
    run (.predict false) = .notFitted ∧ run (.corrTransform false a b) = .notFitted := by
  simp [run, predict, corrTransform]

/-- CorrelationRemover: a sensitive id that is not a column; transform on a different number of columns -/
theorem corr_rejected (cols ids : List Nat) (c : Nat) (hc : c ∈ ids) (hm : c ∉ cols) (a b : Nat) (hab : a ≠ b) :
    accepts (.corrFit cols ids) = false ∧ accepts (.corrTransform true a b) = false := by
  constructor <;> rw [Bool.eq_false_iff] <;> intro ha
  · exact hm (accepts_imp_wellFormed _ ha c hc)
  · exact hab (accepts_imp_wellFormed _ ha).2

/-- non-vacuity of `corr_rejected`: id 5 is not among the columns 0..2; transform on 4 columns after a fit on 3 -/
example : accepts (.corrFit [0, 1, 2] [1, 5]) = false ∧ accepts (.corrTransform true 3 4) = false :=
  corr_rejected [0, 1, 2] [1, 5] 5 (by simp) (by simp) 3 4 (by decide)

/-- EVERY prediction entry point of every estimator (predict, predict_proba, _pmf_predict, transform, _raw_predict of
    ThresholdOptimizer, InterpolatedThresholder, ExponentiatedGradient, GridSearch, CorrelationRemover, the adversarial
    estimators) raises NotFittedError before fit -/
theorem every_entry_point_guarded (cls method : String) (h : (cls, method) ∈ docEntryPoints) :
    run (.predictM cls method false) = .notFitted := by
  have hg := (isGuarded_iff cls method).mpr h
  simp [run, predictM, hg, predict]

/-- ThresholdOptimizer at prediction time: sensitive features that are missing or whose length differs from the
    number of rows of X are rejected (and an unfitted estimator raises NotFittedError before looking at them) -/
theorem predict_time_sensitive_rejected (fitted sfGiven : Bool) (nX nSf : Nat) :
    (nSf ≠ nX → accepts (.thrPredict fitted sfGiven nX nSf) = false)
    ∧ (sfGiven = false → accepts (.thrPredict fitted sfGiven nX nSf) = false)
    ∧ run (.thrPredict false sfGiven nX nSf) = .notFitted := by
  refine ⟨?_, ?_, by simp [run, toPredict]⟩ <;> intro hdef <;> rw [Bool.eq_false_iff] <;> intro ha <;>
    obtain ⟨_, _, hs, hn⟩ := accepts_imp_wellFormed _ ha
  · exact hdef hn
  · rw [hs] at hdef; cases hdef

/-- non-vacuity of `every_entry_point_guarded` / `predict_time_sensitive_rejected` -/
example : run (.predictM "CorrelationRemover" "transform" false) = .notFitted ∧
    accepts (.thrPredict true true 5 3) = false ∧ accepts (.thrPredict true false 5 5) = false :=
  ⟨every_entry_point_guarded _ _ (by decide), (predict_time_sensitive_rejected true true 5 3).1 (by decide),
   (predict_time_sensitive_rejected true false 5 5).2.1 rfl⟩

/-- the fit-time and the prediction-time checks are the same function of the source (`_validate_and_reformat_input`),
    instantiated with the lifted keyword values -/
theorem predict_time_uses_validate (nX nSf : Nat) :
    toPredict true true nX nSf = validateWith true true false ⟨nX, some (List.replicate nX 0), some (List.replicate nSf 0), none⟩
    ∧ toPredictDelegates = true :=
  ⟨by unfold toPredict; rw [validateSrc_eq_validateWith]; rfl, rfl⟩

/-- MetricFrame: `sample_params` that is not a dict, names a metric that is not in the metric dict, or holds a
    non-dict for one of the metrics -/
theorem frame_sample_params_rejected (spIsDict metricIsDict keysSubset innerDict : Bool) :
    accepts (.frameFns true false metricIsDict keysSubset innerDict) = false
    ∧ accepts (.frameFns true spIsDict true false innerDict) = false
    ∧ accepts (.frameFns true spIsDict true keysSubset false) = false := by
  refine ⟨?_, ?_, ?_⟩ <;> rw [Bool.eq_false_iff] <;> intro ha <;>
    obtain ⟨h1, h2⟩ := accepts_imp_wellFormed _ ha
  · cases h1 rfl
  · cases (h2 rfl).1
  · cases (h2 rfl).2

/-! ## review R2 — clauses that had no corollary of their own -/

/-- length mismatch of the labels or of the sensitive feature (against the rows of X) for `ThresholdOptimizer.fit` -/
theorem thr_length_mismatch_rejected (e : Bool) (c o : String) (d : MitData) :
    (∀ y, d.y = some y → y.length ≠ d.n → accepts (.thr e c o d) = false)
    ∧ (∀ sf, d.sf = some sf → sf.length ≠ d.n → accepts (.thr e c o d) = false) := by
  refine ⟨?_, ?_⟩ <;> intro v hv hlen <;> rw [Bool.eq_false_iff] <;> intro h <;>
    obtain ⟨_, _, _, ⟨⟨y, hy, _, hyl, _⟩, ⟨sf, hsf, hsl⟩, _⟩, _⟩ := accepts_imp_wellFormed _ h
  · rw [hv] at hy; cases hy; exact hlen hyl
  · rw [hv] at hsf; cases hsf; exact hlen hsl

example : accepts (.thr true "demographic_parity" "accuracy_score" ⟨4, some [0, 1, 1, 0, 1], some [7, 7, 9, 9], none⟩) = false :=
  (thr_length_mismatch_rejected true _ _ ⟨4, some [0, 1, 1, 0, 1], some [7, 7, 9, 9], none⟩).1 _ rfl (by decide)

/-- an empty label vector ("Must supply nonempty y") -/
theorem empty_labels_rejected (d : MitData) (h : d.y = some []) (e : Bool) (c o : String) :
    accepts (.mit d) = false ∧ accepts (.thr e c o d) = false := by
  constructor <;> rw [Bool.eq_false_iff] <;> intro ha
  · obtain ⟨⟨y, hy, hne, _⟩, _, _⟩ := accepts_imp_wellFormed _ ha
    rw [h] at hy; cases hy; exact hne rfl
  · obtain ⟨_, _, _, ⟨⟨y, hy, hne, _⟩, _, _⟩, _⟩ := accepts_imp_wellFormed _ ha
    rw [h] at hy; cases hy; exact hne rfl

/-- "raise an exception": a call that is not accepted ends in one of the three exception kinds of the model, and which
    one is determined by the entry point — `GridSearch.__init__` RuntimeError, the prediction entry points NotFittedError
    when unfitted, everything else ValueError (TypeError never) -/
theorem rejection_kind (c : Call) (h : accepts c = false) :
    run c = .valueError ∨ run c = .runtimeError ∨ run c = .notFitted := by
  have hne : run c ≠ .ok := by
    intro hok; simp [accepts, hok] at h
  cases hr : run c with
  | ok => exact absurd hr hne
  | valueError => exact Or.inl rfl
  | runtimeError => exact Or.inr (Or.inl rfl)
  | notFitted => exact Or.inr (Or.inr rfl)
  | typeError =>
    exfalso
    have hv : ∀ ey es eb d, validateSrc ey es eb d ≠ .typeError := by
      intro ey es eb d h
      by_cases hok : validateSrc ey es eb d = .ok
      · rw [hok] at h; cases h
      · rw [validateSrc_rejects_with_valueError ey es eb d hok] at h; cases h
    cases c with
    | mit d => exact hv _ _ _ _ hr
    | thr e c o d =>
      simp only [run, toFit] at hr
      have hv' := hv true true toEnforcesBinary { d with cf := none }
      generalize validateSrc true true toEnforcesBinary { d with cf := none } = r at hr hv'
      cases r <;> (repeat' split at hr) <;> contradiction
    | thrPredict f s a b =>
      simp only [run, toPredict] at hr
      split at hr
      · cases hr
      · exact hv _ _ _ _ hr
    | _ =>
      simp only [run, frame, parity, parityWith, costs, gridSearch, predict, corrFit,
        corrTransform, predictM, frameFns] at hr <;> (repeat' split at hr) <;> simp_all

/-- the key set `ErrorRate.__init__` demands of `costs` (lifted) is the documented one; the harness computes the
    descriptor bit `keysOk` against this set.  (`costKeys` is used by no model function; this is its only consumer.) -/
theorem cost_keys_documented : costKeys = ["fn", "fp"] := by decide +kernel

/-- every ill-formed `GridSearch(...)` construction (not a Moment, unknown selection rule, weight outside [0,1]) raises
    RuntimeError — generalises `constraint_weight_rejected` -/
theorem gs_rejects_with_runtimeError (isMoment ruleOk : Bool) (cw : Rat)
    (h : ¬ (isMoment = true ∧ ruleOk = true ∧ 0 ≤ cw ∧ cw ≤ 1)) : run (.gs isMoment ruleOk cw) = .runtimeError := by
  have := (gridSearch_ok_iff isMoment ruleOk cw).not.mpr h
  simp only [run, gridSearch] at this ⊢
  split at this
  · exact absurd rfl this
  · next h' => simp [h']

/-- the fit-time check of the classification moments / ExponentiatedGradient / GridSearch IS the generalised source
    function with the defaults `expect_y = expect_sensitive_features = True` and `enforce_binary_labels = True` -/
theorem mitFit_uses_validateWith (d : MitData) : mitFit d = validateWith true true true d :=
  validateSrc_eq_validateWith true true true d

example : run (.gs false true (1/2)) = .runtimeError := gs_rejects_with_runtimeError false true (1/2) (by simp)

/-- KNOWN MODEL GAP (review R2, totalisation audit; on the safe side for the property): the descriptor model accepts a
    MetricFrame call with ZERO rows and consistent lengths — `FrameWF` does not demand `0 < nTrue` — while real fairlearn
    raises there: `MetricFrame(metrics=selection_rate, y_true=[], y_pred=[], sensitive_features=[])` -> IndexError
    (replayed on /repo 897f58c).  The harness generates 4..14 rows, so the correspondence never visits this point; the
    mitigator entry points do not have the gap (`empty_labels_rejected`; `DemographicParity().load_data` on 0 rows raises
    ValueError, `ThresholdOptimizer.predict` on 0 rows raises ValueError = `toPredict_ok_iff`'s `0 < nX`). -/
example : accepts (.frame ⟨0, 0, [], [⟨some "a", 0⟩], []⟩) = true := by decide +kernel

/-! ### Non-vacuity: concrete descriptors -/

example : accepts (.mit okData) = true := by decide +kernel
example : accepts (.thr true "equalized_odds" "accuracy_score" okData) = true := by decide +kernel
example : accepts (.thr true "equalized_odds" "selection_rate" okData) = false := by decide +kernel
example : accepts (.thr true "demographic_parity" "selection_rate" okData) = true := by decide +kernel
/-- off-by-one label vector, bad label in the middle, degenerate group 9 -/
example : accepts (.mit ⟨4, some [0, 1, 1], some [7, 7, 9, 9], none⟩) = false := by decide +kernel
example : accepts (.mit ⟨4, some [0, 2, 1, 0], some [7, 7, 9, 9], none⟩) = false := by decide +kernel
example : accepts (.thr true "equalized_odds" "accuracy_score" ⟨4, some [0, 1, 1, 1], some [7, 7, 9, 9], none⟩) = false := by
  decide +kernel
example : accepts (.mit ⟨4, some [0, 1, 1, 1], some [7, 7, 9, 9], none⟩) = true := by decide +kernel
example : accepts (.frame ⟨3, 3, [3], [⟨some "a", 3⟩], [⟨some "b", 3⟩]⟩) = true := by decide +kernel
example : accepts (.frame ⟨3, 3, [3], [⟨some "a", 3⟩], [⟨some "a", 3⟩]⟩) = false := by decide +kernel
example : accepts (.parity false true 1 0 0) = true ∧ accepts (.parity false true (3/2) 0 0) = false := by decide +kernel
example : accepts (.parity true false 1 (-1) 0) = false ∧ accepts (.parity false true (1/2) 0 (-1/10)) = false ∧
    accepts (.parity true false 1 0 (-1)) = true ∧ accepts (.parity false false 1 (-1) (-1)) = true := by decide +kernel
example : run (.gs true true (5/4)) = .runtimeError := by decide +kernel
example : run (.predictM "GridSearch" "predict_proba" false) = .notFitted ∧
    accepts (.predictM "GridSearch" "predict_proba" true) = true := by decide +kernel
example : accepts (.thrPredict true true 4 4) = true ∧ accepts (.thrPredict true true 4 3) = false ∧
    accepts (.thrPredict true false 4 0) = false := by decide +kernel
example : accepts (.frameFns true true true true true) = true ∧ accepts (.frameFns false false false true true) = true ∧
    accepts (.frameFns true true true false true) = false := by decide +kernel

end C20
