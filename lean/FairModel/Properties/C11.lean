/-
C11 — sample weights mean multiplicity: weight k is k copies of the row.
Property theorems only; helper lemmas live in `Lemmas/Weights.lean`, `Lemmas/FrameWeights.lean`,
`Lemmas/PoolWeights.lean` and `Lemmas/C11Review.lean`.

Every statement is for ALL row lists (no size bound), all group structures, all positive integer
multiplicities (`PosMult`: every k ≥ 1 — with k = 0 the replicated data loses the row's labels and
group, so the statement is genuinely about positive weights) and all scalings c > 0.

CLAUSE → THEOREM TABLE (review R3).  Three models carry the clauses: (B) the base-metric model
`Model/BaseMetrics.lean` = ops `w.metric`; (W) the one-feature frame of `Model/Weights.lean` (`byGroup`, `frame`, named
metrics) = ops `w.frame`, `w.named`; (F) the full MetricFrame model `Model/Frame.lean` with the metric pool (any number
of sensitive / control features, re-indexed empty combinations) = op `frame.eval`; "src_" = the translated
_base_metrics.py (`Generated/BaseMetricsSrc.lean`).

 1 "weight k ≡ the row repeated k times with unit weight"
     TPR/FNR/FPR/TNR     (B) weight_is_multiplicity_rate(_tpr/_fnr/_fpr/_tnr), src_weight_is_multiplicity_rate(_ones)
                         (W) weight_is_multiplicity_by_group/_frame   (F) metricframe_rates_weight_is_multiplicity     FULL
     selection_rate      (B) weight_is_multiplicity_selection_rate, src_…   (F) metricframe_two_params_…               FULL
     mean_prediction     (B) weight_is_multiplicity_mean_prediction, src_…  (F) metricframe_two_params_…               FULL
     MetricFrame sample_params (any payload, several parameters on one metric)  (F) metricframe_weight_is_multiplicity,
                         metricframe_two_params_weight_is_multiplicity                                                FULL
     named fairness metrics (W) weight_is_multiplicity_demographic_parity/_equal_opportunity/_equalized_odds,
                         weight_is_multiplicity_difference_ratio                                                       FULL (one
                         sensitive feature; the named metrics accept several columns, which fairlearn merges into one —
                         that merge is C13's subject and is covered here by correspondence only)
 2 "multiplying all weights by a positive constant changes nothing"
     (B) scale_invariant_rate/_selection_rate/_mean_prediction, src_scale_invariant_*  (W) scale_invariant(_by_group/
     _frame/_named)  (F) metricframe_scale_invariant (generic), metricframe_pool_scale_invariant (rates + weighted means,
     IEEE quotient)                                                                                                    FULL
 3 "omitting the weights is the same as passing all ones"
     (B) none_eq_ones (the model's `attach`), ones_is_identity_replication; src_none_eq_ones (rates),
     src_none_eq_ones_selection_rate, src_none_eq_ones_mean_prediction (translated source: `np.ones(len(...))`)          FULL
     (F) by the protocol convention p0 = 1 for an omitted / None-valued sample parameter
     (`_construct_annotated_metric_function` skips None values) — correspondence only (variants omitted / None / ones)
 4 "per group inside MetricFrame, including groups that consist of a single weighted row"
     (W) replicate_commutes_with_grouping, weight_is_multiplicity_by_group, single_weighted_row_group,
     single_weighted_row_selection_rate   (F) metricframe_weight_is_multiplicity (cells AND index)                      FULL

TIE (review): `named_bases_are_lifted`, `eodds_worst_is_lifted`, `subOne_is_lifted` identify the hand-written named-metric
bases / worst-case builtins / `ratio_sub_one` of `Model/Weights.lean` with the text lifted by `fairness_named.py` /
`aggregate.py`.  The min / max choice of `difference` and `ratio` in `Weights.aggregate` is read from `AggregateSpec.diffAgg` etc.
(`src_aggregate_composition` is the closed form on the pinned source); `minL`/`maxL`/`rabs` themselves are hand-written.

TOTALISATION.  Every clause is an equation between the SAME function on two inputs, so a default could only make both
sides equal "by accident" where fairlearn gives two different non-numbers.  Checked: with PosMult and a non-empty input
the total weight is positive on both sides (`total_weight_positive`, `total_weight_positive_P`); the empty input raises on
both sides (`eval` returns `.error .empty` / `.tooMany`, as fairlearn does; for mean_prediction numpy gives NaN, the model's
`meanPred` an error token).  `weight_is_multiplicity_mean_prediction` needs no `PosMult`: a row of weight 0 contributes
nothing to either sum, and if ALL k are 0 both sides are 0/0 (numpy: NaN on both sides; Lean: 0 on both sides —
`mean_prediction_all_zero_is_totalisation`).  Scale invariance at total weight 0 is likewise NaN = NaN in numpy and 0 = 0
here; in the (F) model the quotient is IEEE (`MetricPool.quot`), so there it is NaN = NaN literally.  `minL [] = maxL [] = 0`
in `Weights.aggregate` is unreachable: `frame` fails before on an empty input, and a non-empty input has a group.
-/
import FairModel.Lemmas.Weights
import FairModel.Lemmas.BaseMetricsSrc
import FairModel.Lemmas.PoolWeights
import FairModel.Lemmas.C11Review
import FairModel.Lemmas.C14Review
import FairModel.Generated.FairNamed
import FairModel.Generated.AggregateSpec

namespace C11
open BaseMetrics Weights

/-! ### 1. integer weight k ≡ k unit copies, base metrics (public functions, label handling included) -/

theorem weight_is_multiplicity_rate (k : Kind) (rows : List (Row × Nat)) (hk : PosMult rows)
    (pos : Option Int) :
    rate k (weighted rows) pos = rate k (replicate rows) pos :=
  (rate_replicate k rows hk pos).symm

theorem weight_is_multiplicity_tpr (rows : List (Row × Nat)) (hk : PosMult rows) (pos : Option Int) :
    rate .tpr (weighted rows) pos = rate .tpr (replicate rows) pos :=
  weight_is_multiplicity_rate .tpr rows hk pos

theorem weight_is_multiplicity_fnr (rows : List (Row × Nat)) (hk : PosMult rows) (pos : Option Int) :
    rate .fnr (weighted rows) pos = rate .fnr (replicate rows) pos :=
  weight_is_multiplicity_rate .fnr rows hk pos

theorem weight_is_multiplicity_fpr (rows : List (Row × Nat)) (hk : PosMult rows) (pos : Option Int) :
    rate .fpr (weighted rows) pos = rate .fpr (replicate rows) pos :=
  weight_is_multiplicity_rate .fpr rows hk pos

theorem weight_is_multiplicity_tnr (rows : List (Row × Nat)) (hk : PosMult rows) (pos : Option Int) :
    rate .tnr (weighted rows) pos = rate .tnr (replicate rows) pos :=
  weight_is_multiplicity_rate .tnr rows hk pos

theorem weight_is_multiplicity_selection_rate (rows : List (Row × Nat)) (hk : PosMult rows) (pos : Int) :
    selectionRate (weighted rows) pos = selectionRate (replicate rows) pos :=
  (selectionRate_replicate rows hk pos).symm

theorem weight_is_multiplicity_mean_prediction (rows : List (PRow × Nat)) :
    meanPrediction (weightedP rows) = meanPrediction (replicateP rows) :=
  (meanPrediction_replicateP rows).symm

/-- the same for all six metrics at once, on rows that also carry a group key -/
theorem weight_is_multiplicity (m : Metric) (rows : List (WRow × Nat)) (hk : PosMult rows) :
    eval m (wWeighted rows) = eval m (wReplicate rows) :=
  eval_weighted_eq_replicate m rows hk

/-- the divisions are genuine: with at least one row and positive multiplicities the total weight
    is positive (no statement here is true because of Lean's `x / 0 = 0`). -/
theorem total_weight_positive (rows : List (Row × Nat)) (hk : PosMult rows) (hne : rows ≠ []) :
    0 < totalW (weighted rows) ∧ 0 < totalW (replicate rows) := by
  have h := totalW_weighted_pos rows hk hne
  exact ⟨h, by rw [totalW_replicate]; exact h⟩

/-! ### 2. multiplying all weights by a positive constant changes nothing -/

theorem scale_invariant_rate (k : Kind) (c : Rat) (hc : 0 < c) (rows : List Row) (pos : Option Int) :
    rate k (scale c rows) pos = rate k rows pos :=
  rate_scale k c (ne_of_gt hc) rows pos

theorem scale_invariant_selection_rate (c : Rat) (hc : 0 < c) (rows : List Row) (pos : Int) :
    selectionRate (scale c rows) pos = selectionRate rows pos :=
  selectionRate_scale c (ne_of_gt hc) rows pos

theorem scale_invariant_mean_prediction (c : Rat) (hc : 0 < c) (rows : List PRow) :
    meanPrediction (scaleP c rows) = meanPrediction rows :=
  meanPrediction_scaleP c (ne_of_gt hc) rows

theorem scale_invariant (m : Metric) (c : Rat) (hc : 0 < c) (rows : List WRow) :
    eval m (wScale c rows) = eval m rows :=
  eval_scale m c (ne_of_gt hc) rows

/-! ### 3. omitting the weights is the same as passing all ones -/

theorem none_eq_ones (g yt yp : List Int) (pred : List Rat) :
    attach g yt yp pred none = attach g yt yp pred (some (List.replicate yt.length 1)) := rfl

/-- ... and all-ones weights are the multiplicity-1 case of the replication statement -/
theorem ones_is_identity_replication (rows : List WRow) :
    wReplicate (rows.map (fun x => (x, 1))) = rows.map (fun x => { x with w := 1 }) := by
  induction rows with
  | nil => rfl
  | cons x xs ih =>
    rw [List.map_cons, wReplicate_cons, ih]
    rfl

/-! ### 4. per group inside MetricFrame -/

/-- physical replication commutes with selecting the rows of a group -/
theorem replicate_commutes_with_grouping (key : Int) (rows : List (WRow × Nat)) :
    groupRows key (wReplicate rows) = wReplicate (groupPairs key rows) ∧
    groupRows key (wWeighted rows) = wWeighted (groupPairs key rows) :=
  ⟨groupRows_wReplicate key rows, groupRows_wWeighted key rows⟩

/-- the weights travel with their rows into each group, so the groups (keys) and every per-group
    value agree between weighted and replicated data -/
theorem weight_is_multiplicity_by_group (m : Metric) (rows : List (WRow × Nat)) (hk : PosMult rows) :
    byGroup m (wWeighted rows) = byGroup m (wReplicate rows) :=
  byGroup_weighted_eq_replicate m rows hk

/-- a group consisting of one weighted row: its value is that of k unit copies of the row -/
theorem single_weighted_row_group (m : Metric) (rows : List (WRow × Nat)) (hk : PosMult rows)
    (key : Int) (x : WRow) (k : Nat) (h : groupPairs key rows = [(x, k)]) :
    eval m (groupRows key (wWeighted rows)) = eval m (List.replicate k { x with w := 1 }) := by
  rw [groupRows_wWeighted, eval_weighted_eq_replicate m _ (posMult_groupPairs key rows hk), h]
  simp [wReplicate]

/-- ... and for `selection_rate` that value is the scalar 1 or 0 (defect F1 returned a 1-element
    array here, which MetricFrame turned into NaN) -/
theorem single_weighted_row_selection_rate (x : WRow) (k : Nat) (hk : 1 ≤ k) (pos : Int) :
    eval (.sel pos) (wWeighted [(x, k)]) = .ok (if x.yp = pos then 1 else 0) := by
  have hk' : (k : Rat) ≠ 0 := by
    have : (1 : Rat) ≤ (k : Rat) := by exact_mod_cast hk
    intro h; rw [h] at this; norm_num at this
  by_cases h : x.yp = pos <;>
    simp [eval, wWeighted, selectionRate, WRow.toRow, wsum, totalW, h, hk']

theorem scale_invariant_by_group (m : Metric) (c : Rat) (hc : 0 < c) (rows : List WRow) :
    byGroup m (wScale c rows) = byGroup m rows :=
  byGroup_scale m c (ne_of_gt hc) rows

/-! ### 5. aggregates: overall, group_min/max, difference and ratio (both methods) -/

theorem weight_is_multiplicity_frame (m : Metric) (rows : List (WRow × Nat)) (hk : PosMult rows) :
    frame m (wWeighted rows) = frame m (wReplicate rows) :=
  frame_weighted_eq_replicate m rows hk

theorem scale_invariant_frame (m : Metric) (c : Rat) (hc : 0 < c) (rows : List WRow) :
    frame m (wScale c rows) = frame m rows :=
  frame_scale m c (ne_of_gt hc) rows

/-- spelled out for the two aggregates the property names: `difference` (max − min resp. max
    |v − overall|) and `ratio` (min / max resp. min of the ratios to overall), any method -/
theorem weight_is_multiplicity_difference_ratio (m : Metric) (rows : List (WRow × Nat))
    (hk : PosMult rows) (me : Method) :
    (frame m (wWeighted rows)).map (·.diff me) = (frame m (wReplicate rows)).map (·.diff me) ∧
    (frame m (wWeighted rows)).map (·.ratio me) = (frame m (wReplicate rows)).map (·.ratio me) := by
  rw [frame_weighted_eq_replicate m rows hk]; exact ⟨rfl, rfl⟩

/-! ### 6. the named fairness metrics -/

theorem weight_is_multiplicity_demographic_parity (rows : List (WRow × Nat)) (hk : PosMult rows)
    (me : Method) :
    dpDifference me (wWeighted rows) = dpDifference me (wReplicate rows) ∧
    dpRatio me (wWeighted rows) = dpRatio me (wReplicate rows) := by
  unfold dpDifference dpRatio
  rw [frame_weighted_eq_replicate _ rows hk]; exact ⟨rfl, rfl⟩

theorem weight_is_multiplicity_equal_opportunity (rows : List (WRow × Nat)) (hk : PosMult rows)
    (me : Method) :
    eoppDifference me (wWeighted rows) = eoppDifference me (wReplicate rows) ∧
    eoppRatio me (wWeighted rows) = eoppRatio me (wReplicate rows) := by
  unfold eoppDifference eoppRatio
  rw [frame_weighted_eq_replicate _ rows hk]; exact ⟨rfl, rfl⟩

theorem weight_is_multiplicity_equalized_odds (rows : List (WRow × Nat)) (hk : PosMult rows)
    (me : Method) (ag : Agg) :
    eoDifference me ag (wWeighted rows) = eoDifference me ag (wReplicate rows) ∧
    eoRatio me ag (wWeighted rows) = eoRatio me ag (wReplicate rows) := by
  unfold eoDifference eoRatio
  rw [frame_weighted_eq_replicate tprMetric rows hk, frame_weighted_eq_replicate fprMetric rows hk]
  exact ⟨rfl, rfl⟩

theorem scale_invariant_named (c : Rat) (hc : 0 < c) (rows : List WRow) (me : Method) (ag : Agg) :
    dpDifference me (wScale c rows) = dpDifference me rows ∧
    dpRatio me (wScale c rows) = dpRatio me rows ∧
    eoppDifference me (wScale c rows) = eoppDifference me rows ∧
    eoppRatio me (wScale c rows) = eoppRatio me rows ∧
    eoDifference me ag (wScale c rows) = eoDifference me ag rows ∧
    eoRatio me ag (wScale c rows) = eoRatio me ag rows := by
  have hc' := ne_of_gt hc
  unfold dpDifference dpRatio eoppDifference eoppRatio eoDifference eoRatio
  rw [frame_scale selMetric c hc', frame_scale tprMetric c hc', frame_scale fprMetric c hc']
  exact ⟨rfl, rfl, rfl, rfl, rfl, rfl⟩

/-! ### 7. Tie to the source text: the same statements for the TRANSLATED functions

`Generated/BaseMetricsSrc.lean` (lifter `harness/lifters/base_metrics.py`) is the statement-by-statement
translation of `_base_metrics.py`, including the weight handling: `sample_weight=sample_weight` passed to
`confusion_matrix`, `s_w = np.ones(len(...))`, `if sample_weight is not None: s_w = ...`,
`np.dot(..., s_w) / s_w.sum()`.  Through `C14.src_*_eq_model` the metamorphic relations hold for the
translated functions exactly as fairlearn is called: weights `k` passed as `sample_weight` versus the
rows physically replicated and `sample_weight=None`. -/

section Source
open BaseMetricsGen

theorem unitW_replicate (rows : List (Row × Nat)) : unitW (replicate rows) = replicate rows := by
  unfold unitW replicate
  rw [List.map_flatMap]
  apply List.flatMap_congr
  intro p _
  simp [List.map_replicate]

theorem unitP_replicateP (rows : List (PRow × Nat)) : unitP (replicateP rows) = replicateP rows := by
  unfold unitP replicateP
  rw [List.map_flatMap]
  apply List.flatMap_congr
  intro p _
  simp [List.map_replicate]

/-- translated rates: `sample_weight=k` on the rows ≡ the replicated rows with `sample_weight=None` -/
theorem src_weight_is_multiplicity_rate (k : Kind) (rows : List (Row × Nat)) (hk : PosMult rows)
    (pos : Option Int) :
    BaseMetricsGen.rate k ((weighted rows).map (·.yt)) ((weighted rows).map (·.yp))
        (some ((weighted rows).map (·.w))) pos =
      BaseMetricsGen.rate k ((replicate rows).map (·.yt)) ((replicate rows).map (·.yp)) none pos := by
  rw [rate_eq_model, rate_none_eq_model, unitW_replicate]
  exact weight_is_multiplicity_rate k rows hk pos

/-- … and ≡ the replicated rows with explicit unit weights -/
theorem src_weight_is_multiplicity_rate_ones (k : Kind) (rows : List (Row × Nat)) (hk : PosMult rows)
    (pos : Option Int) :
    BaseMetricsGen.rate k ((weighted rows).map (·.yt)) ((weighted rows).map (·.yp))
        (some ((weighted rows).map (·.w))) pos =
      BaseMetricsGen.rate k ((replicate rows).map (·.yt)) ((replicate rows).map (·.yp))
        (some ((replicate rows).map (·.w))) pos := by
  rw [rate_eq_model, rate_eq_model]
  exact weight_is_multiplicity_rate k rows hk pos

theorem src_weight_is_multiplicity_selection_rate (rows : List (Row × Nat)) (hk : PosMult rows) (pos : Int) :
    BaseMetricsSrc.selection_rate ((weighted rows).map (·.yt)) ((weighted rows).map (·.yp)) pos
        (some ((weighted rows).map (·.w))) =
      BaseMetricsSrc.selection_rate ((replicate rows).map (·.yt)) ((replicate rows).map (·.yp)) pos none := by
  rw [selection_rate_eq_model, selection_rate_none_eq_model, unitW_replicate]
  exact weight_is_multiplicity_selection_rate rows hk pos

theorem src_weight_is_multiplicity_mean_prediction (yt yt' : List Rat) (rows : List (PRow × Nat)) :
    BaseMetricsSrc.mean_prediction yt ((weightedP rows).map (·.pred)) (some ((weightedP rows).map (·.w))) =
      BaseMetricsSrc.mean_prediction yt' ((replicateP rows).map (·.pred)) none := by
  rw [mean_prediction_eq_model, mean_prediction_none_eq_model, unitP_replicateP,
    weight_is_multiplicity_mean_prediction]

/-- translated functions: multiplying all weights by c > 0 changes nothing -/
theorem src_scale_invariant_rate (k : Kind) (c : Rat) (hc : 0 < c) (rows : List Row) (pos : Option Int) :
    BaseMetricsGen.rate k (rows.map (·.yt)) (rows.map (·.yp)) (some ((rows.map (·.w)).map (c * ·))) pos =
      BaseMetricsGen.rate k (rows.map (·.yt)) (rows.map (·.yp)) (some (rows.map (·.w))) pos := by
  have h := rate_eq_model k (scale c rows) pos
  have e1 : (scale c rows).map (·.yt) = rows.map (·.yt) := by simp [scale, Function.comp_def]
  have e2 : (scale c rows).map (·.yp) = rows.map (·.yp) := by simp [scale, Function.comp_def]
  have e3 : (scale c rows).map (·.w) = (rows.map (·.w)).map (c * ·) := by simp [scale, Function.comp_def]
  rw [e1, e2, e3] at h
  rw [h, rate_eq_model]
  exact scale_invariant_rate k c hc rows pos

theorem src_scale_invariant_selection_rate (c : Rat) (hc : 0 < c) (rows : List Row) (pos : Int) :
    BaseMetricsSrc.selection_rate (rows.map (·.yt)) (rows.map (·.yp)) pos (some ((rows.map (·.w)).map (c * ·))) =
      BaseMetricsSrc.selection_rate (rows.map (·.yt)) (rows.map (·.yp)) pos (some (rows.map (·.w))) := by
  have h := selection_rate_eq_model (scale c rows) pos
  have e1 : (scale c rows).map (·.yt) = rows.map (·.yt) := by simp [scale, Function.comp_def]
  have e2 : (scale c rows).map (·.yp) = rows.map (·.yp) := by simp [scale, Function.comp_def]
  have e3 : (scale c rows).map (·.w) = (rows.map (·.w)).map (c * ·) := by simp [scale, Function.comp_def]
  rw [e1, e2, e3] at h
  rw [h, selection_rate_eq_model]
  exact scale_invariant_selection_rate c hc rows pos

/-- translated functions: omitting the weights is passing all ones -/
theorem src_none_eq_ones (k : Kind) (yt yp : List Int) (pos : Option Int) :
    BaseMetricsGen.rate k yt yp none pos = BaseMetricsGen.rate k yt yp (some (NumpySk.ones yt.length)) pos :=
  rate_none_eq_ones k yt yp pos

end Source

/-! ### 8. MetricFrame with SEVERAL sample parameters on one metric (full frame model)

`Model/Frame.lean` with an arbitrary payload: replicating a row replicates ALL of its per-sample
parameters.  Any metric that treats the weight as a multiplicity on every slice (`Frame.WeightMult`)
gives the same `by_group` (same index incl. re-indexed empty combinations, same cells) and the same
`overall` (per control stratum) on weighted and on replicated data; any number of sensitive / control
features. -/

section Frame
open Frame

theorem metricframe_weight_is_multiplicity {α β : Type} (nanv : β) (wt : α → Nat → α) (ncf nsf : Nat)
    (f : List α → β) (hf : WeightMult wt f) (rows : List (Row α × Nat)) (hk : ∀ p ∈ rows, 1 ≤ p.2) :
    Frame.byGroup nanv ncf nsf f (weightedRows wt rows) = Frame.byGroup nanv ncf nsf f (replicatedRows wt rows) ∧
    Frame.overall nanv ncf f (weightedRows wt rows) = Frame.overall nanv ncf f (replicatedRows wt rows) :=
  ⟨applyFunctions_weight_mult nanv wt Row.key keyIgnoresDat_key _ f hf rows hk,
   applyFunctions_weight_mult nanv wt Row.ckey keyIgnoresDat_ckey _ f hf rows hk⟩

/-- instances: the weighted-mean pool metrics, and the TWO-parameter metric `a . ids`
    (`p0` = weight-like parameter, `p1` = a second per-sample parameter that is replicated with the row) -/
theorem metricframe_two_params_weight_is_multiplicity (m : MetricPool.Metric)
    (hm : m = .selrate ∨ m = .meanpred ∨ m = .accuracy ∨ m = .meanerr ∨ m = .zeroOne ∨ m = .mae ∨ m = .mse ∨
          m = .fpPar)
    (ncf nsf : Nat) (rows : List (Row MetricPool.Dat × Nat)) (hk : ∀ p ∈ rows, 1 ≤ p.2) :
    Frame.byGroup Cell.nan ncf nsf (MetricPool.eval m) (weightedRows MetricPool.wtDat rows) =
      Frame.byGroup Cell.nan ncf nsf (MetricPool.eval m) (replicatedRows MetricPool.wtDat rows) ∧
    Frame.overall Cell.nan ncf (MetricPool.eval m) (weightedRows MetricPool.wtDat rows) =
      Frame.overall Cell.nan ncf (MetricPool.eval m) (replicatedRows MetricPool.wtDat rows) :=
  metricframe_weight_is_multiplicity Cell.nan MetricPool.wtDat ncf nsf _ (MetricPool.eval_weight_mult m hm) rows hk

end Frame

/-! ### 9. Review additions (R3) -/

section Review
open Frame

/-- Clause 1/4 for the four RATES in the full MetricFrame model: any number of sensitive / control
    features, same index (incl. re-indexed empty combinations) and same cells, same `overall` per control
    stratum, on weighted and on replicated data. -/
theorem metricframe_rates_weight_is_multiplicity (m : MetricPool.Metric)
    (hm : m = .tpr ∨ m = .fpr ∨ m = .tnr ∨ m = .fnr)
    (ncf nsf : Nat) (rows : List (Row MetricPool.Dat × Nat)) (hk : ∀ p ∈ rows, 1 ≤ p.2) :
    Frame.byGroup Cell.nan ncf nsf (MetricPool.eval m) (weightedRows MetricPool.wtDat rows) =
      Frame.byGroup Cell.nan ncf nsf (MetricPool.eval m) (replicatedRows MetricPool.wtDat rows) ∧
    Frame.overall Cell.nan ncf (MetricPool.eval m) (weightedRows MetricPool.wtDat rows) =
      Frame.overall Cell.nan ncf (MetricPool.eval m) (replicatedRows MetricPool.wtDat rows) :=
  metricframe_weight_is_multiplicity Cell.nan MetricPool.wtDat ncf nsf _ (MetricPool.eval_weight_mult_rate m hm) rows hk

/-- Clause 2 in the full MetricFrame model, generic: a row-wise change `g` of the payload that the metric
    cannot see on any slice changes neither `by_group` (index and cells) nor `overall`. -/
theorem metricframe_scale_invariant {α β : Type} (nanv : β) (g : α → α) (ncf nsf : Nat) (f : List α → β)
    (hf : ∀ l, f (l.map g) = f l) (rows : List (Row α)) :
    Frame.byGroup nanv ncf nsf f (mapDat g rows) = Frame.byGroup nanv ncf nsf f rows ∧
    Frame.overall nanv ncf f (mapDat g rows) = Frame.overall nanv ncf f rows :=
  ⟨applyFunctions_mapDat nanv Row.key keyIgnoresDat_key _ f g hf rows,
   applyFunctions_mapDat nanv Row.ckey keyIgnoresDat_ckey _ f g hf rows⟩

/-- … instantiated: every weight multiplied by c > 0, for the pool's four rates and its weighted means -/
theorem metricframe_pool_scale_invariant (m : MetricPool.Metric)
    (hm : m = .tpr ∨ m = .fpr ∨ m = .tnr ∨ m = .fnr ∨ m = .selrate ∨ m = .meanpred ∨ m = .accuracy ∨
          m = .meanerr ∨ m = .zeroOne ∨ m = .mae ∨ m = .mse)
    (c : Rat) (hc : 0 < c) (ncf nsf : Nat) (rows : List (Row MetricPool.Dat)) :
    Frame.byGroup Cell.nan ncf nsf (MetricPool.eval m) (mapDat (MetricPool.scDat c) rows) =
      Frame.byGroup Cell.nan ncf nsf (MetricPool.eval m) rows ∧
    Frame.overall Cell.nan ncf (MetricPool.eval m) (mapDat (MetricPool.scDat c) rows) =
      Frame.overall Cell.nan ncf (MetricPool.eval m) rows :=
  metricframe_scale_invariant Cell.nan (MetricPool.scDat c) ncf nsf _ (MetricPool.eval_scale_inv m hm c hc) rows

/-- Clause 3 for the translated `selection_rate` / `mean_prediction`: `sample_weight=None` is
    `np.ones(len(y_pred))` -/
theorem src_none_eq_ones_selection_rate (yt yp : List Int) (pos : Int) :
    BaseMetricsSrc.selection_rate yt yp pos none =
      BaseMetricsSrc.selection_rate yt yp pos (some (NumpySk.ones yp.length)) := by
  simp [BaseMetricsSrc.selection_rate, NumpySk.eqInd]

theorem src_none_eq_ones_mean_prediction (yt yp : List Rat) :
    BaseMetricsSrc.mean_prediction yt yp none =
      BaseMetricsSrc.mean_prediction yt yp (some (NumpySk.ones yp.length)) := by
  simp [BaseMetricsSrc.mean_prediction]

/-- the quotients of `mean_prediction` are genuine on both sides (positive multiplicities, ≥ 1 row) -/
theorem total_weight_positive_P (rows : List (PRow × Nat)) (hk : PosMult rows) (hne : rows ≠ []) :
    0 < totalP (weightedP rows) ∧ 0 < totalP (replicateP rows) := by
  constructor
  · apply totalP_pos
    · cases rows with
      | nil => exact absurd rfl hne
      | cons x xs => simp [weightedP]
    · intro r hr
      simp only [weightedP, List.mem_map] at hr
      obtain ⟨p, hp, rfl⟩ := hr
      have : (1 : Rat) ≤ (p.2 : Rat) := by exact_mod_cast hk p hp
      show (0 : Rat) < (p.2 : Rat)
      linarith
  · apply totalP_pos
    · cases rows with
      | nil => exact absurd rfl hne
      | cons x xs =>
        have h1 : 1 ≤ x.2 := hk x (by simp)
        obtain ⟨n, hn⟩ : ∃ n, x.2 = n + 1 := ⟨x.2 - 1, by omega⟩
        obtain ⟨r, k⟩ := x
        simp only at hn
        simp [replicateP, hn, List.replicate_succ]
    · intro r hr
      simp only [replicateP, List.mem_flatMap, List.mem_replicate] at hr
      obtain ⟨p, _, _, rfl⟩ := hr
      show (0 : Rat) < 1
      norm_num

/-- TOTALISATION WITNESS: if every multiplicity is 0 both sides of `weight_is_multiplicity_mean_prediction`
    are Lean's `0 / 0 = 0`; numpy gives NaN on both sides (weighted: 0/0, replicated: mean of nothing).
    Outside the property's quantifier (positive weights); with `PosMult` see `total_weight_positive_P`. -/
theorem mean_prediction_all_zero_is_totalisation (rows : List (PRow × Nat)) (h0 : ∀ p ∈ rows, p.2 = 0) :
    meanPrediction (weightedP rows) = 0 ∧ meanPrediction (replicateP rows) = 0 := by
  have e2 : replicateP rows = [] := by
    simp only [replicateP, List.flatMap_eq_nil_iff]
    intro p hp
    have := h0 p hp
    obtain ⟨r, k⟩ := p
    simp only at this
    simp [this]
  constructor
  · apply meanPrediction_zero_total_is_totalisation
    unfold totalP weightedP
    rw [List.map_map]
    have : (rows.map ((fun r : PRow => r.w) ∘ fun x : PRow × Nat => match x with | (r, k) => { r with w := (k : Rat) })) =
        rows.map (fun _ => (0 : Rat)) := by
      apply List.map_congr_left
      intro p hp
      have := h0 p hp
      obtain ⟨r, k⟩ := p
      simp only at this
      simp [this]
    rw [this]; simp
  · rw [e2]; simp [meanPrediction]

end Review

/-! ### 10. Tie of the hand-written pieces of `Model/Weights.lean` to LIFTED source text (review R3)

`Model/Weights.lean` writes out which base metric each named fairness metric disaggregates, the worst-case
builtins of `equalized_odds_*` and `ratio_sub_one` by hand.  The lifters `fairness_named.py` and `aggregate.py`
regenerate the same facts from `_fairness_metrics.py` / `_disaggregated_result.py` on every run; the theorems below
identify the two, so a source edit there breaks a proof of this module instead of going unnoticed. -/

section LiftedTie

/-- the `Weights.Metric` a lifted base-metric name stands for (`pos_label` defaults) -/
def baseMetric : FairNamed.Base → Metric
  | .selrate => .sel 1
  | .tpr => .rate .tpr none
  | .fpr => .rate .fpr none

/-- which metric `demographic_parity_*`, `equal_opportunity_*` and the two columns of `equalized_odds_*`
    disaggregate — as lifted from `_fairness_metrics.py` -/
theorem named_bases_are_lifted :
    selMetric = baseMetric FairNamed.dpBase ∧ tprMetric = baseMetric FairNamed.eoppBase ∧
    tprMetric = baseMetric FairNamed.eoddsFirst ∧ fprMetric = baseMetric FairNamed.eoddsSecond :=
  ⟨rfl, rfl, rfl, rfl⟩

/-- `agg="worst_case"` is Python's `max` for the difference and `min` for the ratio (`eoDifference` uses
    `rmax`, `eoRatio` uses `pyMin`) — as lifted -/
theorem eodds_worst_is_lifted :
    FairNamed.eoddsDiffWorst = .pymax ∧ FairNamed.eoddsRatioWorst = .pymin := ⟨rfl, rfl⟩

/-- the hand-written `subOne` is the lifted `ratio_sub_one` on every float (NaN, ±inf included) -/
theorem subOne_is_lifted (x : XR) : subOne x = AggregateSpec.ratioSubOne x := by
  cases x with
  | nan => rfl
  | ninf => rfl
  | pinf => rfl
  | fin q =>
    unfold subOne AggregateSpec.ratioSubOne
    simp only [XR.lt, XR.div]
    by_cases h : 1 < q
    · have hq : q ≠ 0 := by intro h0; rw [h0] at h; norm_num at h
      simp [h, hq]
    · simp [h]

end LiftedTie

/-! ### Non-vacuity: concrete inputs meeting the hypotheses, evaluated by the kernel. -/

/-- the F1 regression input: y_true=[1,0,1], y_pred=[1,0,0], groups a,b,b, weights 2,1,3 -/
def f1 : List (WRow × Nat) :=
  [(⟨0, 1, 1, 1, 0⟩, 2), (⟨1, 0, 0, 0, 0⟩, 1), (⟨1, 1, 0, 0, 0⟩, 3)]

example : PosMult f1 := by unfold PosMult f1; decide
example : (wReplicate f1).length = 6 := by decide +kernel
example : groupPairs 0 f1 = [(⟨0, 1, 1, 1, 0⟩, 2)] := by decide +kernel
/-- group `a` is a single weighted row with selection rate 1, group `b` has 0: the demographic
    parity difference of the code-as-repaired is 1 (the defect made fairlearn return 0.0). -/
example : dpDifference .between (wWeighted f1) = .ok 1 := by decide +kernel
example : dpDifference .between (wReplicate f1) = .ok 1 := by decide +kernel
example : byGroup selMetric (wWeighted f1) = [(0, .ok 1), (1, .ok 0)] := by decide +kernel
example : eval (.rate .tpr none) (wWeighted f1) = .ok (2/5) := by decide +kernel
example : eval (.rate .tpr none) (wReplicate f1) = .ok (2/5) := by decide +kernel
example : eval .meanPred (wScale (1/4) (wWeighted f1)) = .ok (1/3) := by decide +kernel
/-- k = 0 is genuinely excluded: the replicated data loses the row (and here the whole group) -/
example : keys (wReplicate [(⟨0, 1, 1, 1, 0⟩, 0), (⟨1, 0, 0, 0, 0⟩, 1)]) ≠
    keys (wWeighted [(⟨0, 1, 1, 1, 0⟩, 0), (⟨1, 0, 0, 0, 0⟩, 1)]) := by decide +kernel

/-- two sample parameters on one metric: `a . ids` with a = weight 2 on the first row -/
def tp : List (Frame.Row MetricPool.Dat × Nat) :=
  [(⟨⟨1, 1, 0, 4⟩, [], ["a"]⟩, 2), (⟨⟨0, 1, 0, 8⟩, [], ["b"]⟩, 1), (⟨⟨1, 0, 0, 16⟩, [], ["a"]⟩, 3)]
example : Frame.byGroup Frame.Cell.nan 0 1 (MetricPool.eval .fpPar) (Frame.weightedRows MetricPool.wtDat tp) =
    [(["a"], .scalar (.fin 56)), (["b"], .scalar (.fin 8))] := by decide +kernel
example : Frame.byGroup Frame.Cell.nan 0 1 (MetricPool.eval .fpPar) (Frame.replicatedRows MetricPool.wtDat tp) =
    [(["a"], .scalar (.fin 56)), (["b"], .scalar (.fin 8))] := by decide +kernel


/-! ### Joint non-vacuity (review): one concrete input per theorem family meeting ALL hypotheses at once,
on the interesting branch -/
-- weight_is_multiplicity_by_group / _frame / named: ≥ 2 groups, both labels, a single-row group with weight 2
example : PosMult f1 ∧ f1 ≠ [] ∧ keys (wWeighted f1) = [0, 1] ∧
    byGroup tprMetric (wWeighted f1) = byGroup tprMetric (wReplicate f1) ∧
    byGroup tprMetric (wWeighted f1) = [(0, .ok 1), (1, .ok 0)] := by
  unfold PosMult f1; decide +kernel
-- single_weighted_row_group: all hypotheses at once (group 0 of f1 is ONE row with weight 2)
example : PosMult f1 ∧ groupPairs 0 f1 = [(⟨0, 1, 1, 1, 0⟩, 2)] ∧
    eval (.sel 1) (groupRows 0 (wWeighted f1)) = .ok 1 := by unfold PosMult f1; decide +kernel
-- scale_invariant*: c = 3/4 > 0 on weights that are not all equal
example : (0 : Rat) < 3/4 ∧ frame selMetric (wScale (3/4) (wWeighted f1)) = frame selMetric (wWeighted f1) ∧
    (frame selMetric (wWeighted f1)).map (·.diffBetween) = .ok 1 := by decide +kernel
-- base level incl. a non-default encoding with pos_label given
def r37 : List (Row × Nat) := [(⟨7, 7, 0⟩, 2), (⟨7, 3, 0⟩, 1), (⟨3, 7, 0⟩, 3), (⟨3, 3, 0⟩, 1)]
example : PosMult r37 ∧ rate .tpr (weighted r37) (some 7) = .ok (2/3) ∧ rate .tpr (replicate r37) (some 7) = .ok (2/3) ∧
    (replicate r37).length = 7 := by unfold PosMult r37; decide +kernel
-- total_weight_positive_P / weight_is_multiplicity_mean_prediction
def p3 : List (PRow × Nat) := [(⟨1/2, 0⟩, 2), (⟨0, 0⟩, 1), (⟨3/4, 0⟩, 3)]
example : PosMult p3 ∧ p3 ≠ [] ∧ meanPrediction (weightedP p3) = 13/24 ∧ meanPrediction (replicateP p3) = 13/24 := by
  unfold PosMult p3; decide +kernel
-- metricframe_weight_is_multiplicity / _two_params_: the multiplicity hypothesis of `tp`
example : ∀ p ∈ tp, 1 ≤ p.2 := by decide +kernel
/-- full MetricFrame model: one control and two sensitive features, 8 index tuples of which 4 are EMPTY
    combinations (NaN), multiplicities 1..5 -/
def tr : List (Frame.Row MetricPool.Dat × Nat) :=
  [(⟨⟨1, 1, 0, 0⟩, ["s"], ["a", "x"]⟩, 2), (⟨⟨1, 0, 0, 0⟩, ["s"], ["a", "x"]⟩, 1), (⟨⟨0, 1, 0, 0⟩, ["s"], ["a", "y"]⟩, 3),
   (⟨⟨1, 1, 0, 0⟩, ["t"], ["b", "x"]⟩, 1), (⟨⟨0, 0, 0, 0⟩, ["t"], ["b", "x"]⟩, 4), (⟨⟨1, 0, 0, 0⟩, ["s"], ["b", "x"]⟩, 5)]
-- metricframe_rates_weight_is_multiplicity
example : (∀ p ∈ tr, 1 ≤ p.2) ∧
    Frame.byGroup Frame.Cell.nan 1 2 (MetricPool.eval .tpr) (Frame.weightedRows MetricPool.wtDat tr) =
      [(["s", "a", "x"], .scalar (.fin (2/3))), (["s", "a", "y"], .scalar (.fin 0)), (["s", "b", "x"], .scalar (.fin 0)),
       (["s", "b", "y"], .scalar .nan), (["t", "a", "x"], .scalar .nan), (["t", "a", "y"], .scalar .nan),
       (["t", "b", "x"], .scalar (.fin 1)), (["t", "b", "y"], .scalar .nan)] ∧
    Frame.byGroup Frame.Cell.nan 1 2 (MetricPool.eval .tpr) (Frame.replicatedRows MetricPool.wtDat tr) =
      Frame.byGroup Frame.Cell.nan 1 2 (MetricPool.eval .tpr) (Frame.weightedRows MetricPool.wtDat tr) ∧
    Frame.overall Frame.Cell.nan 1 (MetricPool.eval .fpr) (Frame.weightedRows MetricPool.wtDat tr) =
      [(["s"], .scalar (.fin 1)), (["t"], .scalar (.fin 0))] := by decide +kernel
-- metricframe_pool_scale_invariant: c = 3/4
example : (0 : Rat) < 3/4 ∧
    Frame.byGroup Frame.Cell.nan 1 2 (MetricPool.eval .selrate)
        (Frame.mapDat (MetricPool.scDat (3/4)) (Frame.weightedRows MetricPool.wtDat tr)) =
      Frame.byGroup Frame.Cell.nan 1 2 (MetricPool.eval .selrate) (Frame.weightedRows MetricPool.wtDat tr) ∧
    (Frame.byGroup Frame.Cell.nan 1 2 (MetricPool.eval .selrate) (Frame.weightedRows MetricPool.wtDat tr)).lookup
      ["t", "b", "x"] = some (.scalar (.fin (1/5))) := by decide +kernel
-- src_none_eq_ones_*: a weighted call really differs from the unweighted one (the clause is not vacuous)
example : BaseMetricsSrc.selection_rate [1, 0] [1, 0] 1 none = .ok (1/2) ∧
    BaseMetricsSrc.selection_rate [1, 0] [1, 0] 1 (some [3, 1]) = .ok (3/4) ∧
    BaseMetricsSrc.mean_prediction [] [1, 0] none = .ok (1/2) := by decide +kernel

/-! ### the aggregate composition is read from the lifted `AggregateSpec` (bridge) -/

/-- `Weights.aggregate` is defined over `Generated/AggregateSpec.lean` (which extreme `difference` / `ratio` take,
    lifted by `aggregate.py` from `DisaggregatedResult.difference` / `.ratio`); on the pinned source it is the closed
    form all theorems of this file were stated for — a source edit of one of the min / max choices changes the generated
    definitions and breaks this equation (and the driver op `w.frame` follows the new text) -/
theorem src_aggregate_composition (ks : List Int) (vals : List Rat) (ov : Rat) :
    Weights.aggregate ks vals ov =
      { keys := ks, byGroup := vals, overall := ov,
        gmin := Weights.minL vals, gmax := Weights.maxL vals,
        diffBetween := Weights.maxL (vals.map (fun v => Weights.rabs (v - Weights.minL vals))),
        diffOverall := Weights.maxL (vals.map (fun v => Weights.rabs (v - ov))),
        ratioBetween := Weights.xdiv (Weights.minL vals) (Weights.maxL vals),
        ratioOverall := Weights.xminSkip (vals.map (fun v => Weights.subOne (Weights.xdiv v ov))) } := rfl

end C11
