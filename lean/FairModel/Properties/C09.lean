/-
C09 — GridSearch trains a faithful best response per grid point and picks the argmin.
Property theorems only; helper lemmas live in `Lemmas/Grid.lean`, `Lemmas/GridMore.lean`, `Lemmas/C09Review.lean`;
the model is `Model/Grid.lean` (defined over `Generated/GridSrc.lean`, lifted from the source on every run).
Composition theorems (same namespace): `Properties/C09X.lean` — that is the module the check builds.

CLAUSE → THEOREM TABLE (review R3; property text in properties.jsonl, id C09)
  (a) "GridSearch.fit produces exactly grid_size distinct non-negative multiplier vectors whose L1 norm is at most
       grid_limit"                                                                                        FULL, under
       the stated hypotheses: `grid_clause_from_any_start` (ONE statement, for the `while True` loop as the source
       runs it, started at ANY estimate `n0`: succeeds, `n_units ≥ 1`, exactly grid_size vectors, pairwise distinct,
       entries ≥ 0, L1 norm ≤ grid_limit — the bound is proved for the vector AFTER the pos/neg basis map, not only
       for the lattice point).  Hypotheses, each needed:
         * `2 ≤ grid_size`: for grid_size ∈ {0, 1} the source raises ZeroDivisionError (`float(grid_limit)/n_units`
           with n_units = 0) — `grid_size_le_one_raises` (replayed: corpus/C09/gen-grid-size-1-zero-division.json);
         * `1 ≤ trueDim` (a coordinate stays free): with true_dim = 0 (one basis column and force_L1_norm, i.e.
           BoundedGroupLoss on ONE group; or DemographicParity on one group: no column at all) the source raises
           ZeroDivisionError already in the estimate `1.0 / true_dim`, BEFORE the loop; the estimate is an INPUT of the
           model, so `Grid.grid` still answers there (`trueDim_zero_model_answers`): the single-clause theorems
           `grid_length`, `grid_nonneg`, `grid_l1_le_limit`, `grid_distinct` (which do not assume `1 ≤ trueDim`) describe
           the loop, not the estimate.  Outside the quantifier (2..4 groups);
         * `0 < grid_limit` (grid_limit = 0: grid_size copies of the zero vector);
         * `basisOK` (0 ≤ entries, column sums ≤ 1) for sign and L1 bound, `unitBasis` for distinctness: both are
           evaluated by the driver on the bases of EVERY fitted moment.  `unitBasis` holds for DP / ERP / BGL always and
           for EO / TPR / FPR unless a non-last group lacks a label — finding F6, `grid_duplicates_without_unit_basis`.
       Pieces: grid_exists, grid_length, grid_mem, grid_nonneg, grid_l1_le_limit, grid_distinct; the lattice behind them:
       lattice_mem_iff (sound + complete), lattice_l1, lattice_nodup, lattice_lex_sorted, truncation_keeps_least,
       lattice_size_grows, nUnits_least, lattice_length_le_cube; float start of the search: search_from_any_start,
       estimate_le_least, estimate_harmless (no overshoot ⇒ the SAME grid as from the least radius),
       overshoot_grid_still_valid (any start: coarser, every clause still holds); force_L1_norm:
       forced_grid_l1_eq_limit; zero vector: zero_mem_lattice_iff, zero_point_gives_zero_lambda,
       zero_lambda_mem_grid_iff, forced_grid_excludes_zero; grid_offset: grid_offset_distinct (count + distinctness
       only: sign and L1 bound are FALSE for a shifted grid and not claimed).
  (b) "trains one predictor per vector on the data relabelled and reweighted for that vector (so with an exact
       cost-sensitive learner each predictor minimises error + lambda.gamma over the hypothesis class)"
       FULL for the five parity moments: `C09.fit_trains_real_lagrangian_minimisers` (C09X.lean): in the loop `fitLoop`
       run with `Moments.signedWeights` and the ErrorRate weights, every trained predictor (DummyClassifier shortcut
       included) minimises the REAL `Oracle.lagr = error + λ·γ` of ITS OWN λ over the class; one grid point:
       `fit_predictor_minimises_real_lagrangian`.  "Exact learner" is the hypothesis `hex` (weighted 0/1 error on the
       relabelled data minimal over H); `xLearner_exact` shows a concrete learner meets it for every weight vector.
       Abstract forms: best_response (weighted error = Σ max(w,0) − Σ wᵢhᵢ; needs equal lengths — `weighted01`
       truncates like zip — and 0/1 labels), best_response_argmin_hard, fit_predictor_minimises_lagrangian_hard,
       fit_spec.  NOTE `best_response_argmin` / `fit_predictor_minimises_lagrangian` assume the affine form of `F` for
       EVERY list of naturals; the real error + λ·γ has it only on 0/1 labelings of the right length
       (`affine_everywhere_excludes_zero_one_error`), so those two cannot be instantiated with it — the `_hard`
       versions can, and are.
       Rows of combined weight exactly 0 get label 0 and weight 0 (`relabel`; label irrelevant: C07.zero_weight_label_
       irrelevant).  All labels equal ⇒ DummyClassifier: `trainAt`, covered by `trainAt_minimises`.  All weights 0 ⇒
       sklearn's DummyClassifier raises ValueError: finding F12, not modelled (the model trains the constant 0:
       `all_zero_weights_take_dummy_branch` locates the shape).
       BoundedGroupLoss (`is_classification_reduction = False`: `y_reduction = y`, weights not abs'ed) is NOT a branch
       of `fitLoop` (PARTIAL there: the check feeds the model the BGL weights signed by the label, so that `relabel`
       returns (y, w) — correspondence only); the clause itself is proved for that column of `GridSearch.fit` as modelled
       by C07 (`Oracle.callGridLoss`, over Generated/OracleSrc.lean): `C09.bgl_grid_point_minimises_lambda_gamma`
       (C09X.lean, from `C07.loss_grid_identity`): labels unchanged, weights `signed_weights(λ)`, a minimiser of the
       weighted loss over H minimises `λ·γ` over H.
  (c) "records for each predictor the objective and constraint values that its predictions really have"
       FULL in the model: fit_spec (`out.objectives = out.preds.map objOf ∧ out.gammas = out.preds.map gamOf` with
       `out.preds` the trained labelings: the records are functions of the RECORDED predictor, position by position);
       with `gamOf` = `Moments.gamma`: fit_selected_gammaLe (C09X).  That `objective.gamma` / `constraints.gamma` are
       called on `current_estimator.predict` is the lifter's shape check + the oracle comparison `C09.records`.
  (d) "The selected model minimises (1-constraint_weight)*objective + constraint_weight*max(gamma) over the trained
       predictors"    FULL: tradeoff_spec, maxL_spec, argminFirst_spec (in range, minimal, FIRST index), select_spec,
       runningArgmin_eq, fit_spec (last conjunct), C09X.selected_minimises_tradeoff; any rational cw (the constructor
       rejects cw ∉ [0,1]: not modelled, theorems need no range).  `select` = none exactly for an empty record list
       (source: `min([])` ValueError) or an empty gamma vector (source: NaN loss, best_idx_ = 0 — not modelled, cannot
       occur with ≥ 1 group): `select_eq_none_iff`.
  (e) "predict/predict_proba delegate to exactly that model"   FULL: predict_delegates (`predictWith` is generic in the
       method `run`: one theorem for `predict` and `predict_proba`; the lifter checks both methods read
       `self.predictors_[self.best_idx_]`).
  TIE TO THE SOURCE (Generated/GridSrc.lean): `srcLattice`/`accumulate`, `nUnits`, `searchFrom`, `grid`, `gridFrom`,
    `tradeoff`, `argminFirst`, `relabel`, `combineWeights`, `trainAt` are DEFINED over the lifted expressions;
    `source_lattice_eq`, `source_accumulate_eq`, `source_lattice_mem_iff` (+ the `_def` bridge lemmas of
    `Lemmas/Grid.lean`) show they are the closed forms the theorems talk about.
-/
import FairModel.Lemmas.C09Review
import FairModel.Generated.ValidationTables

namespace C09
open Grid

/-- at least one coordinate stays free once the L1 norm is (possibly) forced -/
theorem trueDim_pos_iff (na : List Bool) (f : Bool) :
    1 ≤ trueDim na f ↔ ∃ b bs, na = b :: bs ∧ ¬(bs = [] ∧ f = true) := by
  cases na with
  | nil => cases f <;> simp [trueDim]
  | cons b bs =>
    cases bs with
    | nil => cases f <;> simp [trueDim]
    | cons b' bs' => cases f <;> simp [trueDim]

/-- The integer grid is exactly the set of integer points with one entry per coordinate, non-negative
    where negatives are not allowed, and L1 norm `≤ n` (`= n` when the norm is forced). -/
theorem lattice_mem_iff (na : List Bool) (f : Bool) (n : Nat) (v : List Int) :
    v ∈ lattice na f n ↔ SignOK na v ∧ (if f && !na.isEmpty then l1 v = n else l1 v ≤ n) :=
  mem_lattice na f n v

/-- L1 bound of every lattice point; equality under `force_L1_norm`. -/
theorem lattice_l1 (na : List Bool) (f : Bool) (n : Nat) (v : List Int) (hv : v ∈ lattice na f n) :
    v.length = na.length ∧ l1 v ≤ n ∧ (f = true → na ≠ [] → l1 v = n) := by
  rw [mem_lattice] at hv
  refine ⟨hv.1.length_eq, ?_, ?_⟩
  · have := hv.2; split at this <;> omega
  · intro hf hna
    have := hv.2
    cases na with
    | nil => exact absurd rfl hna
    | cons b bs => simpa [hf] using this

theorem lattice_nodup (na : List Bool) (f : Bool) (n : Nat) : (lattice na f n).Nodup :=
  Grid.lattice_nodup na f n

/-- The lattice grows strictly with the radius (so the `while True` search terminates). -/
theorem lattice_size_grows (na : List Bool) (f : Bool) (n : Nat) (h : 1 ≤ trueDim na f) :
    (lattice na f n).length < (lattice na f (n + 1)).length := by
  obtain ⟨b, bs, rfl, hb⟩ := (trueDim_pos_iff na f).mp h
  exact lattice_length_lt b bs f n hb

/-- The search returns the least radius whose lattice has at least `grid_size` points. -/
theorem nUnits_least (na : List Bool) (f : Bool) (gs : Nat) (h : 1 ≤ trueDim na f) :
    ∃ n, nUnits na f gs = some n ∧ n ≤ gs ∧ gs ≤ (lattice na f n).length ∧
      ∀ k < n, (lattice na f k).length < gs := by
  obtain ⟨b, bs, rfl, hb⟩ := (trueDim_pos_iff na f).mp h
  exact nUnits_spec b bs f gs hb

/-- A lattice of radius `n` has at most `2^k (n+1)^true_dim` points: the float expression
    `(grid_size / 2^k)^(1/true_dim) - 1` the implementation starts from is never above `nUnits`. -/
theorem lattice_length_le_cube (na : List Bool) (f : Bool) (n : Nat) :
    (lattice na f n).length ≤ 2 ^ negCount na * (n + 1) ^ trueDim na f :=
  Grid.lattice_length_le_cube na f n

/-- With at least two grid points requested and a free coordinate the generator succeeds, uses the
    least sufficient radius `n ≥ 1` and returns exactly `grid_size` vectors. -/
theorem grid_exists (na : List Bool) (f : Bool) (gs : Nat) (limit : Rat)
    (rows : List (List Rat × List Rat)) (h : 1 ≤ trueDim na f) (hgs : 2 ≤ gs) :
    ∃ n g, grid na f gs limit rows = .ok (n, g) ∧ 1 ≤ n ∧ nUnits na f gs = some n ∧ g.length = gs := by
  obtain ⟨n, hn, _, hge, _⟩ := nUnits_least na f gs h
  cases n with
  | zero =>
    exfalso
    obtain ⟨b, bs, rfl, _⟩ := (trueDim_pos_iff na f).mp h
    have h0 : (lattice (b :: bs) f 0).length = 1 := by
      have hnd := Grid.lattice_nodup (b :: bs) f 0
      have hall : ∀ v ∈ lattice (b :: bs) f 0, v = List.replicate (b :: bs).length 0 := by
        intro v hv
        have hl := lattice_l1 _ _ _ v hv
        apply List.ext_getElem (by simp [hl.1])
        intro i h1 h2
        have : (v[i]).natAbs ≤ l1 v := by
          unfold l1
          exact List.single_le_sum (by simp) _ (List.mem_map.mpr ⟨v[i], List.getElem_mem h1, rfl⟩)
        simp; omega
      have hne := lattice_ne_nil (b :: bs) f 0
      match hL : lattice (b :: bs) f 0, hnd, hall, hne with
      | [], _, _, hne => exact absurd rfl hne
      | [x], _, _, _ => rfl
      | x :: y :: r, hnd, hall, _ =>
        have := hall x (by simp); have := hall y (by simp)
        simp_all
    omega
  | succ n =>
    refine ⟨n + 1, ((lattice na f (n + 1)).take gs).map
      (fun v => lambdaOf rows (scaleCoefs limit (n + 1) v)), ?_, by omega, hn, ?_⟩
    · simp only [grid_def, hn]
    · simp only [List.length_map, List.length_take]; omega

theorem grid_length (na : List Bool) (f : Bool) (gs : Nat) (limit : Rat)
    (rows : List (List Rat × List Rat)) (n : Nat) (g : List (List Rat))
    (hg : grid na f gs limit rows = .ok (n, g)) :
    g.length = min gs (lattice na f n).length ∧ nUnits na f gs = some n ∧ 1 ≤ n := by
  rw [grid_def] at hg
  split at hg
  · cases hg
  · cases hg
  · next k hk =>
    cases hg
    refine ⟨by simp, hk, by omega⟩

/-- every grid vector is `lambdaOf` of a scaled lattice point -/
theorem grid_mem (na : List Bool) (f : Bool) (gs : Nat) (limit : Rat)
    (rows : List (List Rat × List Rat)) (n : Nat) (g : List (List Rat))
    (hg : grid na f gs limit rows = .ok (n, g)) (lam : List Rat) (hl : lam ∈ g) :
    1 ≤ n ∧ ∃ v ∈ lattice na f n, lam = lambdaOf rows (scaleCoefs limit n v) := by
  rw [grid_def] at hg
  split at hg
  · cases hg
  · cases hg
  · next k hk =>
    cases hg
    obtain ⟨v, hv, rfl⟩ := List.mem_map.mp hl
    exact ⟨by omega, v, List.mem_of_mem_take hv, rfl⟩

/-- Non-negativity of every multiplier (bases with non-negative entries). -/
theorem grid_nonneg (na : List Bool) (f : Bool) (gs : Nat) (limit : Rat)
    (rows : List (List Rat × List Rat)) (n : Nat) (g : List (List Rat))
    (hb : basisOK na.length rows = true)
    (hg : grid na f gs limit rows = .ok (n, g)) : ∀ lam ∈ g, ∀ x ∈ lam, 0 ≤ x := by
  intro lam hl
  obtain ⟨_, v, _, rfl⟩ := grid_mem na f gs limit rows n g hg lam hl
  exact lambdaOf_nonneg rows _ (fun r hr => ⟨((basisOK_spec hb).1 r hr).2.2.1, ((basisOK_spec hb).1 r hr).2.2.2⟩)

/-- L1 norm of every multiplier vector is at most `grid_limit`. -/
theorem grid_l1_le_limit (na : List Bool) (f : Bool) (gs : Nat) (limit : Rat) (hlim : 0 ≤ limit)
    (rows : List (List Rat × List Rat)) (n : Nat) (g : List (List Rat))
    (hb : basisOK na.length rows = true)
    (hg : grid na f gs limit rows = .ok (n, g)) :
    ∀ lam ∈ g, (lam.map (fun x => |x|)).sum ≤ limit := by
  intro lam hl
  have hnn := grid_nonneg na f gs limit rows n g hb hg lam hl
  obtain ⟨hn, v, hv, rfl⟩ := grid_mem na f gs limit rows n g hg lam hl
  have habs : (lambdaOf rows (scaleCoefs limit n v)).map (fun x => |x|) = lambdaOf rows (scaleCoefs limit n v) := by
    conv_rhs => rw [← List.map_id (lambdaOf rows (scaleCoefs limit n v))]
    apply List.map_congr_left
    intro x hx; simp [abs_of_nonneg (hnn x hx)]
  rw [habs]
  have hlat := lattice_l1 na f n v hv
  have hnpos : (0 : Rat) < n := by exact_mod_cast hn
  have hs : 0 ≤ limit / (n : Rat) := div_nonneg hlim (le_of_lt hnpos)
  have h1 := lambdaOf_sum_le hb (scaleCoefs limit n v) (by simp [scaleCoefs_def, hlat.1])
  rw [scale_parts_sum (limit / n) hs n limit rfl v] at h1
  have h2 : (l1 v : Rat) ≤ n := by exact_mod_cast hlat.2.1
  calc (lambdaOf rows (scaleCoefs limit n v)).sum ≤ (l1 v : Rat) * (limit / n) := h1
    _ ≤ (n : Rat) * (limit / n) := mul_le_mul_of_nonneg_right h2 hs
    _ = limit := by field_simp

/-- Distinctness: when every basis column is a distinct unit vector (`unitBasis`, evaluated by the
    driver on every generated case) the `grid_size` multiplier vectors are pairwise distinct. -/
theorem grid_distinct (na : List Bool) (f : Bool) (gs : Nat) (limit : Rat) (hlim : 0 < limit)
    (rows : List (List Rat × List Rat)) (n : Nat) (g : List (List Rat))
    (hu : unitBasis na rows = true)
    (hg : grid na f gs limit rows = .ok (n, g)) : g.Nodup := by
  rw [grid_def] at hg
  split at hg
  · cases hg
  · cases hg
  · next k hk =>
    cases hg
    have hs : (0 : Rat) < limit / ((k + 1 : Nat) : Rat) := div_pos hlim (by exact_mod_cast Nat.succ_pos k)
    refine List.Nodup.map_on ?_ ((List.take_sublist _ _).nodup (Grid.lattice_nodup na f (k + 1)))
    intro v hv v' hv' heq
    have h1 := (mem_lattice na f (k + 1) v).mp (List.mem_of_mem_take hv)
    have h2 := (mem_lattice na f (k + 1) v').mp (List.mem_of_mem_take hv')
    exact lambdaOf_inj hu limit (k + 1) hs v v' h1.1 h2.1 heq

/-! F6 (pre-existing, KNOWN FINDING): the hypothesis of `grid_distinct` is not met by every data set.
    EqualizedOdds on data where group `a` (not the last-seen group) has no `label=1` row: basis column
    for `(label=1, a)` is all zero.  Model witness, 2 groups (a, b), rows of the index in order
    (+,l0,a) (+,l0,b) (+,l1,b) (-,l0,a) (-,l0,b) (-,l1,b); coordinates 0:(l0,a) 1:(l1,a). -/
def f6Rows : List (List Rat × List Rat) :=
  [([1, 0], [0, 0]), ([0, 0], [0, 0]), ([0, 0], [0, 0]),
   ([0, 0], [1, 0]), ([0, 0], [0, 0]), ([0, 0], [0, 0])]

theorem grid_duplicates_without_unit_basis :
    unitBasis [true, true] f6Rows = false ∧ basisOK 2 f6Rows = true ∧
    ∃ n g, grid [true, true] false 5 2 f6Rows = .ok (n, g) ∧ g.length = 5 ∧ ¬ g.Nodup := by
  refine ⟨by decide +kernel, by decide +kernel, 1, _, rfl, by decide +kernel, by decide +kernel⟩

/-- `losses.index(min(losses))`: the returned index is in range, attains the minimum, and is the
    FIRST index doing so. -/
theorem argminFirst_spec (l : List Rat) (i : Nat) (h : argminFirst l = some i) :
    ∃ hi : i < l.length, (∀ y ∈ l, l[i] ≤ y) ∧ ∀ (j : Nat) (hj : j < i), l[i] < l[j]'(by omega) := by
  cases l with
  | nil => simp [argminFirst] at h
  | cons x xs =>
    simp only [argminFirst_cons, Option.some.injEq] at h
    have hmem := minL_mem x xs
    have hi : i < (x :: xs).length := by rw [← h]; exact List.idxOf_lt_length_iff.mpr hmem
    have hval : (x :: xs)[i] = minL x xs := by
      subst h; exact List.getElem_idxOf _
    refine ⟨hi, ?_, ?_⟩
    · intro y hy
      rw [hval]
      rcases List.mem_cons.mp hy with rfl | hy
      · exact minL_le_init _ _
      · exact minL_le_mem x xs y hy
    · intro j hj
      rw [hval]
      have hjl : j < (x :: xs).length := by omega
      have hne := ne_of_lt_idxOf (x :: xs) (minL x xs) j (by rw [h]; exact hj) hjl
      have hle : minL x xs ≤ (x :: xs)[j] := by
        rcases List.mem_cons.mp (List.getElem_mem hjl) with h' | h'
        · rw [h']; exact minL_le_init _ _
        · exact minL_le_mem x xs _ h'
      exact lt_of_le_of_ne hle (Ne.symm hne)

theorem argminFirst_isSome (l : List Rat) (h : l ≠ []) : ∃ i, argminFirst l = some i := by
  cases l with
  | nil => exact absurd rfl h
  | cons x xs => exact ⟨_, rfl⟩

/-- the largest entry of a non-empty gamma vector -/
theorem maxL_spec : ∀ (x : Rat) (xs : List Rat), maxL x xs ∈ x :: xs ∧ ∀ y ∈ x :: xs, y ≤ maxL x xs
  | x, [] => by simp [maxL]
  | x, z :: zs => by
    simp only [maxL]
    split
    · next h =>
      obtain ⟨h1, h2⟩ := maxL_spec z zs
      refine ⟨by simp at h1 ⊢; tauto, ?_⟩
      intro y hy
      rcases List.mem_cons.mp hy with rfl | hy
      · exact le_trans (le_of_lt h) (h2 z (by simp))
      · exact h2 y hy
    · next h =>
      obtain ⟨h1, h2⟩ := maxL_spec x zs
      refine ⟨by simp at h1 ⊢; tauto, ?_⟩
      intro y hy
      rcases List.mem_cons.mp hy with rfl | hy
      · exact h2 y (by simp)
      · rcases List.mem_cons.mp hy with rfl | hy
        · exact le_trans (not_lt.mp h) (h2 x (by simp))
        · exact h2 y (by simp [hy])

/-- the trade-off loss of one predictor -/
theorem tradeoff_spec (cw obj g : Rat) (gs : List Rat) :
    ∃ m, tradeoff cw obj (g :: gs) = some ((1 - cw) * obj + cw * m) ∧ m ∈ g :: gs ∧ ∀ y ∈ g :: gs, y ≤ m :=
  ⟨maxL g gs, tradeoff_cons cw obj g gs, (maxL_spec g gs).1, (maxL_spec g gs).2⟩

/-- Best response, part 1: the weighted 0/1 error of a labeling `h` on the data relabelled
    (`1[w>0]`) and reweighted (`|w|`) by GridSearch equals `Σ max(w_i,0) − Σ w_i h_i`. -/
theorem best_response (w : List Rat) (h : List Nat) (hl : w.length = h.length)
    (hb : ∀ x ∈ h, x = 0 ∨ x = 1) :
    weighted01 (relabel w) h = (w.map posPart).sum - dot w (toRat h) :=
  weighted01_relabel w h hl hb

/-- Best response, part 2: for ANY objective of the form `F h = K − c · Σ w_i h_i` with `c > 0` (the
    reduction identity of C07 gives `error + λ·γ` this form with `c = 1/n`, `w = signed weights`), a
    labeling has smaller weighted 0/1 error on the relabelled data iff it has smaller `F`; hence a
    learner that minimises the weighted 0/1 error over a class minimises `F` over that class.
    REVIEW R3: `hF` asks for the affine form on EVERY list of naturals; the real `error + λ·γ` has it only on 0/1
    labelings with one label per row (`affine_everywhere_excludes_zero_one_error`), so this statement cannot be
    instantiated with it — use `best_response_argmin_hard` (same conclusion, `hF` guarded). -/
theorem best_response_argmin (w : List Rat) (K c : Rat) (hc : 0 < c) (F : List Nat → Rat)
    (hF : ∀ h, F h = K - c * dot w (toRat h))
    (h h' : List Nat) (hl : w.length = h.length) (hl' : w.length = h'.length)
    (hb : ∀ x ∈ h, x = 0 ∨ x = 1) (hb' : ∀ x ∈ h', x = 0 ∨ x = 1) :
    weighted01 (relabel w) h ≤ weighted01 (relabel w) h' ↔ F h ≤ F h' := by
  rw [best_response w h hl hb, best_response w h' hl' hb', hF h, hF h']
  constructor
  · intro hle
    have : dot w (toRat h') ≤ dot w (toRat h) := by linarith
    nlinarith
  · intro hle
    have : c * dot w (toRat h') ≤ c * dot w (toRat h) := by linarith
    have := le_of_mul_le_mul_left this hc
    linarith

/-! ### tie to the source -/

/-- The recursion of `_GridGenerator.accumulate_integer_grid`, run over the LIFTED expressions (base-case
    test, last-coordinate rule, `range(min_val, max_val + 1)`, `index + 1`, `max_val - abs(current_value)`),
    enumerates from coordinate `i` on exactly the closed-form lattice of the remaining coordinates. -/
theorem source_accumulate_eq (na : List Bool) (f : Bool) (fuel i m : Nat) (hi : i ≤ na.length)
    (hf : na.length - i + 1 ≤ fuel) :
    accumulate na.length na f fuel (i : Int) (m : Int) = lattice (na.drop i) f m :=
  accumulate_eq na f fuel i m hi hf

/-- `build_integer_grid(m)` as lifted from the source is the lattice all theorems above are about. -/
theorem source_lattice_eq (na : List Bool) (f : Bool) (m : Nat) : srcLattice na f m = lattice na f m :=
  srcLattice_eq na f m

/-- … hence the sound-and-complete description holds of the source-derived enumeration itself. -/
theorem source_lattice_mem_iff (na : List Bool) (f : Bool) (n : Nat) (v : List Int) :
    v ∈ srcLattice na f n ↔ SignOK na v ∧ (if f && !na.isEmpty then l1 v = n else l1 v ≤ n) := by
  rw [srcLattice_eq]; exact mem_lattice na f n v

/-! ### the float starting point of the `while True` search (the estimate is an INPUT `n0`) -/

/-- From ANY start `n0` the loop `if enough: break; n_units = n_units + 1` stops at
    `max n0 (least sufficient radius)`. -/
theorem search_from_any_start (na : List Bool) (f : Bool) (gs n0 : Nat) (h : 1 ≤ trueDim na f) :
    ∃ nl, nUnits na f gs = some nl ∧
      searchFrom na f gs (gs + 2) (n0 : Nat) = some ((max n0 nl : Nat) : Int) := by
  obtain ⟨nl, hn, hle, hge, hlt⟩ := nUnits_least na f gs h
  obtain ⟨b, bs, rfl, hb⟩ := (trueDim_pos_iff na f).mp h
  exact ⟨nl, hn, searchFrom_spec b bs f gs nl hb hge hlt (gs + 2) n0 (by omega)⟩

/-- If the float estimate does not exceed the exact value of the lifted expression
    `⌊(grid_size / 2^k)^(1/true_dim) − 1⌋` (predicate `GridSrc.noOvershoot`, evaluated by the driver on the
    float estimate of every generated case), then it is at most the least sufficient radius … -/
theorem estimate_le_least (na : List Bool) (f : Bool) (gs n0 : Nat) (h : 1 ≤ trueDim na f)
    (hno : GridSrc.noOvershoot gs (negCount na) (trueDim na f) n0 = true) :
    ∃ nl, nUnits na f gs = some nl ∧ n0 ≤ nl := by
  obtain ⟨nl, hn, _, hge, _⟩ := nUnits_least na f gs h
  exact ⟨nl, hn, noOvershoot_le_least na f gs n0 nl h hno hge⟩

/-- … and the generated grid is the SAME for every such start: float error in `** (1 / true_dim)` is
    harmless as long as it does not overshoot. -/
theorem estimate_harmless (na : List Bool) (f : Bool) (gs : Nat) (limit : Rat)
    (rows : List (List Rat × List Rat)) (n0 : Nat) (h : 1 ≤ trueDim na f)
    (hno : GridSrc.noOvershoot gs (negCount na) (trueDim na f) n0 = true) :
    gridFrom na f gs limit rows n0 = grid na f gs limit rows := by
  obtain ⟨nl, hn, hle⟩ := estimate_le_least na f gs n0 h hno
  obtain ⟨nl', hn', hs⟩ := search_from_any_start na f gs n0 h
  rw [hn] at hn'; cases hn'
  rw [gridFrom_def, grid_def, hs, hn, Nat.max_eq_right hle]
  cases nl with
  | zero => simp
  | succ k => simp [gridAt]

/-- On OVERSHOOT (any start `n0` whatsoever) the grid is built at radius `max n0 nl ≥ nl` — coarser — but
    still satisfies every clause: `grid_size` vectors, non-negative, L1 norm ≤ `grid_limit`, distinct. -/
theorem overshoot_grid_still_valid (na : List Bool) (f : Bool) (gs : Nat) (limit : Rat) (hlim : 0 < limit)
    (rows : List (List Rat × List Rat)) (n0 n : Nat) (g : List (List Rat)) (h : 1 ≤ trueDim na f)
    (hb : basisOK na.length rows = true)
    (hg : gridFrom na f gs limit rows n0 = .ok (n, g)) :
    (∃ nl, nUnits na f gs = some nl ∧ n = max n0 nl) ∧ 1 ≤ n ∧ g.length = gs ∧
    (∀ lam ∈ g, ∀ x ∈ lam, 0 ≤ x) ∧ (∀ lam ∈ g, (lam.map (fun x => |x|)).sum ≤ limit) ∧
    (unitBasis na rows = true → g.Nodup) := by
  obtain ⟨nl, hn, hs⟩ := search_from_any_start na f gs n0 h
  obtain ⟨_, hn', _, hge, _⟩ := nUnits_least na f gs h
  rw [hn] at hn'; cases hn'
  rw [gridFrom_def, hs] at hg
  simp only [Int.toNat_natCast] at hg
  split at hg
  · cases hg
  · next hpos =>
    cases hg
    have hn1 : 1 ≤ max n0 nl := by omega
    obtain ⟨b, bs, rfl, hbb⟩ := (trueDim_pos_iff na f).mp h
    have hlen := lattice_length_mono' b bs f hbb (show nl ≤ max n0 nl by omega)
    refine ⟨⟨nl, hn, rfl⟩, hn1, ?_, gridAt_nonneg _ f gs limit rows _ hb,
      gridAt_l1 _ f gs limit (le_of_lt hlim) rows _ hn1 hb,
      fun hu => gridAt_nodup _ f gs limit hlim rows _ hn1 hu⟩
    simp only [gridAt, List.length_map, List.length_take]; omega

/-! ### order of the enumeration -/

/-- The integer grid is enumerated in strictly increasing LEXICOGRAPHIC order. -/
theorem lattice_lex_sorted (na : List Bool) (f : Bool) (n : Nat) :
    (lattice na f n).Pairwise (List.Lex (· < ·)) :=
  lattice_sorted na f n

/-- `accumulator[:grid_size]` keeps a prefix: the kept points are the `grid_size` lexicographically smallest
    ones (each kept point precedes each dropped point). -/
theorem truncation_keeps_least (na : List Bool) (f : Bool) (n gs : Nat) :
    ∀ v ∈ (lattice na f n).take gs, ∀ w ∈ (lattice na f n).drop gs, List.Lex (· < ·) v w :=
  take_lt_drop _ _ (lattice_sorted na f n) gs

/-! ### the zero vector -/

/-- The all-zero point belongs to the integer grid iff the L1 norm is not forced (or the radius is 0). -/
theorem zero_mem_lattice_iff (na : List Bool) (f : Bool) (n : Nat) :
    List.replicate na.length (0 : Int) ∈ lattice na f n ↔ (f = true → na ≠ [] → n = 0) := by
  rw [mem_lattice, l1_zero]
  constructor
  · rintro ⟨_, h⟩ hf hna
    cases na with
    | nil => exact absurd rfl hna
    | cons b bs => simp [hf] at h; omega
  · intro h
    refine ⟨signOK_zero na, ?_⟩
    cases na with
    | nil => simp
    | cons b bs =>
      cases f with
      | false => simp
      | true => simp; exact (h rfl (by simp)).symm

/-- The zero point is mapped to the zero multiplier vector (whatever the bases). -/
theorem zero_point_gives_zero_lambda (rows : List (List Rat × List Rat)) (limit : Rat) (n d : Nat) :
    lambdaOf rows (scaleCoefs limit n (List.replicate d 0)) = List.replicate rows.length 0 :=
  lambdaOf_zero rows limit n d

/-- On a unit basis the zero multiplier vector is in the grid iff the zero point is among the first
    `grid_size` lattice points (position in the lexicographic enumeration `< grid_size`). -/
theorem zero_lambda_mem_grid_iff (na : List Bool) (f : Bool) (gs : Nat) (limit : Rat) (hlim : 0 < limit)
    (rows : List (List Rat × List Rat)) (n : Nat) (g : List (List Rat))
    (hu : unitBasis na rows = true) (hg : grid na f gs limit rows = .ok (n, g)) :
    List.replicate rows.length (0 : Rat) ∈ g ↔
      List.replicate na.length (0 : Int) ∈ (lattice na f n).take gs := by
  rw [grid_def] at hg
  split at hg
  · cases hg
  · cases hg
  · next k hk =>
    cases hg
    have hs : (0 : Rat) < limit / ((k + 1 : Nat) : Rat) := div_pos hlim (by exact_mod_cast Nat.succ_pos k)
    rw [← lambdaOf_zero rows limit (k + 1) na.length]
    constructor
    · intro hm
      obtain ⟨v, hv, he⟩ := List.mem_map.mp hm
      have h1 := (mem_lattice na f (k + 1) v).mp (List.mem_of_mem_take hv)
      have := lambdaOf_inj hu limit (k + 1) hs v _ h1.1 (signOK_zero na) he
      rw [← this]; exact hv
    · intro hm; exact List.mem_map.mpr ⟨_, hm, rfl⟩

/-- With the L1 norm forced (objective in the span: BoundedGroupLoss) the zero multiplier vector is never
    a grid point (unit basis). -/
theorem forced_grid_excludes_zero (na : List Bool) (gs : Nat) (limit : Rat) (hlim : 0 < limit)
    (rows : List (List Rat × List Rat)) (n : Nat) (g : List (List Rat)) (hna : na ≠ [])
    (hu : unitBasis na rows = true) (hg : grid na true gs limit rows = .ok (n, g)) :
    List.replicate rows.length (0 : Rat) ∉ g := by
  rw [zero_lambda_mem_grid_iff na true gs limit hlim rows n g hu hg]
  intro hm
  have h1 := (zero_mem_lattice_iff na true n).mp (List.mem_of_mem_take hm) rfl hna
  have := (grid_length na true gs limit rows n g hg).2.2
  omega

/-- On a unit basis whose columns sum to at most 1 (both hypotheses are evaluated by the driver on the bases of
    every fitted moment) the L1 norm of EVERY grid vector is exactly `l1(v)·grid_limit/n_units` of its lattice
    point; with `force_L1_norm` (objective in the span: BoundedGroupLoss) it is EXACTLY `grid_limit`, as the
    docstring of `_GridGenerator` promises. -/
theorem forced_grid_l1_eq_limit (na : List Bool) (gs : Nat) (limit : Rat) (hlim : 0 < limit)
    (rows : List (List Rat × List Rat)) (n : Nat) (g : List (List Rat)) (hna : na ≠ [])
    (hu : unitBasis na rows = true) (hb : basisOK na.length rows = true)
    (hg : grid na true gs limit rows = .ok (n, g)) :
    ∀ lam ∈ g, (lam.map (fun x => |x|)).sum = limit := by
  intro lam hl
  have hnn := grid_nonneg na true gs limit rows n g hb hg lam hl
  obtain ⟨hn, v, hv, rfl⟩ := grid_mem na true gs limit rows n g hg lam hl
  have habs : (lambdaOf rows (scaleCoefs limit n v)).map (fun x => |x|) = lambdaOf rows (scaleCoefs limit n v) := by
    conv_rhs => rw [← List.map_id (lambdaOf rows (scaleCoefs limit n v))]
    apply List.map_congr_left
    intro x hx; simp [abs_of_nonneg (hnn x hx)]
  rw [habs]
  have hnpos : (0 : Rat) < n := by exact_mod_cast hn
  have hs : 0 < limit / (n : Rat) := div_pos hlim hnpos
  have hsign := ((mem_lattice na true n v).mp hv).1
  rw [lambdaOf_sum_eq hu hb (limit / n) hs n limit rfl v hsign, (lattice_l1 na true n v hv).2.2 rfl hna]
  field_simp

/-! ### grid_offset -/

/-- Shifting every multiplier vector by `grid_offset` (`_grid.add(self.grid_offset, axis="index")`)
    preserves their number and their distinctness. -/
theorem grid_offset_distinct (na : List Bool) (f : Bool) (gs : Nat) (limit : Rat) (hlim : 0 < limit)
    (rows : List (List Rat × List Rat)) (n : Nat) (g : List (List Rat)) (off : List Rat)
    (hoff : off.length = rows.length) (hu : unitBasis na rows = true)
    (hg : grid na f gs limit rows = .ok (n, g)) :
    (addOffset off g).length = g.length ∧ (addOffset off g).Nodup := by
  refine ⟨by simp [addOffset], addOffset_nodup off g ?_ (grid_distinct na f gs limit hlim rows n g hu hg)⟩
  intro lam hl
  obtain ⟨_, v, _, rfl⟩ := grid_mem na f gs limit rows n g hg lam hl
  rw [lambdaOf_length, hoff]

/-! ### selection across the whole loop, delegation -/

/-- a running arg-min (`best`, `best_idx` updated on a strictly smaller loss while scanning the losses)
    returns the same index as `losses.index(min(losses))` -/
theorem runningArgmin_eq (l : List Rat) : runningArgmin l = argminFirst l :=
  runningArgmin_eq_argminFirst l

/-- For ANY list of `(objective, gamma)` records: the selected index is in range, its trade-off loss
    `(1-cw)·objective + cw·max(gamma)` is minimal, and it is the first index with that loss. -/
theorem select_spec (cw : Rat) (recs : List (Rat × List Rat)) (i : Nat) (h : select cw recs = some i) :
    ∃ losses : List Rat, recs.map (fun r => tradeoff cw r.1 r.2) = losses.map some ∧
      ∃ hi : i < losses.length, (∀ y ∈ losses, losses[i] ≤ y) ∧
        ∀ (j : Nat) (hj : j < i), losses[i] < losses[j]'(by omega) := by
  simp only [select, Option.bind_eq_some_iff] at h
  obtain ⟨losses, hl, ha⟩ := h
  exact ⟨losses, allSomeR_spec _ _ hl, argminFirst_spec losses i ha⟩

/-- `predict` / `predict_proba` return what the selected predictor returns. -/
theorem predict_delegates {P Y : Type} (run : P → Y) (preds : List P) (best : Nat) (hb : best < preds.length) :
    predictWith run preds best = some (run preds[best]) := by
  simp [predictWith, hb]

/-! ### the whole loop of `GridSearch.fit` -/

/-- THE PROPERTY IN ONE STATEMENT, for the loop `for i in grid.columns: …` as modelled by `fitLoop` (weights =
    constraint weights [+ objective weights], lifted relabelling, lifted dummy rule, base learner = parameter, records
    computed from the trained predictor, lifted trade-off loss and arg-min):  with a base learner that minimises the
    weighted 0/1 error over a class `H` of labelings,
      * one predictor per grid point, and each minimises the weighted 0/1 error on the data relabelled / reweighted
        for ITS OWN multiplier vector over `H` (the DummyClassifier shortcut included),
      * `objectives_` / `gammas_` are the values of exactly those predictors,
      * `best_idx_` is in range, minimises `(1-cw)·objective + cw·max(gamma)` and is the first such index. -/
theorem fit_spec (span : Bool) (cwOf : List Rat → List Rat) (ow : List Rat)
    (learner : List (Nat × Rat) → List Nat) (objOf : List Nat → Rat) (gamOf : List Nat → List Rat)
    (cw : Rat) (grid : List (List Rat)) (out : FitOut) (H : List Nat → Prop)
    (hex : ∀ w h', H h' → weighted01 (relabel w) (learner (relabel w)) ≤ weighted01 (relabel w) h')
    (h : fitLoop span cwOf ow learner objOf gamOf cw grid = some out) :
    out.preds = grid.map (fun lam => trainAt learner (relabel (combineWeights span (cwOf lam) ow))) ∧
    (∀ lam ∈ grid, ∀ h', H h' →
      weighted01 (relabel (combineWeights span (cwOf lam) ow))
          (trainAt learner (relabel (combineWeights span (cwOf lam) ow))) ≤
        weighted01 (relabel (combineWeights span (cwOf lam) ow)) h') ∧
    out.objectives = out.preds.map objOf ∧ out.gammas = out.preds.map gamOf ∧
    ∃ losses : List Rat, out.preds.map (fun p => tradeoff cw (objOf p) (gamOf p)) = losses.map some ∧
      ∃ hb : out.best < losses.length, (∀ y ∈ losses, losses[out.best] ≤ y) ∧
        ∀ (j : Nat) (hj : j < out.best), losses[out.best] < losses[j]'(by omega) := by
  simp only [fitLoop, Option.map_eq_some_iff] at h
  obtain ⟨b, hsel, rfl⟩ := h
  refine ⟨rfl, ?_, by simp, by simp, ?_⟩
  · intro lam _ h' hh'
    exact trainAt_minimises learner H _ (hex _) h' hh'
  · obtain ⟨losses, hl, hspec⟩ := select_spec cw _ b hsel
    refine ⟨losses, ?_, hspec⟩
    rw [← hl]; simp only [List.map_map]; rfl

/-- … hence (reduction identity of C07: `error + λ·γ = K − c·Σ wᵢhᵢ`, `c > 0`, `w` = the combined signed weights)
    every trained predictor minimises `error + λ·γ` of its own multiplier over the class.
    REVIEW R3: same remark as for `best_response_argmin` — the unguarded `hF` is not satisfiable by the real Lagrangian;
    `fit_predictor_minimises_lagrangian_hard` is the guarded form and `C09.fit_predictor_minimises_real_lagrangian`
    (C09X.lean) its instance for `Oracle.lagr` (ErrorRate objective + `λ·γ` of a parity moment). -/
theorem fit_predictor_minimises_lagrangian (learner : List (Nat × Rat) → List Nat) (H : List Nat → Prop)
    (w : List Rat) (K c : Rat) (hc : 0 < c) (F : List Nat → Rat)
    (hF : ∀ h, F h = K - c * dot w (toRat h))
    (hex : ∀ h', H h' → weighted01 (relabel w) (learner (relabel w)) ≤ weighted01 (relabel w) h')
    (hshape : (learner (relabel w)).length = w.length ∧ ∀ x ∈ learner (relabel w), x = 0 ∨ x = 1)
    (hH : ∀ h', H h' → w.length = h'.length ∧ ∀ x ∈ h', x = 0 ∨ x = 1) :
    ∀ h', H h' → F (trainAt learner (relabel w)) ≤ F h' := by
  intro h' hh'
  obtain ⟨hl, hb⟩ := trainAt_shape learner w hshape
  obtain ⟨hl', hb'⟩ := hH h' hh'
  exact (best_response_argmin w K c hc F hF _ h' hl.symm hl' hb hb').mp
    (trainAt_minimises learner H w hex h' hh')

/-! ## Review R3: error branches, clause (a) in one statement, guarded best-response theorems -/

/-- ERROR BRANCH of clause (a): for `grid_size ∈ {0, 1}` one lattice point is enough, the search stops at
    `n_units = 0`, and `float(grid_limit) / n_units` raises ZeroDivisionError — whatever the dimension, the bases and
    the limit; both for the least-radius search and for the loop started at the source's estimate (which is 0 there).
    Replayed on fairlearn: `_GridGenerator(1, 2.0, …)` and `_GridGenerator(0, 2.0, …)` raise ZeroDivisionError. -/
theorem grid_size_le_one_raises (na : List Bool) (f : Bool) (gs : Nat) (limit : Rat)
    (rows : List (List Rat × List Rat)) (h : gs ≤ 1) :
    grid na f gs limit rows = .error .zeroDiv ∧ gridFrom na f gs limit rows 0 = .error .zeroDiv := by
  refine ⟨by rw [grid_def, nUnits_of_le_one na f gs h], ?_⟩
  have h0 := lattice_length_pos na f 0
  have hs : searchFrom na f gs (gs + 2) ((0 : Nat) : Int) = some 0 := by
    rw [show gs + 2 = (gs + 1) + 1 from rfl, searchFrom]
    simp only [Int.toNat_natCast, srcLattice_eq, enough_def]
    have : decide (gs ≤ (lattice na f 0).length) = true := by simp; omega
    simp [this]
  rw [gridFrom_def, hs]; simp

/-- TOTALISATION NOTE (not a property of the source): with `true_dim = 0` (one basis column, `force_L1_norm`) the
    source raises ZeroDivisionError in `1.0 / true_dim` before the search starts (replayed:
    `_GridGenerator(2, 2.0, 1 column, neg_allowed=[True], force_L1_norm=True)`), but the estimate is an INPUT of the
    model, so `Grid.grid` answers with the two points `-2, 2`.  Every statement about the source's behaviour therefore
    carries `1 ≤ trueDim`. -/
theorem trueDim_zero_model_answers :
    trueDim [true] true = 0 ∧
    grid [true] true 2 2 [([1], [0]), ([0], [1])] = .ok (1, [[0, 2], [2, 0]]) := by
  refine ⟨by decide, by decide +kernel⟩

/-- **CLAUSE (a) IN ONE STATEMENT**, for the `while True` loop as the source runs it, started at ANY estimate `n0`
    (whether or not the float root overshoots): with a free coordinate, `grid_size ≥ 2`, `grid_limit > 0` and bases
    that are a unit basis with column sums ≤ 1, the generator succeeds with `n_units ≥ 1` and returns exactly
    `grid_size` pairwise distinct multiplier vectors with non-negative entries and L1 norm at most `grid_limit`. -/
theorem grid_clause_from_any_start (na : List Bool) (f : Bool) (gs : Nat) (limit : Rat) (hlim : 0 < limit)
    (rows : List (List Rat × List Rat)) (n0 : Nat) (h : 1 ≤ trueDim na f) (hgs : 2 ≤ gs)
    (hb : basisOK na.length rows = true) (hu : unitBasis na rows = true) :
    ∃ n g, gridFrom na f gs limit rows n0 = .ok (n, g) ∧ 1 ≤ n ∧ g.length = gs ∧ g.Nodup ∧
      (∀ lam ∈ g, ∀ x ∈ lam, 0 ≤ x) ∧ (∀ lam ∈ g, (lam.map (fun x => |x|)).sum ≤ limit) := by
  obtain ⟨n1, g1, _, hn1, hnu, _⟩ := grid_exists na f gs limit rows h hgs
  obtain ⟨nl, hn, hs⟩ := search_from_any_start na f gs n0 h
  rw [hnu] at hn; cases hn
  have hm : 1 ≤ max n0 n1 := by omega
  have hpos : ¬ (((max n0 n1 : Nat) : Int) ≤ 0) := by omega
  have hg : gridFrom na f gs limit rows n0 = .ok (max n0 n1, gridAt na f gs limit rows (max n0 n1)) := by
    rw [gridFrom_def, hs]; simp only [hpos, if_false, Int.toNat_natCast]
  obtain ⟨_, h1, hlen, hnn, hl1, hnd⟩ := overshoot_grid_still_valid na f gs limit hlim rows n0 _ _ h hb hg
  exact ⟨_, _, hg, h1, hlen, hnd hu, hnn, hl1⟩

/-- `Grid.select` (hence `fitLoop`) answers `none` in exactly two situations: no record at all (source: `min([])`
    raises ValueError) or a record with an EMPTY gamma vector (source: pandas `max()` of an empty column is NaN; not
    modelled).  In every other case `select_spec` applies: there is no default index. -/
theorem select_eq_none_iff (cw : Rat) (recs : List (Rat × List Rat)) :
    select cw recs = none ↔ recs = [] ∨ ∃ r ∈ recs, r.2 = [] := by
  unfold select
  cases hA : allSomeR (recs.map (fun r => tradeoff cw r.1 r.2)) with
  | none =>
    simp only [Option.bind_none, true_iff]
    right
    by_contra hc
    have hs : (allSomeR (recs.map (fun r => tradeoff cw r.1 r.2))).isSome = true :=
      (allSomeR_isSome_iff _).mpr (by
        intro x hx
        obtain ⟨r, hr, rfl⟩ := List.mem_map.mp hx
        cases hg : r.2 with
        | nil => exact absurd ⟨r, hr, hg⟩ hc
        | cons g gs => rw [Grid.tradeoff_cons]; rfl)
    rw [hA] at hs; simp at hs
  | some l =>
    simp only [Option.bind_some]
    have hlen := allSomeR_length _ _ hA
    have hall := allSomeR_spec _ _ hA
    constructor
    · intro hn
      left
      cases l with
      | nil => exact List.eq_nil_of_length_eq_zero (by simpa using hlen.symm)
      | cons x xs => simp [argminFirst] at hn
    · rintro (rfl | ⟨r, hr, hg⟩)
      · simp [allSomeR] at hA; subst hA; rfl
      · exfalso
        have : tradeoff cw r.1 r.2 ∈ l.map some := by
          rw [← hall]; exact List.mem_map.mpr ⟨r, hr, rfl⟩
        rw [hg] at this; simp [tradeoff] at this

/-- `best_response_argmin` with the affine form of `F` required ONLY where the reduction identity provides it: on 0/1
    labelings with one label per row. -/
theorem best_response_argmin_hard (w : List Rat) (K c : Rat) (hc : 0 < c) (F : List Nat → Rat)
    (hF : ∀ h, w.length = h.length → (∀ x ∈ h, x = 0 ∨ x = 1) → F h = K - c * dot w (toRat h))
    (h h' : List Nat) (hl : w.length = h.length) (hl' : w.length = h'.length)
    (hb : ∀ x ∈ h, x = 0 ∨ x = 1) (hb' : ∀ x ∈ h', x = 0 ∨ x = 1) :
    weighted01 (relabel w) h ≤ weighted01 (relabel w) h' ↔ F h ≤ F h' := by
  rw [best_response w h hl hb, best_response w h' hl' hb', hF h hl hb, hF h' hl' hb']
  constructor
  · intro hle
    have : dot w (toRat h') ≤ dot w (toRat h) := by linarith
    nlinarith
  · intro hle
    have : c * dot w (toRat h') ≤ c * dot w (toRat h) := by linarith
    have := le_of_mul_le_mul_left this hc
    linarith

/-- `fit_predictor_minimises_lagrangian` with the same guarded hypothesis (this is the form the real
    `error + λ·γ` satisfies: `C09.fit_predictor_minimises_real_lagrangian` in C09X.lean). -/
theorem fit_predictor_minimises_lagrangian_hard (learner : List (Nat × Rat) → List Nat) (H : List Nat → Prop)
    (w : List Rat) (K c : Rat) (hc : 0 < c) (F : List Nat → Rat)
    (hF : ∀ h, w.length = h.length → (∀ x ∈ h, x = 0 ∨ x = 1) → F h = K - c * dot w (toRat h))
    (hex : ∀ h', H h' → weighted01 (relabel w) (learner (relabel w)) ≤ weighted01 (relabel w) h')
    (hshape : (learner (relabel w)).length = w.length ∧ ∀ x ∈ learner (relabel w), x = 0 ∨ x = 1)
    (hH : ∀ h', H h' → w.length = h'.length ∧ ∀ x ∈ h', x = 0 ∨ x = 1) :
    ∀ h', H h' → F (trainAt learner (relabel w)) ≤ F h' := by
  intro h' hh'
  obtain ⟨hl, hb⟩ := trainAt_shape learner w hshape
  obtain ⟨hl', hb'⟩ := hH h' hh'
  exact (best_response_argmin_hard w K c hc F hF _ h' hl.symm hl' hb hb').mp
    (trainAt_minimises learner H w hex h' hh')

/-- Why the guard matters: the plain 0/1 error of a one-row data set with label 1 (`F h = 0` iff `h = [1]`) is NOT
    of the form `K − c·Σ wᵢhᵢ` on all lists of naturals, so the unguarded hypothesis `hF` of `best_response_argmin` /
    `fit_predictor_minimises_lagrangian` cannot be met by it. -/
theorem affine_everywhere_excludes_zero_one_error :
    ¬ ∃ (K c : Rat) (w : List Rat), ∀ h : List Nat,
        (if h = [1] then (0 : Rat) else 1) = K - c * dot w (toRat h) := by
  rintro ⟨K, c, w, hF⟩
  have h0 := hF [0]; have h1 := hF [1]; have h2 := hF [2]
  cases w with
  | nil => simp [toRat] at h0 h1; linarith
  | cons a w => simp [toRat] at h0 h1 h2; linarith

/-- a concrete "exact cost-sensitive learner": predict the relabelled target.  It meets the hypothesis `hex` of
    `fit_spec` / `fit_predictor_minimises_lagrangian(_hard)` for EVERY weight vector and every class. -/
def xLearner : List (Nat × Rat) → List Nat := fun d => d.map (·.1)

theorem xLearner_exact (w : List Rat) (h' : List Nat) :
    weighted01 (relabel w) (xLearner (relabel w)) ≤ weighted01 (relabel w) h' := by
  rw [xLearner, weighted01_self]; exact weighted01_nonneg _ _ (relabel_weights_nonneg w)

theorem xLearner_shape (w : List Rat) :
    (xLearner (relabel w)).length = w.length ∧ ∀ x ∈ xLearner (relabel w), x = 0 ∨ x = 1 := by
  refine ⟨by simp [xLearner, relabel_length], ?_⟩
  intro x hx
  obtain ⟨p, hp, rfl⟩ := List.mem_map.mp hx
  exact relabel_labels_binary w p hp

/-- WHERE FINDING F12 SITS IN THE MODEL (totalisation note): when every combined signed weight is exactly 0 (constraint
    weights cancel the objective weights on all rows) the relabelled data has the single label 0 and all sample weights
    0, the lifted dummy rule fires, and the model trains the constant-0 predictor.  The source takes the same branch but
    sklearn's `DummyClassifier.fit` rejects an all-zero `sample_weight` with ValueError (replayed:
    corpus/C09/f12-all-signed-weights-zero.json) — an error the model does not have; `fit_spec` and the best-response
    theorems describe the model's answer there, not an answer of the source. -/
theorem all_zero_weights_take_dummy_branch (learner : List (Nat × Rat) → List Nat) (w : List Rat) (hne : w ≠ [])
    (hz : ∀ x ∈ w, x = 0) :
    GridSrc.useDummy (nUnique (relabel w) : Nat) = true ∧
    trainAt learner (relabel w) = List.replicate w.length 0 ∧ ∀ p ∈ relabel w, p.2 = 0 := by
  have hl := labels_all_zero w hz
  obtain ⟨n, hn⟩ : ∃ n, w.length = n + 1 := by
    cases w with
    | nil => exact absurd rfl hne
    | cons a l => exact ⟨l.length, rfl⟩
  have hu : nUnique (relabel w) = 1 := by
    unfold nUnique; rw [hl, hn, eraseDups_replicate_succ]; rfl
  have hd : GridSrc.useDummy (nUnique (relabel w) : Nat) = true := by rw [hu]; decide
  refine ⟨hd, ?_, ?_⟩
  · unfold trainAt
    rw [if_pos hd, hl, hn]
    simp [List.replicate_succ, relabel_length, hn]
  · intro p hp
    rw [relabel_def] at hp
    obtain ⟨x, hx, rfl⟩ := List.mem_map.mp hp
    simp [hz x hx]

/-! ### lifted definitions that no model function consumes: tied by a theorem each (review R3) -/

/-- `if n_units < 0: n_units = 0` (lifted `GridSrc.estClip`): the start of the search is a natural number and the
    clip changes nothing on non-negative estimates — this is what lets `searchFrom` / `gridFrom` take `n0 : Nat`. -/
theorem estimate_clip_spec (n : Int) :
    0 ≤ GridSrc.estClip n ∧ (0 ≤ n → GridSrc.estClip n = n) ∧ (n < 0 → GridSrc.estClip n = 0) := by
  unfold GridSrc.estClip
  by_cases h : n < 0 <;> simp [h] <;> omega

/-- `grid_offset=None` (lifted `GridSrc.defaultOffset`, a Series of zeros over the constraint index) leaves every
    multiplier vector unchanged: for the default call `lambda_vecs_` ARE the vectors clause (a) talks about. -/
theorem default_offset_identity (g : List (List Rat)) (k : Nat) (hl : ∀ lam ∈ g, lam.length = k) :
    addOffset (List.replicate k GridSrc.defaultOffset) g = g := by
  unfold addOffset
  conv_rhs => rw [← List.map_id g]
  apply List.map_congr_left
  intro lam hlam
  rw [← hl lam hlam]
  exact zipWith_withOffset_default lam

/-- the attribute `self.objective_weight` (lifted `GridSrc.objectiveWeight`, `1.0 - constraint_weight`) is the weight
    the lifted `loss_fct` puts on the objective, in either spelling of the source. -/
theorem loss_objective_weight (cw obj g : Rat) :
    GridSrc.loss cw obj g = GridSrc.objectiveWeight cw * obj + cw * g := by
  simp [GridSrc.loss, GridSrc.objectiveWeight]

/-! Non-vacuity: concrete inputs evaluated by the kernel. -/
example : lattice [true, false] false 1 = [[-1, 0], [0, 0], [0, 1], [1, 0]] := by decide +kernel
example : lattice [false, false, false] true 2 =
    [[0, 0, 2], [0, 1, 1], [0, 2, 0], [1, 0, 1], [1, 1, 0], [2, 0, 0]] := by decide +kernel
example : lattice [true, true] true 1 = [[-1, 0], [0, -1], [0, 1], [1, 0]] := by decide +kernel
example : nUnits [true, true] false 7 = some 2 := by decide +kernel
example : 1 ≤ trueDim [false, false] true := by decide
/-- DemographicParity, 3 groups (a, b | c last): a unit basis; 4 distinct vectors of L1 norm ≤ 2 -/
def dpRows : List (List Rat × List Rat) :=
  [([1, 0], [0, 0]), ([0, 1], [0, 0]), ([0, 0], [0, 0]),
   ([0, 0], [1, 0]), ([0, 0], [0, 1]), ([0, 0], [0, 0])]
example : unitBasis [true, true] dpRows = true ∧ basisOK 2 dpRows = true := by decide +kernel
example : grid [true, true] false 4 2 dpRows = .ok (1,
    [[0, 0, 0, 2, 0, 0], [0, 0, 0, 0, 2, 0], [0, 0, 0, 0, 0, 0], [0, 2, 0, 0, 0, 0]]) := by decide +kernel
example : argminFirst [3, 1, 2, 1] = some 1 := by decide +kernel
example : tradeoff (1/2) (1/4) [-1/8, 1/8] = some (3/16) := by decide +kernel
example : weighted01 (relabel [2, -1, 0]) [0, 1, 1] = 3 := by decide +kernel
example : srcLattice [true, false] false 1 = [[-1, 0], [0, 0], [0, 1], [1, 0]] := by decide +kernel
example : GridSrc.noOvershoot 7 2 2 0 = true ∧ GridSrc.noOvershoot 9 0 2 2 = true ∧
    GridSrc.noOvershoot 8 0 2 2 = false := by decide +kernel
example : searchFrom [true, true] false 7 9 0 = some 2 ∧ searchFrom [true, true] false 7 9 4 = some 4 := by
  decide +kernel
example : runningArgmin [3, 1, 2, 1] = some 1 := by decide +kernel
example : trainAt (fun _ => [1, 0, 1]) (relabel [-1, -2, 0]) = [0, 0, 0] ∧
    trainAt (fun _ => [1, 0, 1]) (relabel [-1, 2, 0]) = [1, 0, 1] := by decide +kernel
example : select (1/2) [(1/4, [-1/8, 1/8]), (0, [1/2]), (1/8, [1/8, 0])] = some 2 := by decide +kernel
example : (lattice [true, true] false 1).take 2 = [[-1, 0], [0, -1]] := by decide +kernel

/-! Joint non-vacuity (review R3): all hypotheses of a theorem at once, on the interesting branch. -/
/-- `grid_nonneg`, `grid_l1_le_limit`, `grid_distinct`, `grid_offset_distinct`, `zero_lambda_mem_grid_iff`, `grid_length`,
    `grid_mem`: DemographicParity with 3 groups (two free coordinates, both signs), 4 of the 5 points of radius 1 -/
example : grid [true, true] false 4 2 dpRows = .ok (1,
      [[0, 0, 0, 2, 0, 0], [0, 0, 0, 0, 2, 0], [0, 0, 0, 0, 0, 0], [0, 2, 0, 0, 0, 0]]) ∧
    (0 : Rat) < 2 ∧ unitBasis [true, true] dpRows = true ∧ basisOK [true, true].length dpRows = true ∧
    ([1/4, 0, 0, 1/2, 0, 0] : List Rat).length = dpRows.length := by
  refine ⟨by decide +kernel, by norm_num, by decide +kernel, by decide +kernel, by decide +kernel⟩
/-- `grid_clause_from_any_start`, `grid_exists`, `search_from_any_start`, `overshoot_grid_still_valid`,
    `estimate_harmless`: every hypothesis holds for that moment; started at the exact estimate 0 the loop stops at the
    least radius 1, started at an overshooting 3 it stops at 3 and still returns 4 vectors -/
example : 1 ≤ trueDim [true, true] false ∧ 2 ≤ 4 ∧ (0 : Rat) < 2 ∧ basisOK [true, true].length dpRows = true ∧
    unitBasis [true, true] dpRows = true ∧
    GridSrc.noOvershoot 4 (negCount [true, true]) (trueDim [true, true] false) 0 = true ∧
    GridSrc.noOvershoot 4 (negCount [true, true]) (trueDim [true, true] false) 3 = false ∧
    (gridFrom [true, true] false 4 2 dpRows 0).toOption.map (fun p => (p.1, p.2.length)) = some (1, 4) ∧
    (gridFrom [true, true] false 4 2 dpRows 3).toOption.map (fun p => (p.1, p.2.length)) = some (3, 4) := by
  refine ⟨by decide, by decide, by norm_num, by decide +kernel, by decide +kernel, by decide +kernel,
    by decide +kernel, by decide +kernel, by decide +kernel⟩
/-- BoundedGroupLoss with 3 groups (3 non-negative coordinates, L1 norm forced): hypotheses of
    `forced_grid_l1_eq_limit` / `forced_grid_excludes_zero`; 6 vectors, each of L1 norm exactly 3 -/
def bglRows : List (List Rat × List Rat) :=
  [([1, 0, 0], [0, 0, 0]), ([0, 1, 0], [0, 0, 0]), ([0, 0, 1], [0, 0, 0])]
example : ([false, false, false] : List Bool) ≠ [] ∧ (0 : Rat) < 3 ∧ unitBasis [false, false, false] bglRows = true ∧
    basisOK [false, false, false].length bglRows = true ∧
    (grid [false, false, false] true 6 3 bglRows).toOption.map (fun p => (p.1, p.2.map List.sum)) =
      some (2, [3, 3, 3, 3, 3, 3]) := by
  refine ⟨by decide, by norm_num, by decide +kernel, by decide +kernel, by decide +kernel⟩
/-- error branch: grid_size 1 -/
example : grid [true, true] false 1 2 dpRows = .error .zeroDiv := (grid_size_le_one_raises _ _ 1 _ _ (by decide)).1
/-- `select_spec` / `argminFirst_spec` with a TIE (indices 1 and 3 have the same loss: the first is returned), and
    the two `none` situations of `select_eq_none_iff` -/
example : select (1/2) [(1/2, [0, 1/4]), (1/4, [1/4]), (1/2, [1/2]), (1/4, [1/4, 0])] = some 1 ∧
    select (1/2) [] = none ∧ select (1/2) [(1/4, [])] = none := by decide +kernel
/-- `fit_spec`: a real run of the loop (two grid points, the exact learner `xLearner`; the second point takes the
    DummyClassifier branch: all combined weights ≤ 0 … the relabelled data has the single label 0) -/
example : (fitLoop false (fun lam => lam) [0, 0, 0, 0] xLearner
      (fun p => ((p.map (fun x => if x = 1 then (1 : Rat) / 4 else 0)).sum)) (fun p => [(p.sum : Rat) / 4, -(p.sum : Rat) / 4])
      (1/2) [[1, 1, -1, -1], [-1, -1, -1, -1/2]]).map (fun o => (o.preds, o.objectives, o.gammas, o.best)) =
    some ([[1, 1, 0, 0], [0, 0, 0, 0]], [1/2, 0], [[1/2, -1/2], [0, 0]], 1) := by decide +kernel
/-- `predict_delegates`: in range -/
example : predictWith (fun (p : List Nat) => p.sum) [[1, 1, 0, 0], [0, 0, 0, 1]] 1 = some 1 := by decide +kernel
/-- `all_zero_weights_take_dummy_branch`: the F12 shape (constraint weights cancel the objective weights on every row) -/
example : combineWeights false [1, -1, 1, -1] [-1, 1, -1, 1] = [0, 0, 0, 0] ∧
    trainAt xLearner (relabel [0, 0, 0, 0]) = [0, 0, 0, 0] ∧ ([0, 0, 0, 0] : List Rat) ≠ [] := by decide +kernel

/-! ### the regression branch and the constructor check (lifted) -/

/-- `is_classification_reduction` is exactly "the constraints object is a `ClassificationMoment`" (lifted) -/
theorem src_isClassification (b : Bool) : GridSrc.isClassification b = b := by cases b <;> rfl

/-- the lifted `else:` branch (`y_reduction = self.constraints._y_as_series`): for a moment that is not a
    `ClassificationMoment` (BoundedGroupLoss) the estimator is fitted on the ORIGINAL labels with the signed weights,
    row by row — nothing is relabelled or reweighted -/
theorem src_regression_keeps_data (y w : List Rat) : fitData false y w = y.zip w := by
  simp only [fitData, src_isClassification, relabelReg, GridSrc.regressionY, GridSrc.regressionW, Bool.false_eq_true, if_false]
  induction y generalizing w with
  | nil => simp
  | cons a as ih => cases w with
    | nil => simp
    | cons b bs => simp [ih]

/-- … while for a `ClassificationMoment` it is the relabelled / reweighted data of `relabel` -/
theorem src_classification_fitData (y w : List Rat) :
    fitData true y w = (relabel w).map (fun p => (((p.1 : Nat) : Rat), p.2)) := by
  simp [fitData, src_isClassification]

/-- why the check may replay the regression branch through the classification ops: on a 0/1 label `y` with a POSITIVE
    weight `w` (BoundedGroupLoss weights are `lambda_g / n ≥ 0`; a zero weight row costs nothing under either label) the
    relabelling of the signed weight `±w` gives back exactly `(y, w)`, the regression branch's data -/
theorem src_regression_emulation (y : Nat) (hy : y = 0 ∨ y = 1) (w : Rat) (hw : 0 < w) :
    ((GridSrc.relabelY (if y = 1 then w else -w)).toNat, GridSrc.relabelW (if y = 1 then w else -w)) =
      (y, GridSrc.regressionW w) := by
  rcases hy with rfl | rfl
  · have h1 : ¬ (0 : Rat) < -w := by linarith
    have h2 : -w < 0 := by linarith
    simp [GridSrc.relabelY, GridSrc.relabelW, GridSrc.regressionW, GridSrc.ratAbs, h1, h2]
  · have h2 : ¬ w < 0 := by linarith
    simp [GridSrc.relabelY, GridSrc.relabelW, GridSrc.regressionW, GridSrc.ratAbs, hw, h2]

/-- the lifted constructor check (`Generated/ValidationTables.gridSearchCtor`, the same definition C20's
    `gridSearch_ok_iff` is about): a GridSearch object that was constructed has `0 ≤ constraint_weight ≤ 1` — the
    quantifier of this property — hence both coefficients of the lifted trade-off loss are non-negative and sum to 1 -/
theorem src_ctor_constraint_weight (isMoment ruleOk : Bool) (cw : Rat)
    (h : Generated.ValidationTables.gridSearchCtor isMoment ruleOk cw = true) :
    0 ≤ cw ∧ cw ≤ 1 ∧ 0 ≤ GridSrc.objectiveWeight cw ∧ GridSrc.objectiveWeight cw + cw = 1 ∧
      ∀ obj g, GridSrc.loss cw obj g = GridSrc.objectiveWeight cw * obj + cw * g := by
  unfold Generated.ValidationTables.gridSearchCtor at h
  have hc : 0 ≤ cw ∧ cw ≤ 1 := by
    cases isMoment <;> cases ruleOk <;> by_cases h1 : 0 ≤ cw <;> by_cases h2 : cw ≤ 1 <;> simp_all
  refine ⟨hc.1, hc.2, ?_, ?_, ?_⟩
  · simp only [GridSrc.objectiveWeight]; linarith [hc.2]
  · simp only [GridSrc.objectiveWeight]; ring
  · intro obj g; simp only [GridSrc.loss, GridSrc.objectiveWeight]

example : fitData false [1, 0, 1] [1/4, 1/2, 0] = [(1, 1/4), (0, 1/2), (1, 0)] := by decide +kernel
example : fitData true [1, 0, 1] [1/4, -1/2, 0] = [(1, 1/4), (0, 1/2), (0, 0)] := by decide +kernel
example : Generated.ValidationTables.gridSearchCtor true true (1/2) = true ∧
    Generated.ValidationTables.gridSearchCtor true true (3/2) = false := by decide +kernel

end C09
