/-
C09 — GridSearch trains a faithful best response per grid point and picks the argmin.
Property theorems only; helper lemmas live in `Lemmas/Grid.lean`; the model is `Model/Grid.lean`.

Clauses of the property and where they are stated:
  * "exactly grid_size ... multiplier vectors"           grid_exists, grid_length
  * "distinct"                                             grid_distinct  (hypothesis `unitBasis`, evaluated by
                                                           the driver on every case; it FAILS for EqualizedOdds
                                                           data in which a non-last group lacks a label: F6,
                                                           `grid_duplicates_without_unit_basis`)
  * "non-negative", "L1 norm at most grid_limit"           grid_nonneg, grid_l1_le_limit
  * the lattice behind them                                lattice_mem_iff (sound + complete), lattice_l1,
                                                           lattice_nodup, lattice_size_grows, nUnits_least,
                                                           lattice_length_le_cube
  * "trains ... on the data relabelled and reweighted"     best_response, best_response_argmin
  * "selected model minimises (1-cw)*objective+cw*max"     tradeoff_spec, argminFirst_spec
-/
import FairModel.Lemmas.Grid

namespace C09
open Grid

/-- at least one coordinate stays free once the L1 norm is (possibly) forced -/
theorem trueDim_pos_iff (na : List Bool) (f : Bool) :
    1 ≤ trueDim na f ↔ ∃ b bs, na = b :: bs ∧ ¬(bs = [] ∧ f = true) := by
  cases na with
  | nil => cases f <;> simp [trueDim]
  | cons b bs =>
    cases bs with
    | nil => cases f <;> simp [trueDim]
    | cons b' bs' => cases f <;> simp [trueDim]

/-- The integer grid is exactly the set of integer points with one entry per coordinate, non-negative
    where negatives are not allowed, and L1 norm `≤ n` (`= n` when the norm is forced). -/
theorem lattice_mem_iff (na : List Bool) (f : Bool) (n : Nat) (v : List Int) :
    v ∈ lattice na f n ↔ SignOK na v ∧ (if f && !na.isEmpty then l1 v = n else l1 v ≤ n) :=
  mem_lattice na f n v

/-- L1 bound of every lattice point; equality under `force_L1_norm`. -/
theorem lattice_l1 (na : List Bool) (f : Bool) (n : Nat) (v : List Int) (hv : v ∈ lattice na f n) :
    v.length = na.length ∧ l1 v ≤ n ∧ (f = true → na ≠ [] → l1 v = n) := by
  rw [mem_lattice] at hv
  refine ⟨hv.1.length_eq, ?_, ?_⟩
  · have := hv.2; split at this <;> omega
  · intro hf hna
    have := hv.2
    cases na with
    | nil => exact absurd rfl hna
    | cons b bs => simpa [hf] using this

theorem lattice_nodup (na : List Bool) (f : Bool) (n : Nat) : (lattice na f n).Nodup :=
  Grid.lattice_nodup na f n

/-- The lattice grows strictly with the radius (so the `while True` search terminates). -/
theorem lattice_size_grows (na : List Bool) (f : Bool) (n : Nat) (h : 1 ≤ trueDim na f) :
    (lattice na f n).length < (lattice na f (n + 1)).length := by
  obtain ⟨b, bs, rfl, hb⟩ := (trueDim_pos_iff na f).mp h
  exact lattice_length_lt b bs f n hb

/-- The search returns the least radius whose lattice has at least `grid_size` points. -/
theorem nUnits_least (na : List Bool) (f : Bool) (gs : Nat) (h : 1 ≤ trueDim na f) :
    ∃ n, nUnits na f gs = some n ∧ n ≤ gs ∧ gs ≤ (lattice na f n).length ∧
      ∀ k < n, (lattice na f k).length < gs := by
  obtain ⟨b, bs, rfl, hb⟩ := (trueDim_pos_iff na f).mp h
  exact nUnits_spec b bs f gs hb

/-- A lattice of radius `n` has at most `2^k (n+1)^true_dim` points: the float expression
    `(grid_size / 2^k)^(1/true_dim) - 1` the implementation starts from is never above `nUnits`. -/
theorem lattice_length_le_cube (na : List Bool) (f : Bool) (n : Nat) :
    (lattice na f n).length ≤ 2 ^ negCount na * (n + 1) ^ trueDim na f :=
  Grid.lattice_length_le_cube na f n

/-- With at least two grid points requested and a free coordinate the generator succeeds, uses the
    least sufficient radius `n ≥ 1` and returns exactly `grid_size` vectors. -/
theorem grid_exists (na : List Bool) (f : Bool) (gs : Nat) (limit : Rat)
    (rows : List (List Rat × List Rat)) (h : 1 ≤ trueDim na f) (hgs : 2 ≤ gs) :
    ∃ n g, grid na f gs limit rows = .ok (n, g) ∧ 1 ≤ n ∧ nUnits na f gs = some n ∧ g.length = gs := by
  obtain ⟨n, hn, _, hge, _⟩ := nUnits_least na f gs h
  cases n with
  | zero =>
    exfalso
    obtain ⟨b, bs, rfl, _⟩ := (trueDim_pos_iff na f).mp h
    have h0 : (lattice (b :: bs) f 0).length = 1 := by
      have hnd := Grid.lattice_nodup (b :: bs) f 0
      have hall : ∀ v ∈ lattice (b :: bs) f 0, v = List.replicate (b :: bs).length 0 := by
        intro v hv
        have hl := lattice_l1 _ _ _ v hv
        apply List.ext_getElem (by simp [hl.1])
        intro i h1 h2
        have : (v[i]).natAbs ≤ l1 v := by
          unfold l1
          exact List.single_le_sum (by simp) _ (List.mem_map.mpr ⟨v[i], List.getElem_mem h1, rfl⟩)
        simp; omega
      have hne := lattice_ne_nil (b :: bs) f 0
      match hL : lattice (b :: bs) f 0, hnd, hall, hne with
      | [], _, _, hne => exact absurd rfl hne
      | [x], _, _, _ => rfl
      | x :: y :: r, hnd, hall, _ =>
        have := hall x (by simp); have := hall y (by simp)
        simp_all
    omega
  | succ n =>
    refine ⟨n + 1, ((lattice na f (n + 1)).take gs).map
      (fun v => lambdaOf rows (scaleCoefs limit (n + 1) v)), ?_, by omega, hn, ?_⟩
    · simp only [grid_def, hn]
    · simp only [List.length_map, List.length_take]; omega

theorem grid_length (na : List Bool) (f : Bool) (gs : Nat) (limit : Rat)
    (rows : List (List Rat × List Rat)) (n : Nat) (g : List (List Rat))
    (hg : grid na f gs limit rows = .ok (n, g)) :
    g.length = min gs (lattice na f n).length ∧ nUnits na f gs = some n ∧ 1 ≤ n := by
  rw [grid_def] at hg
  split at hg
  · cases hg
  · cases hg
  · next k hk =>
    cases hg
    refine ⟨by simp, hk, by omega⟩

/-- every grid vector is `lambdaOf` of a scaled lattice point -/
theorem grid_mem (na : List Bool) (f : Bool) (gs : Nat) (limit : Rat)
    (rows : List (List Rat × List Rat)) (n : Nat) (g : List (List Rat))
    (hg : grid na f gs limit rows = .ok (n, g)) (lam : List Rat) (hl : lam ∈ g) :
    1 ≤ n ∧ ∃ v ∈ lattice na f n, lam = lambdaOf rows (scaleCoefs limit n v) := by
  rw [grid_def] at hg
  split at hg
  · cases hg
  · cases hg
  · next k hk =>
    cases hg
    obtain ⟨v, hv, rfl⟩ := List.mem_map.mp hl
    exact ⟨by omega, v, List.mem_of_mem_take hv, rfl⟩

/-- Non-negativity of every multiplier (bases with non-negative entries). -/
theorem grid_nonneg (na : List Bool) (f : Bool) (gs : Nat) (limit : Rat)
    (rows : List (List Rat × List Rat)) (n : Nat) (g : List (List Rat))
    (hb : basisOK na.length rows = true)
    (hg : grid na f gs limit rows = .ok (n, g)) : ∀ lam ∈ g, ∀ x ∈ lam, 0 ≤ x := by
  intro lam hl
  obtain ⟨_, v, _, rfl⟩ := grid_mem na f gs limit rows n g hg lam hl
  exact lambdaOf_nonneg rows _ (fun r hr => ⟨((basisOK_spec hb).1 r hr).2.2.1, ((basisOK_spec hb).1 r hr).2.2.2⟩)

/-- L1 norm of every multiplier vector is at most `grid_limit`. -/
theorem grid_l1_le_limit (na : List Bool) (f : Bool) (gs : Nat) (limit : Rat) (hlim : 0 ≤ limit)
    (rows : List (List Rat × List Rat)) (n : Nat) (g : List (List Rat))
    (hb : basisOK na.length rows = true)
    (hg : grid na f gs limit rows = .ok (n, g)) :
    ∀ lam ∈ g, (lam.map (fun x => |x|)).sum ≤ limit := by
  intro lam hl
  have hnn := grid_nonneg na f gs limit rows n g hb hg lam hl
  obtain ⟨hn, v, hv, rfl⟩ := grid_mem na f gs limit rows n g hg lam hl
  have habs : (lambdaOf rows (scaleCoefs limit n v)).map (fun x => |x|) = lambdaOf rows (scaleCoefs limit n v) := by
    conv_rhs => rw [← List.map_id (lambdaOf rows (scaleCoefs limit n v))]
    apply List.map_congr_left
    intro x hx; simp [abs_of_nonneg (hnn x hx)]
  rw [habs]
  have hlat := lattice_l1 na f n v hv
  have hnpos : (0 : Rat) < n := by exact_mod_cast hn
  have hs : 0 ≤ limit / (n : Rat) := div_nonneg hlim (le_of_lt hnpos)
  have h1 := lambdaOf_sum_le hb (scaleCoefs limit n v) (by simp [scaleCoefs_def, hlat.1])
  rw [scale_parts_sum (limit / n) hs n limit rfl v] at h1
  have h2 : (l1 v : Rat) ≤ n := by exact_mod_cast hlat.2.1
  calc (lambdaOf rows (scaleCoefs limit n v)).sum ≤ (l1 v : Rat) * (limit / n) := h1
    _ ≤ (n : Rat) * (limit / n) := mul_le_mul_of_nonneg_right h2 hs
    _ = limit := by field_simp

/-- Distinctness: when every basis column is a distinct unit vector (`unitBasis`, evaluated by the
    driver on every generated case) the `grid_size` multiplier vectors are pairwise distinct. -/
theorem grid_distinct (na : List Bool) (f : Bool) (gs : Nat) (limit : Rat) (hlim : 0 < limit)
    (rows : List (List Rat × List Rat)) (n : Nat) (g : List (List Rat))
    (hu : unitBasis na rows = true)
    (hg : grid na f gs limit rows = .ok (n, g)) : g.Nodup := by
  rw [grid_def] at hg
  split at hg
  · cases hg
  · cases hg
  · next k hk =>
    cases hg
    have hs : (0 : Rat) < limit / ((k + 1 : Nat) : Rat) := div_pos hlim (by exact_mod_cast Nat.succ_pos k)
    refine List.Nodup.map_on ?_ ((List.take_sublist _ _).nodup (Grid.lattice_nodup na f (k + 1)))
    intro v hv v' hv' heq
    have h1 := (mem_lattice na f (k + 1) v).mp (List.mem_of_mem_take hv)
    have h2 := (mem_lattice na f (k + 1) v').mp (List.mem_of_mem_take hv')
    exact lambdaOf_inj hu limit (k + 1) hs v v' h1.1 h2.1 heq

/-! F6 (pre-existing, KNOWN FINDING): the hypothesis of `grid_distinct` is not met by every data set.
    EqualizedOdds on data where group `a` (not the last-seen group) has no `label=1` row: basis column
    for `(label=1, a)` is all zero.  Model witness, 2 groups (a, b), rows of the index in order
    (+,l0,a) (+,l0,b) (+,l1,b) (-,l0,a) (-,l0,b) (-,l1,b); coordinates 0:(l0,a) 1:(l1,a). -/
def f6Rows : List (List Rat × List Rat) :=
  [([1, 0], [0, 0]), ([0, 0], [0, 0]), ([0, 0], [0, 0]),
   ([0, 0], [1, 0]), ([0, 0], [0, 0]), ([0, 0], [0, 0])]

theorem grid_duplicates_without_unit_basis :
    unitBasis [true, true] f6Rows = false ∧ basisOK 2 f6Rows = true ∧
    ∃ n g, grid [true, true] false 5 2 f6Rows = .ok (n, g) ∧ g.length = 5 ∧ ¬ g.Nodup := by
  refine ⟨by decide +kernel, by decide +kernel, 1, _, rfl, by decide +kernel, by decide +kernel⟩

/-- `losses.index(min(losses))`: the returned index is in range, attains the minimum, and is the
    FIRST index doing so. -/
theorem argminFirst_spec (l : List Rat) (i : Nat) (h : argminFirst l = some i) :
    ∃ hi : i < l.length, (∀ y ∈ l, l[i] ≤ y) ∧ ∀ (j : Nat) (hj : j < i), l[i] < l[j]'(by omega) := by
  cases l with
  | nil => simp [argminFirst] at h
  | cons x xs =>
    simp only [argminFirst_cons, Option.some.injEq] at h
    have hmem := minL_mem x xs
    have hi : i < (x :: xs).length := by rw [← h]; exact List.idxOf_lt_length_iff.mpr hmem
    have hval : (x :: xs)[i] = minL x xs := by
      subst h; exact List.getElem_idxOf _
    refine ⟨hi, ?_, ?_⟩
    · intro y hy
      rw [hval]
      rcases List.mem_cons.mp hy with rfl | hy
      · exact minL_le_init _ _
      · exact minL_le_mem x xs y hy
    · intro j hj
      rw [hval]
      have hjl : j < (x :: xs).length := by omega
      have hne := ne_of_lt_idxOf (x :: xs) (minL x xs) j (by rw [h]; exact hj) hjl
      have hle : minL x xs ≤ (x :: xs)[j] := by
        rcases List.mem_cons.mp (List.getElem_mem hjl) with h' | h'
        · rw [h']; exact minL_le_init _ _
        · exact minL_le_mem x xs _ h'
      exact lt_of_le_of_ne hle (Ne.symm hne)

theorem argminFirst_isSome (l : List Rat) (h : l ≠ []) : ∃ i, argminFirst l = some i := by
  cases l with
  | nil => exact absurd rfl h
  | cons x xs => exact ⟨_, rfl⟩

/-- the largest entry of a non-empty gamma vector -/
theorem maxL_spec : ∀ (x : Rat) (xs : List Rat), maxL x xs ∈ x :: xs ∧ ∀ y ∈ x :: xs, y ≤ maxL x xs
  | x, [] => by simp [maxL]
  | x, z :: zs => by
    simp only [maxL]
    split
    · next h =>
      obtain ⟨h1, h2⟩ := maxL_spec z zs
      refine ⟨by simp at h1 ⊢; tauto, ?_⟩
      intro y hy
      rcases List.mem_cons.mp hy with rfl | hy
      · exact le_trans (le_of_lt h) (h2 z (by simp))
      · exact h2 y hy
    · next h =>
      obtain ⟨h1, h2⟩ := maxL_spec x zs
      refine ⟨by simp at h1 ⊢; tauto, ?_⟩
      intro y hy
      rcases List.mem_cons.mp hy with rfl | hy
      · exact h2 y (by simp)
      · rcases List.mem_cons.mp hy with rfl | hy
        · exact le_trans (not_lt.mp h) (h2 x (by simp))
        · exact h2 y (by simp [hy])

/-- the trade-off loss of one predictor -/
theorem tradeoff_spec (cw obj g : Rat) (gs : List Rat) :
    ∃ m, tradeoff cw obj (g :: gs) = some ((1 - cw) * obj + cw * m) ∧ m ∈ g :: gs ∧ ∀ y ∈ g :: gs, y ≤ m :=
  ⟨maxL g gs, tradeoff_cons cw obj g gs, (maxL_spec g gs).1, (maxL_spec g gs).2⟩

/-- Best response, part 1: the weighted 0/1 error of a labeling `h` on the data relabelled
    (`1[w>0]`) and reweighted (`|w|`) by GridSearch equals `Σ max(w_i,0) − Σ w_i h_i`. -/
theorem best_response (w : List Rat) (h : List Nat) (hl : w.length = h.length)
    (hb : ∀ x ∈ h, x = 0 ∨ x = 1) :
    weighted01 (relabel w) h = (w.map posPart).sum - dot w (toRat h) :=
  weighted01_relabel w h hl hb

/-- Best response, part 2: for ANY objective of the form `F h = K − c · Σ w_i h_i` with `c > 0` (the
    reduction identity of C07 gives `error + λ·γ` this form with `c = 1/n`, `w = signed weights`), a
    labeling has smaller weighted 0/1 error on the relabelled data iff it has smaller `F`; hence a
    learner that minimises the weighted 0/1 error over a class minimises `F` over that class. -/
theorem best_response_argmin (w : List Rat) (K c : Rat) (hc : 0 < c) (F : List Nat → Rat)
    (hF : ∀ h, F h = K - c * dot w (toRat h))
    (h h' : List Nat) (hl : w.length = h.length) (hl' : w.length = h'.length)
    (hb : ∀ x ∈ h, x = 0 ∨ x = 1) (hb' : ∀ x ∈ h', x = 0 ∨ x = 1) :
    weighted01 (relabel w) h ≤ weighted01 (relabel w) h' ↔ F h ≤ F h' := by
  rw [best_response w h hl hb, best_response w h' hl' hb', hF h, hF h']
  constructor
  · intro hle
    have : dot w (toRat h') ≤ dot w (toRat h) := by linarith
    nlinarith
  · intro hle
    have : c * dot w (toRat h') ≤ c * dot w (toRat h) := by linarith
    have := le_of_mul_le_mul_left this hc
    linarith

/-! Non-vacuity: concrete inputs evaluated by the kernel. -/
example : lattice [true, false] false 1 = [[-1, 0], [0, 0], [0, 1], [1, 0]] := by decide +kernel
example : lattice [false, false, false] true 2 =
    [[0, 0, 2], [0, 1, 1], [0, 2, 0], [1, 0, 1], [1, 1, 0], [2, 0, 0]] := by decide +kernel
example : lattice [true, true] true 1 = [[-1, 0], [0, -1], [0, 1], [1, 0]] := by decide +kernel
example : nUnits [true, true] false 7 = some 2 := by decide +kernel
example : 1 ≤ trueDim [false, false] true := by decide
/-- DemographicParity, 3 groups (a, b | c last): a unit basis; 4 distinct vectors of L1 norm ≤ 2 -/
def dpRows : List (List Rat × List Rat) :=
  [([1, 0], [0, 0]), ([0, 1], [0, 0]), ([0, 0], [0, 0]),
   ([0, 0], [1, 0]), ([0, 0], [0, 1]), ([0, 0], [0, 0])]
example : unitBasis [true, true] dpRows = true ∧ basisOK 2 dpRows = true := by decide +kernel
example : grid [true, true] false 4 2 dpRows = .ok (1,
    [[0, 0, 0, 2, 0, 0], [0, 0, 0, 0, 2, 0], [0, 0, 0, 0, 0, 0], [0, 2, 0, 0, 0, 0]]) := by decide +kernel
example : argminFirst [3, 1, 2, 1] = some 1 := by decide +kernel
example : tradeoff (1/2) (1/4) [-1/8, 1/8] = some (3/16) := by decide +kernel
example : weighted01 (relabel [2, -1, 0]) [0, 1, 1] = 3 := by decide +kernel

end C09
