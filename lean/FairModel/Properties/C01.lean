/-
C01 — MetricFrame disaggregation is exact: each cell is the metric on that subgroup.
Property theorems only (helper lemmas: `Lemmas/Frame.lean`, `Lemmas/C01Review.lean`; model: `Model/Frame.lean`).

Everything is stated for an ARBITRARY metric `f : List α → β` (this is the quantifier
"all metric callables ... with or without per-sample parameters": the per-sample parameters are part
of the row payload `α`, so they are sliced with the rows by construction), an arbitrary list of
rows, and arbitrary numbers `ncf`, `nsf` of control / sensitive columns.

CLAUSE → THEOREM TABLE (review R3; "src_" = the same statement for the function text lifted from /repo)

| clause of properties.jsonl C01                                   | theorem(s)                                              | strength |
|------------------------------------------------------------------|---------------------------------------------------------|----------|
| every entry of by_group = the metric on exactly the rows         | `byGroup_eq_table` (whole table, one equation),         | full     |
|   carrying that combination of feature values                    | `src_byGroup_eq_table` (same for the lifted text),      |          |
|                                                                  | `byGroup_cell`, `byGroup_nonempty`, `src_byGroup_cell`, |          |
|                                                                  | `byGroup_partition`, `stratum_partition`                |          |
| … with the per-sample parameters sliced the same way             | generic `f`: by construction (payload); dict of metrics | full     |
|                                                                  | with DIFFERENT params per metric, one shared `all_data`:|          |
|                                                                  | `multi_byGroup_exact`, `multi_overall_exact` (no getD   |          |
|                                                                  | default: `sliceAt`), `multi_metric_own_params`,         |          |
|                                                                  | `multi_column_eq_single`, `single_eq_model`             |          |
| overall = the metric on all rows                                 | `overall_eq`, `src_overall_eq`, `multi_overall_exact`   | full     |
| … on the rows of each control-feature combination                | `overall_eq_table`, `src_overall_eq_table`,             | full     |
|                                                                  | `overall_control_cell/_index`,                          |          |
|                                                                  | `src_overall_control_cell`, `byGroup_stratum_in_overall`|          |
| by_group index is EXACTLY the set of observed values (1 feature) | `byGroup_index_single_eq` (1 feature, as a list),       | full     |
|                                                                  | `byGroup_index_eq_product` (list equality, order incl.),|          |
|   / the Cartesian product of the observed values (several)       | `byGroup_levels_spec` (each factor = sorted distinct    |          |
|                                                                  | values of that column over ALL rows, not per stratum),  |          |
|                                                                  | `byGroup_index` (iff), `_single`, `_nodup`, `_sorted`,  |          |
|                                                                  | `byGroup_index_cross`, `byGroup_index_length`           |          |
| a combination that contains no rows is reported as NaN           | `byGroup_empty` (present in the index WITH value NaN),  | full     |
|   rather than dropped or filled                                  | `byGroup_empty_only_nan` (no other value under that     |          |
|                                                                  | key), `byGroup_nonempty` (NaN placeholder ONLY there),  |          |
|                                                                  | `driver_nan_distinct` (the drivers' NaN is no number)   |          |
| quantifier: any length ≥ 1                                       | no theorem needs `rows ≠ []`; `byGroup_nil`/`overall_nil`| n = 0 is |
|                                                                  | say what the model does at n = 0 (empty by_group,       | outside; |
|                                                                  | overall = f []): real MetricFrame does the same for     | driver   |
|                                                                  | Series/dict features and raises IndexError for a list   | rejects  |
| quantifier: single-member groups, empty intersections, n = 1     | non-vacuity examples at the end of the file             |          |
| feature normalisation (names of the index levels)                | `names_*` (correspondence-level clause: the property    | corr.    |
|                                                                  | text only names `sensitive_levels`/`control_levels` as  | only     |
|                                                                  | observables)                                            |          |
| result types of the accessors                                    | `accessor_types` (not a clause of the property)         | extra    |

TOTALISATION (review R3): `sliceDF` / `ownKwargs` read `column.getD j 0`.  On the rows the constructor builds
(`mkRows`, row numbers `< n`) and with one value per row in every column (`ParamsFull`, `yt.length = n`) the default
is never taken: `multi_byGroup_exact` is stated with `sliceAt` (positions outside the column are dropped, no
default).  With a too short column the model PADS WITH 0 where real MetricFrame raises ValueError
(`short_param_padded_artifact`); the driver op `fm.eval` does not check this (reported; Model files are read-only
for the review) — the harness never sends such a line.
-/
import FairModel.Lemmas.Frame
import FairModel.Lemmas.FrameSrc
import FairModel.Lemmas.FrameMulti
import FairModel.Lemmas.FeatureNames
import FairModel.Lemmas.C01Review

namespace C01
open Frame

variable {α β : Type}

/-- the index of a result table -/
def keys (t : List (Key × β)) : List Key := t.map (·.1)

/-- the observed values of grouping column `j` -/
def Observed (kf : Row α → Key) (rows : List (Row α)) (j : Nat) (a : Level) : Prop :=
  ∃ r ∈ rows, (kf r).getD j "" = a

/-- all index tuples produced by `kf` have length `n` -/
def KeyLen (kf : Row α → Key) (n : Nat) (rows : List (Row α)) : Prop := ∀ r ∈ rows, (kf r).length = n

theorem keyLen_key {ncf nsf : Nat} {rows : List (Row α)} (h : WF ncf nsf rows) :
    KeyLen Row.key (ncf + nsf) rows := by
  intro r hr; simp [Row.key, (h r hr).1, (h r hr).2]

theorem keyLen_ckey {ncf nsf : Nat} {rows : List (Row α)} (h : WF ncf nsf rows) :
    KeyLen Row.ckey ncf rows := by
  intro r hr; simp [Row.ckey, (h r hr).1]

/-! ### (1) every cell is the metric on exactly the rows carrying that tuple, else NaN -/

/-- `_apply_functions` with at least one grouping column: the entry at `k` is `f` evaluated on
    exactly the rows whose tuple is `k` (with their own per-sample parameters), or NaN if there is
    no such row. -/
theorem applyFunctions_cell (nanv : β) (kf : Row α → Key) (n : Nat) (hn : 0 < n) (f : List α → β)
    (rows : List (Row α)) (k : Key) (v : β) (h : (k, v) ∈ applyFunctions nanv kf n f rows) :
    v = if rowsOf kf k rows = [] then nanv else f (slice (rowsOf kf k rows)) := by
  unfold applyFunctions at h
  rw [if_neg (by omega)] at h
  dsimp only at h
  split at h
  · simp only [reindex, List.mem_map] at h
    obtain ⟨k', _, hk⟩ := h
    injection hk with h1 h2
    subst h1
    rw [← h2, lookup_grouped]
    split <;> rfl
  · simp only [grouped, List.mem_map] at h
    obtain ⟨k', hk', hk⟩ := h
    injection hk with h1 h2
    subst h1
    have : ¬ rowsOf kf k' rows = [] := by
      rw [rowsOf_eq_nil_iff]; simpa [mem_uniq] using hk'
    rw [if_neg this, h2]

/-- `MetricFrame.by_group`: every entry equals the metric on exactly the rows carrying that
    combination of (control ++ sensitive) feature values; a combination without rows is NaN. -/
theorem byGroup_cell (nanv : β) (ncf nsf : Nat) (hn : 0 < ncf + nsf) (f : List α → β)
    (rows : List (Row α)) (k : Key) (v : β) (h : (k, v) ∈ byGroup nanv ncf nsf f rows) :
    v = if rows.filter (fun r => r.cf ++ r.sf == k) = [] then nanv
        else f ((rows.filter (fun r => r.cf ++ r.sf == k)).map (·.dat)) :=
  applyFunctions_cell nanv Row.key (ncf + nsf) hn f rows k v h

/-! ### (2) the index: duplicate free, sorted, = observed values / their Cartesian product -/

theorem applyFunctions_keys_nodup (nanv : β) (kf : Row α → Key) (n : Nat) (f : List α → β)
    (rows : List (Row α)) : (keys (applyFunctions nanv kf n f rows)).Nodup := by
  unfold applyFunctions keys
  split
  · simp
  · dsimp only
    split
    · simp only [reindex, List.map_map]
      have : ((fun x : Key × β => x.1) ∘ fun k => (k, ((grouped kf f rows).lookup k).getD nanv)) = id := by
        funext k; rfl
      rw [this, List.map_id]
      apply nodup_product
      intro l hl
      simp only [levels, List.mem_map] at hl
      obtain ⟨j, _, rfl⟩ := hl
      exact nodup_uniq _
    · simp only [grouped, List.map_map]
      have : ((fun x : Key × β => x.1) ∘ fun k => (k, f (slice (rowsOf kf k rows)))) = id := by
        funext k; rfl
      rw [this, List.map_id]
      exact nodup_uniq _

theorem byGroup_index_nodup (nanv : β) (ncf nsf : Nat) (f : List α → β) (rows : List (Row α)) :
    (keys (byGroup nanv ncf nsf f rows)).Nodup :=
  applyFunctions_keys_nodup nanv Row.key _ f rows

/-- the index is exactly the Cartesian product of the observed values of each grouping column
    (for a single column: exactly the observed values) -/
theorem applyFunctions_keys_mem (nanv : β) (kf : Row α → Key) (n : Nat) (hn : 0 < n)
    (f : List α → β) (rows : List (Row α)) (hlen : KeyLen kf n rows) (k : Key) :
    k ∈ keys (applyFunctions nanv kf n f rows) ↔
      k.length = n ∧ ∀ j, j < n → Observed kf rows j (k.getD j "") := by
  have hobs : ∀ j a, a ∈ uniq (col j (rows.map kf)) ↔ Observed kf rows j a := by
    intro j a
    simp only [mem_uniq, col, List.map_map, List.mem_map, Observed, Function.comp]
  unfold applyFunctions keys
  rw [if_neg (by omega)]
  dsimp only
  split
  · -- several columns: product
    simp only [reindex, List.map_map]
    have : ((fun x : Key × β => x.1) ∘ fun k => (k, ((grouped kf f rows).lookup k).getD nanv)) = id := by
      funext k; rfl
    rw [this, List.map_id, mem_product, forall2_iff_getD]
    simp only [levels, List.length_map, List.length_range]
    constructor
    · rintro ⟨h1, h2⟩
      refine ⟨h1, fun j hj => ?_⟩
      have := h2 j hj
      rw [getD_map_range _ n j hj] at this
      exact (hobs j _).mp this
    · rintro ⟨h1, h2⟩
      refine ⟨h1, fun j hj => ?_⟩
      rw [getD_map_range _ n j hj]
      exact (hobs j _).mpr (h2 j hj)
  · -- one column: the observed tuples
    next hgt =>
    have hn1 : n = 1 := by omega
    subst hn1
    simp only [grouped, List.map_map]
    have : ((fun x : Key × β => x.1) ∘ fun k => (k, f (slice (rowsOf kf k rows)))) = id := by
      funext k; rfl
    rw [this, List.map_id, mem_uniq, List.mem_map]
    constructor
    · rintro ⟨r, hr, rfl⟩
      refine ⟨hlen r hr, fun j hj => ⟨r, hr, rfl⟩⟩
    · rintro ⟨h1, h2⟩
      obtain ⟨r, hr, he⟩ := h2 0 (by omega)
      refine ⟨r, hr, ?_⟩
      have hl := hlen r hr
      match hk : kf r, k, hl, h1, he with
      | [a], [b], _, _, he => simp at he; simp [he]

/-- `by_group` index with any number of feature columns: the Cartesian product of the observed
    values of each column, control columns first -/
theorem byGroup_index (nanv : β) (ncf nsf : Nat) (hn : 0 < ncf + nsf) (f : List α → β)
    (rows : List (Row α)) (hwf : WF ncf nsf rows) (k : Key) :
    k ∈ keys (byGroup nanv ncf nsf f rows) ↔
      k.length = ncf + nsf ∧ ∀ j, j < ncf + nsf → ∃ r ∈ rows, (r.cf ++ r.sf).getD j "" = k.getD j "" :=
  applyFunctions_keys_mem nanv Row.key _ hn f rows (keyLen_key hwf) k

/-- one sensitive feature, no control feature: the index is exactly the set of observed values -/
theorem byGroup_index_single (nanv : β) (f : List α → β) (rows : List (Row α)) (hwf : WF 0 1 rows)
    (a : Level) : [a] ∈ keys (byGroup nanv 0 1 f rows) ↔ ∃ r ∈ rows, r.sf = [a] := by
  rw [byGroup_index nanv 0 1 (by omega) f rows hwf]
  constructor
  · rintro ⟨_, h⟩
    obtain ⟨r, hr, he⟩ := h 0 (by omega)
    refine ⟨r, hr, ?_⟩
    have h1 := (hwf r hr).1
    have h2 := (hwf r hr).2
    match hc : r.cf, hs : r.sf, h1, h2 with
    | [], [b], _, _ => simp [hc, hs] at he; simp [he]
  · rintro ⟨r, hr, he⟩
    refine ⟨rfl, fun j hj => ⟨r, hr, ?_⟩⟩
    have h1 := (hwf r hr).1
    have : r.cf = [] := List.eq_nil_of_length_eq_zero h1
    simp [this, he]

/-- the index is strictly increasing (levels by code point, tuples lexicographically) -/
theorem applyFunctions_keys_sorted (nanv : β) (kf : Row α → Key) (n : Nat) (f : List α → β)
    (rows : List (Row α)) : (keys (applyFunctions nanv kf n f rows)).Pairwise (· < ·) := by
  unfold applyFunctions keys
  split
  · simp
  · dsimp only
    split
    · simp only [reindex, List.map_map]
      have : ((fun x : Key × β => x.1) ∘ fun k => (k, ((grouped kf f rows).lookup k).getD nanv)) = id := by
        funext k; rfl
      rw [this, List.map_id]
      apply pairwise_product
      intro l hl
      simp only [levels, List.mem_map] at hl
      obtain ⟨j, _, rfl⟩ := hl
      exact pairwise_uniq level_trans level_tri _
    · simp only [grouped, List.map_map]
      have : ((fun x : Key × β => x.1) ∘ fun k => (k, f (slice (rowsOf kf k rows)))) = id := by
        funext k; rfl
      rw [this, List.map_id]
      exact pairwise_uniq key_trans key_tri _

theorem byGroup_index_sorted (nanv : β) (ncf nsf : Nat) (f : List α → β) (rows : List (Row α)) :
    (keys (byGroup nanv ncf nsf f rows)).Pairwise (· < ·) :=
  applyFunctions_keys_sorted nanv Row.key _ f rows

/-! ### (3) a combination that contains no rows is reported as NaN, not dropped or filled -/

theorem byGroup_empty (nanv : β) (ncf nsf : Nat) (hn : 0 < ncf + nsf) (f : List α → β)
    (rows : List (Row α)) (hwf : WF ncf nsf rows) (k : Key)
    (hlen : k.length = ncf + nsf)
    (hobs : ∀ j, j < ncf + nsf → ∃ r ∈ rows, (r.cf ++ r.sf).getD j "" = k.getD j "")
    (hempty : ∀ r ∈ rows, r.cf ++ r.sf ≠ k) :
    (k, nanv) ∈ byGroup nanv ncf nsf f rows := by
  have hk : k ∈ keys (byGroup nanv ncf nsf f rows) :=
    (byGroup_index nanv ncf nsf hn f rows hwf k).mpr ⟨hlen, hobs⟩
  simp only [keys, List.mem_map] at hk
  obtain ⟨⟨k', v⟩, hmem, rfl⟩ := hk
  have hv := byGroup_cell nanv ncf nsf hn f rows k' v hmem
  have : rows.filter (fun r => r.cf ++ r.sf == k') = [] := by
    rw [List.filter_eq_nil_iff]
    intro r hr; simpa using hempty r hr
  rw [if_pos this] at hv
  rw [hv] at hmem; exact hmem

/-- conversely a NaN *placeholder* only ever stands for an empty combination: if rows exist, the
    entry is the metric value (which may of course itself be NaN if the metric says so) -/
theorem byGroup_nonempty (nanv : β) (ncf nsf : Nat) (hn : 0 < ncf + nsf) (f : List α → β)
    (rows : List (Row α)) (k : Key) (v : β) (h : (k, v) ∈ byGroup nanv ncf nsf f rows)
    (r : Row α) (hr : r ∈ rows) (hk : r.cf ++ r.sf = k) :
    v = f ((rows.filter (fun r => r.cf ++ r.sf == k)).map (·.dat)) := by
  have hv := byGroup_cell nanv ncf nsf hn f rows k v h
  have : ¬ rows.filter (fun r => r.cf ++ r.sf == k) = [] := by
    rw [List.filter_eq_nil_iff]
    intro hall; exact hall r hr (by simpa using hk)
  rwa [if_neg this] at hv

/-! ### (4) overall -/

/-- without control features `overall` is the metric on all rows -/
theorem overall_eq (nanv : β) (f : List α → β) (rows : List (Row α)) :
    overall nanv 0 f rows = [([], f (rows.map (·.dat)))] := rfl

/-- with control features: one entry per control combination, the metric on exactly its rows -/
theorem overall_control_cell (nanv : β) (ncf : Nat) (hn : 0 < ncf) (f : List α → β)
    (rows : List (Row α)) (c : Key) (v : β) (h : (c, v) ∈ overall nanv ncf f rows) :
    v = if rows.filter (fun r => r.cf == c) = [] then nanv
        else f ((rows.filter (fun r => r.cf == c)).map (·.dat)) :=
  applyFunctions_cell nanv Row.ckey ncf hn f rows c v h

theorem overall_control_index (nanv : β) (ncf nsf : Nat) (hn : 0 < ncf) (f : List α → β)
    (rows : List (Row α)) (hwf : WF ncf nsf rows) (c : Key) :
    c ∈ keys (overall nanv ncf f rows) ↔
      c.length = ncf ∧ ∀ j, j < ncf → ∃ r ∈ rows, r.cf.getD j "" = c.getD j "" :=
  applyFunctions_keys_mem nanv Row.ckey _ hn f rows (keyLen_ckey hwf) c

/-- the control part of every `by_group` tuple is an `overall` tuple (same strata on both sides) -/
theorem byGroup_stratum_in_overall (nanv : β) (ncf nsf : Nat) (hc : 0 < ncf) (f : List α → β)
    (rows : List (Row α)) (hwf : WF ncf nsf rows) (k : Key)
    (hk : k ∈ keys (byGroup nanv ncf nsf f rows)) :
    k.take ncf ∈ keys (overall nanv ncf f rows) := by
  rw [byGroup_index nanv ncf nsf (by omega) f rows hwf] at hk
  rw [overall_control_index nanv ncf nsf hc f rows hwf]
  refine ⟨by simp [hk.1], fun j hj => ?_⟩
  obtain ⟨r, hr, he⟩ := hk.2 j (by omega)
  refine ⟨r, hr, ?_⟩
  have h1 := (hwf r hr).1
  have e1 : (r.cf ++ r.sf).getD j "" = r.cf.getD j "" := by
    simp [List.getD_eq_getElem?_getD, List.getElem?_append_left (h1 ▸ hj)]
  have e2 : (k.take ncf).getD j "" = k.getD j "" := by
    simp [List.getD_eq_getElem?_getD, hj]
  rw [e2, ← he, e1]

/-! ### (5) the non-empty cells partition the rows -/

/-- Taking, for every index tuple, the rows it stands for gives back all rows, each exactly once
    (a permutation): no row is lost, duplicated or assigned to two cells. -/
theorem byGroup_partition (nanv : β) (ncf nsf : Nat) (hn : 0 < ncf + nsf) (f : List α → β)
    (rows : List (Row α)) (hwf : WF ncf nsf rows) :
    ((keys (byGroup nanv ncf nsf f rows)).flatMap (fun k => rowsOf Row.key k rows)).Perm rows := by
  apply partition_perm Row.key rows _ (byGroup_index_nodup nanv ncf nsf f rows)
  intro r hr
  rw [byGroup_index nanv ncf nsf hn f rows hwf]
  have := keyLen_key hwf r hr
  exact ⟨this, fun j _ => ⟨r, hr, rfl⟩⟩

/-- the same within the strata: the rows of the cells of one control combination are exactly the
    rows `overall` evaluates for that combination -/
theorem stratum_partition (nanv : β) (ncf nsf : Nat) (hn : 0 < ncf + nsf) (f : List α → β)
    (rows : List (Row α)) (hwf : WF ncf nsf rows) (c : Key) :
    (((keys (byGroup nanv ncf nsf f rows)).filter (fun k => k.take ncf == c)).flatMap
        (fun k => rowsOf Row.key k rows)).Perm (rowsOf Row.ckey c rows) := by
  have hp := byGroup_partition nanv ncf nsf hn f rows hwf
  have := hp.filter (fun r => r.cf == c)
  refine List.Perm.trans (List.Perm.of_eq ?_) this
  rw [List.filter_flatMap, flatMap_filter_ite]
  apply List.flatMap_congr
  intro k _
  by_cases hk : k.take ncf = c
  · simp only [hk, beq_self_eq_true, if_true]
    symm
    rw [List.filter_eq_self]
    intro r hr
    have hr' := mem_rowsOf.mp hr
    have h1 := (hwf r hr'.1).1
    have : r.cf = k.take ncf := by
      rw [← hr'.2]; simp [Row.key, ← h1]
    simp [this, hk]
  · have hk' : (k.take ncf == c) = false := by simpa using hk
    simp only [hk', Bool.false_eq_true, if_false]
    symm
    rw [List.filter_eq_nil_iff]
    intro r hr
    have hr' := mem_rowsOf.mp hr
    have h1 := (hwf r hr'.1).1
    have : r.cf = k.take ncf := by
      rw [← hr'.2]; simp [Row.key, ← h1]
    simp [this, hk]

/-! ### Tie to the source text (`Generated/FrameSrc.lean`)

`harness/lifters/frame.py` translates, on every run, the bodies of `DisaggregatedResult._apply_functions`
and `DisaggregatedResult.create` (which columns are grouped on, in which order: control features first,
then sensitive features; when the result is re-indexed and to what; `overall` per control stratum),
`apply_to_dataframe`, `AnnotatedMetricFunction.__call__` and the loop of
`MetricFrame._construct_annotated_metric_function` into Lean over the pandas primitives of
`Model/FramePrims.lean`.  `src_*_eq_model` identify the translation with `Frame.byGroup` / `overall`
for the column names `MetricFrame.__init__` passes, and the clauses of the property are restated for
the translated functions. -/

section Source
open FramePrims FrameSrc

theorem src_byGroup_eq_model (nanv : β) (ncf nsf : Nat) (f : List α → β) (rows : List (Row α))
    (hwf : WF ncf nsf rows) (hna : NoMissing rows) :
    create_by_group nanv rows f (sfNames nsf) (cfNames ncf) = byGroup nanv ncf nsf f rows :=
  create_by_group_eq_model nanv ncf nsf f rows hwf hna

theorem src_overall_eq_model (nanv : β) (ncf nsf : Nat) (f : List α → β) (rows : List (Row α))
    (hwf : WF ncf nsf rows) (hna : NoMissing rows) :
    create_overall nanv rows f (sfNames nsf) (cfNames ncf) = overall nanv ncf f rows :=
  create_overall_eq_model nanv ncf nsf f rows hwf hna

/-- the call site in `MetricFrame.__init__` (lifted: `DisaggregatedResult.create(data=all_data,
    annotated_functions=annotated_funcs, sensitive_feature_names=self._sf_names, control_feature_names=self._cf_names)`
    with the name lists of the stored feature columns) is the model's `byGroup` / `overall` -/
theorem src_init_byGroup_eq_model (nanv : β) (ncf nsf : Nat) (f : List α → β) (rows : List (Row α))
    (hwf : WF ncf nsf rows) (hna : NoMissing rows) :
    init_by_group nanv rows f nsf ncf = byGroup nanv ncf nsf f rows :=
  init_by_group_eq_model nanv ncf nsf f rows hwf hna

theorem src_init_overall_eq_model (nanv : β) (ncf nsf : Nat) (f : List α → β) (rows : List (Row α))
    (hwf : WF ncf nsf rows) (hna : NoMissing rows) :
    init_overall nanv rows f nsf ncf = overall nanv ncf f rows :=
  init_overall_eq_model nanv ncf nsf f rows hwf hna

/-- the lifted keyword of `data.groupby(grouping_names, ...)`: pandas' default `dropna=True` (a source edit to
    `dropna=False` changes the generated `groupby_dropna` and breaks this theorem) -/
theorem src_groupby_dropna : groupby_dropna = true := by decide

/-- what the lifted flag does: the groupby result is that of the rows WITHOUT a missing key component — a row with a
    missing feature value is in no group of `by_group` (while `np.unique` over the whole column still lists the missing
    level in a multi-feature index: observation of DESIGN section 5) -/
theorem src_groupby_drops_missing (rows : List (Row α)) (names : List Col) (f : List α → β) :
    groupbyApplyNa groupby_dropna rows names f =
      groupbyApply (rows.filter (fun r => !keyHasNa (names.map (colVal r)))) names f := by
  rw [src_groupby_dropna]; exact groupbyApplyNa_true rows names f

/-- … and inside the quantifier (no missing feature value) the flag is irrelevant, whatever its value: every theorem of
    this file about `create_by_group` / `create_overall` carries exactly this hypothesis -/
theorem src_groupby_dropna_irrelevant (dropna : Bool) (ncf nsf : Nat) (rows : List (Row α)) (f : List α → β)
    (hwf : WF ncf nsf rows) (hna : NoMissing rows) :
    groupbyApplyNa dropna rows ((List.range ncf).map Col.cf ++ sfNames nsf) f =
      groupbyApply rows ((List.range ncf).map Col.cf ++ sfNames nsf) f :=
  groupbyApplyNa_noMissing dropna rows _ f
    (fun r hr => keyHasNa_names r (hna r hr) ncf nsf (hwf r hr).1 (hwf r hr).2)

/-- the lifted base frame `pd.DataFrame.from_dict({"y_true": list(y_t), "y_pred": list(y_p)})` is the model's `baseData`
    (a renamed / exchanged key changes the generated text and breaks this theorem) … -/
theorem src_base_data_eq_model (yt yp : List Rat) : init_base_data yt yp = FrameMulti.baseData yt yp := rfl

/-- … and the columns the lifted `positional_argument_names=` reads exist in it, in the order (y_true, y_pred) -/
theorem src_positional_in_base (yt yp : List Rat) :
    positional_argument_names = columns (init_base_data yt yp) := by
  simp [positional_argument_names, columns, init_base_data]

/-- translated `create(...).by_group`: every entry is the metric on exactly the rows of that tuple -/
theorem src_byGroup_cell (nanv : β) (ncf nsf : Nat) (hn : 0 < ncf + nsf) (f : List α → β)
    (rows : List (Row α)) (hwf : WF ncf nsf rows) (hna : NoMissing rows) (k : Key) (v : β)
    (h : (k, v) ∈ create_by_group nanv rows f (sfNames nsf) (cfNames ncf)) :
    v = if rows.filter (fun r => r.cf ++ r.sf == k) = [] then nanv
        else f ((rows.filter (fun r => r.cf ++ r.sf == k)).map (·.dat)) := by
  rw [src_byGroup_eq_model nanv ncf nsf f rows hwf hna] at h
  exact byGroup_cell nanv ncf nsf hn f rows k v h

/-- translated `create(...).by_group`: the index is the Cartesian product of the observed values,
    control columns first -/
theorem src_byGroup_index (nanv : β) (ncf nsf : Nat) (hn : 0 < ncf + nsf) (f : List α → β)
    (rows : List (Row α)) (hwf : WF ncf nsf rows) (hna : NoMissing rows) (k : Key) :
    k ∈ keys (create_by_group nanv rows f (sfNames nsf) (cfNames ncf)) ↔
      k.length = ncf + nsf ∧ ∀ j, j < ncf + nsf → ∃ r ∈ rows, (r.cf ++ r.sf).getD j "" = k.getD j "" := by
  rw [src_byGroup_eq_model nanv ncf nsf f rows hwf hna]
  exact byGroup_index nanv ncf nsf hn f rows hwf k

theorem src_byGroup_index_nodup_sorted (nanv : β) (ncf nsf : Nat) (f : List α → β)
    (rows : List (Row α)) (hwf : WF ncf nsf rows) (hna : NoMissing rows) :
    (keys (create_by_group nanv rows f (sfNames nsf) (cfNames ncf))).Nodup ∧
    (keys (create_by_group nanv rows f (sfNames nsf) (cfNames ncf))).Pairwise (· < ·) := by
  rw [src_byGroup_eq_model nanv ncf nsf f rows hwf hna]
  exact ⟨byGroup_index_nodup nanv ncf nsf f rows, byGroup_index_sorted nanv ncf nsf f rows⟩

/-- translated `create(...).by_group`: an observed-values combination without rows is NaN, not dropped -/
theorem src_byGroup_empty (nanv : β) (ncf nsf : Nat) (hn : 0 < ncf + nsf) (f : List α → β)
    (rows : List (Row α)) (hwf : WF ncf nsf rows) (hna : NoMissing rows) (k : Key) (hlen : k.length = ncf + nsf)
    (hobs : ∀ j, j < ncf + nsf → ∃ r ∈ rows, (r.cf ++ r.sf).getD j "" = k.getD j "")
    (hempty : ∀ r ∈ rows, r.cf ++ r.sf ≠ k) :
    (k, nanv) ∈ create_by_group nanv rows f (sfNames nsf) (cfNames ncf) := by
  rw [src_byGroup_eq_model nanv ncf nsf f rows hwf hna]
  exact byGroup_empty nanv ncf nsf hn f rows hwf k hlen hobs hempty

/-- translated `create(...).overall` without control features: the metric on all rows -/
theorem src_overall_eq (nanv : β) (nsf : Nat) (f : List α → β) (rows : List (Row α)) :
    create_overall nanv rows f (sfNames nsf) (cfNames 0) = [([], f (rows.map (·.dat)))] := rfl

/-- translated `create(...).overall` with control features: per control combination -/
theorem src_overall_control_cell (nanv : β) (ncf nsf : Nat) (hn : 0 < ncf) (f : List α → β)
    (rows : List (Row α)) (hwf : WF ncf nsf rows) (hna : NoMissing rows) (c : Key) (v : β)
    (h : (c, v) ∈ create_overall nanv rows f (sfNames nsf) (cfNames ncf)) :
    v = if rows.filter (fun r => r.cf == c) = [] then nanv
        else f ((rows.filter (fun r => r.cf == c)).map (·.dat)) := by
  rw [src_overall_eq_model nanv ncf nsf f rows hwf hna] at h
  exact overall_control_cell nanv ncf hn f rows c v h

theorem src_byGroup_partition (nanv : β) (ncf nsf : Nat) (hn : 0 < ncf + nsf) (f : List α → β)
    (rows : List (Row α)) (hwf : WF ncf nsf rows) (hna : NoMissing rows) :
    ((keys (create_by_group nanv rows f (sfNames nsf) (cfNames ncf))).flatMap
      (fun k => rowsOf Row.key k rows)).Perm rows := by
  rw [src_byGroup_eq_model nanv ncf nsf f rows hwf hna]
  exact byGroup_partition nanv ncf nsf hn f rows hwf

end Source

/-! ### Multi-metric frames: no cross-talk between the metrics of a dict

`Model/FrameMulti.lean`: `metrics=` a dict of any number of callables, each with its own entry of
`sample_params`; all sample parameters are stored in ONE table `all_data`.  The column of a parameter is
`f"{name}_{param_name}"` made unique by `while col_name in all_data.columns: col_name = col_name + "_"`
(translated from `_construct_annotated_metric_function`, repair 897f58c of finding F19), so the theorems
below need NO hypothesis on the metric or parameter names.  Under the pre-repair rule (no `while` loop) they
are false: `legacy_crosstalk_witness`, `legacy_basecolumn_witness`. -/

section Multi
open FramePrims FrameMulti

variable {γ : Type}

/-- the uniquify loop always ends on a name that is not yet a column of `all_data` -/
theorem column_name_fresh (t : AllData) (c : String) : uniquifyCol t c "_" ∉ columns t :=
  uniquifyCol_fresh t c "_" (by decide)

/-- `ColsOK`, proved for the current source: after constructing ANY dict of metrics the columns of
    `all_data` are pairwise distinct, y_true / y_pred still hold the data, and every metric is paired with
    an annotated function whose keyword columns hold exactly its own parameter values -/
theorem multi_columns_ok (yt yp : List Rat) (ms : List (MetricSpec γ)) :
    List.Forall₂ (RelV (constructAll (baseData yt yp) ms).1) ms (constructAll (baseData yt yp) ms).2 ∧
    getCol (constructAll (baseData yt yp) ms).1 "y_true" = yt ∧
    getCol (constructAll (baseData yt yp) ms).1 "y_pred" = yp :=
  constructAll_rel yt yp ms

/- REVIEW R3 NOTE on the three theorems below (`multi_metric_own_params`, `multi_column_eq_single`, `single_eq_model`):
   they carry no hypothesis on the LENGTHS of y_true / y_pred / the sample-parameter arrays and no hypothesis that the
   row payloads are row numbers `< n`; slices are written `idx.map (fun j => v.getD j 0)`.  For a column shorter than
   the data (real MetricFrame: ValueError) or a payload `>= n` (never built by `mkRows`) both sides of the equations pad
   with 0, so the statements hold there for the wrong reason.  What they do NOT say — that on the inputs MetricFrame
   accepts no default is ever read, and what each cell then is — is `multi_byGroup_exact` / `multi_overall_exact`
   (section Review, stated with the default-free `sliceAt` under `ParamsFull` and the length hypotheses);
   `short_param_padded_artifact` exhibits the padding. -/

/-- Every metric of a dict is called, on every slice, with y_true / y_pred of the slice and EXACTLY
    ITS OWN non-None sample parameters, sliced the same way — whatever the other metrics, their
    parameters and all the names are. -/
theorem multi_metric_own_params (yt yp : List Rat) (ms : List (MetricSpec γ))
    (hnames : (ms.map (·.name)).Nodup) (m : MetricSpec γ) (hm : m ∈ ms) :
    ∃ af, (∀ idx, (FrameSrc.apply_to_dataframe idx
            (fnDict (constructAll (baseData yt yp) ms).1 (constructAll (baseData yt yp) ms).2)).lookup m.name =
          some (metricFn (constructAll (baseData yt yp) ms).1 af idx)) ∧
      ∀ idx, metricFn (constructAll (baseData yt yp) ms).1 af idx =
        m.func [idx.map (fun j => yt.getD j 0), idx.map (fun j => yp.getD j 0)] (ownKwargs m idx) := by
  obtain ⟨hrel, h1, h2⟩ := constructAll_rel yt yp ms
  obtain ⟨af, hr, _, hl⟩ := lookup_fnDict_rel _ ms _ hrel hnames m hm (m.func [] [])
  exact ⟨af, hl, fun idx => metricFn_of_rel _ yt yp m af hr h1 h2 idx⟩

/-- each column of a multi-metric `by_group` equals the single-metric frame of that function with
    exactly its own sample parameters; any number of metrics, features, rows; any names (the dict keys
    are distinct, nothing else is assumed) -/
theorem multi_column_eq_single (nanv : γ) (ncf nsf : Nat) (yt yp : List Rat) (ms : List (MetricSpec γ))
    (rows : List (Row Nat)) (hwf : WF ncf nsf rows) (hna : NoMissing rows) (hnames : (ms.map (·.name)).Nodup)
    (m : MetricSpec γ) (hm : m ∈ ms) :
    FrameMulti.column m.name (byGroupFrame nanv ncf nsf (baseData yt yp) ms rows) =
      (singleByGroup nanv ncf nsf (baseData yt yp) m rows).map (fun p => (p.1, some p.2)) := by
  unfold byGroupFrame singleByGroup FrameMulti.column
  dsimp only
  rw [FrameSrc.init_by_group_eq_model _ _ _ _ _ hwf hna, FrameSrc.init_by_group_eq_model _ _ _ _ _ hwf hna]
  unfold byGroup
  refine (applyFunctions_map (fun row => List.lookup m.name row) _ _ _ _ _).trans ?_
  refine Eq.trans ?_ (applyFunctions_map some _ _ _ _ _).symm
  obtain ⟨hrel, h1, h2⟩ := constructAll_rel yt yp ms
  obtain ⟨af, hr, hnan, hl⟩ := lookup_fnDict_rel _ ms _ hrel hnames m hm nanv
  obtain ⟨hr1, g1, g2⟩ := construct_rel yt yp m
  rw [hnan]
  congr 1
  funext idx
  rw [hl idx, metricFn_of_rel _ yt yp m af hr h1 h2 idx, metricFn_of_rel _ yt yp m _ hr1 g1 g2 idx]

/-- the same for `overall` (per control stratum when control features exist) -/
theorem multi_overall_column_eq_single (nanv : γ) (ncf nsf : Nat) (yt yp : List Rat)
    (ms : List (MetricSpec γ)) (rows : List (Row Nat)) (hwf : WF ncf nsf rows) (hna : NoMissing rows)
    (hnames : (ms.map (·.name)).Nodup) (m : MetricSpec γ) (hm : m ∈ ms) :
    FrameMulti.column m.name (overallFrame nanv ncf nsf (baseData yt yp) ms rows) =
      (singleOverall nanv ncf nsf (baseData yt yp) m rows).map (fun p => (p.1, some p.2)) := by
  unfold overallFrame singleOverall FrameMulti.column
  dsimp only
  rw [FrameSrc.init_overall_eq_model _ _ _ _ _ hwf hna, FrameSrc.init_overall_eq_model _ _ _ _ _ hwf hna]
  unfold overall
  refine (applyFunctions_map (fun row => List.lookup m.name row) _ _ _ _ _).trans ?_
  refine Eq.trans ?_ (applyFunctions_map some _ _ _ _ _).symm
  obtain ⟨hrel, h1, h2⟩ := constructAll_rel yt yp ms
  obtain ⟨af, hr, hnan, hl⟩ := lookup_fnDict_rel _ ms _ hrel hnames m hm nanv
  obtain ⟨hr1, g1, g2⟩ := construct_rel yt yp m
  rw [hnan]
  congr 1
  funext idx
  rw [hl idx, metricFn_of_rel _ yt yp m af hr h1 h2 idx, metricFn_of_rel _ yt yp m _ hr1 g1 g2 idx]

/-- and the single-metric frame is the C01 model frame of "the metric with its own parameters":
    every clause of C01 applies to every column of a multi-metric frame -/
theorem single_eq_model (nanv : γ) (ncf nsf : Nat) (yt yp : List Rat) (m : MetricSpec γ)
    (rows : List (Row Nat)) (hwf : WF ncf nsf rows) (hna : NoMissing rows) :
    singleByGroup nanv ncf nsf (baseData yt yp) m rows =
      byGroup nanv ncf nsf
        (fun idx => m.func [idx.map (fun j => yt.getD j 0), idx.map (fun j => yp.getD j 0)] (ownKwargs m idx))
        rows := by
  unfold singleByGroup
  dsimp only
  rw [FrameSrc.init_by_group_eq_model _ _ _ _ _ hwf hna]
  obtain ⟨hr1, g1, g2⟩ := construct_rel yt yp m
  congr 1
  funext idx
  exact metricFn_of_rel _ yt yp m _ hr1 g1 g2 idx

/-- the public accessors hand out exactly the documented pandas types (table in the docstring of
    `MetricFrame.overall`), for the `_extract_result` / `_populate_results` lifted from the source -/
theorem accessor_types (bare hasControl : Bool) :
    byGroupType bare hasControl = (if bare then .series else .dataFrame) ∧
    overallType bare hasControl =
      (if bare then (if hasControl then .series else .scalar) else (if hasControl then .dataFrame else .series)) := by
  cases bare <;> cases hasControl <;> exact ⟨rfl, rfl⟩

/-- the metric used in the witnesses: the sum of its keyword arrays -/
def sumKw : List (List Rat) → List (String × List Rat) → Rat := fun _ kw => ((kw.map (·.2)).flatten).sum

/-- metrics named "a" and "a_b" with parameters "b_c" and "c": both columns would be called "a_b_c" -/
def xtalk : List (MetricSpec Rat) :=
  [⟨"a", some "a", sumKw, [("b_c", some [1, 2, 4])]⟩, ⟨"a_b", some "a_b", sumKw, [("c", some [10, 20, 40])]⟩]

def xtalk0 : MetricSpec Rat := xtalk.getD 0 ⟨"", none, sumKw, []⟩

/-- COUNTER-WITNESS (finding F19, pre-repair rule `legacyStep` = no uniquify loop): metric "a" receives the
    OTHER metric's parameter on the rows [0, 1] (30 instead of its own 3) … -/
theorem legacy_crosstalk_witness :
    metricFn (legacyConstructAll (baseData [0, 1, 1] [0, 1, 0]) xtalk).1
      ((legacyConstructAll (baseData [0, 1, 1] [0, 1, 0]) xtalk).2.getD 0 ⟨"", sumKw, [], []⟩) [0, 1] = 30
    ∧ sumKw [] (ownKwargs xtalk0 [0, 1]) = 3 := by
  exact ⟨by decide +kernel, by decide +kernel⟩

/-- … while the current (translated) rule gives it its own parameter: the second column is "a_b_c_" -/
theorem repaired_crosstalk_witness :
    metricFn (constructAll (baseData [0, 1, 1] [0, 1, 0]) xtalk).1
      ((constructAll (baseData [0, 1, 1] [0, 1, 0]) xtalk).2.getD 0 ⟨"", sumKw, [], []⟩) [0, 1] = 3
    ∧ columns (constructAll (baseData [0, 1, 1] [0, 1, 0]) xtalk).1 = ["a_b_c_", "a_b_c", "y_true", "y_pred"] := by
  exact ⟨by decide +kernel, by decide +kernel⟩

/-- the fraction-free agreement count of y_true and y_pred -/
def agree : List (List Rat) → List (String × List Rat) → Rat :=
  fun pos _ => (((pos.getD 0 []).zip (pos.getD 1 [])).filter (fun p => p.1 == p.2)).length

/-- a metric named "y" with a parameter named "pred": its column would be "y_pred" -/
def xbase : List (MetricSpec Rat) :=
  [⟨"y", some "y", sumKw, [("pred", some [1, 0, 0])]⟩, ⟨"acc", some "acc", agree, []⟩]

/-- COUNTER-WITNESS (F19, pre-repair rule): the parameter overwrites the `y_pred` column, so the OTHER metric
    of the dict sees the parameter values instead of the predictions (0 agreements instead of 2) … -/
theorem legacy_basecolumn_witness :
    metricFn (legacyConstructAll (baseData [0, 1, 1] [0, 1, 0]) xbase).1
      ((legacyConstructAll (baseData [0, 1, 1] [0, 1, 0]) xbase).2.getD 1 ⟨"", sumKw, [], []⟩) [0, 1, 2] = 0
    ∧ agree [[0, 1, 1], [0, 1, 0]] [] = 2 := by
  exact ⟨by decide +kernel, by decide +kernel⟩

/-- … while the current rule stores the parameter in "y_pred_" and leaves the predictions alone -/
theorem repaired_basecolumn_witness :
    metricFn (constructAll (baseData [0, 1, 1] [0, 1, 0]) xbase).1
      ((constructAll (baseData [0, 1, 1] [0, 1, 0]) xbase).2.getD 1 ⟨"", sumKw, [], []⟩) [0, 1, 2] = 2
    ∧ columns (constructAll (baseData [0, 1, 1] [0, 1, 0]) xbase).1 = ["y_pred_", "y_true", "y_pred"] := by
  exact ⟨by decide +kernel, by decide +kernel⟩

end Multi

/-! ### Feature names (`sensitive_levels` / `control_levels`)

`Model/FeatureNames.lean` models `MetricFrame._process_features`, `GroupFeature.__init__` and the
duplicate check of `MetricFrame.__init__`; the base names, the default-name format and the order of the
duplicate check are lifted from the source (`Generated/FeatureNamesSrc.lean`). -/

section Names
open FeatureNames

/-- `reservedClash` says exactly: some feature name is already a column of `all_data` -/
theorem reservedClash_iff (dataCols s cn : List String) :
    reservedClash dataCols s cn = true ↔ ∃ n ∈ s ++ cn, n ∈ dataCols := by
  simp only [reservedClash, FeatureNamesSrc.reservedCheck, FeatureNamesSrc.reservedSensitiveFirst, if_true,
    Bool.true_and, List.any_eq_true, List.contains_iff_mem]

/-- construction with control features succeeds exactly when both containers yield names, NO name is
    already a data column (y_true, y_pred, a sample-parameter column) and all names are distinct; the
    reserved-name rejection comes first -/
theorem names_accepts_iff (sb cb : String) (dataCols : List String) (sf : Container) (cc : Container)
    (s cn : List String) (hs : processFeatures sb sf = .ok s) (hc : processFeatures cb cc = .ok cn) :
    featureNames sb cb dataCols sf (some cc) =
      (if ∃ n ∈ s ++ cn, n ∈ dataCols then .error .reservedName
       else if (s ++ cn).Nodup then .ok (s, some cn) else .error .duplicateName) := by
  unfold featureNames
  simp only [hs, hc, FeatureNamesSrc.sensitiveNamesFirst, if_true]
  by_cases hr : ∃ n ∈ s ++ cn, n ∈ dataCols
  · rw [if_pos ((reservedClash_iff dataCols s cn).mpr hr), if_pos hr]
  · have : ¬ reservedClash dataCols s cn = true := fun h => hr ((reservedClash_iff dataCols s cn).mp h)
    rw [if_neg this, if_neg hr]
    by_cases hn : (s ++ cn).Nodup
    · have := (firstDuplicate_nil_none_iff _).mpr hn
      simp [this, hn]
    · have : firstDuplicate [] (s ++ cn) ≠ none := fun h => hn ((firstDuplicate_nil_none_iff _).mp h)
      cases hf : firstDuplicate [] (s ++ cn) with
      | none => exact absurd hf this
      | some x => simp [hn]

/-- the same without control features -/
theorem names_accepts_iff_no_control (sb cb : String) (dataCols : List String) (sf : Container)
    (s : List String) (hs : processFeatures sb sf = .ok s) :
    featureNames sb cb dataCols sf none =
      (if ∃ n ∈ s, n ∈ dataCols then .error .reservedName
       else if s.Nodup then .ok (s, none) else .error .duplicateName) := by
  unfold featureNames
  simp only [hs]
  have hiff := reservedClash_iff dataCols s []
  simp only [List.append_nil] at hiff
  by_cases hr : ∃ n ∈ s, n ∈ dataCols
  · rw [if_pos (hiff.mpr hr), if_pos hr]
  · have : ¬ reservedClash dataCols s [] = true := fun h => hr (hiff.mp h)
    rw [if_neg this, if_neg hr]
    by_cases hn : s.Nodup
    · have := (firstDuplicate_nil_none_iff _).mpr hn
      simp [this, hn]
    · have : firstDuplicate [] s ≠ none := fun h => hn ((firstDuplicate_nil_none_iff _).mp h)
      cases hf : firstDuplicate [] s with
      | none => exact absurd hf this
      | some x => simp [hn]

/-- whenever construction succeeds, the feature names (sensitive ++ control) are pairwise distinct AND none
    of them is a column of `all_data`: an accepted feature never overwrites y_true, y_pred or a
    sample-parameter column -/
theorem names_nodup_and_no_overwrite (sb cb : String) (dataCols : List String) (sf : Container)
    (cf : Option Container) (s : List String) (c : Option (List String))
    (h : featureNames sb cb dataCols sf cf = .ok (s, c)) :
    (s ++ c.getD []).Nodup ∧ ∀ n ∈ s ++ c.getD [], n ∉ dataCols := by
  cases hs : processFeatures sb sf with
  | error e => unfold featureNames at h; simp [hs] at h
  | ok s' =>
    cases cf with
    | none =>
      rw [names_accepts_iff_no_control sb cb dataCols sf s' hs] at h
      split at h
      · cases h
      · next hr =>
        split at h
        · next hn =>
          injection h with h; injection h with h1 h2; subst h1; subst h2
          simp only [Option.getD_none, List.append_nil]
          exact ⟨hn, fun n hn' hd => hr ⟨n, hn', hd⟩⟩
        · cases h
    | some cc =>
      cases hc : processFeatures cb cc with
      | error e => unfold featureNames at h; simp [hs, hc] at h
      | ok cn =>
        rw [names_accepts_iff sb cb dataCols sf cc s' cn hs hc] at h
        split at h
        · cases h
        · next hr =>
          split at h
          · next hn =>
            injection h with h; injection h with h1 h2; subst h1; subst h2
            exact ⟨hn, fun n hn' hd => hr ⟨n, hn', hd⟩⟩
          · cases h

theorem names_nodup (sb cb : String) (dataCols : List String) (sf : Container) (cf : Option Container)
    (s : List String) (c : Option (List String)) (h : featureNames sb cb dataCols sf cf = .ok (s, c)) :
    (s ++ c.getD []).Nodup :=
  (names_nodup_and_no_overwrite sb cb dataCols sf cf s c h).1

/-- a feature called like a data column is rejected: 'y_true', 'y_pred' (always columns) or the column of a
    sample parameter -/
theorem names_reserved_rejected (sb cb : String) (dataCols : List String) (sf : Container) (cf : Option Container)
    (s : List String) (hs : processFeatures sb sf = .ok s) (n : String) (hn : n ∈ s) (hd : n ∈ dataCols)
    (hcf : ∀ cc, cf = some cc → ∃ cn, processFeatures cb cc = .ok cn) :
    featureNames sb cb dataCols sf cf = .error .reservedName := by
  cases cf with
  | none =>
    rw [names_accepts_iff_no_control sb cb dataCols sf s hs, if_pos ⟨n, hn, hd⟩]
  | some cc =>
    obtain ⟨cn, hc⟩ := hcf cc rfl
    rw [names_accepts_iff sb cb dataCols sf cc s cn hs hc, if_pos ⟨n, by simp [hn], hd⟩]

/-- an error of either container is the error of the constructor (sensitive features first) -/
theorem names_error_propagates (sb cb : String) (dataCols : List String) (sf : Container) (cf : Option Container)
    (e : FErr) (h : processFeatures sb sf = .error e) : featureNames sb cb dataCols sf cf = .error e := by
  unfold featureNames; simp [h]

/-- which containers are rejected, and with which error -/
theorem names_rejected :
    (∀ b, processFeatures b (.series (some .other)) = .error .seriesNameNotString) ∧
    (∀ b cols, NameVal.other ∈ cols → processFeatures b (.dataframe cols) = .error .columnNameNotString) ∧
    (∀ b keys, NameVal.other ∈ keys → processFeatures b (.dict keys true) = .error .columnNameNotString) ∧
    (∀ b keys, processFeatures b (.dict keys false) = .error .dictConversion) ∧
    (∀ b, processFeatures b (.list false) = .error .listNonScalar) ∧
    (∀ b d k, d ≠ 1 → d ≠ 2 → processFeatures b (.array d k) = .error .tooManyDims) := by
  refine ⟨fun _ => rfl, fun b cols h => columnsNames_other b 0 cols h,
    fun b keys h => columnsNames_other b 0 keys h, fun _ _ => rfl, fun _ => rfl, ?_⟩
  intro b d k h1 h2
  match d, h1, h2 with
  | 0, _, _ => rfl
  | 1, h1, _ => exact absurd rfl h1
  | 2, _, h2 => exact absurd rfl h2
  | n + 3, _, _ => rfl

/-- which names an accepted container gets: the names it carries, else the defaults `base<i>` -/
theorem names_accepted (b : String) :
    processFeatures b (.series none) = .ok [defaultName b 0] ∧
    (∀ s, processFeatures b (.series (some (.str s))) = .ok [s]) ∧
    (∀ ss : List String, processFeatures b (.dataframe (ss.map .str)) = .ok ss) ∧
    (∀ ss : List String, processFeatures b (.dict (ss.map .str) true) = .ok ss) ∧
    processFeatures b (.list true) = .ok [defaultName b 0] ∧
    (∀ k, processFeatures b (.array 1 k) = .ok [defaultName b 0]) ∧
    (∀ k, processFeatures b (.array 2 k) = .ok ((List.range k).map (defaultName b))) :=
  ⟨rfl, fun _ => rfl, fun ss => columnsNames_str b 0 ss, fun ss => columnsNames_str b 0 ss, rfl,
    fun _ => rfl, fun _ => rfl⟩

/-- every container is either accepted or rejected with one of the listed errors: no other outcome -/
theorem names_total (b : String) (c : Container) :
    (∃ ns, processFeatures b c = .ok ns) ∨ (∃ e, processFeatures b c = .error e) := by
  cases h : processFeatures b c with
  | ok ns => exact .inl ⟨ns, rfl⟩
  | error e => exact .inr ⟨e, rfl⟩

/-- default names never collide with each other … -/
theorem names_default_distinct (b : String) (k : Nat) : ((List.range k).map (defaultName b)).Nodup :=
  default_names_nodup b k

/-- … nor across the two kinds of features, for the base names lifted from `__init__` -/
theorem names_default_disjoint (i j : Nat) :
    defaultName FeatureNamesSrc.sensitiveBase i ≠ defaultName FeatureNamesSrc.controlBase j := by
  intro h
  have h2 := congrArg String.toList h
  simp [defaultName, FeatureNamesSrc.defaultName, FeatureNamesSrc.sensitiveBase, FeatureNamesSrc.controlBase,
    String.toList_append] at h2

/-- default names are never `y_true` / `y_pred` -/
theorem names_default_not_base (i : Nat) :
    defaultName FeatureNamesSrc.sensitiveBase i ∉ ["y_true", "y_pred"] ∧
    defaultName FeatureNamesSrc.controlBase i ∉ ["y_true", "y_pred"] := by
  constructor <;> intro h <;> simp only [List.mem_cons, List.not_mem_nil, or_false] at h <;>
    rcases h with h | h <;>
    · have h2 := congrArg String.toList h
      simp [defaultName, FeatureNamesSrc.defaultName, FeatureNamesSrc.sensitiveBase, FeatureNamesSrc.controlBase,
        String.toList_append] at h2

/-- hence array / list inputs (which carry no names) are always accepted when no sample parameters are
    stored: any number of sensitive columns together with any number of control columns -/
theorem names_arrays_accepted (k l : Nat) :
    metricFrameNames ["y_true", "y_pred"] (.array 2 k) (some (.array 2 l)) =
      .ok ((List.range k).map (defaultName FeatureNamesSrc.sensitiveBase),
           some ((List.range l).map (defaultName FeatureNamesSrc.controlBase))) := by
  unfold metricFrameNames
  rw [names_accepts_iff _ _ _ _ _ _ _ rfl rfl, if_neg, if_pos]
  · rw [List.nodup_append]
    refine ⟨default_names_nodup _ k, default_names_nodup _ l, ?_⟩
    intro a ha b hb
    simp only [List.mem_map, List.mem_range] at ha hb
    obtain ⟨i, _, rfl⟩ := ha
    obtain ⟨j, _, rfl⟩ := hb
    exact names_default_disjoint i j
  · rintro ⟨n, hn, hd⟩
    simp only [List.mem_append, List.mem_map, List.mem_range] at hn
    rcases hn with ⟨i, _, rfl⟩ | ⟨i, _, rfl⟩
    · exact (names_default_not_base i).1 hd
    · exact (names_default_not_base i).2 hd

end Names

/-! ### Review R3: the clauses at full strength

`byGroup_cell` / `byGroup_index` speak about ONE entry / membership.  The theorems of this section state the
whole table as a list equation (index incl. order, every value), say that each factor of the product is taken
over ALL rows, give both halves of the empty-combination clause, cover `n = 0`, and state the property for a
dict of metrics with per-metric sample parameters end to end without any `getD` default. -/

section Review
open FramePrims FrameMulti

/-- FIRST TWO SENTENCES OF THE PROPERTY AS ONE EQUATION.  `by_group` is, entry by entry and in this order, the
    Cartesian product of the sorted distinct values of each grouping column (control columns first; each
    taken over ALL rows) paired with the metric on exactly the rows carrying that tuple — NaN when there is no
    such row.  Nothing else is in the table, nothing is missing; also for a single grouping column. -/
theorem byGroup_eq_table (nanv : β) (ncf nsf : Nat) (hn : 0 < ncf + nsf) (f : List α → β)
    (rows : List (Row α)) (hwf : WF ncf nsf rows) :
    byGroup nanv ncf nsf f rows =
      (product (levels Row.key (ncf + nsf) rows)).map (fun k =>
        (k, if rows.filter (fun r => r.cf ++ r.sf == k) = [] then nanv
            else f ((rows.filter (fun r => r.cf ++ r.sf == k)).map (·.dat)))) :=
  applyFunctions_eq_table nanv Row.key (ncf + nsf) hn f rows (keyLen_key hwf)

/-- the index as a LIST (order and multiplicity included): exactly the product of the per-column levels; for one
    feature this is the list of observed values (as 1-tuples) -/
theorem byGroup_index_eq_product (nanv : β) (ncf nsf : Nat) (hn : 0 < ncf + nsf) (f : List α → β)
    (rows : List (Row α)) (hwf : WF ncf nsf rows) :
    keys (byGroup nanv ncf nsf f rows) = product (levels Row.key (ncf + nsf) rows) := by
  rw [byGroup_eq_table nanv ncf nsf hn f rows hwf]
  simp [keys, List.map_map, Function.comp_def]

/-- each factor of that product: the strictly increasing, duplicate-free list of the values column `j` takes on
    ANY row of the data (not per control stratum) -/
theorem byGroup_levels_spec (ncf nsf : Nat) (rows : List (Row α)) (j : Nat) (hj : j < ncf + nsf) :
    ((levels Row.key (ncf + nsf) rows).getD j []).Pairwise (· < ·) ∧
    ((levels Row.key (ncf + nsf) rows).getD j []).Nodup ∧
    ∀ a, a ∈ (levels Row.key (ncf + nsf) rows).getD j [] ↔ ∃ r ∈ rows, (r.cf ++ r.sf).getD j "" = a := by
  refine ⟨?_, ?_, fun a => mem_levels Row.key _ rows j hj a⟩
  · rw [levels, getD_map_range _ _ j hj]; exact pairwise_uniq level_trans level_tri _
  · rw [levels, getD_map_range _ _ j hj]; exact nodup_uniq _

/-- the number of index entries is the product of the numbers of observed values -/
theorem byGroup_index_length (nanv : β) (ncf nsf : Nat) (hn : 0 < ncf + nsf) (f : List α → β)
    (rows : List (Row α)) (hwf : WF ncf nsf rows) :
    (keys (byGroup nanv ncf nsf f rows)).length =
      ((levels Row.key (ncf + nsf) rows).map List.length).prod := by
  rw [byGroup_index_eq_product nanv ncf nsf hn f rows hwf, product_length]

/-- the product is NOT taken per stratum: the control values of any row combined with the sensitive values of
    any OTHER row are an index entry (NaN if no row carries that combination: `byGroup_empty`) -/
theorem byGroup_index_cross (nanv : β) (ncf nsf : Nat) (hn : 0 < ncf + nsf) (f : List α → β)
    (rows : List (Row α)) (hwf : WF ncf nsf rows) (r1 r2 : Row α) (h1 : r1 ∈ rows) (h2 : r2 ∈ rows) :
    r1.cf ++ r2.sf ∈ keys (byGroup nanv ncf nsf f rows) := by
  rw [byGroup_index nanv ncf nsf hn f rows hwf]
  have c1 := (hwf r1 h1).1
  have s1 := (hwf r1 h1).2
  have c2 := (hwf r2 h2).1
  have s2 := (hwf r2 h2).2
  refine ⟨by simp [c1, s2], fun j _ => ?_⟩
  by_cases hjc : j < ncf
  · refine ⟨r1, h1, ?_⟩
    simp [List.getD_eq_getElem?_getD, List.getElem?_append_left (c1 ▸ hjc)]
  · refine ⟨r2, h2, ?_⟩
    have e1 : r1.cf.length ≤ j := by omega
    have e2 : r2.cf.length ≤ j := by omega
    simp [List.getD_eq_getElem?_getD, List.getElem?_append_right e1, List.getElem?_append_right e2, c1, c2]

/-- second half of "reported as NaN rather than dropped or FILLED": under the key of an empty combination there
    is no value other than NaN (together with `byGroup_empty`: present, and `byGroup_index_nodup`: once) -/
theorem byGroup_empty_only_nan (nanv : β) (ncf nsf : Nat) (hn : 0 < ncf + nsf) (f : List α → β)
    (rows : List (Row α)) (k : Key) (hempty : ∀ r ∈ rows, r.cf ++ r.sf ≠ k) (v : β)
    (h : (k, v) ∈ byGroup nanv ncf nsf f rows) : v = nanv := by
  have hv := byGroup_cell nanv ncf nsf hn f rows k v h
  have : rows.filter (fun r => r.cf ++ r.sf == k) = [] := by
    rw [List.filter_eq_nil_iff]
    intro r hr; simpa using hempty r hr
  rwa [if_pos this] at hv

/-- `overall` with control features, whole table: the product of the observed values of each control column,
    each entry the metric on exactly the rows of that control combination (NaN if there is none) -/
theorem overall_eq_table (nanv : β) (ncf nsf : Nat) (hn : 0 < ncf) (f : List α → β)
    (rows : List (Row α)) (hwf : WF ncf nsf rows) :
    overall nanv ncf f rows =
      (product (levels Row.ckey ncf rows)).map (fun c =>
        (c, if rows.filter (fun r => r.cf == c) = [] then nanv
            else f ((rows.filter (fun r => r.cf == c)).map (·.dat)))) :=
  applyFunctions_eq_table nanv Row.ckey ncf hn f rows (keyLen_ckey hwf)

/-- one sensitive feature, no control feature, as a LIST: the index is the sorted list of the distinct observed
    values (as 1-tuples) — "exactly the set of observed values" -/
theorem byGroup_index_single_eq (nanv : β) (f : List α → β) (rows : List (Row α)) (hwf : WF 0 1 rows) :
    keys (byGroup nanv 0 1 f rows) = (uniq (rows.map (fun r => (r.cf ++ r.sf).getD 0 ""))).map (fun a => [a]) := by
  rw [byGroup_index_eq_product nanv 0 1 (by omega) f rows hwf]
  have : levels Row.key (0 + 1) rows = [uniq (rows.map (fun r => (r.cf ++ r.sf).getD 0 ""))] := by
    simp [levels, col, List.map_map, Function.comp_def, Row.key]
  rw [this, product_single]

/-- the whole-table equation for the function text lifted from /repo (`DisaggregatedResult.create(...).by_group`) -/
theorem src_byGroup_eq_table (nanv : β) (ncf nsf : Nat) (hn : 0 < ncf + nsf) (f : List α → β)
    (rows : List (Row α)) (hwf : WF ncf nsf rows) (hna : NoMissing rows) :
    FrameSrc.create_by_group nanv rows f (sfNames nsf) (cfNames ncf) =
      (product (levels Row.key (ncf + nsf) rows)).map (fun k =>
        (k, if rows.filter (fun r => r.cf ++ r.sf == k) = [] then nanv
            else f ((rows.filter (fun r => r.cf ++ r.sf == k)).map (·.dat)))) := by
  rw [src_byGroup_eq_model nanv ncf nsf f rows hwf hna]
  exact byGroup_eq_table nanv ncf nsf hn f rows hwf

/-- … and for `create(...).overall` with control features -/
theorem src_overall_eq_table (nanv : β) (ncf nsf : Nat) (hn : 0 < ncf) (f : List α → β)
    (rows : List (Row α)) (hwf : WF ncf nsf rows) (hna : NoMissing rows) :
    FrameSrc.create_overall nanv rows f (sfNames nsf) (cfNames ncf) =
      (product (levels Row.ckey ncf rows)).map (fun c =>
        (c, if rows.filter (fun r => r.cf == c) = [] then nanv
            else f ((rows.filter (fun r => r.cf == c)).map (·.dat)))) := by
  rw [src_overall_eq_model nanv ncf nsf f rows hwf hna]
  exact overall_eq_table nanv ncf nsf hn f rows hwf

/-- the NaN the drivers fill in (`Cell.nan`) differs from every number a metric can return, in particular from 0:
    "reported as NaN rather than … filled" is not blurred by the choice of `nanv` -/
theorem driver_nan_distinct (q : Rat) : Cell.nan ≠ Cell.ofRat q := by
  intro h; cases h

/-- n = 0 (outside the quantifier "any length >= 1"): the model's `by_group` is empty.  Real MetricFrame: the same
    for Series / DataFrame / dict features, IndexError for a list (`features[0]`).  The drivers reject n = 0. -/
theorem byGroup_nil (nanv : β) (ncf nsf : Nat) (hn : 0 < ncf + nsf) (f : List α → β) :
    byGroup nanv ncf nsf f ([] : List (Row α)) = [] := by
  have hwf : WF ncf nsf ([] : List (Row α)) := by intro r hr; cases hr
  apply List.eq_nil_iff_forall_not_mem.mpr
  rintro ⟨k, v⟩ hkv
  have hk : k ∈ keys (byGroup nanv ncf nsf f ([] : List (Row α))) := List.mem_map.mpr ⟨_, hkv, rfl⟩
  rw [byGroup_index nanv ncf nsf hn f [] hwf] at hk
  obtain ⟨r, hr, _⟩ := hk.2 0 hn
  cases hr

/-- n = 0: `overall` without control features is the metric on the empty slice (real `count` gives 0,
    `selection_rate` raises) — no default value is invented -/
theorem overall_nil (nanv : β) (f : List α → β) :
    overall nanv 0 f ([] : List (Row α)) = [([], f [])] := rfl

/-! #### dict of metrics, per-metric sample parameters, one shared `all_data`: end to end, no default -/

variable {γ : Type}

/-- THE PROPERTY FOR A DICT OF METRICS.  `feats` are the (control, sensitive) values of the `n` rows, `yt`, `yp`
    have `n` entries, every non-None sample parameter of metric `m` has `n` entries (`ParamsFull`; otherwise real
    MetricFrame raises), the dict keys are distinct.  Then column `m.name` of `by_group` is exactly: for every tuple
    of the product index, `m.func` called with y_true / y_pred at the row numbers of the rows carrying that tuple (in
    the original order) and with EXACTLY ITS OWN non-None sample parameters at the same row numbers — NaN when no row
    carries the tuple.  `sliceAt` has no default: nothing here is true because of a `getD _ 0`. -/
theorem multi_byGroup_exact (nanv : γ) (ncf nsf : Nat) (hn : 0 < ncf + nsf) (yt yp : List Rat)
    (feats : List (List Level × List Level)) (hf : ∀ p ∈ feats, p.1.length = ncf ∧ p.2.length = nsf)
    (hfna : ∀ p ∈ feats, naLevel ∉ p.1 ∧ naLevel ∉ p.2)
    (hyt : yt.length = feats.length) (hyp : yp.length = feats.length)
    (ms : List (MetricSpec γ)) (hnames : (ms.map (·.name)).Nodup) (m : MetricSpec γ) (hm : m ∈ ms)
    (hpar : ParamsFull feats.length m) :
    FrameMulti.column m.name (byGroupFrame nanv ncf nsf (baseData yt yp) ms (mkRows feats)) =
      (product (levels Row.key (ncf + nsf) (mkRows feats))).map (fun k =>
        (k, some (if rowIdx feats k = [] then nanv
                  else m.func [sliceAt yt (rowIdx feats k), sliceAt yp (rowIdx feats k)]
                         (ownKwargsAt m (rowIdx feats k))))) := by
  have hwf := mkRows_wf ncf nsf feats hf
  have hna := mkRows_noMissing feats hfna
  rw [multi_column_eq_single nanv ncf nsf yt yp ms _ hwf hna hnames m hm,
    single_eq_model nanv ncf nsf yt yp m _ hwf hna, byGroup_eq_table nanv ncf nsf hn _ _ hwf, List.map_map]
  apply List.map_congr_left
  intro k _
  simp only [Function.comp]
  congr 2
  have hs : (List.filter (fun r : Row Nat => r.cf ++ r.sf == k) (mkRows feats)).map (·.dat) = rowIdx feats k :=
    slice_rowsOf_mkRows feats k
  have hnil : (List.filter (fun r : Row Nat => r.cf ++ r.sf == k) (mkRows feats) = []) ↔ rowIdx feats k = [] :=
    (rowIdx_eq_nil_iff feats k).symm
  by_cases he : rowIdx feats k = []
  · rw [if_pos he, if_pos (hnil.mpr he)]
  · rw [if_neg he, if_neg (fun h => he (hnil.mp h)), hs,
      map_getD_eq_sliceAt yt _ (fun j hj => hyt ▸ rowIdx_lt feats k j hj),
      map_getD_eq_sliceAt yp _ (fun j hj => hyp ▸ rowIdx_lt feats k j hj),
      ownKwargs_eq_at feats.length m hpar _ (rowIdx_lt feats k)]

/-- the same for `overall`: without control features the metric on ALL rows `0 … n-1`, with control features on the
    rows of each control combination -/
theorem multi_overall_exact (nanv : γ) (ncf nsf : Nat) (yt yp : List Rat)
    (feats : List (List Level × List Level)) (hf : ∀ p ∈ feats, p.1.length = ncf ∧ p.2.length = nsf)
    (hfna : ∀ p ∈ feats, naLevel ∉ p.1 ∧ naLevel ∉ p.2)
    (hyt : yt.length = feats.length) (hyp : yp.length = feats.length)
    (ms : List (MetricSpec γ)) (hnames : (ms.map (·.name)).Nodup) (m : MetricSpec γ) (hm : m ∈ ms)
    (hpar : ParamsFull feats.length m) :
    FrameMulti.column m.name (overallFrame nanv ncf nsf (baseData yt yp) ms (mkRows feats)) =
      if ncf = 0 then
        [([], some (m.func [sliceAt yt (List.range feats.length), sliceAt yp (List.range feats.length)]
                      (ownKwargsAt m (List.range feats.length))))]
      else
        (product (levels Row.ckey ncf (mkRows feats))).map (fun c =>
          (c, some (if rowIdxC feats c = [] then nanv
                    else m.func [sliceAt yt (rowIdxC feats c), sliceAt yp (rowIdxC feats c)]
                           (ownKwargsAt m (rowIdxC feats c))))) := by
  have hwf := mkRows_wf ncf nsf feats hf
  have hna := mkRows_noMissing feats hfna
  rw [multi_overall_column_eq_single nanv ncf nsf yt yp ms _ hwf hna hnames m hm]
  unfold singleOverall
  dsimp only
  rw [FrameSrc.init_overall_eq_model _ _ _ _ _ hwf hna]
  obtain ⟨hr1, g1, g2⟩ := construct_rel yt yp m
  have hfn : metricFn (construct (baseData yt yp) m).1 (construct (baseData yt yp) m).2 =
      fun idx => m.func [idx.map (fun j => yt.getD j 0), idx.map (fun j => yp.getD j 0)] (ownKwargs m idx) := by
    funext idx; exact metricFn_of_rel _ yt yp m _ hr1 g1 g2 idx
  rw [hfn]
  by_cases h0 : ncf = 0
  · subst h0
    rw [if_pos rfl]
    have hall : slice (mkRows feats) = List.range feats.length := by
      simp [slice, mkRows, List.map_map, Function.comp_def]
    have hlt : ∀ j ∈ List.range feats.length, j < feats.length := fun j hj => List.mem_range.mp hj
    show [(([] : Key), _)].map _ = _
    simp only [List.map_cons, List.map_nil, hall]
    rw [map_getD_eq_sliceAt yt _ (fun j hj => hyt ▸ hlt j hj), map_getD_eq_sliceAt yp _ (fun j hj => hyp ▸ hlt j hj),
      ownKwargs_eq_at feats.length m hpar _ hlt]
  · rw [if_neg h0, overall_eq_table nanv ncf nsf (by omega) _ _ hwf, List.map_map]
    apply List.map_congr_left
    intro c _
    simp only [Function.comp]
    congr 2
    have hs : (List.filter (fun r : Row Nat => r.cf == c) (mkRows feats)).map (·.dat) = rowIdxC feats c :=
      slice_rowsOf_ckey_mkRows feats c
    have hnil : (List.filter (fun r : Row Nat => r.cf == c) (mkRows feats) = []) ↔ rowIdxC feats c = [] :=
      (rowIdxC_eq_nil_iff feats c).symm
    by_cases he : rowIdxC feats c = []
    · rw [if_pos he, if_pos (hnil.mpr he)]
    · rw [if_neg he, if_neg (fun h => he (hnil.mp h)), hs,
        map_getD_eq_sliceAt yt _ (fun j hj => hyt ▸ rowIdxC_lt feats c j hj),
        map_getD_eq_sliceAt yp _ (fun j hj => hyp ▸ rowIdxC_lt feats c j hj),
        ownKwargs_eq_at feats.length m hpar _ (rowIdxC_lt feats c)]

/-- TOTALISATION ARTEFACT, exhibited: a sample parameter with 2 values on 3 rows.  The model's `ownKwargs` (and the
    driver op `fm.eval`, which does not check parameter lengths) PADS the missing value with 0; the default-free
    `ownKwargsAt` drops it.  Real `MetricFrame(metrics=selection_rate, y_true=[0,1,1], y_pred=[1,0,1],
    sensitive_features=['a','b','a'], sample_params={'sample_weight': [1., 2.]})` raises ValueError
    ("Length of values (2) does not match length of index (3)").  `multi_byGroup_exact` excludes this input by
    `ParamsFull`; `multi_metric_own_params` / `multi_column_eq_single` hold there only because both sides pad. -/
theorem short_param_padded_artifact :
    ownKwargs (⟨"m", some "m", sumKw, [("sample_weight", some [1, 2])]⟩ : MetricSpec Rat) [0, 1, 2] =
        [("sample_weight", [1, 2, 0])] ∧
    ownKwargsAt (⟨"m", some "m", sumKw, [("sample_weight", some [1, 2])]⟩ : MetricSpec Rat) [0, 1, 2] =
        [("sample_weight", [1, 2])] ∧
    ¬ ParamsFull 3 (⟨"m", some "m", sumKw, [("sample_weight", some [1, 2])]⟩ : MetricSpec Rat) := by
  refine ⟨by decide +kernel, by decide +kernel, by decide +kernel⟩

/-- the generated `bare_callable_name` is what the column prefix of a bare callable is built from:
    `f"{None}_{param}"` -/
theorem src_bare_prefix (t : AllData) (mp : List (String × String)) (pn : String) (v : List Rat) :
    FrameSrc.construct_step FrameSrc.bare_callable_name (t, mp) (pn, some v) =
      ((uniquifyCol t ("None_" ++ pn) "_", v) :: t, mp ++ [(pn, uniquifyCol t ("None_" ++ pn) "_")]) := by
  rw [step_some]
  have : pyFormat FrameSrc.bare_callable_name ++ "_" ++ pn = "None_" ++ pn := by
    simp [FrameSrc.bare_callable_name, pyFormat]
  rw [this]

/-- the rows the driver ops hand to the model satisfy the `WF` hypothesis of the theorems above
    (`frame.eval`: `MetricPool.mkRows`; `fm.eval`: `FrameMulti.mkRows` of the transposed columns) -/
theorem driver_rows_wf :
    (∀ (ncf : Nat) (ys ps p0 p1 : List Rat) (cols : List (List Level)) (rows : List (Row MetricPool.Dat)),
      MetricPool.mkRows ncf ys ps p0 p1 cols = some rows →
        WF ncf (cols.length - ncf) rows ∧ rows.length = ys.length) ∧
    (∀ (n ncf : Nat) (cols : List (List Level)) (feats : List (List Level)),
      MetricPool.rowFeatures n cols = some feats → ncf ≤ cols.length →
        WF ncf (cols.length - ncf) (mkRows (feats.map (fun fs => (fs.take ncf, fs.drop ncf))))) :=
  ⟨frame_rows_wf, fm_rows_wf⟩

end Review

/-! ### Non-vacuity: a 6-row frame with 2 x 2 sensitive levels and one empty intersection -/

def exRows : List (Row Nat) :=
  [⟨10, [], ["a", "x"]⟩, ⟨20, [], ["a", "y"]⟩, ⟨30, [], ["b", "x"]⟩,
   ⟨40, [], ["a", "x"]⟩, ⟨50, [], ["b", "x"]⟩, ⟨60, [], ["a", "y"]⟩]

example : WF 0 2 exRows := by decide
example : byGroup 0 0 2 List.sum exRows =
    [(["a", "x"], 50), (["a", "y"], 80), (["b", "x"], 80), (["b", "y"], 0)] := by decide +kernel
example : overall 0 0 List.sum exRows = [([], 210)] := by decide +kernel

def exRowsC : List (Row Nat) :=
  [⟨1, ["m"], ["a"]⟩, ⟨2, ["k"], ["b"]⟩, ⟨4, ["k"], ["a"]⟩, ⟨8, ["k"], ["b"]⟩]

example : WF 1 1 exRowsC := by decide
example : byGroup 0 1 1 List.sum exRowsC =
    [(["k", "a"], 4), (["k", "b"], 10), (["m", "a"], 1), (["m", "b"], 0)] := by decide +kernel
example : overall 0 1 List.sum exRowsC = [(["k"], 14), (["m"], 1)] := by decide +kernel
example : byGroup 0 0 1 List.length [(⟨(), [], ["z"]⟩ : Row Unit), ⟨(), [], ["b"]⟩, ⟨(), [], ["z"]⟩] =
    [(["b"], 1), (["z"], 2)] := by decide +kernel

example : FeatureNames.metricFrameNames ["y_true", "y_pred"] (.series (some (.str "grp"))) (some (.dataframe [.str "a", .str "grp"])) =
    .error .duplicateName := by decide +kernel
example : FeatureNames.metricFrameNames ["y_true", "y_pred"] (.dict [.str "s", .other] true) none = .error .columnNameNotString := by decide +kernel
example : FeatureNames.metricFrameNames ["m_w", "y_true", "y_pred"] (.series (some (.str "y_pred"))) none = .error .reservedName := by decide +kernel
example : FeatureNames.metricFrameNames ["m_w", "y_true", "y_pred"] (.list true) (some (.series (some (.str "m_w")))) = .error .reservedName := by decide +kernel
example : FeatureNames.metricFrameNames ["y_true", "y_pred"] (.list true) (some (.series none)) =
    .ok (["sensitive_feature_0"], some ["control_feature_0"]) := by decide +kernel

/-! ### Non-vacuity, review R3: ALL hypotheses of each theorem at once, on inputs where NaN is distinguishable

The examples above use `nanv = 0` with `List.sum`, which cannot tell "NaN" from "filled with 0" (exactly the seeded
change C01b).  Below the value type is `Option Nat` with `nanv = none`; `exRowsZ` has a NON-EMPTY cell whose metric
value is `some 0`, a single-member group, and an empty intersection. -/

section NonVacuity
open FramePrims FrameMulti

def exF : List Nat → Option Nat := fun l => some l.sum

/-- 2 x 2 sensitive levels: ("a","x") has two rows summing to 0, ("a","y") is a single-member group,
    ("b","x") has one row, ("b","y") is an empty intersection -/
def exRowsZ : List (Row Nat) :=
  [⟨0, [], ["a", "x"]⟩, ⟨5, [], ["a", "y"]⟩, ⟨3, [], ["b", "x"]⟩, ⟨0, [], ["a", "x"]⟩]

example : byGroup none 0 2 exF exRowsZ =
    [(["a", "x"], some 0), (["a", "y"], some 5), (["b", "x"], some 3), (["b", "y"], none)] := by decide +kernel

-- `byGroup_cell`: hypotheses (0 < ncf + nsf, membership) met by a non-empty cell, a single-member group and the empty one
example : some 0 = (if exRowsZ.filter (fun r => r.cf ++ r.sf == ["a", "x"]) = [] then none
    else exF ((exRowsZ.filter (fun r => r.cf ++ r.sf == ["a", "x"])).map (·.dat))) :=
  byGroup_cell none 0 2 (by omega) exF exRowsZ ["a", "x"] (some 0) (by decide +kernel)
example : (["a", "y"], some 5) ∈ byGroup none 0 2 exF exRowsZ ∧
    (exRowsZ.filter (fun r => r.cf ++ r.sf == ["a", "y"])).length = 1 := by decide +kernel
-- n = 1 (one row, one group, one feature): every theorem's hypotheses hold (`0 < ncf + nsf`, `WF`)
example : WF 0 1 [(⟨7, [], ["a"]⟩ : Row Nat)] ∧
    byGroup none 0 1 exF [(⟨7, [], ["a"]⟩ : Row Nat)] = [(["a"], some 7)] ∧
    overall none 0 exF [(⟨7, [], ["a"]⟩ : Row Nat)] = [([], some 7)] := by decide +kernel
-- `byGroup_eq_table` / `byGroup_index_eq_product` / `byGroup_index_length`: WF input with >= 2 features; 4 = 2 * 2 entries
example : WF 0 2 exRowsZ ∧ 0 < 0 + 2 ∧ levels Row.key 2 exRowsZ = [["a", "b"], ["x", "y"]] ∧
    (keys (byGroup none 0 2 exF exRowsZ)).length = 4 := by decide +kernel
-- `byGroup_index` / `byGroup_index_single`: both directions are inhabited
example : ["b", "y"] ∈ keys (byGroup none 0 2 exF exRowsZ) ∧ ["b", "z"] ∉ keys (byGroup none 0 2 exF exRowsZ) := by
  decide +kernel
-- `byGroup_empty` + `byGroup_empty_only_nan`: ALL hypotheses (WF, length, every coordinate observed, no row with the
-- tuple) hold for a really empty intersection of 2 features; the conclusion is NaN and not `some 0`
example : (["b", "y"], none) ∈ byGroup none 0 2 exF exRowsZ :=
  byGroup_empty none 0 2 (by omega) exF exRowsZ (by decide) ["b", "y"] rfl (by decide) (by decide)
example : ∀ v, (["b", "y"], v) ∈ byGroup none 0 2 exF exRowsZ → v = none :=
  fun v h => byGroup_empty_only_nan none 0 2 (by omega) exF exRowsZ ["b", "y"] (by decide) v h
example : (["b", "y"], some 0) ∉ byGroup none 0 2 exF exRowsZ := by decide +kernel
-- `byGroup_nonempty`: a cell with rows whose value is `some 0` is NOT the NaN placeholder
example : some 0 = exF ((exRowsZ.filter (fun r => r.cf ++ r.sf == ["a", "x"])).map (·.dat)) :=
  byGroup_nonempty none 0 2 (by omega) exF exRowsZ ["a", "x"] (some 0) (by decide +kernel)
    ⟨0, [], ["a", "x"]⟩ (by simp [exRowsZ]) rfl
-- `byGroup_partition` / `stratum_partition`: hypotheses WF + 0 < ncf + nsf (above); the flattened cells are the 4 rows
example : ((keys (byGroup none 0 2 exF exRowsZ)).flatMap (fun k => rowsOf Row.key k exRowsZ)).length = 4 := by
  decide +kernel

/-- 1 control x 1 sensitive feature; the sensitive value "b" occurs only in stratum "k", the product is over ALL rows -/
def exRowsCZ : List (Row Nat) :=
  [⟨1, ["m"], ["a"]⟩, ⟨2, ["k"], ["b"]⟩, ⟨4, ["k"], ["a"]⟩, ⟨8, ["k"], ["b"]⟩]

-- `overall_control_cell/_index`, `overall_eq_table`, `byGroup_stratum_in_overall`, `byGroup_index_cross`:
-- hypotheses 0 < ncf, WF 1 1; ("m","b") is in the index although "b" never occurs in stratum "m"
example : WF 1 1 exRowsCZ ∧
    byGroup none 1 1 exF exRowsCZ = [(["k", "a"], some 4), (["k", "b"], some 10), (["m", "a"], some 1), (["m", "b"], none)] ∧
    overall none 1 exF exRowsCZ = [(["k"], some 14), (["m"], some 1)] := by decide +kernel
example : ["m", "b"] ∈ keys (byGroup none 1 1 exF exRowsCZ) :=
  byGroup_index_cross none 1 1 (by omega) exF exRowsCZ (by decide) ⟨1, ["m"], ["a"]⟩ ⟨2, ["k"], ["b"]⟩
    (by simp [exRowsCZ]) (by simp [exRowsCZ])
-- two control features: an unobserved control COMBINATION is NaN in `overall` as well
example : overall none 2 exF [(⟨1, ["k", "p"], ["a"]⟩ : Row Nat), ⟨2, ["m", "q"], ["b"]⟩] =
    [(["k", "p"], some 1), (["k", "q"], none), (["m", "p"], none), (["m", "q"], some 2)] := by decide +kernel

/-- a dict of two metrics with DIFFERENT sample parameters ("w" for the first, "v" and a None-valued "u" for the
    second) on 3 rows with 2 sensitive features and an empty intersection -/
def exSpecs : List (MetricSpec (Option Rat)) :=
  [⟨"m0", some "m0", fun _ kw => some (sumKw [] kw), [("w", some [1, 2, 4])]⟩,
   ⟨"m1", some "m1", fun pos kw => some (sumKw [] kw + ((pos.getD 0 []).sum)), [("u", none), ("v", some [10, 20, 40])]⟩]

-- `NoMissing` (the new hypothesis of the `src_*` / `multi_*` theorems) holds of the example rows; a row with a missing
-- sensitive value is dropped by the lifted groupby (the count of group "a" is 1, not 2) and no group has the missing key
example : NoMissing exRows := by decide
example : groupbyApplyNa FrameSrc.groupby_dropna
    [(⟨1, [], ["a"]⟩ : Row Nat), ⟨2, [], [naLevel]⟩, ⟨3, [], ["b"]⟩] (sfNames 1) List.length = [(["a"], 1), (["b"], 1)] := by
  decide +kernel
example : groupbyApplyNa false
    [(⟨1, [], ["a"]⟩ : Row Nat), ⟨2, [], [naLevel]⟩, ⟨3, [], ["b"]⟩] (sfNames 1) List.length =
      [([naLevel], 1), (["a"], 1), (["b"], 1)] := by
  decide +kernel

def exFeats : List (List Level × List Level) := [([], ["a", "x"]), ([], ["b", "y"]), ([], ["a", "x"])]

-- `multi_byGroup_exact` / `multi_overall_exact` / `multi_column_eq_single` / `multi_metric_own_params`: ALL hypotheses
example : (∀ p ∈ exFeats, p.1.length = 0 ∧ p.2.length = 2) ∧ ([0, 1, 1] : List Rat).length = exFeats.length ∧
    ((exSpecs.map (·.name)).Nodup) ∧ (∀ m ∈ exSpecs, ParamsFull exFeats.length m) ∧
    WF 0 2 (mkRows exFeats) ∧ (∀ p ∈ exFeats, naLevel ∉ p.1 ∧ naLevel ∉ p.2) := by decide +kernel
-- and the interesting branch: each metric sees only its own parameter, sliced by the rows [0, 2] / [1]; NaN elsewhere
example : FrameMulti.column "m0" (byGroupFrame none 0 2 (baseData [0, 1, 1] [0, 1, 0]) exSpecs (mkRows exFeats)) =
    [(["a", "x"], some (some 5)), (["a", "y"], some none), (["b", "x"], some none), (["b", "y"], some (some 2))] := by
  decide +kernel
example : FrameMulti.column "m1" (byGroupFrame none 0 2 (baseData [0, 1, 1] [0, 1, 0]) exSpecs (mkRows exFeats)) =
    [(["a", "x"], some (some 51)), (["a", "y"], some none), (["b", "x"], some none), (["b", "y"], some (some 21))] := by
  decide +kernel
example : rowIdx exFeats ["a", "x"] = [0, 2] ∧ rowIdx exFeats ["a", "y"] = [] ∧
    sliceAt [1, 2, 4] (rowIdx exFeats ["a", "x"]) = [1, 4] := by decide +kernel
example : FrameMulti.column "m1" (overallFrame none 0 2 (baseData [0, 1, 1] [0, 1, 0]) exSpecs (mkRows exFeats)) =
    [([], some (some 72))] := by decide +kernel

end NonVacuity

end C01
