/-
C01 — MetricFrame disaggregation is exact: each cell is the metric on that subgroup.
Property theorems only (helper lemmas: `Lemmas/Frame.lean`; model: `Model/Frame.lean`).

Everything is stated for an ARBITRARY metric `f : List α → β` (this is the quantifier
"all metric callables ... with or without per-sample parameters": the per-sample parameters are part
of the row payload `α`, so they are sliced with the rows by construction), an arbitrary list of
rows, and arbitrary numbers `ncf`, `nsf` of control / sensitive columns.
-/
import FairModel.Lemmas.Frame
import FairModel.Lemmas.FrameSrc
import FairModel.Lemmas.FrameMulti
import FairModel.Lemmas.FeatureNames

namespace C01
open Frame

variable {α β : Type}

/-- the index of a result table -/
def keys (t : List (Key × β)) : List Key := t.map (·.1)

/-- the observed values of grouping column `j` -/
def Observed (kf : Row α → Key) (rows : List (Row α)) (j : Nat) (a : Level) : Prop :=
  ∃ r ∈ rows, (kf r).getD j "" = a

/-- all index tuples produced by `kf` have length `n` -/
def KeyLen (kf : Row α → Key) (n : Nat) (rows : List (Row α)) : Prop := ∀ r ∈ rows, (kf r).length = n

theorem keyLen_key {ncf nsf : Nat} {rows : List (Row α)} (h : WF ncf nsf rows) :
    KeyLen Row.key (ncf + nsf) rows := by
  intro r hr; simp [Row.key, (h r hr).1, (h r hr).2]

theorem keyLen_ckey {ncf nsf : Nat} {rows : List (Row α)} (h : WF ncf nsf rows) :
    KeyLen Row.ckey ncf rows := by
  intro r hr; simp [Row.ckey, (h r hr).1]

/-! ### (1) every cell is the metric on exactly the rows carrying that tuple, else NaN -/

/-- `_apply_functions` with at least one grouping column: the entry at `k` is `f` evaluated on
    exactly the rows whose tuple is `k` (with their own per-sample parameters), or NaN if there is
    no such row. -/
theorem applyFunctions_cell (nanv : β) (kf : Row α → Key) (n : Nat) (hn : 0 < n) (f : List α → β)
    (rows : List (Row α)) (k : Key) (v : β) (h : (k, v) ∈ applyFunctions nanv kf n f rows) :
    v = if rowsOf kf k rows = [] then nanv else f (slice (rowsOf kf k rows)) := by
  unfold applyFunctions at h
  rw [if_neg (by omega)] at h
  dsimp only at h
  split at h
  · simp only [reindex, List.mem_map] at h
    obtain ⟨k', _, hk⟩ := h
    injection hk with h1 h2
    subst h1
    rw [← h2, lookup_grouped]
    split <;> rfl
  · simp only [grouped, List.mem_map] at h
    obtain ⟨k', hk', hk⟩ := h
    injection hk with h1 h2
    subst h1
    have : ¬ rowsOf kf k' rows = [] := by
      rw [rowsOf_eq_nil_iff]; simpa [mem_uniq] using hk'
    rw [if_neg this, h2]

/-- `MetricFrame.by_group`: every entry equals the metric on exactly the rows carrying that
    combination of (control ++ sensitive) feature values; a combination without rows is NaN. -/
theorem byGroup_cell (nanv : β) (ncf nsf : Nat) (hn : 0 < ncf + nsf) (f : List α → β)
    (rows : List (Row α)) (k : Key) (v : β) (h : (k, v) ∈ byGroup nanv ncf nsf f rows) :
    v = if rows.filter (fun r => r.cf ++ r.sf == k) = [] then nanv
        else f ((rows.filter (fun r => r.cf ++ r.sf == k)).map (·.dat)) :=
  applyFunctions_cell nanv Row.key (ncf + nsf) hn f rows k v h

/-! ### (2) the index: duplicate free, sorted, = observed values / their Cartesian product -/

theorem applyFunctions_keys_nodup (nanv : β) (kf : Row α → Key) (n : Nat) (f : List α → β)
    (rows : List (Row α)) : (keys (applyFunctions nanv kf n f rows)).Nodup := by
  unfold applyFunctions keys
  split
  · simp
  · dsimp only
    split
    · simp only [reindex, List.map_map]
      have : ((fun x : Key × β => x.1) ∘ fun k => (k, ((grouped kf f rows).lookup k).getD nanv)) = id := by
        funext k; rfl
      rw [this, List.map_id]
      apply nodup_product
      intro l hl
      simp only [levels, List.mem_map] at hl
      obtain ⟨j, _, rfl⟩ := hl
      exact nodup_uniq _
    · simp only [grouped, List.map_map]
      have : ((fun x : Key × β => x.1) ∘ fun k => (k, f (slice (rowsOf kf k rows)))) = id := by
        funext k; rfl
      rw [this, List.map_id]
      exact nodup_uniq _

theorem byGroup_index_nodup (nanv : β) (ncf nsf : Nat) (f : List α → β) (rows : List (Row α)) :
    (keys (byGroup nanv ncf nsf f rows)).Nodup :=
  applyFunctions_keys_nodup nanv Row.key _ f rows

/-- the index is exactly the Cartesian product of the observed values of each grouping column
    (for a single column: exactly the observed values) -/
theorem applyFunctions_keys_mem (nanv : β) (kf : Row α → Key) (n : Nat) (hn : 0 < n)
    (f : List α → β) (rows : List (Row α)) (hlen : KeyLen kf n rows) (k : Key) :
    k ∈ keys (applyFunctions nanv kf n f rows) ↔
      k.length = n ∧ ∀ j, j < n → Observed kf rows j (k.getD j "") := by
  have hobs : ∀ j a, a ∈ uniq (col j (rows.map kf)) ↔ Observed kf rows j a := by
    intro j a
    simp only [mem_uniq, col, List.map_map, List.mem_map, Observed, Function.comp]
  unfold applyFunctions keys
  rw [if_neg (by omega)]
  dsimp only
  split
  · -- several columns: product
    simp only [reindex, List.map_map]
    have : ((fun x : Key × β => x.1) ∘ fun k => (k, ((grouped kf f rows).lookup k).getD nanv)) = id := by
      funext k; rfl
    rw [this, List.map_id, mem_product, forall2_iff_getD]
    simp only [levels, List.length_map, List.length_range]
    constructor
    · rintro ⟨h1, h2⟩
      refine ⟨h1, fun j hj => ?_⟩
      have := h2 j hj
      rw [getD_map_range _ n j hj] at this
      exact (hobs j _).mp this
    · rintro ⟨h1, h2⟩
      refine ⟨h1, fun j hj => ?_⟩
      rw [getD_map_range _ n j hj]
      exact (hobs j _).mpr (h2 j hj)
  · -- one column: the observed tuples
    next hgt =>
    have hn1 : n = 1 := by omega
    subst hn1
    simp only [grouped, List.map_map]
    have : ((fun x : Key × β => x.1) ∘ fun k => (k, f (slice (rowsOf kf k rows)))) = id := by
      funext k; rfl
    rw [this, List.map_id, mem_uniq, List.mem_map]
    constructor
    · rintro ⟨r, hr, rfl⟩
      refine ⟨hlen r hr, fun j hj => ⟨r, hr, rfl⟩⟩
    · rintro ⟨h1, h2⟩
      obtain ⟨r, hr, he⟩ := h2 0 (by omega)
      refine ⟨r, hr, ?_⟩
      have hl := hlen r hr
      match hk : kf r, k, hl, h1, he with
      | [a], [b], _, _, he => simp at he; simp [he]

/-- `by_group` index with any number of feature columns: the Cartesian product of the observed
    values of each column, control columns first -/
theorem byGroup_index (nanv : β) (ncf nsf : Nat) (hn : 0 < ncf + nsf) (f : List α → β)
    (rows : List (Row α)) (hwf : WF ncf nsf rows) (k : Key) :
    k ∈ keys (byGroup nanv ncf nsf f rows) ↔
      k.length = ncf + nsf ∧ ∀ j, j < ncf + nsf → ∃ r ∈ rows, (r.cf ++ r.sf).getD j "" = k.getD j "" :=
  applyFunctions_keys_mem nanv Row.key _ hn f rows (keyLen_key hwf) k

/-- one sensitive feature, no control feature: the index is exactly the set of observed values -/
theorem byGroup_index_single (nanv : β) (f : List α → β) (rows : List (Row α)) (hwf : WF 0 1 rows)
    (a : Level) : [a] ∈ keys (byGroup nanv 0 1 f rows) ↔ ∃ r ∈ rows, r.sf = [a] := by
  rw [byGroup_index nanv 0 1 (by omega) f rows hwf]
  constructor
  · rintro ⟨_, h⟩
    obtain ⟨r, hr, he⟩ := h 0 (by omega)
    refine ⟨r, hr, ?_⟩
    have h1 := (hwf r hr).1
    have h2 := (hwf r hr).2
    match hc : r.cf, hs : r.sf, h1, h2 with
    | [], [b], _, _ => simp [hc, hs] at he; simp [he]
  · rintro ⟨r, hr, he⟩
    refine ⟨rfl, fun j hj => ⟨r, hr, ?_⟩⟩
    have h1 := (hwf r hr).1
    have : r.cf = [] := List.eq_nil_of_length_eq_zero h1
    simp [this, he]

/-- the index is strictly increasing (levels by code point, tuples lexicographically) -/
theorem applyFunctions_keys_sorted (nanv : β) (kf : Row α → Key) (n : Nat) (f : List α → β)
    (rows : List (Row α)) : (keys (applyFunctions nanv kf n f rows)).Pairwise (· < ·) := by
  unfold applyFunctions keys
  split
  · simp
  · dsimp only
    split
    · simp only [reindex, List.map_map]
      have : ((fun x : Key × β => x.1) ∘ fun k => (k, ((grouped kf f rows).lookup k).getD nanv)) = id := by
        funext k; rfl
      rw [this, List.map_id]
      apply pairwise_product
      intro l hl
      simp only [levels, List.mem_map] at hl
      obtain ⟨j, _, rfl⟩ := hl
      exact pairwise_uniq level_trans level_tri _
    · simp only [grouped, List.map_map]
      have : ((fun x : Key × β => x.1) ∘ fun k => (k, f (slice (rowsOf kf k rows)))) = id := by
        funext k; rfl
      rw [this, List.map_id]
      exact pairwise_uniq key_trans key_tri _

theorem byGroup_index_sorted (nanv : β) (ncf nsf : Nat) (f : List α → β) (rows : List (Row α)) :
    (keys (byGroup nanv ncf nsf f rows)).Pairwise (· < ·) :=
  applyFunctions_keys_sorted nanv Row.key _ f rows

/-! ### (3) a combination that contains no rows is reported as NaN, not dropped or filled -/

theorem byGroup_empty (nanv : β) (ncf nsf : Nat) (hn : 0 < ncf + nsf) (f : List α → β)
    (rows : List (Row α)) (hwf : WF ncf nsf rows) (k : Key)
    (hlen : k.length = ncf + nsf)
    (hobs : ∀ j, j < ncf + nsf → ∃ r ∈ rows, (r.cf ++ r.sf).getD j "" = k.getD j "")
    (hempty : ∀ r ∈ rows, r.cf ++ r.sf ≠ k) :
    (k, nanv) ∈ byGroup nanv ncf nsf f rows := by
  have hk : k ∈ keys (byGroup nanv ncf nsf f rows) :=
    (byGroup_index nanv ncf nsf hn f rows hwf k).mpr ⟨hlen, hobs⟩
  simp only [keys, List.mem_map] at hk
  obtain ⟨⟨k', v⟩, hmem, rfl⟩ := hk
  have hv := byGroup_cell nanv ncf nsf hn f rows k' v hmem
  have : rows.filter (fun r => r.cf ++ r.sf == k') = [] := by
    rw [List.filter_eq_nil_iff]
    intro r hr; simpa using hempty r hr
  rw [if_pos this] at hv
  rw [hv] at hmem; exact hmem

/-- conversely a NaN *placeholder* only ever stands for an empty combination: if rows exist, the
    entry is the metric value (which may of course itself be NaN if the metric says so) -/
theorem byGroup_nonempty (nanv : β) (ncf nsf : Nat) (hn : 0 < ncf + nsf) (f : List α → β)
    (rows : List (Row α)) (k : Key) (v : β) (h : (k, v) ∈ byGroup nanv ncf nsf f rows)
    (r : Row α) (hr : r ∈ rows) (hk : r.cf ++ r.sf = k) :
    v = f ((rows.filter (fun r => r.cf ++ r.sf == k)).map (·.dat)) := by
  have hv := byGroup_cell nanv ncf nsf hn f rows k v h
  have : ¬ rows.filter (fun r => r.cf ++ r.sf == k) = [] := by
    rw [List.filter_eq_nil_iff]
    intro hall; exact hall r hr (by simpa using hk)
  rwa [if_neg this] at hv

/-! ### (4) overall -/

/-- without control features `overall` is the metric on all rows -/
theorem overall_eq (nanv : β) (f : List α → β) (rows : List (Row α)) :
    overall nanv 0 f rows = [([], f (rows.map (·.dat)))] := rfl

/-- with control features: one entry per control combination, the metric on exactly its rows -/
theorem overall_control_cell (nanv : β) (ncf : Nat) (hn : 0 < ncf) (f : List α → β)
    (rows : List (Row α)) (c : Key) (v : β) (h : (c, v) ∈ overall nanv ncf f rows) :
    v = if rows.filter (fun r => r.cf == c) = [] then nanv
        else f ((rows.filter (fun r => r.cf == c)).map (·.dat)) :=
  applyFunctions_cell nanv Row.ckey ncf hn f rows c v h

theorem overall_control_index (nanv : β) (ncf nsf : Nat) (hn : 0 < ncf) (f : List α → β)
    (rows : List (Row α)) (hwf : WF ncf nsf rows) (c : Key) :
    c ∈ keys (overall nanv ncf f rows) ↔
      c.length = ncf ∧ ∀ j, j < ncf → ∃ r ∈ rows, r.cf.getD j "" = c.getD j "" :=
  applyFunctions_keys_mem nanv Row.ckey _ hn f rows (keyLen_ckey hwf) c

/-- the control part of every `by_group` tuple is an `overall` tuple (same strata on both sides) -/
theorem byGroup_stratum_in_overall (nanv : β) (ncf nsf : Nat) (hc : 0 < ncf) (f : List α → β)
    (rows : List (Row α)) (hwf : WF ncf nsf rows) (k : Key)
    (hk : k ∈ keys (byGroup nanv ncf nsf f rows)) :
    k.take ncf ∈ keys (overall nanv ncf f rows) := by
  rw [byGroup_index nanv ncf nsf (by omega) f rows hwf] at hk
  rw [overall_control_index nanv ncf nsf hc f rows hwf]
  refine ⟨by simp [hk.1], fun j hj => ?_⟩
  obtain ⟨r, hr, he⟩ := hk.2 j (by omega)
  refine ⟨r, hr, ?_⟩
  have h1 := (hwf r hr).1
  have e1 : (r.cf ++ r.sf).getD j "" = r.cf.getD j "" := by
    simp [List.getD_eq_getElem?_getD, List.getElem?_append_left (h1 ▸ hj)]
  have e2 : (k.take ncf).getD j "" = k.getD j "" := by
    simp [List.getD_eq_getElem?_getD, hj]
  rw [e2, ← he, e1]

/-! ### (5) the non-empty cells partition the rows -/

/-- Taking, for every index tuple, the rows it stands for gives back all rows, each exactly once
    (a permutation): no row is lost, duplicated or assigned to two cells. -/
theorem byGroup_partition (nanv : β) (ncf nsf : Nat) (hn : 0 < ncf + nsf) (f : List α → β)
    (rows : List (Row α)) (hwf : WF ncf nsf rows) :
    ((keys (byGroup nanv ncf nsf f rows)).flatMap (fun k => rowsOf Row.key k rows)).Perm rows := by
  apply partition_perm Row.key rows _ (byGroup_index_nodup nanv ncf nsf f rows)
  intro r hr
  rw [byGroup_index nanv ncf nsf hn f rows hwf]
  have := keyLen_key hwf r hr
  exact ⟨this, fun j _ => ⟨r, hr, rfl⟩⟩

/-- the same within the strata: the rows of the cells of one control combination are exactly the
    rows `overall` evaluates for that combination -/
theorem stratum_partition (nanv : β) (ncf nsf : Nat) (hn : 0 < ncf + nsf) (f : List α → β)
    (rows : List (Row α)) (hwf : WF ncf nsf rows) (c : Key) :
    (((keys (byGroup nanv ncf nsf f rows)).filter (fun k => k.take ncf == c)).flatMap
        (fun k => rowsOf Row.key k rows)).Perm (rowsOf Row.ckey c rows) := by
  have hp := byGroup_partition nanv ncf nsf hn f rows hwf
  have := hp.filter (fun r => r.cf == c)
  refine List.Perm.trans (List.Perm.of_eq ?_) this
  rw [List.filter_flatMap, flatMap_filter_ite]
  apply List.flatMap_congr
  intro k _
  by_cases hk : k.take ncf = c
  · simp only [hk, beq_self_eq_true, if_true]
    symm
    rw [List.filter_eq_self]
    intro r hr
    have hr' := mem_rowsOf.mp hr
    have h1 := (hwf r hr'.1).1
    have : r.cf = k.take ncf := by
      rw [← hr'.2]; simp [Row.key, ← h1]
    simp [this, hk]
  · have hk' : (k.take ncf == c) = false := by simpa using hk
    simp only [hk', Bool.false_eq_true, if_false]
    symm
    rw [List.filter_eq_nil_iff]
    intro r hr
    have hr' := mem_rowsOf.mp hr
    have h1 := (hwf r hr'.1).1
    have : r.cf = k.take ncf := by
      rw [← hr'.2]; simp [Row.key, ← h1]
    simp [this, hk]

/-! ### Tie to the source text (`Generated/FrameSrc.lean`)

`harness/lifters/frame.py` translates, on every run, the bodies of `DisaggregatedResult._apply_functions`
and `DisaggregatedResult.create` (which columns are grouped on, in which order: control features first,
then sensitive features; when the result is re-indexed and to what; `overall` per control stratum),
`apply_to_dataframe`, `AnnotatedMetricFunction.__call__` and the loop of
`MetricFrame._construct_annotated_metric_function` into Lean over the pandas primitives of
`Model/FramePrims.lean`.  `src_*_eq_model` identify the translation with `Frame.byGroup` / `overall`
for the column names `MetricFrame.__init__` passes, and the clauses of the property are restated for
the translated functions. -/

section Source
open FramePrims FrameSrc

theorem src_byGroup_eq_model (nanv : β) (ncf nsf : Nat) (f : List α → β) (rows : List (Row α))
    (hwf : WF ncf nsf rows) :
    create_by_group nanv rows f (sfNames nsf) (cfNames ncf) = byGroup nanv ncf nsf f rows :=
  create_by_group_eq_model nanv ncf nsf f rows hwf

theorem src_overall_eq_model (nanv : β) (ncf nsf : Nat) (f : List α → β) (rows : List (Row α))
    (hwf : WF ncf nsf rows) :
    create_overall nanv rows f (sfNames nsf) (cfNames ncf) = overall nanv ncf f rows :=
  create_overall_eq_model nanv ncf nsf f rows hwf

/-- translated `create(...).by_group`: every entry is the metric on exactly the rows of that tuple -/
theorem src_byGroup_cell (nanv : β) (ncf nsf : Nat) (hn : 0 < ncf + nsf) (f : List α → β)
    (rows : List (Row α)) (hwf : WF ncf nsf rows) (k : Key) (v : β)
    (h : (k, v) ∈ create_by_group nanv rows f (sfNames nsf) (cfNames ncf)) :
    v = if rows.filter (fun r => r.cf ++ r.sf == k) = [] then nanv
        else f ((rows.filter (fun r => r.cf ++ r.sf == k)).map (·.dat)) := by
  rw [src_byGroup_eq_model nanv ncf nsf f rows hwf] at h
  exact byGroup_cell nanv ncf nsf hn f rows k v h

/-- translated `create(...).by_group`: the index is the Cartesian product of the observed values,
    control columns first -/
theorem src_byGroup_index (nanv : β) (ncf nsf : Nat) (hn : 0 < ncf + nsf) (f : List α → β)
    (rows : List (Row α)) (hwf : WF ncf nsf rows) (k : Key) :
    k ∈ keys (create_by_group nanv rows f (sfNames nsf) (cfNames ncf)) ↔
      k.length = ncf + nsf ∧ ∀ j, j < ncf + nsf → ∃ r ∈ rows, (r.cf ++ r.sf).getD j "" = k.getD j "" := by
  rw [src_byGroup_eq_model nanv ncf nsf f rows hwf]
  exact byGroup_index nanv ncf nsf hn f rows hwf k

theorem src_byGroup_index_nodup_sorted (nanv : β) (ncf nsf : Nat) (f : List α → β)
    (rows : List (Row α)) (hwf : WF ncf nsf rows) :
    (keys (create_by_group nanv rows f (sfNames nsf) (cfNames ncf))).Nodup ∧
    (keys (create_by_group nanv rows f (sfNames nsf) (cfNames ncf))).Pairwise (· < ·) := by
  rw [src_byGroup_eq_model nanv ncf nsf f rows hwf]
  exact ⟨byGroup_index_nodup nanv ncf nsf f rows, byGroup_index_sorted nanv ncf nsf f rows⟩

/-- translated `create(...).by_group`: an observed-values combination without rows is NaN, not dropped -/
theorem src_byGroup_empty (nanv : β) (ncf nsf : Nat) (hn : 0 < ncf + nsf) (f : List α → β)
    (rows : List (Row α)) (hwf : WF ncf nsf rows) (k : Key) (hlen : k.length = ncf + nsf)
    (hobs : ∀ j, j < ncf + nsf → ∃ r ∈ rows, (r.cf ++ r.sf).getD j "" = k.getD j "")
    (hempty : ∀ r ∈ rows, r.cf ++ r.sf ≠ k) :
    (k, nanv) ∈ create_by_group nanv rows f (sfNames nsf) (cfNames ncf) := by
  rw [src_byGroup_eq_model nanv ncf nsf f rows hwf]
  exact byGroup_empty nanv ncf nsf hn f rows hwf k hlen hobs hempty

/-- translated `create(...).overall` without control features: the metric on all rows -/
theorem src_overall_eq (nanv : β) (nsf : Nat) (f : List α → β) (rows : List (Row α)) :
    create_overall nanv rows f (sfNames nsf) (cfNames 0) = [([], f (rows.map (·.dat)))] := rfl

/-- translated `create(...).overall` with control features: per control combination -/
theorem src_overall_control_cell (nanv : β) (ncf nsf : Nat) (hn : 0 < ncf) (f : List α → β)
    (rows : List (Row α)) (hwf : WF ncf nsf rows) (c : Key) (v : β)
    (h : (c, v) ∈ create_overall nanv rows f (sfNames nsf) (cfNames ncf)) :
    v = if rows.filter (fun r => r.cf == c) = [] then nanv
        else f ((rows.filter (fun r => r.cf == c)).map (·.dat)) := by
  rw [src_overall_eq_model nanv ncf nsf f rows hwf] at h
  exact overall_control_cell nanv ncf hn f rows c v h

theorem src_byGroup_partition (nanv : β) (ncf nsf : Nat) (hn : 0 < ncf + nsf) (f : List α → β)
    (rows : List (Row α)) (hwf : WF ncf nsf rows) :
    ((keys (create_by_group nanv rows f (sfNames nsf) (cfNames ncf))).flatMap
      (fun k => rowsOf Row.key k rows)).Perm rows := by
  rw [src_byGroup_eq_model nanv ncf nsf f rows hwf]
  exact byGroup_partition nanv ncf nsf hn f rows hwf

end Source

/-! ### Multi-metric frames: no cross-talk between the metrics of a dict

`Model/FrameMulti.lean`: `metrics=` a dict of any number of callables, each with its own entry of
`sample_params`; all sample parameters are stored in ONE table `all_data`.  The column of a parameter is
`f"{name}_{param_name}"` made unique by `while col_name in all_data.columns: col_name = col_name + "_"`
(translated from `_construct_annotated_metric_function`, repair 897f58c of finding F19), so the theorems
below need NO hypothesis on the metric or parameter names.  Under the pre-repair rule (no `while` loop) they
are false: `legacy_crosstalk_witness`, `legacy_basecolumn_witness`. -/

section Multi
open FramePrims FrameMulti

variable {γ : Type}

/-- the uniquify loop always ends on a name that is not yet a column of `all_data` -/
theorem column_name_fresh (t : AllData) (c : String) : uniquifyCol t c "_" ∉ columns t :=
  uniquifyCol_fresh t c "_" (by decide)

/-- `ColsOK`, proved for the current source: after constructing ANY dict of metrics the columns of
    `all_data` are pairwise distinct, y_true / y_pred still hold the data, and every metric is paired with
    an annotated function whose keyword columns hold exactly its own parameter values -/
theorem multi_columns_ok (yt yp : List Rat) (ms : List (MetricSpec γ)) :
    List.Forall₂ (RelV (constructAll (baseData yt yp) ms).1) ms (constructAll (baseData yt yp) ms).2 ∧
    getCol (constructAll (baseData yt yp) ms).1 "y_true" = yt ∧
    getCol (constructAll (baseData yt yp) ms).1 "y_pred" = yp :=
  constructAll_rel yt yp ms

/-- Every metric of a dict is called, on every slice, with y_true / y_pred of the slice and EXACTLY
    ITS OWN non-None sample parameters, sliced the same way — whatever the other metrics, their
    parameters and all the names are. -/
theorem multi_metric_own_params (yt yp : List Rat) (ms : List (MetricSpec γ))
    (hnames : (ms.map (·.name)).Nodup) (m : MetricSpec γ) (hm : m ∈ ms) :
    ∃ af, (∀ idx, (FrameSrc.apply_to_dataframe idx
            (fnDict (constructAll (baseData yt yp) ms).1 (constructAll (baseData yt yp) ms).2)).lookup m.name =
          some (metricFn (constructAll (baseData yt yp) ms).1 af idx)) ∧
      ∀ idx, metricFn (constructAll (baseData yt yp) ms).1 af idx =
        m.func [idx.map (fun j => yt.getD j 0), idx.map (fun j => yp.getD j 0)] (ownKwargs m idx) := by
  obtain ⟨hrel, h1, h2⟩ := constructAll_rel yt yp ms
  obtain ⟨af, hr, _, hl⟩ := lookup_fnDict_rel _ ms _ hrel hnames m hm (m.func [] [])
  exact ⟨af, hl, fun idx => metricFn_of_rel _ yt yp m af hr h1 h2 idx⟩

/-- each column of a multi-metric `by_group` equals the single-metric frame of that function with
    exactly its own sample parameters; any number of metrics, features, rows; any names (the dict keys
    are distinct, nothing else is assumed) -/
theorem multi_column_eq_single (nanv : γ) (ncf nsf : Nat) (yt yp : List Rat) (ms : List (MetricSpec γ))
    (rows : List (Row Nat)) (hwf : WF ncf nsf rows) (hnames : (ms.map (·.name)).Nodup)
    (m : MetricSpec γ) (hm : m ∈ ms) :
    FrameMulti.column m.name (byGroupFrame nanv ncf nsf (baseData yt yp) ms rows) =
      (singleByGroup nanv ncf nsf (baseData yt yp) m rows).map (fun p => (p.1, some p.2)) := by
  unfold byGroupFrame singleByGroup FrameMulti.column
  dsimp only
  rw [FrameSrc.create_by_group_eq_model _ _ _ _ _ hwf, FrameSrc.create_by_group_eq_model _ _ _ _ _ hwf]
  unfold byGroup
  refine (applyFunctions_map (fun row => List.lookup m.name row) _ _ _ _ _).trans ?_
  refine Eq.trans ?_ (applyFunctions_map some _ _ _ _ _).symm
  obtain ⟨hrel, h1, h2⟩ := constructAll_rel yt yp ms
  obtain ⟨af, hr, hnan, hl⟩ := lookup_fnDict_rel _ ms _ hrel hnames m hm nanv
  obtain ⟨hr1, g1, g2⟩ := construct_rel yt yp m
  rw [hnan]
  congr 1
  funext idx
  rw [hl idx, metricFn_of_rel _ yt yp m af hr h1 h2 idx, metricFn_of_rel _ yt yp m _ hr1 g1 g2 idx]

/-- the same for `overall` (per control stratum when control features exist) -/
theorem multi_overall_column_eq_single (nanv : γ) (ncf nsf : Nat) (yt yp : List Rat)
    (ms : List (MetricSpec γ)) (rows : List (Row Nat)) (hwf : WF ncf nsf rows)
    (hnames : (ms.map (·.name)).Nodup) (m : MetricSpec γ) (hm : m ∈ ms) :
    FrameMulti.column m.name (overallFrame nanv ncf nsf (baseData yt yp) ms rows) =
      (singleOverall nanv ncf nsf (baseData yt yp) m rows).map (fun p => (p.1, some p.2)) := by
  unfold overallFrame singleOverall FrameMulti.column
  dsimp only
  rw [FrameSrc.create_overall_eq_model _ _ _ _ _ hwf, FrameSrc.create_overall_eq_model _ _ _ _ _ hwf]
  unfold overall
  refine (applyFunctions_map (fun row => List.lookup m.name row) _ _ _ _ _).trans ?_
  refine Eq.trans ?_ (applyFunctions_map some _ _ _ _ _).symm
  obtain ⟨hrel, h1, h2⟩ := constructAll_rel yt yp ms
  obtain ⟨af, hr, hnan, hl⟩ := lookup_fnDict_rel _ ms _ hrel hnames m hm nanv
  obtain ⟨hr1, g1, g2⟩ := construct_rel yt yp m
  rw [hnan]
  congr 1
  funext idx
  rw [hl idx, metricFn_of_rel _ yt yp m af hr h1 h2 idx, metricFn_of_rel _ yt yp m _ hr1 g1 g2 idx]

/-- and the single-metric frame is the C01 model frame of "the metric with its own parameters":
    every clause of C01 applies to every column of a multi-metric frame -/
theorem single_eq_model (nanv : γ) (ncf nsf : Nat) (yt yp : List Rat) (m : MetricSpec γ)
    (rows : List (Row Nat)) (hwf : WF ncf nsf rows) :
    singleByGroup nanv ncf nsf (baseData yt yp) m rows =
      byGroup nanv ncf nsf
        (fun idx => m.func [idx.map (fun j => yt.getD j 0), idx.map (fun j => yp.getD j 0)] (ownKwargs m idx))
        rows := by
  unfold singleByGroup
  dsimp only
  rw [FrameSrc.create_by_group_eq_model _ _ _ _ _ hwf]
  obtain ⟨hr1, g1, g2⟩ := construct_rel yt yp m
  congr 1
  funext idx
  exact metricFn_of_rel _ yt yp m _ hr1 g1 g2 idx

/-- the public accessors hand out exactly the documented pandas types (table in the docstring of
    `MetricFrame.overall`), for the `_extract_result` / `_populate_results` lifted from the source -/
theorem accessor_types (bare hasControl : Bool) :
    byGroupType bare hasControl = (if bare then .series else .dataFrame) ∧
    overallType bare hasControl =
      (if bare then (if hasControl then .series else .scalar) else (if hasControl then .dataFrame else .series)) := by
  cases bare <;> cases hasControl <;> exact ⟨rfl, rfl⟩

/-- the metric used in the witnesses: the sum of its keyword arrays -/
def sumKw : List (List Rat) → List (String × List Rat) → Rat := fun _ kw => ((kw.map (·.2)).flatten).sum

/-- metrics named "a" and "a_b" with parameters "b_c" and "c": both columns would be called "a_b_c" -/
def xtalk : List (MetricSpec Rat) :=
  [⟨"a", some "a", sumKw, [("b_c", some [1, 2, 4])]⟩, ⟨"a_b", some "a_b", sumKw, [("c", some [10, 20, 40])]⟩]

def xtalk0 : MetricSpec Rat := xtalk.getD 0 ⟨"", none, sumKw, []⟩

/-- COUNTER-WITNESS (finding F19, pre-repair rule `legacyStep` = no uniquify loop): metric "a" receives the
    OTHER metric's parameter on the rows [0, 1] (30 instead of its own 3) … -/
theorem legacy_crosstalk_witness :
    metricFn (legacyConstructAll (baseData [0, 1, 1] [0, 1, 0]) xtalk).1
      ((legacyConstructAll (baseData [0, 1, 1] [0, 1, 0]) xtalk).2.getD 0 ⟨"", sumKw, [], []⟩) [0, 1] = 30
    ∧ sumKw [] (ownKwargs xtalk0 [0, 1]) = 3 := by
  exact ⟨by decide +kernel, by decide +kernel⟩

/-- … while the current (translated) rule gives it its own parameter: the second column is "a_b_c_" -/
theorem repaired_crosstalk_witness :
    metricFn (constructAll (baseData [0, 1, 1] [0, 1, 0]) xtalk).1
      ((constructAll (baseData [0, 1, 1] [0, 1, 0]) xtalk).2.getD 0 ⟨"", sumKw, [], []⟩) [0, 1] = 3
    ∧ columns (constructAll (baseData [0, 1, 1] [0, 1, 0]) xtalk).1 = ["a_b_c_", "a_b_c", "y_true", "y_pred"] := by
  exact ⟨by decide +kernel, by decide +kernel⟩

/-- the fraction-free agreement count of y_true and y_pred -/
def agree : List (List Rat) → List (String × List Rat) → Rat :=
  fun pos _ => (((pos.getD 0 []).zip (pos.getD 1 [])).filter (fun p => p.1 == p.2)).length

/-- a metric named "y" with a parameter named "pred": its column would be "y_pred" -/
def xbase : List (MetricSpec Rat) :=
  [⟨"y", some "y", sumKw, [("pred", some [1, 0, 0])]⟩, ⟨"acc", some "acc", agree, []⟩]

/-- COUNTER-WITNESS (F19, pre-repair rule): the parameter overwrites the `y_pred` column, so the OTHER metric
    of the dict sees the parameter values instead of the predictions (0 agreements instead of 2) … -/
theorem legacy_basecolumn_witness :
    metricFn (legacyConstructAll (baseData [0, 1, 1] [0, 1, 0]) xbase).1
      ((legacyConstructAll (baseData [0, 1, 1] [0, 1, 0]) xbase).2.getD 1 ⟨"", sumKw, [], []⟩) [0, 1, 2] = 0
    ∧ agree [[0, 1, 1], [0, 1, 0]] [] = 2 := by
  exact ⟨by decide +kernel, by decide +kernel⟩

/-- … while the current rule stores the parameter in "y_pred_" and leaves the predictions alone -/
theorem repaired_basecolumn_witness :
    metricFn (constructAll (baseData [0, 1, 1] [0, 1, 0]) xbase).1
      ((constructAll (baseData [0, 1, 1] [0, 1, 0]) xbase).2.getD 1 ⟨"", sumKw, [], []⟩) [0, 1, 2] = 2
    ∧ columns (constructAll (baseData [0, 1, 1] [0, 1, 0]) xbase).1 = ["y_pred_", "y_true", "y_pred"] := by
  exact ⟨by decide +kernel, by decide +kernel⟩

end Multi

/-! ### Feature names (`sensitive_levels` / `control_levels`)

`Model/FeatureNames.lean` models `MetricFrame._process_features`, `GroupFeature.__init__` and the
duplicate check of `MetricFrame.__init__`; the base names, the default-name format and the order of the
duplicate check are lifted from the source (`Generated/FeatureNamesSrc.lean`). -/

section Names
open FeatureNames

/-- `reservedClash` says exactly: some feature name is already a column of `all_data` -/
theorem reservedClash_iff (dataCols s cn : List String) :
    reservedClash dataCols s cn = true ↔ ∃ n ∈ s ++ cn, n ∈ dataCols := by
  simp only [reservedClash, FeatureNamesSrc.reservedCheck, FeatureNamesSrc.reservedSensitiveFirst, if_true,
    Bool.true_and, List.any_eq_true, List.contains_iff_mem]

/-- construction with control features succeeds exactly when both containers yield names, NO name is
    already a data column (y_true, y_pred, a sample-parameter column) and all names are distinct; the
    reserved-name rejection comes first -/
theorem names_accepts_iff (sb cb : String) (dataCols : List String) (sf : Container) (cc : Container)
    (s cn : List String) (hs : processFeatures sb sf = .ok s) (hc : processFeatures cb cc = .ok cn) :
    featureNames sb cb dataCols sf (some cc) =
      (if ∃ n ∈ s ++ cn, n ∈ dataCols then .error .reservedName
       else if (s ++ cn).Nodup then .ok (s, some cn) else .error .duplicateName) := by
  unfold featureNames
  simp only [hs, hc, FeatureNamesSrc.sensitiveNamesFirst, if_true]
  by_cases hr : ∃ n ∈ s ++ cn, n ∈ dataCols
  · rw [if_pos ((reservedClash_iff dataCols s cn).mpr hr), if_pos hr]
  · have : ¬ reservedClash dataCols s cn = true := fun h => hr ((reservedClash_iff dataCols s cn).mp h)
    rw [if_neg this, if_neg hr]
    by_cases hn : (s ++ cn).Nodup
    · have := (firstDuplicate_nil_none_iff _).mpr hn
      simp [this, hn]
    · have : firstDuplicate [] (s ++ cn) ≠ none := fun h => hn ((firstDuplicate_nil_none_iff _).mp h)
      cases hf : firstDuplicate [] (s ++ cn) with
      | none => exact absurd hf this
      | some x => simp [hn]

/-- the same without control features -/
theorem names_accepts_iff_no_control (sb cb : String) (dataCols : List String) (sf : Container)
    (s : List String) (hs : processFeatures sb sf = .ok s) :
    featureNames sb cb dataCols sf none =
      (if ∃ n ∈ s, n ∈ dataCols then .error .reservedName
       else if s.Nodup then .ok (s, none) else .error .duplicateName) := by
  unfold featureNames
  simp only [hs]
  have hiff := reservedClash_iff dataCols s []
  simp only [List.append_nil] at hiff
  by_cases hr : ∃ n ∈ s, n ∈ dataCols
  · rw [if_pos (hiff.mpr hr), if_pos hr]
  · have : ¬ reservedClash dataCols s [] = true := fun h => hr (hiff.mp h)
    rw [if_neg this, if_neg hr]
    by_cases hn : s.Nodup
    · have := (firstDuplicate_nil_none_iff _).mpr hn
      simp [this, hn]
    · have : firstDuplicate [] s ≠ none := fun h => hn ((firstDuplicate_nil_none_iff _).mp h)
      cases hf : firstDuplicate [] s with
      | none => exact absurd hf this
      | some x => simp [hn]

/-- whenever construction succeeds, the feature names (sensitive ++ control) are pairwise distinct AND none
    of them is a column of `all_data`: an accepted feature never overwrites y_true, y_pred or a
    sample-parameter column -/
theorem names_nodup_and_no_overwrite (sb cb : String) (dataCols : List String) (sf : Container)
    (cf : Option Container) (s : List String) (c : Option (List String))
    (h : featureNames sb cb dataCols sf cf = .ok (s, c)) :
    (s ++ c.getD []).Nodup ∧ ∀ n ∈ s ++ c.getD [], n ∉ dataCols := by
  cases hs : processFeatures sb sf with
  | error e => unfold featureNames at h; simp [hs] at h
  | ok s' =>
    cases cf with
    | none =>
      rw [names_accepts_iff_no_control sb cb dataCols sf s' hs] at h
      split at h
      · cases h
      · next hr =>
        split at h
        · next hn =>
          injection h with h; injection h with h1 h2; subst h1; subst h2
          simp only [Option.getD_none, List.append_nil]
          exact ⟨hn, fun n hn' hd => hr ⟨n, hn', hd⟩⟩
        · cases h
    | some cc =>
      cases hc : processFeatures cb cc with
      | error e => unfold featureNames at h; simp [hs, hc] at h
      | ok cn =>
        rw [names_accepts_iff sb cb dataCols sf cc s' cn hs hc] at h
        split at h
        · cases h
        · next hr =>
          split at h
          · next hn =>
            injection h with h; injection h with h1 h2; subst h1; subst h2
            exact ⟨hn, fun n hn' hd => hr ⟨n, hn', hd⟩⟩
          · cases h

theorem names_nodup (sb cb : String) (dataCols : List String) (sf : Container) (cf : Option Container)
    (s : List String) (c : Option (List String)) (h : featureNames sb cb dataCols sf cf = .ok (s, c)) :
    (s ++ c.getD []).Nodup :=
  (names_nodup_and_no_overwrite sb cb dataCols sf cf s c h).1

/-- a feature called like a data column is rejected: 'y_true', 'y_pred' (always columns) or the column of a
    sample parameter -/
theorem names_reserved_rejected (sb cb : String) (dataCols : List String) (sf : Container) (cf : Option Container)
    (s : List String) (hs : processFeatures sb sf = .ok s) (n : String) (hn : n ∈ s) (hd : n ∈ dataCols)
    (hcf : ∀ cc, cf = some cc → ∃ cn, processFeatures cb cc = .ok cn) :
    featureNames sb cb dataCols sf cf = .error .reservedName := by
  cases cf with
  | none =>
    rw [names_accepts_iff_no_control sb cb dataCols sf s hs, if_pos ⟨n, hn, hd⟩]
  | some cc =>
    obtain ⟨cn, hc⟩ := hcf cc rfl
    rw [names_accepts_iff sb cb dataCols sf cc s cn hs hc, if_pos ⟨n, by simp [hn], hd⟩]

/-- an error of either container is the error of the constructor (sensitive features first) -/
theorem names_error_propagates (sb cb : String) (dataCols : List String) (sf : Container) (cf : Option Container)
    (e : FErr) (h : processFeatures sb sf = .error e) : featureNames sb cb dataCols sf cf = .error e := by
  unfold featureNames; simp [h]

/-- which containers are rejected, and with which error -/
theorem names_rejected :
    (∀ b, processFeatures b (.series (some .other)) = .error .seriesNameNotString) ∧
    (∀ b cols, NameVal.other ∈ cols → processFeatures b (.dataframe cols) = .error .columnNameNotString) ∧
    (∀ b keys, NameVal.other ∈ keys → processFeatures b (.dict keys true) = .error .columnNameNotString) ∧
    (∀ b keys, processFeatures b (.dict keys false) = .error .dictConversion) ∧
    (∀ b, processFeatures b (.list false) = .error .listNonScalar) ∧
    (∀ b d k, d ≠ 1 → d ≠ 2 → processFeatures b (.array d k) = .error .tooManyDims) := by
  refine ⟨fun _ => rfl, fun b cols h => columnsNames_other b 0 cols h,
    fun b keys h => columnsNames_other b 0 keys h, fun _ _ => rfl, fun _ => rfl, ?_⟩
  intro b d k h1 h2
  match d, h1, h2 with
  | 0, _, _ => rfl
  | 1, h1, _ => exact absurd rfl h1
  | 2, _, h2 => exact absurd rfl h2
  | n + 3, _, _ => rfl

/-- which names an accepted container gets: the names it carries, else the defaults `base<i>` -/
theorem names_accepted (b : String) :
    processFeatures b (.series none) = .ok [defaultName b 0] ∧
    (∀ s, processFeatures b (.series (some (.str s))) = .ok [s]) ∧
    (∀ ss : List String, processFeatures b (.dataframe (ss.map .str)) = .ok ss) ∧
    (∀ ss : List String, processFeatures b (.dict (ss.map .str) true) = .ok ss) ∧
    processFeatures b (.list true) = .ok [defaultName b 0] ∧
    (∀ k, processFeatures b (.array 1 k) = .ok [defaultName b 0]) ∧
    (∀ k, processFeatures b (.array 2 k) = .ok ((List.range k).map (defaultName b))) :=
  ⟨rfl, fun _ => rfl, fun ss => columnsNames_str b 0 ss, fun ss => columnsNames_str b 0 ss, rfl,
    fun _ => rfl, fun _ => rfl⟩

/-- every container is either accepted or rejected with one of the listed errors: no other outcome -/
theorem names_total (b : String) (c : Container) :
    (∃ ns, processFeatures b c = .ok ns) ∨ (∃ e, processFeatures b c = .error e) := by
  cases h : processFeatures b c with
  | ok ns => exact .inl ⟨ns, rfl⟩
  | error e => exact .inr ⟨e, rfl⟩

/-- default names never collide with each other … -/
theorem names_default_distinct (b : String) (k : Nat) : ((List.range k).map (defaultName b)).Nodup :=
  default_names_nodup b k

/-- … nor across the two kinds of features, for the base names lifted from `__init__` -/
theorem names_default_disjoint (i j : Nat) :
    defaultName FeatureNamesSrc.sensitiveBase i ≠ defaultName FeatureNamesSrc.controlBase j := by
  intro h
  have h2 := congrArg String.toList h
  simp [defaultName, FeatureNamesSrc.defaultName, FeatureNamesSrc.sensitiveBase, FeatureNamesSrc.controlBase,
    String.toList_append] at h2

/-- default names are never `y_true` / `y_pred` -/
theorem names_default_not_base (i : Nat) :
    defaultName FeatureNamesSrc.sensitiveBase i ∉ ["y_true", "y_pred"] ∧
    defaultName FeatureNamesSrc.controlBase i ∉ ["y_true", "y_pred"] := by
  constructor <;> intro h <;> simp only [List.mem_cons, List.not_mem_nil, or_false] at h <;>
    rcases h with h | h <;>
    · have h2 := congrArg String.toList h
      simp [defaultName, FeatureNamesSrc.defaultName, FeatureNamesSrc.sensitiveBase, FeatureNamesSrc.controlBase,
        String.toList_append] at h2

/-- hence array / list inputs (which carry no names) are always accepted when no sample parameters are
    stored: any number of sensitive columns together with any number of control columns -/
theorem names_arrays_accepted (k l : Nat) :
    metricFrameNames ["y_true", "y_pred"] (.array 2 k) (some (.array 2 l)) =
      .ok ((List.range k).map (defaultName FeatureNamesSrc.sensitiveBase),
           some ((List.range l).map (defaultName FeatureNamesSrc.controlBase))) := by
  unfold metricFrameNames
  rw [names_accepts_iff _ _ _ _ _ _ _ rfl rfl, if_neg, if_pos]
  · rw [List.nodup_append]
    refine ⟨default_names_nodup _ k, default_names_nodup _ l, ?_⟩
    intro a ha b hb
    simp only [List.mem_map, List.mem_range] at ha hb
    obtain ⟨i, _, rfl⟩ := ha
    obtain ⟨j, _, rfl⟩ := hb
    exact names_default_disjoint i j
  · rintro ⟨n, hn, hd⟩
    simp only [List.mem_append, List.mem_map, List.mem_range] at hn
    rcases hn with ⟨i, _, rfl⟩ | ⟨i, _, rfl⟩
    · exact (names_default_not_base i).1 hd
    · exact (names_default_not_base i).2 hd

end Names

/-! ### Non-vacuity: a 6-row frame with 2 x 2 sensitive levels and one empty intersection -/

def exRows : List (Row Nat) :=
  [⟨10, [], ["a", "x"]⟩, ⟨20, [], ["a", "y"]⟩, ⟨30, [], ["b", "x"]⟩,
   ⟨40, [], ["a", "x"]⟩, ⟨50, [], ["b", "x"]⟩, ⟨60, [], ["a", "y"]⟩]

example : WF 0 2 exRows := by decide
example : byGroup 0 0 2 List.sum exRows =
    [(["a", "x"], 50), (["a", "y"], 80), (["b", "x"], 80), (["b", "y"], 0)] := by decide +kernel
example : overall 0 0 List.sum exRows = [([], 210)] := by decide +kernel

def exRowsC : List (Row Nat) :=
  [⟨1, ["m"], ["a"]⟩, ⟨2, ["k"], ["b"]⟩, ⟨4, ["k"], ["a"]⟩, ⟨8, ["k"], ["b"]⟩]

example : WF 1 1 exRowsC := by decide
example : byGroup 0 1 1 List.sum exRowsC =
    [(["k", "a"], 4), (["k", "b"], 10), (["m", "a"], 1), (["m", "b"], 0)] := by decide +kernel
example : overall 0 1 List.sum exRowsC = [(["k"], 14), (["m"], 1)] := by decide +kernel
example : byGroup 0 0 1 List.length [(⟨(), [], ["z"]⟩ : Row Unit), ⟨(), [], ["b"]⟩, ⟨(), [], ["z"]⟩] =
    [(["b"], 1), (["z"], 2)] := by decide +kernel

example : FeatureNames.metricFrameNames ["y_true", "y_pred"] (.series (some (.str "grp"))) (some (.dataframe [.str "a", .str "grp"])) =
    .error .duplicateName := by decide +kernel
example : FeatureNames.metricFrameNames ["y_true", "y_pred"] (.dict [.str "s", .other] true) none = .error .columnNameNotString := by decide +kernel
example : FeatureNames.metricFrameNames ["m_w", "y_true", "y_pred"] (.series (some (.str "y_pred"))) none = .error .reservedName := by decide +kernel
example : FeatureNames.metricFrameNames ["m_w", "y_true", "y_pred"] (.list true) (some (.series (some (.str "m_w")))) = .error .reservedName := by decide +kernel
example : FeatureNames.metricFrameNames ["y_true", "y_pred"] (.list true) (some (.series none)) =
    .ok (["sensitive_feature_0"], some ["control_feature_0"]) := by decide +kernel

end C01
