/-
C04X — composition theorems C04 ↔ C06: the rule fitted by `ThresholdOptimizer` satisfies the matching reduction
moment EXACTLY on its training data.

For `constraints = "demographic_parity"` / `"selection_rate_parity"`, `"true_positive_rate_parity"`,
`"false_positive_rate_parity"` and `"equalized_odds"`: take the training rows of all groups as rows of the
moment (`Cross.thrRows names groups`: label, group name, no control feature) and the fitted rule's EXPECTED
predictions `P(pred = 1 | score, group)` as prediction vector (`Cross.thrPred fit.rules groups`).  Then every
entry of `DemographicParity.gamma` / `TruePositiveRateParity.gamma` / `FalsePositiveRateParity.gamma` /
`EqualizedOdds.gamma` (difference form, ratio 1) is exactly 0 — hence (C06X) the constraint holds with slack 0
and the expected group rates all coincide with the expected overall rate.

Corollaries of `C04.parity_simple` / `C04.parity_EO` + the mixing step `Cross.mE_eq_of_groups_eq` (overall rate =
frequency-weighted mean of the group rates) + the dictionary `Cross.meanOn_thr`.
Any number of groups / rows, any grid size `N ≥ 1`, any objective, `flip`, and any forced grid index.
-/
import FairModel.Lemmas.CrossThreshold
import FairModel.Properties.C06X

namespace C04
open Threshold ThresholdGen Cross Moments

/-- simple constraints, generic in the constrained metric `xm` and the moment kind `k`: `e0` is the only event of
    the moment on these rows, it selects the rows whose label satisfies `L`, and `xm` on expected confusion counts is
    the mean over those rows -/
theorem threshold_simple_gamma_zero (k : Kind) (xm : Metric) (L : Bool → Bool) (e0 : String)
    (hx : IsConstraintMetric xm)
    (hm : ∀ (prob : Rat → Rat) (g : List Threshold.Row), thrMean L prob g = xm.eval (expCM prob g))
    (hev : ∀ r : Moments.Row, r.c = none → (r.y = 0 ∨ r.y = 1) →
      (∀ e, eventOf k r = some e → e = e0) ∧ inE (eventOf k) e0 r = L (r.y == 1))
    (flip : Bool) (ym : Metric) (N : Nat) (names : List String) (groups : List (List Threshold.Row))
    (force : Option Nat) (fit : Fit) (hN : 1 ≤ N) (hnd : names.Nodup) (hl : names.length = groups.length)
    (hfit : fitSimple flip xm ym N groups force = some fit) :
    ∀ key ∈ index (eventOf k) (thrRows names groups),
      gammaAt (eventOf k) (thrRows names groups) 1 defaultUtil (thrPred fit.rules groups) key = 0 := by
  obtain ⟨_, _, hrl, hpar⟩ := parity_simple flip xm ym N groups force fit hN hx hfit
  apply thr_gamma_zero (eventOf k) names groups fit.rules (fun _ => gridVal N fit.iBest) hnd hl hrl
  intro e ⟨r0, hr0, he0⟩
  obtain ⟨hc0, hy0⟩ := thrRows_shape hr0
  have hee : e = e0 := (hev r0 hc0 hy0).1 e he0
  subst hee
  refine ⟨L, fun r hr => ?_, fun j hj hj' _ => ?_⟩
  · obtain ⟨hc, hy⟩ := thrRows_shape hr
    exact (hev r hc hy).2
  · rw [hm]
    exact (hpar j hj hj').1

/-- **ThresholdOptimizer(constraints="demographic_parity" / "selection_rate_parity") ⇒
    DemographicParity.gamma = 0 entrywise** on the training rows, for the fitted rule's expected predictions -/
theorem threshold_dp_gamma_zero (flip : Bool) (ym : Metric) (N : Nat) (names : List String)
    (groups : List (List Threshold.Row)) (force : Option Nat) (fit : Fit) (hN : 1 ≤ N) (hnd : names.Nodup)
    (hl : names.length = groups.length)
    (hfit : fitSimple flip .selection_rate ym N groups force = some fit) :
    ∀ key ∈ index (eventOf .dp) (thrRows names groups),
      gammaAt (eventOf .dp) (thrRows names groups) 1 defaultUtil (thrPred fit.rules groups) key = 0 := by
  apply threshold_simple_gamma_zero .dp .selection_rate (fun _ => true) MomentsSrc.allEvent (by decide +kernel)
    thrMean_selection_rate ?_ flip ym N names groups force fit hN hnd hl hfit
  intro r hc _
  rw [event_shape .dp r hc]
  refine ⟨fun e he => ?_, ?_⟩
  · simp only [baseEvent, Option.some.injEq] at he; exact he.symm
  · simp [inE, event_shape .dp r hc, baseEvent]

/-- **ThresholdOptimizer(constraints="true_positive_rate_parity") ⇒ TruePositiveRateParity.gamma = 0** -/
theorem threshold_tpr_gamma_zero (flip : Bool) (ym : Metric) (N : Nat) (names : List String)
    (groups : List (List Threshold.Row)) (force : Option Nat) (fit : Fit) (hN : 1 ≤ N) (hnd : names.Nodup)
    (hl : names.length = groups.length)
    (hfit : fitSimple flip .true_positive_rate ym N groups force = some fit) :
    ∀ key ∈ index (eventOf .tpr) (thrRows names groups),
      gammaAt (eventOf .tpr) (thrRows names groups) 1 defaultUtil (thrPred fit.rules groups) key = 0 := by
  apply threshold_simple_gamma_zero .tpr .true_positive_rate (fun b => b) (MomentsSrc.labelEvent 1) (by decide +kernel)
    thrMean_true_positive_rate ?_ flip ym N names groups force fit hN hnd hl hfit
  intro r hc hy
  rw [event_shape .tpr r hc]
  rcases hy with h | h
  · refine ⟨fun e he => ?_, ?_⟩
    · simp [baseEvent, h, MomentsSrc.tprLabel] at he
    · simp [inE, event_shape .tpr r hc, baseEvent, h, MomentsSrc.tprLabel]
  · refine ⟨fun e he => ?_, ?_⟩
    · simp only [baseEvent, h, MomentsSrc.tprLabel, if_true, Option.some.injEq] at he; exact he.symm
    · simp [inE, event_shape .tpr r hc, baseEvent, h, MomentsSrc.tprLabel]

/-- **ThresholdOptimizer(constraints="false_positive_rate_parity") ⇒ FalsePositiveRateParity.gamma = 0** -/
theorem threshold_fpr_gamma_zero (flip : Bool) (ym : Metric) (N : Nat) (names : List String)
    (groups : List (List Threshold.Row)) (force : Option Nat) (fit : Fit) (hN : 1 ≤ N) (hnd : names.Nodup)
    (hl : names.length = groups.length)
    (hfit : fitSimple flip .false_positive_rate ym N groups force = some fit) :
    ∀ key ∈ index (eventOf .fpr) (thrRows names groups),
      gammaAt (eventOf .fpr) (thrRows names groups) 1 defaultUtil (thrPred fit.rules groups) key = 0 := by
  apply threshold_simple_gamma_zero .fpr .false_positive_rate (fun b => !b) (MomentsSrc.labelEvent 0) (by decide +kernel)
    thrMean_false_positive_rate ?_ flip ym N names groups force fit hN hnd hl hfit
  intro r hc hy
  rw [event_shape .fpr r hc]
  rcases hy with h | h
  · refine ⟨fun e he => ?_, ?_⟩
    · simp only [baseEvent, h, MomentsSrc.fprLabel, if_true, Option.some.injEq] at he; exact he.symm
    · simp [inE, event_shape .fpr r hc, baseEvent, h, MomentsSrc.fprLabel]
  · refine ⟨fun e he => ?_, ?_⟩
    · simp [baseEvent, h, MomentsSrc.fprLabel] at he
    · simp [inE, event_shape .fpr r hc, baseEvent, h, MomentsSrc.fprLabel]

/-- **ThresholdOptimizer(constraints="equalized_odds") ⇒ EqualizedOdds.gamma = 0 entrywise**: every group's
    expected TPR is `y_best` and expected FPR is `x_best`, hence so are the overall ones (mixing) -/
theorem threshold_eo_gamma_zero (flip : Bool) (obj : Metric) (N : Nat) (names : List String)
    (groups : List (List Threshold.Row)) (force : Option Nat) (fit : Fit) (yBest : Rat) (hN : 1 ≤ N)
    (hnd : names.Nodup) (hl : names.length = groups.length)
    (hfit : fitEO flip obj N groups force = some (fit, yBest)) :
    ∀ key ∈ index (eventOf .eo) (thrRows names groups),
      gammaAt (eventOf .eo) (thrRows names groups) 1 defaultUtil (thrPred fit.rules groups) key = 0 := by
  obtain ⟨_, _, hrl, hpar⟩ := parity_EO flip obj N groups force fit yBest hN hfit
  apply thr_gamma_zero (eventOf .eo) names groups fit.rules
    (fun e => if e = MomentsSrc.labelEvent 1 then yBest else gridVal N fit.iBest) hnd hl hrl
  intro e ⟨r0, hr0, he0⟩
  obtain ⟨hc0, hy0⟩ := thrRows_shape hr0
  rw [event_shape .eo r0 hc0] at he0
  simp only [baseEvent, Option.some.injEq] at he0
  rcases hy0 with h0 | h0
  · -- the event of the negatives: FPR
    rw [h0] at he0; subst he0
    refine ⟨fun b => !b, fun r hr => ?_, fun j hj hj' _ => ?_⟩
    · obtain ⟨hc, hy⟩ := thrRows_shape hr
      rcases hy with h | h <;> simp only [inE, event_shape .eo r hc, baseEvent, h] <;> decide +kernel
    · rw [thrMean_false_positive_rate, if_neg (by decide +kernel)]
      exact (hpar j hj hj').1
  · rw [h0] at he0; subst he0
    refine ⟨fun b => b, fun r hr => ?_, fun j hj hj' _ => ?_⟩
    · obtain ⟨hc, hy⟩ := thrRows_shape hr
      rcases hy with h | h <;> simp only [inE, event_shape .eo r hc, baseEvent, h] <;> decide +kernel
    · rw [thrMean_true_positive_rate, if_pos rfl]
      exact (hpar j hj hj').2.1

/-- corollary in the vocabulary of C06X: the fitted rule satisfies the moment's constraint with slack 0 (and
    with every slack `eps ≥ 0`), so all of C06X's bounds apply to its expected predictions with `eps = 0` -/
theorem threshold_dp_constraint_satisfied (flip : Bool) (ym : Metric) (N : Nat) (names : List String)
    (groups : List (List Threshold.Row)) (force : Option Nat) (fit : Fit) (hN : 1 ≤ N) (hnd : names.Nodup)
    (hl : names.length = groups.length)
    (hfit : fitSimple flip .selection_rate ym N groups force = some fit) (eps : Rat) (he : 0 ≤ eps) :
    GammaLe (eventOf .dp) (thrRows names groups) 1 defaultUtil (thrPred fit.rules groups) eps := by
  intro key hk
  rw [threshold_dp_gamma_zero flip ym N names groups force fit hN hnd hl hfit key hk]
  exact he

theorem threshold_eo_constraint_satisfied (flip : Bool) (obj : Metric) (N : Nat) (names : List String)
    (groups : List (List Threshold.Row)) (force : Option Nat) (fit : Fit) (yBest : Rat) (hN : 1 ≤ N)
    (hnd : names.Nodup) (hl : names.length = groups.length)
    (hfit : fitEO flip obj N groups force = some (fit, yBest)) (eps : Rat) (he : 0 ≤ eps) :
    GammaLe (eventOf .eo) (thrRows names groups) 1 defaultUtil (thrPred fit.rules groups) eps := by
  intro key hk
  rw [threshold_eo_gamma_zero flip obj N names groups force fit yBest hN hnd hl hfit key hk]
  exact he

/-- the mixing step on its own: the expected overall selection rate of the fitted rule is the common group value -/
theorem threshold_overall_selection_rate (flip : Bool) (ym : Metric) (N : Nat) (names : List String)
    (groups : List (List Threshold.Row)) (force : Option Nat) (fit : Fit) (hN : 1 ≤ N) (hnd : names.Nodup)
    (hne : thrRows names groups ≠ [])
    (hfit : fitSimple flip .selection_rate ym N groups force = some fit) :
    meanOn (fun _ => true) (thrRows names groups) (thrPred fit.rules groups) = gridVal N fit.iBest := by
  obtain ⟨_, _, hrl, hpar⟩ := parity_simple flip .selection_rate ym N groups force fit hN (by decide +kernel) hfit
  obtain ⟨r0, hr0⟩ := List.exists_mem_of_ne_nil _ hne
  have hin : ∀ r ∈ thrRows names groups, inE (eventOf .dp) MomentsSrc.allEvent r = true := by
    intro r hr
    simp [inE, event_shape .dp r (thrRows_shape hr).1, baseEvent]
  rw [← meanOn_congr _ (p := inE (eventOf .dp) MomentsSrc.allEvent) (fun r hr => hin r hr)]
  apply mE_eq_of_groups_eq
  · intro g hobs
    obtain ⟨r, hr, _, hg⟩ := hobs
    obtain ⟨j, nm, gj, x, hj1, hj2, hx, rfl⟩ := mem_thrRows hr
    have hjg : j < groups.length := (List.getElem?_eq_some_iff.mp hj2).1
    have hjr : j < fit.rules.length := by omega
    have hgj : groups[j] = gj := (List.getElem?_eq_some_iff.mp hj2).2
    have hpred : ∀ r' ∈ thrRows names groups,
        inEG (eventOf .dp) MomentsSrc.allEvent g r' = pL (fun _ => true) nm r' := by
      intro r' hr'
      rw [inEG_eq, hin r' hr', ← hg]; rfl
    rw [meanOn_congr _ hpred]
    unfold thrPred
    rw [meanOn_thr (fun _ => true) names groups _ hnd j nm gj (ruleProb fit.rules[j]) hj1 hj2
      (by simp [List.getElem?_eq_getElem hjr]), thrMean_selection_rate]
    have := (hpar j hjg hjr).1
    rw [hgj] at this
    exact this
  · exact ⟨r0.g, r0, hr0, by simpa [inE] using hin r0 hr0, rfl⟩

/-! ### non-vacuity: the 3-group example of C04 (ties, vertical hull segment, non-trivial p_ignore) -/

def exNames : List String := ["a", "b", "c"]

example : exNames.Nodup ∧ exNames.length = ex.length := by decide +kernel
example : (fitSimple false .selection_rate .balanced_accuracy_score 3 ex none).isSome := by decide +kernel
example : (fitSimple false .selection_rate .balanced_accuracy_score 3 ex none).map
    (fun f => gamma (eventOf .dp) (thrRows exNames ex) 1 defaultUtil (thrPred f.rules ex)) =
    some [0, 0, 0, 0, 0, 0] := by decide +kernel
example : (fitEO false .accuracy_score 4 ex none).map
    (fun f => gamma (eventOf .eo) (thrRows exNames ex) 1 defaultUtil (thrPred f.1.rules ex)) =
    some [0, 0, 0, 0, 0, 0, 0, 0, 0, 0, 0, 0] := by decide +kernel
example : (fitSimple true .true_positive_rate .accuracy_score 5 ex none).map
    (fun f => gamma (eventOf .tpr) (thrRows exNames ex) 1 defaultUtil (thrPred f.rules ex)) =
    some [0, 0, 0, 0, 0, 0] := by decide +kernel

/-! ## Work package L3: from `gamma = 0` to the user-facing metric (ThresholdOptimizer end to end)

`threshold_*_gamma_zero` says the fitted rule's expected predictions make every entry of the matching moment's gamma
vanish.  Through C06X (`meanpred_difference_le_of_constraint` at `eps = 0`) the `mean_prediction` difference that
`fairlearn.metrics.MetricFrame` reports for these expected predictions on the rows of each event — all rows for
demographic parity; the positives / the negatives for the TPR / FPR / equalized-odds constraints — is EXACTLY 0, for
both `method`s.  (This is the second half of crosscheck relation `X1.threshold-gamma-zero`.) -/

/-- any prediction vector whose difference-form gamma vanishes entrywise has `mean_prediction` difference exactly 0
    on the rows of every observed event -/
theorem meanpred_difference_zero_of_gamma_zero (ev : Ev) (rows : List Moments.Row) (h : List Rat) (e : String)
    (hl : h.length = rows.length) (hne : ∃ g, Observed ev rows e g)
    (hz : ∀ key ∈ index ev rows, gammaAt ev rows 1 defaultUtil h key = 0) :
    Fairness.run .meanpred .difference .toOverall true 1 (toFrame (inE ev e) rows h) = .value (XR.fin 0) ∧
    Fairness.run .meanpred .difference .between true 1 (toFrame (inE ev e) rows h) = .value (XR.fin 0) := by
  have hg : GammaLe ev rows 1 defaultUtil h 0 := by
    intro key hk; rw [hz key hk]
  obtain ⟨⟨D1, h1, h10, h11⟩, ⟨D2, h2, h20, h21⟩⟩ := C06.meanpred_difference_le_of_constraint ev rows h 0 e hl hne hg
  have e1 : D1 = 0 := le_antisymm h11 h10
  have e2 : D2 = 0 := le_antisymm (by linarith) h20
  rw [h1, h2, e1, e2]
  exact ⟨rfl, rfl⟩

/-- **ThresholdOptimizer(demographic_parity / selection_rate_parity) ⇒ `mean_prediction` difference of the expected
    predictions = 0** on the training data (both methods) -/
theorem threshold_dp_meanpred_difference_zero (flip : Bool) (ym : Metric) (N : Nat) (names : List String)
    (groups : List (List Threshold.Row)) (force : Option Nat) (fit : Fit) (hN : 1 ≤ N) (hnd : names.Nodup)
    (hl : names.length = groups.length) (hne : thrRows names groups ≠ [])
    (hfit : fitSimple flip .selection_rate ym N groups force = some fit) :
    Fairness.run .meanpred .difference .toOverall true 1
        (toFrame (inE (eventOf .dp) MomentsSrc.allEvent) (thrRows names groups) (thrPred fit.rules groups)) = .value (XR.fin 0) ∧
    Fairness.run .meanpred .difference .between true 1
        (toFrame (inE (eventOf .dp) MomentsSrc.allEvent) (thrRows names groups) (thrPred fit.rules groups)) = .value (XR.fin 0) := by
  obtain ⟨_, _, hrl, _⟩ := parity_simple flip .selection_rate ym N groups force fit hN (by decide +kernel) hfit
  obtain ⟨r0, hr0⟩ := List.exists_mem_of_ne_nil _ hne
  apply meanpred_difference_zero_of_gamma_zero _ _ _ _ (thr_lengths names groups _ hl (by simp [hrl]))
  · exact ⟨r0.g, r0, hr0, by rw [event_shape .dp r0 (thrRows_shape hr0).1]; rfl, rfl⟩
  · exact threshold_dp_gamma_zero flip ym N names groups force fit hN hnd hl hfit

/-- **ThresholdOptimizer(equalized_odds) ⇒ the expected TPRs (`lab = 1`) and expected FPRs (`lab = 0`) of all groups
    coincide with the overall ones**: `mean_prediction` difference 0 on the rows with label `lab` -/
theorem threshold_eo_meanpred_difference_zero (flip : Bool) (obj : Metric) (N : Nat) (names : List String)
    (groups : List (List Threshold.Row)) (force : Option Nat) (fit : Fit) (yBest : Rat) (hN : 1 ≤ N)
    (hnd : names.Nodup) (hl : names.length = groups.length)
    (hfit : fitEO flip obj N groups force = some (fit, yBest)) (lab : Int)
    (hne : ∃ g, Observed (eventOf .eo) (thrRows names groups) (MomentsSrc.labelEvent lab) g) :
    Fairness.run .meanpred .difference .toOverall true 1
        (toFrame (inE (eventOf .eo) (MomentsSrc.labelEvent lab)) (thrRows names groups) (thrPred fit.rules groups)) = .value (XR.fin 0) ∧
    Fairness.run .meanpred .difference .between true 1
        (toFrame (inE (eventOf .eo) (MomentsSrc.labelEvent lab)) (thrRows names groups) (thrPred fit.rules groups)) = .value (XR.fin 0) := by
  obtain ⟨_, _, hrl, _⟩ := parity_EO flip obj N groups force fit yBest hN hfit
  exact meanpred_difference_zero_of_gamma_zero _ _ _ _ (thr_lengths names groups _ hl (by simp [hrl])) hne
    (threshold_eo_gamma_zero flip obj N names groups force fit yBest hN hnd hl hfit)

/-- non-vacuity: the 3-group example, demographic parity and equalized odds (positives) -/
example : (fitSimple false .selection_rate .balanced_accuracy_score 3 ex none).map
    (fun f => Fairness.run .meanpred .difference .between true 1
      (toFrame (inE (eventOf .dp) MomentsSrc.allEvent) (thrRows exNames ex) (thrPred f.rules ex))) = some (.value (XR.fin 0)) := by
  decide +kernel
example : thrRows exNames ex ≠ [] := by decide +kernel
example : (fitEO false .accuracy_score 4 ex none).map
    (fun f => Fairness.run .meanpred .difference .toOverall true 1
      (toFrame (inE (eventOf .eo) (MomentsSrc.labelEvent 1)) (thrRows exNames ex) (thrPred f.1.rules ex))) = some (.value (XR.fin 0)) := by
  decide +kernel

end C04
