/-
C12 — rows are matched by position, not by container type, index label or row order.

What is proved here (for ALL row lists, no size bound) is the half of the property that lives inside the
models of C01/C02/C06: the models take the positional zip of the arguments as a `List Row`, and
  * jointly permuting the rows changes none of the results (MetricFrame tables, aggregates, the six named
    fairness metrics, moment index / gamma; signed weights travel with their rows),
  * a column-wise injective relabelling of the feature values only renames the index entries; aggregates
    and fairness metrics are unchanged when the control labels are kept.
Container types and pandas index labels: section (5) below.  `Model/Container.lean` models an argument as
(container kind, index labels, payload), the conversion it passes through, and the label-aligning placement into one
frame; WHICH conversion each argument of each entry point passes through is lifted from the source on every run
(`Generated/ContainerSites.lean`, lifter `harness/lifters/containers.py`).  Proved: if every argument passes through a
label-dropping conversion the result is a function of the payloads only, for ALL index labels and container kinds
(`containers_irrelevant`), and the rows are paired by position (`positional_pairing`); every lifted site is label
dropping (`lifted_sites_drop_labels`, a `decide` over the generated finite table — it FAILS, naming the site, when an
argument reaches a frame raw); a raw Series IS label sensitive (`raw_series_is_label_sensitive`).  What stays
correspondence-only: that the lifted table covers every path of the real code (the lifter analyses the listed
functions intra-procedurally), and pandas' reindexing semantics themselves (op `cont.place` vs real pandas).

Helper lemmas: `Lemmas/Perm.lean`, `Lemmas/PermAggregate.lean`, `Lemmas/PermRename.lean`,
`Lemmas/PermMoments.lean`, `Lemmas/Container.lean`, `Lemmas/C12Review.lean`, `Lemmas/C12ReviewInj.lean`; definitions: `Model/Perm.lean`,
`Model/Container.lean`.

CLAUSE → THEOREM TABLE (review R3; clause text from properties.jsonl)

A. "MetricFrame, the fairness metrics, the constraint moments, ExponentiatedGradient, GridSearch and ThresholdOptimizer
   give identical results whether y, predictions, sample parameters and sensitive/control features arrive as lists,
   numpy arrays, pandas Series or single-column DataFrames (or dicts of arrays for features), and whatever index labels
   the pandas objects carry - rows are always paired by position, never by label."
   A1 container MODEL (`Cont.run`: per argument kind × labels × payload → conversion → label-aligning placement):
      every argument through a label-dropping conversion ⇒ the result is a function of the payloads only, for all kinds
      and all labels                         | containers_irrelevant, containers_irrelevant_guarded (conversions and
                                               arguments of equal number; `placeAll_truncates` = what the unguarded one
                                               silently allows), positional_pairing, conv_drops_labels      | FULL (model)
   A2 which conversion each argument of each entry point passes through
                                             | lifted_sites_drop_labels (`decide` over the table generated from the source
                                               on every run), lifted_sites_nonempty, raw_site_is_flagged (a `raw` row makes
                                               that `decide` false), lifted_sites_cover, lifted_entry_irrelevant (table +
                                               A1 composed: any arguments list of lifted sites ⇒ labels and kinds
                                               irrelevant), validate_fresh, fresh_align_is_positional       | FULL for the
                                               40 lifted (entry, argument, sink) rows
   A3 necessity: what a raw Series does       | raw_series_is_label_sensitive, raw_place_dup_raises, raw_place_wf
                                               (NaN exactly at positions without a label; the labelled value otherwise),
                                               place_length_artefact (totalisation of the model outside well-formed
                                               Series), wrong_length_raises / fresh_wrong_length_is_reindexed (the
                                               branches `positional_pairing` excludes)                                                      | FULL (model;
                                               the five witness placements replayed on pandas 3.0.6 by the review)
   A4 that the lifted rows are ALL the paths on which an argument reaches a label-aligning operation, and pandas'
      reindexing itself                       | —                                                           | CORRESPONDENCE-
                                               ONLY (streams mf, fm, mom, cont of harness/props/c12.py; `cont.place` now
                                               also with conversion `raw` against a real pandas column assignment)
   A5 ExponentiatedGradient, GridSearch, ThresholdOptimizer (fit, predict, `_pmf_predict`)
                                             | only through the rows of `_validate_and_reformat_input`, the moments'
                                               `load_data` / `gamma`, `_reformat_data_into_dict`,
                                               `InterpolatedThresholder._pmf_predict`                        | CORRESPONDENCE-
                                               ONLY (streams eg, gs, redcf, to: every variant against the list run of the
                                               same call and a Fraction oracle on the positional zip).  NOT in the lifted
                                               table (lifter gaps): the bodies of `ExponentiatedGradient.fit/_pmf_predict`
                                               (the F16b site), `GridSearch.fit/predict`, `ThresholdOptimizer.fit/predict`,
                                               and the sinks `Moment.load_data: tags[_GROUP_ID] = sensitive_features`,
                                               `UtilityParity.load_data: tags[_EVENT] = event` themselves (the table
                                               records what the subclasses pass to `super().load_data`).
B. "Jointly permuting all rows leaves metric results unchanged"
   B1 MetricFrame.by_group / overall          | byGroup_perm, overall_perm (hypothesis `PermInv f`: pool_permInv proves it
                                               for all 17 pool metrics — every metric the check's `mf` stream uses —,
                                               byGroup_pool_perm), byGroup_index_perm / levels_perm / slice_perm (no
                                               hypothesis), wf_perm (both sides are inside the modelled domain)   | FULL
   B2 group_min / group_max / difference / ratio | ofFrame_perm, aggregate_perm                                 | FULL
   B3 the six named fairness metrics          | fairness_perm, dpDifference_perm, eoddsDifference_perm              | FULL
   B4 moments (beyond the clause)             | moment_index_perm, moment_gamma_perm, moment_signedWeights_perm,
                                               moment_bound_perm, errorRate_gamma_perm, errorRate_signedWeights_perm,
                                               bgl_gamma_perm, bgl_signedWeights_perm                              | FULL
   B5 ThresholdOptimizer                      | —                                           | CORRESPONDENCE-ONLY (to/perm);
                                               EG / GridSearch: no permutation stream (GridSearch drops the last-SEEN group)
C. "renaming group labels by a bijection only renames the corresponding index entries"
   C1 by_group / overall                      | rename_equivariant_on (hypothesis `Perm.InjOnObserved σs rows`: column by
                                               column injective on the labels that OCCUR = a bijection of the observed
                                               labels onto their images; `List.Perm` = same MULTISET of (renamed tuple,
                                               value) entries, arbitrary metric), rename_equivariant (+ rename_lookup;
                                               the same for relabellings injective on ALL strings — the form the first
                                               build had; its own examples used relabellings that are NOT of that kind),
                                               rename_index_sorted + rename_determined (LIST form: the new table is the one
                                               arrangement of those entries whose index is sorted by the NEW labels),
                                               rename_monotone_eq (order-preserving relabelling ⇒ literally the mapped
                                               list; false otherwise, see the `exSwap` example)                  | FULL
   C2 necessity                               | non_injective_rename_merges (two labels mapped to one: the groups merge,
                                               the entry count drops), rename_needs_wf (rows of the wrong width: `getD`
                                               default of `Frame.col`)                                           | FULL
   C3 aggregates, named metrics               | aggregate_rename_on, fairness_rename_on (observed-label form), frame_rename,
                                               aggregate_rename, fairness_rename                                 | FULL
   C4 moments, ThresholdOptimizer             | —                             | CORRESPONDENCE-ONLY (mom/relabel, to/relabel)
-/
import FairModel.Lemmas.Perm
import FairModel.Lemmas.PermAggregate
import FairModel.Lemmas.PermRename
import FairModel.Lemmas.PermMoments
import FairModel.Lemmas.Container
import FairModel.Lemmas.C12Review
import FairModel.Lemmas.C12ReviewInj

namespace C12
open Frame MetricPool Aggregate Perm

variable {α β : Type}

/-! ### (1) MetricFrame tables under a permutation of the rows -/

/-- `by_group` is the same table (same index, same order, same cells) for permuted rows, for every metric
    function that does not depend on the order of the rows of its slice. -/
theorem byGroup_perm (nanv : β) (ncf nsf : Nat) (f : List α → β) (hf : PermInv f)
    {rows rows' : List (Row α)} (hp : rows.Perm rows') :
    byGroup nanv ncf nsf f rows = byGroup nanv ncf nsf f rows' :=
  applyFunctions_perm nanv Row.key _ f hf hp

/-- `overall` (with or without control features) likewise -/
theorem overall_perm (nanv : β) (ncf : Nat) (f : List α → β) (hf : PermInv f)
    {rows rows' : List (Row α)} (hp : rows.Perm rows') :
    overall nanv ncf f rows = overall nanv ncf f rows' :=
  applyFunctions_perm nanv Row.ckey _ f hf hp

/-- the INDEX of `by_group` (and its order) is permutation invariant for an arbitrary metric function -/
theorem byGroup_index_perm (nanv : β) (ncf nsf : Nat) (f : List α → β)
    {rows rows' : List (Row α)} (hp : rows.Perm rows') :
    (byGroup nanv ncf nsf f rows).map (·.1) = (byGroup nanv ncf nsf f rows').map (·.1) :=
  applyFunctions_keys_perm nanv Row.key _ f hp

/-- the levels of every feature column (`sensitive_levels`, `control_levels`) are permutation invariant -/
theorem levels_perm (ncf nsf : Nat) {rows rows' : List (Row α)} (hp : rows.Perm rows') :
    levels Row.key (ncf + nsf) rows = levels Row.key (ncf + nsf) rows' :=
  Frame.levels_perm Row.key _ hp

/-- even for an order-DEPENDENT metric the slice handed to it consists of the same rows -/
theorem slice_perm (k : Key) {rows rows' : List (Row α)} (hp : rows.Perm rows') :
    (slice (rowsOf Row.key k rows)).Perm (slice (rowsOf Row.key k rows')) :=
  Frame.slice_perm (rowsOf_perm Row.key k hp)

/-- (review) the theorems above need no shape hypothesis, but the MODEL is faithful only on rows of the declared
    width (MetricFrame rejects anything else; `Frame.col` would read `""` for a missing value): permuting keeps the
    rows inside that domain -/
theorem wf_perm (ncf nsf : Nat) {rows rows' : List (Row α)} (hp : rows.Perm rows') (h : WF ncf nsf rows) :
    WF ncf nsf rows' := Frame.wf_perm hp h

/-- the hypothesis of `byGroup_perm` holds for every metric of the pool: count, selection rate, the four
    confusion-matrix rates, mean prediction, accuracy, mean error, zero-one / absolute / squared error and the
    fingerprint sums -/
theorem pool_permInv (m : Metric) : PermInv (eval m) := eval_permInv m

theorem byGroup_pool_perm (m : Metric) (ncf nsf : Nat) {rows rows' : List (Row Dat)} (hp : rows.Perm rows') :
    byGroup Cell.nan ncf nsf (eval m) rows = byGroup Cell.nan ncf nsf (eval m) rows' ∧
    overall Cell.nan ncf (eval m) rows = overall Cell.nan ncf (eval m) rows' :=
  ⟨byGroup_perm _ _ _ _ (eval_permInv m) hp, overall_perm _ _ _ (eval_permInv m) hp⟩

/-! ### (2) aggregates and the named fairness metrics under a permutation of the rows -/

theorem ofFrame_perm (ncf nsf : Nat) (f : List α → Cell) (hf : PermInv f)
    {rows rows' : List (Row α)} (hp : rows.Perm rows') : ofFrame ncf nsf f rows = ofFrame ncf nsf f rows' := by
  unfold ofFrame
  rw [byGroup_perm _ _ _ f hf hp, overall_perm _ _ f hf hp]

/-- `group_min`, `group_max`, `difference`, `ratio` (both methods, both error modes) of permuted rows -/
theorem aggregate_perm (ncf nsf : Nat) (f : List α → Cell) (hf : PermInv f)
    {rows rows' : List (Row α)} (hp : rows.Perm rows') (m : Method) (e : Errors) :
    groupMin e (ofFrame ncf nsf f rows) = groupMin e (ofFrame ncf nsf f rows') ∧
    groupMax e (ofFrame ncf nsf f rows) = groupMax e (ofFrame ncf nsf f rows') ∧
    difference m e (ofFrame ncf nsf f rows) = difference m e (ofFrame ncf nsf f rows') ∧
    ratio m e (ofFrame ncf nsf f rows) = ratio m e (ofFrame ncf nsf f rows') := by
  rw [ofFrame_perm ncf nsf f hf hp]
  exact ⟨rfl, rfl, rfl, rfl⟩

/-- demographic parity / equal opportunity / equalized odds difference and ratio, both methods, both
    aggregation modes: unchanged by a permutation of the rows -/
theorem fairness_perm (nsf : Nat) {rows rows' : List (Row Dat)} (hp : rows.Perm rows') :
    allFair nsf rows = allFair nsf rows' := by
  have h : ∀ m, frameOf m nsf rows = frameOf m nsf rows' := fun m => ofFrame_perm 0 nsf _ (eval_permInv m) hp
  simp only [allFair, dpDifference, dpRatio, eoppDifference, eoppRatio, eoddsDifference, eoddsRatio,
    metricDifference, metricRatio, h]

theorem dpDifference_perm (meth : Method) (nsf : Nat) {rows rows' : List (Row Dat)} (hp : rows.Perm rows') :
    dpDifference meth nsf rows = dpDifference meth nsf rows' := by
  simp only [dpDifference, metricDifference, frameOf, ofFrame_perm 0 nsf _ (eval_permInv _) hp]

theorem eoddsDifference_perm (meth : Method) (agg : Agg) (nsf : Nat) {rows rows' : List (Row Dat)}
    (hp : rows.Perm rows') : eoddsDifference meth agg nsf rows = eoddsDifference meth agg nsf rows' := by
  simp only [eoddsDifference, metricDifference, frameOf, ofFrame_perm 0 nsf _ (eval_permInv _) hp]

/-! ### (3) constraint moments under a JOINT permutation of rows and predictions -/

open Moments in
/-- `Moment.index` does not depend on the row order -/
theorem moment_index_perm (ev : Ev) {rows rows' : List Moments.Row} (hp : rows.Perm rows') :
    index ev rows = index ev rows' := index_perm ev hp

open Moments in
/-- `gamma(predictor)`: permute the rows and the predictor's outputs the same way — same index, same vector -/
theorem moment_gamma_perm (ev : Ev) (ratio : Rat) (ut : Util) {rows rows' : List Moments.Row} {h h' : List Rat}
    (hl : rows.length = h.length) (hl' : rows'.length = h'.length) (hp : (rows.zip h).Perm (rows'.zip h')) :
    index ev rows = index ev rows' ∧ gamma ev rows ratio ut h = gamma ev rows' ratio ut h' := by
  have hr := zip_fst_perm hl hl' hp
  refine ⟨index_perm ev hr, ?_⟩
  unfold gamma
  rw [index_perm ev hr]
  apply List.map_congr_left
  intro k _
  exact gammaAt_joint_perm ev ratio ut hl hl' hp k

open Moments in
/-- `signed_weights(lambda)` is row aligned: every sample receives the weight it has in any other row order,
    i.e. the (row, weight) pairs of permuted data are the permuted (row, weight) pairs -/
theorem moment_signedWeights_perm (ev : Ev) (ratio : Rat) (ut : Util) (lam : List Rat)
    {rows rows' : List Moments.Row} (hp : rows.Perm rows') :
    signedWeights ev rows' ratio ut lam = rows'.map (rowWeight ev rows ratio ut lam) ∧
    (rows.zip (signedWeights ev rows ratio ut lam)).Perm (rows'.zip (signedWeights ev rows' ratio ut lam)) := by
  have h1 : signedWeights ev rows' ratio ut lam = rows'.map (rowWeight ev rows ratio ut lam) := by
    rw [signedWeights_eq_map]
    apply List.map_congr_left
    intro r _
    exact (rowWeight_perm ev hp ratio ut lam r).symm
  refine ⟨h1, ?_⟩
  rw [h1, signedWeights_eq_map, zip_map_self, zip_map_self]
  exact hp.map _

open Moments in
/-- `ErrorRate.gamma` under a joint permutation of labels and predictions -/
theorem errorRate_gamma_perm (fp fn : Rat) {ys ys' h h' : List Rat} (hl : ys.length = h.length)
    (hl' : ys'.length = h'.length) (hp : (ys.zip h).Perm (ys'.zip h')) :
    errGamma fp fn ys h = errGamma fp fn ys' h' := errGamma_joint_perm fp fn hl hl' hp

open Moments in
/-- `BoundedGroupLoss`: index and gamma under a joint permutation -/
theorem bgl_gamma_perm (l : Loss) {rows rows' : List LRow} {h h' : List Rat}
    (hl : rows.length = h.length) (hl' : rows'.length = h'.length) (hp : (rows.zip h).Perm (rows'.zip h')) :
    bglIndex rows = bglIndex rows' ∧ bglGamma l rows h = bglGamma l rows' h' := by
  have hr := zip_fst_perm hl hl' hp
  refine ⟨bglIndex_perm hr, ?_⟩
  unfold bglGamma
  rw [bglIndex_perm hr]
  apply List.map_congr_left
  intro g _
  exact bglGammaAt_joint_perm l hl hl' hp g

/-! #### (review) the remaining moment observables the check's `mom` stream evaluates (ops `mom.bound`, `mom.err.sw`,
`mom.bgl.sw`) had no theorem of this property -/

open Moments in
/-- `Moment.bound()` is indexed like `Moment.index`: same vector for permuted rows -/
theorem moment_bound_perm (ev : Ev) (eps : Rat) {rows rows' : List Moments.Row} (hp : rows.Perm rows') :
    bound ev rows eps = bound ev rows' eps := by
  unfold bound
  rw [index_perm ev hp]

open Moments in
/-- `ErrorRate.signed_weights` (with or without a multiplier) travel with their rows -/
theorem errorRate_signedWeights_perm (fp fn : Rat) (lam : Option Rat) {ys ys' : List Rat} (hp : ys.Perm ys') :
    (ys.zip (errWeights fp fn ys lam)).Perm (ys'.zip (errWeights fp fn ys' lam)) := by
  cases lam <;> simp only [errWeights, zip_map_self] <;> exact hp.map _

open Moments in
/-- `BoundedGroupLoss.signed_weights(lambda)` travel with their rows (the group frequencies and the index do not
    depend on the row order) -/
theorem bgl_signedWeights_perm (lam : Option (List Rat)) {rows rows' : List LRow} (hp : rows.Perm rows') :
    (rows.zip (bglSignedWeights rows lam)).Perm (rows'.zip (bglSignedWeights rows' lam)) := by
  cases lam with
  | none => simp only [bglSignedWeights, zip_map_self]; exact hp.map _
  | some lv =>
    have h : bglSignedWeights rows' (some lv) =
        rows'.map (fun r => MomentsSrc.bglAdjust (lookup (bglIndex rows) lv r.g) (probG rows r.g)) := by
      simp only [bglSignedWeights]
      apply List.map_congr_left
      intro r _
      rw [bglIndex_perm hp, probG_perm hp]
    rw [h]
    simp only [bglSignedWeights, zip_map_self]
    exact hp.map _

/-! ### (4) relabelling the feature values -/

/-- Relabel column `j` of the features by an injective `σs j` (control columns are numbered first).  The
    `by_group` table of the relabelled rows consists of exactly the old entries under the relabelled index
    tuples — as a multiset: the order of the index is the sorted order of the NEW labels.  Holds for an
    ARBITRARY metric function (the slices are literally the same rows in the same order). -/
theorem rename_equivariant (nanv : β) (ncf nsf : Nat) (f : List α → β) (σs : Nat → Level → Level)
    (hinj : ∀ j, Function.Injective (σs j)) (rows : List (Row α)) (hwf : WF ncf nsf rows) :
    (byGroup nanv ncf nsf f (rows.map (renCols σs))).Perm
      ((byGroup nanv ncf nsf f rows).map (fun e => (mapCols σs e.1, e.2))) ∧
    (overall nanv ncf f (rows.map (renCols σs))).Perm
      ((overall nanv ncf f rows).map (fun e => (mapCols σs e.1, e.2))) := by
  constructor
  · exact applyFunctions_rename nanv Row.key (renCols σs) σs (renCols_key σs) (renCols_dat σs) hinj _ f rows
      (fun r hr => by simp [Row.key, (hwf r hr).1, (hwf r hr).2])
  · exact applyFunctions_rename nanv Row.ckey (renCols σs) σs (renCols_ckey σs) (renCols_dat σs) hinj _ f rows
      (fun r hr => by simp [Row.ckey, (hwf r hr).1])

/-- the value stored under a relabelled tuple is the value that was stored under the original tuple -/
theorem rename_lookup (nanv : β) (ncf nsf : Nat) (f : List α → β) (σs : Nat → Level → Level)
    (hinj : ∀ j, Function.Injective (σs j)) (rows : List (Row α)) (hwf : WF ncf nsf rows) (k : Key) (v : β) :
    (mapCols σs k, v) ∈ byGroup nanv ncf nsf f (rows.map (renCols σs)) ↔ (k, v) ∈ byGroup nanv ncf nsf f rows := by
  rw [(rename_equivariant nanv ncf nsf f σs hinj rows hwf).1.mem_iff, List.mem_map]
  constructor
  · rintro ⟨e, he, heq⟩
    have h1 : mapCols σs e.1 = mapCols σs k := congrArg Prod.fst heq
    have h2 : e.2 = v := congrArg Prod.snd heq
    rw [← mapCols_injective σs hinj h1, ← h2]
    exact he
  · intro h
    exact ⟨(k, v), h, rfl⟩

/-- with the control labels kept (`σs j = id` for the control columns `j < ncf`), `overall` is literally
    unchanged and the frame of the relabelled rows is the old frame with relabelled index tuples, up to order -/
theorem frame_rename (ncf nsf : Nat) (f : List α → Cell) (σs : Nat → Level → Level)
    (hinj : ∀ j, Function.Injective (σs j)) (hid : ∀ j, j < ncf → σs j = id)
    (rows : List (Row α)) (hwf : WF ncf nsf rows) :
    TablesPerm (ofFrame ncf nsf f (rows.map (renCols σs))) (mapKeys (mapCols σs) (ofFrame ncf nsf f rows)) := by
  refine ⟨rfl, (rename_equivariant Cell.nan ncf nsf f σs hinj rows hwf).1, ?_, rfl⟩
  show overall Cell.nan ncf f (rows.map (renCols σs)) = overall Cell.nan ncf f rows
  unfold overall
  have hmem : ∀ r ∈ rows, (renCols σs r).ckey = r.ckey := by
    intro r hr
    rw [renCols_ckey]
    exact mapCols_id σs _ (fun j hj => hid j (by simpa [Row.ckey, (hwf r hr).1] using hj))
  -- replace `renCols σs` on the rows of this data set by a function that keeps `ckey` everywhere
  let ren' : Row α → Row α := fun r => if (renCols σs r).ckey = r.ckey then renCols σs r else r
  have hmap : rows.map (renCols σs) = rows.map ren' := by
    apply List.map_congr_left
    intro r hr
    simp [ren', hmem r hr]
  rw [hmap]
  apply applyFunctions_congr
  · intro r
    by_cases h : (renCols σs r).ckey = r.ckey <;> simp [ren', h]
  · intro r
    by_cases h : (renCols σs r).ckey = r.ckey <;> simp [ren', h, renCols_dat]

/-- relabelling the sensitive-feature values (control labels kept) leaves every aggregate unchanged -/
theorem aggregate_rename (ncf nsf : Nat) (f : List α → Cell) (σs : Nat → Level → Level)
    (hinj : ∀ j, Function.Injective (σs j)) (hid : ∀ j, j < ncf → σs j = id)
    (rows : List (Row α)) (hwf : WF ncf nsf rows) (m : Method) (e : Errors) :
    groupMin e (ofFrame ncf nsf f (rows.map (renCols σs))) = groupMin e (ofFrame ncf nsf f rows) ∧
    groupMax e (ofFrame ncf nsf f (rows.map (renCols σs))) = groupMax e (ofFrame ncf nsf f rows) ∧
    difference m e (ofFrame ncf nsf f (rows.map (renCols σs))) = difference m e (ofFrame ncf nsf f rows) ∧
    ratio m e (ofFrame ncf nsf f (rows.map (renCols σs))) = ratio m e (ofFrame ncf nsf f rows) := by
  have hp := frame_rename ncf nsf f σs hinj hid rows hwf
  have hk : ∀ k : Key, (mapCols σs k).take (ofFrame ncf nsf f rows).ncf = k.take (ofFrame ncf nsf f rows).ncf := by
    intro k
    show (mapCols σs k).take ncf = k.take ncf
    rw [mapCols_take]
    exact mapCols_id σs _ (fun j hj => hid j (by
      have := List.length_take_le ncf k
      omega))
  refine ⟨?_, ?_, ?_, ?_⟩
  · exact (applyGrouping_perm .min e hp).trans (applyGrouping_mapKeys hk .min e)
  · exact (applyGrouping_perm .max e hp).trans (applyGrouping_mapKeys hk .max e)
  · exact (difference_perm m e hp).trans (difference_mapKeys hk m e)
  · exact (ratio_perm m e hp).trans (ratio_mapKeys hk m e)

/-- the six named fairness metrics do not change when the groups are renamed by a bijection -/
theorem fairness_rename (nsf : Nat) (σs : Nat → Level → Level) (hinj : ∀ j, Function.Injective (σs j))
    (rows : List (Row Dat)) (hwf : WF 0 nsf rows) :
    allFair nsf (rows.map (renCols σs)) = allFair nsf rows := by
  have hd : ∀ (mt : Metric) (m : Method), metricDifference mt m nsf (rows.map (renCols σs)) = metricDifference mt m nsf rows :=
    fun mt m => congrArg scalarOf (aggregate_rename 0 nsf (eval mt) σs hinj (fun j hj => absurd hj (by omega)) rows hwf m .coerce).2.2.1
  have hr : ∀ (mt : Metric) (m : Method), metricRatio mt m nsf (rows.map (renCols σs)) = metricRatio mt m nsf rows :=
    fun mt m => congrArg scalarOf (aggregate_rename 0 nsf (eval mt) σs hinj (fun j hj => absurd hj (by omega)) rows hwf m .coerce).2.2.2
  simp only [allFair, dpDifference, dpRatio, eoppDifference, eoppRatio, eoddsDifference, eoddsRatio, hd, hr]

/-! #### (review) clause C at FULL strength: a bijection of the OBSERVED labels

`rename_equivariant` and its corollaries ask for `Function.Injective (σs j)` on ALL strings.  The relabelling of a
data set is a bijection of the labels that occur in it (a ↦ z, b ↦ c; such a map is usually NOT injective on all
strings: it also sends z to z).  `Perm.InjOnObserved σs rows`: column by column, `σs j` is injective on the labels
occurring in column `j` of `rows`.  That is all the theorems need (`Perm.exists_injective_agreeing`: such a family
agrees on the observed labels with one that is injective everywhere, built from label swaps). -/

theorem rename_equivariant_on (nanv : β) (ncf nsf : Nat) (f : List α → β) (σs : Nat → Level → Level)
    (rows : List (Row α)) (hwf : WF ncf nsf rows) (hinj : InjOnObserved σs rows) :
    (byGroup nanv ncf nsf f (rows.map (renCols σs))).Perm
      ((byGroup nanv ncf nsf f rows).map (fun e => (mapCols σs e.1, e.2))) ∧
    (overall nanv ncf f (rows.map (renCols σs))).Perm
      ((overall nanv ncf f rows).map (fun e => (mapCols σs e.1, e.2))) := by
  obtain ⟨σs', hinj', hag⟩ := exists_injective_agreeing σs rows hinj
  have hb : (byGroup nanv ncf nsf f rows).map (fun e => (mapCols σs e.1, e.2)) =
      (byGroup nanv ncf nsf f rows).map (fun e => (mapCols σs' e.1, e.2)) :=
    map_entries_congr_on nanv Row.key (ncf + nsf) f rows
      (fun r hr => by simp [Row.key, (hwf r hr).1, (hwf r hr).2]) (fun _ _ _ _ => rfl) σs σs' hag
  have ho : (overall nanv ncf f rows).map (fun e => (mapCols σs e.1, e.2)) =
      (overall nanv ncf f rows).map (fun e => (mapCols σs' e.1, e.2)) :=
    map_entries_congr_on nanv Row.ckey ncf f rows (fun r hr => by simp [Row.ckey, (hwf r hr).1])
      (fun r hr j hj => by
        simp only [Row.ckey, Row.key, List.getD_eq_getElem?_getD]
        rw [List.getElem?_append_left (by rw [(hwf r hr).1]; exact hj)]) σs σs' hag
  rw [map_renCols_congr_on σs σs' rows hag, hb, ho]
  exact rename_equivariant nanv ncf nsf f σs' hinj' rows hwf

/-- `aggregate_rename` for a bijection of the observed labels that keeps the observed control labels -/
theorem aggregate_rename_on (ncf nsf : Nat) (f : List α → Cell) (σs : Nat → Level → Level)
    (rows : List (Row α)) (hwf : WF ncf nsf rows) (hinj : InjOnObserved σs rows)
    (hid : ∀ j, j < ncf → ∀ r ∈ rows, σs j (r.key.getD j "") = r.key.getD j "") (m : Method) (e : Errors) :
    groupMin e (ofFrame ncf nsf f (rows.map (renCols σs))) = groupMin e (ofFrame ncf nsf f rows) ∧
    groupMax e (ofFrame ncf nsf f (rows.map (renCols σs))) = groupMax e (ofFrame ncf nsf f rows) ∧
    difference m e (ofFrame ncf nsf f (rows.map (renCols σs))) = difference m e (ofFrame ncf nsf f rows) ∧
    ratio m e (ofFrame ncf nsf f (rows.map (renCols σs))) = ratio m e (ofFrame ncf nsf f rows) := by
  obtain ⟨σs', hinj', hag⟩ := exists_injective_agreeing σs rows hinj
  have hinj'' : ∀ j, Function.Injective (fun s => if j < ncf then s else σs' j s) := by
    intro j
    by_cases h : j < ncf
    · simp only [h, if_true]; exact Function.injective_id
    · simp only [h, if_false]; exact hinj' j
  have hid'' : ∀ j, j < ncf → (fun s => if j < ncf then s else σs' j s) = id := by
    intro j h
    funext s
    simp [h]
  have hag'' : ∀ j, ∀ r ∈ rows, (fun s => if j < ncf then s else σs' j s) (r.key.getD j "") = σs j (r.key.getD j "") := by
    intro j r hr
    by_cases h : j < ncf
    · simp only [h, if_true]; exact (hid j h r hr).symm
    · simp only [h, if_false]; exact hag j r hr
  rw [map_renCols_congr_on σs (fun j s => if j < ncf then s else σs' j s) rows hag'']
  exact aggregate_rename ncf nsf f _ hinj'' hid'' rows hwf m e

/-- the six named fairness metrics under a bijection of the observed group labels -/
theorem fairness_rename_on (nsf : Nat) (σs : Nat → Level → Level) (rows : List (Row Dat)) (hwf : WF 0 nsf rows)
    (hinj : InjOnObserved σs rows) : allFair nsf (rows.map (renCols σs)) = allFair nsf rows := by
  obtain ⟨σs', hinj', hag⟩ := exists_injective_agreeing σs rows hinj
  rw [map_renCols_congr_on σs σs' rows hag]
  exact fairness_rename nsf σs' hinj' rows hwf

/-! #### (review) the ORDER of the relabelled index -/

/-- the index of the relabelled table is strictly sorted — by the NEW labels -/
theorem rename_index_sorted (nanv : β) (ncf nsf : Nat) (f : List α → β) (σs : Nat → Level → Level)
    (rows : List (Row α)) :
    ((byGroup nanv ncf nsf f (rows.map (renCols σs))).map (·.1)).Pairwise (· < ·) :=
  applyFunctions_index_sorted nanv Row.key _ f _

/-- LIST form of `rename_equivariant`: the table of the relabelled rows is THE arrangement of the renamed old entries
    whose index is strictly sorted (there is exactly one). -/
theorem rename_determined (nanv : β) (ncf nsf : Nat) (f : List α → β) (σs : Nat → Level → Level)
    (hinj : ∀ j, Function.Injective (σs j)) (rows : List (Row α)) (hwf : WF ncf nsf rows) (l : List (Key × β))
    (hl : l.Perm ((byGroup nanv ncf nsf f rows).map (fun e => (mapCols σs e.1, e.2))))
    (hs : (l.map (·.1)).Pairwise (· < ·)) :
    byGroup nanv ncf nsf f (rows.map (renCols σs)) = l :=
  eq_of_perm_of_sorted ((rename_equivariant nanv ncf nsf f σs hinj rows hwf).1.trans hl.symm)
    (rename_index_sorted nanv ncf nsf f σs rows) hs

/-- an ORDER-PRESERVING relabelling (every column strictly increasing) renames the index entries in place: the new
    table is literally the old list with renamed tuples.  (For a relabelling that is not order preserving this list
    equality is false — see the `exSwap` example below — and `rename_equivariant` / `rename_determined` are the
    statement.) -/
theorem rename_monotone_eq (nanv : β) (ncf nsf : Nat) (f : List α → β) (σs : Nat → Level → Level)
    (hmono : ∀ j a b, a < b → σs j a < σs j b) (rows : List (Row α)) (hwf : WF ncf nsf rows) :
    byGroup nanv ncf nsf f (rows.map (renCols σs)) =
      (byGroup nanv ncf nsf f rows).map (fun e => (mapCols σs e.1, e.2)) := by
  apply rename_determined nanv ncf nsf f σs (fun j => injective_of_strictMono _ (hmono j)) rows hwf _ (List.Perm.refl _)
  have hs := applyFunctions_index_sorted nanv Row.key (ncf + nsf) f rows
  have : ((byGroup nanv ncf nsf f rows).map (fun e => (mapCols σs e.1, e.2))).map (·.1) =
      ((byGroup nanv ncf nsf f rows).map (·.1)).map (mapCols σs) := by
    simp [List.map_map, Function.comp_def]
  rw [this]
  exact List.Pairwise.map _ (fun a b h => mapCols_lt σs hmono h) hs

/-! ### Non-vacuity -/

def exRows : List (Row Dat) :=
  [⟨⟨1, 1, 2, 0⟩, ["k"], ["b"]⟩, ⟨⟨0, 1, 1, 0⟩, ["k"], ["a"]⟩, ⟨⟨1, 0, 3, 0⟩, ["m"], ["a"]⟩,
   ⟨⟨0, 0, 1, 0⟩, ["k"], ["b"]⟩, ⟨⟨1, 1, 1, 0⟩, ["m"], ["b"]⟩]

/-- the same rows in another order -/
def exRows' : List (Row Dat) :=
  [⟨⟨1, 1, 1, 0⟩, ["m"], ["b"]⟩, ⟨⟨0, 0, 1, 0⟩, ["k"], ["b"]⟩, ⟨⟨1, 1, 2, 0⟩, ["k"], ["b"]⟩,
   ⟨⟨1, 0, 3, 0⟩, ["m"], ["a"]⟩, ⟨⟨0, 1, 1, 0⟩, ["k"], ["a"]⟩]

example : exRows.Perm exRows' := by decide +kernel
/-- (review) … a genuinely non-identity permutation of 5 rows in 2 × 2 groups, weights not all equal -/
example : exRows ≠ exRows' := by decide +kernel
example : WF 1 1 exRows := by decide
example : WF 1 1 exRows' := wf_perm 1 1 (by decide +kernel : exRows.Perm exRows') (by decide)
example : byGroup Cell.nan 1 1 (eval .selrate) exRows =
    [(["k", "a"], .ofRat 1), (["k", "b"], .ofRat (2/3)), (["m", "a"], .ofRat 0), (["m", "b"], .ofRat 1)] := by
  decide +kernel
example : byGroup Cell.nan 1 1 (eval .selrate) exRows' = byGroup Cell.nan 1 1 (eval .selrate) exRows := by
  decide +kernel

/-- an order-dependent "metric" (the first prediction of the slice) is NOT covered by `byGroup_perm`:
    the hypothesis `PermInv` is needed -/
example : byGroup (0 : Rat) 1 1 (fun l => (l.map (·.p0)).headD 0) exRows ≠
    byGroup (0 : Rat) 1 1 (fun l => (l.map (·.p0)).headD 0) exRows' := by decide +kernel

/-- (review) all hypotheses of `aggregate_perm` at once on the permuted example; two strata, non-trivial values -/
example : difference .between .coerce (ofFrame 1 1 (eval .selrate) exRows') = some [(["k"], .fin (1/3)), (["m"], .fin 1)] ∧
    groupMin .coerce (ofFrame 1 1 (eval .selrate) exRows') = some [(["k"], .fin (2/3)), (["m"], .fin 0)] := by
  decide +kernel
example : difference .between .coerce (ofFrame 1 1 (eval .selrate) exRows) =
    difference .between .coerce (ofFrame 1 1 (eval .selrate) exRows') :=
  (aggregate_perm 1 1 (eval .selrate) (pool_permInv .selrate) (by decide +kernel : exRows.Perm exRows')
    .between .coerce).2.2.1

/-- relabelling a ↦ z, b ↦ c in the sensitive column, control labels kept: the index order changes.
    (review) CAUTION: `exSigma 1` is a bijection of the OBSERVED labels {a, b} onto {z, c} but NOT injective on all
    labels (`a` and `z` both go to `z`), so it does not meet the hypothesis `hinj` of the theorems of section (4);
    `exSwap` below does. -/
def exSigma : Nat → Level → Level := fun j s => if j = 0 then s else if s = "a" then "z" else if s = "b" then "c" else s

example : byGroup Cell.nan 1 1 (eval .selrate) (exRows.map (renCols exSigma)) =
    [(["k", "c"], .ofRat (2/3)), (["k", "z"], .ofRat 1), (["m", "c"], .ofRat 1), (["m", "z"], .ofRat 0)] := by
  decide +kernel
example : difference .between .coerce (ofFrame 1 1 (eval .selrate) (exRows.map (renCols exSigma))) =
    some [(["k"], .fin (1/3)), (["m"], .fin 1)] := by decide +kernel
example : ¬ Function.Injective (exSigma 1) :=
  fun h => absurd (h (by decide +kernel : exSigma 1 "a" = exSigma 1 "z")) (by decide +kernel)

/-- … but it IS a bijection of the observed labels, which is what `rename_equivariant_on` asks for -/
theorem exSigma_injOnObserved : InjOnObserved exSigma exRows :=
  InjOnObserved.of_width (ncf := 1) (nsf := 1) (by decide) (by decide +kernel)

example : (byGroup Cell.nan 1 1 (eval .selrate) (exRows.map (renCols exSigma))).Perm
    ((byGroup Cell.nan 1 1 (eval .selrate) exRows).map (fun e => (mapCols exSigma e.1, e.2))) :=
  (rename_equivariant_on Cell.nan 1 1 (eval .selrate) exSigma exRows (by decide) exSigma_injOnObserved).1
example : difference .between .coerce (ofFrame 1 1 (eval .selrate) (exRows.map (renCols exSigma))) =
    difference .between .coerce (ofFrame 1 1 (eval .selrate) exRows) :=
  (aggregate_rename_on 1 1 (eval .selrate) exSigma exRows (by decide) exSigma_injOnObserved
    (by decide +kernel) .between .coerce).2.2.1
/-- the merging relabelling of `non_injective_rename_merges` is (of course) not a bijection of the observed labels -/
example : ¬ InjOnObserved (fun j s => if j = 0 then s else "z") exRows :=
  fun h => absurd (h 1 ⟨⟨1, 1, 2, 0⟩, ["k"], ["b"]⟩ (by decide +kernel) ⟨⟨0, 1, 1, 0⟩, ["k"], ["a"]⟩ (by decide +kernel)
    (by decide +kernel)) (by decide +kernel)

/-- (review) a relabelling that IS injective on all labels: exchange a ↔ z in the sensitive column (so that the
    order of the groups a < b becomes b < z), control labels kept -/
def exSwap : Nat → Level → Level := fun j => if j = 0 then id else swapLevels "a" "z"

theorem exSwap_injective : ∀ j, Function.Injective (exSwap j) := by
  intro j
  unfold exSwap
  split
  · exact Function.injective_id
  · exact swapLevels_injective _ _

theorem exSwap_keeps_control : ∀ j, j < 1 → exSwap j = id := by
  intro j hj
  have : j = 0 := by omega
  subst this
  rfl

/-- all hypotheses of `rename_equivariant` / `frame_rename` / `aggregate_rename` at once (injective, control labels
    kept, well-formed rows; 2 strata × 2 groups), and the interesting branch: the index ORDER changes -/
example : (byGroup Cell.nan 1 1 (eval .selrate) (exRows.map (renCols exSwap))).Perm
    ((byGroup Cell.nan 1 1 (eval .selrate) exRows).map (fun e => (mapCols exSwap e.1, e.2))) :=
  (rename_equivariant Cell.nan 1 1 (eval .selrate) exSwap exSwap_injective exRows (by decide)).1
example : byGroup Cell.nan 1 1 (eval .selrate) (exRows.map (renCols exSwap)) =
    [(["k", "b"], .ofRat (2/3)), (["k", "z"], .ofRat 1), (["m", "b"], .ofRat 1), (["m", "z"], .ofRat 0)] := by
  decide +kernel
/-- … so the list equality of `rename_monotone_eq` is FALSE for a relabelling that is not order preserving -/
example : byGroup Cell.nan 1 1 (eval .selrate) (exRows.map (renCols exSwap)) ≠
    (byGroup Cell.nan 1 1 (eval .selrate) exRows).map (fun e => (mapCols exSwap e.1, e.2)) := by decide +kernel
example : difference .between .coerce (ofFrame 1 1 (eval .selrate) (exRows.map (renCols exSwap))) =
    difference .between .coerce (ofFrame 1 1 (eval .selrate) exRows) :=
  (aggregate_rename 1 1 (eval .selrate) exSwap exSwap_injective exSwap_keeps_control exRows (by decide)
    .between .coerce).2.2.1

/-- NECESSITY of injectivity: map both sensitive labels to "z" — the two groups of every stratum MERGE (4 entries
    become 2, with the pooled rates), so the result is not a renaming of the old entries -/
def exMerge : Nat → Level → Level := fun j s => if j = 0 then s else "z"

theorem non_injective_rename_merges :
    byGroup Cell.nan 1 1 (eval .selrate) (exRows.map (renCols exMerge)) =
      [(["k", "z"], .ofRat (3/4)), (["m", "z"], .ofRat (1/4))] ∧
    ¬ (byGroup Cell.nan 1 1 (eval .selrate) (exRows.map (renCols exMerge))).Perm
        ((byGroup Cell.nan 1 1 (eval .selrate) exRows).map (fun e => (mapCols exMerge e.1, e.2))) := by
  refine ⟨by decide +kernel, fun h => ?_⟩
  have := h.length_eq
  revert this
  decide +kernel

/-- NECESSITY of `WF`: a row without feature values in a frame declared with two sensitive columns — `Frame.col` reads
    the default "" for the missing values, and relabelling "" then changes the index on one side only.  (Real
    MetricFrame never gets there: it raises on feature arrays of the wrong shape.) -/
theorem rename_needs_wf :
    ¬ (byGroup (0 : Rat) 0 2 (fun l => (l.length : Rat))
          (([⟨(), [], []⟩] : List (Row Unit)).map (renCols (fun _ => swapLevels "" "q")))).Perm
      ((byGroup (0 : Rat) 0 2 (fun l => (l.length : Rat)) ([⟨(), [], []⟩] : List (Row Unit))).map
        (fun e => (mapCols (fun _ => swapLevels "" "q") e.1, e.2))) := by decide +kernel

/-- an order-preserving relabelling (prefix every label with "g"): hypothesis of `rename_monotone_eq` … -/
example : byGroup Cell.nan 1 1 (eval .selrate) (exRows.map (renCols (fun _ s => "g" ++ s))) =
    [(["gk", "ga"], .ofRat 1), (["gk", "gb"], .ofRat (2/3)), (["gm", "ga"], .ofRat 0), (["gm", "gb"], .ofRat 1)] := by
  decide +kernel

/-- a bijection on the group labels of `exFair` that reverses their order -/
def exSigma' : Nat → Level → Level := fun _ s => if s = "a" then "z" else if s = "c" then "A" else s

/-- three groups, weighted rows -/
def exFair : List (Row Dat) :=
  [⟨⟨1, 1, 1, 0⟩, [], ["a"]⟩, ⟨⟨1, 0, 1, 0⟩, [], ["a"]⟩, ⟨⟨0, 1, 1, 0⟩, [], ["a"]⟩, ⟨⟨0, 0, 2, 0⟩, [], ["a"]⟩,
   ⟨⟨1, 1, 3, 0⟩, [], ["b"]⟩, ⟨⟨1, 0, 1, 0⟩, [], ["b"]⟩, ⟨⟨0, 0, 1, 0⟩, [], ["b"]⟩, ⟨⟨0, 1, 1, 0⟩, [], ["c"]⟩,
   ⟨⟨1, 1, 1, 0⟩, [], ["c"]⟩]

example : WF 0 1 exFair := by decide
example : allFair 1 exFair =
    [some (.fin (3/5)), some (.fin (2/5)), some (.fin (1/2)), some (.fin (1/2)), some (.fin 1), some (.fin 0),
     some (.fin (3/4)), some (.fin (1/4)),
     some (.fin (5/12)), some (.fin (7/12)), some (.fin (2/7)), some (.fin (7/10)), some (.fin (3/5)), some (.fin 0),
     some (.fin (31/70)), some (.fin (7/20))] := by decide +kernel
example : allFair 1 (exFair.reverse.map (renCols exSigma')) = allFair 1 exFair := by decide +kernel
/-- (review) `exSigma'` is again only a bijection of the observed labels; with an injective one the hypotheses of
    `fairness_rename` hold jointly (three groups, weighted rows, all 16 values finite and distinct from 0/1 mostly) -/
example : allFair 1 (exFair.map (renCols exSigma')) = allFair 1 exFair :=
  fairness_rename_on 1 exSigma' exFair (by decide)
    (InjOnObserved.of_width (ncf := 0) (nsf := 1) (by decide) (by decide +kernel))
example : allFair 1 (exFair.map (renCols (fun _ => swapLevels "a" "z"))) = allFair 1 exFair :=
  fairness_rename 1 _ (fun _ => swapLevels_injective _ _) exFair (by decide)

def exMom : List Moments.Row := [⟨1, "a", none⟩, ⟨0, "b", none⟩, ⟨1, "b", none⟩, ⟨0, "a", none⟩]
def exMom' : List Moments.Row := [⟨0, "a", none⟩, ⟨1, "b", none⟩, ⟨1, "a", none⟩, ⟨0, "b", none⟩]

example : (exMom.zip [1, 0, 1/2, 1]).Perm (exMom'.zip [1, 1/2, 1, 0]) := by decide +kernel
example : Moments.gamma (Moments.eventOf .eo) exMom 1 Moments.defaultUtil [1, 0, 1/2, 1] =
    Moments.gamma (Moments.eventOf .eo) exMom' 1 Moments.defaultUtil [1, 1/2, 1, 0] := by decide +kernel
example : Moments.gamma (Moments.eventOf .eo) exMom 1 Moments.defaultUtil [1, 0, 1/2, 1] =
    [1/2, -1/2, 1/4, -1/4, -1/2, 1/2, -1/4, 1/4] := by decide +kernel

/-- (review) hypotheses of `moment_gamma_perm` jointly: equal lengths, joint permutation, 2 groups × 2 events -/
example : exMom.length = ([1, 0, 1/2, 1] : List Rat).length ∧ exMom'.length = ([1, 1/2, 1, 0] : List Rat).length ∧
    exMom ≠ exMom' := by decide +kernel
/-- `moment_signedWeights_perm`: the weights are not constant, and each travels with its row -/
example : Moments.signedWeights (Moments.eventOf .eo) exMom 1 Moments.defaultUtil [1, 0, 2, 0, 0, 1, 0, 0] = [-4, 4, 4, -4] ∧
    Moments.signedWeights (Moments.eventOf .eo) exMom' 1 Moments.defaultUtil [1, 0, 2, 0, 0, 1, 0, 0] = [-4, 4, -4, 4] := by
  decide +kernel
example : (exMom.zip (Moments.signedWeights (Moments.eventOf .eo) exMom 1 Moments.defaultUtil [1, 0, 2, 0, 0, 1, 0, 0])).Perm
    (exMom'.zip (Moments.signedWeights (Moments.eventOf .eo) exMom' 1 Moments.defaultUtil [1, 0, 2, 0, 0, 1, 0, 0])) :=
  (moment_signedWeights_perm _ 1 _ _ (by decide +kernel : exMom.Perm exMom')).2
/-- `errorRate_gamma_perm` (costs fp = 1, fn = 2; a fractional prediction) and `bgl_gamma_perm` (square loss, 2 groups) -/
example : (([1, 0, 1, 0] : List Rat).zip [1, 1, 0, 1/2]).Perm (([0, 1, 0, 1] : List Rat).zip [1, 1, 1/2, 0]) ∧
    Moments.errGamma 1 2 [1, 0, 1, 0] [1, 1, 0, 1/2] = 7/8 ∧ Moments.errGamma 1 2 [0, 1, 0, 1] [1, 1, 1/2, 0] = 7/8 := by
  decide +kernel
example : (([⟨1, "a"⟩, ⟨0, "b"⟩, ⟨1/2, "a"⟩] : List Moments.LRow).zip ([1, 1/2, 0] : List Rat)).Perm
      (([⟨1/2, "a"⟩, ⟨1, "a"⟩, ⟨0, "b"⟩] : List Moments.LRow).zip ([0, 1, 1/2] : List Rat)) ∧
    Moments.bglGamma (.square 0 1) [⟨1, "a"⟩, ⟨0, "b"⟩, ⟨1/2, "a"⟩] [1, 1/2, 0] = [1/8, 1/4] ∧
    Moments.bglGamma (.square 0 1) [⟨1/2, "a"⟩, ⟨1, "a"⟩, ⟨0, "b"⟩] [0, 1, 1/2] = [1/8, 1/4] := by
  decide +kernel

/-- `bgl_signedWeights_perm`: weights λ_g / P[g] with two groups of different size — not constant -/
example : Moments.bglSignedWeights [⟨1, "a"⟩, ⟨0, "b"⟩, ⟨1/2, "a"⟩] (some [1, 2]) = [3/2, 6, 3/2] ∧
    Moments.bglSignedWeights [⟨0, "b"⟩, ⟨1/2, "a"⟩, ⟨1, "a"⟩] (some [1, 2]) = [6, 3/2, 3/2] ∧
    Moments.errWeights 1 2 [1, 0, 1, 0] (some (3/4)) = [3/2, -3/4, 3/2, -3/4] := by decide +kernel

/-! ### (5) containers and index labels -/

section containers
open Cont
open ContainerSites (Conv)

/-- MAIN (containers): if every argument of an entry point passes through a label-dropping conversion, the frame
    the entry point computes on — hence ANY result `f` of it — depends on the payloads only: container kinds and
    index labels (arbitrary, per argument) are irrelevant. -/
theorem containers_irrelevant {β : Type} (n : Nat) (convs : List Conv) (f : List (List (Option Rat)) → β)
    (args args' : List Arg)
    (hpay : List.Forall₂ (fun a a' => a.payload = a'.payload) args args')
    (h : ∀ p ∈ convs.zip args, dropsLabels p.1 p.2 = true)
    (h' : ∀ p ∈ convs.zip args', dropsLabels p.1 p.2 = true) :
    run n convs f args = run n convs f args' := by
  unfold run
  rw [placeAll_congr n convs args args' hpay h h']

/-- (review) The statement above has no hypothesis tying the NUMBER of conversions to the number of arguments:
    `Cont.placeAll` walks the two lists like `zip` and silently ignores what is left over, so for a shorter `convs` it
    says "the surplus arguments are irrelevant" for the wrong reason (they are never placed).  The intended reading,
    one conversion per argument: -/
theorem containers_irrelevant_guarded {β : Type} (n : Nat) (convs : List Conv) (f : List (List (Option Rat)) → β)
    (args args' : List Arg) (_hl : convs.length = args.length)
    (hpay : List.Forall₂ (fun a a' => a.payload = a'.payload) args args')
    (h : ∀ p ∈ convs.zip args, dropsLabels p.1 p.2 = true)
    (h' : ∀ p ∈ convs.zip args', dropsLabels p.1 p.2 = true) :
    run n convs f args = run n convs f args' ∧ convs.length = args'.length :=
  ⟨containers_irrelevant n convs f args args' hpay h h', by rw [_hl]; exact hpay.length_eq⟩

/-- the truncation artefact itself: a surplus raw Series with shuffled labels, or a surplus conversion, is dropped -/
theorem placeAll_truncates :
    placeAll 2 [] [⟨.series, [1, 0], [10, 20]⟩] = .ok [] ∧ placeAll 2 [.raw, .raw] [⟨.list, [], [10, 20]⟩] = .ok [[some 10, some 20]] := by
  decide +kernel

/-- … and the rows are paired BY POSITION: row `i` of the frame holds entry `i` of every payload. -/
theorem positional_pairing {β : Type} (n : Nat) (convs : List Conv) (f : List (List (Option Rat)) → β)
    (args : List Arg) (hl : convs.length = args.length)
    (h : ∀ p ∈ convs.zip args, dropsLabels p.1 p.2 = true)
    (hn : ∀ a ∈ args, a.payload.length = n) :
    run n convs f args = .ok (f (args.map (fun a => a.payload.map some))) := by
  unfold run
  rw [placeAll_positional n convs args hl h hn]; rfl

/-- every conversion class except `raw` (and `kind` outside its `isinstance` guard) drops the labels of every
    argument whatsoever -/
theorem conv_drops_labels (c : Conv) (a : Arg) (hc : c ≠ .raw) (hk : c = .kind → a.kind.labelled = false) :
    dropsLabels c a = true := by
  cases c <;> simp_all [dropsLabels]

/-- TIE: every site lifted from the source passes its argument through a label-dropping conversion (finite table
    regenerated from the source on every run; a `raw` site makes this fail). -/
theorem lifted_sites_drop_labels : ∀ s ∈ ContainerSites.sites, s.conv ≠ Conv.raw := by decide

/-- (review) the table the `decide` ranges over is not empty … -/
theorem lifted_sites_nonempty : 0 < ContainerSites.sites.length := by decide

/-- … and a single `raw` row makes the statement of `lifted_sites_drop_labels` FALSE (so its `decide` fails): this is
    what the lifter emits for an argument that reaches its sink unconverted (seeded changes C01a / C04a / C12a) -/
theorem raw_site_is_flagged (e a k : String) :
    ¬ (∀ s ∈ (⟨e, a, k, Conv.raw⟩ : ContainerSites.Site) :: ContainerSites.sites, s.conv ≠ Conv.raw) :=
  fun h => h _ (List.mem_cons_self ..) rfl

/-- (review) TABLE and MODEL composed — `lifted_sites_drop_labels` and `containers_irrelevant` were not connected:
    take ANY list `ss` of rows of the lifted table as the conversions of the arguments of an entry point; then
    container kinds and index labels of the arguments are irrelevant.  The only side condition is the `isinstance`
    guard of the rows of class `kind` (they are reached by lists / ndarrays only). -/
theorem lifted_entry_irrelevant {β : Type} (n : Nat) (ss : List ContainerSites.Site)
    (hss : ∀ s ∈ ss, s ∈ ContainerSites.sites) (f : List (List (Option Rat)) → β) (args args' : List Arg)
    (hpay : List.Forall₂ (fun a a' => a.payload = a'.payload) args args')
    (hk : ∀ p ∈ ss.zip args, p.1.conv = Conv.kind → p.2.kind.labelled = false)
    (hk' : ∀ p ∈ ss.zip args', p.1.conv = Conv.kind → p.2.kind.labelled = false) :
    run n (ss.map (·.conv)) f args = run n (ss.map (·.conv)) f args' :=
  containers_irrelevant n _ f args args' hpay
    (dropsLabels_sites ss args (fun s hs => lifted_sites_drop_labels s (hss s hs)) hk)
    (dropsLabels_sites ss args' (fun s hs => lifted_sites_drop_labels s (hss s hs)) hk')

/-- the table is not empty and covers the anchored entry points -/
theorem lifted_sites_cover :
    ∀ e ∈ ["MetricFrame.__init__", "MetricFrame.sample_params", "_validate_and_reformat_input",
           "ThresholdOptimizer._reformat_data_into_dict", "DemographicParity.load_data", "EqualizedOdds.load_data",
           "ErrorRate.load_data", "BoundedGroupLoss.load_data", "InterpolatedThresholder._pmf_predict",
           "UtilityParity.gamma", "ErrorRate.gamma", "BoundedGroupLoss.gamma"],
      ∃ s ∈ ContainerSites.sites, s.entry = e := by decide

/-- `_validate_and_reformat_input` returns a fresh Series: RangeIndex, same payload — whatever came in -/
theorem validate_fresh (a : Arg) :
    (validate a).labels = rangeIndex a.payload.length ∧ (validate a).payload = a.payload ∧
    (validate a).kind = .series := ⟨rfl, rfl, rfl⟩

/-- aligning a fresh Series by label is pairing by position (why `Moment.load_data` may put the outputs of
    `_validate_and_reformat_input` into one frame) -/
theorem fresh_align_is_positional (vals : List Rat) :
    place vals.length (.labelled (rangeIndex vals.length) vals) = .ok (vals.map some) :=
  place_fresh vals

/-- The hypothesis of `containers_irrelevant` is NECESSARY: a raw Series reaching the frame is paired by label —
    same payload, shuffled labels, different frame; labels outside `0..n-1` give NaN; repeated labels raise. -/
theorem raw_series_is_label_sensitive :
    placeAll 2 [.raw] [⟨.series, [0, 1], [10, 20]⟩] = .ok [[some 10, some 20]] ∧
    placeAll 2 [.raw] [⟨.series, [1, 0], [10, 20]⟩] = .ok [[some 20, some 10]] ∧
    placeAll 2 [.raw] [⟨.series, [1, 2], [10, 20]⟩] = .ok [[none, some 10]] ∧
    placeAll 2 [.raw] [⟨.series, [0, 0], [10, 20]⟩] = .error .dupLabels ∧
    placeAll 2 [.raw] [⟨.list, [1, 0], [10, 20]⟩] = .ok [[some 10, some 20]] := by decide +kernel

/-- (review) repeated labels on a raw Series / DataFrame ALWAYS raise (pandas: `ValueError: cannot reindex on an axis
    with duplicate labels`), whatever the values and the frame length -/
theorem raw_place_dup_raises (n : Nat) (k : Kind) (hk : k.labelled = true) (labels : List Int) (vals : List Rat)
    (h : ¬ labels.Nodup) : placeAll n [.raw] [⟨k, labels, vals⟩] = .error .dupLabels := by
  simp [placeAll, convert, hk, place_dup n labels vals h]

/-- (review) a raw WELL-FORMED Series (as many labels as values, no repeats): row `i` of the frame is NaN exactly when
    no entry is labelled `i`, and the entry labelled `labels[p]` is the value at position `p` — pairing by label. -/
theorem raw_place_wf (n : Nat) (labels : List Int) (vals : List Rat) (hnd : labels.Nodup)
    (hl : labels.length = vals.length) :
    place n (convert .raw ⟨.series, labels, vals⟩) =
      .ok ((List.range n).map (fun (i : Nat) => vals[labels.idxOf (i : Int)]?)) ∧
    (∀ i : Int, vals[labels.idxOf i]? = none ↔ i ∉ labels) ∧
    (∀ p (hp : p < labels.length), vals[labels.idxOf labels[p]]? = vals[p]?) :=
  ⟨place_labelled_ok n labels vals hnd, labelled_entry_none_iff labels vals hl, labelled_entry_some labels vals hnd⟩

/-- (review) the error branch `positional_pairing` excludes by `hn`: a converted (label-free) column of the wrong
    length does not get paired with anything — it raises (pandas: `Length of values does not match length of index`;
    MetricFrame / `check_consistent_length` reject it even earlier) -/
theorem wrong_length_raises (n : Nat) (c : Conv) (a : Arg) (h : dropsLabels c a = true) (hc : c ≠ .fresh)
    (hl : a.payload.length ≠ n) : placeAll n [c] [a] = .error .length := by
  have e := Cont.convert_eq_convertP c a h
  cases c <;> simp_all [placeAll, convertP, place]

/-- … whereas a FRESH Series (the output of `_validate_and_reformat_input`) of another length is re-indexed like any
    labelled object: cut off, or padded with NaN — which is why `Moment.load_data` relies on the length check made by
    `_validate_and_reformat_input` before -/
theorem fresh_wrong_length_is_reindexed :
    place 2 (convert .fresh ⟨.list, [], [1, 2, 3]⟩) = .ok [some 1, some 2] ∧
    place 3 (convert .fresh ⟨.list, [], [1, 2]⟩) = .ok [some 1, some 2, none] := by decide +kernel

/-- TOTALISATION of `Cont.place` outside well-formed Series: with FEWER labels than values a missing label reads the
    value just behind the labels instead of NaN (`idxOf` of an absent label is the length of the label list).  No pandas
    object has that shape; the harness always sends as many labels as values for Series / DataFrame arguments and none
    otherwise; `raw_place_wf` is the guarded statement. -/
theorem place_length_artefact : place 1 (.labelled [5] [10, 20]) = .ok [some 20] := by decide +kernel

/-! non-vacuity: three arguments with different kinds and labels, all through label-dropping conversions -/
example : placeAll 3 [.asarray, .listOf, .values]
    [⟨.series, [2, 0, 1], [1, 0, 1]⟩, ⟨.frame, [7, 7, 7], [5, 6, 7]⟩, ⟨.ndarray, [], [1/2, 1/4, 1/8]⟩] =
    .ok [[some 1, some 0, some 1], [some 5, some 6, some 7], [some (1/2), some (1/4), some (1/8)]] := by
  decide +kernel
example : dropsLabels .kind ⟨.list, [], [1]⟩ = true ∧ dropsLabels .kind ⟨.series, [3], [1]⟩ = false := by decide

/-- (review) all hypotheses of `containers_irrelevant(_guarded)` at once: same payloads, different kinds and labels
    (shuffled / duplicated / offset / none), one conversion per argument — and the frame they produce -/
example : run 3 [.asarray, .listOf, .fresh] id
      [⟨.series, [2, 0, 1], [1, 0, 1]⟩, ⟨.frame, [7, 7, 7], [5, 6, 7]⟩, ⟨.series, [1, 2, 3], [1/2, 1/4, 1/8]⟩] =
    run 3 [.asarray, .listOf, .fresh] id
      [⟨.list, [], [1, 0, 1]⟩, ⟨.ndarray, [], [5, 6, 7]⟩, ⟨.frame, [0, 0, 0], [1/2, 1/4, 1/8]⟩] :=
  (containers_irrelevant_guarded 3 _ id _ _ rfl
    (.cons rfl (.cons rfl (.cons rfl .nil))) (by decide) (by decide)).1
example : run 3 [.asarray, .listOf, .fresh] id
      [⟨.series, [2, 0, 1], [1, 0, 1]⟩, ⟨.frame, [7, 7, 7], [5, 6, 7]⟩, ⟨.series, [1, 2, 3], [1/2, 1/4, 1/8]⟩] =
    .ok [[some 1, some 0, some 1], [some 5, some 6, some 7], [some (1/2), some (1/4), some (1/8)]] := by decide +kernel

/-- `lifted_entry_irrelevant` on rows of the CURRENT table: the rows of `_validate_and_reformat_input`, fed with a
    shuffled Series, a DataFrame with repeated labels and an offset Series vs. plain lists of the same payloads -/
def exValSites : List ContainerSites.Site :=
  ContainerSites.sites.filter (fun s => s.entry == "_validate_and_reformat_input")

example : 3 ≤ exValSites.length := by decide +kernel
example : run 3 (exValSites.map (·.conv)) id
      [⟨.series, [2, 0, 1], [1, 0, 1]⟩, ⟨.frame, [7, 7, 7], [5, 6, 7]⟩, ⟨.series, [1, 2, 3], [1/2, 1/4, 1/8]⟩] =
    run 3 (exValSites.map (·.conv)) id
      [⟨.list, [], [1, 0, 1]⟩, ⟨.list, [], [5, 6, 7]⟩, ⟨.list, [], [1/2, 1/4, 1/8]⟩] :=
  lifted_entry_irrelevant 3 exValSites (fun _ hs => (List.mem_filter.mp hs).1) id _ _
    (.cons rfl (.cons rfl (.cons rfl .nil))) (by decide +kernel) (by decide +kernel)

end containers

/-! ### the `errors=` value of the named metrics is the lifted default (bridge) -/

/-- `Perm.metricDifference` / `metricRatio` are defined over the defaults of `MetricFrame.difference` / `.ratio` lifted
    into `Generated/PopulateSrc.lean` (the named metrics do not pass `errors=`); on the pinned source that is `"coerce"`,
    the value every theorem above is stated with — a changed default changes the generated text and breaks this -/
theorem src_named_errors_default (m : MetricPool.Metric) (meth : Aggregate.Method) (nsf : Nat)
    (rows : List (Frame.Row MetricPool.Dat)) :
    Perm.metricDifference m meth nsf rows =
        Perm.scalarOf (Aggregate.difference meth .coerce (Perm.frameOf m nsf rows)) ∧
      Perm.metricRatio m meth nsf rows = Perm.scalarOf (Aggregate.ratio meth .coerce (Perm.frameOf m nsf rows)) ∧
      PopulateSrc.differenceDefaultErrors = .coerce ∧ PopulateSrc.ratioDefaultErrors = .coerce :=
  ⟨rfl, rfl, rfl, rfl⟩

end C12
