/-
Driver glue for the GENERATED translation of fairlearn/metrics/_base_metrics.py
(`Generated/BaseMetricsSrc.lean`, written by harness/lifters/base_metrics.py on every run).
Nothing here is a model of its own: `rate` only dispatches on the kind to the four generated
functions, and the ops evaluate the generated functions on the arrays of the protocol line.
`Lemmas/BaseMetricsSrc.lean` proves them equal to the hand-written model `Model/BaseMetrics.lean`.
-/
import FairModel.Generated.BaseMetricsSrc

namespace BaseMetricsGen
open BaseMetrics

/-- the four public rate functions, as translated from the source -/
def rate (k : Kind) (yt yp : List Int) (w : Option (List Rat)) (p : Option Int) : Except Err Rat :=
  match k with
  | .tpr => BaseMetricsSrc.true_positive_rate yt yp w p
  | .fnr => BaseMetricsSrc.false_negative_rate yt yp w p
  | .fpr => BaseMetricsSrc.false_positive_rate yt yp w p
  | .tnr => BaseMetricsSrc.true_negative_rate yt yp w p

def parseW (s : String) : Option (Option (List Rat)) :=
  if s = "none" then some none else (Proto.parseRats s).map some

def fmtLabels : Except Err (List Int) → String
  | .ok l => Proto.fmtInts l
  | .error e => e.fmt

def fmtNat : Except Err Nat → String
  | .ok n => toString n
  | .error e => e.fmt

/-- ops (weights `none` = `sample_weight=None`; lengths are NOT checked here: the generated code
    sees exactly the arrays fairlearn sees):
  `bms.rate <kind> <yt> <yp> <w|none> <pos|none>`
  `bms.selrate <yt> <yp> <w|none> <pos>`
  `bms.meanpred <yt rats> <pred rats> <w|none>`
  `bms.count <yt> <yp>`
  `bms.labels <labels> <pos|none>` -/
def handle (toks : List String) : Option String :=
  match toks with
  | ["bms.rate", k, yt, yp, w, pos] => do
    let k ← parseKind k
    let yt ← Proto.parseInts yt
    let yp ← Proto.parseInts yp
    let w ← parseW w
    let pos ← parsePos pos
    pure (fmtRes (rate k yt yp w pos))
  | ["bms.selrate", yt, yp, w, pos] => do
    let yt ← Proto.parseInts yt
    let yp ← Proto.parseInts yp
    let w ← parseW w
    let pos ← Proto.parseInt pos
    pure (fmtRes (BaseMetricsSrc.selection_rate yt yp pos w))
  | ["bms.meanpred", yt, p, w] => do
    let yt ← Proto.parseRats yt
    let p ← Proto.parseRats p
    let w ← parseW w
    pure (fmtRes (BaseMetricsSrc.mean_prediction yt p w))
  | ["bms.count", yt, yp] => do
    let yt ← Proto.parseInts yt
    let yp ← Proto.parseInts yp
    pure (fmtNat (BaseMetricsSrc.count yt yp))
  | ["bms.labels", l, pos] => do
    let l ← Proto.parseInts l
    let pos ← parsePos pos
    pure (fmtLabels (BaseMetricsSrc.get_labels_for_confusion_matrix l pos))
  | _ => none

end BaseMetricsGen
