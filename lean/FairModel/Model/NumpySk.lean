/-
The numpy / scikit-learn primitives that `fairlearn/metrics/_base_metrics.py` calls, modelled by
their specifications (core Lean only).  `Generated/BaseMetricsSrc.lean` — the line-by-line
translation of the Python function bodies produced by `harness/lifters/base_metrics.py` — is written
in terms of these and of nothing else; the primitives themselves are the TRUSTED part
(checked only through the correspondence):

  np.dot(a, b), a.sum(), np.ones(n), np.zeros(n), a == x (elementwise), len(a), np.vstack((a, b)),
  np.unique (= `BaseMetrics.uniqueSorted`), frozenset(...).issuperset(list),
  sklearn.metrics.confusion_matrix(y_true, y_pred, sample_weight=, labels=, normalize=) and `.ravel()`.
-/
import FairModel.Model.BaseMetrics

namespace NumpySk
open BaseMetrics

/-- `np.dot` of two 1-d arrays (a boolean array counts as 0/1) -/
def dot (a b : List Rat) : Rat := ((a.zip b).map (fun p => p.1 * p.2)).sum
/-- `a.sum()` -/
def vsum (a : List Rat) : Rat := a.sum
/-- `np.ones(n)` / `np.zeros(n)` -/
def ones (n : Nat) : List Rat := List.replicate n 1
def zeros (n : Nat) : List Rat := List.replicate n 0
/-- `a == x` on a label array: the boolean mask as 0/1 -/
def eqInd (v : List Int) (x : Int) : List Rat := v.map (fun a => if a == x then 1 else 0)
/-- `a != x` -/
def neInd (v : List Int) (x : Int) : List Rat := v.map (fun a => if a == x then 0 else 1)
/-- `np.vstack((a, b))` as far as `np.unique` can see it: all entries -/
def vstack (ls : List (List Int)) : List Int := ls.flatten
/-- `frozenset(s).issuperset(l)` -/
def issuperset (s l : List Int) : Bool := l.all (fun x => s.contains x)

/-- `normalize=` of `sklearn.metrics.confusion_matrix` -/
inductive Normalize where | none | true_ | pred | all
deriving Repr, DecidableEq

/-- total weight of the samples with true label `a` and predicted label `b` -/
def cmCount (yt yp : List Int) (w : List Rat) (a b : Int) : Rat :=
  (((yt.zip (yp.zip w)).filter (fun t => t.1 == a && t.2.1 == b)).map (fun t => t.2.2)).sum

/-- `sklearn.metrics.confusion_matrix(y_true, y_pred, sample_weight=sw, labels=labels, normalize=norm)`:
    entry (i, j) is the total weight of the samples with true label `labels[i]` and predicted label
    `labels[j]` (samples with other labels are ignored); `sample_weight=None` is all ones; the
    normalised variants divide by the row / column / grand total and pass the result through
    `nan_to_num` (an empty denominator gives 0: `BaseMetrics.ratio`). -/
def confusionMatrix (yTrue yPred : List Int) (sw : Option (List Rat)) (labels : List Int)
    (norm : Normalize) : List (List Rat) :=
  let w := sw.getD (ones yTrue.length)
  let raw := labels.map (fun a => labels.map (fun b => cmCount yTrue yPred w a b))
  match norm with
  | .none => raw
  | .true_ => raw.map (fun row => row.map (fun x => ratio x row.sum))
  | .pred =>
    let colSums := (List.range labels.length).map (fun j => (raw.map (fun row => row.getD j 0)).sum)
    raw.map (fun row => List.zipWith (fun x s => ratio x s) row colSums)
  | .all =>
    let tot := (raw.map List.sum).sum
    raw.map (fun row => row.map (fun x => ratio x tot))

/-- `.ravel()` of a 2-d array (row major) -/
def ravel (m : List (List Rat)) : List Rat := m.flatten

end NumpySk
