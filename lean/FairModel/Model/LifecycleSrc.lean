/-
The life-cycle machines of `Model/Lifecycle.lean` with their RULE FLAGS DERIVED FROM THE SOURCE:
`Generated/LifecycleSrc.lean` is rewritten from the Python `ast` of the working tree on every run
(harness/lifters/lifecycle.py); here the lifted facts are turned into

  * `paramsAssignedInFit c`  = fitAssigned c ∩ ctorParams c     (which constructor parameters `fit` rebinds)
  * `paramsMutatedInFit c`   = fitMutated c ∩ ctorParams c      (… stores into in place)
  * `retRule`, `momentRule`, `nuRule`, `crRule`, `toClones`     the rule flags of the machines
  * `advStepSrc`             the adversarial step function written over the three lifted boolean rules
  * `GSsrc`, `EGsrc`, `TOsrc`, `CRsrc`, `ADVsrc`                the machines under those flags

The link "lifted data → behaviour" is the modelled assumption that rebinding `self.<name>` (assignment,
augmented assignment, `setattr` with a literal name, `del`) in the class's own methods is the only way the
value reported by `get_params` for `<name>` changes, and that the callees listed in `fitSelfEscapes`
(sklearn's `validate_data`, `check_is_fitted`, …) do not rebind constructor parameters.
Core Lean only (linked into the driver).
-/
import FairModel.Model.Lifecycle
import FairModel.Generated.LifecycleSrc

namespace LifecycleSrc
open Lifecycle Generated.LifecycleSrc

def inter (a b : List String) : List String := a.filter (fun x => b.contains x)

/-- constructor parameters that `fit` / `partial_fit` (transitively, inside the class) rebind -/
def paramsAssignedInFit (c : EstCls) : List String := inter (fitAssigned c) (ctorParams c)

/-- constructor parameters whose object `fit` stores into (`self.p[k] = v`, `self.p.a = v`) -/
def paramsMutatedInFit (c : EstCls) : List String := inter (fitMutated c) (ctorParams c)

/-- constructor parameters rebound or stored into by a prediction entry point -/
def paramsAssignedInPredict (c : EstCls) : List String := inter (predictAssigned c) (ctorParams c)

/-- the estimator classes the property quantifies over (the helper `_Lagrangian` is not one) -/
def estimators : List EstCls := [.TO, .EG, .GS, .CR, .ADV, .ADVC, .ADVR]

/-- code outside the class that is handed the estimator during prediction and is trusted not to alter it -/
def trustedPredictCallees : List String := ["check_is_fitted", "validate_data"]

/-- … during fit (`cb` = user callback of the adversarial estimators, `self.backend_` = the backend engine
    constructor, both documented extension points that receive the estimator) -/
def trustedFitCallees : List String :=
  ["check_is_fitted", "validate_data", "is_classifier", "type", "cb", "self.backend_"]

def subset (a b : List String) : Bool := a.all (fun x => b.contains x)

/-! ### rule flags -/

/-- F5a: every path of `fit` / `partial_fit` ends in `return self` -/
def retRule (c : EstCls) : Rule := if fitReturns c = ["self"] then .repaired else .current

/-- F5b: what `fit` does to the object behind `constraints` -/
def momentRule (c : EstCls) : MomentRule :=
  if constraintsCopied c then .copyPerFit else if momentLatch then .latched else .reentrant

/-- F5c: `nu` is among the parameters `ExponentiatedGradient.fit` rebinds -/
def nuRule : Rule := if (paramsAssignedInFit .EG).contains "nu" then .current else .repaired

/-- F5e: `CorrelationRemover.fit` reads `_n_features_in_` of an earlier fit -/
def crRule : Rule :=
  if (fitHistoryReads .CR).any (fun x => x.startsWith "_n_features_in_ ") then .current else .repaired

def provOk (p : String) : Bool := p = "clone" || p.startsWith "ctor:"

/-- every object a class calls `.fit` on was bound, on every path, to a clone / deep copy or to a freshly
    constructed object (never to the user's `estimator` itself) -/
def clonesBeforeFit (c : EstCls) : Bool := (fitReceivers c).all (fun r => r.2.all provOk)

/-- ThresholdOptimizer (prefit=False) fits a clone of the wrapped estimator -/
def toClones : Bool := clonesBeforeFit .TO && (fitReceivers .TO).any (fun r => r.1 = "self.estimator_")

/-- ThresholdOptimizer, prefit=True branch of `fit`: does it call `.fit` on anything? (lifted) -/
def TOPreSrc (h0 : List Data) : Machine TOPreState := TOPre toPrefitRefits h0

def gsRules : GSRules := ⟨retRule .GS, momentRule .GS⟩
def egRules : EGRules := ⟨momentRule .EG, nuRule⟩

def GSsrc : Machine GSState := GS gsRules
def EGsrc (nuGiven : Bool) : Machine EGState := EG egRules nuGiven
def TOsrc : Machine TOState := TO toClones
def CRsrc : Machine CRState := CR crRule

/-! ### "every fit overwrites all fitted state a prediction can see" -/

/-- the shape of a `fit`: attributes it (re)assigns on every path, attributes it assigns on some paths only, fitted
    attributes it may read before having reassigned them, attributes the prediction entry points read -/
structure FitShape where
  uncond : List String
  cond : List String
  historyReads : List String
  predictReads : List String

/-- fitted state as provenance: attribute ↦ (data id of the fit that wrote it, computed from that fit's inputs only?) -/
abbrev FittedState := String → Option (Nat × Bool)

/-- one call of `fit` on data `d`: unconditional attributes are rewritten, conditional ones if `choose` says so (a
    branch taken or not — it may depend on anything), the rest keeps its old value; a value is `clean` iff the fit
    read no stale fitted state -/
def fitOn (sh : FitShape) (choose : String → Bool) (d : Nat) (s : FittedState) : FittedState := fun a =>
  if sh.uncond.contains a then some (d, sh.historyReads.isEmpty)
  else if sh.cond.contains a && choose a then some (d, sh.historyReads.isEmpty)
  else s a

/-- what the prediction entry points can see -/
def observe (sh : FitShape) (s : FittedState) : List (Option (Nat × Bool)) := sh.predictReads.map s

def shapeOf (c : EstCls) : FitShape :=
  ⟨fitDefinitelyAssigned c, (fitAssigned c).filter (fun a => !(fitDefinitelyAssigned c).contains a),
   fitHistoryReads c, predictReads c⟩

/-- attributes a prediction reads that some path of `fit` leaves as an earlier fit wrote them -/
def predictReadsNotOverwritten (c : EstCls) : List String :=
  (predictReads c).filter (fun a => !(fitDefinitelyAssigned c).contains a)

/-! ### adversarial estimators: the step function over the three lifted rules -/

/-- `BackendEngine.__init__` with the lifted keep condition -/
def newEngineSrc (warmStart : Bool) (old : Option (List Data)) : List Data :=
  if advKeepEngine warmStart old.isSome then old.getD [] else []

def advStepSrc (warmStart : Bool) (s : AdvState) : Op → AdvState × Res
  | .fit d =>
    -- fit: reinitialize = advReinit(hasattr classes_, warm_start); _validate_input: setup iff advSetupCond
    let setup : Bool := advSetupCond s.isSetup (advReinit s.hasClasses warmStart)
    let eng : List Data := if setup then newEngineSrc warmStart s.engine else (s.engine.getD [])
    (⟨true, true, some (eng ++ [d])⟩, if fitReturns .ADV = ["self"] then .retSelf else .retNone)
  | .predict _ => (s, if s.isSetup then .ok else .raised .notFitted)
  | .pickle => (s, if s.engine.isSome then .raised .pickling else .ok)
  | .clone => (advInit, .ok)

def ADVsrc (warmStart : Bool) : Machine AdvState := ⟨advInit, advStepSrc warmStart⟩

/-! ### driver glue -/

def bools : List Bool := [false, true]

def sameFn2 (f g : Bool → Bool → Bool) : Bool := bools.all (fun a => bools.all (fun b => f a b == g a b))

/-- which hand-written adversarial rule the three lifted expressions coincide with (`?` = neither) -/
def advBit : String :=
  if sameFn2 advSetupCond (fun f r => !f || r) && sameFn2 advKeepEngine (fun w e => w && e) then
    if sameFn2 advReinit (fun h w => !h || !w) then "1"
    else if sameFn2 advReinit (fun h _ => !h) then "0" else "?"
  else "?"

def ruleBit : Rule → String
  | .current => "0"
  | .repaired => "1"

def momentBit : MomentRule → String
  | .latched => "0"
  | .copyPerFit => "1"
  | .reentrant => "2"

def flagsLine : String :=
  "F5a=" ++ ruleBit (retRule .GS) ++ " F5b.GS=" ++ momentBit (momentRule .GS) ++
  " F5b.EG=" ++ momentBit (momentRule .EG) ++ " F5c=" ++ ruleBit nuRule ++
  " F5d=" ++ advBit ++ " F5e=" ++ ruleBit crRule ++ " clone.TO=" ++ (if toClones then "1" else "0") ++
  " clone.GS=" ++ (if clonesBeforeFit .GS then "1" else "0") ++
  " prefit.TO=" ++ (if toPrefitRefits then "0" else "1") ++ " clone.EG=" ++ (if clonesBeforeFit .LAG && clonesBeforeFit .EG then "1" else "0") ++
  " ret=" ++ (if estimators.all (fun c => fitReturns c == ["self"]) then "1" else "0") ++
  " predictPure=" ++ (if estimators.all (fun c => (predictAssigned c).isEmpty) then "1" else "0") ++
  " overwritesAll=" ++ (if [EstCls.TO, .EG, .GS].all (fun c => (fitHistoryReads c).isEmpty && (predictReadsNotOverwritten c).isEmpty)
      then "1" else "0") ++
  " paramsAssigned=" ++ ",".intercalate (estimators.map (fun c => "|".intercalate (paramsAssignedInFit c ++ paramsMutatedInFit c)))

/-- `lifesrc.run <machine> <config bit> <widths> <ops>`: as `lifecycle.run`, but the rule flags come from
    `Generated/LifecycleSrc.lean` (machine ∈ to|cr|gs|eg|adv; config: eg = nuGiven, adv = warmStart, else `-`).
    `lifesrc.flags`: the derived rule vector. -/
def handle (toks : List String) : Option String :=
  match toks with
  | ["lifesrc.flags"] => some flagsLine
  | ["lifesrc.run", m, cfg, widths, ops] => do
    let widths ← Proto.parseNats widths
    let ops ← Proto.parseList (parseOp widths) ops
    match m, cfg.toList with
    | "to", ['-'] =>
      pure (fmtView (TOsrc.view toCls ops) (changedCol TOsrc toParams "estimator" ops))
    | "topre", ['-'] =>
      let h0 : List Data := [⟨9, 3⟩]
      pure (fmtView ((TOPreSrc h0).view (toPreCls h0) ops)
        (onlyAtFit ops (changedCol (TOPreSrc h0) (fun s => s.user) "estimator(refitted)" ops)))
    | "cr", ['-'] => pure (fmtView (CRsrc.view crCls ops) (ops.map (fun _ => "-")))
    | "gs", ['-'] => pure (fmtView (GSsrc.view gsCls ops) (ops.map (fun _ => "-")))
    | "eg", [c] => do
      let c ← parseFlag c
      pure (fmtView ((EGsrc c).view (egCls c) ops) (changedCol (EGsrc c) (fun s => s.nuParam) "nu" ops))
    | "adv", [c] => do
      let c ← parseFlag c
      pure (fmtView ((ADVsrc c).view advCls ops) (ops.map (fun _ => "-")))
    | _, _ => none
  | _ => none

end LifecycleSrc
