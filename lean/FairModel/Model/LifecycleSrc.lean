/-
The life-cycle machines of `Model/Lifecycle.lean` with their RULE FLAGS DERIVED FROM THE SOURCE:
`Generated/LifecycleSrc.lean` is rewritten from the Python `ast` of the working tree on every run
(harness/lifters/lifecycle.py); here the lifted facts are turned into

  * `paramsAssignedInFit c`  = fitAssigned c ∩ ctorParams c     (which constructor parameters `fit` rebinds)
  * `paramsMutatedInFit c`   = fitMutated c ∩ ctorParams c      (… stores into in place)
  * `retRule`, `momentRule`, `nuRule`, `crRule`, `toClones`     the rule flags of the machines
  * `advStepSrc`             the adversarial step function written over the three lifted boolean rules
  * `GSsrc`, `EGsrc`, `TOsrc`, `CRsrc`, `ADVsrc`                the machines under those flags
  * `predictPureSrc c`       the PREDICT-PURITY FLAG of class `c`, derived from the lifted lists: nothing is rebound / stored
                             into in the closure of the prediction entry points of the class (`predictAssigned`), the closure
                             hands the estimator only to sklearn's `check_is_fitted` / `validate_data`, and the same holds for
                             the closure continued ACROSS the helper object the class delegates to (`helperPure`:
                             `InterpolatedThresholder` behind `ThresholdOptimizer.interpolated_thresholder_`, `BackendEngine` /
                             `PytorchEngine` / `TensorflowEngine` behind `_AdversarialFairness.backendEngine_`)
  * `guardPredict`           every `…src` machine runs its `predict` step THROUGH that flag: with the flag off the state after a
                             prediction is tainted (no longer the fresh twin), so the `src_*_refines_spec` / `src_predict_does_
                             not_alter_state` theorems hold only because the lifted lists are what they are today

WHAT COUNTS AS FITTED STATE IN THE HELPER OBJECTS (decision, stated once): attributes of the helper object and of the
estimator behind `self.base` (rebinding, in-place stores, mutating method calls — containers, torch in-place `…_` methods,
optimiser `step` / `zero_grad` / `apply_gradients`, RNG draws — also through local aliases such as
`for p in self.predictor_model.parameters()`): YES, any of them in the prediction closure switches the flag off.
The train / eval MODE FLAG of a torch module (`model.eval()`, `model.train()`, keras `training=`): NO, it is scratch state,
PROVIDED (`modeOk`) (1) the prediction closure only ever selects eval mode, (2) every forward pass in the prediction closure
happens after an unconditional eval-mode selection on that module in the same call, and (3) `train_step` selects train mode
on that module before its own forward pass (so the flag never carries information from a prediction into a fit or into the
next prediction).  `PytorchEngine.evaluate` calls `self.predictor_model.eval()` — a write of `module.training` during
prediction — and this is how it is accounted for.

STILL MODELLED, NOT LIFTED: the `.retSelf` results of the EG / TO / CR steps (`fitReturns` is lifted and proved to be
`["self"]` for all classes, but only `gsStep` (rule flag) and `advStepSrc` compute their result from it), and
"pickle = identity on the modelled state".

The link "lifted data → behaviour" is the modelled assumption that rebinding `self.<name>` (assignment,
augmented assignment, `setattr` with a literal name, `del`) in the class's own methods is the only way the
value reported by `get_params` for `<name>` changes, and that the callees listed in `fitSelfEscapes`
(sklearn's `validate_data`, `check_is_fitted`, …) do not rebind constructor parameters.
Core Lean only (linked into the driver).
-/
import FairModel.Model.Lifecycle
import FairModel.Generated.LifecycleSrc

namespace LifecycleSrc
open Lifecycle Generated.LifecycleSrc

def inter (a b : List String) : List String := a.filter (fun x => b.contains x)

/-- constructor parameters that `fit` / `partial_fit` (transitively, inside the class) rebind -/
def paramsAssignedInFit (c : EstCls) : List String := inter (fitAssigned c) (ctorParams c)

/-- constructor parameters whose object `fit` stores into (`self.p[k] = v`, `self.p.a = v`) -/
def paramsMutatedInFit (c : EstCls) : List String := inter (fitMutated c) (ctorParams c)

/-- constructor parameters rebound or stored into by a prediction entry point -/
def paramsAssignedInPredict (c : EstCls) : List String := inter (predictAssigned c) (ctorParams c)

/-- the estimator classes the property quantifies over (the helper `_Lagrangian` is not one) -/
def estimators : List EstCls := [.TO, .EG, .GS, .CR, .ADV, .ADVC, .ADVR]

/-- code outside the class that is handed the estimator during prediction and is trusted not to alter it -/
def trustedPredictCallees : List String := ["check_is_fitted", "validate_data"]

/-- functions that receive an attribute of a helper object during prediction and are trusted not to alter it:
    `_get_soft_predictions(estimator_, X, _predict_method)` calls the wrapped estimator's own prediction method -/
def trustedHelperAttrArgs : List String :=
  ["_get_soft_predictions(estimator_)", "_get_soft_predictions(_predict_method)"]

/-- … during fit (`cb` = user callback of the adversarial estimators, `self.backend_` = the backend engine
    constructor, both documented extension points that receive the estimator) -/
def trustedFitCallees : List String :=
  ["check_is_fitted", "validate_data", "is_classifier", "type", "cb", "self.backend_"]

def subset (a b : List String) : Bool := a.all (fun x => b.contains x)

/-! ### predict purity, derived from the lifted lists -/

/-- calls on attribute objects during prediction that are NOT followed by the lifter and are trusted not to alter the
    estimator: the prediction methods of the wrapped (cloned) base estimators (`predictors_`, `_hs` = the callables
    `ExponentiatedGradient` stored per iteration), `FloatTransformer.inverse_transform` and the predictor function chosen at
    set-up time (a threshold / argmax / identity function) -/
def trustedPredictObjectCalls : List String :=
  ["predictors_.predict", "predictors_.predict_proba", "_hs()", "_y_transform.inverse_transform", "predictor_function_()"]

/-- the mode flag of the modules of helper class `h` is scratch state (see the file header) -/
def modeOk (h : HelperCls) : Bool :=
  (helperPredictModeCalls h).all (fun m => m.2 == "eval") &&
  (helperPredictForwardModes h).all (fun m => m.2 == "eval") &&
  (helperPredictModeCalls h).all (fun m =>
    (helperTrainStepForwardModes h).contains (m.1, "train") &&
    !(helperTrainStepForwardModes h).contains (m.1, "eval") &&
    !(helperTrainStepForwardModes h).contains (m.1, "unset"))

/-- the closure of the prediction entry points inside helper class `h` writes nothing, hands the helper object and its
    attributes to trusted code only, and treats the mode flag as scratch state -/
def helperPure (h : HelperCls) : Bool :=
  (helperPredictWrites h).isEmpty && subset (helperPredictSelfEscapes h) trustedPredictCallees &&
  subset (helperPredictAttrArgs h) trustedHelperAttrArgs && modeOk h

/-- every method the class calls on its helper object was found and analysed in every helper class behind it -/
def helperCallsResolved (c : EstCls) : Bool :=
  (helpersOf c).all (fun h => (helperPredictCalls c).all (fun m =>
    (helperPredictClosure h).any (fun q => q.endsWith ("." ++ m))))

/-- the predict-purity flag of class `c` under a given list of prediction methods that call `validate_data(self, ..)` with
    `reset=True` (sklearn then REWRITES the estimator's `n_features_in_` / `feature_names_in_` from the array to predict on:
    a write into the estimator's own attributes, finding F5g): such a method makes the prediction impure -/
def predictPureWith (resets : List String) (c : EstCls) : Bool :=
  (predictAssigned c).isEmpty && subset (predictSelfEscapes c) trustedPredictCallees &&
  subset (predictOtherCalls c) trustedPredictObjectCalls && helperCallsResolved c && (helpersOf c).all helperPure &&
  resets.isEmpty

/-- THE predict-purity flag of class `c`: `predictPureWith` at the LIFTED `predictValidateResets c` -/
def predictPureSrc (c : EstCls) : Bool := predictPureWith (predictValidateResets c) c

/-- run the `predict` step of `M` through a purity flag: flag off = the state after a prediction is `taint`ed -/
def guardPredict {σ : Type} (pure : Bool) (taint : σ → σ) (M : Machine σ) : Machine σ :=
  ⟨M.init, fun s o => match o with
    | .predict k => (if pure then (M.step s (.predict k)).1 else taint (M.step s (.predict k)).1, (M.step s (.predict k)).2)
    | o => M.step s o⟩

/-- what an impure prediction does to the modelled state: the fitted part no longer is the one a fresh twin has -/
def toTaint (s : TOState) : TOState := { s with fitted := s.fitted.map (fun p => (p.1 ++ [p.2], p.2)) }
def toPreTaint (s : TOPreState) : TOPreState := { s with fitted := s.fitted.map (fun p => (p.1 ++ [p.2], p.2)) }
def gsTaint (s : GSState) : GSState := { s with bestIdx := none }
def egTaint (s : EGState) : EGState := { s with fitted := s.fitted.map (fun p => (p.1, Nu.auto ⟨0, 0⟩)) }
def crTaint (s : CRState) : CRState := { s with fitted := s.fitted.map (fun d => ⟨d.id + 1000, d.width⟩) }
def advTaint (s : AdvState) : AdvState := { s with engine := s.engine.map (fun h => h ++ h ++ [⟨0, 0⟩]) }

/-! ### rule flags -/

/-- F5a: every path of `fit` / `partial_fit` ends in `return self` -/
def retRule (c : EstCls) : Rule := if fitReturns c = ["self"] then .repaired else .current

/-- F5b: what `fit` does to the object behind `constraints` -/
def momentRule (c : EstCls) : MomentRule :=
  if constraintsCopied c then .copyPerFit else if momentLatch then .latched else .reentrant

/-- F5c: `nu` is among the parameters `ExponentiatedGradient.fit` rebinds -/
def nuRule : Rule := if (paramsAssignedInFit .EG).contains "nu" then .current else .repaired

/-- F5e: `CorrelationRemover.fit` reads `_n_features_in_` of an earlier fit -/
def crRule : Rule :=
  if (fitHistoryReads .CR).any (fun x => x.startsWith "_n_features_in_ ") then .current else .repaired

def provOk (p : String) : Bool := p = "clone" || p.startsWith "ctor:"

/-- every object a class calls `.fit` on was bound, on every path, to a clone / deep copy or to a freshly
    constructed object (never to the user's `estimator` itself) -/
def clonesBeforeFit (c : EstCls) : Bool := (fitReceivers c).all (fun r => r.2.all provOk)

/-- ThresholdOptimizer (prefit=False) fits a clone of the wrapped estimator -/
def toClones : Bool := clonesBeforeFit .TO && (fitReceivers .TO).any (fun r => r.1 = "self.estimator_")

/-- ThresholdOptimizer, prefit=True branch of `fit`: does it call `.fit` on anything? (lifted) -/
def TOPreRaw (h0 : List Data) : Machine TOPreState := TOPre toPrefitRefits h0
def TOPreSrc (h0 : List Data) : Machine TOPreState := guardPredict (predictPureSrc .TO) toPreTaint (TOPreRaw h0)

def gsRules : GSRules := ⟨retRule .GS, momentRule .GS⟩
def egRules : EGRules := ⟨momentRule .EG, nuRule⟩

/-- the machines under the lifted rule flags, prediction step as hand-written (state untouched) … -/
def GSraw : Machine GSState := GS gsRules
def EGraw (nuGiven : Bool) : Machine EGState := EG egRules nuGiven
def TOraw : Machine TOState := TO toClones
def CRraw : Machine CRState := CR crRule

/-- … and with the prediction step run through the lifted purity flag: these are the machines the driver runs and the
    `src_*` theorems are about -/
def GSsrc : Machine GSState := guardPredict (predictPureSrc .GS) gsTaint GSraw
def EGsrc (nuGiven : Bool) : Machine EGState := guardPredict (predictPureSrc .EG) egTaint (EGraw nuGiven)
def TOsrc : Machine TOState := guardPredict (predictPureSrc .TO) toTaint TOraw
def CRsrc : Machine CRState := guardPredict (predictPureSrc .CR) crTaint CRraw

/-! ### "every fit overwrites all fitted state a prediction can see" -/

/-- the shape of a `fit`: attributes it (re)assigns on every path, attributes it assigns on some paths only, fitted
    attributes it may read before having reassigned them, attributes the prediction entry points read -/
structure FitShape where
  uncond : List String
  cond : List String
  historyReads : List String
  predictReads : List String

/-- fitted state as provenance: attribute ↦ (data id of the fit that wrote it, computed from that fit's inputs only?) -/
abbrev FittedState := String → Option (Nat × Bool)

/-- one call of `fit` on data `d`: unconditional attributes are rewritten, conditional ones if `choose` says so (a
    branch taken or not — it may depend on anything), the rest keeps its old value; a value is `clean` iff the fit
    read no stale fitted state -/
def fitOn (sh : FitShape) (choose : String → Bool) (d : Nat) (s : FittedState) : FittedState := fun a =>
  if sh.uncond.contains a then some (d, sh.historyReads.isEmpty)
  else if sh.cond.contains a && choose a then some (d, sh.historyReads.isEmpty)
  else s a

/-- what the prediction entry points can see -/
def observe (sh : FitShape) (s : FittedState) : List (Option (Nat × Bool)) := sh.predictReads.map s

def shapeOf (c : EstCls) : FitShape :=
  ⟨fitDefinitelyAssigned c, (fitAssigned c).filter (fun a => !(fitDefinitelyAssigned c).contains a),
   fitHistoryReads c, predictReads c⟩

/-- attributes a prediction reads that some path of `fit` leaves as an earlier fit wrote them -/
def predictReadsNotOverwritten (c : EstCls) : List String :=
  (predictReads c).filter (fun a => !(fitDefinitelyAssigned c).contains a)

/-! ### adversarial estimators: the step function over the three lifted rules -/

/-- `BackendEngine.__init__` with the lifted keep condition -/
def newEngineSrc (warmStart : Bool) (old : Option (List Data)) : List Data :=
  if advKeepEngine warmStart old.isSome then old.getD [] else []

def advStepSrc (warmStart : Bool) (s : AdvState) : Op → AdvState × Res
  | .fit d =>
    -- fit: reinitialize = advReinit(hasattr classes_, warm_start); _validate_input: setup iff advSetupCond
    let setup : Bool := advSetupCond s.isSetup (advReinit s.hasClasses warmStart)
    let eng : List Data := if setup then newEngineSrc warmStart s.engine else (s.engine.getD [])
    (⟨true, true, some (eng ++ [d])⟩, if fitReturns .ADV = ["self"] then .retSelf else .retNone)
  | .predict _ => (s, if s.isSetup then .ok else .raised .notFitted)
  | .pickle => (s, if s.engine.isSome then .raised .pickling else .ok)
  | .clone => (advInit, .ok)

def ADVraw (warmStart : Bool) : Machine AdvState := ⟨advInit, advStepSrc warmStart⟩
def ADVsrc (warmStart : Bool) : Machine AdvState := guardPredict (predictPureSrc .ADV) advTaint (ADVraw warmStart)

/-! ### driver glue -/

def bools : List Bool := [false, true]

def sameFn2 (f g : Bool → Bool → Bool) : Bool := bools.all (fun a => bools.all (fun b => f a b == g a b))

/-- which hand-written adversarial rule the three lifted expressions coincide with (`?` = neither) -/
def advBit : String :=
  if sameFn2 advSetupCond (fun f r => !f || r) && sameFn2 advKeepEngine (fun w e => w && e) then
    if sameFn2 advReinit (fun h w => !h || !w) then "1"
    else if sameFn2 advReinit (fun h _ => !h) then "0" else "?"
  else "?"

def ruleBit : Rule → String
  | .current => "0"
  | .repaired => "1"

def momentBit : MomentRule → String
  | .latched => "0"
  | .copyPerFit => "1"
  | .reentrant => "2"

def flagsLine : String :=
  "F5a=" ++ ruleBit (retRule .GS) ++ " F5b.GS=" ++ momentBit (momentRule .GS) ++
  " F5b.EG=" ++ momentBit (momentRule .EG) ++ " F5c=" ++ ruleBit nuRule ++
  " F5d=" ++ advBit ++ " F5e=" ++ ruleBit crRule ++ " clone.TO=" ++ (if toClones then "1" else "0") ++
  " clone.GS=" ++ (if clonesBeforeFit .GS then "1" else "0") ++
  " prefit.TO=" ++ (if toPrefitRefits then "0" else "1") ++ " clone.EG=" ++ (if clonesBeforeFit .LAG && clonesBeforeFit .EG then "1" else "0") ++
  " ret=" ++ (if estimators.all (fun c => fitReturns c == ["self"]) then "1" else "0") ++
  " predictPure=" ++ (if estimators.all predictPureSrc then "1" else "0") ++
  " helperPure=" ++ ",".intercalate (allHelpers.map (fun h => if helperPure h then "1" else "0")) ++
  " helperClosure=" ++ "|".intercalate (allHelpers.flatMap helperPredictClosure) ++
  " helperCalls=" ++ "|".intercalate (helperPredictCalls .TO) ++ "," ++ "|".intercalate (helperPredictCalls .ADV) ++
  " overwritesAll=" ++ (if [EstCls.TO, .EG, .GS].all (fun c => (fitHistoryReads c).isEmpty && (predictReadsNotOverwritten c).isEmpty)
      then "1" else "0") ++
  " paramsAssigned=" ++ ",".intercalate (estimators.map (fun c => "|".intercalate (paramsAssignedInFit c ++ paramsMutatedInFit c)))

/-- `lifesrc.run <machine> <config bit> <widths> <ops>`: as `lifecycle.run`, but the rule flags come from
    `Generated/LifecycleSrc.lean` (machine ∈ to|cr|gs|eg|adv; config: eg = nuGiven, adv = warmStart, else `-`).
    `lifesrc.flags`: the derived rule vector. -/
def handle (toks : List String) : Option String :=
  match toks with
  | ["lifesrc.flags"] => some flagsLine
  | ["lifesrc.run", m, cfg, widths, ops] => do
    let widths ← Proto.parseNats widths
    let ops ← Proto.parseList (parseOp widths) ops
    match m, cfg.toList with
    | "to", ['-'] =>
      pure (fmtView (TOsrc.view toCls ops) (changedCol TOsrc toParams "estimator" ops))
    | "topre", ['-'] =>
      let h0 : List Data := [⟨9, 3⟩]
      pure (fmtView ((TOPreSrc h0).view (toPreCls h0) ops)
        (onlyAtFit ops (changedCol (TOPreSrc h0) (fun s => s.user) "estimator(refitted)" ops)))
    | "cr", ['-'] => pure (fmtView (CRsrc.view crCls ops) (ops.map (fun _ => "-")))
    | "gs", ['-'] => pure (fmtView (GSsrc.view gsCls ops) (ops.map (fun _ => "-")))
    | "eg", [c] => do
      let c ← parseFlag c
      pure (fmtView ((EGsrc c).view (egCls c) ops) (changedCol (EGsrc c) (fun s => s.nuParam) "nu" ops))
    | "adv", [c] => do
      let c ← parseFlag c
      pure (fmtView ((ADVsrc c).view advCls ops) (ops.map (fun _ => "-")))
    | _, _ => none
  | _ => none

end LifecycleSrc
