/-
Model of fairlearn/metrics/_base_metrics.py (core Lean only).

Labels are `Int` (the harness maps string encodings to integers order-preservingly,
and never to 0, 1 or -1, so the `pos_label=None` rule sees them as "not in {0,1}/{-1,1}").
Weights are exact rationals.  `sample_weight=None` is the all-ones vector, as in the code.
-/
import FairModel.Model.Proto

namespace BaseMetrics

structure Row where
  yt : Int
  yp : Int
  w  : Rat
deriving Repr, DecidableEq

inductive Err where
  | restricted   -- "If pos_label is not specified, values must be from {0, 1} or {-1, 1}"
  | needPos      -- "Must have pos_label in y values"
  | tooMany      -- "Must have no more than two unique y values"
  | empty        -- "Empty y_pred passed to selection_rate function." / numpy error on empty
  | inconsistent -- sklearn `check_consistent_length`: "Found input variables with inconsistent numbers of samples"
deriving Repr, DecidableEq

def Err.fmt : Err → String
  | .restricted => "err:restricted"
  | .needPos => "err:needpos"
  | .tooMany => "err:toomany"
  | .empty => "err:empty"
  | .inconsistent => "err:inconsistent"

/-- insertion into a strictly increasing list (np.unique = sorted distinct values) -/
def insertSorted (x : Int) : List Int → List Int
  | [] => [x]
  | y :: ys => if x < y then x :: y :: ys else if x = y then y :: ys else y :: insertSorted x ys

def uniqueSorted (l : List Int) : List Int := l.foldr insertSorted []

/-- stand-in for `np.iinfo(np.int64).min` -/
def int64Min : Int := -9223372036854775808

/-- `_get_labels_for_confusion_matrix`: returns (negative label, positive label). -/
def labelsForCM (labels : List Int) (posLabel : Option Int) : Except Err (Int × Int) :=
  let u := uniqueSorted labels
  let pos? : Except Err Int :=
    match posLabel with
    | some p => .ok p
    | none =>
      if u.all (fun x => x = 0 || x = 1) || u.all (fun x => x = -1 || x = 1) then .ok 1
      else .error .restricted
  match pos? with
  | .error e => .error e
  | .ok pos =>
    match u with
    | [a] => if a = pos then .ok (int64Min, pos) else .ok (a, pos)
    | [a, b] => if pos = a then .ok (b, a) else if pos = b then .ok (a, b) else .error .needPos
    | _ => .error .tooMany

/-- total weight of the rows satisfying `p` -/
def wsum (p : Row → Bool) (rows : List Row) : Rat := ((rows.filter p).map (·.w)).sum

/-- sklearn `confusion_matrix(..., normalize="true")` followed by `nan_to_num`:
    an empty row of the confusion matrix is reported as 0. -/
def ratio (n d : Rat) : Rat := if d = 0 then 0 else n / d

def cell (rows : List Row) (a b : Int) : Rat := wsum (fun r => r.yt == a && r.yp == b) rows
def rowTot (rows : List Row) (neg pos a : Int) : Rat := cell rows a neg + cell rows a pos

def tprOf (rows : List Row) (neg pos : Int) : Rat := ratio (cell rows pos pos) (rowTot rows neg pos pos)
def fnrOf (rows : List Row) (neg pos : Int) : Rat := ratio (cell rows pos neg) (rowTot rows neg pos pos)
def fprOf (rows : List Row) (neg pos : Int) : Rat := ratio (cell rows neg pos) (rowTot rows neg pos neg)
def tnrOf (rows : List Row) (neg pos : Int) : Rat := ratio (cell rows neg neg) (rowTot rows neg pos neg)

inductive Kind where | tpr | fnr | fpr | tnr
deriving Repr, DecidableEq

def rateOf (k : Kind) (rows : List Row) (neg pos : Int) : Rat :=
  match k with
  | .tpr => tprOf rows neg pos
  | .fnr => fnrOf rows neg pos
  | .fpr => fprOf rows neg pos
  | .tnr => tnrOf rows neg pos

def allLabels (rows : List Row) : List Int := rows.map (·.yt) ++ rows.map (·.yp)

/-- the four public rate functions -/
def rate (k : Kind) (rows : List Row) (posLabel : Option Int) : Except Err Rat :=
  match labelsForCM (allLabels rows) posLabel with
  | .error e => .error e
  | .ok (neg, pos) => .ok (rateOf k rows neg pos)

def totalW (rows : List Row) : Rat := (rows.map (·.w)).sum

/-- `selection_rate`: indicator(pred == pos_label) . w / sum(w) -/
def selectionRate (rows : List Row) (posLabel : Int) : Except Err Rat :=
  if rows.isEmpty then .error .empty
  else .ok (wsum (fun r => r.yp == posLabel) rows / totalW rows)

/-- `mean_prediction` on numeric predictions (prediction given as a rational here) -/
structure PRow where
  pred : Rat
  w : Rat
deriving Repr

def meanPrediction (rows : List PRow) : Rat :=
  (rows.map (fun r => r.pred * r.w)).sum / (rows.map (·.w)).sum

def count (rows : List Row) : Nat := rows.length

/-- integer weights as multiplicities -/
def replicate (rows : List (Row × Nat)) : List Row :=
  rows.flatMap (fun (r, k) => List.replicate k { r with w := 1 })

def weighted (rows : List (Row × Nat)) : List Row :=
  rows.map (fun (r, k) => { r with w := (k : Rat) })

def scale (c : Rat) (rows : List Row) : List Row := rows.map (fun r => { r with w := c * r.w })

def replicateP (rows : List (PRow × Nat)) : List PRow :=
  rows.flatMap (fun (r, k) => List.replicate k { r with w := 1 })

def weightedP (rows : List (PRow × Nat)) : List PRow :=
  rows.map (fun (r, k) => { r with w := (k : Rat) })

/-! ### driver glue -/

def parseKind (s : String) : Option Kind :=
  match s with
  | "tpr" => some .tpr | "fnr" => some .fnr | "fpr" => some .fpr | "tnr" => some .tnr
  | _ => none

def mkRows (yt yp : List Int) (w : List Rat) : Option (List Row) :=
  if yt.length = yp.length && yt.length = w.length then
    some ((yt.zip (yp.zip w)).map (fun (a, b, c) => ⟨a, b, c⟩))
  else none

def fmtRes : Except Err Rat → String
  | .ok q => Proto.fmtRat q
  | .error e => e.fmt

def parsePos (s : String) : Option (Option Int) :=
  if s = "none" then some none else (Proto.parseInt s).map some

/-- ops:
  `rate <kind> <yt> <yp> <w> <pos|none>`
  `selrate <yt> <yp> <w> <pos>`
  `meanpred <pred rats> <w>`
  `count <yt> <yp>` -/
def handle (toks : List String) : Option String :=
  match toks with
  | ["rate", k, yt, yp, w, pos] => do
    let k ← parseKind k
    let rows ← mkRows (← Proto.parseInts yt) (← Proto.parseInts yp) (← Proto.parseRats w)
    let pos ← parsePos pos
    pure (fmtRes (rate k rows pos))
  | ["selrate", yt, yp, w, pos] => do
    let rows ← mkRows (← Proto.parseInts yt) (← Proto.parseInts yp) (← Proto.parseRats w)
    let pos ← Proto.parseInt pos
    pure (fmtRes (selectionRate rows pos))
  | ["meanpred", p, w] => do
    let p ← Proto.parseRats p
    let w ← Proto.parseRats w
    if p.length ≠ w.length || p.isEmpty then none
    else pure (Proto.fmtRat (meanPrediction ((p.zip w).map (fun (a, b) => ⟨a, b⟩))))
  | ["count", yt, yp] => do
    let yt ← Proto.parseInts yt
    let yp ← Proto.parseInts yp
    if yt.length ≠ yp.length then none else pure (toString yt.length)
  | _ => none

end BaseMetrics
