/-
Model of fairlearn/reductions/_moments/{utility_parity,error_rate,bounded_group_loss}.py and of the
relabel / reweight step of `_Lagrangian._call_oracle` and `GridSearch.fit` (core Lean only).

Data: one `Row` per sample = (label, group, optional control stratum).  Predictions, multipliers and
weights are `List Rat` aligned with the rows / with `index`.

Everything about the parity moments is parameterised by the per-row event `ev : Row → Option String`
(`none` = the row's `event` tag is NaN, i.e. the row belongs to no event):
  * `eventOf k`         the documented rule (a NaN base event stays NaN when control features are merged),
  * `eventOfSrc k`      what `_merge_event_and_control_columns` / `_combine_event_and_control` compute, LIFTED from the
                        source (`MomentsSrc.mergeEvent` / `combineEvent`, incl. the notnull guard of the F3 repair).
                        This is what the driver's mode `spec` runs; `C06.event_rule_lifted` proves it equal to
                        `eventOf k`, so every theorem about `eventOf` is a theorem about the lifted text,
  * `eventOfAsCoded k`  what `_combine_event_and_control` did BEFORE the F3 repair: `Series.combine` calls it
                        on every row and `"control={0},{1}".format(c, nan)` turns a NaN event into the string
                        `control=c,nan` (finding F3).
The arithmetic of `U`, `gamma`, `signed_weights`, the loss functions and the string constants are taken
from `Generated/MomentsSrc.lean`, which the translator regenerates from the Python source on every run.
-/
import FairModel.Model.Proto
import FairModel.Generated.MomentsSrc
import FairModel.Generated.LossRange
import FairModel.Generated.ProjectLambdaSrc
import FairModel.Generated.ValidationTables

namespace Moments

/-! ### small list helpers -/

/-- `Σ aᵢ·bᵢ` over the common prefix (the vectors always have equal length in the code) -/
def dot (a b : List Rat) : Rat := (List.zipWith (· * ·) a b).sum

def vsub (a b : List Rat) : List Rat := List.zipWith (· - ·) a b

/-- distinct values in order of first appearance (`Series.unique()`) -/
def dedupFirst {α} [DecidableEq α] : List α → List α
  | [] => []
  | x :: xs => x :: (dedupFirst xs).filter (· ≠ x)

/-- insertion into a sorted list (structural recursion, so that the kernel can evaluate it) -/
def insertBy {α} (le : α → α → Bool) (x : α) : List α → List α
  | [] => [x]
  | y :: ys => if le x y then x :: y :: ys else y :: insertBy le x ys

def sortBy {α} (le : α → α → Bool) (l : List α) : List α := l.foldr (insertBy le) []

/-- sorted distinct values (`groupby(...).size().index`) for a total order given as a Bool relation -/
def sortedDistinct {α} [DecidableEq α] (le : α → α → Bool) (l : List α) : List α :=
  sortBy le (dedupFirst l)

/-! ### rows, moments, events -/

structure Row where
  y : Int
  g : String
  c : Option String
deriving Repr, DecidableEq

inductive Kind where | dp | tpr | fpr | eo | erp
deriving Repr, DecidableEq

/-- `base_event` of the five `load_data` methods; `none` = NaN (`.where(y_train == c)`) -/
def baseEvent : Kind → Row → Option String
  | .dp, _ => some MomentsSrc.allEvent
  | .erp, _ => some MomentsSrc.allEvent
  | .tpr, r => if r.y = MomentsSrc.tprLabel then some (MomentsSrc.labelEvent r.y) else none
  | .fpr, r => if r.y = MomentsSrc.fprLabel then some (MomentsSrc.labelEvent r.y) else none
  | .eo, r => some (MomentsSrc.labelEvent r.y)

/-- documented rule: rows outside the conditioned label class belong to no event, with or without
    control features; otherwise the event is the base event within the row's control stratum -/
def eventOf (k : Kind) (r : Row) : Option String :=
  match baseEvent k r, r.c with
  | none, _ => none
  | some e, none => some e
  | some e, some c => some (MomentsSrc.ctrlFormat c e)

/-- the code: `event = _merge_event_and_control_columns(base_event, cf_train)`, row by row, as lifted from the source
    (`r.c = none`: no control features were passed, or this row's control value is null) -/
def eventOfSrc (k : Kind) (r : Row) : Option String :=
  MomentsSrc.mergeEvent r.c.isSome (baseEvent k r) r.c

/-- Python's `str.format` of a NaN event -/
def nanText : String := MomentsSrc.nanText

/-- the code as written (`_combine_event_and_control` is applied to every row by `Series.combine`):
    with a non-null control value the event is *always* formatted, a NaN event as the text "nan" -/
def eventOfAsCoded (k : Kind) (r : Row) : Option String :=
  match r.c with
  | none => baseEvent k r
  | some c => some (MomentsSrc.ctrlFormat c ((baseEvent k r).getD nanText))

/-! ### index -/

inductive Sign where | plus | minus
deriving Repr, DecidableEq

structure Key where
  sign : Sign
  event : String
  group : String
deriving Repr, DecidableEq

abbrev Ev := Row → Option String

/-- the (event, group) tag pairs of the rows that have an event -/
def pairs (ev : Ev) (rows : List Row) : List (String × String) :=
  rows.filterMap (fun r => (ev r).map (fun e => (e, r.g)))

/-- lexicographic order of `groupby([event, group_id])` -/
def pairLe (a b : String × String) : Bool :=
  decide (a.1 < b.1) || (a.1 == b.1 && decide (a.2 ≤ b.2))

/-- `prob_group_event.index`: the observed pairs, sorted -/
def observedPairs (ev : Ev) (rows : List Row) : List (String × String) :=
  sortedDistinct pairLe (pairs ev rows)

/-- `Moment.index` = `pd.concat([pge, pge], keys=["+", "-"]).index` -/
def index (ev : Ev) (rows : List Row) : List Key :=
  (observedPairs ev rows).map (fun p => ⟨.plus, p.1, p.2⟩) ++
  (observedPairs ev rows).map (fun p => ⟨.minus, p.1, p.2⟩)

def inE (ev : Ev) (e : String) (r : Row) : Bool := ev r == some e
def inEG (ev : Ev) (e g : String) (r : Row) : Bool := ev r == some e && r.g == g

def countE (ev : Ev) (rows : List Row) (e : String) : Nat := (rows.filter (inE ev e)).length
def countEG (ev : Ev) (rows : List Row) (e g : String) : Nat := (rows.filter (inEG ev e g)).length

/-- `prob_event[e]`, `prob_group_event[e, g]` -/
def probE (ev : Ev) (rows : List Row) (e : String) : Rat := (countE ev rows e : Rat) / (rows.length : Rat)
def probEG (ev : Ev) (rows : List Row) (e g : String) : Rat := (countEG ev rows e g : Rat) / (rows.length : Rat)

/-! ### U, gamma, bound, signed_weights, project_lambda -/

def ind (b : Bool) : Rat := if b then 1 else 0

/-- `U[i, k]` for row `r` -/
def uEntry (ev : Ev) (rows : List Row) (ratio : Rat) (r : Row) (k : Key) : Rat :=
  let es := ind (inE ev k.event r)
  let ges := es * ind (r.g == k.group)
  match k.sign with
  | .plus => MomentsSrc.uPlus es ges (probE ev rows k.event) (probEG ev rows k.event k.group) ratio
  | .minus => MomentsSrc.uMinus es ges (probE ev rows k.event) (probEG ev rows k.event k.group) ratio

/-- the matrix `self.U` (one list per row, columns in `index` order) -/
def U (ev : Ev) (rows : List Row) (ratio : Rat) : List (List Rat) :=
  rows.map (fun r => (index ev rows).map (uEntry ev rows ratio r))

/-- utilities `[g(h=0), g(h=1)]` of a row -/
structure Util where
  u0 : Row → Rat
  u1 : Row → Rat

def defaultUtil : Util := ⟨fun _ => MomentsSrc.defaultU0, fun _ => MomentsSrc.defaultU1⟩
def erpUtil : Util := ⟨fun r => MomentsSrc.erpU0 r.y, fun r => MomentsSrc.erpU1 r.y⟩

def utilOf : Kind → Util
  | .erp => erpUtil
  | _ => defaultUtil

def Util.ud (ut : Util) (r : Row) : Rat := MomentsSrc.utilDiff (ut.u0 r) (ut.u1 r)

/-- `pred = utility_diff * predictions + utilities[:, 0]` -/
def predOf (ut : Util) (rows : List Row) (h : List Rat) : List Rat :=
  List.zipWith (fun r p => MomentsSrc.predOf (ut.ud r) p (ut.u0 r)) rows h

/-- column `k` of `U` -/
def uCol (ev : Ev) (rows : List Row) (ratio : Rat) (k : Key) : List Rat :=
  rows.map (fun r => uEntry ev rows ratio r k)

/-- entry `k` of `gamma(h) = -U^T pred / n` -/
def gammaAt (ev : Ev) (rows : List Row) (ratio : Rat) (ut : Util) (h : List Rat) (k : Key) : Rat :=
  MomentsSrc.gammaOf (dot (uCol ev rows ratio k) (predOf ut rows h)) (rows.length : Rat)

def gamma (ev : Ev) (rows : List Row) (ratio : Rat) (ut : Util) (h : List Rat) : List Rat :=
  (index ev rows).map (gammaAt ev rows ratio ut h)

/-- `bound()` = `pd.Series(self.eps, index=self.index)` -/
def bound (ev : Ev) (rows : List Row) (eps : Rat) : List Rat := (index ev rows).map (fun _ => eps)

/-- `signed_weights(lambda) = utility_diff * U.dot(lambda)` -/
def signedWeights (ev : Ev) (rows : List Row) (ratio : Rat) (ut : Util) (lam : List Rat) : List Rat :=
  rows.map (fun r => MomentsSrc.swOf (ut.ud r) (dot ((index ev rows).map (uEntry ev rows ratio r)) lam))

def clip0 (x : Rat) : Rat := if x < 0 then 0 else x

/-- `project_lambda` on the two halves (`lambda_vec["+"]`, `lambda_vec["-"]`) of the multiplier vector:
    identity unless `ratio == 1.0`; guard and entry formulas are the lifted text of the method
    (`Generated/ProjectLambdaSrc.lean`); `Lemmas/ProjectLambda.lean` relates them to `clip0` -/
def projectLambda (ratio : Rat) (lp lm : List Rat) : List Rat × List Rat :=
  if ProjectLambdaSrc.projects ratio then
    (List.zipWith ProjectLambdaSrc.posOf lp lm, List.zipWith ProjectLambdaSrc.negOf lp lm)
  else (lp, lm)

/-- the same on the flat vector in `index` order -/
def projectLambdaFlat (ratio : Rat) (lam : List Rat) : List Rat :=
  let m := lam.length / 2
  let p := projectLambda ratio (lam.take m) (lam.drop m)
  p.1 ++ p.2

/-- constructor logic of `UtilityParity.__init__`: returns (eps, ratio).  Computed with the LIFTED branches:
    `parityCtor` (accept / reject of the if / elif chain), `parityEps` (the slack stored), `slackMustBeNonneg` (the
    trailing `if self.eps < 0: raise`, fairlearn c80f72a) from `Generated/ValidationTables.lean` and `parityRatio` from
    `Generated/MomentsSrc.lean`.  Which ValueError it is (`bothBounds` / `ratioRange`) is a label of the model only. -/
inductive CfgErr where | bothBounds | ratioRange | negSlack
deriving Repr, DecidableEq

def mkConfig (diffBound ratioBound : Option Rat) (slack : Rat) : Except CfgErr (Rat × Rat) :=
  let dg := diffBound.isSome
  let rg := ratioBound.isSome
  if Generated.ValidationTables.parityCtor dg rg (ratioBound.getD 0) then
    let eps := Generated.ValidationTables.parityEps dg rg (diffBound.getD 0) slack
    if Generated.ValidationTables.slackMustBeNonneg && decide (eps < 0) then .error .negSlack
    else .ok (eps, MomentsSrc.parityRatio dg rg (ratioBound.getD 0))
  else if dg && rg then .error .bothBounds else .error .ratioRange

/-! ### basis used by GridSearch (`pos_basis`, `neg_basis`) -/

/-- `event_vals = tags[event].dropna().unique()` -/
def eventVals (ev : Ev) (rows : List Row) : List String := dedupFirst (rows.filterMap ev)
/-- `group_vals = tags[group_id].unique()` -/
def groupVals (rows : List Row) : List String := dedupFirst (rows.map (·.g))

/-- the (event, group) pair of every basis column, in column order (last-seen group dropped) -/
def basisPairs (ev : Ev) (rows : List Row) : List (String × String) :=
  (eventVals ev rows).flatMap (fun e => (groupVals rows).dropLast.map (fun g => (e, g)))

/-- columns of `pos_basis` / `neg_basis` over `index`; a pair that is not observed gives a zero column -/
def basisCol (ev : Ev) (rows : List Row) (s : Sign) (p : String × String) : List Rat :=
  (index ev rows).map (fun k => ind (k == ⟨s, p.1, p.2⟩))

def posBasis (ev : Ev) (rows : List Row) : List (List Rat) := (basisPairs ev rows).map (basisCol ev rows .plus)
def negBasis (ev : Ev) (rows : List Row) : List (List Rat) := (basisPairs ev rows).map (basisCol ev rows .minus)

/-! ### ErrorRate (objective) -/

/-- `ErrorRate.gamma`: (fn-weighted positive part + fp-weighted negative part of `y - pred`) / n -/
def errGamma (fp fn : Rat) (ys : List Rat) (h : List Rat) : Rat :=
  let se := vsub ys h
  let tfn := ((se.filter (fun x => decide (0 < x))).map (fun x => x * fn)).sum
  let tfp := ((se.filter (fun x => decide (x < 0))).map (fun x => -x * fp)).sum
  MomentsSrc.errorValue tfn tfp (ys.length : Rat)

/-- `ErrorRate.signed_weights(lambda_vec)`; `none` = called without multiplier -/
def errWeights (fp fn : Rat) (ys : List Rat) (lam : Option Rat) : List Rat :=
  match lam with
  | none => ys.map (MomentsSrc.objWeight fp fn)
  | some l => ys.map (fun y => l * MomentsSrc.objWeight fp fn y)

/-- `ErrorRate.__init__` on a `costs` dict with exactly the keys `fp`, `fn` (lifted: `errorRateCtor` of
    `Generated/ValidationTables.lean`); `C06.costs_ok_iff`: accepted iff both are non-negative and not both zero -/
def costsOk (fp fn : Rat) : Bool := Generated.ValidationTables.errorRateCtor true true true fp fn

/-! ### BoundedGroupLoss / MeanLoss -/

inductive Loss where
  | square (lo hi : Rat)
  | absolute (lo hi : Rat)
deriving Repr, DecidableEq

def Loss.zeroOne : Loss := .absolute 0 1

/-- `loss.eval(y, p)` on numpy arrays -/
def Loss.eval : Loss → Rat → Rat → Rat
  | .square lo hi, y, p => MomentsSrc.squareLoss lo hi y p
  | .absolute lo hi, y, p => MomentsSrc.absoluteLoss lo hi y p

/-- `loss.eval(y, p)` on pandas Series — the call made by `ConditionalLossMoment.gamma`.  It differs from `Loss.eval`
    only when `max_val < min_val` (pandas swaps the bounds, numpy does not) -/
def Loss.evalS : Loss → Rat → Rat → Rat
  | .square lo hi, y, p => MomentsSrc.squareLossS lo hi y p
  | .absolute lo hi, y, p => MomentsSrc.absoluteLossS lo hi y p

/-- the loss object's own `min` / `max` attributes -/
def Loss.declMin : Loss → Rat
  | .square lo hi => LossRange.squareMin lo hi
  | .absolute lo hi => LossRange.absoluteMin lo hi
def Loss.declMax : Loss → Rat
  | .square lo hi => LossRange.squareMax lo hi
  | .absolute lo hi => LossRange.absoluteMax lo hi

structure LRow where
  y : Rat
  g : String
deriving Repr, DecidableEq

def strLe (a b : String) : Bool := decide (a ≤ b)

/-- `prob_attr.index` -/
def bglIndex (rows : List LRow) : List String := sortedDistinct strLe (rows.map (·.g))

def countG (rows : List LRow) (g : String) : Nat := (rows.filter (fun r => r.g == g)).length
def probG (rows : List LRow) (g : String) : Rat := (countG rows g : Rat) / (rows.length : Rat)

/-- `self.tags[_LOSS] = self.reduction_loss.eval(self.tags[_LABEL], self.tags[_PREDICTION])` (two Series) -/
def lossOf (l : Loss) (rows : List LRow) (h : List Rat) : List Rat :=
  List.zipWith (fun r p => l.evalS r.y p) rows h

/-- `tags.groupby(group_id).mean()[loss]` for group `g` -/
def bglGammaAt (l : Loss) (rows : List LRow) (h : List Rat) (g : String) : Rat :=
  (List.zipWith (fun r x => ind (r.g == g) * x) rows (lossOf l rows h)).sum / (countG rows g : Rat)

def bglGamma (l : Loss) (rows : List LRow) (h : List Rat) : List Rat :=
  (bglIndex rows).map (bglGammaAt l rows h)

/-- `adjust[g]` : value of the Series `lambda_vec / prob_attr` at label `g` -/
def lookup (keys : List String) (vals : List Rat) (g : String) : Rat :=
  dot (keys.map (fun k => ind (k == g))) vals

def bglSignedWeights (rows : List LRow) (lam : Option (List Rat)) : List Rat :=
  match lam with
  | none => rows.map (fun _ => 1)
  | some lv => rows.map (fun r => MomentsSrc.bglAdjust (lookup (bglIndex rows) lv r.g) (probG rows r.g))

/-- `MeanLoss` = the same moment after `sf_train = "all"` -/
def allGroup (rows : List LRow) : List LRow := rows.map (fun r => ⟨r.y, MomentsSrc.allEvent⟩)

/-! ### the reduction to weighted classification -/

/-- `redY = 1 * (signed_weights > 0)` -/
def relabel (w : List Rat) : List Rat := w.map (fun x => ind (decide (0 < x)))
/-- `signed_weights.abs()` (GridSearch passes these) -/
def absWeights (w : List Rat) : List Rat := w.map MomentsSrc.absR
/-- `_call_oracle`: `n * |w| / sum |w|` -/
def egWeights (w : List Rat) : List Rat :=
  let s := (absWeights w).sum
  (absWeights w).map (fun a => (w.length : Rat) * a / s)

/-- weighted 0/1 error of predictions `h` against labels `z` with weights `wt` -/
def weighted01 (z wt h : List Rat) : Rat :=
  (List.zipWith (fun (zw : Rat × Rat) x => if x = zw.1 then 0 else zw.2) (z.zip wt) h).sum

/-- `_Lagrangian._eval`: `L = error + Σ λ·(gamma − bound)` -/
def lagrangianValue (err : Rat) (lam gam bnd : List Rat) : Rat := err + dot lam (vsub gam bnd)

/-- labels of the rows as rationals (what `ErrorRate` sees after `load_data` on the same data) -/
def labelsOf (rows : List Row) : List Rat := rows.map (fun r => (r.y : Rat))

/-! ### driver glue -/

open Proto

def parseKind (s : String) : Option Kind :=
  match s with
  | "dp" => some .dp | "tpr" => some .tpr | "fpr" => some .fpr | "eo" => some .eo | "erp" => some .erp
  | _ => none

/-- `spec` = the event rule lifted from the source (= the documented rule, `C06.event_rule_lifted`), `coded` = `_combine_event_and_control` as it was written before the F3 repair -/
def parseMode (s : String) (k : Kind) : Option Ev :=
  match s with
  | "spec" => some (eventOfSrc k) | "coded" => some (eventOfAsCoded k)
  | _ => none

def parseCtl (s : String) (n : Nat) : Option (List (Option String)) :=
  if s = "none" then some (List.replicate n none)
  else do
    let l ← parseStrs s
    if l.length = n then some (l.map some) else none

def mkRows (ys : List Int) (gs : List String) (cs : List (Option String)) : Option (List Row) :=
  if ys.length = gs.length && ys.length = cs.length && ys.all (fun y => y == 0 || y == 1) then
    some ((ys.zip (gs.zip cs)).map (fun (a, b, c) => ⟨a, b, c⟩))
  else none

def parseData (k mode ys gs cs : String) : Option (Kind × Ev × List Row) := do
  let k ← parseKind k
  let ev ← parseMode mode k
  let ys ← parseInts ys
  let gs ← parseStrs gs
  let cs ← parseCtl cs ys.length
  let rows ← mkRows ys gs cs
  if rows.isEmpty then none else pure (k, ev, rows)

def fmtKey (k : Key) : String :=
  (match k.sign with | .plus => "P" | .minus => "M") ++ ":" ++ fmtStr k.event ++ ":" ++ fmtStr k.group

def parseOptRat (s : String) : Option (Option Rat) :=
  if s = "none" then some none else (parseRat s).map some

def parseLoss (name lo hi : String) : Option Loss := do
  let lo ← parseRat lo
  let hi ← parseRat hi
  match name with
  | "square" => some (.square lo hi)
  | "absolute" => some (.absolute lo hi)
  | "zeroone" => if lo = LossRange.zeroOneLo ∧ hi = LossRange.zeroOneHi then some (.absolute lo hi) else none
  | _ => none

def mkLRows (ys : List Rat) (gs : List String) : Option (List LRow) :=
  if ys.length = gs.length && !ys.isEmpty then some ((ys.zip gs).map (fun (a, b) => ⟨a, b⟩)) else none

/-- ops (all prefixed `mom.`):
  `mom.cfg <diff|none> <ratio|none> <slack>`                 -> `ok <eps> <ratio>` | `err:bothbounds` | `err:ratio` | `err:negslack`
  `mom.index <kind> <mode> <ys> <gs> <cs|none>`              -> keys
  `mom.events <kind> <mode> <ys> <gs> <cs|none>`             -> per-row event (`nan` for none)
  `mom.gamma <kind> <mode> <ratio> <ys> <gs> <cs> <h>`       -> rats (index order)
  `mom.bound <kind> <mode> <eps> <ys> <gs> <cs>`             -> rats
  `mom.U <kind> <mode> <ratio> <ys> <gs> <cs>`               -> matrix (rows = samples)
  `mom.sw <kind> <mode> <ratio> <ys> <gs> <cs> <lam>`        -> rats (row order)
  `mom.proj <ratio> <lam>`                                    -> rats
  `mom.basis <kind> <mode> <ys> <gs> <cs>`                   -> `<pos matrix of columns> <neg matrix of columns>`
  `mom.err.gamma <fp> <fn> <ys> <h>` / `mom.err.sw <fp> <fn> <ys> <lam|none>` / `mom.err.costs <fp> <fn>`
  `mom.bgl.index <gs>` / `mom.bgl.gamma <loss> <lo> <hi> <ys> <gs> <h>` / `mom.bgl.sw <ys> <gs> <lam|none>`
  `mom.loss.eval <loss> <lo> <hi> <arr|ser> <ys> <ps>` -> rats   (direct `loss.eval` on ndarrays / on Series)
  `mom.loss.range <loss> <lo> <hi>` -> `<min> <max>`          (the loss object's attributes)
  `mom.relabel <w>` -> `<labels> <abs weights> <normalised weights>`
  `mom.w01 <z> <wt> <h>`
  `mom.lagr <err> <lam> <gamma> <bound>` -/
def handle (toks : List String) : Option String :=
  match toks with
  | ["mom.cfg", d, r, s] => do
    let d ← parseOptRat d
    let r ← parseOptRat r
    let s ← parseRat s
    match mkConfig d r s with
    | .ok (eps, ratio) => pure ("ok " ++ fmtRat eps ++ " " ++ fmtRat ratio)
    | .error .bothBounds => pure "err:bothbounds"
    | .error .ratioRange => pure "err:ratio"
    | .error .negSlack => pure "err:negslack"
  | ["mom.index", k, mode, ys, gs, cs] => do
    let (_, ev, rows) ← parseData k mode ys gs cs
    pure (fmtList fmtKey (index ev rows))
  | ["mom.events", k, mode, ys, gs, cs] => do
    let (_, ev, rows) ← parseData k mode ys gs cs
    pure (fmtList (fun r => match ev r with | none => "nan" | some e => fmtStr e) rows)
  | ["mom.gamma", k, mode, ratio, ys, gs, cs, h] => do
    let (k, ev, rows) ← parseData k mode ys gs cs
    let ratio ← parseRat ratio
    let h ← parseRats h
    if h.length ≠ rows.length then none else
    pure (fmtRats (gamma ev rows ratio (utilOf k) h))
  | ["mom.bound", k, mode, eps, ys, gs, cs] => do
    let (_, ev, rows) ← parseData k mode ys gs cs
    let eps ← parseRat eps
    pure (fmtRats (bound ev rows eps))
  | ["mom.U", k, mode, ratio, ys, gs, cs] => do
    let (_, ev, rows) ← parseData k mode ys gs cs
    let ratio ← parseRat ratio
    pure (fmtMat (U ev rows ratio))
  | ["mom.sw", k, mode, ratio, ys, gs, cs, lam] => do
    let (k, ev, rows) ← parseData k mode ys gs cs
    let ratio ← parseRat ratio
    let lam ← parseRats lam
    if lam.length ≠ (index ev rows).length then none else
    pure (fmtRats (signedWeights ev rows ratio (utilOf k) lam))
  | ["mom.proj", ratio, lam] => do
    let ratio ← parseRat ratio
    let lam ← parseRats lam
    if lam.length % 2 ≠ 0 then none else
    pure (fmtRats (projectLambdaFlat ratio lam))
  | ["mom.basis", k, mode, ys, gs, cs] => do
    let (_, ev, rows) ← parseData k mode ys gs cs
    pure (fmtMat (posBasis ev rows) ++ " " ++ fmtMat (negBasis ev rows))
  | ["mom.err.gamma", fp, fn, ys, h] => do
    let fp ← parseRat fp
    let fn ← parseRat fn
    let ys ← parseRats ys
    let h ← parseRats h
    if h.length ≠ ys.length || ys.isEmpty then none else
    pure (fmtRat (errGamma fp fn ys h))
  | ["mom.err.sw", fp, fn, ys, lam] => do
    let fp ← parseRat fp
    let fn ← parseRat fn
    let ys ← parseRats ys
    let lam ← parseOptRat lam
    pure (fmtRats (errWeights fp fn ys lam))
  | ["mom.err.costs", fp, fn] => do
    let fp ← parseRat fp
    let fn ← parseRat fn
    pure (fmtBool (costsOk fp fn))
  | ["mom.bgl.index", gs] => do
    let gs ← parseStrs gs
    pure (fmtStrs (bglIndex (gs.map (fun g => ⟨0, g⟩))))
  | ["mom.bgl.gamma", loss, lo, hi, ys, gs, h] => do
    let l ← parseLoss loss lo hi
    let rows ← mkLRows (← parseRats ys) (← parseStrs gs)
    let h ← parseRats h
    if h.length ≠ rows.length then none else
    pure (fmtRats (bglGamma l rows h))
  | ["mom.bgl.sw", ys, gs, lam] => do
    let rows ← mkLRows (← parseRats ys) (← parseStrs gs)
    if lam = "none" then pure (fmtRats (bglSignedWeights rows none)) else
    let lam ← parseRats lam
    if lam.length ≠ (bglIndex rows).length then none else
    pure (fmtRats (bglSignedWeights rows (some lam)))
  | ["mom.loss.eval", loss, lo, hi, cont, ys, ps] => do
    let l ← parseLoss loss lo hi
    let ys ← parseRats ys
    let ps ← parseRats ps
    if ys.length ≠ ps.length then none else
    match cont with
    | "arr" => pure (fmtRats (List.zipWith l.eval ys ps))
    | "ser" => pure (fmtRats (List.zipWith l.evalS ys ps))
    | _ => none
  | ["mom.loss.range", loss, lo, hi] => do
    let l ← parseLoss loss lo hi
    pure (fmtRat l.declMin ++ " " ++ fmtRat l.declMax)
  | ["mom.relabel", w] => do
    let w ← parseRats w
    pure (fmtRats (relabel w) ++ " " ++ fmtRats (absWeights w) ++ " " ++ fmtRats (egWeights w))
  | ["mom.w01", z, wt, h] => do
    let z ← parseRats z
    let wt ← parseRats wt
    let h ← parseRats h
    if z.length ≠ wt.length || z.length ≠ h.length then none else
    pure (fmtRat (weighted01 z wt h))
  | ["mom.lagr", err, lam, gam, bnd] => do
    let err ← parseRat err
    let lam ← parseRats lam
    let gam ← parseRats gam
    let bnd ← parseRats bnd
    if lam.length ≠ gam.length || gam.length ≠ bnd.length then none else
    pure (fmtRat (lagrangianValue err lam gam bnd))
  | _ => none

end Moments
