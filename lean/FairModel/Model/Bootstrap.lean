/-
Model for C18 (bootstrap confidence intervals), core Lean only.

What is modelled (fairlearn/metrics/_bootstrap.py, _metric_frame.py:289-311, :392-452):

* the random number generator is NOT modelled: the resample indices (for every bootstrap sample a
  list of positions into the data rows, as drawn by `DataFrame.sample(frac=1, replace=True,
  random_state=rs[i])`) are an input; the harness recovers them by replaying the seed stream;
* every resample is evaluated like the point estimate (`DisaggregatedResult.create` on the sampled
  rows): overall value, per-group values over the groups present in the resample, group_min/max,
  difference and ratio with both methods — `sampleFrame` (the frame arithmetic is `Weights.aggregate`);
* `calculate_pandas_quantiles`: for Series (no control features: overall and the aggregates) it is
  `np.quantile` over the samples, which yields NaN as soon as one sample is NaN — `quantileProp`;
  for DataFrames (by_group always; everything when control features are present) the sample indices
  are aligned to their union with NaN filling and `np.nanquantile` skips the NaNs, an all-NaN column
  gives NaN — `quantileSkip`;
* numpy's default quantile method 'linear' on the sorted values: virtual index `h = (k-1)·q`,
  `j = ⌊h⌋`, result `s[j] + (s[j+1] - s[j])·(h - j)` (upper index clipped to `k-1`) — `quantileLinear`.

Control features: the harness splits the rows by control level and passes, per level, the rows of
that level and the resample positions restricted to it (an empty list = level absent from that
resample = all-NaN row after alignment), with `skip = 1`.
-/
import FairModel.Model.Weights

namespace Bootstrap
open BaseMetrics Weights

/-! ### quantiles -/

/-- insertion into an ascending list (structural recursion, so the kernel can evaluate it) -/
def insertR (x : Rat) : List Rat → List Rat
  | [] => [x]
  | y :: ys => if x ≤ y then x :: y :: ys else y :: insertR x ys

/-- ascending sort of the sample values (numpy sorts / partitions them before interpolating) -/
def sortR (l : List Rat) : List Rat := l.foldr insertR []

/-- numpy 'linear' quantile of an ascending list -/
def quantileSorted (s : List Rat) (q : Rat) : Rat :=
  let k := s.length
  let h : Rat := ((k - 1 : Nat) : Rat) * q
  let j : Nat := h.floor.toNat
  let g : Rat := h - (j : Rat)
  let lo := s.getD j 0
  let hi := s.getD (min (j + 1) (k - 1)) 0
  lo + (hi - lo) * g

def quantileLinear (xs : List Rat) (q : Rat) : Rat := quantileSorted (sortR xs) q

def isNaN : XR → Bool
  | .nan => true
  | _ => false

def finOnly : List XR → Option (List Rat)
  | [] => some []
  | .fin q :: rest => (finOnly rest).map (q :: ·)
  | _ :: _ => none

/-- `np.quantile` along the sample axis: NaN if any sample is NaN.
    `none` = outside the model (no samples, or an infinite sample value). -/
def quantileProp (xs : List XR) (q : Rat) : Option XR :=
  if xs.isEmpty then none
  else if xs.any isNaN then some .nan
  else (finOnly xs).map (fun l => .fin (quantileLinear l q))

/-- `np.nanquantile` along the sample axis: NaNs are dropped, an all-NaN column gives NaN. -/
def quantileSkip (xs : List XR) (q : Rat) : Option XR :=
  let l := xs.filter (fun x => !isNaN x)
  if l.isEmpty then some .nan
  else (finOnly l).map (fun l => .fin (quantileLinear l q))

/-- the quantile function `calculate_pandas_quantiles` applies along the sample axis -/
def quantileXR (skip : Bool) (xs : List XR) (q : Rat) : Option XR :=
  if skip then quantileSkip xs q else quantileProp xs q

/-- one CI entry list: one value per requested quantile -/
def ciOf (skip : Bool) (samples : List XR) (qs : List Rat) : Option (List XR) :=
  qs.mapM (quantileXR skip samples)

/-! ### metrics and resamples -/

inductive BMetric where
  | w (m : Metric)
  | count
  | const (c : Rat)
deriving Repr, DecidableEq

def evalB : BMetric → List WRow → Except Err Rat
  | .w m, rows => eval m rows
  | .count, rows => .ok (rows.length : Rat)
  | .const c, _ => .ok c

/-- the point-estimate computation for an arbitrary row metric -/
def frameOf (m : BMetric) (rows : List WRow) : Except Err Frame :=
  match evalB m rows with
  | .error e => .error e
  | .ok ov =>
    match collect ((keys rows).map (fun k => (k, evalB m (groupRows k rows)))) with
    | .error e => .error e
    | .ok vals => .ok (aggregate (keys rows) vals ov)

/-- rows drawn by one resample (positions into `rows`); `none` if a position is out of range -/
def pick (rows : List WRow) (idx : List Nat) : Option (List WRow) := idx.mapM (fun i => rows[i]?)

/-- frame of one resample; inner `none` = the resample has no row (of this control level) -/
def sampleFrame (m : BMetric) (rows : List WRow) (idx : List Nat) : Option (Option Frame) :=
  match pick rows idx with
  | none => none
  | some [] => some none
  | some rs =>
    match frameOf m rs with
    | .error _ => none
    | .ok f => some (some f)

def column (f : Frame → XR) (samples : List (Option Frame)) : List XR :=
  samples.map (fun s => match s with
    | none => .nan
    | some fr => f fr)

def lookupKey (key : Int) : List Int → List Rat → XR
  | k :: ks, v :: vs => if k = key then .fin v else lookupKey key ks vs
  | _, _ => .nan

/-- union of the group keys occurring in at least one resample (index of `by_group_ci`) -/
def ciKeys (samples : List (Option Frame)) : List Int :=
  uniqueSorted (samples.flatMap (fun s => match s with
    | none => []
    | some fr => fr.keys))

structure CI where
  keys : List Int
  overall : List XR
  byGroup : List (List XR)   -- one row per key, one entry per quantile
  gmin : List XR
  gmax : List XR
  diffBetween : List XR
  diffOverall : List XR
  ratioBetween : List XR
  ratioOverall : List XR
deriving Repr, DecidableEq

def samplesOf (m : BMetric) (rows : List WRow) (idxs : List (List Nat)) : Option (List (Option Frame)) :=
  idxs.mapM (sampleFrame m rows)

def fOverall (fr : Frame) : XR := .fin fr.overall
def fMin (fr : Frame) : XR := .fin fr.gmin
def fMax (fr : Frame) : XR := .fin fr.gmax
def fDiffB (fr : Frame) : XR := .fin fr.diffBetween
def fDiffO (fr : Frame) : XR := .fin fr.diffOverall
def fKey (key : Int) (fr : Frame) : XR := lookupKey key fr.keys fr.byGroup

/-- `by_group_ci`: one row per key of the union index, always through `nanquantile` -/
def byGroupCI (samples : List (Option Frame)) (qs : List Rat) : Option (List (List XR)) :=
  (ciKeys samples).mapM (fun key => ciOf true (column (fKey key) samples) qs)

/-- all `*_ci` results of one (control level of a) bootstrapped MetricFrame.
    `skip`: overall and aggregates go through the DataFrame path (control features present).
    `none` = outside the model (bad position, metric error, infinite sample value). -/
def ci (skip : Bool) (m : BMetric) (rows : List WRow) (idxs : List (List Nat)) (qs : List Rat) : Option CI :=
  match samplesOf m rows idxs with
  | none => none
  | some samples =>
    match ciOf skip (column fOverall samples) qs, byGroupCI samples qs,
      ciOf skip (column fMin samples) qs, ciOf skip (column fMax samples) qs,
      ciOf skip (column fDiffB samples) qs, ciOf skip (column fDiffO samples) qs,
      ciOf skip (column Frame.ratioBetween samples) qs, ciOf skip (column Frame.ratioOverall samples) qs with
    | some ov, some bg, some mn, some mx, some db, some dO, some rb, some ro =>
      some { keys := ciKeys samples, overall := ov, byGroup := bg, gmin := mn, gmax := mx,
             diffBetween := db, diffOverall := dO, ratioBetween := rb, ratioOverall := ro }
    | _, _, _, _, _, _, _, _ => none

/-! ### control features and several metrics: one CI per (metric, control level)

fairlearn resamples the WHOLE data frame (`all_data.sample(..)`) and then groups the resampled rows by control level
and sensitive feature; the CI entry of (metric m, level L) is computed from the column of m's values at L over the
resamples.  `ciAt` computes it from the unsplit data: the rows of level L and, per resample, the drawn positions that
point at rows of level L (renumbered within the level). -/

/-- a data row with its control level -/
abbrev TRow := Nat × WRow

def levelRows (L : Nat) (tr : List TRow) : List WRow := (tr.filter (fun p => p.1 == L)).map (·.2)

/-- position of data row i among the rows of level L -/
def rank (L : Nat) (tr : List TRow) (i : Nat) : Nat := ((tr.take i).filter (fun p => p.1 == L)).length

/-- the positions of one resample that hit level L, renumbered within the level -/
def restrict (L : Nat) (tr : List TRow) (idx : List Nat) : List Nat :=
  (idx.filter (fun i => ((tr[i]?).map (fun p => p.1 == L)).getD false)).map (rank L tr)

def ciAt (L : Nat) (m : BMetric) (tr : List TRow) (idxs : List (List Nat)) (qs : List Rat) : Option CI :=
  ci true m (levelRows L tr) (idxs.map (restrict L tr)) qs

/-- all `*_ci` results of a bootstrapped MetricFrame with a metric dict and a control feature -/
def ciFrame (ms : List BMetric) (levels : List Nat) (tr : List TRow) (idxs : List (List Nat)) (qs : List Rat) :
    List (List (Option CI)) :=
  ms.map (fun m => levels.map (fun L => ciAt L m tr idxs qs))

/-! ### driver glue -/

def parseBMetric (s pos : String) : Option BMetric :=
  match s with
  | "count" => if pos = "none" then some .count else none
  | "const" => (Proto.parseRat pos).map BMetric.const
  | _ => (parseMetric s pos).map BMetric.w

/-- resamples separated by ';', each a comma list of row positions; `e` = a resample without any
    row of this control level -/
def parseIdxs (s : String) : Option (List (List Nat)) :=
  (s.splitOn ";").mapM (fun t => if t = "e" then some [] else if t = "-" then none else Proto.parseNats t)

def fmtXRs (l : List XR) : String := Proto.fmtList XR.fmt l

def CI.fmt (c : CI) : String :=
  " ".intercalate [Proto.fmtInts c.keys, fmtXRs c.overall,
    (if c.byGroup.isEmpty then "-" else ";".intercalate (c.byGroup.map fmtXRs)),
    fmtXRs c.gmin, fmtXRs c.gmax, fmtXRs c.diffBetween, fmtXRs c.diffOverall,
    fmtXRs c.ratioBetween, fmtXRs c.ratioOverall]

/-- ops:
  `boot.quantile <xs> <q>`                                                     -> numpy linear quantile
  `boot.ci <skip 0|1> <metric> <pos> <g> <yt> <yp> <pred> <w|none> <idxs> <qs>` -> keys overall bygroup gmin gmax db do rb ro
  (`idxs`: resamples separated by ';', each a comma list of row positions, 'e' = empty resample)
  `boot.ciat <level> <tags> <metric> <pos> <g> <yt> <yp> <pred> <w|none> <full idxs> <qs>` -> the same for one control level,
  computed from the unsplit data -/
def handle (toks : List String) : Option String :=
  match toks with
  | ["boot.quantile", xs, q] => do
    let xs ← Proto.parseRats xs
    let q ← Proto.parseRat q
    if xs.isEmpty || q < 0 || 1 < q then none else pure (Proto.fmtRat (quantileLinear xs q))
  | ["boot.ci", skip, m, pos, g, yt, yp, pred, w, idxs, qs] => do
    let skip ← Proto.parseBool skip
    let m ← parseBMetric m pos
    let rows ← mkRows "w" g yt yp pred w
    let idxs ← parseIdxs idxs
    let qs ← Proto.parseRats qs
    if idxs.isEmpty || qs.isEmpty || qs.any (fun q => q ≤ 0 || 1 ≤ q) then none
    else match ci skip m rows idxs qs with
      | some c => pure c.fmt
      | none => pure "unsupported"
  | ["boot.ciat", level, tags, m, pos, g, yt, yp, pred, w, idxs, qs] => do
    -- as `boot.ci 1 ..` but on the UNSPLIT data: `tags` = control level of every row, `idxs` = full resamples
    let level ← Proto.parseNat level
    let tags ← Proto.parseNats tags
    let m ← parseBMetric m pos
    let rows ← mkRows "w" g yt yp pred w
    let idxs ← (idxs.splitOn ";").mapM Proto.parseNats
    let qs ← Proto.parseRats qs
    if tags.length != rows.length || idxs.isEmpty || qs.isEmpty || qs.any (fun q => q ≤ 0 || 1 ≤ q) then none
    else match ciAt level m (tags.zip rows) idxs qs with
      | some c => pure c.fmt
      | none => pure "unsupported"
  | _ => none

end Bootstrap
