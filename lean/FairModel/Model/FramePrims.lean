/-
The pandas primitives that `DisaggregatedResult._apply_functions` / `create`,
`apply_to_dataframe` and `AnnotatedMetricFunction.__call__` use, expressed over the row model of
`Model/Frame.lean` (core Lean only).  `Generated/FrameSrc.lean` — the translation of those function
bodies produced by `harness/lifters/frame.py` — is written in terms of these.  The primitives are
the TRUSTED part (pandas behaviour modelled by its specification, checked by the correspondence):

  data[col]                                   -> `column`
  data.groupby(names).apply(fn, ...)          -> `groupbyApply`  (one entry per observed tuple, sorted)
  data.groupby(names, dropna=b).apply(...)    -> `groupbyApplyNa b` (rows with a missing key component dropped when b)
  np.unique(values)                           -> `npUnique`      (sorted distinct values)
  pd.MultiIndex.from_product(list_of_levels)  -> `fromProduct`   (first factor slowest)
  temp.reindex(index=idx)                     -> `Frame.reindex` (missing labels get NaN)
-/
import FairModel.Model.Frame

namespace FramePrims
open Frame

variable {α β : Type}

/-- a grouping column of `all_data`: the i-th control feature or the i-th sensitive feature -/
inductive Col where
  | cf (i : Nat)
  | sf (i : Nat)
deriving Repr, DecidableEq

/-- the value of a grouping column in a row -/
def colVal (r : Row α) : Col → Level
  | .cf i => r.cf.getD i ""
  | .sf i => r.sf.getD i ""

/-- `data[col]` -/
def column (data : List (Row α)) (c : Col) : List Level := data.map (fun r => colVal r c)

/-- `np.unique` -/
def npUnique (l : List Level) : List Level := uniq l

/-- `pd.MultiIndex.from_product` -/
def fromProduct (ls : List (List Level)) : List Key := product ls

/-- `data.groupby(names).apply(fn, ...)`: `fn` on the rows of every observed tuple of the named
    columns, tuples in sorted order -/
def groupbyApply (data : List (Row α)) (names : List Col) (fn : List α → β) : List (Key × β) :=
  grouped (fun r => names.map (colVal r)) fn data

/-- the model's stand-in for a MISSING feature value (`None` / NaN): a distinguished level that no generated level equals -/
def naLevel : Level := "\x00"

/-- an index tuple with a missing component -/
def keyHasNa (k : Key) : Bool := k.contains naLevel

/-- `data.groupby(names, dropna=dropna).apply(fn, ...)`: with `dropna=True` (the pandas default) a row whose key contains a
    missing value belongs to no group — it is filtered out BEFORE grouping (`np.unique(data[col])`, evaluated on the whole
    frame, still sees it); the flag is `FrameSrc.groupby_dropna`, read from the call by `harness/lifters/frame.py` -/
def groupbyApplyNa (dropna : Bool) (data : List (Row α)) (names : List Col) (fn : List α → β) : List (Key × β) :=
  groupbyApply (if dropna then data.filter (fun r => !keyHasNa (names.map (colVal r))) else data) names fn

/-- "no missing feature value" (the quantifier of C01 / the generators: every feature value is an observed value) -/
def NoMissing (rows : List (Row α)) : Prop := ∀ r ∈ rows, naLevel ∉ r.cf ∧ naLevel ∉ r.sf

instance (rows : List (Row α)) : Decidable (NoMissing rows) := by
  unfold NoMissing; exact List.decidableBAll _ rows

/-- `fn(data)` on the whole frame: a result without index (empty key) -/
def ungrouped (data : List (Row α)) (fn : List α → β) : List (Key × β) := [([], fn (slice data))]

/-- the column names `MetricFrame.__init__` passes to `DisaggregatedResult.create` -/
def sfNames (nsf : Nat) : List Col := (List.range nsf).map Col.sf
/-- `self._cf_names` is `None` when no control features were given -/
def cfNames (ncf : Nat) : Option (List Col) := if ncf = 0 then none else some ((List.range ncf).map Col.cf)

/-- which part of the underlying pandas result an accessor hands out: all of it, `.iloc[:, 0]`, `.iloc[0]` -/
inductive Extract where
  | whole
  | column0
  | entry0
deriving Repr, DecidableEq

/-! ### `all_data` as a table of named numeric columns (y_true, y_pred, sample-parameter columns) -/

/-- the non-feature columns of `all_data`; a later assignment to the same name shadows the earlier one -/
abbrev AllData := List (String × List Rat)

/-- `all_data[col_name] = values` -/
def setCol (t : AllData) (c : String) (v : List Rat) : AllData := (c, v) :: t

/-- `all_data[col_name]` -/
def getCol (t : AllData) (c : String) : List Rat := (t.lookup c).getD []

/-- `all_data.columns` -/
def columns (t : AllData) : List String := t.map Prod.fst

/-- `while c in all_data.columns: c = c + suffix` with an explicit iteration bound -/
def uniquifyAux (cols : List String) (suffix : String) : Nat → String → String
  | 0, c => c
  | fuel + 1, c => if cols.contains c then uniquifyAux cols suffix fuel (c ++ suffix) else c

/-- `while c in all_data.columns: c = c + suffix`.  The loop leaves as soon as the name is free; with a
    non-empty suffix the candidates get longer every round, so at most `len(columns)` rounds are needed:
    the bound `len(columns) + 1` is never the reason for stopping (`Lemmas/FrameMulti.uniquifyCol_fresh`). -/
def uniquifyCol (t : AllData) (c : String) (suffix : String) : String :=
  uniquifyAux (columns t) suffix (t.length + 1) c

/-- `d[key] = value` on a dict whose keys are the (distinct) keys of `sample_params` -/
def dictSet (m : List (String × String)) (k v : String) : List (String × String) := m ++ [(k, v)]

/-- `f"{x}"` of an optional string -/
def pyFormat : Option String → String
  | none => "None"
  | some s => s

/-- the slice of `all_data` with the rows `idx` (what `groupby(...).apply` hands to the function),
    as the function `df[col]` -/
def sliceDF (t : AllData) (idx : List Nat) : String → List Rat :=
  fun c => idx.map (fun j => (getCol t c).getD j 0)

end FramePrims
