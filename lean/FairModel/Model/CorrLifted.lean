/-
`CorrelationRemover.fit` / `transform` / `_split_X` re-built from the expressions LIFTED from the source
(`Generated/CorrRemoverSrc.lean`, written by harness/lifters/corr_remover.py on every run):
which mean is stored, the centring expression that enters `lstsq`, whether `transform` uses the stored training mean,
the entry-wise output expression in (alpha, use, proj), and the two index comprehensions of `_split_X`.
`Lemmas/CorrLifted.lean` proves that these definitions coincide with the hand-written model `CorrRemover`
(so every theorem of C15 holds for the lifted text); a source edit re-checks or breaks exactly those proofs.
Core Lean only.
-/
import FairModel.Model.CorrRemover
import FairModel.Generated.CorrRemoverSrc

namespace CorrL
open CorrRemover

def meanOf : CorrRemoverSrc.MeanKind → Mat → Nat → List Rat
  | .perColumn, S, ms => colMeans S ms
  | .grand, S, ms => grandMeans S ms

/-- `sensitive` of `_split_X` (ids already are positions: the lookup of an ndarray, or names resolved by the harness) -/
def sensIdx (ids : List Nat) : List Nat := CorrRemoverSrc.sensitiveIdx id ids

/-- `non_sensitive` of `_split_X` -/
def keptIdx (ids : List Nat) (m : Nat) : List Nat := CorrRemoverSrc.nonSensitiveIdx m (sensIdx ids)

def sensSrc (ids : List Nat) (X : Mat) : Mat := X.map (pick (sensIdx ids))
def useSrc (ids : List Nat) (m : Nat) (X : Mat) : Mat := X.map (pick (keptIdx ids m))

/-- `self.sensitive_mean_` as `fit` stores it -/
def fitMeanSrc (ids : List Nat) (X : Mat) : List Rat :=
  meanOf CorrRemoverSrc.fitMeanKind (sensSrc ids X) ids.length

def centerWith (f : Rat → Rat → Rat) (S : Mat) (mean : List Rat) : Mat := S.map (fun r => List.zipWith f r mean)

/-- first operand of `np.linalg.lstsq` in `fit` -/
def lstsqA (ids : List Nat) (X : Mat) : Mat := centerWith CorrRemoverSrc.fitCenter (sensSrc ids X) (fitMeanSrc ids X)

/-- What the model ASSUMES about the first result `β` of `np.linalg.lstsq(A, Z, rcond)` (the only thing `lstsq` is trusted for).
  * `rcond = none` (numpy's machine-precision cut-off `eps * max(M, N)`): no singular value that is non-zero in exact
    arithmetic is discarded on the exactly representable, moderately conditioned inputs the check generates, and `β` is a
    least-squares solution, i.e. it satisfies the normal equations `Aᵀ(Z − Aβ) = 0` (`isLstsq`; evaluated exactly by the
    driver on every fitted `beta_`).
  * `rcond = some q`: numpy solves the problem with every singular value below `q·σ_max` replaced by zero.  That `β` solves
    the normal equations of a DIFFERENT (rank-truncated) matrix, so the model assumes NOTHING about it (`true`): no clause of
    C15 follows, and every `src_*` theorem that needs the normal equations fails to elaborate for such a source. -/
def lstsqAssumed (rcond : Option Rat) (A Z β : Mat) (ms mz : Nat) : Bool :=
  match rcond with
  | none => isLstsq A Z β ms mz
  | some _ => true

/-- what `beta_ = lstsq(A, USE, rcond)[0]` is assumed to satisfy: `lstsqAssumed` at the LIFTED `rcond`, for the operands AS
    THE SOURCE PASSES THEM -/
def isLstsqSrc (ids : List Nat) (m : Nat) (X β : Mat) : Bool :=
  lstsqAssumed CorrRemoverSrc.lstsqRcond (lstsqA ids X) (useSrc ids m X) β ids.length (keptIdx ids m).length

/-- the centring vector `transform` uses on the batch `X` -/
def transformMean (p : Params) (X : Mat) : List Rat :=
  match CorrRemoverSrc.transformMean with
  | .stored => p.mean
  | .recomputed k => meanOf k (sensSrc p.ids X) p.ids.length

def transformRowSrc (p : Params) (mean : List Rat) (x : List Rat) : List Rat :=
  let use := pick (keptIdx p.ids p.m) x
  let sc := List.zipWith CorrRemoverSrc.transformCenter (pick (sensIdx p.ids) x) mean
  let proj := rowTimes sc p.beta use.length
  List.zipWith (fun u pr => CorrRemoverSrc.outEntry p.alpha u pr) use proj

def transformSrc (p : Params) (X : Mat) : Mat := X.map (transformRowSrc p (transformMean p X))

/-! ### driver glue -/

/-- ops (same token grammar as `corr.*`), all computed from the LIFTED definitions:
  `corrsrc.means <X> <ids>`                       what fit stores as sensitive_mean_
  `corrsrc.split <m> <ids>`                       kept column positions, in output order
  `corrsrc.normal <X> <ids> <beta>`               Aᵀ(USE − A·beta), A = first lstsq operand of fit
  `corrsrc.transform <X> <ids> <mean> <beta> <alpha>`   transform of the batch X with the fitted state
  `corrsrc.rcond`                                 the lifted `rcond` of the lstsq call: `none` or the number
  `corrsrc.lookup df <column name codes> <sensitive name codes>` / `corrsrc.lookup arr <m> <ids>`
                                                  `sensitive` of `_split_X` through the lifted `_create_lookup` table -/
def handle (toks : List String) : Option String :=
  match toks with
  | ["corrsrc.means", x, ids] => do
    let X ← Proto.parseMat x
    let ids ← Proto.parseNats ids
    let m := ncols X
    if X.isEmpty || !wellShaped m X || !okIds ids m then none
    else pure (Proto.fmtRats (fitMeanSrc ids X))
  | ["corrsrc.rcond"] =>
    match CorrRemoverSrc.lstsqRcond with
    | none => some "none"
    | some q => some (Proto.fmtRats [q])
  | ["corrsrc.split", m, ids] => do
    let m ← Proto.parseNat m
    let ids ← Proto.parseNats ids
    if !okIds ids m then none else pure (Proto.fmtNats (keptIdx ids m))
  | ["corrsrc.normal", x, ids, beta] => do
    let X ← Proto.parseMat x
    let ids ← Proto.parseNats ids
    let β ← Proto.parseMat beta
    let m := ncols X
    let mz := (keptIdx ids m).length
    if X.isEmpty || !wellShaped m X || !okIds ids m || !okBeta β ids.length mz then none
    else
      let A := lstsqA ids X
      pure (Proto.fmtMat (normalMat A (residual A (useSrc ids m X) β) ids.length mz))
  | ["corrsrc.transform", x, ids, mean, beta, alpha] => do
    let X ← Proto.parseMat x
    let ids ← Proto.parseNats ids
    let mean ← Proto.parseRats mean
    let β ← Proto.parseMat beta
    let α ← Proto.parseRat alpha
    let m := ncols X
    let mz := (keptIdx ids m).length
    if X.isEmpty || !wellShaped m X || !okIds ids m || mean.length != ids.length
        || !okBeta β ids.length mz then none
    else pure (Proto.fmtMat (transformSrc ⟨ids, m, mean, β, α⟩ X))
  | ["corrsrc.lookup", "df", cols, names] => do
    let cols ← Proto.parseNats cols
    let names ← Proto.parseNats names
    if !names.all (fun c => cols.contains c) then none
    else pure (Proto.fmtNats (CorrRemoverSrc.sensitiveIdx (CorrRemoverSrc.lookupDataFrame cols) names))
  | ["corrsrc.lookup", "arr", m, ids] => do
    let m ← Proto.parseNat m
    let ids ← Proto.parseNats ids
    if !okIds ids m then none
    else pure (Proto.fmtNats (CorrRemoverSrc.sensitiveIdx (CorrRemoverSrc.lookupArray m) ids))
  | _ => none

end CorrL
