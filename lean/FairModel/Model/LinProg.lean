/-
Model of the two linear programmes of `_Lagrangian.solve_linprog`
(fairlearn/reductions/_exponentiated_gradient/_lagrangian.py:165-203), core Lean only.

The matrices are NOT written here: `c, A_ub, b_ub, A_eq, b_eq, dual_c, dual_A_ub, dual_b_ub, dual_bounds` are the
definitions of `Generated/LinProgGen.lean`, translated from the numpy expressions of the source on every run.
This file only supplies their inputs from a `Saddle.Table` (`self.errors`, `self.gammas` — one row per constraint —,
`constraints.bound()`, `B`) and states the contract of `scipy.optimize.linprog` the code relies on:

  primal  `linprog(c, A_ub, b_ub, A_eq, b_eq)`                 minimise c.x  s.t. A_ub x <= b_ub, A_eq x = b_eq, x >= 0
                                                                (x >= 0 is scipy's default `bounds`)
  dual    `linprog(dual_c, dual_A_ub, dual_b_ub, dual_bounds)`   minimise dual_c.y  s.t. dual_A_ub y <= dual_b_ub,
                                                                y_i >= 0 unless `dual_bounds[i] = (None, None)`

`scipy.optimize.linprog` itself is trusted (a parameter: the loop model `EGLoop` takes its answers as inputs).
-/
import FairModel.Model.Saddle
import FairModel.Generated.LinProgGen

namespace LinProg
open Saddle

def dot (a b : List Rat) : Rat := (List.zipWith (fun x y => x * y) a b).sum

/-- `self.errors`, `self.gammas` (row j = constraint j over the stored classifiers), `self.constraints.bound()` -/
def errorsOf (T : Table) : List Rat := (List.range T.nH).map T.err
def gammasOf (T : Table) : List (List Rat) := (List.range T.nC).map (fun j => (List.range T.nH).map (T.gam j))
def boundOf (T : Table) : List Rat := (List.range T.nC).map T.c

def c (T : Table) (B : Rat) : List Rat := LinProgGen.lpC T.nH T.nC (errorsOf T) B
def Aub (T : Table) : List (List Rat) := LinProgGen.lpAub T.nH T.nC (gammasOf T) (boundOf T)
def bub (T : Table) : List Rat := LinProgGen.lpBub T.nH T.nC
def Aeq (T : Table) : List (List Rat) := LinProgGen.lpAeq T.nH T.nC
def beq : List Rat := LinProgGen.lpBeq
def dualC (T : Table) : List Rat := LinProgGen.dualC (bub T) beq
def dualA (T : Table) : List (List Rat) := LinProgGen.dualAub T.nH T.nC (Aub T) (Aeq T)
def dualB (T : Table) (B : Rat) : List Rat := LinProgGen.dualBub (c T B)

/-- every row `j` of `A` satisfies `A_j . x <= b_j` -/
def rowsLe (A : List (List Rat)) (b x : List Rat) : Bool :=
  (List.range A.length).all (fun j => decide (dot (A.getD j []) x ≤ b.getD j 0))

def rowsEq (A : List (List Rat)) (b x : List Rat) : Bool :=
  (List.range A.length).all (fun j => decide (dot (A.getD j []) x = b.getD j 0))

/-- feasibility for the primal call (default bounds: every variable, including the slack `t`, is `>= 0`) -/
def primalFeasible (T : Table) (x : List Rat) : Bool :=
  decide (x.length = T.nH + 1) && x.all (fun v => decide (0 ≤ v)) && rowsLe (Aub T) (bub T) x && rowsEq (Aeq T) beq x

def primalObj (T : Table) (B : Rat) (x : List Rat) : Rat := dot (c T B) x

/-- feasibility for the dual call: `dual_bounds[i]` is `(None, None)` (free) iff `LinProgGen.dualFree`, else `(0, None)` -/
def dualFeasible (T : Table) (B : Rat) (y : List Rat) : Bool :=
  decide (y.length = T.nC + 1) &&
  (List.range (T.nC + 1)).all (fun i => LinProgGen.dualFree T.nC i || decide (0 ≤ y.getD i 0)) &&
  rowsLe (dualA T) (dualB T B) y

/-- the quantity the dual call MINIMISES -/
def dualObj (T : Table) (y : List Rat) : Rat := dot (dualC T) y

/-! residuals (for float solutions that are feasible only up to rounding) -/

def maxL (d : Rat) (l : List Rat) : Rat := l.foldl (fun a b => if a < b then b else a) d

def ubResidual (A : List (List Rat)) (b x : List Rat) : Rat :=
  maxL 0 ((List.range A.length).map (fun j => dot (A.getD j []) x - b.getD j 0))

def eqResidual (A : List (List Rat)) (b x : List Rat) : Rat :=
  maxL 0 ((List.range A.length).map (fun j => let d := dot (A.getD j []) x - b.getD j 0; if d < 0 then -d else d))

def negResidual (x : List Rat) (free : Nat → Bool) : Rat :=
  maxL 0 ((List.range x.length).map (fun i => if free i then 0 else -(x.getD i 0)))

/-- ops:
  `linprog.build <B> <errs> <gammas: one row per constraint> <bounds>`
      → `<c> <A_ub> <b_ub> <A_eq> <b_eq> <dual_c> <dual_A_ub> <dual_b_ub> <dual free flags>`
  `linprog.check <B> <errs> <gammas> <bounds> <x primal> <y dual>`
      → `<primal feasible 0/1> <primal objective> <ub residual> <eq residual> <neg residual>
         <dual feasible 0/1> <dual objective> <dual ub residual> <dual neg residual>` -/
def handle (toks : List String) : Option String :=
  match toks with
  | ["linprog.build", b, errs, gams, cc] => do
    let b ← Proto.parseRat b
    let errs ← Proto.parseRats errs
    let gams ← Proto.parseMat gams
    let cc ← Proto.parseRats cc
    if gams.length ≠ cc.length || gams.any (·.length ≠ errs.length) then none
    else
      let T := mkTable errs gams cc
      pure (" ".intercalate [Proto.fmtRats (c T b), Proto.fmtMat (Aub T), Proto.fmtRats (bub T), Proto.fmtMat (Aeq T),
        Proto.fmtRats beq, Proto.fmtRats (dualC T), Proto.fmtMat (dualA T), Proto.fmtRats (dualB T b),
        Proto.fmtList Proto.fmtBool ((List.range (T.nC + 1)).map (LinProgGen.dualFree T.nC))])
  | ["linprog.check", b, errs, gams, cc, x, y] => do
    let b ← Proto.parseRat b
    let errs ← Proto.parseRats errs
    let gams ← Proto.parseMat gams
    let cc ← Proto.parseRats cc
    let x ← Proto.parseRats x
    let y ← Proto.parseRats y
    if gams.length ≠ cc.length || gams.any (·.length ≠ errs.length) then none
    else
      let T := mkTable errs gams cc
      pure (" ".intercalate [Proto.fmtBool (primalFeasible T x), Proto.fmtRat (primalObj T b x),
        Proto.fmtRat (ubResidual (Aub T) (bub T) x), Proto.fmtRat (eqResidual (Aeq T) beq x),
        Proto.fmtRat (negResidual x (fun _ => false)),
        Proto.fmtBool (dualFeasible T b y), Proto.fmtRat (dualObj T y),
        Proto.fmtRat (ubResidual (dualA T) (dualB T b) y), Proto.fmtRat (negResidual y (LinProgGen.dualFree T.nC))])
  | _ => none

end LinProg
