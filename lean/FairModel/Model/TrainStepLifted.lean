/-
Interpreter of the statement structure of `PytorchEngine.train_step` lifted into `Generated/AdvTrainStepSrc.lean`:
symbolic bookkeeping of the `.grad` buffers.

A buffer is a formal integer combination  lp · dLP/dθ + la · dLA/dθ + stale · (whatever the buffer held when the step
began)  for θ = the parameters of one player.  `backward` ADDS (PyTorch accumulates), `zero_grad` clears, the list
comprehensions copy, the loop overwrites the predictor's buffers by the combine rule applied to the two copies, `step`
hands the current buffer to the optimiser.  The result says which gradients each optimiser applies — for EVERY prior
content of the buffers (the `stale` coefficient must come out as 0).
Core Lean only.
-/
import FairModel.Model.Proto
import FairModel.Generated.AdvTrainStepSrc

namespace TrainStepL
open AdvTrainStepSrc

structure Buf where
  lp : Int
  la : Int
  stale : Int
deriving DecidableEq, Repr

/-- the predictor's `.grad`: a plain accumulation, or (after the loop) the combine rule applied to two copies -/
inductive PGrad where
  | lin (b : Buf)
  /-- normalise / project / combine with `a` in the role of dLP/dW and `b` in the role of dLA/dW -/
  | comb (a b : Buf)
deriving DecidableEq, Repr

structure TS where
  gP : PGrad
  gA : Buf
  snapLP : Option Buf
  snapLA : Option Buf
  appliedP : Option PGrad
  appliedA : Option Buf
  /-- false once a statement met a situation the bookkeeping cannot express (copy of an overwritten buffer, …) -/
  ok : Bool
deriving DecidableEq, Repr

/-- before the step: both buffers hold whatever the previous step left there -/
def init : TS := ⟨.lin ⟨0, 0, 1⟩, ⟨0, 0, 1⟩, none, none, none, none, true⟩

def addLoss (l : Loss) (b : Buf) : Buf :=
  match l with
  | .LP => { b with lp := b.lp + 1 }
  | .LA => { b with la := b.la + 1 }

def exec (dep : Loss → List Player) (s : TS) : TEv → TS
  | .zeroGrad .predictor => { s with gP := .lin ⟨0, 0, 0⟩ }
  | .zeroGrad .adversary => { s with gA := ⟨0, 0, 0⟩ }
  | .backward l =>
    let s1 := if (dep l).contains .predictor then
        match s.gP with
        | .lin b => { s with gP := .lin (addLoss l b) }
        | .comb _ _ => { s with ok := false }
      else s
    if (dep l).contains .adversary then { s1 with gA := addLoss l s1.gA } else s1
  | .snapshot n =>
    match s.gP with
    | .lin b =>
      match n with
      | .dW_LP => { s with snapLP := some b }
      | .dW_LA => { s with snapLA := some b }
    | .comb _ _ => { s with ok := false }
  | .combine =>
    match s.snapLP, s.snapLA with
    | some a, some b => { s with gP := .comb a b }
    | _, _ => { s with ok := false }
  | .step .predictor => { s with appliedP := some s.gP }
  | .step .adversary => { s with appliedA := some s.gA }

def run (dep : Loss → List Player) (evs : List TEv) (s : TS) : TS := evs.foldl (exec dep) s

/-- the bookkeeping of the step as the source has it -/
def lifted : TS := run dependsOn events init

/-! ### the autograd graph: `retain_graph`

`<loss>.backward()` without `retain_graph=True` frees the saved tensors of every sub-graph it walked: the forward pass of
each player the loss depends on.  A later backward pass through a freed sub-graph raises ("Trying to backward through the
graph a second time").  `freed` = the players whose forward graph is gone. -/

def graphOk (dep : Loss → List Player) (retain : Loss → Bool) : List TEv → List Player → Bool
  | [], _ => true
  | .backward l :: rest, freed =>
    if (dep l).any (fun p => freed.contains p) then false
    else graphOk dep retain rest (if retain l then freed else freed ++ dep l)
  | _ :: rest, freed => graphOk dep retain rest freed

/-- no backward pass of the lifted statement list walks a freed graph (flags as lifted: `retainsGraph`) -/
def liftedGraphOk : Bool := graphOk dependsOn retainsGraph events []

/-! ### driver glue -/

def fmtBuf (b : Buf) : String := s!"{b.lp},{b.la},{b.stale}"

def fmtP : Option PGrad → String
  | none => "none"
  | some (.lin b) => "lin(" ++ fmtBuf b ++ ")"
  | some (.comb a b) => "combine(" ++ fmtBuf a ++ ";" ++ fmtBuf b ++ ")"

/-- op `trainstep.applied` -> `<ok> <what the predictor's optimiser applies> <what the adversary's optimiser applies>`
    (coefficients of dLP/dθ, dLA/dθ, stale); `ok` = buffers consistent AND no backward pass through a freed graph -/
def handle (toks : List String) : Option String :=
  match toks with
  | ["trainstep.applied"] =>
    some (Proto.fmtBool (lifted.ok && liftedGraphOk) ++ " " ++ fmtP lifted.appliedP ++ " " ++
      (match lifted.appliedA with | none => "none" | some b => fmtBuf b))
  | _ => none

end TrainStepL
