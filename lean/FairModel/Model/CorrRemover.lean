/-
Model of fairlearn/preprocessing/_correlation_remover.py (core Lean only).

A matrix is a list of rows (`List (List Rat)`), all rows of one width (numpy 2-d array).
`numpy.linalg.lstsq` is NOT modelled: the coefficient matrix `beta_` is a *parameter* of the
model, characterised only by the normal equations `isLstsq` (the defining property of every
least-squares solution, minimum-norm or not).  `sensitive_mean_` is computed by the model
(`colMeans`, one mean per sensitive column) and is also a parameter of `transform`, because
`transform` uses whatever `fit` stored.

Source lines mirrored (fairlearn/preprocessing/_correlation_remover.py):
  _split_X      91-95   sensitive = [lookup[i] for i in ids]           -> `pick ids`
                        non_sensitive = [i in range(m) if i not in sensitive] -> `nonSensIdx`
  fit          125-131  mean, centre, lstsq                           -> `colMeans`, `center`, `isLstsq`
  transform    147-152  X_use - (X_s - mean).dot(beta); alpha blend    -> `transformRow`
-/
import FairModel.Model.Proto

namespace CorrRemover

abbrev Mat := List (List Rat)

/-- `Σ_{i<n} f i` -/
def sumTo (n : Nat) (f : Nat → Rat) : Rat := ((List.range n).map f).sum

/-- the vector `[f 0, …, f (n-1)]` -/
def vec (n : Nat) (f : Nat → Rat) : List Rat := (List.range n).map f

/-- entry `M[i][j]` (0 outside the matrix; the driver only accepts well-shaped matrices) -/
def ent (M : Mat) (i j : Nat) : Rat := (M.getD i []).getD j 0

def ncols (M : Mat) : Nat := (M.headD []).length

def wellShaped (m : Nat) (M : Mat) : Bool := M.all (fun r => r.length == m)

/-! ### `_split_X` -/

/-- `[i for i in range(m) if i not in sensitive]` : increasing, so the kept columns keep their order -/
def nonSensIdx (ids : List Nat) (m : Nat) : List Nat :=
  (List.range m).filter (fun c => !ids.contains c)

/-- `row[idx]` (numpy fancy indexing of one row) -/
def pick (idx : List Nat) (row : List Rat) : List Rat := idx.map (fun c => row.getD c 0)

/-- `X[:, sensitive]` : the sensitive columns, in the order of `sensitive_feature_ids` -/
def sens (ids : List Nat) (X : Mat) : Mat := X.map (pick ids)

/-- `X[:, non_sensitive]` -/
def nonSens (ids : List Nat) (m : Nat) (X : Mat) : Mat := X.map (pick (nonSensIdx ids m))

/-! ### `fit` -/

def vsub (a b : List Rat) : List Rat := List.zipWith (· - ·) a b

/-- mean of column `k` -/
def colMean (S : Mat) (k : Nat) : Rat := sumTo S.length (fun i => ent S i k) / (S.length : Rat)

/-- per-column means `X_sensitive.mean(axis=0)` (`ms` = number of sensitive columns) -/
def colMeans (S : Mat) (ms : Nat) : List Rat := vec ms (colMean S)

/-- the grand mean `X_sensitive.mean()` over all entries, broadcast to every column: the rule the
    tree had before the F2 fix; kept only for the regression witness in `Properties/C15.lean`. -/
def grandMean (S : Mat) (ms : Nat) : Rat :=
  sumTo S.length (fun i => sumTo ms (fun k => ent S i k)) / ((S.length * ms : Nat) : Rat)

def grandMeans (S : Mat) (ms : Nat) : List Rat := vec ms (fun _ => grandMean S ms)

/-- `X_sensitive - sensitive_mean_` (broadcast over rows) -/
def center (S : Mat) (mean : List Rat) : Mat := S.map (fun r => vsub r mean)

/-- `r.dot(beta)` for one row `r` (length = number of rows of beta), result of width `mz` -/
def rowTimes (r : List Rat) (β : Mat) (mz : Nat) : List Rat :=
  vec mz (fun j => sumTo r.length (fun k => r.getD k 0 * ent β k j))

/-- one row of `X_use - X_s_center.dot(beta_)` -/
def residRow (β : Mat) (sc z : List Rat) : List Rat := vsub z (rowTimes sc β z.length)

/-- `Z - Sc·β` -/
def residual (Sc Z β : Mat) : Mat := List.zipWith (residRow β) Sc Z

/-- entry `(k,j)` of `Scᵀ · R` -/
def normalResid (Sc R : Mat) (k j : Nat) : Rat := sumTo Sc.length (fun i => ent Sc i k * ent R i j)

def normalMat (Sc R : Mat) (ms mz : Nat) : Mat :=
  (List.range ms).map (fun k => vec mz (normalResid Sc R k))

/-- the normal equations `Scᵀ·(Z − Sc·β) = 0` : what `numpy.linalg.lstsq(Sc, Z)` is assumed to deliver -/
def isLstsq (Sc Z β : Mat) (ms mz : Nat) : Bool :=
  (List.range ms).all (fun k => (List.range mz).all (fun j =>
    normalResid Sc (residual Sc Z β) k j == 0))

/-! ### `transform` -/

/-- the fitted state (`lookup_` resolved to positions, `_n_features_in_`, `sensitive_mean_`, `beta_`)
    and the constructor parameter `alpha` -/
structure Params where
  ids : List Nat
  m : Nat
  mean : List Rat
  beta : Mat
  alpha : Rat

/-- `alpha * X_filtered + (1 - alpha) * X_use`, one row -/
def blend (α : Rat) (filt use : List Rat) : List Rat :=
  List.zipWith (fun f u => α * f + (1 - α) * u) filt use

def transformRow (p : Params) (x : List Rat) : List Rat :=
  blend p.alpha
    (residRow p.beta (vsub (pick p.ids x) p.mean) (pick (nonSensIdx p.ids p.m) x))
    (pick (nonSensIdx p.ids p.m) x)

def transform (p : Params) (X : Mat) : Mat := X.map (transformRow p)

/-- what `fit` learns besides `beta_` -/
def fitMean (ids : List Nat) (X : Mat) : List Rat := colMeans (sens ids X) ids.length

/-! ### sample covariance (the property's observable) -/

def colOf (M : Mat) (j : Nat) : List Rat := M.map (fun r => r.getD j 0)

def mean (a : List Rat) : Rat := a.sum / (a.length : Rat)

/-- `Σ_i (a_i − ā)(b_i − b̄)` -/
def covNum (a b : List Rat) : Rat :=
  (List.zipWith (fun x y => (x - mean a) * (y - mean b)) a b).sum

/-- sample covariance (`numpy.cov` convention, divisor n − 1) -/
def cov (a b : List Rat) : Rat := covNum a b / ((a.length : Rat) - 1)

def covMat (out S : Mat) (mz ms : Nat) : Mat :=
  (List.range mz).map (fun j => vec ms (fun k => cov (colOf out j) (colOf S k)))

/-! ### driver glue -/

def okIds (ids : List Nat) (m : Nat) : Bool := ids.all (· < m)

def okBeta (β : Mat) (ms mz : Nat) : Bool := β.length == ms && wellShaped mz β

/-- ops (X, beta: matrix tokens; ids: nat list; mean: rat list):
  `corr.means <X> <ids>`                        per-column means of the sensitive columns
  `corr.split <m> <ids>`                        kept column positions, in output order
  `corr.normal <X> <ids> <mean> <beta>`         Scᵀ(Z − Sc·beta) with Sc = S − mean
  `corr.transform <X> <ids> <mean> <beta> <alpha>`
  `corr.cov <Xtrain> <ids> <mean> <beta> <alpha>`   covariance matrix (kept col × sensitive col) of the output -/
def handle (toks : List String) : Option String :=
  match toks with
  | ["corr.means", x, ids] => do
    let X ← Proto.parseMat x
    let ids ← Proto.parseNats ids
    let m := ncols X
    if X.isEmpty || !wellShaped m X || !okIds ids m then none
    else pure (Proto.fmtRats (fitMean ids X))
  | ["corr.split", m, ids] => do
    let m ← Proto.parseNat m
    let ids ← Proto.parseNats ids
    if !okIds ids m then none else pure (Proto.fmtNats (nonSensIdx ids m))
  | ["corr.normal", x, ids, mean, beta] => do
    let X ← Proto.parseMat x
    let ids ← Proto.parseNats ids
    let mean ← Proto.parseRats mean
    let β ← Proto.parseMat beta
    let m := ncols X
    let mz := (nonSensIdx ids m).length
    if X.isEmpty || !wellShaped m X || !okIds ids m || mean.length != ids.length
        || !okBeta β ids.length mz then none
    else
      let Sc := center (sens ids X) mean
      pure (Proto.fmtMat (normalMat Sc (residual Sc (nonSens ids m X) β) ids.length mz))
  | ["corr.transform", x, ids, mean, beta, alpha] => do
    let X ← Proto.parseMat x
    let ids ← Proto.parseNats ids
    let mean ← Proto.parseRats mean
    let β ← Proto.parseMat beta
    let α ← Proto.parseRat alpha
    let m := ncols X
    let mz := (nonSensIdx ids m).length
    if X.isEmpty || !wellShaped m X || !okIds ids m || mean.length != ids.length
        || !okBeta β ids.length mz then none
    else pure (Proto.fmtMat (transform ⟨ids, m, mean, β, α⟩ X))
  | ["corr.cov", x, ids, mean, beta, alpha] => do
    let X ← Proto.parseMat x
    let ids ← Proto.parseNats ids
    let mean ← Proto.parseRats mean
    let β ← Proto.parseMat beta
    let α ← Proto.parseRat alpha
    let m := ncols X
    let mz := (nonSensIdx ids m).length
    if X.length < 2 || !wellShaped m X || !okIds ids m || mean.length != ids.length
        || !okBeta β ids.length mz then none
    else pure (Proto.fmtMat (covMat (transform ⟨ids, m, mean, β, α⟩ X) (sens ids X) mz ids.length))
  | _ => none

end CorrRemover
