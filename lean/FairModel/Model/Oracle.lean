/-
Model of the step that hands the Lagrangian to the base learner (core Lean only):

  * `_Lagrangian._call_oracle`  (fairlearn/reductions/_exponentiated_gradient/_lagrangian.py)
  * one column of the loop in `GridSearch.fit` (fairlearn/reductions/_grid_search/grid_search.py)

Every arithmetic / comparison / branching ingredient is taken from `Generated/OracleSrc.lean`, which the
translator regenerates from the Python source on every run; this file only arranges them in the order of
the code: signed weights -> (relabel | labels unchanged) -> weights -> `np.unique` shortcut -> fit.

What the learner is called with is the *result* of the model (`Call`); the learner itself is a parameter of
the theorems (an arbitrary hypothesis class).
-/
import FairModel.Model.Moments
import FairModel.Generated.OracleSrc

namespace Oracle
open Moments

/-- what the reduction does with the base learner for one multiplier vector -/
inductive Call where
  /-- `DummyClassifier(strategy="constant", constant=c)` is fitted instead of the learner -/
  | dummy (c : Rat) (y w : List Rat)
  /-- a copy of the learner is fitted on labels `y` with sample weights `w` -/
  | fit (y w : List Rat)
  /-- the normalisation divided 0 by 0: the weights are NaN -/
  | nanWeights
  /-- `redY_unique[k]` out of range -/
  | indexError
deriving Repr, DecidableEq

def ratLe (a b : Rat) : Bool := decide (a ≤ b)

/-- `np.unique`: the sorted distinct values -/
def unique (l : List Rat) : List Rat := sortedDistinct ratLe l

/-- `u = np.unique(y); if when(len(u)): Dummy(constant=u[pick]) else: copy of the learner` — then `.fit(X, y, w)` -/
def shortcut (when : Nat → Bool) (pick : Nat) (y w : List Rat) : Call :=
  let u := unique y
  if when u.length then
    match u[pick]? with
    | some c => .dummy c y w
    | none => .indexError
  else .fit y w

/-! ### `_Lagrangian._call_oracle` -/

def egSignedWeights (ow cw : List Rat) : List Rat := List.zipWith OracleSrc.egSigned ow cw
def egLabels (w : List Rat) : List Rat := w.map OracleSrc.egLabel
def egAbsWeights (w : List Rat) : List Rat := w.map OracleSrc.egAbs
/-- `redW = total_samples * redW / redW.sum()` -/
def egNormWeights (w : List Rat) : List Rat :=
  (egAbsWeights w).map (fun a => OracleSrc.egNorm (w.length : Rat) a (egAbsWeights w).sum)

/-- classification moment: ow = objective's signed weights, cw = constraints' signed weights -/
def callOracle (ow cw : List Rat) : Call :=
  let w := egSignedWeights ow cw
  if (egAbsWeights w).sum = 0 then .nanWeights
  else shortcut OracleSrc.egDummyWhen OracleSrc.egDummyPick (egLabels w) (egNormWeights w)

/-- regression (loss) moment: the labels `ys` are passed unchanged -/
def callOracleReg (ys ow cw : List Rat) : Call :=
  let w := egSignedWeights ow cw
  if (egAbsWeights w).sum = 0 then .nanWeights
  else shortcut OracleSrc.egDummyWhen OracleSrc.egDummyPick ys (egNormWeights w)

/-! ### `GridSearch.fit`, one grid column -/

def gridSignedWeights (inSpan : Bool) (cw ow : List Rat) : List Rat :=
  if OracleSrc.gridAddsObjective inSpan then List.zipWith OracleSrc.gridSigned cw ow else cw
def gridLabels (w : List Rat) : List Rat := w.map OracleSrc.gridLabel
def gridAbsWeights (w : List Rat) : List Rat := w.map OracleSrc.gridAbs

def callGrid (inSpan : Bool) (cw ow : List Rat) : Call :=
  let w := gridSignedWeights inSpan cw ow
  shortcut OracleSrc.gridDummyWhen OracleSrc.gridDummyPick (gridLabels w) (gridAbsWeights w)

/-- regression: labels unchanged and the signed weights themselves (no `abs`) -/
def callGridReg (inSpan : Bool) (ys cw ow : List Rat) : Call :=
  shortcut OracleSrc.gridDummyWhen OracleSrc.gridDummyPick ys (gridSignedWeights inSpan cw ow)

/-! ### the whole path from the loaded data -/

/-- `_call_oracle(lambda_vec)` for a parity moment with `ErrorRate(costs)` as objective -/
def callOracleParity (ev : Ev) (rows : List Row) (ratio : Rat) (ut : Util) (fp fn : Rat) (lam : List Rat) : Call :=
  callOracle (errWeights fp fn (labelsOf rows) none) (signedWeights ev rows ratio ut lam)

/-- one `GridSearch.fit` column for a parity moment (`default_objective()` = `ErrorRate(costs)`) -/
def callGridParity (ev : Ev) (rows : List Row) (ratio : Rat) (ut : Util) (fp fn : Rat) (lam : List Rat) : Call :=
  callGrid OracleSrc.parityObjectiveInSpan (signedWeights ev rows ratio ut lam) (errWeights fp fn (labelsOf rows) none)

/-- `_call_oracle(lambda_vec)` for `BoundedGroupLoss` (objective `MeanLoss`: weight 1 per row) -/
def callOracleLoss (rows : List LRow) (lam : List Rat) : Call :=
  callOracleReg (rows.map (·.y)) (bglSignedWeights (allGroup rows) none) (bglSignedWeights rows (some lam))

def callGridLoss (rows : List LRow) (lam : List Rat) : Call :=
  callGridReg OracleSrc.lossObjectiveInSpan (rows.map (·.y)) (bglSignedWeights rows (some lam))
    (bglSignedWeights (allGroup rows) none)

/-! ### driver glue -/

open Proto

def fmtCall : Call → String
  | .dummy c y w => "dummy " ++ fmtRat c ++ " " ++ fmtRats y ++ " " ++ fmtRats w
  | .fit y w => "fit " ++ fmtRats y ++ " " ++ fmtRats w
  | .nanWeights => "nan-weights"
  | .indexError => "index-error"

/-- ops (all prefixed `orc.`):
  `orc.eg <ow> <cw>` / `orc.eg.reg <ys> <ow> <cw>`                         -> call
  `orc.grid <inSpan 0|1> <cw> <ow>` / `orc.grid.reg <inSpan> <ys> <cw> <ow>` -> call
  `orc.eg.parity <kind> <mode> <ratio> <ys> <gs> <cs|none> <fp> <fn> <lam>`  -> call (whole path from the data)
  `orc.grid.parity ...same...`                                              -> call
  `orc.eg.loss <ys> <gs> <lam>` / `orc.grid.loss <ys> <gs> <lam>`            -> call
  `orc.flags`                                                               -> `<parityObjectiveInSpan> <lossObjectiveInSpan>` -/
def handle (toks : List String) : Option String :=
  match toks with
  | ["orc.eg", ow, cw] => do
    let ow ← parseRats ow
    let cw ← parseRats cw
    if ow.length ≠ cw.length || ow.isEmpty then none else
    pure (fmtCall (callOracle ow cw))
  | ["orc.eg.reg", ys, ow, cw] => do
    let ys ← parseRats ys
    let ow ← parseRats ow
    let cw ← parseRats cw
    if ow.length ≠ cw.length || ys.length ≠ ow.length || ow.isEmpty then none else
    pure (fmtCall (callOracleReg ys ow cw))
  | ["orc.grid", sp, cw, ow] => do
    let sp ← parseBool sp
    let cw ← parseRats cw
    let ow ← parseRats ow
    if ow.length ≠ cw.length || ow.isEmpty then none else
    pure (fmtCall (callGrid sp cw ow))
  | ["orc.grid.reg", sp, ys, cw, ow] => do
    let sp ← parseBool sp
    let ys ← parseRats ys
    let cw ← parseRats cw
    let ow ← parseRats ow
    if ow.length ≠ cw.length || ys.length ≠ ow.length || ow.isEmpty then none else
    pure (fmtCall (callGridReg sp ys cw ow))
  | ["orc.eg.parity", k, mode, ratio, ys, gs, cs, fp, fn, lam] => do
    let (k, ev, rows) ← parseData k mode ys gs cs
    let ratio ← parseRat ratio
    let fp ← parseRat fp
    let fn ← parseRat fn
    let lam ← parseRats lam
    if lam.length ≠ (index ev rows).length then none else
    pure (fmtCall (callOracleParity ev rows ratio (utilOf k) fp fn lam))
  | ["orc.grid.parity", k, mode, ratio, ys, gs, cs, fp, fn, lam] => do
    let (k, ev, rows) ← parseData k mode ys gs cs
    let ratio ← parseRat ratio
    let fp ← parseRat fp
    let fn ← parseRat fn
    let lam ← parseRats lam
    if lam.length ≠ (index ev rows).length then none else
    pure (fmtCall (callGridParity ev rows ratio (utilOf k) fp fn lam))
  | ["orc.eg.loss", ys, gs, lam] => do
    let rows ← mkLRows (← parseRats ys) (← parseStrs gs)
    let lam ← parseRats lam
    if lam.length ≠ (bglIndex rows).length then none else
    pure (fmtCall (callOracleLoss rows lam))
  | ["orc.grid.loss", ys, gs, lam] => do
    let rows ← mkLRows (← parseRats ys) (← parseStrs gs)
    let lam ← parseRats lam
    if lam.length ≠ (bglIndex rows).length then none else
    pure (fmtCall (callGridLoss rows lam))
  | ["orc.flags"] => pure (fmtBool OracleSrc.parityObjectiveInSpan ++ " " ++ fmtBool OracleSrc.lossObjectiveInSpan)
  | _ => none

end Oracle
