/-
Model of the randomised predictors (core Lean only):

* `fairlearn/postprocessing/_threshold_operation.py`  — `ThresholdOperation.__call__`
* `fairlearn/postprocessing/_interpolated_thresholder.py` — `_pmf_predict`, `predict`
* `fairlearn/reductions/_exponentiated_gradient/exponentiated_gradient.py` — `_pmf_predict`, `predict`

Everything random is a *parameter*: `predict` draws uniform numbers `u ∈ [0,1)` from a
`numpy.random.RandomState`; the model takes the drawn numbers as inputs.

Scores, probabilities and weights are exact rationals (the harness passes the exact value of every
float).  A threshold may be `±inf` (`XR`); a NaN threshold compares `False` as in numpy.
-/
import FairModel.Model.Proto
import FairModel.Generated.EgPredict
import FairModel.Generated.ThresholderSrc

namespace Pmf

/-! ### ThresholdOperation -/

inductive Cmp where
  | gt   -- operator ">"
  | lt   -- operator "<"
deriving Repr, DecidableEq

structure ThrOp where
  cmp : Cmp
  thr : XR
deriving Repr, DecidableEq

/-- `y_hat > t` / `y_hat < t` for a finite score, as 0/1; the finite-threshold comparisons are LIFTED from
    `ThresholdOperation.__call__` (`Generated/ThresholderSrc.lean`) -/
def ThrOp.apply (o : ThrOp) (s : Rat) : Rat :=
  match o.cmp, o.thr with
  | .gt, .fin t => if ThresholderSrc.opGt s t then 1 else 0
  | .gt, .ninf => 1
  | .gt, .pinf => 0
  | .gt, .nan => 0
  | .lt, .fin t => if ThresholderSrc.opLt s t then 1 else 0
  | .lt, .ninf => 0
  | .lt, .pinf => 1
  | .lt, .nan => 0

/-! ### InterpolatedThresholder -/

/-- one entry of `interpolation_dict`; `ignore = some (p_ignore, prediction_constant)` iff the Bunch
    has the key `p_ignore` (equalized odds) -/
structure Rule where
  p0 : Rat
  op0 : ThrOp
  p1 : Rat
  op1 : ThrOp
  ignore : Option (Rat × Rat)
deriving Repr, DecidableEq

/-- `p0 * operation0(s) + p1 * operation1(s)` -/
def Rule.interp (r : Rule) (s : Rat) : Rat := ThresholderSrc.interp r.p0 (r.op0.apply s) r.p1 (r.op1.apply s)

/-- `p_ignore * prediction_constant + (1 - p_ignore) * interpolated` when `p_ignore` is present -/
def Rule.positive (r : Rule) (s : Rat) : Rat :=
  match r.ignore with
  | none => r.interp s
  | some (pi, c) => ThresholderSrc.withIgnore pi c (r.interp s)

/-- `_pmf_predict` for one row: start from `0.0 * score` (lifted), and for every `(a, interpolation)` of the dict
    overwrite the rows whose (merged) sensitive feature equals `a`. -/
def thrPositive (dict : List (String × Rule)) (g : String) (s : Rat) : Rat :=
  dict.foldl (fun acc e => if g = e.1 then e.2.positive s else acc) (ThresholderSrc.initialProb s)

/-- the returned row `[1 - p, p]` -/
def pmfRow (p : Rat) : Rat × Rat := (ThresholderSrc.col0 p, ThresholderSrc.col1 p)

def thrPmf (dict : List (String × Rule)) (rows : List (String × Rat)) : List (Rat × Rat) :=
  rows.map (fun r => pmfRow (thrPositive dict r.1 r.2))

/-- `(positive_probs >= random_state.rand(n)) * 1` -/
def bernoulli (p u : Rat) : Nat := if ThresholderSrc.drawsOne p u then 1 else 0

/-- hypotheses of the range theorem, decidable; `eps` is the slack allowed on `p0 + p1 = 1`
    (the fitted numbers are floats: `p0 = 1 - p1` holds up to one rounding) -/
def Rule.valid (eps : Rat) (r : Rule) : Bool :=
  decide (0 ≤ r.p0) && decide (0 ≤ r.p1) && decide (r.p0 + r.p1 ≤ 1 + eps) && decide (1 - eps ≤ r.p0 + r.p1) &&
  (match r.ignore with
   | none => true
   | some (pi, c) => decide (0 ≤ pi) && decide (pi ≤ 1) && decide (0 ≤ c) && decide (c ≤ 1))

def Rule.allGt (r : Rule) : Bool := r.op0.cmp == .gt && r.op1.cmp == .gt

/-! ### ExponentiatedGradient -/

/-- column `t` of `pred` in `_pmf_predict`: zeros when `weights_[t] == 0`, else `h_t(X)`;
    `weights` is `weights_` as (predictor id, weight) pairs IN ITS OWN INDEX ORDER -/
def weightOf (weights : List (Nat × Rat)) (t : Nat) : Rat :=
  match weights.find? (fun e => e.1 == t) with
  | some e => e.2
  | none => 0

def maskedPred (preds : List Rat) (weights : List (Nat × Rat)) (t : Nat) : Rat :=
  EgPredict.egColumn (weightOf weights t) (preds.getD t 0)

/-- classification: `pred[weights_.index].dot(weights_)` — aligned by predictor id when the lifted `EgPredict.dotById`
    says so (the source's expression selects the columns by `weights_.index`), otherwise column `i` of `pred` (predictor
    id `i`) is multiplied with the `i`-th VALUE of `weights_` -/
def egPositive (preds : List Rat) (weights : List (Nat × Rat)) : Rat :=
  if EgPredict.dotById then (weights.map (fun e => maskedPred preds weights e.1 * e.2)).sum
  else (List.zipWith (fun t (e : Nat × Rat) => maskedPred preds weights t * e.2) (List.range preds.length) weights).sum

/-- the row `_pmf_predict` reports: `np.concatenate((1 - positive_probs, positive_probs), axis=1)` (lifted columns) -/
def egPmfRow (preds : List Rat) (weights : List (Nat × Rat)) : Rat × Rat :=
  (EgPredict.col0 (egPositive preds weights), EgPredict.col1 (egPositive preds weights))

/-- `predict` (classification) for one row and its uniform draw `u`: the lifted column choice `[:, k]`, the lifted
    comparison and the lifted `* n` -/
def egLabel (preds : List Rat) (weights : List (Nat × Rat)) (u : Rat) : Nat :=
  if EgPredict.drawsOne (EgPredict.positiveCol (egPmfRow preds weights).1 (egPmfRow preds weights).2) u
  then EgPredict.labelScale else 0

/-- `RandomState.choice(values, p=probs)` for one draw `u`:
    `cdf = cumsum(p); idx = cdf.searchsorted(u, side="right")` = number of cdf entries `≤ u`. -/
def choiceIdxFrom (acc : Rat) : List Rat → Rat → Nat
  | [], _ => 0
  | p :: ps, u => if acc + p ≤ u then 1 + choiceIdxFrom (acc + p) ps u else 0

def choiceIdx (probs : List Rat) (u : Rat) : Nat := choiceIdxFrom 0 probs u

def choice (values probs : List Rat) (u : Rat) : Option Rat := values[choiceIdx probs u]?

/-- regression `predict` AS WRITTEN: `random_state.choice(pred.iloc[i, :], p=self.weights_)` —
    the values are the columns of `pred` in predictor-id order `0..T-1`, the probabilities are the
    VALUES of `weights_` in its own index order (numpy ignores the index: positional pairing). -/
def egRegPredict (preds : List Rat) (weights : List (Nat × Rat)) (u : Rat) : Option Rat :=
  choice ((List.range preds.length).map (maskedPred preds weights)) (weights.map (·.2)) u

/-- what the property demands: predictor `t`'s value is drawn with `weights_[t]` (aligned by id) -/
def egRegPredictById (preds : List Rat) (weights : List (Nat × Rat)) (u : Rat) : Option Rat :=
  choice ((List.range preds.length).map (maskedPred preds weights))
         ((List.range preds.length).map (weightOf weights)) u

/-- regression `predict` of the code under test: which pairing it uses is lifted from the source
    (`Generated/EgPredict.lean`) -/
def egRegPredictCode (preds : List Rat) (weights : List (Nat × Rat)) (u : Rat) : Option Rat :=
  if EgPredict.regressionDrawById then egRegPredictById preds weights u else egRegPredict preds weights u

/-- `weights_.index` is `0, 1, …, T-1` in this order -/
def aligned (weights : List (Nat × Rat)) : Bool := weights.map (·.1) == List.range weights.length

/-! ### driver glue -/

def parseCmp (s : String) : Option Cmp :=
  if s = "gt" then some .gt else if s = "lt" then some .lt else none

def parseXRs := Proto.parseList XR.parse
def parseCmps := Proto.parseList parseCmp

/-- optional rationals: "nan" = absent -/
def parseOptRat (s : String) : Option (Option Rat) :=
  if s = "nan" then some none else (Proto.parseRat s).map some

def mkRules : List String → List Rat → List Cmp → List XR → List Rat → List Cmp → List XR →
    List (Option Rat) → List (Option Rat) → Option (List (String × Rule))
  | [], [], [], [], [], [], [], [], [] => some []
  | k :: ks, a :: as, c0 :: c0s, t0 :: t0s, b :: bs, c1 :: c1s, t1 :: t1s, pi :: pis, c :: cs => do
    let rest ← mkRules ks as c0s t0s bs c1s t1s pis cs
    let ign ← match pi, c with
      | none, none => some none
      | some x, some y => some (some (x, y))
      | _, _ => none
    pure ((k, ⟨a, ⟨c0, t0⟩, b, ⟨c1, t1⟩, ign⟩) :: rest)
  | _, _, _, _, _, _, _, _, _ => none

def parseDict (toks : List String) : Option (List (String × Rule)) :=
  match toks with
  | [keys, p0, c0, t0, p1, c1, t1, pi, c] => do
    mkRules (← Proto.parseStrs keys) (← Proto.parseRats p0) (← parseCmps c0) (← parseXRs t0)
      (← Proto.parseRats p1) (← parseCmps c1) (← parseXRs t1)
      (← Proto.parseList parseOptRat pi) (← Proto.parseList parseOptRat c)
  | _ => none

def mkWeights (ids : List Nat) (ws : List Rat) : Option (List (Nat × Rat)) :=
  if ids.length = ws.length then some (ids.zip ws) else none

def fmtOptRat : Option Rat → String
  | some q => Proto.fmtRat q
  | none => "none"

/-- ops (dict = 9 tokens: keys p0 cmp0 thr0 p1 cmp1 thr1 p_ignore const):
  `pmf.thr <dict…> <groups> <scores>`        positive probability per row
  `pmf.hyp <eps> <dict…>`                    "<all rules valid> <all operations '>'>"
  `pmf.bern <p> <u>`                         0/1 per row
  `pmf.eg <pred matrix rows=query rows> <ids> <weights>`   positive probability per row
  `pmf.eg.rows <pred matrix> <ids> <weights>`              the two reported columns `<col 0> <col 1>`
  `pmf.eg.labels <pred matrix> <ids> <weights> <u>`        `predict` labels of ExponentiatedGradient for the draws u
  `pmf.egreg.code <pred matrix> <ids> <weights> <u>`       value per row, pairing as in the source under test
  `pmf.egreg <pred matrix> <ids> <weights> <u>`            value per row, positional pairing
  `pmf.egreg.byid <pred matrix> <ids> <weights> <u>`       value per row, aligned by id
  `pmf.aligned <ids>`                        1 iff ids = 0..T-1 in order -/
def handle (toks : List String) : Option String :=
  match toks with
  | ["pmf.thr", a, b, c, d, e, f, g, h, i, groups, scores] => do
    let dict ← parseDict [a, b, c, d, e, f, g, h, i]
    let gs ← Proto.parseStrs groups
    let ss ← Proto.parseRats scores
    if gs.length ≠ ss.length then none
    else pure (Proto.fmtRats ((gs.zip ss).map (fun r => thrPositive dict r.1 r.2)))
  | ["pmf.hyp", eps, a, b, c, d, e, f, g, h, i] => do
    let eps ← Proto.parseRat eps
    let dict ← parseDict [a, b, c, d, e, f, g, h, i]
    pure (Proto.fmtBool (dict.all (fun e => e.2.valid eps)) ++ " " ++ Proto.fmtBool (dict.all (fun e => e.2.allGt)))
  | ["pmf.bern", p, u] => do
    let p ← Proto.parseRats p
    let u ← Proto.parseRats u
    if p.length ≠ u.length then none
    else pure (Proto.fmtNats ((p.zip u).map (fun x => bernoulli x.1 x.2)))
  | ["pmf.eg", m, ids, ws] => do
    let m ← Proto.parseMat m
    let w ← mkWeights (← Proto.parseNats ids) (← Proto.parseRats ws)
    pure (Proto.fmtRats (m.map (fun preds => egPositive preds w)))
  | ["pmf.eg.rows", m, ids, ws] => do
    let m ← Proto.parseMat m
    let w ← mkWeights (← Proto.parseNats ids) (← Proto.parseRats ws)
    pure (Proto.fmtRats (m.map (fun preds => (egPmfRow preds w).1)) ++ " " ++ Proto.fmtRats (m.map (fun preds => (egPmfRow preds w).2)))
  | ["pmf.eg.labels", m, ids, ws, us] => do
    let m ← Proto.parseMat m
    let w ← mkWeights (← Proto.parseNats ids) (← Proto.parseRats ws)
    let us ← Proto.parseRats us
    if us.length ≠ m.length then none
    else pure (Proto.fmtNats ((m.zip us).map (fun x => egLabel x.1 w x.2)))
  | ["pmf.egreg", m, ids, ws, us] => do
    let m ← Proto.parseMat m
    let w ← mkWeights (← Proto.parseNats ids) (← Proto.parseRats ws)
    let us ← Proto.parseRats us
    if m.length ≠ us.length then none
    else pure (Proto.fmtList fmtOptRat ((m.zip us).map (fun x => egRegPredict x.1 w x.2)))
  | ["pmf.egreg.code", m, ids, ws, us] => do
    let m ← Proto.parseMat m
    let w ← mkWeights (← Proto.parseNats ids) (← Proto.parseRats ws)
    let us ← Proto.parseRats us
    if m.length ≠ us.length then none
    else pure (Proto.fmtList fmtOptRat ((m.zip us).map (fun x => egRegPredictCode x.1 w x.2)))
  | ["pmf.egreg.byid", m, ids, ws, us] => do
    let m ← Proto.parseMat m
    let w ← mkWeights (← Proto.parseNats ids) (← Proto.parseRats ws)
    let us ← Proto.parseRats us
    if m.length ≠ us.length then none
    else pure (Proto.fmtList fmtOptRat ((m.zip us).map (fun x => egRegPredictById x.1 w x.2)))
  | ["pmf.aligned", ids] => do
    let ids ← Proto.parseNats ids
    pure (Proto.fmtBool (aligned (ids.map (fun i => (i, (0 : Rat))))))
  | _ => none

end Pmf
