/-
C20: `MetricFrame.__init__`'s argument checks AS LIFTED (Generated/FrameChecksSrc.lean, lifter frame_checks.py): an ordered
list of ⟨source text, what it compares / tests, exception kind⟩.  `frameSrc` returns the kind of the FIRST check of the list
that fires on a descriptor (`Validation.FrameArgs`), `ok` when none does.  `Validation.frame` is the hand-written reading of the
same constructor; the bridge `FrameChecks.frameSrc_eq_frame` (Lemmas/FrameChecks.lean) proves the two equal for the list as it
is in the working tree, and the `frame_*_rejected` theorems of Properties/C20.lean are proved THROUGH it.

Hand-written here: what a `Pred` means on a descriptor (`fires`).  Source mirrored: fairlearn/metrics/_metric_frame.py
`__init__` (check_consistent_length, the two `_process_features` calls, the duplicate-name loop), `_process_features`,
`_construct_annotated_metric_function` (the `np.asarray` store of a sample parameter).
-/
import FairModel.Model.Validation
import FairModel.Generated.FrameChecksSrc

namespace FrameChecks
open Validation Generated.FrameChecksSrc

/-- does a check of the given kind fire on the descriptor -/
def fires (a : FrameArgs) : Pred → Bool
  | .predLen => a.nPred != a.nTrue
  | .paramLen => a.params.any (· != a.nTrue)
  | .sfMissing => a.sf.isEmpty
  | .sfLen => a.sf.any (fun c => c.len != a.nTrue)
  | .sfName => a.sf.any (fun c => c.name.isNone)
  | .cfLen => a.cf.any (fun c => c.len != a.nTrue)
  | .cfName => a.cf.any (fun c => c.name.isNone)
  | .dupName => hasDup ((a.sf ++ a.cf).filterMap (·.name))

def first (a : FrameArgs) : List Check → Option Check
  | [] => none
  | c :: cs => if fires a c.pred then some c else first a cs

def excOutcome : Exc → Outcome
  | .valueError => .valueError
  | .typeError => .typeError
  | .runtimeError => .runtimeError

def runOn (cs : List Check) (a : FrameArgs) : Outcome :=
  match first a cs with
  | none => .ok
  | some c => excOutcome c.exc

/-- `MetricFrame.__init__` over the lifted list -/
def frameSrc (a : FrameArgs) : Outcome := runOn checks a

/-- ops: `fchk.frame <nTrue> <nPred> <paramLens> <sfNames> <sfIsStr> <sfLens> <cfNames> <cfIsStr> <cfLens>` (same grammar as
    `val.frame`) -> outcome of the lifted list;  `fchk.which ...` -> source text of the check that fires, or `none` -/
def handle (toks : List String) : Option String :=
  match toks with
  | ["fchk.frame", nt, np, ps, sn, ss, sl, cn, cs, cl] => do
    let sf ← mkCols (← Proto.parseStrs sn) (← parseBools ss) (← Proto.parseNats sl)
    let cf ← mkCols (← Proto.parseStrs cn) (← parseBools cs) (← Proto.parseNats cl)
    pure (frameSrc ⟨← Proto.parseNat nt, ← Proto.parseNat np, ← Proto.parseNats ps, sf, cf⟩).fmt
  | _ => none

end FrameChecks
