/-
Model of fairlearn/postprocessing: `_tradeoff_curve_utilities.py`, `_threshold_optimizer.py`
(`_threshold_optimization_for_simple_constraints`, `_threshold_optimization_for_equalized_odds`),
`_interpolated_thresholder.py` (`_pmf_predict`) and `_threshold_operation.py`.  Core Lean only.

Scores are exact rationals, labels are booleans (the code converts labels to int 0/1).  Everything that
numpy would answer with nan / inf / IndexError (degenerate labels, an interpolation bracket of width 0,
an index outside the hull) is an explicit `none`; the theorems show these branches are not taken when every
group contains both labels.  `np.around(., 15)` before the equalized-odds arg-max is the identity on the exact model
(`aroundModel`, assumption stated there) and IEEE rounding is NOT modelled (the model is exact); see harness/props/c04.py
for the tolerance rule of the correspondence.
-/
import FairModel.Model.Proto
import FairModel.Generated.ThresholdTables
import FairModel.Generated.TradeoffSrc
import FairModel.Generated.ThresholderSrc
import FairModel.Generated.ThresholdFitSrc

namespace Threshold
open ThresholdGen

structure Row where
  score : Rat
  label : Bool
deriving Repr, DecidableEq

/-- thresholds: `np.inf`, a finite midpoint, `-np.inf` -/
inductive Thr where
  | pinf : Thr
  | fin (t : Rat) : Thr
  | ninf : Thr
deriving Repr, DecidableEq

/-- `s > thr`: for a finite threshold the comparison LIFTED from `ThresholdOperation.__call__` (operator ">");
    the ±inf cases are IEEE comparisons with an infinity -/
def Thr.below (thr : Thr) (s : Rat) : Bool :=
  match thr with
  | .pinf => false
  | .fin t => ThresholderSrc.opGt s t
  | .ninf => true

/-- `s < thr` (operator "<", lifted) -/
def Thr.above (thr : Thr) (s : Rat) : Bool :=
  match thr with
  | .pinf => true
  | .fin t => ThresholderSrc.opLt s t
  | .ninf => false

/-- `ThresholdOperation(operator, threshold)`; `gt = true` is the operator ">" -/
structure Op where
  gt : Bool
  thr : Thr
deriving Repr, DecidableEq

/-- `ThresholdOperation.__call__` -/
def Op.apply (o : Op) (s : Rat) : Bool := if o.gt then o.thr.below s else o.thr.above s

structure Pt where
  x : Rat
  y : Rat
  op : Op
deriving Repr, DecidableEq

/-! ### `_get_scores_labels_and_counts` / `_get_counts` -/

def nPos (rows : List Row) : Nat := rows.countP (fun r => r.label)
def nNeg (rows : List Row) : Nat := rows.countP (fun r => !r.label)

/-- `r` goes in front of `y` in `sort_values(by=score, ascending=False)`; the direction is the one LIFTED from
    `_get_scores_labels_and_counts` (`TradeoffSrc.scoreSortDescending`) -/
def scoreBefore (y r : Row) : Bool :=
  if TradeoffSrc.scoreSortDescending then decide (y.score < r.score) else decide (r.score < y.score)

/-- `sort_values(by=score, ascending=False)`; the order inside a tie block does not matter for the sweep -/
def insertDesc (r : Row) : List Row → List Row
  | [] => [r]
  | y :: ys => if scoreBefore y r then r :: y :: ys else y :: insertDesc r ys

def sortDesc (rows : List Row) : List Row := rows.foldr insertDesc []

/-! ### the threshold sweep of `_calculate_tradeoff_points`
`sweepAux` walks the rows sorted by decreasing score; `c0`/`c1` are `count[0]`/`count[1]`.  A point is
emitted at the end of every block of equal scores, with the threshold halfway to the next score
(`-inf` after the last block, because of the `-np.inf` sentinel). -/
def thrInitial : Thr := if TradeoffSrc.initialThresholdPosInf then .pinf else .ninf
def thrSentinel : Thr := if TradeoffSrc.sentinelNegInf then .ninf else .pinf

/-- the threshold after a block of tied scores `t`, next score `s`: `TradeoffSrc.midThreshold` is the expression
    lifted from the source (`(threshold + scores[i]) / 2`); the last block meets the sentinel appended to the scores
    (`-np.inf`, lifted), the special initial point uses `thrInitial` (`np.inf`, lifted) -/
def sweepAux : List Row → Nat → Nat → List (Thr × Nat × Nat)
  | [], _, _ => []
  | r :: rest, c0, c1 =>
    let c0' := if r.label then c0 else c0 + 1
    let c1' := if r.label then c1 + 1 else c1
    match rest with
    | [] => [(thrSentinel, c0', c1')]
    | r' :: _ =>
      if r'.score = r.score then sweepAux rest c0' c1'
      else (.fin (TradeoffSrc.midThreshold r.score r'.score), c0', c1') :: sweepAux rest c0' c1'

/-- all sweep steps, starting with the special initial point (threshold `inf`, nothing counted) -/
def sweepSteps (rows : List Row) : List (Thr × Nat × Nat) :=
  (thrInitial, 0, 0) :: sweepAux (sortDesc rows) 0 0

def stepCounts (nneg npos : Rat) (c0 c1 : Nat) (actual : Bool) : CM :=
  if actual then actualCounts c0 c1 nneg npos else flippedCounts c0 c1 nneg npos

def stepPoints (ops : List (Bool × Bool)) (xm ym : Metric) (nneg npos : Rat) (s : Thr × Nat × Nat) : List Pt :=
  ops.map (fun (o : Bool × Bool) =>
    let cm := stepCounts nneg npos s.2.1 s.2.2 o.2
    { x := xm.eval cm, y := ym.eval cm, op := ⟨o.1, s.1⟩ })

def operations (flip : Bool) : List (Bool × Bool) := if flip then operationsFlip else operationsNoFlip

/-- `_get_counts(labels)` evaluated with the LIFTED expressions (`TradeoffSrc.countN / countPos / countNeg`, functions of
    `len(labels)` and `sum(labels)`; the labels are 0/1, so `sum(labels)` is the number of positive rows) -/
def srcCounts (rows : List Row) : Rat × Rat × Rat :=
  let len : Rat := (rows.length : Rat)
  let sum : Rat := (nPos rows : Rat)
  (TradeoffSrc.countN len sum, TradeoffSrc.countPos len sum, TradeoffSrc.countNeg len sum)

/-- the unsorted data frame of `_calculate_tradeoff_points`; `n_negative` / `n_positive` are the LIFTED `_get_counts`
    expressions (`srcCounts`; `Threshold.srcCounts_eq`: they are the numbers of negative / positive rows) -/
def rawPoints (flip : Bool) (xm ym : Metric) (rows : List Row) : List Pt :=
  (sweepSteps rows).flatMap (stepPoints (operations flip) xm ym (srcCounts rows).2.2 (srcCounts rows).2.1)

/-! ### `.sort_values(by=["x", "y"])` (stable) -/
def colVal (c : TradeoffSrc.Col) (p : Pt) : Rat :=
  match c with
  | .x => p.x
  | .y => p.y

def lexLtKeys : List TradeoffSrc.Col → Pt → Pt → Bool
  | [], _, _ => false
  | k :: ks, a, b => decide (colVal k a < colVal k b) || (decide (colVal k a = colVal k b) && lexLtKeys ks a b)

/-- strict order of `.sort_values(by=<keys>)`; keys and direction are LIFTED (`TradeoffSrc.pointSortKeys`) -/
def lexLt (a b : Pt) : Bool :=
  if TradeoffSrc.pointSortAscending then lexLtKeys TradeoffSrc.pointSortKeys a b
  else lexLtKeys TradeoffSrc.pointSortKeys b a

def insertLex (p : Pt) : List Pt → List Pt
  | [] => [p]
  | q :: qs => if lexLt q p then q :: insertLex p qs else p :: q :: qs

def sortLex (pts : List Pt) : List Pt := pts.foldr insertLex []

/-- the guard `if n_positive == 0 or n_negative == 0: raise ValueError(DEGENERATE_LABELS...)`: the two counts are the
    LIFTED `_get_counts` expressions, the connective is the LIFTED one (`TradeoffSrc.degenerateGuardIsOr`) -/
def degenerate (rows : List Row) : Bool :=
  let c := srcCounts rows
  if TradeoffSrc.degenerateGuardIsOr then (decide (c.2.1 = 0) || decide (c.2.2 = 0))
  else (decide (c.2.1 = 0) && decide (c.2.2 = 0))

/-- `_calculate_tradeoff_points`; `none` is the "Degenerate labels" ValueError -/
def tradeoffPoints (flip : Bool) (xm ym : Metric) (rows : List Row) : Option (List Pt) :=
  if degenerate rows then none else some (sortLex (rawPoints flip xm ym rows))

/-! ### `_filter_points_to_get_convex_hull` (Andrew's monotone chain); the stack is kept top first -/
/-- the turn test is the expression LIFTED from the source (`TradeoffSrc.hullDrop`) -/
def dropTest (r0 r1 r2 : Pt) : Bool := TradeoffSrc.hullDrop r0.x r0.y r1.x r1.y r2.x r2.y

def popWhile (r2 : Pt) : List Pt → List Pt
  | r1 :: r0 :: rest => if dropTest r0 r1 r2 then popWhile r2 (r0 :: rest) else r1 :: r0 :: rest
  | l => l

def hullStep (sel : List Pt) (r2 : Pt) : List Pt := r2 :: popWhile r2 sel

def hullRev (pts : List Pt) : List Pt := pts.foldl hullStep []

/-! #### the same loop, computed WITH the loop shape lifted from the source
`selected` is kept top first (the last entry of the Python list is the head): `selected[-k]` is entry `k - 1`,
`selected.pop()` removes the head, `selected.pop(0)` the last entry.  `none` = the `IndexError` Python raises when
`selected[-k]` is read from a list shorter than `k` (and the exhausted fuel, which `hullSrc` never reaches: it starts
every `while` with `len(selected) + 1`, and every iteration that continues removes an entry). -/

/-- `selected[-k]` -/
def stackBack (st : List Pt) (k : Nat) : Option Pt := if k = 0 then none else st[k - 1]?

/-- `selected.pop()` (`TradeoffSrc.hullPopsLast`) / `selected.pop(0)` -/
def stackPop (st : List Pt) : List Pt := if TradeoffSrc.hullPopsLast then st.tail else st.dropLast

/-- `while len(selected) >= hullMinLen: r1 = selected[-hullR1Back]; r0 = selected[-hullR0Back];
    if <turn test>: selected.pop() else: break` -/
def popWhileSrc (r2 : Pt) : Nat → List Pt → Option (List Pt)
  | 0, _ => none
  | fuel + 1, st =>
    if st.length < TradeoffSrc.hullMinLen then some st else
    match stackBack st TradeoffSrc.hullR1Back, stackBack st TradeoffSrc.hullR0Back with
    | some r1, some r0 => if dropTest r0 r1 r2 then popWhileSrc r2 fuel (stackPop st) else some st
    | _, _ => none

/-- one iteration of `for r2 in points_sorted.itertuples()`: the `while`, then `selected.append(r2)` -/
def hullStepSrc (sel : List Pt) (r2 : Pt) : Option (List Pt) :=
  (popWhileSrc r2 (sel.length + 1) sel).map (fun st => r2 :: st)

/-- `_filter_points_to_get_convex_hull` in reading order (`pd.DataFrame(selected)`) -/
def hullSrc (pts : List Pt) : Option (List Pt) := (pts.foldlM hullStepSrc []).map List.reverse

/-- the hull the fit uses.  `Threshold.hullSrc_eq` (Lemmas/ThresholdSrc.lean) proves `hullSrc pts = some (hullRev pts).reverse`
    for the loop shape lifted from the source: the `IndexError` branch is never taken and the lifted loop is Andrew's monotone
    chain as written above (`popWhile`) -/
def upperHull (pts : List Pt) : List Pt := (hullSrc pts).getD []

/-- `_tradeoff_curve` -/
def tradeoffCurve (flip : Bool) (xm ym : Metric) (rows : List Row) : Option (List Pt) :=
  (tradeoffPoints flip xm ym rows).map upperHull

/-! ### `_get_interpolation_indices` and `_interpolate_curve` for ONE grid value -/

/-- `np.searchsorted(xs, g, side="right")` on a non-decreasing array -/
def countLE (xs : List Rat) (g : Rat) : Nat := (xs.takeWhile (fun v => decide (v ≤ g))).length

/-- index for grid position `i` (value `g`): `searchsorted - 1`, then for `i ≥ 1` one step to the left when the
    grid value equals the vertex.  `none` = a negative index (numpy would wrap around). -/
def countLT (xs : List Rat) (g : Rat) : Nat := (xs.takeWhile (fun v => decide (v < g))).length

/-- `np.searchsorted(xs, g, side=<lifted>)` -/
def searchIdx (xs : List Rat) (g : Rat) : Nat :=
  if TradeoffSrc.searchSideRight then countLE xs g else countLT xs g

def interpIndex (xs : List Rat) (i : Nat) (g : Rat) : Option Nat :=
  let c := searchIdx xs g
  if c < TradeoffSrc.searchMinus then none else
    let k := c - TradeoffSrc.searchMinus
    if i ≥ TradeoffSrc.corrStart ∧ xs[k]? = some g then
      (if k < TradeoffSrc.corrStep then none else some (k - TradeoffSrc.corrStep))
    else some k

structure Interp where
  x : Rat
  y : Rat
  p0 : Rat
  op0 : Op
  p1 : Rat
  op1 : Op
deriving Repr, DecidableEq

def interpolateAt (hull : List Pt) (i : Nat) (g : Rat) : Option Interp :=
  match interpIndex (hull.map (·.x)) i g with
  | none => none
  | some k =>
    match hull[k]?, hull[k + 1]? with
    | some a, some b =>
      -- a zero denominator is numpy's nan; weights, y and the vertex of each operation are the LIFTED expressions
      if TradeoffSrc.interpP0Den a.x b.x g = 0 then none
      else
        some { x := g, y := TradeoffSrc.interpY a.x b.x a.y b.y g,
               p0 := TradeoffSrc.interpP0 a.x b.x g, op0 := if TradeoffSrc.op0FromNext then b.op else a.op,
               p1 := TradeoffSrc.interpP1 a.x b.x g, op1 := if TradeoffSrc.op1FromNext then b.op else a.op }
    | _, _ => none

/-- `np.linspace(lo, hi, N + k)[i] = lo + i * (hi - lo) / (N + k - 1)`; `lo`, `hi`, `k` are LIFTED from the source
    (`np.linspace(0, 1, self.grid_size + 1)`, `Generated/ThresholdFitSrc.lean`) -/
def gridVal (N i : Nat) : Rat :=
  ThresholdFitSrc.gridLo + (i : Rat) * (ThresholdFitSrc.gridHi - ThresholdFitSrc.gridLo) /
    (((N + ThresholdFitSrc.gridExtra - 1 : Nat)) : Rat)

def allSome {α} : List (Option α) → Option (List α)
  | [] => some []
  | none :: _ => none
  | some a :: rest => match allSome rest with
    | none => none
    | some l => some (a :: l)

/-- row `i` of every group's interpolated curve -/
def interpAll (hulls : List (List Pt)) (N i : Nat) : Option (List Interp) :=
  allSome (hulls.map (fun h => interpolateAt h i (gridVal N i)))

/-- first index of the maximum (`idxmax` / `np.argmax`) -/
def argmaxAux : List Rat → Nat → Nat → Rat → Nat
  | [], _, bi, _ => bi
  | v :: vs, i, bi, bv => if bv < v then argmaxAux vs (i + 1) i v else argmaxAux vs (i + 1) bi bv

def argmaxFirst : List Rat → Nat
  | [] => 0
  | v :: vs => argmaxAux vs 1 0 v

/-- first index of the minimum (`idxmin`) -/
def argminFirst (l : List Rat) : Nat := argmaxFirst (l.map (fun v => -v))

/-- `overall_tradeoff_curve.idxmax()` of the simple-constraint method: which extremum is LIFTED (`ThresholdFitSrc.bestIsIdxmax`) -/
def bestIndexSimple (objs : List Rat) : Nat :=
  if ThresholdFitSrc.bestIsIdxmax then argmaxFirst objs else argminFirst objs

/-- `objective_values.idxmax()` of the equalized-odds method (`ThresholdFitSrc.eoBestIsIdxmax`) -/
def bestIndexEO (objs : List Rat) : Nat :=
  if ThresholdFitSrc.eoBestIsIdxmax then argmaxFirst objs else argminFirst objs

/-- `np.around(v, decimals)` on the EXACT model is the identity.  ASSUMPTION (stated in `Threshold.aroundModel_eq` and in the
    `assumptions` of harness/props/c04.py, c05.py): rounding the float objective to `ThresholdFitSrc.aroundDecimals` decimals
    only merges values that differ by float noise; the correspondence follows the implementation's choice among
    near-ties (`force`), the optimality theorems are about the exact arg-max. -/
def aroundModel (_decimals : Nat) (v : Rat) : Rat := v

def totalRows (groups : List (List Row)) : Nat := (groups.map List.length).sum

/-- the fitted rule of one group; `ign = some (p_ignore, prediction_constant)` for equalized odds -/
structure Rule where
  p0 : Rat
  op0 : Op
  p1 : Rat
  op1 : Op
  ign : Option (Rat × Rat)
deriving Repr, DecidableEq

structure Fit where
  iBest : Nat
  objective : Rat
  interps : List Interp
  rules : List Rule
deriving Repr

/-- one entry of `overall_tradeoff_curve`: starting from the lifted start value, every group adds
    `p_sensitive_feature_value * y` in group order — `groupFreq`, `objAccum`, `objInit` are the LIFTED expressions -/
def objSimple (groups : List (List Row)) (is : List Interp) : Rat :=
  (List.zipWith (fun (g : List Row) (r : Interp) =>
      (ThresholdFitSrc.groupFreq (g.length : Rat) (totalRows groups : Rat), r.y)) groups is).foldl
    (fun acc py => ThresholdFitSrc.objAccum acc py.1 py.2) (ThresholdFitSrc.objInit 1)

def curves (hulls : List (List Pt)) (N : Nat) : Option (List (List Interp)) :=
  allSome ((List.range (N + 1)).map (interpAll hulls N))

def hullsOf (flip : Bool) (xm ym : Metric) (groups : List (List Row)) : Option (List (List Pt)) :=
  allSome (groups.map (tradeoffCurve flip xm ym))

def simpleRule (r : Interp) : Rule := ⟨r.p0, r.op0, r.p1, r.op1, none⟩

/-- `_threshold_optimization_for_simple_constraints`; `force = some i` evaluates the rule at grid index `i`
    instead of the arg-max (used by the harness to follow a floating-point tie of the implementation) -/
def fitSimple (flip : Bool) (xm ym : Metric) (N : Nat) (groups : List (List Row)) (force : Option Nat) :
    Option Fit :=
  match hullsOf flip xm ym groups with
  | none => none
  | some hulls =>
    match curves hulls N with
    | none => none
    | some cs =>
      let objs := cs.map (objSimple groups)
      let iBest := force.getD (bestIndexSimple objs)
      match cs[iBest]?, objs[iBest]? with
      | some best, some o => some ⟨iBest, o, best, best.map simpleRule⟩
      | _, _ => none

def minList : List Rat → Option Rat
  | [] => none
  | v :: vs => match minList vs with
    | none => some v
    | some m => some (if m < v then m else v)

def maxList : List Rat → Option Rat
  | [] => none
  | v :: vs => match maxList vs with
    | none => some v
    | some m => some (if v < m then m else v)

/-- `self._y_min = np.amin(y_values, axis=1)`: the reduction over the groups at one grid point is the LIFTED one
    (`ThresholdFitSrc.yMinIsAmin`: `np.amin` / `np.amax`); `none` = no group -/
def yReduce (ys : List Rat) : Option Rat := if ThresholdFitSrc.yMinIsAmin then minList ys else maxList ys

def totalPos (groups : List (List Row)) : Nat := (groups.map nPos).sum
def totalNeg (groups : List (List Row)) : Nat := (groups.map nNeg).sum

/-- `n_negative = n - n_positive` of the equalized-odds method: the LIFTED expression (`ThresholdFitSrc.eoNNeg`) of
    `n = len(labels)` and `n_positive = sum(labels)` -/
def eoNegatives (groups : List (List Row)) : Rat :=
  ThresholdFitSrc.eoNNeg (totalRows groups : Rat) (totalPos groups : Rat)

def objEO (obj : Metric) (groups : List (List Row)) (x y : Rat) : Rat :=
  obj.eval (eoCounts (eoNegatives groups) (totalPos groups) x y)

/-- the diagonal test, the value on the diagonal and the quotient are LIFTED (`Generated/ThresholdFitSrc.lean`) -/
def pIgnore (r : Interp) (yBest : Rat) : Rat :=
  if ThresholdFitSrc.pIgnoreOnDiagonal r.x r.y then ThresholdFitSrc.pIgnoreDiagValue
  else ThresholdFitSrc.pIgnoreValue r.x r.y yBest

def eoRule (xBest yBest : Rat) (r : Interp) : Rule :=
  ⟨r.p0, r.op0, r.p1, r.op1, some (pIgnore r yBest, xBest)⟩

/-- `_threshold_optimization_for_equalized_odds`: the reduction behind `_y_min`, the rounding call, which extremum `idxmax`
    takes and what `prediction_constant` is are the LIFTED definitions (`yReduce`, `aroundModel`, `bestIndexEO`,
    `ThresholdFitSrc.predictionConstant`) -/
def fitEO (flip : Bool) (obj : Metric) (N : Nat) (groups : List (List Row)) (force : Option Nat) :
    Option (Fit × Rat) :=
  match hullsOf flip eoXMetric eoYMetric groups with
  | none => none
  | some hulls =>
    match curves hulls N with
    | none => none
    | some cs =>
      match allSome (cs.map (fun is => yReduce (is.map (·.y)))) with
      | none => none
      | some ymins =>
        let objs := (List.range (N + 1)).zipWith
          (fun i y => aroundModel ThresholdFitSrc.aroundDecimals (objEO obj groups (gridVal N i) y)) ymins
        let iBest := force.getD (bestIndexEO objs)
        match cs[iBest]?, objs[iBest]?, ymins[iBest]? with
        | some best, some o, some yBest =>
          some (⟨iBest, o, best,
                 best.map (eoRule (ThresholdFitSrc.predictionConstant (gridVal N iBest) yBest) yBest)⟩, yBest)
        | _, _, _ => none

/-! ### `InterpolatedThresholder._pmf_predict` and expected confusion counts -/
def ind (b : Bool) : Rat := if b then 1 else 0

/-- probability of predicting 1 for a row with score `s`: the interpolation and the `p_ignore` mixing are the
    expressions LIFTED from `InterpolatedThresholder._pmf_predict` (`Generated/ThresholderSrc.lean`) -/
def ruleProb (r : Rule) (s : Rat) : Rat :=
  let base := ThresholderSrc.interp r.p0 (ind (r.op0.apply s)) r.p1 (ind (r.op1.apply s))
  match r.ign with
  | none => base
  | some (pi, c) => ThresholderSrc.withIgnore pi c base

def sumBy (f : Row → Rat) (rows : List Row) : Rat := (rows.map f).sum

/-- expected confusion counts on `rows` of a randomised predictor with P(pred = 1 | score) = `prob score` -/
def expCM (prob : Rat → Rat) (rows : List Row) : CM :=
  { true_positives := sumBy (fun r => if r.label then prob r.score else 0) rows,
    false_positives := sumBy (fun r => if r.label then 0 else prob r.score) rows,
    true_negatives := sumBy (fun r => if r.label then 0 else 1 - prob r.score) rows,
    false_negatives := sumBy (fun r => if r.label then 1 - prob r.score else 0) rows }

/-- confusion counts of a deterministic threshold operation -/
def confusion (o : Op) (rows : List Row) : CM := expCM (fun s => ind (o.apply s)) rows

/-- expected value of a metric under the fitted randomised rule on the group's training rows -/
def expectedMetric (m : Metric) (rule : Rule) (rows : List Row) : Rat :=
  m.eval (expCM (ruleProb rule) rows)

/-! ### decidable side conditions evaluated by the driver on every case -/

/-- consecutive hull vertices `A, B` support the point set: every point is on or below the line `A → B` -/
def supportsAll (hull pts : List Pt) : Bool :=
  (hull.zip hull.tail).all (fun (ab : Pt × Pt) =>
    pts.all (fun q => decide ((ab.2.x - ab.1.x) * (q.y - ab.1.y) - (ab.2.y - ab.1.y) * (q.x - ab.1.x) ≤ 0)))

/-! ### driver glue -/
open Proto

def parseMetric (s : String) : Option Metric := Metric.all.find? (fun m => m.name = s)

def mkGroups (scores labels : List (List Rat)) : Option (List (List Row)) :=
  if scores.length ≠ labels.length then none else
  allSome ((scores.zip labels).map (fun (sl : List Rat × List Rat) =>
    if sl.1.length ≠ sl.2.length then none
    else allSome ((sl.1.zip sl.2).map (fun (p : Rat × Rat) =>
      if p.2 = 1 then some (Row.mk p.1 true) else if p.2 = 0 then some (Row.mk p.1 false) else none))))

def fmtThr : Thr → String
  | .pinf => "inf"
  | .ninf => "-inf"
  | .fin t => fmtRat t

def fmtOp (o : Op) : String := (if o.gt then "gt" else "lt") ++ ":" ++ fmtThr o.thr

def fmtRule (r : Rule) : String :=
  fmtRat r.p0 ++ "|" ++ fmtOp r.op0 ++ "|" ++ fmtRat r.p1 ++ "|" ++ fmtOp r.op1 ++
  (match r.ign with
   | none => ""
   | some (pi, c) => "|" ++ fmtRat pi ++ "|" ++ fmtRat c)

def fmtInterp (r : Interp) : String := fmtRat r.x ++ "|" ++ fmtRat r.y

def fmtFit (f : Fit) : String :=
  toString f.iBest ++ " " ++ fmtRat f.objective ++ " " ++ ";".intercalate (f.interps.map fmtInterp) ++ " " ++
  ";".intercalate (f.rules.map fmtRule)

def fmtExpected (xm ym : Metric) (groups : List (List Row)) (f : Fit) : String :=
  ";".intercalate (List.zipWith (fun (g : List Row) (r : Rule) =>
    fmtRat (expectedMetric xm r g) ++ "|" ++ fmtRat (expectedMetric ym r g)) groups f.rules)

def parseForce (s : String) : Option (Option Nat) :=
  if s = "argmax" then some none else (parseNat s).map some

def fmtPt (p : Pt) : String := fmtRat p.x ++ "|" ++ fmtRat p.y ++ "|" ++ fmtOp p.op

/-- ops:
  `thr.simple <xmetric> <ymetric> <flip> <N> <argmax|i> <scores matrix> <labels matrix>`
      -> `<iBest> <objective> <x|y;...> <rule;...> <supporting 0/1>`  or `degenerate`
  `thr.eo <objective> <flip> <N> <argmax|i> <scores matrix> <labels matrix>`
      -> `<iBest> <objective> <x|y;...> <rule;...> <yBest> <supporting 0/1>`  or `degenerate`
  `thr.hull <xmetric> <ymetric> <flip> <scores> <labels>` -> sorted points `/` hull vertices
  In both fit ops a further token `ex|ey;...` gives `expectedMetric` of the x and y metric of every group's
  rule on that group's rows (the quantity the parity theorems talk about). -/
def handle (toks : List String) : Option String :=
  match toks with
  | ["thr.simple", xm, ym, flip, n, force, sc, lb] => do
    let xm ← parseMetric xm
    let ym ← parseMetric ym
    let flip ← parseBool flip
    let n ← parseNat n
    let force ← parseForce force
    let groups ← mkGroups (← parseMat sc) (← parseMat lb)
    if n = 0 then none else
    match fitSimple flip xm ym n groups force with
    | none => pure "degenerate"
    | some f =>
      let sup := groups.all (fun g =>
        match tradeoffPoints flip xm ym g with
        | none => false
        | some pts => supportsAll (upperHull pts) pts)
      pure (fmtFit f ++ " " ++ fmtBool sup ++ " " ++ fmtExpected xm ym groups f)
  | ["thr.eo", obj, flip, n, force, sc, lb] => do
    let obj ← parseMetric obj
    let flip ← parseBool flip
    let n ← parseNat n
    let force ← parseForce force
    let groups ← mkGroups (← parseMat sc) (← parseMat lb)
    if n = 0 then none else
    match fitEO flip obj n groups force with
    | none => pure "degenerate"
    | some (f, yb) =>
      let sup := groups.all (fun g =>
        match tradeoffPoints flip eoXMetric eoYMetric g with
        | none => false
        | some pts => supportsAll (upperHull pts) pts)
      pure (fmtFit f ++ " " ++ fmtRat yb ++ " " ++ fmtBool sup ++ " " ++ fmtExpected eoXMetric eoYMetric groups f)
  | ["thr.hull", xm, ym, flip, sc, lb] => do
    let xm ← parseMetric xm
    let ym ← parseMetric ym
    let flip ← parseBool flip
    let groups ← mkGroups [← parseRats sc] [← parseRats lb]
    match groups with
    | [g] =>
      match tradeoffPoints flip xm ym g with
      | none => pure "degenerate"
      | some pts => pure (";".intercalate (pts.map fmtPt) ++ " / " ++ ";".intercalate ((upperHull pts).map fmtPt))
    | _ => none
  | _ => none

end Threshold
