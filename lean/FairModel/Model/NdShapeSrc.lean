/-
Driver glue for the GENERATED shape-level translation `Generated/SqueezeSrc.lean`
(`_convert_to_ndarray_and_squeeze`, `selection_rate`, `mean_prediction`; written by
harness/lifters/base_metrics.py::lift_squeeze on every run).  Nothing here is a model of its own.
-/
import FairModel.Generated.SqueezeSrc

namespace NdShapeSrc
open NdShape

def parseOShape (s : String) : Option (Option Shape) :=
  if s = "none" then some none else (Proto.parseNats s).map some

/-- ops (a shape is a list of naturals, `-` = the 0-d shape):
  `nds.squeeze <shape>`                      shape of `_convert_to_ndarray_and_squeeze(a)` for `a.shape = shape`
  `nds.selrate <y_pred shape> <w shape|none>`   shape (`-` = scalar) of `selection_rate(y_true, y_pred, sample_weight=w)`
  `nds.meanpred <y_pred shape> <w shape|none>` -/
def handle (toks : List String) : Option String :=
  match toks with
  | ["nds.squeeze", s] => do
    let s ← Proto.parseNats s
    pure (fmtRes (SqueezeSrc.convert_to_ndarray_and_squeeze_shape s))
  | ["nds.selrate", p, w] => do
    let p ← Proto.parseNats p
    let w ← parseOShape w
    pure (fmtRes (SqueezeSrc.selection_rate_shape p p w))
  | ["nds.meanpred", p, w] => do
    let p ← Proto.parseNats p
    let w ← parseOShape w
    pure (fmtRes (SqueezeSrc.mean_prediction_shape p p w))
  | _ => none

end NdShapeSrc
