/-
Feature-name handling of `MetricFrame.__init__` / `MetricFrame._process_features`
(`_metric_frame.py`) and `GroupFeature.__init__` (`_group_feature.py`).  Core Lean only.

A "feature container" is what the caller passes as `sensitive_features=` / `control_features=`;
only what the naming code looks at is kept: the container kind, the names it carries (a pandas name
is a string or something else, e.g. an int) and, for an array, its shape after `np.squeeze`.
-/
import FairModel.Model.Proto
import FairModel.Generated.FeatureNamesSrc

namespace FeatureNames

/-- a pandas `Series.name` / column label / dict key -/
inductive NameVal where
  | str (s : String)
  | other            -- any non-string (int, tuple, ...)
deriving Repr, DecidableEq

inductive Container where
  /-- `pd.Series`; `name` is `none` for `Series.name is None` -/
  | series (name : Option NameVal)
  /-- `pd.DataFrame` with these column labels, in order (duplicates possible) -/
  | dataframe (cols : List NameVal)
  /-- a Python list; `scalar` = `np.isscalar(features[0])` -/
  | list (scalar : Bool)
  /-- a dict with these keys, in order; `convertible` = `pd.DataFrame.from_dict` succeeds -/
  | dict (keys : List NameVal) (convertible : Bool)
  /-- anything else (ndarray, tuple, ...): number of dimensions after `np.squeeze` (with the
      one-row repair) and, for 2 dimensions, the number of columns -/
  | array (ndim : Nat) (ncols : Nat)
deriving Repr, DecidableEq

inductive FErr where
  | seriesNameNotString   -- _SERIES_NAME_NOT_STRING (GroupFeature)
  | columnNameNotString   -- _FEATURE_DF_COLUMN_BAD_NAME
  | listNonScalar         -- _FEATURE_LIST_NONSCALAR
  | dictConversion        -- _SF_DICT_CONVERSION_FAILURE
  | tooManyDims           -- _TOO_MANY_FEATURE_DIMS
  | duplicateName         -- _DUPLICATE_FEATURE_NAME
  | reservedName          -- _RESERVED_FEATURE_NAME: the name is already a column of all_data
deriving Repr, DecidableEq

def FErr.fmt : FErr → String
  | .seriesNameNotString => "err:series-name"
  | .columnNameNotString => "err:column-name"
  | .listNonScalar => "err:list-nonscalar"
  | .dictConversion => "err:dict-conversion"
  | .tooManyDims => "err:too-many-dims"
  | .duplicateName => "err:duplicate"
  | .reservedName => "err:reserved"

/-- the default name: `"{0}{1}".format(base_name, index)`, lifted from `GroupFeature.__init__` -/
abbrev defaultName (base : String) (i : Nat) : String := FeatureNamesSrc.defaultName base i

/-- `GroupFeature(base_name, feature_vector, index, None).name_`; `sname` is the `Series.name`
    when the vector is a Series (`none` otherwise or when the name is `None`) -/
def groupFeatureName (base : String) (i : Nat) (sname : Option NameVal) : Except FErr String :=
  match sname with
  | none => .ok (defaultName base i)
  | some (.str s) => .ok s
  | some .other => .error .seriesNameNotString

/-- the DataFrame / dict branch: every column label must be a string (checked BEFORE the
    GroupFeature is built, column by column, so the first offending column decides) -/
def columnsNames (base : String) : Nat → List NameVal → Except FErr (List String)
  | _, [] => .ok []
  | i, c :: cs =>
    match c with
    | .other => .error .columnNameNotString
    | .str s =>
      match groupFeatureName base i (some (.str s)) with
      | .error e => .error e
      | .ok nm =>
        match columnsNames base (i + 1) cs with
        | .error e => .error e
        | .ok rest => .ok (nm :: rest)

/-- `MetricFrame._process_features(base_name, features, sample_array)` -> the names of the features -/
def processFeatures (base : String) : Container → Except FErr (List String)
  | .series nm => (groupFeatureName base 0 nm).map (fun s => [s])
  | .dataframe cols => columnsNames base 0 cols
  | .list true => .ok [defaultName base 0]
  | .list false => .error .listNonScalar
  | .dict _ false => .error .dictConversion
  | .dict keys true => columnsNames base 0 keys
  | .array 1 _ => .ok [defaultName base 0]
  | .array 2 k => .ok ((List.range k).map (defaultName base))
  | .array _ _ => .error .tooManyDims

/-- the first name (in list order) that occurred before: `for name in namelist: if name in nameset: raise` -/
def firstDuplicate : List String → List String → Option String
  | _, [] => none
  | seen, n :: ns => if n ∈ seen then some n else firstDuplicate (n :: seen) ns

/-- the check that precedes the insertion of the feature columns: a feature whose name is already a column
    of `all_data` (y_true, y_pred, a sample-parameter column) is rejected -/
def reservedClash (dataCols : List String) (s cn : List String) : Bool :=
  FeatureNamesSrc.reservedCheck &&
    (if FeatureNamesSrc.reservedSensitiveFirst then s ++ cn else cn ++ s).any (fun n => dataCols.contains n)

/-- `MetricFrame.__init__`: sensitive features first, then (optional) control features, then the
    reserved-name check against the columns `dataCols` of `all_data`, then the duplicate check over
    `sf names ++ cf names`.  Returns (`sensitive_levels`, `control_levels`). -/
def featureNames (sfBase cfBase : String) (dataCols : List String) (sf : Container) (cf : Option Container) :
    Except FErr (List String × Option (List String)) :=
  match processFeatures sfBase sf with
  | .error e => .error e
  | .ok s =>
    match cf with
    | none =>
      if reservedClash dataCols s [] then .error .reservedName
      else if (firstDuplicate [] s).isSome then .error .duplicateName else .ok (s, none)
    | some c =>
      match processFeatures cfBase c with
      | .error e => .error e
      | .ok cn =>
        if reservedClash dataCols s cn then .error .reservedName else
        let namelist := if FeatureNamesSrc.sensitiveNamesFirst then s ++ cn else cn ++ s
        if (firstDuplicate [] namelist).isSome then .error .duplicateName else .ok (s, some cn)

/-- `MetricFrame(...)` with the base names lifted from `__init__`; `dataCols` = `all_data.columns` after the
    sample parameters were stored (`["y_true", "y_pred"]` when there are none) -/
def metricFrameNames (dataCols : List String) (sf : Container) (cf : Option Container) :
    Except FErr (List String × Option (List String)) :=
  featureNames FeatureNamesSrc.sensitiveBase FeatureNamesSrc.controlBase dataCols sf cf

/-! ### driver glue -/

def parseNameVal (s : String) : Option NameVal :=
  if s = "other" then some .other else (Proto.parseStr s).map .str

def parseNameVals (s : String) : Option (List NameVal) :=
  if s = "-" then some [] else (s.splitOn ",").mapM parseNameVal

/-- container tokens: `series:none` `series:<name>` `df:<names>` `list:1|0` `dict:<keys>:1|0` `array:<ndim>:<ncols>` `absent` -/
def parseContainer (s : String) : Option (Option Container) :=
  match s.splitOn ":" with
  | ["absent"] => some none
  | ["series", "none"] => some (some (.series none))
  | ["series", n] => (parseNameVal n).map (fun v => some (.series (some v)))
  | ["df", ns] => (parseNameVals ns).map (fun v => some (.dataframe v))
  | ["list", b] => (Proto.parseBool b).map (fun v => some (.list v))
  | ["dict", ks, b] => do
    let ks ← parseNameVals ks
    let b ← Proto.parseBool b
    pure (some (.dict ks b))
  | ["array", d, k] => do
    let d ← Proto.parseNat d
    let k ← Proto.parseNat k
    pure (some (.array d k))
  | _ => none

/-- op: `fn.names <data columns> <sf container> <cf container|absent>` ->
    `<sensitive_levels> <control_levels|none>` or `err:<kind>` -/
def handle (toks : List String) : Option String :=
  match toks with
  | ["fn.names", dc, sf, cf] => do
    let dc ← Proto.parseStrs dc
    let sf ← (← parseContainer sf)
    let cf ← parseContainer cf
    match metricFrameNames dc sf cf with
    | .error e => pure e.fmt
    | .ok (s, c) => pure (Proto.fmtStrs s ++ " " ++ (match c with | none => "none" | some c => Proto.fmtStrs c))
  | _ => none

end FeatureNames
