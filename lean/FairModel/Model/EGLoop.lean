/-
Model of the ExponentiatedGradient MAIN LOOP as an explicit state machine over `Rat` (core Lean only):

  fairlearn/reductions/_exponentiated_gradient/exponentiated_gradient.py : fit, lines 139-266
  fairlearn/reductions/_exponentiated_gradient/_lagrangian.py            : best_h (cache rule), eval_gap
                                                                           (multiplier loop + early break),
                                                                           solve_linprog (cache rule only; the LP itself
                                                                           is Model/LinProg.lean)

What is a PARAMETER of the model (recorded in `trusted`):
  * `Params.e : Rat → Rat`      the exponential `np.exp`; the theorems assume only `0 < e x`
  * `Oracles.h  : Nat → Hyp`    the answer (error, gamma vector) of the n-th call of `_call_oracle` (the base learner)
  * `Oracles.lp : Nat → LPAns`  the answer (Q, lambda) of the n-th non-cached `solve_linprog` (scipy `linprog` twice)
Everything else is computed: the multipliers `lambda_t = B e(theta_j)/(1 + sum_k e(theta_k))`, their running mean
`lambda_EG`, the `best_h` store (`hs`/`errors`/`gammas` append rule `h_value < best_value - _PRECISION`, `idxmin`),
`Qsum`/`Q_EG`, `eval_gap` (`[1,2,5,10]` with the break `gap > nu + _PRECISION`), the `last_linprog_n_hs` cache, the EG-vs-LP
choice, the break rule, the regret check with the eta shrink, the theta update and the choice of the returned iterate.
All closed expressions come from `Generated/EGGen.lean`, `Generated/EGLoopGen.lean`, `Generated/LinProgGen.lean`,
which are lifted from the Python source on every run.
-/
import FairModel.Model.Saddle
import FairModel.Generated.EGLoopGen
import FairModel.Generated.LinProgGen

namespace EGLoop
open Saddle

/-- one classifier as the Lagrangian sees it: `errors[i]`, `gammas[i]` -/
structure Hyp where
  err : Rat
  gam : List Rat
deriving Inhabited

def dot (a b : List Rat) : Rat := (List.zipWith (fun x y => x * y) a b).sum

/-- the stored classifiers (`_Lagrangian.errors`, `.gammas`) as a `Saddle.Table`; `c` = `constraints.bound()` -/
def tableOf (c : List Rat) (hs : List Hyp) : Table :=
  { nH := hs.length, nC := c.length, err := fun i => (hs.getD i default).err,
    gam := fun j i => (hs.getD i default).gam.getD j 0, c := vec c }

/-! ### best_h : the oracle call and the cache of classifiers -/

/-- `h_value` / one entry of `values` -/
def storedValue (lam : List Rat) (h : Hyp) : Rat := EGLoopGen.hValue h.err (dot h.gam lam)

/-- `values.idxmin()` scanning from position `i` with current best `(bi, bv)`: FIRST index of the minimum -/
def argminFrom : List Rat → Nat → Nat → Rat → Nat × Rat
  | [], _, bi, bv => (bi, bv)
  | v :: vs, i, bi, bv => if EGLoopGen.argBetter v bv then argminFrom vs (i + 1) i v else argminFrom vs (i + 1) bi bv

def argmin : List Rat → Option (Nat × Rat)
  | [] => none
  | v :: vs => some (argminFrom vs 1 0 v)

/-- `best_h(lambda_vec)` given the oracle's answer `h`: (store afterwards, returned index).
    Empty store: `best_value = np.inf`, every finite `h_value` improves on it. -/
def bestH (hs : List Hyp) (lam : List Rat) (h : Hyp) : List Hyp × Nat :=
  match argmin (hs.map (storedValue lam)) with
  | none => (hs ++ [h], hs.length)
  | some b => if EGGen.improves (storedValue lam h) b.2 then (hs ++ [h], hs.length) else (hs, b.1)

/-! ### _eval / eval_gap -/

structure Ctx where
  B : Rat
  c : List Rat
  ratioOne : Bool
  nu : Rat

/-- the multiplier `L` is computed with in `_eval`: `self.constraints.project_lambda(lambda_vec)` (opt_lambda=True) when the
    projection statement precedes `L = ...` (lifted statement order: `EGLoopGen.evalProjectsFirst`), else the argument -/
def projLam (X : Ctx) (lam : List Rat) : Nat → Rat :=
  if EGLoopGen.evalProjectsFirst then projectIf X.ratioOne (X.c.length / 2) (vec lam) else vec lam

structure GapRes where
  L : Rat
  Llow : Rat
  Lhigh : Rat

def GapRes.gap (r : GapRes) : Rat := EGGen.gapOf r.L r.Llow r.Lhigh

/-- `if L_low_mul < result.L_low: result.L_low = L_low_mul` -/
def updLow (r : GapRes) (lowMul : Rat) : GapRes := if EGGen.lowImproves lowMul r.Llow then { r with Llow := lowMul } else r

/-- the `for mul in [...]` loop of `eval_gap`; `k` counts oracle calls -/
def evalLoop (X : Ctx) (O : Nat → Hyp) (lamHat : List Rat) :
    List Rat → List Hyp → Nat → GapRes → List Hyp × Nat × GapRes
  | [], hs, k, r => (hs, k, r)
  | mul :: ms, hs, k, r =>
    let bh := bestH hs (lamHat.map (fun x => mul * x)) (O k)
    let lowMul := lagr (tableOf X.c bh.1) (unit bh.2) (projLam X lamHat)
    if EGLoopGen.evalBreak (updLow r lowMul).gap X.nu then (bh.1, k + 1, updLow r lowMul)
    else evalLoop X O lamHat ms bh.1 (k + 1) (updLow r lowMul)

/-- `eval_gap(Q, lambda_hat, nu)`: (store afterwards, oracle calls afterwards, result) -/
def evalGap (X : Ctx) (O : Nat → Hyp) (hs : List Hyp) (k : Nat) (Q lamHat : List Rat) : List Hyp × Nat × GapRes :=
  let T := tableOf X.c hs
  let L := lagr T (vec Q) (projLam X lamHat)
  evalLoop X O lamHat EGGen.muls hs k ⟨L, L, lHigh T X.B (vec Q)⟩

/-! ### the loop -/

structure Params where
  B : Rat
  eta0 : Rat
  nu : Rat
  maxIter : Nat
  runLP : Bool
  ratioOne : Bool
  c : List Rat
  e : Rat → Rat

def Params.ctx (P : Params) : Ctx := ⟨P.B, P.c, P.ratioOne, P.nu⟩

structure LPAns where
  Q : List Rat
  lam : List Rat
deriving Inhabited

/-- which `eval_gap` call certified an iterate: the store it started from, the index of its first oracle call, its
    arguments -/
structure Cert where
  hs : List Hyp
  k : Nat
  Q : List Rat
  lamHat : List Rat
deriving Inhabited

structure Oracles where
  h : Nat → Hyp
  lp : Nat → LPAns

structure State where
  t : Nat                       -- iterations completed = len(Qs)
  done : Bool                   -- the `break` was taken
  theta : List Rat
  eta : Rat
  qsum : List Rat               -- Qsum by h_idx
  lastChecked : Nat
  lastGap : Option Rat          -- none = np.inf
  hs : List Hyp                 -- the best_h store
  calls : Nat                   -- n_oracle_calls
  lpCalls : Nat                 -- non-cached solve_linprog calls
  lpN : Nat                     -- last_linprog_n_hs
  lpRes : Option (LPAns × GapRes)
  lpFrom : List Hyp × Nat       -- store and oracle-call count when the cached LP result was evaluated
  lamCols : List (List Rat)     -- lambda_vecs_EG_ (one entry per iteration)
  lamEGs : List (List Rat)      -- lambda_EG of every iteration
  thetas : List (List Rat)      -- theta used by every iteration
  etas : List Rat               -- eta after every iteration
  gapsEG : List Rat
  gaps : List Rat
  qs : List (List Rat)          -- Qs
  fromLP : List Bool            -- which branch filled Qs[t] / gaps[t]
  lamLP : List (Nat × List Rat) -- lambda_vecs_LP_ columns
  certs : List (Cert × Rat × List Rat)  -- per iteration: the certifying eval_gap call, gaps[t], Qs[t]
  shrinks : Nat
  checks : Nat
  cacheHits : Nat

def initState (P : Params) : State :=
  { t := 0, done := false, theta := List.replicate P.c.length EGLoopGen.thetaInit,
    eta := EGLoopGen.etaInit P.eta0 P.B, qsum := [], lastChecked := EGLoopGen.lastCheckedInit, lastGap := EGLoopGen.lastGapInit,
    hs := [], calls := 0, lpCalls := 0, lpN := 0, lpRes := none, lpFrom := ([], 0), lamCols := [], lamEGs := [], thetas := [], etas := [],
    gapsEG := [], gaps := [], qs := [], fromLP := [], lamLP := [], certs := [], shrinks := 0, checks := 0, cacheHits := 0 }

/-- `lambda_vec = B * np.exp(theta) / (1 + np.exp(theta).sum())` -/
def lamVec (P : Params) (theta : List Rat) : List Rat :=
  (theta.map P.e).map (fun x => EGLoopGen.lamOf P.B x (theta.map P.e).sum)

/-- `self.lambda_vecs_EG_.mean(axis=1)` over the `n` multiplier entries -/
def meanCols (n : Nat) (cols : List (List Rat)) : List Rat :=
  (List.range n).map (fun j => EGLoopGen.lamEGAgg (cols.map (fun col => col.getD j 0)).sum cols.length)

/-- `if h_idx not in Qsum.index: Qsum.at[h_idx] = 0.0` then `Qsum[h_idx] += 1.0`.  `Qsum` is a Series keyed by
    classifier index; here it is the list by index, absent keys are 0 entries (they contribute nothing to any sum). -/
def bump : List Rat → Nat → List Rat
  | [], 0 => [EGLoopGen.qNew + EGLoopGen.qBump]
  | [], i + 1 => 0 :: bump [] i
  | x :: xs, 0 => (x + EGLoopGen.qBump) :: xs
  | x :: xs, i + 1 => x :: bump xs i

/-- `Q_EG = Qsum / Qsum.sum()` -/
def normalise (q : List Rat) : List Rat := q.map (fun x => EGLoopGen.qNorm x q.sum)

/-- `solve_linprog(nu)` : cached result when no classifier was added since the last solve, otherwise the LP
    oracle's pair followed by `eval_gap` on it.  (A cache hit with no stored result cannot occur: the store is
    non-empty whenever this is reached; the model then solves.) -/
def solveLP (P : Params) (O : Oracles) (s : State) : State × LPAns × GapRes :=
  match (if LinProgGen.cacheHit s.lpN s.hs.length then s.lpRes else none) with
  | some r => ({ s with cacheHits := s.cacheHits + 1 }, r.1, r.2)
  | none =>
    let a := O.lp s.lpCalls
    let ev := evalGap P.ctx O.h s.hs s.calls a.Q a.lam
    ({ s with
        hs := ev.1, calls := ev.2.1, lpCalls := s.lpCalls + 1, lpN := s.hs.length, lpRes := some (a, ev.2.2),
        lpFrom := (s.hs, s.calls) },
      a, ev.2.2)

def thetaStep (P : Params) (theta : List Rat) (eta : Rat) (gamma : List Rat) : List Rat :=
  (List.range P.c.length).map
    (fun j => EGLoopGen.thetaNext (theta.getD j 0) eta (gamma.getD j 0) (P.c.getD j 0))

/-- everything one pass through the loop body computes before the bookkeeping -/
structure Decision where
  lam : List Rat            -- lambda_vec
  lamEG : List Rat          -- lambda_EG
  qsum : List Rat
  gamma : List Rat          -- lagrangian.gammas[h_idx]
  gapEG : Rat
  gap : Rat                 -- what is appended to `gaps`
  q : List Rat              -- what is appended to `Qs`
  useEG : Bool
  lpLam : Option (List Rat) -- lambda_vecs_LP_[t] when the LP step ran
  cert : Cert               -- the eval_gap call behind `gap`
  s2 : State                -- store and counters after the oracle / LP calls

/-- the body of `for t in range(0, self.max_iter)` up to and including the EG-vs-LP choice -/
def decision (P : Params) (O : Oracles) (s : State) : Decision :=
  let lam := lamVec P s.theta
  let lamEG := meanCols P.c.length (s.lamCols ++ [lam])
  let bh := bestH s.hs lam (O.h s.calls)
  let qsum := bump s.qsum bh.2
  let qEG := normalise qsum
  let ev := evalGap P.ctx O.h bh.1 (s.calls + 1) qEG lamEG
  let gapEG := ev.2.2.gap
  let s1 : State := { s with hs := ev.1, calls := ev.2.1 }
  if EGLoopGen.skipLP s.t P.runLP then
    { lam := lam, lamEG := lamEG, qsum := qsum, gamma := (bh.1.getD bh.2 default).gam, gapEG := gapEG, gap := gapEG,
      q := qEG, useEG := true, lpLam := none, cert := ⟨bh.1, s.calls + 1, qEG, lamEG⟩, s2 := s1 }
  else
    let r := solveLP P O s1
    { lam := lam, lamEG := lamEG, qsum := qsum, gamma := (bh.1.getD bh.2 default).gam, gapEG := gapEG,
      gap := if EGGen.preferEG gapEG r.2.2.gap then gapEG else r.2.2.gap,
      q := if EGGen.preferEG gapEG r.2.2.gap then qEG else r.2.1.Q,
      useEG := EGGen.preferEG gapEG r.2.2.gap, lpLam := some r.2.1.lam,
      cert := if EGGen.preferEG gapEG r.2.2.gap then ⟨bh.1, s.calls + 1, qEG, lamEG⟩
              else ⟨r.1.lpFrom.1, r.1.lpFrom.2, r.2.1.Q, r.2.1.lam⟩,
      s2 := r.1 }

/-- `if (gaps[t] < self.nu) and (t >= _MIN_ITER): break` -/
def brkOf (P : Params) (s : State) (D : Decision) : Bool := EGGen.breakCond D.gap P.nu s.t
/-- the regret check is reached (no break) and due -/
def dueOf (P : Params) (s : State) (D : Decision) : Bool := !brkOf P s D && EGLoopGen.regretDue s.t s.lastChecked
/-- `best_gap = min(gaps_EG)` -/
def bestGapOf (s : State) (D : Decision) : Rat := minL D.gapEG s.gapsEG
/-- `if best_gap > last_gap * _SHRINK_REGRET` inside a due regret check (`last_gap = inf`: never) -/
def shrinkOf (P : Params) (s : State) (D : Decision) : Bool :=
  dueOf P s D && (match s.lastGap with | none => false | some lg => EGLoopGen.shrinkDue (bestGapOf s D) lg)
def etaOf (P : Params) (s : State) (D : Decision) : Rat :=
  if shrinkOf P s D then EGLoopGen.etaShrunk s.eta else s.eta

/-- `Qs.append(Q_EG)` / `Qs.append(Q_LP)`.  A Python list holds REFERENCES: only if every appended object is built afresh in
    each pass and never updated in place (the lifted data-flow fact `EGLoopGen.qsEntriesFresh`) does `Qs[t]` keep the value
    of iteration `t`.  Otherwise every EG entry appended earlier is the one object `Q_EG` and shows its current value `qEG`
    (what the seeded change C08a did).  `Lemmas/EGLoop.lean:storeQ_fresh` is the form the proofs use. -/
def storeQ (qs : List (List Rat)) (fromLP : List Bool) (qEG q : List Rat) : List (List Rat) :=
  if EGLoopGen.qsEntriesFresh then qs ++ [q]
  else List.zipWith (fun (lp : Bool) (old : List Rat) => if lp then old else qEG) fromLP qs ++ [q]

/-- the rest of the body: append, break test, regret check with the eta shrink, theta update -/
def finish (P : Params) (s : State) (D : Decision) : State :=
  { t := s.t + 1, done := brkOf P s D,
    theta := if brkOf P s D then s.theta else thetaStep P s.theta (etaOf P s D) D.gamma,
    eta := etaOf P s D, qsum := D.qsum,
    lastChecked := if dueOf P s D then s.t else s.lastChecked,
    lastGap := if dueOf P s D then some (bestGapOf s D) else s.lastGap,
    hs := D.s2.hs, calls := D.s2.calls, lpCalls := D.s2.lpCalls, lpN := D.s2.lpN, lpRes := D.s2.lpRes, lpFrom := D.s2.lpFrom,
    lamCols := s.lamCols ++ [D.lam], lamEGs := s.lamEGs ++ [D.lamEG], thetas := s.thetas ++ [s.theta],
    etas := s.etas ++ [etaOf P s D], gapsEG := s.gapsEG ++ [D.gapEG], gaps := s.gaps ++ [D.gap], qs := storeQ s.qs s.fromLP (normalise D.qsum) D.q,
    fromLP := s.fromLP ++ [!D.useEG],
    lamLP := match D.lpLam with | none => s.lamLP | some l => s.lamLP ++ [(s.t, l)],
    certs := s.certs ++ [(D.cert, D.gap, D.q)],
    shrinks := if shrinkOf P s D then s.shrinks + 1 else s.shrinks,
    checks := if dueOf P s D then s.checks + 1 else s.checks,
    cacheHits := D.s2.cacheHits }

/-- one pass through the body of `for t in range(0, self.max_iter)` (identity once the loop has been left) -/
def iter (P : Params) (O : Oracles) (s : State) : State :=
  if s.done || decide (P.maxIter ≤ s.t) then s else finish P s (decision P O s)

/-- the state after `n` passes; `run` = `max_iter` passes -/
def runN (P : Params) (O : Oracles) : Nat → State
  | 0 => initState P
  | n + 1 => iter P O (runN P O n)

def run (P : Params) (O : Oracles) : State := runN P O P.maxIter

/-- `best_iter_` -/
def bestIterOf (s : State) : Option Nat := bestIter s.gaps
/-- `last_iter_ = len(Qs) - 1` -/
def lastIterOf (s : State) : Int := EGLoopGen.lastIter s.qs.length
/-- `for h_idx in self._hs.index: if h_idx not in self.weights_.index: self.weights_.at[h_idx] = 0.0` -/
def padTo (n : Nat) (q : List Rat) : List Rat := q ++ List.replicate (n - q.length) 0

/-- `weights_ = Qs[best_iter_]` (the position is the lifted `EGGen.weightsPick`), then zero padding to every stored
    classifier -/
def weightsOf (s : State) : List Rat :=
  match bestIterOf s with
  | none => []
  | some b => padTo s.hs.length (s.qs.getD (EGGen.weightsPick b (s.qs.length - 1)) [])

/-! ### driver glue -/

def lookupE (tab : List (Rat × Rat)) (x : Rat) : Option Rat := (tab.find? (fun p => p.1 == x)).map (·.2)

def mkHyp (row : List Rat) : Hyp := ⟨row.headD 0, row.tail⟩

/-- ops:
  `egloop.run <B> <eta0> <nu> <max_iter> <runLP> <ratioOne> <bounds> <e table: rows theta,value> <oracle answers: rows err,gamma..>
              <LP answers Q: rows> <LP answers lambda: rows>`
   → `<iterations> <oracle calls> <lp solves> <best_iter> <best_gap> <weights> <lambda columns> <lambda_EG at best_iter>
      <thetas> <etas> <gaps_EG> <gaps> <from LP 0/1> <stored errors> <shrinks> <regret checks> <lp cache hits>
      <lambda_LP iteration numbers> <lambda_LP columns>`
   or `stuck <what>` when the supplied answers / exp table do not cover what the run asks for. -/
def handle (toks : List String) : Option String :=
  match toks with
  | ["egloop.run", b, eta0, nu, mi, rlp, r1, c, etab, hyps, lpq, lpl] => do
    let b ← Proto.parseRat b
    let eta0 ← Proto.parseRat eta0
    let nu ← Proto.parseRat nu
    let mi ← Proto.parseNat mi
    let rlp ← Proto.parseBool rlp
    let r1 ← Proto.parseBool r1
    let c ← Proto.parseRats c
    let etab ← Proto.parseMat etab
    let hyps ← Proto.parseMat hyps
    let lpq ← Proto.parseMat lpq
    let lpl ← Proto.parseMat lpl
    if etab.any (·.length ≠ 2) || hyps.any (·.length ≠ c.length + 1) || lpq.length ≠ lpl.length
        || lpl.any (·.length ≠ c.length) || (r1 && c.length % 2 ≠ 0) then none
    else
      let tab := etab.map (fun r => (r.getD 0 0, r.getD 1 0))
      let P : Params := ⟨b, eta0, nu, mi, rlp, r1, c, fun x => (lookupE tab x).getD 0⟩
      let hv := hyps.map mkHyp
      let lps := List.zipWith (fun q l => (⟨q, l⟩ : LPAns)) lpq lpl
      let O : Oracles := ⟨fun k => hv.getD k default, fun k => lps.getD k default⟩
      let s := run P O
      if s.thetas.any (fun th => th.any (fun x => (lookupE tab x).isNone)) then pure "stuck exp-table"
      else if s.calls > hv.length then pure ("stuck oracle-answers " ++ toString s.calls)
      else if s.lpCalls > lps.length then pure ("stuck lp-answers " ++ toString s.lpCalls)
      else
        match bestIterOf s with
        | none => pure "stuck no-iteration"
        | some bi =>
          pure (" ".intercalate [toString s.t, toString s.calls, toString s.lpCalls, toString bi,
            Proto.fmtRat (s.gaps.getD bi 0), Proto.fmtRats (weightsOf s), Proto.fmtMat s.lamCols,
            Proto.fmtRats (s.lamEGs.getD bi []), Proto.fmtMat s.thetas, Proto.fmtRats s.etas,
            Proto.fmtRats s.gapsEG, Proto.fmtRats s.gaps, Proto.fmtList Proto.fmtBool s.fromLP,
            Proto.fmtRats (s.hs.map (·.err)), toString s.shrinks, toString s.checks, toString s.cacheHits,
            Proto.fmtNats (s.lamLP.map (·.1)), Proto.fmtMat (s.lamLP.map (·.2))])
  | _ => none

end EGLoop
