/-
The RESULT CACHE of `MetricFrame` and its public accessors (`_metric_frame.py`: `_populate_results`, `_group`,
`group_min / group_max / difference / ratio`), computed WITH the generated definitions of
`Generated/PopulateSrc.lean` (lifter `populate.py`: which `DisaggregatedResult` call fills which cache slot with which
`method` / `errors` value and which `no_control_levels=` flag; the defaults of the accessors and the slot they read)
and `Generated/FrameSrc.lean` (`extract_result`, lifter `frame.py`).  Core Lean only.

One metric column at a time (`Aggregate.Tables`), as in `Model/Aggregate.lean`.  What is modelled, not lifted:
`_none_to_nan` is the identity on the modelled values (the lifter pins its presence and its body); an exception
raised while a slot is computed is stored and re-raised by the accessor (= `none`; the lifter pins the `try`).
-/
import FairModel.Generated.PopulateSrc
import FairModel.Generated.FrameSrc
import FairModel.Model.AggregatePrim

namespace AggCache
open Frame Aggregate PopulateSrc FramePrims

/-- the `DisaggregatedResult` call of a cache entry -/
def evalCall : Call → Tables → Option Series
  | .grouping g e, t => applyGrouping g e t
  | .difference m e, t => Aggregate.difference m e t
  | .ratio m e, t => Aggregate.ratio m e t

/-- `self._result_cache[...]`: the entry stored under a slot (`none`: KeyError) -/
def entryOf (s : Slot) : Option Entry := populate.find? (fun e => e.slot == s)

/-- what an accessor does: `keyError` (no such cache entry), or the `_extract_result` mode together with the stored
    value (`none` = a stored exception, re-raised) -/
inductive Got where
  | keyError
  | invalidArg                       -- ValueError of the accessor's own argument check
  | got (mode : Extract) (r : Option Series)
deriving Repr

/-- `.iloc[:, 0]` applied to the Series an aggregate is WITHOUT control features raises (IndexingError, stored by the
    `try` of `_populate_results`); every other combination hands out (part of) the value -/
def extractFails (mode : Extract) (ncf : Nat) : Bool := mode == .column0 && ncf == 0

/-- the content of one cache slot of a frame built from a bare callable (`usc`) or a dict -/
def cached (usc : Bool) (s : Slot) (t : Tables) : Got :=
  match entryOf s with
  | none => .keyError
  | some e =>
    let mode := FrameSrc.extract_result usc (decide (0 < t.ncf)) e.noControlLevels
    .got mode (if extractFails mode t.ncf then none else evalCall e.call t)

/-- `MetricFrame.group_min(errors=...)`; `none` = argument not given -/
def groupMinPub (errors : Option Errors) (usc : Bool) (t : Tables) : Got :=
  let e := errors.getD groupMinDefaultErrors
  if ¬ validErrors.contains e then .invalidArg else cached usc (groupMinSlot e) t

def groupMaxPub (errors : Option Errors) (usc : Bool) (t : Tables) : Got :=
  let e := errors.getD groupMaxDefaultErrors
  if ¬ validErrors.contains e then .invalidArg else cached usc (groupMaxSlot e) t

/-- `MetricFrame.difference(method=..., errors=...)` -/
def differencePub (method : Option Method) (errors : Option Errors) (usc : Bool) (t : Tables) : Got :=
  let m := method.getD differenceDefaultMethod
  let e := errors.getD differenceDefaultErrors
  if ¬ validErrors.contains e ∨ ¬ compareMethods.contains m then .invalidArg else cached usc (differenceSlot m e) t

def ratioPub (method : Option Method) (errors : Option Errors) (usc : Bool) (t : Tables) : Got :=
  let m := method.getD ratioDefaultMethod
  let e := errors.getD ratioDefaultErrors
  if ¬ validErrors.contains e ∨ ¬ compareMethods.contains m then .invalidArg else cached usc (ratioSlot m e) t

/-- the documented result type (table in the docstring of `MetricFrame.overall`): bare callable without control
    features → the scalar, bare callable with control features → a Series (`.iloc[:, 0]`), dict → the frame -/
def documentedMode (usc : Bool) (ncf : Nat) : Extract :=
  if usc then (if 0 < ncf then .column0 else .entry0) else .whole

/-- the value of an accessor call, `none` = it raises (whatever the reason) -/
def Got.value : Got → Option Series
  | .got _ r => r
  | _ => none

/-! ### driver glue -/

def fmtMode : Extract → String
  | .whole => "whole" | .column0 => "column0" | .entry0 => "entry0"

def Got.fmt : Got → String
  | .keyError => "keyerror"
  | .invalidArg => "invalid"
  | .got mode r => fmtMode mode ++ ":" ++ fmtRes r

/-- the 12 explicit calls in the order of `agg.eval`, then the 12 calls that leave arguments out:
    group_min() group_max() | difference() difference(method=between) difference(method=to_overall)
    difference(errors=raise) difference(errors=coerce) | the same five for ratio -/
def allCalls (usc : Bool) (t : Tables) : List Got :=
  [groupMinPub (some .raise) usc t, groupMinPub (some .coerce) usc t,
   groupMaxPub (some .raise) usc t, groupMaxPub (some .coerce) usc t,
   differencePub (some .between) (some .raise) usc t, differencePub (some .between) (some .coerce) usc t,
   differencePub (some .toOverall) (some .raise) usc t, differencePub (some .toOverall) (some .coerce) usc t,
   ratioPub (some .between) (some .raise) usc t, ratioPub (some .between) (some .coerce) usc t,
   ratioPub (some .toOverall) (some .raise) usc t, ratioPub (some .toOverall) (some .coerce) usc t,
   groupMinPub none usc t, groupMaxPub none usc t,
   differencePub none none usc t, differencePub (some .between) none usc t, differencePub (some .toOverall) none usc t,
   differencePub none (some .raise) usc t, differencePub none (some .coerce) usc t,
   ratioPub none none usc t, ratioPub (some .between) none usc t, ratioPub (some .toOverall) none usc t,
   ratioPub none (some .raise) usc t, ratioPub none (some .coerce) usc t]

/-- op: `aggc.eval <bare callable 0|1> <ncf> <othersNonscalar 0|1> <by keys> <by cells> <overall keys> <overall cells>`
    output: 24 space separated results `<extract mode>:<keys>|<values>`, `<extract mode>:err`, `keyerror`, `invalid` -/
def handle (toks : List String) : Option String :=
  match toks with
  | ["aggc.eval", usc, ncf, ons, bk, bc, ok, oc] => do
    let usc ← Proto.parseBool usc
    let ncf ← Proto.parseNat ncf
    let ons ← Proto.parseBool ons
    let bg ← mkTable (← parseKeys bk) (← parseCells bc)
    let ov ← mkTable (← parseKeys ok) (← parseCells oc)
    if bg.isEmpty then none
    let t : Tables := ⟨ncf, bg, ov, ons⟩
    pure (" ".intercalate ((allCalls usc t).map Got.fmt))
  | _ => none

end AggCache
