/-
IEEE-754 style arithmetic on the extended rationals `XR` (NaN, ±inf, exact finite values), as
numpy / pandas perform it on float64 columns.  Core Lean only.
Signed zeros are not modelled (the harness never feeds -0.0; results are compared with -0.0 = 0.0).
-/
import FairModel.Model.Proto

namespace XR

def isNan : XR → Bool
  | nan => true
  | _ => false

def neg : XR → XR
  | nan => nan
  | ninf => pinf
  | pinf => ninf
  | fin q => fin (-q)

def add : XR → XR → XR
  | nan, _ => nan
  | _, nan => nan
  | pinf, ninf => nan
  | ninf, pinf => nan
  | pinf, _ => pinf
  | _, pinf => pinf
  | ninf, _ => ninf
  | _, ninf => ninf
  | fin a, fin b => fin (a + b)

def sub (x y : XR) : XR := add x (neg y)

def abs : XR → XR
  | nan => nan
  | ninf => pinf
  | pinf => pinf
  | fin q => fin (if q < 0 then -q else q)

/-- float division `x / y` (numpy semantics: x/0 = ±inf, 0/0 = nan, no exception) -/
def div : XR → XR → XR
  | nan, _ => nan
  | _, nan => nan
  | fin a, fin b =>
    if b = 0 then (if a = 0 then nan else if 0 < a then pinf else ninf) else fin (a / b)
  | fin _, pinf => fin 0
  | fin _, ninf => fin 0
  | pinf, fin b => if b < 0 then ninf else pinf
  | ninf, fin b => if b < 0 then pinf else ninf
  | pinf, pinf => nan
  | pinf, ninf => nan
  | ninf, pinf => nan
  | ninf, ninf => nan

/-- float `x < y`; false whenever a NaN is involved -/
def lt : XR → XR → Bool
  | nan, _ => false
  | _, nan => false
  | ninf, ninf => false
  | ninf, _ => true
  | _, ninf => false
  | pinf, _ => false
  | fin _, pinf => true
  | fin a, fin b => decide (a < b)

def le (x y : XR) : Bool := !x.isNan && !y.isNan && !lt y x

/-- minimum of two non-NaN values, NaN is skipped (`skipna=True`) -/
def minSkip2 (x y : XR) : XR := if x.isNan then y else if y.isNan then x else if lt y x then y else x
def maxSkip2 (x y : XR) : XR := if x.isNan then y else if y.isNan then x else if lt x y then y else x

/-- pandas `Series.min()` / `.max()` (skipna): NaN entries ignored, all-NaN (or empty) gives NaN -/
def minSkip (l : List XR) : XR := l.foldr minSkip2 nan
def maxSkip (l : List XR) : XR := l.foldr maxSkip2 nan

/-- pandas `Series.mean()` (skipna) restricted to what `equalized_odds_*(agg="mean")` needs -/
def meanSkip (l : List XR) : XR :=
  let l' := l.filter (fun x => !x.isNan)
  if l'.isEmpty then nan else div (l'.foldr add (fin 0)) (fin (l'.length : Rat))

def one : XR := fin 1
def zero : XR := fin 0

/-- Python's builtin `min(a, b)` / `max(a, b)` on floats: keeps the FIRST argument unless the
    second compares strictly smaller / larger, so a NaN first argument is returned, a NaN second
    argument is ignored. -/
def pyMin2 (a b : XR) : XR := if lt b a then b else a
def pyMax2 (a b : XR) : XR := if lt a b then b else a

end XR

/-- the two pandas grouping functions `apply_grouping` accepts -/
inductive Grouping where
  | min | max
deriving Repr, DecidableEq

def Grouping.apply : Grouping → List XR → XR
  | .min => XR.minSkip
  | .max => XR.maxSkip
