/-
A pool of concrete metric functions (what the driver can evaluate on a slice) and the
line-protocol glue for the MetricFrame model (`Model/Frame.lean`).  Core Lean only.

`Dat` is what `AnnotatedMetricFunction.__call__` hands to the metric for one row:
y_true, y_pred and up to two per-sample parameters (`p0` = sample_weight or a free parameter,
1 when absent; `p1` = a second free parameter, 0 when absent).
-/
import FairModel.Model.Frame
import FairModel.Model.XRArith
import FairModel.Model.BaseMetrics

namespace MetricPool
open Frame

structure Dat where
  y : Rat
  pred : Rat
  p0 : Rat
  p1 : Rat
deriving Repr, DecidableEq

inductive Metric where
  | count | selrate | tpr | fpr | tnr | fnr | meanpred | accuracy | meanerr
  | fpRows | fpY | fpPred | fpPar | cm
  | zeroOne | mae | mse
deriving Repr, DecidableEq

def parseMetric (s : String) : Option Metric :=
  match s with
  | "count" => some .count | "selrate" => some .selrate
  | "tpr" => some .tpr | "fpr" => some .fpr | "tnr" => some .tnr | "fnr" => some .fnr
  | "meanpred" => some .meanpred | "accuracy" => some .accuracy | "meanerr" => some .meanerr
  | "fprows" => some .fpRows | "fpy" => some .fpY | "fppred" => some .fpPred | "fppar" => some .fpPar
  | "cm" => some .cm
  | "zeroone" => some .zeroOne | "mae" => some .mae | "mse" => some .mse
  | _ => none

def sumBy (g : Dat → Rat) (rows : List Dat) : Rat := (rows.map g).sum

/-- numerator / denominator as numpy computes it (`x / 0` is ±inf or NaN, not an exception) -/
def quot (n d : Rat) : Cell := .scalar (XR.div (.fin n) (.fin d))

def isIntLabel (d : Dat) : Bool := d.y.den == 1 && d.pred.den == 1

def toBM (d : Dat) : BaseMetrics.Row := ⟨d.y.num, d.pred.num, d.p0⟩

/-- the four confusion-matrix rates with `pos_label=None`; a rejected label set is an exception -/
def rateCell (k : BaseMetrics.Kind) (rows : List Dat) : Cell :=
  if rows.all isIntLabel then
    match BaseMetrics.rate k (rows.map toBM) none with
    | .ok q => .ofRat q
    | .error _ => .raised
  else .raised

/-- `selection_rate(y_true, y_pred, pos_label=1, sample_weight=p0)` -/
def selRateCell (rows : List Dat) : Cell :=
  if rows.isEmpty then .raised
  else quot (sumBy (fun d => if d.pred = 1 then d.p0 else 0) rows) (sumBy (·.p0) rows)

def eval (m : Metric) (rows : List Dat) : Cell :=
  match m with
  | .count => .ofRat rows.length
  | .selrate => selRateCell rows
  | .tpr => rateCell .tpr rows
  | .fpr => rateCell .fpr rows
  | .tnr => rateCell .tnr rows
  | .fnr => rateCell .fnr rows
  | .meanpred => quot (sumBy (fun d => d.pred * d.p0) rows) (sumBy (·.p0) rows)
  | .accuracy => quot (sumBy (fun d => if d.y = d.pred then d.p0 else 0) rows) (sumBy (·.p0) rows)
  | .meanerr => quot (sumBy (fun d => (d.pred - d.y) * d.p0) rows) (sumBy (·.p0) rows)
  | .fpRows => .ofRat (sumBy (·.p1) rows)
  | .fpY => .ofRat (sumBy (fun d => d.y * d.p1) rows)
  | .fpPred => .ofRat (sumBy (fun d => d.pred * d.p1) rows)
  | .fpPar => .ofRat (sumBy (fun d => d.p0 * d.p1) rows)
  | .cm => .nonscalar
  | .zeroOne => quot (sumBy (fun d => if d.y = d.pred then 0 else d.p0) rows) (sumBy (·.p0) rows)
  | .mae => quot (sumBy (fun d => (if d.y - d.pred < 0 then d.pred - d.y else d.y - d.pred) * d.p0) rows) (sumBy (·.p0) rows)
  | .mse => quot (sumBy (fun d => (d.y - d.pred) * (d.y - d.pred) * d.p0) rows) (sumBy (·.p0) rows)

/-! ### driver glue -/

def fmtKey (k : Key) : String := Proto.fmtStrs k

def fmtKeys (ks : List Key) : String :=
  if ks.isEmpty then "none" else ";".intercalate (ks.map fmtKey)

def parseKeys (s : String) : Option (List Key) :=
  if s = "none" then some [] else (s.splitOn ";").mapM Proto.parseStrs

def fmtCells (cs : List Cell) : String :=
  if cs.isEmpty then "none" else ",".intercalate (cs.map Cell.fmt)

def parseCells (s : String) : Option (List Cell) :=
  if s = "none" then some [] else (s.splitOn ",").mapM Cell.parse

def fmtTable (t : List (Key × Cell)) : String :=
  fmtKeys (t.map (·.1)) ++ " " ++ fmtCells (t.map (·.2))

/-- transpose feature columns (one list of levels per column) into per-row lists -/
def rowFeatures (n : Nat) (cols : List (List Level)) : Option (List (List Level)) :=
  if cols.all (fun c => c.length == n) then
    some ((List.range n).map (fun i => cols.map (fun c => c.getD i "")))
  else none

def mkRows (ncf : Nat) (ys ps p0 p1 : List Rat) (cols : List (List Level)) :
    Option (List (Row Dat)) := do
  let n := ys.length
  if ps.length ≠ n || p0.length ≠ n || p1.length ≠ n || ncf > cols.length then none
  let feats ← rowFeatures n cols
  let dats := (ys.zip (ps.zip (p0.zip p1))).map (fun (a, b, c, d) => Dat.mk a b c d)
  pure ((dats.zip feats).map (fun (d, fs) => ⟨d, fs.take ncf, fs.drop ncf⟩))

/-- op: `frame.eval <metric> <ncf> <ys> <preds> <p0> <p1> <column>*`
    each column is a list of strings (one per row), control columns first; at least one
    sensitive column.  Output: `<by_group keys> <by_group cells> <overall keys> <overall cells>`. -/
def handle (toks : List String) : Option String :=
  match toks with
  | "frame.eval" :: m :: ncf :: ys :: ps :: p0 :: p1 :: cols => do
    let m ← parseMetric m
    let ncf ← Proto.parseNat ncf
    let cols ← cols.mapM Proto.parseStrs
    if cols.length ≤ ncf then none
    let rows ← mkRows ncf (← Proto.parseRats ys) (← Proto.parseRats ps) (← Proto.parseRats p0)
      (← Proto.parseRats p1) cols
    if rows.isEmpty then none
    let nsf := cols.length - ncf
    pure (fmtTable (byGroup Cell.nan ncf nsf (eval m) rows) ++ " " ++
          fmtTable (overall Cell.nan ncf (eval m) rows))
  | _ => none

end MetricPool
