/-
Argument plumbing of `make_derived_metric` / `_DerivedMetric` (`_make_derived_metric.py:28-92`).
Core Lean only.  The validation steps of `__init__`, the routing chain of `__call__` and the default
`sample_param_names` are read from the GENERATED `Generated/DerivedSpec.lean`; the reserved names, the
transform options and the transform ↦ MetricFrame-method dispatch from `Generated/FairnessSpec.lean`.

`__init__(metric, transform, sample_param_names)`: each failed validation step raises ValueError
(`inspect.signature` of a non-callable would raise TypeError, which is why the order of the steps is
lifted).  `__call__(y_true, y_pred, *, sensitive_features, **other_params)`: every extra keyword goes to
exactly one of three dicts — sample parameters (sliced per group by MetricFrame), transform parameters
(`method=`), or parameters bound to the metric with `functools.partial` — then ONE MetricFrame is built
and the aggregate selected by `transform` is returned.

The metric family used by the correspondence is "scale × weighted mean prediction" with the signature
`(y_true, y_pred, sample_weight=None, scale=1.0)` or `(y_true, y_pred, **kw)`; `MetricInfo` records what
`_DerivedMetric` can observe of the callable.
-/
import FairModel.Model.Fairness
import FairModel.Generated.DerivedSpec

namespace Derived
open Frame Aggregate MetricPool Fairness

/-- what `_DerivedMetric` can observe of the `metric` object -/
structure MetricInfo where
  callable : Bool
  /-- has a `__name__` (plain functions; not `functools.partial` objects or callable instances) -/
  hasName : Bool
  /-- keyword parameters it accepts besides y_true, y_pred (= names in `inspect.signature`) -/
  sigParams : List String
  /-- takes `**kwargs` -/
  acceptsAny : Bool
deriving Repr

inductive KwVal where
  | col (xs : List Rat)      -- one value per sample
  | num (q : Rat)
  | str (s : String)
deriving Repr

/-- observable outcome of a call -/
inductive Out where
  | value (x : XR)
  | valueError | typeError | attributeError
deriving Repr, DecidableEq

def Out.fmt : Out → String
  | .value x => "value:" ++ x.fmt
  | .valueError => "ValueError" | .typeError => "TypeError" | .attributeError => "AttributeError"

structure Made where
  transform : String
  spn : List String
deriving Repr

/-- one validation step of `__init__`; `none` = the step itself blows up with a TypeError
    (`inspect.signature` of a non-callable) -/
def checkStep (mi : MetricInfo) (transform : String) (step : String) : Option Bool :=
  if step = "callable" then some mi.callable
  else if step = "signature" then (if mi.callable then some true else none)
  else if step = "reserved_in_signature" then
    if mi.callable then some (FairnessSpec.parametersForTransforms.all (fun p => !(mi.sigParams.contains p))) else none
  else if step = "transform_option" then some (FairnessSpec.transformOptions.contains transform)
  else some false

def runChecks (mi : MetricInfo) (transform : String) : List String → Option Out
  | [] => none
  | s :: rest =>
    match checkStep mi transform s with
    | none => some .typeError
    | some false => some .valueError
    | some true => runChecks mi transform rest

/-- `make_derived_metric(metric=, transform=, sample_param_names=)`; `spn = none` is Python's `None` -/
def make (mi : MetricInfo) (transform : String) (spn : Option (List String)) : Except Out Made :=
  match runChecks mi transform DerivedSpec.initChecks with
  | some e => .error e
  | none => .ok ⟨transform, spn.getD []⟩

def inCollection (coll : String) (spn : List String) (k : String) : Bool :=
  if coll = "sample_param_names" then spn.contains k
  else if coll = "parameters_for_transforms" then FairnessSpec.parametersForTransforms.contains k
  else false

/-- destination dict of keyword `k`: "sample" | "transform" | "bound" -/
def route (spn : List String) (k : String) : String :=
  match DerivedSpec.routeChain.find? (fun c => inCollection c.1 spn k) with
  | some c => c.2
  | none => DerivedSpec.routeDefault

def lookupKw (kw : List (String × KwVal)) (dest : String) (spn : List String) (k : String) : Option KwVal :=
  (kw.find? (fun e => e.1 == k && route spn e.1 == dest)).map (·.2)

/-- all rows carry the same sensitive-feature tuple (then a by_group slice is the whole data) -/
def singleGroup (cols : List (List Level)) : Bool :=
  match cols with
  | [] => true
  | _ => cols.all (fun c => match c with | [] => true | a :: r => r.all (· == a))

def parseMethodStr (s : String) : Option Method :=
  if s = "between_groups" then some .between else if s = "to_overall" then some .toOverall else none

def ofRes : Res → Out
  | .value x => .value x
  | .raised => .valueError

/-- the MetricFrame construction and the transform dispatch (lines 73-92): `meth` is the `method=`
    entry of `transform_parameters`, if any.  An unknown method string makes `difference` / `ratio`
    raise ValueError; `group_min` / `group_max` are called WITHOUT the transform parameters. -/
def finish (d : Made) (meth : Option KwVal) (nsf : Nat) (rows : List (Row Dat)) : Option Out := do
  let disp ← FairnessSpec.dispatch.find? (fun e => e.1 == d.transform)
  let k ← aggOfName disp.2.1
  if disp.2.2 then
    match meth with
    | none => pure (ofRes (run .meanpred k .between true nsf rows))
    | some (.str s) =>
      match parseMethodStr s with
      | none => pure .valueError
      | some m => pure (ofRes (run .meanpred k m true nsf rows))
    | some _ => none
  else pure (ofRes (run .meanpred k .between false nsf rows))

/-- `dm(y_true, y_pred, sensitive_features=cols, **kw)` for the metric family described above.
    `none` = outside the modelled inputs (e.g. a scalar passed as sample parameter).
    `strictName`: the metric's `__name__` is read without a fallback. -/
def callWith (strictName : Bool) (mi : MetricInfo) (d : Made) (kw : List (String × KwVal)) (ys ps : List Rat)
    (cols : List (List Level)) : Option Out := do
  -- line 68: `bound_fn_name = self._metric_fn.__name__` (strict) / `getattr(self._metric_fn, "__name__", ...)`
  if strictName && !mi.hasName then return .attributeError
  -- keywords that reach the metric function (sample parameters and bound parameters)
  let toMetric := kw.filter (fun e => route d.spn e.1 != "transform")
  if !mi.acceptsAny && toMetric.any (fun e => !(mi.sigParams.contains e.1)) then return .typeError
  let n := ys.length
  -- sample_weight
  let (w, lenErr) ← (match lookupKw kw "sample" d.spn "sample_weight", lookupKw kw "bound" d.spn "sample_weight" with
    | some (.col w), _ => some (w, false)
    | some _, _ => none
    | none, some (.col w) => some (w, !(singleGroup cols))      -- the whole array meets every slice
    | none, some _ => none
    | none, none => some (List.replicate n 1, false))
  if lenErr then return .valueError
  -- scale (bound scalar)
  let scale ← (match lookupKw kw "bound" d.spn "scale", lookupKw kw "sample" d.spn "scale" with
    | _, some _ => none
    | some (.num q), none => some q
    | some _, none => none
    | none, none => some 1)
  let rows ← MetricPool.mkRows 0 ys (ps.map (· * scale)) w (ys.map (fun _ => 0)) cols
  if rows.isEmpty then none
  finish d (lookupKw kw "transform" d.spn "method") cols.length rows

/-- the call under the name rule of the CURRENT source (`DerivedSpec.readsName`, lifted) -/
def call (mi : MetricInfo) (d : Made) (kw : List (String × KwVal)) (ys ps : List Rat)
    (cols : List (List Level)) : Option Out :=
  callWith DerivedSpec.readsName mi d kw ys ps cols

/-! ### driver glue -/

def parseOptStrs (s : String) : Option (Option (List String)) :=
  if s = "none" then some none else (Proto.parseStrs s).map some

/-- op: `derived.call <callable> <hasName> <acceptsAny> <sigParams> <transform> <spn|none>
         <sample_weight rats|x> <scale rat|x> <method str|x> <extra name|x> <ys> <ps> <sf column>+`
    output: `make:<Error>` if the constructor raises, else the outcome of the call -/
def handle (toks : List String) : Option String :=
  match toks with
  | "derived.call" :: cal :: hn :: aa :: sig :: tr :: spn :: sw :: sc :: me :: ex :: ys :: ps :: cols => do
    let mi : MetricInfo := ⟨← Proto.parseBool cal, ← Proto.parseBool hn, ← Proto.parseStrs sig, ← Proto.parseBool aa⟩
    let tr ← Proto.parseStr tr
    let spn ← parseOptStrs spn
    let ys ← Proto.parseRats ys
    let ps ← Proto.parseRats ps
    let cols ← cols.mapM Proto.parseStrs
    if cols.isEmpty then none
    let mut kw : List (String × KwVal) := []
    if sw ≠ "x" then kw := kw ++ [("sample_weight", .col (← Proto.parseRats sw))]
    if sc ≠ "x" then kw := kw ++ [("scale", .num (← Proto.parseRat sc))]
    if me ≠ "x" then kw := kw ++ [("method", .str (← Proto.parseStr me))]
    if ex ≠ "x" then kw := kw ++ [(← Proto.parseStr ex, .num 0)]
    match make mi tr spn with
    | .error e => pure ("make:" ++ e.fmt)
    | .ok d => (call mi d kw ys ps cols).map Out.fmt
  | _ => none

end Derived
