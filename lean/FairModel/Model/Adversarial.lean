/-
Model of one `train_step` of fairlearn/adversarial/_pytorch_engine.py (and, structurally,
_tensorflow_engine.py): the per-tensor normalise / project / combine rule and the optimiser steps
(core Lean only).

A parameter tensor is a matrix `Mat = List (List Rat)` (a 1-d tensor such as a bias is the single-row
matrix `[v]`, which is how `torch.inner` treats it) or, flattened, a `Vec = List Rat`.
The two gradients `dLP/dW`, `dLA/dW` and the adversary's gradient `dLA/dU` are INPUTS of the model
(autograd is trusted); plain SGD is `W - lr * g`.

Which inner product the engine uses (`InnerKind`), which norm normalises dLA/dW (`NormKind`), which `tiny` it adds
to the norm (`TinyKind`) and the per-coordinate arithmetic of the normalise/combine lines come from `Generated/AdvProjection.lean`,
which the translator regenerates from the Python source on every run.

Square roots do not exist in `Rat`: the model is the `‖b‖`-normalised form
`a - (<b,a> / <b,b>) b - alpha b` of the code's `a - <b/‖b‖, a> (b/‖b‖) - alpha b`; `engineGradRaw`
keeps the code's literal form with the norm as a parameter `nrm` (Lemmas prove both agree whenever
`nrm * nrm = <b,b>`, `nrm ≠ 0`, `tiny = 0`).  The `tiny` regulariser only matters when `b = 0`:
that branch is explicit (`none` = the NaN tensor the float32 arithmetic produces from 0/0).
-/
import FairModel.Model.Proto
import FairModel.Generated.AdvProjection

namespace Adversarial
open AdvProjection

abbrev Vec := List Rat
abbrev Mat := List (List Rat)

/-! ### flattened tensors -/

def dot : Vec → Vec → Rat
  | x :: xs, y :: ys => x * y + dot xs ys
  | _, _ => 0

def smul (c : Rat) (v : Vec) : Vec := v.map (fun x => c * x)
def vadd (a b : Vec) : Vec := List.zipWith (fun x y => x + y) a b
def vsub (a b : Vec) : Vec := List.zipWith (fun x y => x - y) a b

/-- `g = dLP/dW - proj_{dLA/dW}(dLP/dW) - alpha * dLA/dW` with `a = dLP/dW`, `b = dLA/dW` -/
def combine (a b : Vec) (α : Rat) : Vec :=
  vsub (vsub a (smul (dot b a / dot b b) b)) (smul α b)

/-- plain SGD (no momentum, no weight decay): `W ← W - lr * g` -/
def sgdStep (W g : Vec) (lr : Rat) : Vec := vsub W (smul lr g)

/-- what the harness observes: `(W_before - W_after) / lr` -/
def observed (W W' : Vec) (lr : Rat) : Vec := smul (1 / lr) (vsub W W')

/-! ### matrices -/

/-- Frobenius inner product: sum of the elementwise products -/
def frob : Mat → Mat → Rat
  | r :: rs, s :: ss => dot r s + frob rs ss
  | _, _ => 0

/-- `torch.sum(torch.inner(U, A))`: the sum over ALL pairs (i, j) of `<U_i, A_j>` -/
def sumInner (U A : Mat) : Rat := (U.map (fun u => (A.map (fun a => dot u a)).sum)).sum

def inner (k : InnerKind) (U A : Mat) : Rat :=
  match k with
  | .frobenius => frob U A
  | .sumInner => sumInner U A

def msmul (c : Rat) (M : Mat) : Mat := M.map (smul c)
def msub (A B : Mat) : Mat := List.zipWith vsub A B
def madd (A B : Mat) : Mat := List.zipWith vadd A B

def flat (M : Mat) : Vec := M.flatten

/-- same number of rows and equal row lengths, row by row -/
def sameShape : Mat → Mat → Bool
  | [], [] => true
  | r :: rs, s :: ss => r.length == s.length && sameShape rs ss
  | _, _ => false

/-- the normalised update with inner product `k`:  `A - (k(B, A) / <B,B>) B - alpha B` -/
def gradWith (k : InnerKind) (A B : Mat) (α : Rat) : Mat :=
  msub (msub A (msmul (inner k B A / frob B B) B)) (msmul α B)

/-! ### the norm that normalises dLA/dW (`NormKind`, lifted from the source)

`unit = B / ‖B‖ₙ`, `proj = <unit, A> = <B,A> / ‖B‖ₙ`, `proj · unit = (<B,A> / ‖B‖ₙ²) B`: only the SQUARE of the norm enters the
update, which is rational for all three kinds (`frobenius`: the sum of the squares itself, no square root needed). -/

def absR (x : Rat) : Rat := if x < 0 then -x else x
def maxR (x y : Rat) : Rat := if x < y then y else x

/-- sum of the absolute values of all entries -/
def l1 (B : Mat) : Rat := ((flat B).map absR).sum

/-- largest absolute value of an entry (0 for the empty tensor) -/
def maxAbs (B : Mat) : Rat := ((flat B).map absR).foldl maxR 0

/-- the SQUARE of the norm of kind `n` of the whole tensor -/
def normSq (n : NormKind) (B : Mat) : Rat :=
  match n with
  | .frobenius => frob B B
  | .l1Flat => l1 B * l1 B
  | .maxAbs => maxAbs B * maxAbs B

/-- the normalised update with inner product `k` and norm kind `n`:  `A - (k(B, A) / ‖B‖ₙ²) B - alpha B` -/
def gradWithN (k : InnerKind) (n : NormKind) (A B : Mat) (α : Rat) : Mat :=
  msub (msub A (msmul (inner k B A / normSq n B) B)) (msmul α B)

/-- One pass of the loop body with norm kind `n`.  The zero branch is `B = 0` (every one of the three norms vanishes exactly
    on the zero tensor: `Lemmas/AdvNorm.lean normSq_eq_zero_iff`). -/
def engineGradN (k : InnerKind) (n : NormKind) (t : TinyKind) (A B : Mat) (α : Rat) : Option Mat :=
  if frob B B = 0 then
    match t with
    | .float64 => none
    | .float32 => some A
  else some (gradWithN k n A B α)

/-- One pass of the loop body for one parameter tensor, as the engine computes it in float32:
    `none` is the all-NaN tensor (0/0: `dLA/dW = 0` and a `tiny` that vanishes in float32);
    with a `tiny` that survives, `unit = 0 / tiny = 0` and the update is `dLP/dW` itself. -/
def engineGrad (k : InnerKind) (t : TinyKind) (A B : Mat) (α : Rat) : Option Mat :=
  if frob B B = 0 then
    match t with
    | .float64 => none
    | .float32 => some A
  else some (gradWith k A B α)

/-- one row of the combine line, coordinate by coordinate (`grad` is the lifted expression) -/
def rowRaw (grad : Rat → Rat → Rat → Rat → Rat → Rat) (proj α : Rat) : Vec → Vec → Vec → Vec
  | a :: as, u :: us, b :: bs => grad a u b proj α :: rowRaw grad proj α as us bs
  | _, _, _ => []

def matRaw (grad : Rat → Rat → Rat → Rat → Rat → Rat) (proj α : Rat) : Mat → Mat → Mat → Mat
  | ra :: A, ru :: U, rb :: B => rowRaw grad proj α ra ru rb :: matRaw grad proj α A U B
  | _, _, _ => []

def unitMat (unit : Rat → Rat → Rat → Rat) (B : Mat) (nrm tiny : Rat) : Mat :=
  B.map (fun r => r.map (fun b => unit b nrm tiny))

/-- the code's literal form; `nrm` stands for `norm(dW_LA[i])`; `unit`/`grad` are the lifted expressions -/
def engineGradRaw (unit : Rat → Rat → Rat → Rat) (grad : Rat → Rat → Rat → Rat → Rat → Rat)
    (k : InnerKind) (A B : Mat) (α nrm tiny : Rat) : Mat :=
  let U := unitMat unit B nrm tiny
  matRaw grad (inner k U A) α A U B

/-- the loop body of each engine with ALL its lifted kinds (inner product, norm, regulariser) -/
def torchStep (A B : Mat) (α : Rat) : Option Mat := engineGradN torchInner torchNorm torchTiny A B α
def tfStep (A B : Mat) (α : Rat) : Option Mat := engineGradN tfInner tfNorm tfTiny A B α

/-- predictor parameter after the step -/
def predictorStep (eng : Mat → Mat → Rat → Option Mat) (W A B : Mat) (α lr : Rat) : Option Mat :=
  (eng A B α).map (fun G => msub W (msmul lr G))

/-- adversary parameter after the step: plain gradient of its own loss -/
def adversaryStep (U dU : Mat) (lr : Rat) : Mat := msub U (msmul lr dU)

/-! ### driver glue -/

def okShapes (Ms : List Mat) : Bool :=
  match Ms with
  | [] => true
  | M :: rest => rest.all (fun N => sameShape M N)

def fmtOpt : Option Mat → String
  | none => "nan"
  | some M => Proto.fmtMat M

def parseEngine (s : String) : Option (Mat → Mat → Rat → Option Mat) :=
  match s with
  | "torch" => some torchStep
  | "tf" => some tfStep
  | "ref" => some (fun A B α => some (gradWith .frobenius A B α))
  | "suminner" => some (fun A B α => engineGrad .sumInner .float32 A B α)
  | "l1" => some (fun A B α => engineGradN .frobenius .l1Flat .float32 A B α)
  | "maxabs" => some (fun A B α => engineGradN .frobenius .maxAbs .float32 A B α)
  | _ => none

/-- ops:
  `adv.grad <torch|tf|ref|suminner|l1|maxabs> <A> <B> <alpha>`       -> combined gradient matrix | `nan`
  `adv.step <torch|tf|ref|suminner|l1|maxabs> <W> <A> <B> <alpha> <lr>` -> new parameter matrix | `nan`
  `adv.sgd <U> <dU> <lr>`                                   -> new adversary parameter matrix
  `adv.combine <a> <b> <alpha>`                             -> flattened reference update (vector)
  `adv.inner <U> <A>`                                       -> `<frobenius> <sumInner> <flat dot>`
  `adv.kinds`                                               -> the lifted kinds of both engines
  `adv.normsq <B>`                                          -> `<frobenius²> <l1Flat²> <maxAbs²>` -/
def handle (toks : List String) : Option String :=
  match toks with
  | ["adv.grad", e, a, b, al] => do
    let e ← parseEngine e
    let A ← Proto.parseMat a
    let B ← Proto.parseMat b
    let al ← Proto.parseRat al
    if !sameShape A B || A.isEmpty then none else pure (fmtOpt (e A B al))
  | ["adv.step", e, w, a, b, al, lr] => do
    let e ← parseEngine e
    let W ← Proto.parseMat w
    let A ← Proto.parseMat a
    let B ← Proto.parseMat b
    let al ← Proto.parseRat al
    let lr ← Proto.parseRat lr
    if !okShapes [W, A, B] || W.isEmpty then none else pure (fmtOpt (predictorStep e W A B al lr))
  | ["adv.sgd", u, du, lr] => do
    let U ← Proto.parseMat u
    let dU ← Proto.parseMat du
    let lr ← Proto.parseRat lr
    if !sameShape U dU || U.isEmpty then none else pure (Proto.fmtMat (adversaryStep U dU lr))
  | ["adv.combine", a, b, al] => do
    let a ← Proto.parseRats a
    let b ← Proto.parseRats b
    let al ← Proto.parseRat al
    if a.length ≠ b.length || a.isEmpty then none else pure (Proto.fmtRats (combine a b al))
  | ["adv.inner", u, a] => do
    let U ← Proto.parseMat u
    let A ← Proto.parseMat a
    if !sameShape U A || U.isEmpty then none
    else pure (Proto.fmtRat (frob U A) ++ " " ++ Proto.fmtRat (sumInner U A) ++ " " ++ Proto.fmtRat (dot (flat U) (flat A)))
  | ["adv.kinds"] =>
    let f : InnerKind → String := fun k => match k with | .frobenius => "frobenius" | .sumInner => "suminner"
    let g : TinyKind → String := fun k => match k with | .float64 => "float64" | .float32 => "float32"
    let h : NormKind → String := fun k => match k with | .frobenius => "frobenius" | .l1Flat => "l1flat" | .maxAbs => "maxabs"
    some (s!"torch={f torchInner},{g torchTiny},{h torchNorm} tf={f tfInner},{g tfTiny},{h tfNorm}")
  | ["adv.normsq", b] => do
    let B ← Proto.parseMat b
    if B.isEmpty then none
    else pure (Proto.fmtRat (normSq .frobenius B) ++ " " ++ Proto.fmtRat (normSq .l1Flat B) ++ " " ++ Proto.fmtRat (normSq .maxAbs B))
  | _ => none

end Adversarial
