/-
Model for C11 (sample weights mean multiplicity), core Lean only.

What is modelled (fairlearn/metrics/_base_metrics.py, _metric_frame.py:942-967,
_annotated_metric_function.py:78-108, _disaggregated_result.py, _fairness_metrics.py):

* a data row carries a group key `g` (the harness maps the value of the sensitive feature
  order-preservingly to an integer), the two labels, a numeric prediction (for
  `mean_prediction`) and a weight;
* `sample_weight=None` / an omitted `sample_params` entry is the all-ones vector
  (`np.ones(len(...))` in `selection_rate` / `mean_prediction`, sklearn's default in
  `confusion_matrix`; `_construct_annotated_metric_function` skips `None` values) — `attach`;
* `MetricFrame` stores the weights as a column of the same frame as the rows and
  `groupby(...).apply` hands every metric the rows of one group *together with their weights* —
  `groupRows` filters whole rows, `byGroup` evaluates the metric on each group;
* the aggregates `difference` / `ratio` (`between_groups`, `to_overall`) are computed by
  `DisaggregatedResult` from the per-group values and the overall value only — `Frame`;
* the named fairness metrics are `difference`/`ratio` of the `selection_rate`,
  `true_positive_rate` and {tpr, fpr} frames.

The base metrics themselves are the ones of `Model/BaseMetrics.lean` (imported read-only).
-/
import FairModel.Model.BaseMetrics
import FairModel.Generated.AggregateSpec

namespace Weights
open BaseMetrics

structure WRow where
  g : Int
  yt : Int
  yp : Int
  pred : Rat
  w : Rat
deriving Repr, DecidableEq

def WRow.toRow (x : WRow) : Row := ⟨x.yt, x.yp, x.w⟩
def WRow.toPRow (x : WRow) : PRow := ⟨x.pred, x.w⟩

/-- the six metric functions that accept `sample_weight` -/
inductive Metric where
  | rate (k : Kind) (pos : Option Int)
  | sel (pos : Int)
  | meanPred
deriving Repr, DecidableEq

/-- `mean_prediction`; the empty input (numpy: 0/0 = nan with a warning) is outside the domain
    and reported as an error token instead of Lean's `0 / 0 = 0`. -/
def meanPred (rows : List PRow) : Except Err Rat :=
  if rows.isEmpty then .error .empty else .ok (meanPrediction rows)

def eval (m : Metric) (rows : List WRow) : Except Err Rat :=
  match m with
  | .rate k pos => rate k (rows.map WRow.toRow) pos
  | .sel pos => selectionRate (rows.map WRow.toRow) pos
  | .meanPred => meanPred (rows.map WRow.toPRow)

/-! ### the three ways of passing weights -/

/-- integer weight `k` attached to each row -/
def wWeighted (rows : List (WRow × Nat)) : List WRow :=
  rows.map (fun p => { p.1 with w := (p.2 : Rat) })

/-- each row physically repeated `k` times with unit weight -/
def wReplicate (rows : List (WRow × Nat)) : List WRow :=
  rows.flatMap (fun p => List.replicate p.2 { p.1 with w := 1 })

/-- all weights multiplied by `c` -/
def wScale (c : Rat) (rows : List WRow) : List WRow :=
  rows.map (fun x => { x with w := c * x.w })

/-- `sample_weight=None` (or no `sample_params` entry) is the all-ones vector -/
def weightsOr (n : Nat) (w : Option (List Rat)) : List Rat := w.getD (List.replicate n 1)

def zipRows : List Int → List Int → List Int → List Rat → List Rat → List WRow
  | g :: gs, a :: as, b :: bs, p :: ps, w :: ws => ⟨g, a, b, p, w⟩ :: zipRows gs as bs ps ws
  | _, _, _, _, _ => []

/-- build the rows of one call; `none` if the vectors have different lengths -/
def attach (g yt yp : List Int) (pred : List Rat) (w : Option (List Rat)) : Option (List WRow) :=
  let ws := weightsOr yt.length w
  if g.length = yt.length && yp.length = yt.length && pred.length = yt.length && ws.length = yt.length
  then some (zipRows g yt yp pred ws) else none

/-! ### grouping (MetricFrame.by_group) -/

/-- the rows of one group, weights included (`groupby(...).apply` slices whole rows) -/
def groupRows (key : Int) (rows : List WRow) : List WRow := rows.filter (fun x => x.g == key)

/-- the same selection on (row, multiplicity) pairs -/
def groupPairs (key : Int) (rows : List (WRow × Nat)) : List (WRow × Nat) :=
  rows.filter (fun p => p.1.g == key)

/-- sorted distinct group keys -/
def keys (rows : List WRow) : List Int := uniqueSorted (rows.map (·.g))

def byGroup (m : Metric) (rows : List WRow) : List (Int × Except Err Rat) :=
  (keys rows).map (fun k => (k, eval m (groupRows k rows)))

/-! ### aggregates (DisaggregatedResult.difference / ratio) as functions of the values -/

def rmin (a b : Rat) : Rat := if a ≤ b then a else b
def rmax (a b : Rat) : Rat := if a ≤ b then b else a
def rabs (a : Rat) : Rat := if a < 0 then -a else a

def minL : List Rat → Rat
  | [] => 0
  | x :: xs => xs.foldl rmin x

def maxL : List Rat → Rat
  | [] => 0
  | x :: xs => xs.foldl rmax x

/-- float division of two finite numbers -/
def xdiv (a b : Rat) : XR :=
  if b = 0 then (if a = 0 then .nan else if 0 < a then .pinf else .ninf) else .fin (a / b)

/-- `ratio_sub_one`: `1/x if x > 1 else x` (comparisons with NaN are false) -/
def subOne : XR → XR
  | .nan => .nan
  | .pinf => .fin 0
  | .ninf => .ninf
  | .fin q => if 1 < q then .fin (1 / q) else .fin q

/-- `a < b` on floats; false when either side is NaN -/
def xlt : XR → XR → Bool
  | .nan, _ => false
  | _, .nan => false
  | .ninf, .ninf => false
  | .ninf, _ => true
  | _, .ninf => false
  | .pinf, _ => false
  | .fin _, .pinf => true
  | .fin a, .fin b => a < b

/-- pandas `min()` with `skipna=True`; all-NaN (or empty) gives NaN -/
def xminSkip (l : List XR) : XR :=
  l.foldl (fun acc x =>
    match acc, x with
    | a, .nan => a
    | .nan, b => b
    | a, b => if xlt b a then b else a) .nan

/-- Python's builtin `min(iterable)` on floats: keeps the first element unless a later one
    compares smaller (so a leading NaN survives). -/
def pyMin : List XR → XR
  | [] => .nan
  | x :: xs => xs.foldl (fun acc y => if xlt y acc then y else acc) x

def xadd : XR → XR → XR
  | .nan, _ => .nan
  | _, .nan => .nan
  | .pinf, .ninf => .nan
  | .ninf, .pinf => .nan
  | .pinf, _ => .pinf
  | _, .pinf => .pinf
  | .ninf, _ => .ninf
  | _, .ninf => .ninf
  | .fin a, .fin b => .fin (a + b)

/-- pandas `mean()` with `skipna=True` -/
def xmeanSkip (l : List XR) : XR :=
  let l' := l.filter (fun x => x != XR.nan)
  if l'.isEmpty then .nan else
  match l'.foldl xadd (.fin 0) with
  | .fin s => .fin (s / l'.length)
  | o => o

structure Frame where
  keys : List Int
  byGroup : List Rat
  overall : Rat
  gmin : Rat
  gmax : Rat
  diffBetween : Rat
  diffOverall : Rat
  ratioBetween : XR
  ratioOverall : XR
deriving Repr, DecidableEq

/-- `apply_grouping("min" / "max")` on finite per-group values -/
def groupL : Grouping → List Rat → Rat
  | .min => minL
  | .max => maxL

/-- `ratios.min()` / `.max()` (NaN skipped) of the `to_overall` ratios -/
def xgroupSkip : Grouping → List XR → XR
  | .min => xminSkip
  | .max => Grouping.max.apply

/-- everything `MetricFrame` derives from the per-group values and the overall value.  WHICH extreme each aggregate takes
    (`difference`: `(mf - subtrahend).abs().max()` with subtrahend `apply_grouping("min")` resp. the overall value;
    `ratio`: `apply_grouping("min") / apply_grouping("max")` resp. `ratios.min()`) is read from
    `Generated/AggregateSpec.lean` (lifter `aggregate.py`); `C11.src_aggregate_composition` is the closed form on the
    pinned source -/
def aggregate (ks : List Int) (vals : List Rat) (ov : Rat) : Frame :=
  { keys := ks, byGroup := vals, overall := ov,
    gmin := minL vals, gmax := maxL vals,
    diffBetween := groupL AggregateSpec.diffAgg
      (vals.map (fun v => rabs (v - groupL AggregateSpec.diffBetweenSubtrahend vals))),
    diffOverall := groupL AggregateSpec.diffAgg (vals.map (fun v => rabs (v - ov))),
    ratioBetween := xdiv (groupL AggregateSpec.ratioBetweenNum vals) (groupL AggregateSpec.ratioBetweenDen vals),
    ratioOverall := xgroupSkip AggregateSpec.ratioOverallAgg (vals.map (fun v => subOne (xdiv v ov))) }

def collect : List (Int × Except Err Rat) → Except Err (List Rat)
  | [] => .ok []
  | (_, .error e) :: _ => .error e
  | (_, .ok v) :: rest =>
    match collect rest with
    | .error e => .error e
    | .ok vs => .ok (v :: vs)

/-- `MetricFrame(metrics=m, sample_params={"sample_weight": w}, sensitive_features=g)`:
    an error in any group (or overall) makes the constructor raise. -/
def frame (m : Metric) (rows : List WRow) : Except Err Frame :=
  match eval m rows with
  | .error e => .error e
  | .ok ov =>
    match collect (byGroup m rows) with
    | .error e => .error e
    | .ok vals => .ok (aggregate (keys rows) vals ov)

/-! ### named fairness metrics (_fairness_metrics.py) -/

inductive Method where | between | overall
deriving Repr, DecidableEq

inductive Agg where | worst | mean
deriving Repr, DecidableEq

def Frame.diff (f : Frame) : Method → Rat
  | .between => f.diffBetween
  | .overall => f.diffOverall

def Frame.ratio (f : Frame) : Method → XR
  | .between => f.ratioBetween
  | .overall => f.ratioOverall

def selMetric : Metric := .sel 1
def tprMetric : Metric := .rate .tpr none
def fprMetric : Metric := .rate .fpr none

def dpDifference (me : Method) (rows : List WRow) : Except Err Rat :=
  (frame selMetric rows).map (·.diff me)

def dpRatio (me : Method) (rows : List WRow) : Except Err XR :=
  (frame selMetric rows).map (·.ratio me)

def eoppDifference (me : Method) (rows : List WRow) : Except Err Rat :=
  (frame tprMetric rows).map (·.diff me)

def eoppRatio (me : Method) (rows : List WRow) : Except Err XR :=
  (frame tprMetric rows).map (·.ratio me)

/-- `max(eo.difference())` resp. `eo.difference().mean()` over the columns (tpr, fpr) -/
def eoDifference (me : Method) (ag : Agg) (rows : List WRow) : Except Err Rat :=
  match frame tprMetric rows, frame fprMetric rows with
  | .ok a, .ok b =>
    match ag with
    | .worst => .ok (rmax (a.diff me) (b.diff me))
    | .mean => .ok ((a.diff me + b.diff me) / 2)
  | .error e, _ => .error e
  | _, .error e => .error e

/-- `min(eo.ratio())` (Python builtin) resp. `eo.ratio().mean()` (pandas, NaN skipped) -/
def eoRatio (me : Method) (ag : Agg) (rows : List WRow) : Except Err XR :=
  match frame tprMetric rows, frame fprMetric rows with
  | .ok a, .ok b =>
    match ag with
    | .worst => .ok (pyMin [a.ratio me, b.ratio me])
    | .mean => .ok (xmeanSkip [a.ratio me, b.ratio me])
  | .error e, _ => .error e
  | _, .error e => .error e

/-! ### driver glue -/

def parseMetric (s pos : String) : Option Metric :=
  match s with
  | "sel" => (Proto.parseInt pos).map Metric.sel
  | "meanpred" => if pos = "none" then some .meanPred else none
  | _ => do
    let k ← parseKind s
    let p ← parsePos pos
    pure (.rate k p)

def parseMethod (s : String) : Option Method :=
  match s with
  | "between" => some .between | "overall" => some .overall | _ => none

def parseAgg (s : String) : Option Agg :=
  match s with
  | "worst" => some .worst | "mean" => some .mean | _ => none

def parseW (s : String) : Option (Option (List Rat)) :=
  if s = "none" then some none else (Proto.parseRats s).map some

/-- rows of one protocol line.  mode `w`: weights as given (`none` = omitted);
    mode `rep`: the weights must be natural numbers and every row is physically repeated. -/
def mkRows (mode g yt yp pred w : String) : Option (List WRow) := do
  let g ← Proto.parseInts g
  let yt ← Proto.parseInts yt
  let yp ← Proto.parseInts yp
  let pred ← Proto.parseRats pred
  match mode with
  | "w" =>
    let w ← parseW w
    let rows ← attach g yt yp pred w
    if rows.isEmpty then none else pure rows
  | "rep" =>
    let ks ← Proto.parseNats w
    let rows ← attach g yt yp pred none
    if ks.length ≠ rows.length || rows.isEmpty then none else pure (wReplicate (rows.zip ks))
  | _ => none

def fmtE {α} (f : α → String) : Except Err α → String
  | .ok v => f v
  | .error e => e.fmt

def Frame.fmt (f : Frame) : String :=
  " ".intercalate [Proto.fmtInts f.keys, Proto.fmtRats f.byGroup, Proto.fmtRat f.overall,
    Proto.fmtRat f.gmin, Proto.fmtRat f.gmax, Proto.fmtRat f.diffBetween, Proto.fmtRat f.diffOverall,
    f.ratioBetween.fmt, f.ratioOverall.fmt]

/-- ops (all prefixed `w.`):
  `w.metric <w|rep> <metric> <pos> <g> <yt> <yp> <pred> <weights|none>`       -> value | err
  `w.frame  <w|rep> <metric> <pos> <g> <yt> <yp> <pred> <weights|none>`       -> keys bygroup overall min max db do rb ro | err
  `w.named  <w|rep> <dpd|dpr|eoppd|eoppr|eod|eor> <between|overall> <worst|mean> <g> <yt> <yp> <pred> <weights|none>` -/
def handle (toks : List String) : Option String :=
  match toks with
  | ["w.metric", mode, m, pos, g, yt, yp, pred, w] => do
    let m ← parseMetric m pos
    let rows ← mkRows mode g yt yp pred w
    pure (fmtE Proto.fmtRat (eval m rows))
  | ["w.frame", mode, m, pos, g, yt, yp, pred, w] => do
    let m ← parseMetric m pos
    let rows ← mkRows mode g yt yp pred w
    pure (fmtE Frame.fmt (frame m rows))
  | ["w.named", mode, name, me, ag, g, yt, yp, pred, w] => do
    let me ← parseMethod me
    let ag ← parseAgg ag
    let rows ← mkRows mode g yt yp pred w
    match name with
    | "dpd" => pure (fmtE Proto.fmtRat (dpDifference me rows))
    | "dpr" => pure (fmtE XR.fmt (dpRatio me rows))
    | "eoppd" => pure (fmtE Proto.fmtRat (eoppDifference me rows))
    | "eoppr" => pure (fmtE XR.fmt (eoppRatio me rows))
    | "eod" => pure (fmtE Proto.fmtRat (eoDifference me ag rows))
    | "eor" => pure (fmtE XR.fmt (eoRatio me ag rows))
    | _ => none
  | _ => none

end Weights
