/-
Multi-metric MetricFrame (`metrics=` a dict of callables, each with its own `sample_params`
sub-dict) and the public accessors, on top of the GENERATED translation `Generated/FrameSrc.lean`
(`_apply_functions`, `create`, `apply_to_dataframe`, `AnnotatedMetricFunction.__call__`,
`_construct_annotated_metric_function`).  Core Lean only.

`all_data` is a table of named numeric columns (`FramePrims.AllData`: y_true, y_pred and one column
`f"{name}_{param_name}"` per non-None sample parameter, created in the order the constructor
creates them; a later assignment to an existing name shadows the earlier column, as
`all_data[col] = ...` overwrites it) plus the feature columns carried by the rows.  The payload of a
row is its ROW NUMBER; a metric function receives the slice of every column it asks for at the row
numbers of its group — exactly what `groupby(...).apply(apply_to_dataframe)` does.
-/
import FairModel.Generated.FrameSrc
import FairModel.Model.MetricPool

namespace FrameMulti
open Frame FramePrims

variable {γ : Type}

/-- one entry of `metrics=` with its entry of `sample_params=` -/
structure MetricSpec (γ : Type) where
  /-- the dict key (column name of the result); `func.__name__` for a bare callable -/
  name : String
  /-- the `name` the annotated function is constructed with: the dict key, `None` for a bare callable -/
  colPrefix : Option String
  /-- the metric: positional arrays (y_true, y_pred) and keyword arrays -/
  func : List (List Rat) → List (String × List Rat) → γ
  /-- `sample_params[name]`, in dict order; a `None` value is allowed (and skipped by the code) -/
  params : List (String × Option (List Rat))

/-- `AnnotatedMetricFunction` -/
structure Annotated (γ : Type) where
  name : String
  func : List (List Rat) → List (String × List Rat) → γ
  positional : List String
  mapping : List (String × String)

/-- `_construct_annotated_metric_function(func, name, sample_params, all_data)` -/
def construct (all_data : AllData) (m : MetricSpec γ) : AllData × Annotated γ :=
  let st := m.params.foldl (FrameSrc.construct_step m.colPrefix) (all_data, [])
  (st.1, ⟨m.name, m.func, FrameSrc.positional_argument_names, st.2⟩)

/-- `_get_annotated_metric_functions`: the metrics in dict order, all writing into the same `all_data` -/
def constructAll (base : AllData) (ms : List (MetricSpec γ)) : AllData × List (Annotated γ) :=
  ms.foldl (fun acc m => let r := construct acc.1 m; (r.1, acc.2 ++ [r.2])) (base, [])

/-- the annotated function as a function of the row numbers of a slice -/
def metricFn (all_data : AllData) (af : Annotated γ) : List Nat → γ :=
  fun idx => FrameSrc.annotated_call af.func af.positional af.mapping (sliceDF all_data idx)

/-- the dict handed to `apply_to_dataframe` -/
def fnDict (all_data : AllData) (afs : List (Annotated γ)) : List (String × (List Nat → γ)) :=
  afs.map (fun af => (af.name, metricFn all_data af))

/-- the rows of `all_data`: payload = row number -/
def mkRows (feats : List (List Level × List Level)) : List (Row Nat) :=
  (List.range feats.length).map (fun j => ⟨j, (feats.getD j ([], [])).1, (feats.getD j ([], [])).2⟩)

/-- `[y_true, y_pred]` columns (the hand-written form the lemmas are stated over; the lifted
    `FrameSrc.init_base_data` — what `pd.DataFrame.from_dict` in `MetricFrame.__init__` really builds — is what the
    driver evaluates, and `C01.src_base_data_eq_model` identifies the two) -/
def baseData (yt yp : List Rat) : AllData := [("y_true", yt), ("y_pred", yp)]

/-- a reindexed-in row of the result DataFrame: NaN in every metric column -/
def nanRow (nanv : γ) (afs : List (Annotated γ)) : List (String × γ) := afs.map (fun af => (af.name, nanv))

/-- `DisaggregatedResult.create(...).by_group` for a dict of metrics: index tuple -> (metric name -> value) -/
def byGroupFrame (nanv : γ) (ncf nsf : Nat) (base : AllData) (ms : List (MetricSpec γ))
    (rows : List (Row Nat)) : List (Key × List (String × γ)) :=
  let c := constructAll base ms
  FrameSrc.init_by_group (nanRow nanv c.2) rows
    (fun idx => FrameSrc.apply_to_dataframe idx (fnDict c.1 c.2)) nsf ncf

def overallFrame (nanv : γ) (ncf nsf : Nat) (base : AllData) (ms : List (MetricSpec γ))
    (rows : List (Row Nat)) : List (Key × List (String × γ)) :=
  let c := constructAll base ms
  FrameSrc.init_overall (nanRow nanv c.2) rows
    (fun idx => FrameSrc.apply_to_dataframe idx (fnDict c.1 c.2)) nsf ncf

/-- `by_group[name]`: one column of the result -/
def column (name : String) (t : List (Key × List (String × γ))) : List (Key × Option γ) :=
  t.map (fun p => (p.1, p.2.lookup name))

/-- the frame of ONE metric with exactly its own sample parameters (what C01 is about) -/
def singleByGroup (nanv : γ) (ncf nsf : Nat) (base : AllData) (m : MetricSpec γ)
    (rows : List (Row Nat)) : List (Key × γ) :=
  let c := construct base m
  FrameSrc.init_by_group nanv rows (metricFn c.1 c.2) nsf ncf

def singleOverall (nanv : γ) (ncf nsf : Nat) (base : AllData) (m : MetricSpec γ)
    (rows : List (Row Nat)) : List (Key × γ) :=
  let c := construct base m
  FrameSrc.init_overall nanv rows (metricFn c.1 c.2) nsf ncf

/-- the keyword arrays a metric must receive for the rows `idx`: its own non-None parameters, sliced -/
def ownKwargs (m : MetricSpec γ) (idx : List Nat) : List (String × List Rat) :=
  m.params.filterMap (fun p => p.2.map (fun v => (p.1, idx.map (fun j => v.getD j 0))))

/-- the (keyword, values) pairs of a metric's own non-None parameters -/
def ownVals (m : MetricSpec γ) : List (String × List Rat) :=
  m.params.filterMap (fun p => p.2.map (fun v => (p.1, v)))

/-! ### the PRE-REPAIR naming rule (before commit 897f58c): `col_name = f"{name}_{param_name}"` without the
`while col_name in all_data.columns` loop.  Kept only for the counter-witnesses of finding F19. -/

def legacyStep (name : Option String) (state : AllData × List (String × String))
    (item : String × Option (List Rat)) : AllData × List (String × String) :=
  if item.2.isNone then state else
  let col_name := (pyFormat name) ++ "_" ++ item.1
  (setCol state.1 col_name (item.2.getD []), dictSet state.2 item.1 col_name)

def legacyConstruct (all_data : AllData) (m : MetricSpec γ) : AllData × Annotated γ :=
  let st := m.params.foldl (legacyStep m.colPrefix) (all_data, [])
  (st.1, ⟨m.name, m.func, FrameSrc.positional_argument_names, st.2⟩)

def legacyConstructAll (base : AllData) (ms : List (MetricSpec γ)) : AllData × List (Annotated γ) :=
  ms.foldl (fun acc m => let r := legacyConstruct acc.1 m; (r.1, acc.2 ++ [r.2])) (base, [])

/-! ### the public accessors `by_group` / `overall`: which pandas object the user gets -/

inductive ResultType where
  | dataFrame
  | series
  | scalar
  | invalid     -- the indexing operation does not apply to that object
deriving Repr, DecidableEq

def ResultType.fmt : ResultType → String
  | .dataFrame => "DataFrame"
  | .series => "Series"
  | .scalar => "scalar"
  | .invalid => "invalid"

/-- pandas type of `DisaggregatedResult.by_group` / `.overall`: a DataFrame (index tuples x metrics), except that
    `overall` without control features is the Series `apply_to_dataframe` returns (metric name -> value) -/
def underlyingType (isOverall hasControl : Bool) : ResultType :=
  if isOverall && !hasControl then .series else .dataFrame

/-- `.iloc[:, 0]` / `.iloc[0]` -/
def applyExtract : Extract → ResultType → ResultType
  | .whole, t => t
  | .column0, .dataFrame => .series
  | .entry0, .series => .scalar
  | .entry0, .dataFrame => .series
  | _, _ => .invalid

/-- type of `MetricFrame.by_group` (`bare` = a single callable was supplied; `self.control_levels` is truthy iff
    control features were given) -/
def byGroupType (bare hasControl : Bool) : ResultType :=
  applyExtract (FrameSrc.extract_result bare hasControl FrameSrc.by_group_no_control_levels) (underlyingType false hasControl)

/-- type of `MetricFrame.overall` -/
def overallType (bare hasControl : Bool) : ResultType :=
  applyExtract (FrameSrc.extract_result bare hasControl FrameSrc.overall_no_control_levels) (underlyingType true hasControl)

/-! ### driver glue: a dict of pool metrics -/

open MetricPool in
/-- a pool metric as a function of the positional arrays and the keyword arrays it is called with:
    `a` (else `sample_weight`, else ones) is the `p0` column, `ids` (else zeros) the `p1` column -/
def poolFunc (tag : MetricPool.Metric) : List (List Rat) → List (String × List Rat) → Cell :=
  fun pos kw =>
    let y := pos.getD 0 []
    let p := pos.getD 1 []
    let n := y.length
    let p0 := (((kw.lookup "a").orElse (fun _ => kw.lookup "sample_weight"))).getD (List.replicate n 1)
    let p1 := (kw.lookup "ids").getD (List.replicate n 0)
    MetricPool.eval tag ((y.zip (p.zip (p0.zip p1))).map (fun (a, b, c, d) => MetricPool.Dat.mk a b c d))

/-- `kwsum`: the sum of all keyword arrays (any keyword names) -/
def kwSum : List (List Rat) → List (String × List Rat) → Cell :=
  fun _ kw => Cell.ofRat ((kw.map (fun p => p.2.sum)).sum)

def parseFunc (s : String) : Option (List (List Rat) → List (String × List Rat) → Cell) :=
  if s = "kwsum" then some kwSum else (MetricPool.parseMetric s).map poolFunc

def parseParamVal (s : String) : Option (Option (List Rat)) :=
  if s = "none" then some none else (Proto.parseRats s).map some

/-- `<pname> <values|none>` × k -/
def parseParams : Nat → List String → Option (List (String × Option (List Rat)) × List String)
  | 0, rest => some ([], rest)
  | k + 1, pn :: pv :: rest => do
    let pn ← Proto.parseStr pn
    let pv ← parseParamVal pv
    let (ps, rest') ← parseParams k rest
    pure ((pn, pv) :: ps, rest')
  | _, _ => none

/-- `<name> <prefix|none> <tag> <k> params` × m ; prefix `none` = bare callable (`name=None`) -/
def parseSpecs : Nat → List String → Option (List (MetricSpec Cell) × List String)
  | 0, rest => some ([], rest)
  | m + 1, nm :: pre :: tag :: k :: rest => do
    let nm ← Proto.parseStr nm
    let pre ← if pre = "none" then some none else (Proto.parseStr pre).map some
    let f ← parseFunc tag
    let k ← Proto.parseNat k
    let (ps, rest') ← parseParams k rest
    let (ms, rest'') ← parseSpecs m rest'
    pure (⟨nm, pre, f, ps⟩ :: ms, rest'')
  | _, _ => none

def fmtOptCells (cs : List (Option Cell)) : String :=
  if cs.isEmpty then "none" else ",".intercalate (cs.map (fun c => match c with | some c => c.fmt | none => "missing"))

/-- op: `fm.eval <ncf> <ys> <preds> <m> (<name> <prefix|none> <tag> <k> (<pname> <values|none>)^k)^m <column>*`
    (control columns first, at least one sensitive column).  Output:
    `<by_group keys> <overall keys> (<name> <by_group cells> <overall cells>)^m` -/
def handle (toks : List String) : Option String :=
  match toks with
  | "fm.eval" :: ncf :: ys :: ps :: m :: rest => do
    let ncf ← Proto.parseNat ncf
    let ys ← Proto.parseRats ys
    let ps ← Proto.parseRats ps
    let m ← Proto.parseNat m
    let (specs, cols) ← parseSpecs m rest
    let cols ← cols.mapM Proto.parseStrs
    if cols.length ≤ ncf || ys.length ≠ ps.length || ys.isEmpty then none
    let feats ← MetricPool.rowFeatures ys.length cols
    let rows := mkRows (feats.map (fun fs => (fs.take ncf, fs.drop ncf)))
    let nsf := cols.length - ncf
    let bg := byGroupFrame Cell.nan ncf nsf (FrameSrc.init_base_data ys ps) specs rows
    let ov := overallFrame Cell.nan ncf nsf (FrameSrc.init_base_data ys ps) specs rows
    let per := specs.map (fun s =>
      Proto.fmtStr s.name ++ " " ++ fmtOptCells ((column s.name bg).map (·.2)) ++ " " ++
        fmtOptCells ((column s.name ov).map (·.2)))
    let bare := specs.all (fun s => s.colPrefix.isNone)
    pure (" ".intercalate ([MetricPool.fmtKeys (bg.map (·.1)), MetricPool.fmtKeys (ov.map (·.1))] ++ per ++
      [(byGroupType bare (decide (0 < ncf))).fmt, (overallType bare (decide (0 < ncf))).fmt]))
  | _ => none

end FrameMulti
