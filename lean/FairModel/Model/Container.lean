/-
C12 — the glue between the user's containers and the positional models (core Lean only).

Model of what happens to ONE user-supplied argument of a fairlearn entry point before it is used together with the
other arguments: it has a container kind, pandas index labels (only meaningful for Series / DataFrame) and a payload
(the values by position).  It passes through a CONVERSION (`ContainerSites.Conv`, lifted from the source for every
argument of every entry point by `harness/lifters/containers.py`) and is then placed next to the other arguments in
one pandas frame with a RangeIndex of `n` rows — an operation that ALIGNS ON LABELS whenever what reaches it still
carries labels:

  * `np.asarray(x)`, `check_array(x)`, `x.values`, `x.to_numpy()`, `list(x)`, `x.reset_index(drop=True)`:
    labels dropped, the payload arrives by position;
  * `fresh` (an output of `_validate_and_reformat_input`): a Series with RangeIndex built from the payload — aligning
    it by label IS pairing by position (`C12.fresh_align_is_positional`);
  * `kind`: the raw argument inside an `isinstance(arg, list | np.ndarray)` branch;
  * `raw`: the raw argument: a Series / 1-column DataFrame keeps its labels and pandas pairs row `i` of the frame with
    the entry LABELLED `i` (NaN when there is none, `ValueError: cannot reindex on an axis with duplicate labels`
    when labels repeat).

Trusted (pandas semantics, checked by the correspondence op `cont.place` against real pandas on every generated
case): column assignment `frame[c] = series` reindexes the series to the frame's index.
-/
import FairModel.Model.Proto
import FairModel.Generated.ContainerSites

namespace Cont
open ContainerSites (Conv)

inductive Kind where
  | list | ndarray | series | frame | dict
deriving Repr, DecidableEq

/-- does a container of this kind carry index labels? -/
def Kind.labelled : Kind → Bool
  | .series => true
  | .frame => true
  | _ => false

/-- one argument as handed to the entry point -/
structure Arg where
  kind : Kind
  labels : List Int      -- pandas index labels (ignored for kinds without labels); strings are coded as ints ∉ 0..n-1
  payload : List Rat
deriving Repr

/-- what reaches the label-aligning operation -/
inductive Reach where
  | positional (vals : List Rat)
  | labelled (labels : List Int) (vals : List Rat)
deriving Repr, DecidableEq

/-- RangeIndex(n) -/
def rangeIndex (n : Nat) : List Int := (List.range n).map (fun (i : Nat) => (i : Int))

/-- the conversion step -/
def convert (c : Conv) (a : Arg) : Reach :=
  match c with
  | .raw | .kind => if a.kind.labelled then .labelled a.labels a.payload else .positional a.payload
  | .fresh => .labelled (rangeIndex a.payload.length) a.payload
  | .asarray | .values | .listOf | .resetIndex => .positional a.payload

/-- the same step as a function of the payload alone, for conversions that drop the labels -/
def convertP (c : Conv) (payload : List Rat) : Reach :=
  match c with
  | .fresh => .labelled (rangeIndex payload.length) payload
  | _ => .positional payload

/-- "this conversion of this argument drops the labels": every conversion except `raw`; `kind` only for the kinds
    its `isinstance` guard admits -/
def dropsLabels (c : Conv) (a : Arg) : Bool :=
  match c with
  | .raw => !a.kind.labelled
  | .kind => !a.kind.labelled
  | _ => true

inductive PlaceErr where
  | length      -- a positional column of the wrong length
  | dupLabels   -- "cannot reindex on an axis with duplicate labels"
deriving Repr, DecidableEq

/-- `frame[col] = x` for a frame with RangeIndex(n): row `i` gets the positional entry `i`, resp. the entry
    LABELLED `i` (`none` = NaN when there is no such label) -/
def place (n : Nat) : Reach → Except PlaceErr (List (Option Rat))
  | .positional vals => if vals.length = n then .ok (vals.map some) else .error .length
  | .labelled labels vals =>
    if labels.Nodup then .ok ((List.range n).map (fun (i : Nat) => vals[labels.idxOf (i : Int)]?))
    else .error .dupLabels

/-- all arguments of one entry point, each through its conversion, placed in one frame -/
def placeAll (n : Nat) : List Conv → List Arg → Except PlaceErr (List (List (Option Rat)))
  | c :: cs, a :: as =>
    match place n (convert c a), placeAll n cs as with
    | .ok x, .ok xs => .ok (x :: xs)
    | .error e, _ => .error e
    | _, .error e => .error e
  | _, _ => .ok []

/-- an entry point = conversions of its arguments + a function of the frame -/
def run {β : Type} (n : Nat) (convs : List Conv) (f : List (List (Option Rat)) → β) (args : List Arg) :
    Except PlaceErr β :=
  (placeAll n convs args).map f

/-- `_validate_and_reformat_input` on one of y / sensitive_features / control_features: the result is a FRESH Series
    (RangeIndex) over the same payload, whatever the kind and labels of the input -/
def validate (a : Arg) : Arg := { kind := .series, labels := rangeIndex a.payload.length, payload := a.payload }

/-! ### driver glue -/

def parseConv (n : Nat) : Option Conv :=
  match n with
  | 0 => some .asarray | 1 => some .values | 2 => some .listOf | 3 => some .resetIndex
  | 4 => some .fresh | 5 => some .kind | 6 => some .raw | _ => none

def parseKind (n : Nat) : Option Kind :=
  match n with
  | 0 => some .list | 1 => some .ndarray | 2 => some .series | 3 => some .frame | 4 => some .dict | _ => none

def parseIntMat (s : String) : Option (List (List Int)) :=
  if s = "-" then some [] else (s.splitOn ";").mapM Proto.parseInts

def fmtCol (c : List (Option Rat)) : String :=
  Proto.fmtList (fun (o : Option Rat) => match o with | none => "nan" | some q => Proto.fmtRat q) c

def zip3 : List Kind → List (List Int) → List (List Rat) → List Arg
  | k :: ks, l :: ls, p :: ps => ⟨k, l, p⟩ :: zip3 ks ls ps
  | _, _, _ => []

/-- ops:
  `cont.place <n> <conv codes> <kind codes> <labels, one row per argument ;-separated> <payloads ;-separated>`
       → the placed columns `;`-separated (`nan` = missing), or `err:length` / `err:dup`
  `cont.sites` → number of lifted sites, number of `raw` ones -/
def handle (toks : List String) : Option String :=
  match toks with
  | ["cont.place", n, convs, kinds, labels, payloads] => do
    let n ← Proto.parseNat n
    let convs ← (← Proto.parseNats convs).mapM parseConv
    let kinds ← (← Proto.parseNats kinds).mapM parseKind
    let labels ← parseIntMat labels
    let payloads ← Proto.parseMat payloads
    if convs.length ≠ kinds.length || kinds.length ≠ labels.length || labels.length ≠ payloads.length then none
    else
      match placeAll n convs (zip3 kinds labels payloads) with
      | .ok cols => pure (if cols.isEmpty then "-" else ";".intercalate (cols.map fmtCol))
      | .error .length => pure "err:length"
      | .error .dupLabels => pure "err:dup"
  | ["cont.sites"] =>
    pure (toString ContainerSites.sites.length ++ " " ++
      toString (ContainerSites.sites.filter (fun s => decide (s.conv = .raw))).length)
  | _ => none

end Cont
