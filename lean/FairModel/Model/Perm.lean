/-
C12 — definitions that only this property needs (core Lean only):

  * relabelling of feature values in the rows of the MetricFrame model (`mapCols`, `renCols`, `renAll`, `renSF`),
  * the six named fairness metrics of `fairlearn/metrics/_fairness_metrics.py` written directly on top of
    `Frame` + `MetricPool` + `Aggregate` (a `Model/Fairness.lean` is not part of this copy):
      demographic_parity_{difference,ratio}  = MetricFrame(selection_rate).difference/ratio(method)
      equal_opportunity_{difference,ratio}   = MetricFrame(true_positive_rate).difference/ratio(method)
      equalized_odds_{difference,ratio}      = max / min (Python builtins, agg="worst_case") or `.mean()`
                                               (agg="mean") over [tpr, fpr] of the difference / ratio
    all with `errors="coerce"` (the default of `MetricFrame.difference/ratio`) and no control features; WHICH base
    metric / builtin each function uses is read from `Generated/FairNamed.lean`, lifted from the source on every run,
  * the driver op `perm.fair`.
-/
import FairModel.Model.MetricPool
import FairModel.Model.Aggregate
import FairModel.Generated.FairNamed
import FairModel.Generated.PopulateSrc

namespace Perm
open Frame MetricPool Aggregate

variable {α : Type}

/-- column-wise relabelling of an index tuple: column `j` is relabelled by `σs j` -/
def mapCols (σs : Nat → Level → Level) : Key → Key
  | [] => []
  | a :: k => σs 0 a :: mapCols (fun j => σs (j + 1)) k

/-- relabel every feature value of a row; the columns are numbered as in the `by_group` index
    (control columns first), so `(renCols σs r).key = mapCols σs r.key` -/
def renCols (σs : Nat → Level → Level) (r : Row α) : Row α :=
  { r with cf := mapCols σs r.cf, sf := mapCols (fun j => σs (r.cf.length + j)) r.sf }

/-- one relabelling `σ` for all feature values -/
def renAll (σ : Level → Level) (r : Row α) : Row α := renCols (fun _ => σ) r
/-- relabel the sensitive-feature values only (`ncf` control columns stay as they are) -/
def renSF (ncf : Nat) (σ : Level → Level) (r : Row α) : Row α :=
  renCols (fun j => if j < ncf then id else σ) r

/-- the frame of one pool metric without control features (`nsf` sensitive columns) -/
def frameOf (m : Metric) (nsf : Nat) (rows : List (Row Dat)) : Tables := ofFrame 0 nsf (eval m) rows

/-- `MetricFrame.difference()` / `.ratio()` without control features is a scalar: the single entry -/
def scalarOf : Option (List (Key × XR)) → Option XR
  | some [(_, v)] => some v
  | _ => none

/-- the named metrics call `.difference(method=method)` / `.ratio(method=method)` WITHOUT `errors=`: the value used is the
    default of `MetricFrame.difference` / `MetricFrame.ratio`, lifted from the signature into `Generated/PopulateSrc.lean`
    (`differenceDefaultErrors` / `ratioDefaultErrors`; `"coerce"` in the pinned source: `C12.src_named_errors_default`) -/
def metricDifference (m : Metric) (meth : Method) (nsf : Nat) (rows : List (Row Dat)) : Option XR :=
  scalarOf (difference meth PopulateSrc.differenceDefaultErrors (frameOf m nsf rows))

def metricRatio (m : Metric) (meth : Method) (nsf : Nat) (rows : List (Row Dat)) : Option XR :=
  scalarOf (ratio meth PopulateSrc.ratioDefaultErrors (frameOf m nsf rows))

inductive Agg where
  | worst | mean
deriving Repr, DecidableEq

/-- the pool metric behind a base metric named in the source (`Generated/FairNamed.lean`) -/
def ofBase : FairNamed.Base → Metric
  | .selrate => .selrate
  | .tpr => .tpr
  | .fpr => .fpr

/-- Python's builtin `max` / `min` over the two-entry Series -/
def applyWorst : FairNamed.Worst → XR → XR → XR
  | .pymax => XR.pyMax2
  | .pymin => XR.pyMin2

def dpDifference := metricDifference (ofBase FairNamed.dpBase)
def dpRatio := metricRatio (ofBase FairNamed.dpBase)
def eoppDifference := metricDifference (ofBase FairNamed.eoppBase)
def eoppRatio := metricRatio (ofBase FairNamed.eoppBase)

/-- `max(eo.difference(method))` (Python builtin over the Series [tpr, fpr]) or `.mean()` -/
def eoddsDifference (meth : Method) (agg : Agg) (nsf : Nat) (rows : List (Row Dat)) : Option XR :=
  match metricDifference (ofBase FairNamed.eoddsFirst) meth nsf rows,
        metricDifference (ofBase FairNamed.eoddsSecond) meth nsf rows with
  | some a, some b =>
    some (match agg with | .worst => applyWorst FairNamed.eoddsDiffWorst a b | .mean => XR.meanSkip [a, b])
  | _, _ => none

/-- `min(eo.ratio(method))` or `.mean()` -/
def eoddsRatio (meth : Method) (agg : Agg) (nsf : Nat) (rows : List (Row Dat)) : Option XR :=
  match metricRatio (ofBase FairNamed.eoddsFirst) meth nsf rows,
        metricRatio (ofBase FairNamed.eoddsSecond) meth nsf rows with
  | some a, some b =>
    some (match agg with | .worst => applyWorst FairNamed.eoddsRatioWorst a b | .mean => XR.meanSkip [a, b])
  | _, _ => none

/-- all results in a fixed order: for method in (between, toOverall):
    dpDiff dpRatio eoppDiff eoppRatio eoddsDiff(worst) eoddsRatio(worst) eoddsDiff(mean) eoddsRatio(mean) -/
def allFair (nsf : Nat) (rows : List (Row Dat)) : List (Option XR) :=
  [Method.between, Method.toOverall].flatMap (fun meth =>
    [dpDifference meth nsf rows, dpRatio meth nsf rows, eoppDifference meth nsf rows, eoppRatio meth nsf rows,
     eoddsDifference meth .worst nsf rows, eoddsRatio meth .worst nsf rows,
     eoddsDifference meth .mean nsf rows, eoddsRatio meth .mean nsf rows])

def fmtOpt : Option XR → String
  | none => "err"
  | some x => x.fmt

/-- op: `perm.fair <ys> <preds> <weights> <sensitive column>+`  (labels/predictions in {0,1})
    output: 16 tokens, see `allFair` -/
def handle (toks : List String) : Option String :=
  match toks with
  | "perm.fair" :: ys :: ps :: ws :: cols => do
    let cols ← cols.mapM Proto.parseStrs
    if cols.isEmpty then none
    let ys ← Proto.parseRats ys
    let rows ← mkRows 0 ys (← Proto.parseRats ps) (← Proto.parseRats ws) (ys.map (fun _ => 0)) cols
    if rows.isEmpty then none
    pure (" ".intercalate ((allFair cols.length rows).map fmtOpt))
  | _ => none

end Perm
