/-
The bootstrap model of `Model/Bootstrap.lean` PARAMETRISED BY THE SOURCE: `Generated/BootstrapSrc.lean` is rewritten
from the Python `ast` of fairlearn/metrics/_bootstrap.py and _metric_frame.py on every run
(harness/lifters/bootstrap.py).  Here the lifted call shapes become

  * `drawCount n`, `validResample n idx`   how many positions one resample has / what a resample may look like
                                           (`data.sample(frac=.. | n=.., replace=..)`)
  * `loopCount B`, `seedIndex i`           how many resamples are drawn and which entry of the seed stream seeds sample i
  * `quantileBy m`                         numpy's quantile methods linear / lower / higher / nearest / midpoint on the
                                           sorted sample values; `quantileXRsrc frame` = the (nan)quantile the Series /
                                           DataFrame path really calls; `qsUsed` = the order the quantiles are passed in
  * `ciSrc`                                all `*_ci` results, as `Bootstrap.ci`, built from these pieces

`Properties/C18.lean` proves `ciSrc = ci`, `drawCount n = n`, … for the CURRENT generated values, so the theorems about
`Bootstrap.ci` hold of the code as lifted; a source edit changes the generated values and breaks (or re-proves) them.
Not modelled: pandas' `round(frac * n)` tie rule is taken as round-half-even; NumPy's RNG (resample positions are inputs).
Core Lean only.
-/
import FairModel.Model.Bootstrap
import FairModel.Generated.BootstrapSrc

namespace BootstrapSrc
open BaseMetrics Weights Bootstrap Generated.BootstrapSrc

/-! ### numpy quantile methods on an ascending list -/

def roundHalfEven (h : Rat) : Nat :=
  let f := h.floor
  let g := h - (f : Rat)
  if g < 1 / 2 then f.toNat
  else if 1 / 2 < g then (f + 1).toNat
  else if f % 2 = 0 then f.toNat else (f + 1).toNat

def quantileSortedBy (m : QMethod) (s : List Rat) (q : Rat) : Rat :=
  match m with
  | .linear => quantileSorted s q
  | .lower =>
    let h : Rat := ((s.length - 1 : Nat) : Rat) * q
    s.getD h.floor.toNat 0
  | .higher =>
    let h : Rat := ((s.length - 1 : Nat) : Rat) * q
    s.getD (min (-((-h).floor)).toNat (s.length - 1)) 0
  | .nearest =>
    let h : Rat := ((s.length - 1 : Nat) : Rat) * q
    s.getD (min (roundHalfEven h) (s.length - 1)) 0
  | .midpoint =>
    let h : Rat := ((s.length - 1 : Nat) : Rat) * q
    (s.getD h.floor.toNat 0 + s.getD (min (-((-h).floor)).toNat (s.length - 1)) 0) / 2

def quantileBy (m : QMethod) (xs : List Rat) (q : Rat) : Rat := quantileSortedBy m (sortR xs) q

/-- `np.quantile(.., method=m)` along the sample axis -/
def quantilePropBy (m : QMethod) (xs : List XR) (q : Rat) : Option XR :=
  if xs.isEmpty then none
  else if xs.any isNaN then some .nan
  else (finOnly xs).map (fun l => .fin (quantileBy m l q))

/-- `np.nanquantile(.., method=m)` along the sample axis -/
def quantileSkipBy (m : QMethod) (xs : List XR) (q : Rat) : Option XR :=
  let l := xs.filter (fun x => !isNaN x)
  if l.isEmpty then some .nan
  else (finOnly l).map (fun l => .fin (quantileBy m l q))

/-- the quantile call of the Series path (`frame = false`) / the DataFrame path (`frame = true`) as lifted -/
def quantileXRsrc (frame : Bool) (xs : List XR) (q : Rat) : Option XR :=
  if frame then (if frameSkipsNaN then quantileSkipBy frameMethod xs q else quantilePropBy frameMethod xs q)
  else (if seriesSkipsNaN then quantileSkipBy seriesMethod xs q else quantilePropBy seriesMethod xs q)

/-- the order in which the requested quantiles reach numpy (entry i of the result answers `(qsUsed qs)[i]`) -/
def qsUsed (o : QOrder) (qs : List Rat) : List Rat :=
  match o with
  | .asGiven => qs
  | .sorted => sortR qs
  | .reversed => qs.reverse

def ciOfSrc (frame : Bool) (samples : List XR) (qs : List Rat) : Option (List XR) :=
  (qsUsed (if frame then frameQOrder else seriesQOrder) qs).mapM (quantileXRsrc frame samples)

def byGroupCISrc (samples : List (Option Frame)) (qs : List Rat) : Option (List (List XR)) :=
  (ciKeys samples).mapM (fun key => ciOfSrc true (column (fKey key) samples) qs)

/-- without the index alignment the samples must all carry the same group keys (the code asserts it) -/
def sameKeys (samples : List (Option Frame)) : Bool :=
  samples.all (fun s => match s with
    | none => false
    | some fr => fr.keys == ciKeys samples)

/-- all `*_ci` results of one (control level of a) bootstrapped MetricFrame, from the lifted pieces -/
def ciSrc (frame : Bool) (m : BMetric) (rows : List WRow) (idxs : List (List Nat)) (qs : List Rat) : Option CI :=
  match samplesOf m rows idxs with
  | none => none
  | some samples =>
    if !frameAligned && !sameKeys samples then none else
    match ciOfSrc frame (column fOverall samples) qs, byGroupCISrc samples qs,
      ciOfSrc frame (column fMin samples) qs, ciOfSrc frame (column fMax samples) qs,
      ciOfSrc frame (column fDiffB samples) qs, ciOfSrc frame (column fDiffO samples) qs,
      ciOfSrc frame (column Frame.ratioBetween samples) qs, ciOfSrc frame (column Frame.ratioOverall samples) qs with
    | some ov, some bg, some mn, some mx, some db, some dO, some rb, some ro =>
      some { keys := ciKeys samples, overall := ov, byGroup := bg, gmin := mn, gmax := mx,
             diffBetween := db, diffOverall := dO, ratioBetween := rb, ratioOverall := ro }
    | _, _, _, _, _, _, _, _ => none

/-! ### the resampling plan -/

/-- number of positions `data.sample(..)` draws from n rows -/
def drawCount (n : Nat) : Nat :=
  match drawSize with
  | .frac f => roundHalfEven (f * (n : Rat))
  | .lenPlus k => ((n : Int) + k).toNat

def nodupB : List Nat → Bool
  | [] => true
  | x :: xs => !xs.contains x && nodupB xs

/-- what one resample of n rows may look like under the lifted call -/
def validResample (n : Nat) (idx : List Nat) : Bool :=
  idx.length == drawCount n && idx.all (fun i => i < n) && (sampleReplace || nodupB idx)

/-- number of resamples drawn for `n_samples = B` -/
def loopCount (B : Nat) : Nat := ((B : Int) + loopCountOffset).toNat

/-- which entry of the seed stream seeds resample i (`none` = the user's seed itself) -/
def seedIndex (i : Nat) : Option Nat :=
  match seedRule with
  | .perSample => some i
  | .fixed k => some k
  | .userSeed => none

/-! ### driver glue -/

def planLine (n B : Nat) : String :=
  let seeds := (List.range (loopCount B)).map (fun i => match seedIndex i with
    | some k => toString k
    | none => "u")
  "draw=" ++ toString (drawCount n) ++ " replace=" ++ (if sampleReplace then "1" else "0") ++
  " loops=" ++ toString (loopCount B) ++ " seeds=" ++ (if seeds.isEmpty then "-" else ",".intercalate seeds) ++
  " axis=" ++ toString sampleAxis ++ " ignore_index=" ++ (if sampleIgnoreIndex then "1" else "0") ++
  " stream=" ++ (if seedStreamSizeIsNSamples && nSamplesIsNBoot && randomStatePassed then "1" else "0")

/-- ops:
  `bootsrc.plan <n> <n_boot>`   -> draw= replace= loops= seeds= axis= ignore_index= stream=
  `bootsrc.ci <frame 0|1> <metric> <pos> <g> <yt> <yp> <pred> <w|none> <idxs> <qs>`   as `boot.ci`, from the lifted pieces -/
def handle (toks : List String) : Option String :=
  match toks with
  | ["bootsrc.plan", n, b] => do
    let n ← n.toNat?
    let b ← b.toNat?
    pure (planLine n b)
  | ["bootsrc.ci", skip, m, pos, g, yt, yp, pred, w, idxs, qs] => do
    let skip ← Proto.parseBool skip
    let m ← parseBMetric m pos
    let rows ← mkRows "w" g yt yp pred w
    let idxs ← parseIdxs idxs
    let qs ← Proto.parseRats qs
    if idxs.isEmpty || qs.isEmpty || qs.any (fun q => q ≤ 0 || 1 ≤ q) then none
    else match ciSrc skip m rows idxs qs with
      | some c => pure c.fmt
      | none => pure "unsupported"
  | _ => none

end BootstrapSrc
