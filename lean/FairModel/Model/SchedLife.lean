/-
Life cycle of the adversarial estimators around the schedule: which call (re-)initialises the models.
fairlearn/adversarial/_adversarial_mitigation.py: `fit` (:425 `reinitialize = …`), `partial_fit` (:564-575),
`_validate_input` (:690-708 is_fitted probe, `__setup`, `classes_` latch), `__sklearn_is_fitted__` (:846),
`_raw_predict` (:594).  The conditions are the ones LIFTED into `Generated/AdvScheduleSrc.lean`
(`fitReinit`, `partialFitFirstCall`, `partialFitSetsClasses`, `setupWhen`, `rawPredictChecksFitted`,
`fitValidatesBeforeReject`); the schedule of `fit` is `SchedL.fitSrc`.

Two latches: `hasClasses` = `hasattr(self, "classes_")`, `isSetup` = `hasattr(self, "_is_setup")`.
`__setup` builds a NEW backend engine with newly initialised models: `init g` is the model of the g-th engine
(a parameter: initialisation depends on the constructor arguments / random_state only).
Core Lean only.
-/
import FairModel.Model.SchedLifted

namespace SchedLife
open SchedL

structure Est (σ : Type) where
  hasClasses : Bool
  isSetup : Bool
  /-- the models of `backendEngine_` (none: no engine yet) -/
  model : Option σ
  /-- number of engines constructed so far -/
  gen : Nat
  /-- `n_iter_` (none: attribute absent) -/
  nIter : Option Int

/-- a newly constructed estimator -/
def fresh {σ : Type} : Est σ := ⟨false, false, none, 0, none⟩

inductive Res where
  | ok
  /-- sklearn `NotFittedError` -/
  | notFitted
  /-- `ValueError` (epochs and max_iter both unset) -/
  | valueError
  /-- anything else (e.g. AttributeError: no backendEngine_) -/
  | broken
deriving DecidableEq, Repr

/-- `_validate_input(X, y, A, reinitialize)`: set up when not fitted or asked to; then latch `classes_` -/
def validateInput {σ : Type} (init : Nat → σ) (e : Est σ) (reinit : Bool) : Est σ :=
  let e1 := if AdvScheduleSrc.setupWhen e.isSetup reinit
    then { e with isSetup := true, model := some (init (e.gen + 1)), gen := e.gen + 1 } else e
  { e1 with hasClasses := true }

def fit {σ : Type} (init : Nat → σ) (ts : σ → Nat → Nat → σ) (e : Est σ) (n : Nat) (bs ep mi : Int) (warm : Bool)
    (cbs : List (Int → Bool)) : Est σ × Res :=
  if !AdvScheduleSrc.fitValidatesBeforeReject && AdvScheduleSrc.cfg.rejects ep mi then (e, .valueError) else
  let e1 := validateInput init e (AdvScheduleSrc.fitReinit e.hasClasses warm)
  match e1.model with
  | none => (e1, .broken)
  | some m0 =>
    match fitSrc n bs ep mi cbs ts m0 with
    | none => (e1, .valueError)
    | some st => ({ e1 with model := some st.state, nIter := some st.nIter }, .ok)

def trainTimes {σ : Type} (ts : σ → Nat → Nat → σ) (lo hi : Nat) : Nat → σ → σ
  | 0, m => m
  | k + 1, m => trainTimes ts lo hi k (ts m lo hi)

def partialFit {σ : Type} (init : Nat → σ) (ts : σ → Nat → Nat → σ) (e : Est σ) (lo hi : Nat) (classesGiven : Bool) :
    Est σ × Res :=
  let first := AdvScheduleSrc.partialFitFirstCall e.hasClasses
  let e0 := if AdvScheduleSrc.partialFitSetsClasses first classesGiven then { e with hasClasses := true } else e
  let e1 := validateInput init e0 first
  match e1.model with
  | none => (e1, .broken)
  | some m => ({ e1 with model := some (trainTimes ts lo hi AdvScheduleSrc.partialFitTrainSteps m) }, .ok)

def predict {σ : Type} (e : Est σ) : Res :=
  if AdvScheduleSrc.rawPredictChecksFitted && !e.isSetup then .notFitted
  else match e.model with
    | none => .broken
    | some _ => .ok

/-- the slices of `steps` issued one by one through `partial_fit` -/
def partialFitAll {σ : Type} (init : Nat → σ) (ts : σ → Nat → Nat → σ) (e : Est σ) (steps : List Schedule.Step) : Est σ :=
  steps.foldl (fun e s => (partialFit init ts e s.lo s.hi false).1) e

/-! ### driver glue -/

inductive Op where
  | fit (n : Nat) (bs ep mi : Int) (warm : Bool)
  | pfit (lo hi : Nat) (cg : Bool)
  | predict

def parseOp (s : String) : Option Op :=
  match s.splitOn ":" with
  | ["F", n, bs, ep, mi, w] => do
    let n ← Proto.parseNat n
    let bs ← parseSentinel bs
    let ep ← parseSentinel ep
    let mi ← parseSentinel mi
    let w ← Proto.parseBool w
    if n = 0 then none else pure (.fit n bs ep mi w)
  | ["P", lo, hi, cg] => do
    let lo ← Proto.parseNat lo
    let hi ← Proto.parseNat hi
    let cg ← Proto.parseBool cg
    pure (.pfit lo hi cg)
  | ["Q"] => some .predict
  | _ => none

def fmtRes : Res → String
  | .ok => "ok"
  | .notFitted => "notfitted"
  | .valueError => "valueerror"
  | .broken => "broken"

/-- the training state used by the driver: (generation of the engine, slices it was trained on) -/
abbrev Log := Nat × List (Nat × Nat)

def runOps (ops : List Op) : List String × Est Log :=
  ops.foldl (fun (acc : List String × Est Log) op =>
    let init : Nat → Log := fun g => (g, [])
    let ts : Log → Nat → Nat → Log := fun m lo hi => (m.1, m.2 ++ [(lo, hi)])
    let e := acc.2
    let r : Est Log × Res := match op with
      | .fit n bs ep mi w => fit init ts e n bs ep mi w []
      | .pfit lo hi cg => partialFit init ts e lo hi cg
      | .predict => (e, predict e)
    let e' := r.1
    let line := fmtRes r.2 ++ ":" ++ toString e'.gen ++ ":" ++
      (match e'.nIter with | none => "x" | some k => toString k) ++ ":" ++
      (match e'.model with | none => "x" | some m => toString m.1 ++ "/" ++ toString m.2.length)
    (acc.1 ++ [line], e')) ([], fresh)

/-- op: `schedlife.run <op> <op> ...` with ops `F:<n>:<bs>:<ep>:<mi>:<warm>`, `P:<lo>:<hi>:<classes given>`, `Q` (predict)
    -> per op `<result>:<engines built>:<n_iter_|x>:<engine of the current model>/<steps it has seen>`, then the slices
       the current model was trained on -/
def handle (toks : List String) : Option String :=
  match toks with
  | "schedlife.run" :: ops => do
    let ops ← ops.mapM parseOp
    if ops.isEmpty then none else
    let r := runOps ops
    let tail := match r.2.model with
      | none => "x"
      | some m => fmtPairs toString toString m.2
    pure (" ".intercalate r.1 ++ " " ++ tail)
  | _ => none

end SchedLife
