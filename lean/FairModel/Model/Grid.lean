/-
Model of fairlearn/reductions/_grid_search/_grid_generator.py and of the selection / relabelling
arithmetic of fairlearn/reductions/_grid_search/grid_search.py (core Lean only).

* `lattice negAllowed forceL1 m` mirrors `_GridGenerator.accumulate_integer_grid(0, m)`:
  a depth-first enumeration, coordinate by coordinate, of the integer points whose L1 norm is at
  most `m` (exactly `m` when `force_L1_norm`), coordinate `i` being allowed to be negative iff
  `neg_allowed[i]`.  The order of the result is the order of `self.accumulator`.
* `nUnits` is the `while True` search of `__init__`: the least `n` whose lattice has at least
  `grid_size` points.  (The float expression at `_grid_generator.py:80` only provides a starting
  point that is never above that least `n` — theorem `C09.lattice_length_le_cube`; the
  correspondence check confirms the implementation lands on the same `n`.)
* `grid` = first `grid_size` lattice points, scaled by `grid_limit / n_units`, split into
  positive and negative parts and mapped through `pos_basis` / `neg_basis`
  (`_grid = pos_basis.dot(pos_coefs) + neg_basis.dot(neg_coefs)`); the bases are inputs, given
  by ROWS (one pair of rows per constraint index entry, one column per basis vector),
  `grid_offset=None`.
* `tradeoff`, `argminFirst`: `loss_fct` and `losses.index(min(losses))` of `GridSearch.fit`.
* `relabel`, `weighted01`: `y_reduction = 1*(weights > 0)`, `weights = weights.abs()` and the
  weighted 0/1 error an exact cost-sensitive learner minimises.
-/
import FairModel.Model.Proto
import FairModel.Generated.GridSrc

namespace Grid

/-! ### integer lattice: closed form (the specification `srcLattice` below is proved equal to) -/

/-- `-m, …, -1` -/
def negVals (m : Nat) : List Int := (List.range m).reverse.map (fun (i : Nat) => -((i : Int) + 1))

/-- `0, …, m` -/
def nonnegVals (m : Nat) : List Int := (List.range (m + 1)).map (fun (i : Nat) => (i : Int))

/-- the `values` of `accumulate_integer_grid` for a coordinate that may (`neg`) or may not be
    negative, `last` = "this is the last coordinate and force_L1_norm is set", budget `m`. -/
def values (neg last : Bool) (m : Nat) : List Int :=
  if last then (if neg && decide (0 < m) then [-(m : Int), (m : Int)] else [(m : Int)])
  else if neg then negVals m ++ nonnegVals m
  else nonnegVals m

/-- `build_integer_grid(m)`; `negAllowed` has one entry per coordinate (`self.dim` of them). -/
def lattice : List Bool → Bool → Nat → List (List Int)
  | [], _, _ => [[]]
  | b :: bs, f, m =>
    (values b (bs.isEmpty && f) m).flatMap fun v => (lattice bs f (m - v.natAbs)).map (v :: ·)

/-! ### integer lattice: the recursion of the source, over the LIFTED expressions (`Generated/GridSrc.lean`) -/

/-- `_GridGenerator.accumulate_integer_grid(index, max_val)`: returns the entries appended to
    `self.accumulator` by this call (their coordinates from `index` on).  The recursion skeleton
    (`for current_value in values: self.entry[index] = current_value; recurse`) is checked by the lifter;
    the base-case test, the choice and contents of `values`, the next index and the remaining budget
    are the lifted expressions.  `fuel` bounds the recursion depth (`dim + 1` calls suffice). -/
def accumulate (dim : Nat) (na : List Bool) (force : Bool) : Nat → Int → Int → List (List Int)
  | 0, _, _ => []
  | fuel + 1, index, maxVal =>
    if GridSrc.atEnd index dim then [[]]
    else
      let neg := na.getD index.toNat false
      let vals := if GridSrc.lastForced index dim force then GridSrc.lastValues neg maxVal
                  else GridSrc.rangeValues neg maxVal
      vals.flatMap fun cur =>
        (accumulate dim na force fuel (GridSrc.nextIndex index maxVal cur)
          (GridSrc.budget index maxVal cur)).map (cur :: ·)

/-- `build_integer_grid(m)` as the source computes it; `Grid.srcLattice_eq`: it equals `lattice`. -/
def srcLattice (negAllowed : List Bool) (f : Bool) (m : Nat) : List (List Int) :=
  accumulate negAllowed.length negAllowed f (negAllowed.length + 1) GridSrc.startIndex m

/-- number of coordinates that are free once the L1 norm is forced -/
def trueDim (negAllowed : List Bool) (f : Bool) : Nat :=
  if f then negAllowed.length - 1 else negAllowed.length

/-- the `while True` loop: least `n` with `len(build_integer_grid(n)) >= grid_size`
    (searched up to `grid_size`, which always suffices when `trueDim ≥ 1`: `C09.nUnits_isSome`). -/
def nUnits (negAllowed : List Bool) (f : Bool) (gridSize : Nat) : Option Nat :=
  (List.range (gridSize + 1)).find?
    (fun n => GridSrc.enough ((srcLattice negAllowed f n).length : Nat) (gridSize : Nat))

/-- the `while True` loop itself, started from an arbitrary `n0` (the float estimate of the source is an
    INPUT here): `if enough: break` / `n_units = nextUnits n_units`; `fuel` bounds the iterations.
    `C09.searchFrom_eq_max`: the result is `max n0 (least sufficient radius)`. -/
def searchFrom (negAllowed : List Bool) (f : Bool) (gridSize : Nat) : Nat → Int → Option Int
  | 0, _ => none
  | fuel + 1, n =>
    if GridSrc.enough ((srcLattice negAllowed f n.toNat).length : Nat) (gridSize : Nat) then some n
    else searchFrom negAllowed f gridSize fuel (GridSrc.nextUnits n)

/-! ### scaling and basis map -/

def scaleCoefs (limit : Rat) (n : Nat) (v : List Int) : List Rat :=
  v.map (fun (c : Int) => (c : Rat) * GridSrc.scale limit (n : Nat))

/-- `pos_coefs[pos_coefs < 0] = 0` (lifted clip) -/
def posPart (q : Rat) : Rat := GridSrc.posClip q

/-- `neg_coefs = -pos_coefs ; neg_coefs[neg_coefs < 0] = 0` (lifted negation and clip; the source computes
    `neg_coefs` from the UNCLIPPED `pos_coefs` iff `GridSrc.negFromClipped = false`) -/
def negPart (q : Rat) : Rat :=
  GridSrc.negClip (GridSrc.negOf (if GridSrc.negFromClipped then GridSrc.posClip q else q))

def dot (a b : List Rat) : Rat := (List.zipWith (· * ·) a b).sum

/-- one multiplier vector: entry `k` is `pos_basis[k,:]·pos_coefs + neg_basis[k,:]·neg_coefs`;
    `rows[k] = (pos_basis[k,:], neg_basis[k,:])` -/
def lambdaOf (rows : List (List Rat × List Rat)) (coefs : List Rat) : List Rat :=
  rows.map (fun r => dot r.1 (coefs.map posPart) + dot r.2 (coefs.map negPart))

inductive GridErr where
  | noUnits     -- the search does not terminate (true dimension 0)
  | zeroDiv     -- n_units = 0 : `float(grid_limit) / n_units` raises ZeroDivisionError
deriving Repr, DecidableEq

/-- columns of `_GridGenerator.grid` in order, with the `n_units` that was used -/
def grid (negAllowed : List Bool) (f : Bool) (gridSize : Nat) (limit : Rat)
    (rows : List (List Rat × List Rat)) : Except GridErr (Nat × List (List Rat)) :=
  match nUnits negAllowed f gridSize with
  | none => .error .noUnits
  | some 0 => .error .zeroDiv
  | some (n + 1) =>
    .ok (n + 1, (GridSrc.truncate (srcLattice negAllowed f (n + 1)) (gridSize : Nat)).map
      (fun v => lambdaOf rows (scaleCoefs limit (n + 1) v)))

/-- the grid the loop produces when it is started at `n0` (`grid` = started at or below the least radius) -/
def gridFrom (negAllowed : List Bool) (f : Bool) (gridSize : Nat) (limit : Rat)
    (rows : List (List Rat × List Rat)) (n0 : Nat) : Except GridErr (Nat × List (List Rat)) :=
  match searchFrom negAllowed f gridSize (gridSize + 2) (n0 : Nat) with
  | none => .error .noUnits
  | some n =>
    if n ≤ 0 then .error .zeroDiv
    else .ok (n.toNat, (GridSrc.truncate (srcLattice negAllowed f n.toNat) (gridSize : Nat)).map
      (fun v => lambdaOf rows (scaleCoefs limit n.toNat v)))

/-- `self.grid = _grid.add(self.grid_offset, axis="index")`: every multiplier vector shifted by the offset
    (one entry per constraint row) -/
def addOffset (offset : List Rat) (g : List (List Rat)) : List (List Rat) :=
  g.map (fun lam => List.zipWith GridSrc.withOffset lam offset)

/-- unit vector `e_j` of length `d` -/
def unitVec (d j : Nat) : List Rat := (List.range d).map (fun i => if i = j then 1 else 0)

def zeroVec (d : Nat) : List Rat := List.replicate d 0

/-- "every basis column is a distinct unit vector", in row form: for every coordinate `j` there is a
    constraint row whose `pos_basis` row is `e_j` and whose `neg_basis` row is 0, and, when the
    coordinate may be negative, a row whose `neg_basis` row is `e_j` and whose `pos_basis` row is 0. -/
def unitBasis (negAllowed : List Bool) (rows : List (List Rat × List Rat)) : Bool :=
  let d := negAllowed.length
  (List.range d).all fun j =>
    rows.any (fun r => decide (r.1 = unitVec d j) && decide (r.2 = zeroVec d)) &&
    (!(negAllowed.getD j false) ||
      rows.any (fun r => decide (r.2 = unitVec d j) && decide (r.1 = zeroVec d)))

def vadd (a b : List Rat) : List Rat := List.zipWith (· + ·) a b

/-- column sums of a matrix given by rows of length `d` -/
def colSums (d : Nat) (rows : List (List Rat)) : List Rat := rows.foldr vadd (zeroVec d)

/-- shape of the two bases: rows of length `d`, non-negative entries, every column of either
    basis sums to at most 1 (a unit vector or zero) -/
def basisOK (d : Nat) (rows : List (List Rat × List Rat)) : Bool :=
  rows.all (fun r => decide (r.1.length = d) && decide (r.2.length = d) &&
    r.1.all (fun x => decide (0 ≤ x)) && r.2.all (fun x => decide (0 ≤ x))) &&
  (colSums d (rows.map (·.1))).all (fun x => decide (x ≤ 1)) &&
  (colSums d (rows.map (·.2))).all (fun x => decide (x ≤ 1))

/-! ### selection -/

def allSomeR : List (Option Rat) → Option (List Rat)
  | [] => some []
  | none :: _ => none
  | some a :: r => (allSomeR r).map (a :: ·)

def maxL (x : Rat) : List Rat → Rat
  | [] => x
  | y :: ys => maxL (if x < y then y else x) ys

def minL (x : Rat) : List Rat → Rat
  | [] => x
  | y :: ys => minL (if y < x then y else x) ys

/-- `objective_weight * objectives_[i] + constraint_weight * gammas_[i].max()` with
    `objective_weight = 1 - constraint_weight`; `none` for an empty gamma vector (pandas gives NaN) -/
def aggL (a : GridSrc.Agg) (x : Rat) (xs : List Rat) : Rat :=
  match a with
  | .max => maxL x xs
  | .min => minL x xs

def tradeoff (cw obj : Rat) (gam : List Rat) : Option Rat :=
  match gam with
  | [] => none
  | g :: gs => some (GridSrc.loss cw obj (aggL GridSrc.gammaAgg g gs))

/-- `losses.index(min(losses))` (which extreme: lifted; `list.index` = first position) -/
def argminFirst : List Rat → Option Nat
  | [] => none
  | x :: xs => some ((x :: xs).idxOf (aggL GridSrc.selAgg x xs))

/-- a RUNNING arg-min over the losses (`best, idx` updated when a strictly smaller loss is met):
    `C09.runningArgmin_eq`: the same index as `argminFirst` -/
def runningArgmin : List Rat → Option Nat
  | [] => none
  | x :: xs =>
    some ((xs.foldl (fun (st : Rat × Nat × Nat) y =>
      if y < st.1 then (y, st.2.2, st.2.2 + 1) else (st.1, st.2.1, st.2.2 + 1)) (x, 0, 1)).2.1)

/-- `GridSearch.fit`'s selection for a list of `(objective, gamma)` records -/
def select (cw : Rat) (recs : List (Rat × List Rat)) : Option Nat :=
  (allSomeR (recs.map (fun r => tradeoff cw r.1 r.2))).bind argminFirst

/-- `predict` / `predict_proba`: `self.predictors_[self.best_idx_].predict(X)` -/
def predictWith {P Y : Type} (run : P → Y) (preds : List P) (best : Nat) : Option Y :=
  (preds[best]?).map run

/-! ### relabelling and the learner's objective -/

/-- `y_reduction = 1 * (weights > 0)`, `weights = weights.abs()` (both lifted) -/
def relabel (w : List Rat) : List (Nat × Rat) :=
  w.map (fun x => ((GridSrc.relabelY x).toNat, GridSrc.relabelW x))

/-- the `else:` (regression) branch, lifted: the learner is fitted on the moment's own labels `y` with the signed weights
    (`GridSrc.regressionY` / `regressionW`) -/
def relabelReg (y w : List Rat) : List (Rat × Rat) :=
  List.zipWith (fun yi wi => (GridSrc.regressionY yi wi, GridSrc.regressionW wi)) y w

/-- what the estimator is fitted on at one grid point, for either kind of moment (`isMoment` = the constraints object is a
    `ClassificationMoment`; lifted test `GridSrc.isClassification`): (label, sample weight) per row -/
def fitData (isMoment : Bool) (y w : List Rat) : List (Rat × Rat) :=
  if GridSrc.isClassification isMoment then (relabel w).map (fun p => (((p.1 : Nat) : Rat), p.2)) else relabelReg y w

/-- `weights = constraints.signed_weights(lambda) [+ objective.signed_weights()]` row by row -/
def combineWeights (span : Bool) (w ow : List Rat) : List Rat :=
  List.zipWith (GridSrc.combine span) w ow

/-- weighted 0/1 error of the labeling `h` on relabelled / reweighted rows -/
def weighted01 : List (Nat × Rat) → List Nat → Rat
  | (y, w) :: rows, h :: hs => (if h = y then 0 else w) + weighted01 rows hs
  | _, _ => 0

/-! ### the loop of `GridSearch.fit` over the grid columns -/

/-- number of distinct labels of the relabelled data (`len(np.unique(y_reduction))`) -/
def nUnique (data : List (Nat × Rat)) : Nat := (data.map (·.1)).eraseDups.length

/-- the estimator trained at one grid point: `DummyClassifier(strategy="constant", constant=y_reduction_unique[0])`
    when the relabelled data has a single label (lifted test `GridSrc.useDummy`), else the base learner
    (a PARAMETER of the model: any function from the relabelled / reweighted rows to a labeling of the rows) -/
def trainAt (learner : List (Nat × Rat) → List Nat) (data : List (Nat × Rat)) : List Nat :=
  if GridSrc.useDummy (nUnique data : Nat) then data.map (fun _ => (data.map (·.1)).headD 0)
  else learner data

structure FitOut where
  preds : List (List Nat)       -- `predictors_` (their labelings of the training rows)
  objectives : List Rat         -- `objectives_`
  gammas : List (List Rat)      -- `gammas_` (one vector per predictor)
  best : Nat                    -- `best_idx_`
deriving Repr

/-- `for i in grid.columns:` weights = constraint weights [+ objective weights]; relabel; train; record the
    objective and the constraint violation OF THE TRAINED PREDICTOR; then select.  `cwOf` / `ow`: signed weights of
    the constraints for a multiplier vector and of the objective (C07's model, parameters here); `objOf` / `gamOf`:
    `objective.gamma(h)` and `constraints.gamma(h)` of a labeling (parameters). -/
def fitLoop (span : Bool) (cwOf : List Rat → List Rat) (ow : List Rat)
    (learner : List (Nat × Rat) → List Nat) (objOf : List Nat → Rat) (gamOf : List Nat → List Rat)
    (cw : Rat) (grid : List (List Rat)) : Option FitOut :=
  let preds := grid.map (fun lam => trainAt learner (relabel (combineWeights span (cwOf lam) ow)))
  let recs := preds.map (fun h => (objOf h, gamOf h))
  (select cw recs).map (fun b => ⟨preds, recs.map (·.1), recs.map (·.2), b⟩)

/-! ### driver glue -/

def parseBools (s : String) : Option (List Bool) := Proto.parseList Proto.parseBool s

def fmtIntMat (m : List (List Int)) : String :=
  if m.isEmpty then "-" else ";".intercalate (m.map Proto.fmtInts)

def allSome {α} : List (Option α) → Option (List α)
  | [] => some []
  | none :: _ => none
  | some a :: r => (allSome r).map (a :: ·)

/-- ops:
  `grid.lattice <negAllowed> <forceL1> <n>`                         → integer points `;`-separated
  `grid.lambdas <negAllowed> <forceL1> <gridSize> <limit> <posRows> <negRows>`
        → `<n_units> <unitBasis 0/1> <basisOK 0/1> <lambda vectors, one per grid column, ;-separated>` or `err:…`
  `grid.lambdas0 <negAllowed> <forceL1> <gridSize> <limit> <posRows> <negRows> <n0> <offset>`
        → `<n_units reached from n0> <noOvershoot 0/1> <lambda vectors shifted by the offset>` or `err:…`
  `grid.estimate <negAllowed> <forceL1> <gridSize> <n0>`           → `<noOvershoot 0/1> <least n> <n reached from n0>`
  `grid.select2 <cw> <objectives> <gammas>`  → `<select> <runningArgmin> <predictor index predict delegates to>`
  `grid.weights <span 0/1> <constraint weights> <objective weights>` → `<combined> <labels> <abs weights> <useDummy 0/1>`
  `grid.fitloop <span> <cw> <objective weights> <constraint weights per point ;> <learner labelings per point ;>
        <objective per point> <gammas per point ;>` → `<best_idx> <trained labelings ;> <objectives>`
  `grid.select <cw> <objectives> <gammas, one row per predictor>`   → `<best idx> <losses>`
  `grid.relabel <signed weights>`                                   → `<labels> <abs weights>`
  `grid.fitdata <ClassificationMoment 0/1> <y> <signed weights>`    → `<labels> <weights>` the estimator is fitted on
  `grid.cost <signed weights> <labeling per row>`                   → weighted 0/1 error -/
def handle (toks : List String) : Option String :=
  match toks with
  | ["grid.lattice", na, f, n] => do
    let na ← parseBools na
    let f ← Proto.parseBool f
    let n ← Proto.parseNat n
    pure (fmtIntMat (srcLattice na f n))
  | ["grid.lambdas", na, f, gs, lim, pr, nr] => do
    let na ← parseBools na
    let f ← Proto.parseBool f
    let gs ← Proto.parseNat gs
    let lim ← Proto.parseRat lim
    let pr ← Proto.parseMat pr
    let nr ← Proto.parseMat nr
    if pr.length ≠ nr.length || pr.any (·.length ≠ na.length) || nr.any (·.length ≠ na.length) then none
    else
      match grid na f gs lim (pr.zip nr) with
      | .error .noUnits => pure "err:nounits"
      | .error .zeroDiv => pure "err:zerodiv"
      | .ok (n, g) => pure (toString n ++ " " ++ Proto.fmtBool (unitBasis na (pr.zip nr)) ++ " " ++
          Proto.fmtBool (basisOK na.length (pr.zip nr)) ++ " " ++ Proto.fmtMat g)
  | ["grid.lambdas0", na, f, gs, lim, pr, nr, n0, off] => do
    let na ← parseBools na
    let f ← Proto.parseBool f
    let gs ← Proto.parseNat gs
    let lim ← Proto.parseRat lim
    let pr ← Proto.parseMat pr
    let nr ← Proto.parseMat nr
    let n0 ← Proto.parseNat n0
    let off ← Proto.parseRats off
    if pr.length ≠ nr.length || pr.any (·.length ≠ na.length) || nr.any (·.length ≠ na.length)
        || off.length ≠ pr.length then none
    else
      let ok := GridSrc.noOvershoot gs (na.filter id).length (trueDim na f) n0
      match gridFrom na f gs lim (pr.zip nr) n0 with
      | .error .noUnits => pure "err:nounits"
      | .error .zeroDiv => pure "err:zerodiv"
      | .ok (n, g) => pure (toString n ++ " " ++ Proto.fmtBool ok ++ " " ++ Proto.fmtMat (addOffset off g))
  | ["grid.estimate", na, f, gs, n0] => do
    let na ← parseBools na
    let f ← Proto.parseBool f
    let gs ← Proto.parseNat gs
    let n0 ← Proto.parseNat n0
    let ok := GridSrc.noOvershoot gs (na.filter id).length (trueDim na f) n0
    match nUnits na f gs, searchFrom na f gs (gs + 2) (n0 : Nat) with
    | some n, some m => pure (Proto.fmtBool ok ++ " " ++ toString n ++ " " ++ toString m)
    | _, _ => pure "err:nounits"
  | ["grid.select2", cw, objs, gams] => do
    let cw ← Proto.parseRat cw
    let objs ← Proto.parseRats objs
    let gams ← Proto.parseMat gams
    if objs.length ≠ gams.length then none
    else
      let i ← select cw (objs.zip gams)
      let losses ← allSomeR (List.zipWith (tradeoff cw) objs gams)
      let j ← runningArgmin losses
      let k ← predictWith id (List.range objs.length) i
      pure (toString i ++ " " ++ toString j ++ " " ++ toString k)
  | ["grid.fitdata", cls, y, w] => do
    let cls ← Proto.parseBool cls
    let y ← Proto.parseRats y
    let w ← Proto.parseRats w
    if y.length ≠ w.length then none
    else
      let d := fitData cls y w
      pure (Proto.fmtRats (d.map (·.1)) ++ " " ++ Proto.fmtRats (d.map (·.2)))
  | ["grid.weights", span, w, ow] => do
    let span ← Proto.parseBool span
    let w ← Proto.parseRats w
    let ow ← Proto.parseRats ow
    if w.length ≠ ow.length then none
    else
      let c := combineWeights span w ow
      let r := relabel c
      let uniq := (r.map (·.1)).eraseDups.length
      pure (Proto.fmtRats c ++ " " ++ Proto.fmtNats (r.map (·.1)) ++ " " ++ Proto.fmtRats (r.map (·.2)) ++ " " ++
        Proto.fmtBool (GridSrc.useDummy (uniq : Nat)))
  | ["grid.fitloop", span, cw, ow, cws, preds, objs, gams] => do
    -- the loop replayed on recorded data: `cws` = constraint weights per grid point, `preds` = the labelings the
    -- base learner returned per grid point (used as the learner), objs / gams = the oracle's records per labeling
    let span ← Proto.parseBool span
    let cw ← Proto.parseRat cw
    let ow ← Proto.parseRats ow
    let cws ← Proto.parseMat cws
    let preds ← (if preds = "-" then some [] else (preds.splitOn ";").mapM Proto.parseNats)
    let objs ← Proto.parseRats objs
    let gams ← Proto.parseMat gams
    if cws.length ≠ preds.length || preds.length ≠ objs.length || objs.length ≠ gams.length then none
    else
      -- multiplier vectors are represented by their position; the parameters look the recorded values up
      let idx := fun (lam : List Rat) => match lam with | [q] => q.num.toNat | _ => 0
      let grid := (List.range cws.length).map (fun (i : Nat) => [(i : Rat)])
      let table := (preds.zip (objs.zip gams))
      let look := fun (h : List Nat) => (table.find? (fun t => t.1 == h)).map (·.2)
      let learnerAt := fun (i : Nat) (_ : List (Nat × Rat)) => preds.getD i []
      -- the learner must be one function: it is looked up by the relabelled data it receives
      let datas := cws.map (fun c => relabel (combineWeights span c ow))
      let learner := fun (d : List (Nat × Rat)) =>
        match (datas.zip (List.range datas.length)).find? (fun t => t.1 == d) with
        | some t => learnerAt t.2 d
        | none => []
      match fitLoop span (fun lam => cws.getD (idx lam) []) ow learner
          (fun h => ((look h).map (·.1)).getD 0) (fun h => ((look h).map (·.2)).getD []) cw grid with
      | none => pure "err:select"
      | some out =>
        pure (toString out.best ++ " " ++ ";".intercalate (out.preds.map Proto.fmtNats) ++ " " ++
          Proto.fmtRats out.objectives)
  | ["grid.select", cw, objs, gams] => do
    let cw ← Proto.parseRat cw
    let objs ← Proto.parseRats objs
    let gams ← Proto.parseMat gams
    if objs.length ≠ gams.length then none
    else
      let losses ← allSome (List.zipWith (tradeoff cw) objs gams)
      let i ← argminFirst losses
      pure (toString i ++ " " ++ Proto.fmtRats losses)
  | ["grid.relabel", w] => do
    let w ← Proto.parseRats w
    let r := relabel w
    pure (Proto.fmtNats (r.map (·.1)) ++ " " ++ Proto.fmtRats (r.map (·.2)))
  | ["grid.cost", w, h] => do
    let w ← Proto.parseRats w
    let h ← Proto.parseNats h
    if w.length ≠ h.length then none else pure (Proto.fmtRat (weighted01 (relabel w) h))
  | _ => none

end Grid
