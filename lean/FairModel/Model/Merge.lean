/-
Model of `fairlearn/utils/_input_validation.py:_merge_columns` (core Lean only).

A feature value is the string numpy's `astype(str)` produced for the cell (`List Char` here; the driver
converts from/to `String`).  A row of a k-column table is a `List (List Char)` of length k.

  _join_names(names) = SEP.join([name.replace(o1, n1).replace(o2, n2) for name in names])

The separator and the replacement chain (characters *and* order) are not written here: they come from
`Generated/MergeConsts.lean`, lifted from the Python source on every run.  `escape` folds the chain in
the order the code applies it; Python's `str.replace(c, r)` for a one-character pattern `c` replaces
every occurrence of `c`, i.e. it is `flatMap`.

`split` is the decoder the code does not have; it exists to state (and prove) that the encoding is
collision free.  It scans with an explicit "previous character was the escape character" flag.
-/
import FairModel.Model.Proto
import FairModel.Generated.MergeConsts
import FairModel.Generated.MergeCallers

namespace Merge

abbrev Str := List Char

def sep : Char := MergeConsts.sep

/-- the escape character the decoder recognises (backslash) -/
def esc : Char := '\\'

/-- `s.replace(c, r)` for a one-character pattern -/
def replaceChar (c : Char) (r : Str) (s : Str) : Str :=
  s.flatMap (fun x => if x = c then r else [x])

/-- `name.replace(o1, n1).replace(o2, n2)...` in source order -/
def escape (s : Str) : Str :=
  MergeConsts.replacements.foldl (fun acc p => replaceChar p.1 p.2 acc) s

/-- `SEP.join(parts)` -/
def joinWith : List Str → Str
  | [] => []
  | [f] => f
  | f :: g :: rest => f ++ sep :: joinWith (g :: rest)

/-- `_join_names` -/
def joinNames (fs : List Str) : Str := joinWith (fs.map escape)

/-- `_merge_columns`: one merged key per row -/
def mergeColumns (rows : List (List Str)) : List Str := rows.map joinNames

/-- put a character in front of the first field -/
def consHead (c : Char) : List Str → List Str
  | [] => [[c]]
  | f :: fs => (c :: f) :: fs

/-- decoder; the flag says "the previous character was an unconsumed escape character" -/
def splitAux : Bool → Str → List Str
  | _, [] => [[]]
  | true, c :: rest => consHead c (splitAux false rest)
  | false, c :: rest =>
    if c = esc then splitAux true rest
    else if c = sep then [] :: splitAux false rest
    else consHead c (splitAux false rest)

def split (s : Str) : List Str := splitAux false s

/-! ### the callers: what `_validate_and_reformat_input` turns a feature table into -/

/-- a row's group identifier after validation -/
inductive GroupId where
  /-- single column: the cell itself, passed through `pd.Series(x.squeeze())` unchanged (the `Str` is the
      harness's canonical token of the VALUE: numbers that compare equal have the same token) -/
  | raw (v : Str)
  /-- several columns: the merged string of the stringified cells -/
  | merged (k : Str)
deriving Repr, DecidableEq

/-- merge iff the row has more than `threshold` columns (`len(shape) > 1 and shape[1] > threshold`) -/
def encodeWith (threshold : Nat) (r : List Str) : GroupId :=
  if r.length > threshold then .merged (joinNames r) else .raw (r.headD [])

/-- sensitive features / control features, each with its own lifted threshold (and the same `_merge_columns`) -/
def encodeSensitive (r : List Str) : GroupId := encodeWith MergeCallers.sfThreshold r
def encodeControl (r : List Str) : GroupId := encodeWith MergeCallers.cfThreshold r

/-! ### partitions of row positions -/

/-- positions (from `start`) of the entries equal to `k` -/
def positionsFrom {α} [DecidableEq α] (k : α) : Nat → List α → List Nat
  | _, [] => []
  | i, x :: xs => if x = k then i :: positionsFrom k (i + 1) xs else positionsFrom k (i + 1) xs

def positions {α} [DecidableEq α] (k : α) (l : List α) : List Nat := positionsFrom k 0 l

/-- distinct values in order of first occurrence -/
def distinct {α} [DecidableEq α] : List α → List α
  | [] => []
  | x :: xs => x :: (distinct xs).filter (· ≠ x)

/-- the partition of positions induced by equality of keys: one class per distinct key -/
def classes {α} [DecidableEq α] (keys : List α) : List (List Nat) :=
  (distinct keys).map (fun k => positions k keys)

/-- column `k` of a table (missing cells read as the empty string; tables are rectangular in use) -/
def column (rows : List (List Str)) (k : Nat) : List Str := rows.map (fun r => r.getD k [])

/-- per-column levels (MetricFrame: the distinct values of every sensitive feature column) -/
def columnLevels (rows : List (List Str)) (width : Nat) : List (List Str) :=
  (List.range width).map (fun k => distinct (column rows k))

/-- all combinations of one level per column (MetricFrame's intersectional index) -/
def combos : List (List Str) → List (List Str)
  | [] => [[]]
  | l :: ls => l.flatMap (fun x => (combos ls).map (x :: ·))

/-- MetricFrame's partition: the non-empty cells of the product of the column levels -/
def interCells (rows : List (List Str)) (width : Nat) : List (List Nat) :=
  ((combos (columnLevels rows width)).map (fun c => positions c rows)).filter (fun c => !c.isEmpty)

/-! ### driver glue -/

def toStr (s : String) : Str := s.toList
def ofStr (s : Str) : String := String.ofList s

/-- the merged key of one row of (stringified) cell values, on Lean `String`s -/
def mergeKey (r : List String) : String := ofStr (joinNames (r.map toStr))

/-- table token: rows separated by ';', each row a `Proto` string list -/
def parseTable (s : String) : Option (List (List Str)) :=
  if s = "-" then some []
  else ((s.splitOn ";").mapM Proto.parseStrs).map (fun t => t.map (fun r => r.map toStr))

def fmtClasses (cs : List (List Nat)) : String :=
  if cs.isEmpty then "-" else ";".intercalate (cs.map Proto.fmtNats)

/-- insertion sort of classes by their first element (canonical order for comparison) -/
def insertClass (c : List Nat) : List (List Nat) → List (List Nat)
  | [] => [c]
  | d :: ds => if c.headD 0 ≤ d.headD 0 then c :: d :: ds else d :: insertClass c ds

def sortClasses (cs : List (List Nat)) : List (List Nat) := cs.foldr insertClass []

def rectangular (rows : List (List Str)) (w : Nat) : Bool := rows.all (fun r => r.length == w)

/-- ops:
  `merge.join <row>`                     merged key of one row (string list) -> string
  `merge.split <string>`                 decoder -> string list
  `merge.keys <table>`                   merged keys of all rows -> string list
  `merge.classes <table>`                partition by merged key -> classes (sorted by first position)
  `merge.cells <width> <table>`          MetricFrame-style non-empty intersectional cells
  `merge.encode <sf|cf> <table>`         group ids after `_validate_and_reformat_input`: `r:<token>` | `m:<key>` per row
  `merge.encode.classes <sf|cf> <table>` partition by those ids -/
def handle (toks : List String) : Option String :=
  match toks with
  | ["merge.join", row] => do
    let r ← Proto.parseStrs row
    if r.isEmpty then none else pure (Proto.fmtStr (mergeKey r))
  | ["merge.split", s] => do
    let s ← Proto.parseStr s
    pure (Proto.fmtStrs ((split (toStr s)).map ofStr))
  | ["merge.keys", t] => do
    let rows ← parseTable t
    if rows.any (·.isEmpty) then none
    else pure (Proto.fmtStrs ((mergeColumns rows).map ofStr))
  | ["merge.classes", t] => do
    let rows ← parseTable t
    if rows.any (·.isEmpty) then none
    else pure (fmtClasses (sortClasses (classes (mergeColumns rows))))
  | ["merge.encode", which, t] => do
    let rows ← parseTable t
    let enc ← (match which with | "sf" => some encodeSensitive | "cf" => some encodeControl | _ => none)
    if rows.any (·.isEmpty) then none
    else pure (Proto.fmtList (fun g => match g with
      | GroupId.raw v => "r:" ++ Proto.fmtStr (ofStr v)
      | GroupId.merged k => "m:" ++ Proto.fmtStr (ofStr k)) (rows.map enc))
  | ["merge.encode.classes", which, t] => do
    let rows ← parseTable t
    let enc ← (match which with | "sf" => some encodeSensitive | "cf" => some encodeControl | _ => none)
    if rows.any (·.isEmpty) then none
    else pure (fmtClasses (sortClasses (classes (rows.map enc))))
  | ["merge.cells", w, t] => do
    let w ← Proto.parseNat w
    let rows ← parseTable t
    if w = 0 || !rectangular rows w then none
    else pure (fmtClasses (sortClasses (interCells rows w)))
  | _ => none

end Merge
