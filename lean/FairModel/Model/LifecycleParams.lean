/-
Life cycle with `set_params` (C19, histories that change a constructor parameter between fits).

sklearn's `BaseEstimator.set_params(p=v)` is `setattr(self, "p", v)` and nothing else: attributes that `__init__`
DERIVED from a parameter (GridSearch: `self.objective_weight = 1.0 - constraint_weight`, grid_search.py:103) keep the
value computed at construction, while `clone` re-runs `__init__` on the current parameters.  An estimator whose `fit`
reads such an attribute therefore fits with a mixture of the new parameter and the stale derived value (finding F5f:
GridSearch did, until /repo 2f54dd0; the attribute is still derived but no longer read).

  * `PSpec`   the property: `fit(D)` gives the model of a fresh estimator constructed with the CURRENT parameters;
  * `P rd`    an estimator with one tracked parameter and one attribute derived from it in `__init__`;
              `rd` = `fit` reads the derived attribute (the lifter's `staleAfterSetParams` is non-empty).
Values of the parameter are numbered (0 = the value given to the constructor).  Core Lean only.
-/
import FairModel.Model.Lifecycle
import FairModel.Generated.LifecycleSrc

namespace LifecycleParams
open Lifecycle

inductive POp where
  | fit (d : Data)
  | predict
  | pickle
  | clone
  | setParam (v : Nat)
deriving DecidableEq, Repr

/-- observable class: which fresh twin (data, parameter value) the estimator predicts like -/
inductive PCls where
  | unfitted
  | fresh (d : Data) (v : Nat)
  | other
deriving DecidableEq, Repr

structure PSpecState where
  param : Nat
  fitted : Option (Data × Nat)
deriving DecidableEq, Repr

def pspecStep (s : PSpecState) : POp → PSpecState × Res
  | .fit d => (⟨s.param, some (d, s.param)⟩, .retSelf)
  | .predict => (s, if s.fitted.isSome then .ok else .raised .notFitted)
  | .pickle => (s, .ok)
  | .clone => (⟨s.param, none⟩, .ok)
  | .setParam v => (⟨v, s.fitted⟩, .ok)

def pspecCls (s : PSpecState) : PCls :=
  match s.fitted with
  | none => .unfitted
  | some (d, v) => .fresh d v

structure PState where
  param : Nat                          -- the constructor parameter as `get_params` reports it
  derived : Nat                        -- the parameter value the `__init__`-derived attribute was computed from
  fitted : Option (Data × Nat × Nat)   -- fitted on d using (parameter, derived attribute)
deriving DecidableEq, Repr

def pStep (readsDerived : Bool) (s : PState) : POp → PState × Res
  | .fit d => (⟨s.param, s.derived, some (d, s.param, if readsDerived then s.derived else s.param)⟩, .retSelf)
  | .predict => (s, if s.fitted.isSome then .ok else .raised .notFitted)
  | .pickle => (s, .ok)
  -- clone constructs a new object from get_params(): `__init__` recomputes the derived attribute
  | .clone => (⟨s.param, s.param, none⟩, .ok)
  -- set_params is setattr on the parameter only
  | .setParam v => (⟨v, s.derived, s.fitted⟩, .ok)

def pCls (s : PState) : PCls :=
  match s.fitted with
  | none => .unfitted
  | some (d, p, q) => if p = q then .fresh d p else .other

def traceWith {σ : Type} (step : σ → POp → σ × Res) (s : σ) : List POp → List (Res × σ)
  | [] => []
  | o :: os => ((step s o).2, (step s o).1) :: traceWith step (step s o).1 os

def runWith {σ : Type} (step : σ → POp → σ × Res) (s : σ) (ops : List POp) : σ :=
  ops.foldl (fun s o => (step s o).1) s

def specView (p0 : Nat) (ops : List POp) : List (Res × PCls) :=
  (traceWith pspecStep ⟨p0, none⟩ ops).map (fun p => (p.1, pspecCls p.2))

def view (readsDerived : Bool) (p0 : Nat) (ops : List POp) : List (Res × PCls) :=
  (traceWith (pStep readsDerived) ⟨p0, p0, none⟩ ops).map (fun p => (p.1, pCls p.2))

/-! ### tie to the source -/
open Generated.LifecycleSrc

/-- attributes that `__init__` computes from constructor parameters, that `fit` reads, and that neither `fit` nor
    `set_params` ever recompute -/
def staleAfterSetParams (c : EstCls) : List String :=
  ((initDerivedDeps c).filter (fun p => !p.2.isEmpty && (initDerivedReads c).contains p.1)).map (·.1)

def readsDerivedSrc (c : EstCls) : Bool := !(staleAfterSetParams c).isEmpty

/-! ### driver glue -/

def PCls.fmt : PCls → String
  | .unfitted => "U"
  | .fresh d v => "D" ++ toString d.id ++ (if v = 0 then "" else "'" ++ (if v = 1 then "" else toString v))
  | .other => "X"

def parsePOp (t : String) : Option POp :=
  match t.toList with
  | ['k'] => some .pickle
  | ['c'] => some .clone
  | ['s'] => some (.setParam 1)
  | ['r'] => some (.setParam 0)
  | 'p' :: _ => some .predict
  | 'f' :: rest =>
    match (String.ofList rest).toNat? with
    | some (k + 1) => some (.fit ⟨k + 1, 3⟩)
    | _ => none
  | _ => none

def parseEst (s : String) : Option EstCls :=
  match s with
  | "to" => some .TO | "eg" => some .EG | "gs" => some .GS | "cr" => some .CR | "adv" => some .ADVC
  | _ => none

def fmtV (v : List (Res × PCls)) : String :=
  if v.isEmpty then "-" else ";".intercalate (v.map (fun p => p.1.fmt ++ ":" ++ p.2.fmt))

/-- `lifeparam.run <machine> <ops>`: ops f<k>, p<seed>, k, c, s (set the tracked parameter to its second value),
    r (back to the constructor value); the machine reads the derived attribute iff the lifted source says so.
    `lifeparam.spec <ops>`: the specification. -/
def handle (toks : List String) : Option String :=
  match toks with
  | ["lifeparam.run", m, ops] => do
    let c ← parseEst m
    let ops ← Proto.parseList parsePOp ops
    pure (fmtV (view (readsDerivedSrc c) 0 ops))
  | ["lifeparam.spec", ops] => do
    let ops ← Proto.parseList parsePOp ops
    pure (fmtV (specView 0 ops))
  | _ => none

end LifecycleParams
