/-
FIT → PREDICT, end to end (core Lean only): the `interpolation_dict` that `ThresholdOptimizer.fit` stores
(`Model/Threshold.lean`: `fitSimple` / `fitEO`) handed to `InterpolatedThresholder._pmf_predict` / `predict`
(`Model/Pmf.lean`: `thrPositive`, `bernoulli`, both defined over the expressions lifted into
`Generated/ThresholderSrc.lean`).

`toPmfRule` is the Bunch `fit` builds for one group (p0, operation0, p1, operation1 and, for equalized odds, p_ignore and
prediction_constant); `dictOf` is the dict keyed by the sensitive-feature values.  The uniform draws of `predict` are
inputs.
-/
import FairModel.Model.Threshold
import FairModel.Model.Pmf

namespace ThresholdPredict
open Threshold

def toXR : Thr → XR
  | .pinf => .pinf
  | .fin t => .fin t
  | .ninf => .ninf

/-- `ThresholdOperation(operator, threshold)` as stored in the Bunch -/
def toThrOp (o : Op) : Pmf.ThrOp := ⟨if o.gt then .gt else .lt, toXR o.thr⟩

/-- the Bunch of one group -/
def toPmfRule (r : Rule) : Pmf.Rule := ⟨r.p0, toThrOp r.op0, r.p1, toThrOp r.op1, r.ign⟩

/-- `interpolation_dict`: sensitive-feature value ↦ Bunch, in the order of the groups -/
def dictOf (names : List String) (rules : List Rule) : List (String × Pmf.Rule) :=
  List.zipWith (fun n r => (n, toPmfRule r)) names rules

/-- `ThresholdOptimizer._pmf_predict` of the fitted model on query rows `(sensitive feature value, score)` -/
def predictPmf (names : List String) (fit : Fit) (rows : List (String × Rat)) : List (Rat × Rat) :=
  Pmf.thrPmf (dictOf names fit.rules) rows

/-- the column of the pmf that `predict` compares with the draws (`[:, k]`, k lifted) -/
def probOf (row : Rat × Rat) : Rat := if ThresholderSrc.probColumn = 1 then row.2 else row.1

/-- `ThresholdOptimizer.predict` given the uniform numbers `RandomState.rand(n)` returned: one draw per row, row by row -/
def predictLabels (names : List String) (fit : Fit) (rows : List (String × Rat)) (us : List Rat) : List Nat :=
  List.zipWith (fun row u => Pmf.bernoulli (probOf row) u) (predictPmf names fit rows) us

/-- number of uniform draws one `predict` call consumes: `rand(len(positive_probs))` -/
def drawsConsumed (rows : List (String × Rat)) : Nat := rows.length

/-! ### driver glue -/
open Proto

def fmtOut (names : List String) (f : Fit) (q : List (String × Rat)) (us : List Rat) : String :=
  fmtRats ((predictPmf names f q).map probOf) ++ " " ++ fmtNats (predictLabels names f q us)

/-- ops:
  `thrp.simple <xmetric> <ymetric> <flip> <N> <argmax|i> <scores matrix> <labels matrix> <names> <query groups> <query scores> <draws>`
  `thrp.eo <objective> <flip> <N> <argmax|i> <scores matrix> <labels matrix> <names> <query groups> <query scores> <draws>`
      -> `<P(1) of every query row> <labels for the draws given (as many as there are draws)>`  or `degenerate`
  (fit in the model, then `_pmf_predict` / `predict` of the fitted model on arbitrary query rows) -/
def handle (toks : List String) : Option String :=
  match toks with
  | ["thrp.simple", xm, ym, flip, n, force, sc, lb, names, qg, qs, us] => do
    let xm ← parseMetric xm
    let ym ← parseMetric ym
    let flip ← parseBool flip
    let n ← parseNat n
    let force ← parseForce force
    let groups ← mkGroups (← parseMat sc) (← parseMat lb)
    let names ← parseStrs names
    let qg ← parseStrs qg
    let qs ← parseRats qs
    let us ← parseRats us
    if n = 0 ∨ names.length ≠ groups.length ∨ qg.length ≠ qs.length then none else
    match fitSimple flip xm ym n groups force with
    | none => pure "degenerate"
    | some f => pure (fmtOut names f (qg.zip qs) us)
  | ["thrp.eo", obj, flip, n, force, sc, lb, names, qg, qs, us] => do
    let obj ← parseMetric obj
    let flip ← parseBool flip
    let n ← parseNat n
    let force ← parseForce force
    let groups ← mkGroups (← parseMat sc) (← parseMat lb)
    let names ← parseStrs names
    let qg ← parseStrs qg
    let qs ← parseRats qs
    let us ← parseRats us
    if n = 0 ∨ names.length ≠ groups.length ∨ qg.length ≠ qs.length then none else
    match fitEO flip obj n groups force with
    | none => pure "degenerate"
    | some (f, _) => pure (fmtOut names f (qg.zip qs) us)
  | _ => none

end ThresholdPredict
