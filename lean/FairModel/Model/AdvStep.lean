/-
The WHOLE training step of fairlearn/adversarial/_pytorch_engine.py `train_step` as a pure function, and one `fit`
as the fold of these steps over the schedule lifted from `_adversarial_mitigation.fit`.

  * a network is the list of its parameter tensors (`Mat`; a bias is a single-row matrix), each with the optimiser's
    per-tensor state;
  * autograd is a PARAMETER: the three gradient lists dLP/dW, dLA/dW (one per predictor tensor) and dLA/dU (one per
    adversary tensor) of the current batch;
  * an optimiser is a parameter `Opt τ = τ → Mat → τ × Mat`: (state of this tensor, gradient handed to the optimiser)
    ↦ (new state, amount SUBTRACTED from the tensor); `sgd lr` is plain `torch.optim.SGD(lr)`;
  * the gradient handed to the predictor's optimiser is, tensor by tensor, the engine's normalise / project / combine
    rule (`Adversarial.torchStep`, i.e. the loop body as LIFTED from the source); the adversary's optimiser gets dLA/dU.

Source lines mirrored (_pytorch_engine.py `train_step`): zero_grad ×2; LP.backward → dW_LP; zero_grad ×2;
LA.backward → dW_LA (predictor tensors) and the adversary's `.grad` = dLA/dU; loop `p.grad = …`;
`predictor_optimizer.step()`; `adversary_optimizer.step()`.
Core Lean only.
-/
import FairModel.Model.Adversarial
import FairModel.Model.SchedLifted

namespace AdvStep
open Adversarial

/-- an optimiser, acting on one parameter tensor -/
abbrev Opt (τ : Type) := τ → Mat → τ × Mat

/-- `torch.optim.SGD(params, lr)` (no momentum, dampening, weight decay): subtract `lr * grad`, no state -/
def sgd (lr : Rat) : Opt Unit := fun _ g => ((), msmul lr g)

/-- `torch.optim.SGD(params, lr, momentum=μ)`: `buf = g` on the first step, `buf = μ·buf + g` afterwards; subtract `lr·buf` -/
def sgdMomentum (lr μ : Rat) : Opt (Option Mat) := fun buf g =>
  let b := match buf with
    | none => g
    | some v => madd (msmul μ v) g
  (some b, msmul lr b)

/-- one network: parameter tensors and the optimiser state of each -/
structure Player (τ : Type) where
  params : List Mat
  state : List τ

structure Model (τP τA : Type) where
  pred : Player τP
  adv : Player τA

/-- what autograd delivers for one batch -/
structure Grads where
  /-- dLP/dW, one per predictor tensor -/
  dWLP : List Mat
  /-- dLA/dW, one per predictor tensor -/
  dWLA : List Mat
  /-- dLA/dU, one per adversary tensor -/
  dULA : List Mat

/-- `optimizer.step()`: every tensor moves by what the optimiser says for its `.grad` -/
def applyOpt {τ : Type} (opt : Opt τ) : List Mat → List τ → List Mat → List Mat × List τ
  | W :: Ws, s :: ss, g :: gs =>
    let r := opt s g
    let rest := applyOpt opt Ws ss gs
    (msub W r.2 :: rest.1, r.1 :: rest.2)
  | _, _, _ => ([], [])

/-- the loop `for i, p in enumerate(self.predictor_model.parameters()): p.grad = …`
    (`none`: some tensor became NaN, or the two gradient lists have different lengths) -/
def combineAll (eng : Mat → Mat → Rat → Option Mat) (α : Rat) : List Mat → List Mat → Option (List Mat)
  | [], [] => some []
  | a :: as, b :: bs =>
    match eng a b α, combineAll eng α as bs with
    | some g, some r => some (g :: r)
    | _, _ => none
  | _, _ => none

/-- one `train_step` -/
def step {τP τA : Type} (eng : Mat → Mat → Rat → Option Mat) (α : Rat) (optP : Opt τP) (optA : Opt τA)
    (m : Model τP τA) (g : Grads) : Option (Model τP τA) :=
  match combineAll eng α g.dWLP g.dWLA with
  | none => none
  | some gs =>
    let p := applyOpt optP m.pred.params m.pred.state gs
    let a := applyOpt optA m.adv.params m.adv.state g.dULA
    some ⟨⟨p.1, p.2⟩, ⟨a.1, a.2⟩⟩

/-- the single-step entry point seen by the schedule (`partial_fit` on rows `lo .. hi`): autograd is the parameter `G`
    (gradients at the CURRENT parameters on these rows); `none` = the NaN model, which stays NaN -/
def trainStep {τP τA : Type} (eng : Mat → Mat → Rat → Option Mat) (α : Rat) (optP : Opt τP) (optA : Opt τA)
    (G : List Mat → List Mat → Nat → Nat → Grads) : Option (Model τP τA) → Nat → Nat → Option (Model τP τA)
  | none, _, _ => none
  | some m, lo, hi => step eng α optP optA m (G m.pred.params m.adv.params lo hi)

/-- table-driven variant for the correspondence: the gradients recorded from the real autograd, one entry per executed
    step, are consumed in order (`none` once the table is exhausted) -/
def trainStepRec (eng : Mat → Mat → Rat → Option Mat) (α lrP lrA : Rat) :
    Option (Model Unit Unit) × List Grads → Nat → Nat → Option (Model Unit Unit) × List Grads
  | (some m, g :: rest), _, _ => (step eng α (sgd lrP) (sgd lrA) m g, rest)
  | (_, rest), _, _ => (none, rest.drop 1)

/-- a run of `train_step`s in which every step has its OWN `α` (the estimator's `alpha` may be changed between steps —
    callbacks that schedule alpha, `set_params`): the engine reads `alpha` at each step -/
def runSched {τP τA : Type} (eng : Mat → Mat → Rat → Option Mat) (optP : Opt τP) (optA : Opt τA) :
    Option (Model τP τA) → List (Rat × Grads) → Option (Model τP τA)
  | m, [] => m
  | none, _ => none
  | some m, (α, g) :: rest => runSched eng optP optA (step eng α optP optA m g) rest

/-! ### driver glue -/

def parseTensors (s : String) : Option (List Mat) := (s.splitOn "|").mapM Proto.parseMat

def fmtTensors (l : List Mat) : String := "|".intercalate (l.map Proto.fmtMat)

def parseGrads (s : String) : Option Grads :=
  match s.splitOn "#" with
  | [a, b, u] => do
    let a ← parseTensors a
    let b ← parseTensors b
    let u ← parseTensors u
    pure ⟨a, b, u⟩
  | _ => none

def shapesOk (W U : List Mat) (g : Grads) : Bool :=
  g.dWLP.length == W.length && g.dWLA.length == W.length && g.dULA.length == U.length &&
  (List.zipWith sameShape W g.dWLP).all id && (List.zipWith sameShape W g.dWLA).all id &&
  (List.zipWith sameShape U g.dULA).all id

/-- ops:
  `advstep.step <alpha> <lrP> <lrA> <W tensors> <U tensors> <A#B#dU>` -> `<W'> <U'>` | `nan`
      one train_step (torch engine as lifted, plain SGD)
  `advstep.fit <alpha> <lrP> <lrA> <n> <batch_size|-1> <epochs|-1> <max_iter|-1> <W tensors> <U tensors> <grads@grads@...>`
      -> `err` | `<n_iter> <W'> <U'>` | `<n_iter> nan`
      the LIFTED `fit` schedule (`SchedL.fitSrc`, no callbacks) folded over `trainStepRec` with the recorded gradients -/
def handle (toks : List String) : Option String :=
  match toks with
  | ["advstep.step", al, lp, la, w, u, g] => do
    let al ← Proto.parseRat al
    let lp ← Proto.parseRat lp
    let la ← Proto.parseRat la
    let W ← parseTensors w
    let U ← parseTensors u
    let g ← parseGrads g
    if !shapesOk W U g then none else
    match step torchStep al (sgd lp) (sgd la) ⟨⟨W, W.map (fun _ => ())⟩, ⟨U, U.map (fun _ => ())⟩⟩ g with
    | none => pure "nan"
    | some m => pure (fmtTensors m.pred.params ++ " " ++ fmtTensors m.adv.params)
  | ["advstep.fit", al, lp, la, n, bs, ep, mi, w, u, gs] => do
    let al ← Proto.parseRat al
    let lp ← Proto.parseRat lp
    let la ← Proto.parseRat la
    let n ← Proto.parseNat n
    let bs ← SchedL.parseSentinel bs
    let ep ← SchedL.parseSentinel ep
    let mi ← SchedL.parseSentinel mi
    let W ← parseTensors w
    let U ← parseTensors u
    let gs ← (gs.splitOn "@").mapM parseGrads
    if n = 0 || !gs.all (shapesOk W U) then none else
    let m0 : Model Unit Unit := ⟨⟨W, W.map (fun _ => ())⟩, ⟨U, U.map (fun _ => ())⟩⟩
    match SchedL.fitSrc n bs ep mi [] (trainStepRec torchStep al lp la) (some m0, gs) with
    | none => pure "err"
    | some r =>
      match r.state.1 with
      | none => pure (toString r.nIter ++ " nan")
      | some m => pure (toString r.nIter ++ " " ++ fmtTensors m.pred.params ++ " " ++ fmtTensors m.adv.params)
  | _ => none

end AdvStep
