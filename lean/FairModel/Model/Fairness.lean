/-
Model of the named fairness metrics (`_fairness_metrics.py`), of `make_derived_metric`
(`_make_derived_metric.py:53`) and of the generated `<metric>_<transform>` functions
(`_generated_metrics.py`).  Core Lean only.

Each public function builds ONE MetricFrame (bare callable or, for equalized odds, a dict of two
metrics) without control features and returns one aggregate of it.  WHICH base metric and WHICH
aggregate is read from the GENERATED tables in `Generated/FairnessSpec.lean` (lifted from the Python
source on every run); this file only interprets those tables with the Frame / Aggregate model.
-/
import FairModel.Model.Aggregate
import FairModel.Model.AggregateCache
import FairModel.Model.MetricPool
import FairModel.Generated.FairnessSpec

namespace Fairness
open Frame Aggregate MetricPool

/-- what a public function does: returns a float (possibly NaN/±inf) or raises -/
inductive Res where
  | value (x : XR)
  | raised
deriving Repr, DecidableEq

def Res.fmt : Res → String
  | .value x => x.fmt
  | .raised => "raised"

/-- an exception of the metric function on the whole data or on any group leaves the constructor -/
def frameRaised (t : Tables) : Bool :=
  t.overall.any (fun e => e.2 == Cell.raised) || t.byGroup.any (fun e => e.2 == Cell.raised)

/-- bare callable, no control features: `_extract_result` returns `result.iloc[0]` of the
    single-stratum result -/
def extract : Option (List (Key × XR)) → Res
  | some [(_, x)] => .value x
  | _ => .raised

inductive AggKind where
  | difference | ratio | groupMin | groupMax
deriving Repr, DecidableEq

/-- names of the MetricFrame methods -/
def aggOfName (s : String) : Option AggKind :=
  match s with
  | "difference" => some .difference | "ratio" => some .ratio
  | "group_min" => some .groupMin | "group_max" => some .groupMax
  | _ => none

/-- `__name__` of the base metrics this model can evaluate -/
def baseOfName (s : String) : Option Metric :=
  match s with
  | "selection_rate" => some .selrate
  | "true_positive_rate" => some .tpr | "false_positive_rate" => some .fpr
  | "true_negative_rate" => some .tnr | "false_negative_rate" => some .fnr
  | "accuracy_score" => some .accuracy | "zero_one_loss" => some .zeroOne
  | "mean_absolute_error" => some .mae | "mean_squared_error" => some .mse
  | "mean_prediction" => some .meanpred | "count" => some .count
  | _ => none

/-- the MetricFrame method call as it was HARD-CODED before the cache was lifted (kept as the reference the lifted
    `applyAgg` is proved equal to, `applyAgg_lifted_eq_model`): `difference(method=...)` / `ratio(method=...)` default to
    errors='coerce'; `group_min()` / `group_max()` default to errors='raise'.  `withMethod = false`
    means the method argument is not passed on (default `between_groups`). -/
def applyAggModel (k : AggKind) (meth : Method) (withMethod : Bool) (t : Tables) : Option (List (Key × XR)) :=
  let m := if withMethod then meth else Method.between
  match k with
  | .difference => difference m .coerce t
  | .ratio => ratio m .coerce t
  | .groupMin => groupMin .raise t
  | .groupMax => groupMax .raise t

/-- the public accessor of `MetricFrame` a fairness function calls, WITHOUT `errors=` and with or without `method=`
    (`Model/AggregateCache.lean` over the lifted `Generated/PopulateSrc.lean`: default arguments, cache slot, the call
    `_populate_results` filled the slot with, and the `_extract_result` mode of `Generated/FrameSrc.lean`) -/
def applyAggGot (k : AggKind) (meth : Method) (withMethod : Bool) (t : Tables) : AggCache.Got :=
  let m := if withMethod then some meth else none
  match k with
  | .difference => AggCache.differencePub m none true t
  | .ratio => AggCache.ratioPub m none true t
  | .groupMin => AggCache.groupMinPub none true t
  | .groupMax => AggCache.groupMaxPub none true t

/-- the MetricFrame method call of a bare-callable frame without control features, read from the LIFTED cache:
    the stored Series when `_extract_result` takes `.iloc[0]` of it (`extract` below does that), a raise otherwise
    (stored exception, KeyError, rejected argument, or a result that is not a scalar) -/
def applyAgg (k : AggKind) (meth : Method) (withMethod : Bool) (t : Tables) : Option (List (Key × XR)) :=
  match applyAggGot k meth withMethod t with
  | .got .entry0 r => r
  | _ => none

/-- `MetricFrame(metrics=<m>, y_true, y_pred, sensitive_features, sample_params={"sample_weight": w})`
    followed by one aggregate -/
def run (m : Metric) (k : AggKind) (meth : Method) (withMethod : Bool) (nsf : Nat)
    (rows : List (Row Dat)) : Res :=
  let t := ofFrame 0 nsf (eval m) rows
  if frameRaised t then .raised else extract (applyAgg k meth withMethod t)

/-- demographic_parity_*, equal_opportunity_* -/
def named (fname : String) (meth : Method) (nsf : Nat) (rows : List (Row Dat)) : Option Res := do
  let e ← FairnessSpec.named.find? (fun e => e.1 == fname)
  let m ← baseOfName e.2.1
  let k ← aggOfName e.2.2
  pure (run m k meth true nsf rows)

inductive Agg where
  | worstCase | mean
deriving Repr, DecidableEq

/-- Python's `max(series)` / `min(series)`: left fold with strict comparison -/
def pyFold (w : String) : List XR → Option XR
  | [] => none
  | x :: xs =>
    if w = "max" then some (xs.foldl XR.pyMax2 x)
    else if w = "min" then some (xs.foldl XR.pyMin2 x)
    else none

/-- equalized_odds_*: one frame with the dict of `_get_eo_frame`, then worst case or mean -/
def eodds (fname : String) (meth : Method) (agg : Agg) (nsf : Nat) (rows : List (Row Dat)) : Option Res := do
  let e ← FairnessSpec.eodds.find? (fun e => e.1 == fname)
  let k ← aggOfName e.2.1
  let ms ← FairnessSpec.eoFrame.mapM (fun c => baseOfName c.2)
  let ts := ms.map (fun m => ofFrame 0 nsf (eval m) rows)
  if ts.any frameRaised then pure .raised
  else
    let rs := ts.map (fun t => extract (applyAgg k meth true t))
    let vs := rs.filterMap (fun r => match r with | .value x => some x | .raised => none)
    if vs.length ≠ rs.length then pure .raised
    else
      match agg with
      | .worstCase => (pyFold e.2.2 vs).map .value
      | .mean => pure (.value (XR.meanSkip vs))

/-- `make_derived_metric(metric=<m>, transform=<tr>)(y_true, y_pred, sensitive_features=, sample_weight=, [method=])` -/
def derived (m : Metric) (transform : String) (meth : Method) (nsf : Nat) (rows : List (Row Dat)) : Option Res := do
  let d ← FairnessSpec.dispatch.find? (fun d => d.1 == transform)
  let k ← aggOfName d.2.1
  pure (run m k meth d.2.2 nsf rows)

/-- all `(base, variant)` pairs of METRICS_SPEC with the generated function name -/
def generatedNames : List (String × String × String) :=
  FairnessSpec.metricsSpec.flatMap (fun e => e.2.map (fun v => (e.1 ++ "_" ++ v, e.1, v)))

/-- a generated `<metric>_<transform>` function; `none` = no such function,
    `some none` = its base metric is outside this model (sklearn-only) -/
def generated (fname : String) (meth : Method) (nsf : Nat) (rows : List (Row Dat)) : Option (Option Res) := do
  let g ← generatedNames.find? (fun g => g.1 == fname)
  match baseOfName g.2.1 with
  | none => pure none
  | some m => pure (derived m g.2.2 meth nsf rows)

/-! ### first-principles definitions of the three rates (the specification side) -/

/-- total weight of the rows satisfying `p` -/
def wsum (p : Dat → Bool) (ds : List Dat) : Rat := ((ds.filter p).map (·.p0)).sum

/-- Σ_{pred=1} w / Σ w -/
def selRateSpec (ds : List Dat) : Rat := wsum (fun d => d.pred == 1) ds / wsum (fun _ => true) ds

/-- Σ_{y=1,pred=1} w / Σ_{y=1} w, and 0 when no row has y=1 (empty denominator) -/
def tprSpec (ds : List Dat) : Rat :=
  if wsum (fun d => d.y == 1) ds = 0 then 0
  else wsum (fun d => d.y == 1 && d.pred == 1) ds / wsum (fun d => d.y == 1) ds

/-- Σ_{y=0,pred=1} w / Σ_{y=0} w, and 0 when no row has y=0 -/
def fprSpec (ds : List Dat) : Rat :=
  if wsum (fun d => d.y == 0) ds = 0 then 0
  else wsum (fun d => d.y == 0 && d.pred == 1) ds / wsum (fun d => d.y == 0) ds

/-! ### driver glue -/

def parseMethod (s : String) : Option Method :=
  if s = "between_groups" then some .between else if s = "to_overall" then some .toOverall else none

def parseAgg (s : String) : Option Agg :=
  if s = "worst_case" then some .worstCase else if s = "mean" then some .mean else none

def fmtOut : Option Res → String
  | some r => r.fmt
  | none => "unmodelled"

/-- op: `fair.eval <function name> <between_groups|to_overall> <worst_case|mean|-> <ys> <preds> <weights> <sf column>+`
    output: the returned value, `raised`, or `unmodelled` (base metric outside the model)
    op: `fair.derived <pool metric tag> <transform> <method> <ys> <preds> <weights> <sf column>+`
    = `make_derived_metric(metric=<m>, transform=<transform>)(..., method=<method>)` -/
def handle (toks : List String) : Option String :=
  match toks with
  | "fair.derived" :: m :: tr :: meth :: ys :: ps :: ws :: cols => do
    let m ← MetricPool.parseMetric m
    let tr ← Proto.parseStr tr
    let meth ← parseMethod meth
    let ys ← Proto.parseRats ys
    let cols ← cols.mapM Proto.parseStrs
    if cols.isEmpty then none
    let rows ← MetricPool.mkRows 0 ys (← Proto.parseRats ps) (← Proto.parseRats ws) (ys.map (fun _ => 0)) cols
    if rows.isEmpty then none
    (derived m tr meth cols.length rows).map Res.fmt
  | "fair.eval" :: fname :: meth :: agg :: ys :: ps :: ws :: cols => do
    let fname ← Proto.parseStr fname
    let meth ← parseMethod meth
    let ys ← Proto.parseRats ys
    let ws ← Proto.parseRats ws
    let cols ← cols.mapM Proto.parseStrs
    if cols.isEmpty then none
    let rows ← MetricPool.mkRows 0 ys (← Proto.parseRats ps) ws (ys.map (fun _ => 0)) cols
    if rows.isEmpty then none
    let nsf := cols.length
    if (FairnessSpec.eodds.any (fun e => e.1 == fname)) then
      let agg ← parseAgg agg
      pure (fmtOut (eodds fname meth agg nsf rows))
    else if (FairnessSpec.named.any (fun e => e.1 == fname)) then
      pure (fmtOut (named fname meth nsf rows))
    else
      match generated fname meth nsf rows with
      | none => none
      | some r => pure (fmtOut r)
  | _ => none

end Fairness
