/-
Line-protocol helpers shared by every model file (core Lean only, no Mathlib).

Token grammar (tokens are separated by single spaces, a line is one case):
  rat      ::= int | int "/" nat            e.g.  -3/4   5
  xr       ::= rat | "nan" | "inf" | "-inf"
  list     ::= "-" (empty) | item ("," item)*
  string   ::= "e" (empty) | cp ("." cp)*    decimal code points, e.g. 97.44
Malformed tokens make the parsers return `none`; the driver then prints `bad-op`.
-/

namespace Proto

def parseRat (s : String) : Option Rat :=
  match s.splitOn "/" with
  | [n] => n.toInt?.map (fun i => (i : Rat))
  | [n, d] =>
    match n.toInt?, d.toNat? with
    | some i, some k => if k = 0 then none else some (mkRat i k)
    | _, _ => none
  | _ => none

def fmtRat (q : Rat) : String :=
  if q.den = 1 then toString q.num else toString q.num ++ "/" ++ toString q.den

def parseList {α} (p : String → Option α) (s : String) : Option (List α) :=
  if s = "-" then some [] else (s.splitOn ",").mapM p

def fmtList {α} (f : α → String) (l : List α) : String :=
  if l.isEmpty then "-" else ",".intercalate (l.map f)

def parseNat (s : String) : Option Nat := s.toNat?
def parseInt (s : String) : Option Int := s.toInt?

def parseStr (s : String) : Option String :=
  if s = "e" then some "" else
  ((s.splitOn ".").mapM (fun (t : String) => t.toNat?.map Char.ofNat)).map String.ofList

def fmtStr (s : String) : String :=
  if s.isEmpty then "e" else ".".intercalate (s.toList.map (fun c => toString c.toNat))

def parseBool (s : String) : Option Bool :=
  if s = "1" then some true else if s = "0" then some false else none

def fmtBool (b : Bool) : String := if b then "1" else "0"

def parseRats := parseList parseRat
def parseNats := parseList parseNat
def parseInts := parseList parseInt
def parseStrs := parseList parseStr
def fmtRats := fmtList fmtRat
def fmtNats := fmtList (fun (n : Nat) => toString n)
def fmtInts := fmtList (fun (n : Int) => toString n)
def fmtStrs := fmtList fmtStr

/-- matrix tokens: rows separated by ";" , "-" = no rows -/
def parseMat (s : String) : Option (List (List Rat)) :=
  if s = "-" then some [] else (s.splitOn ";").mapM parseRats

def fmtMat (m : List (List Rat)) : String :=
  if m.isEmpty then "-" else ";".intercalate (m.map fmtRats)

end Proto

/-- Extended rationals: the values pandas / numpy represent with NaN and ±inf. -/
inductive XR where
  | nan : XR
  | ninf : XR
  | fin (q : Rat) : XR
  | pinf : XR
deriving Repr, DecidableEq, Inhabited

namespace XR

def fmt : XR → String
  | nan => "nan"
  | ninf => "-inf"
  | pinf => "inf"
  | fin q => Proto.fmtRat q

def parse (s : String) : Option XR :=
  if s = "nan" then some nan
  else if s = "inf" then some pinf
  else if s = "-inf" then some ninf
  else (Proto.parseRat s).map fin

end XR
