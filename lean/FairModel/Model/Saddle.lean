/-
Model of the saddle-point bookkeeping of ExponentiatedGradient (core Lean only):
fairlearn/reductions/_exponentiated_gradient/_lagrangian.py (`_eval`, `eval_gap`, `_GapResult.gap`)
and the loop-exit / best-iterate selection of exponentiated_gradient.py:239-260.

A finite hypothesis table `T` (what `_Lagrangian.errors` / `.gammas` hold when EVERY hypothesis of the
class has been entered): `err i`, `gam j i` (constraint `j` of hypothesis `i`), bounds `c j`.
Vectors are functions `Nat → Rat` read below the stated length (`nH` hypotheses, `nC` constraints).
The closed expressions (`gapOf`, `lHigh`, `keep`, `breakCond`, `pickLast`, constants) come from
`Generated/EGGen.lean`, lifted from the Python source on every run.

  errQ  Q      = errors[Q.index].dot(Q)
  gamQ  Q j    = gammas[Q.index].dot(Q)[j]
  lagr  Q λ    = error + np.sum(λ * (gamma - bound))
  lHigh Q      = error (+ B * max_j (gamma_j - bound_j) if that maximum is > 0)
  lLow  Q λ S  = min(L, min_{i ∈ S} lagr (e_i) λ)      (`eval_gap`: starts at L, candidates are the
                                                          best responses returned by `best_h`)
  gap          = max(L - L_low, L_high - L)
`_eval` first replaces λ by `project_lambda λ` (only for ratio = 1): `project`.
-/
import FairModel.Model.Proto
import FairModel.Generated.EGGen
import FairModel.Generated.ProjectLambdaSrc

namespace Saddle

def sumTo (n : Nat) (f : Nat → Rat) : Rat := ((List.range n).map f).sum

structure Table where
  nH : Nat
  nC : Nat
  err : Nat → Rat
  gam : Nat → Nat → Rat
  c : Nat → Rat

def errQ (T : Table) (Q : Nat → Rat) : Rat := sumTo T.nH (fun i => Q i * T.err i)

def gamQ (T : Table) (Q : Nat → Rat) (j : Nat) : Rat := sumTo T.nH (fun i => Q i * T.gam j i)

/-- one entry of `gamma - self.constraints.bound()` (lifted: `EGGen.violOf`) -/
def viol (T : Table) (Q : Nat → Rat) (j : Nat) : Rat := EGGen.violOf (gamQ T Q j) (T.c j)

/-- `L = error + np.sum(lambda_vec * (gamma - self.constraints.bound()))`, computed with the lifted expressions
    `EGGen.lagrOf` / `EGGen.lagrTerm`; `Lemmas/Saddle.lean:lagr_def` is the closed form the proofs use -/
def lagr (T : Table) (Q lam : Nat → Rat) : Rat :=
  EGGen.lagrOf (errQ T Q) (sumTo T.nC (fun j => EGGen.lagrTerm (lam j) (gamQ T Q j) (T.c j)))

/-- `(gamma - bound).max()` (for `nC = 0` pandas gives NaN and `NaN > 0` is False; here the value is
    `viol 0` of out-of-range reads = 0, which takes the same branch of `lHigh`) -/
def maxViol (T : Table) (Q : Nat → Rat) : Rat :=
  (List.range T.nC).foldl (fun acc j => EGGen.violAgg acc (viol T Q j)) (viol T Q 0)

def lHigh (T : Table) (B : Rat) (Q : Nat → Rat) : Rat := EGGen.lHigh (errQ T Q) B (maxViol T Q)

/-- `pd.Series({h_idx: 1.0})` -/
def unit (i : Nat) : Nat → Rat := fun k => if k = i then 1 else 0

def lPure (T : Table) (lam : Nat → Rat) (i : Nat) : Rat := lagr T (unit i) lam

def lLow (T : Table) (Q lam : Nat → Rat) (cands : List Nat) : Rat :=
  cands.foldl (fun acc i => if lPure T lam i < acc then lPure T lam i else acc) (lagr T Q lam)

def gap (T : Table) (B : Rat) (Q lam : Nat → Rat) (cands : List Nat) : Rat :=
  EGGen.gapOf (lagr T Q lam) (lLow T Q lam cands) (lHigh T B Q)

/-- the gap when every hypothesis of the class is a candidate best response -/
def trueGap (T : Table) (B : Rat) (Q lam : Nat → Rat) : Rat := gap T B Q lam (List.range T.nH)

def posPart (q : Rat) : Rat := if q < 0 then 0 else q

/-- `UtilityParity.project_lambda` for ratio = 1; entries `j < m` are the `+` multipliers, entries
    `m ≤ j < 2m` the `-` multipliers of the same (event, group) pairs.  The entry formulas are the lifted text of the
    method (`Generated/ProjectLambdaSrc.lean`); `Lemmas/Saddle.lean:project_lo/_hi` relate them to `posPart`. -/
def project (m : Nat) (lam : Nat → Rat) : Nat → Rat := fun j =>
  if j < m then ProjectLambdaSrc.posOf (lam j) (lam (j + m)) else ProjectLambdaSrc.negOf (lam (j - m)) (lam j)

def projectIf (ratioOne : Bool) (m : Nat) (lam : Nat → Rat) : Nat → Rat :=
  if ratioOne then project m lam else lam

/-! ### loop exit and choice of the returned iterate -/

def minL (x : Rat) : List Rat → Rat
  | [] => x
  | y :: ys => minL (if y < x then y else x) ys

/-- `gaps_best = gaps_series[gaps_series <= gaps_series.min() + _PRECISION]; best_iter_ = gaps_best.index[-1]` -/
def bestIter (gaps : List Rat) : Option Nat :=
  match gaps with
  | [] => none
  | g :: gs =>
    let m := minL g gs
    let kept := (List.range (g :: gs).length).filter (fun i => EGGen.keep ((g :: gs).getD i 0) m)
    if EGGen.pickLast then kept.getLast? else kept.head?

/-- number of iterations executed: the loop `for t in range(0, max_iter)` leaves at the first `t` with
    `breakCond gaps[t] nu t`; `gapAt t` is the gap iteration `t` records (if it is reached). -/
def runLen (gapAt : Nat → Rat) (nu : Rat) (maxIter : Nat) : Nat :=
  match (List.range maxIter).find? (fun t => EGGen.breakCond (gapAt t) nu t) with
  | some t => t + 1
  | none => maxIter

def recorded (gapAt : Nat → Rat) (nu : Rat) (maxIter : Nat) : List Rat :=
  (List.range (runLen gapAt nu maxIter)).map gapAt

/-! ### driver glue -/

def vec (l : List Rat) : Nat → Rat := fun i => l.getD i 0

def mkTable (errs : List Rat) (gams : List (List Rat)) (c : List Rat) : Table :=
  { nH := errs.length, nC := c.length, err := vec errs,
    gam := fun j i => (gams.getD j []).getD i 0, c := vec c }

/-- ops:
  `saddle.eval <B> <ratioOne 0/1> <errs> <gammas: one row per constraint> <bounds> <Q> <lambda>`
      → `<err(Q)> <L> <L_high> <L_low over the whole class> <gap> <max violation> <gamma(Q)>`
      (λ is projected first when ratioOne, as `_eval` does)
  `saddle.select <gaps the iterations would record> <nu> <max_iter>`
      → `<iterations run> <best_iter> <gap of best_iter>` -/
def handle (toks : List String) : Option String :=
  match toks with
  | ["saddle.eval", b, r1, errs, gams, c, q, lam] => do
    let b ← Proto.parseRat b
    let r1 ← Proto.parseBool r1
    let errs ← Proto.parseRats errs
    let gams ← Proto.parseMat gams
    let c ← Proto.parseRats c
    let q ← Proto.parseRats q
    let lam ← Proto.parseRats lam
    if gams.length ≠ c.length || gams.any (·.length ≠ errs.length) || q.length ≠ errs.length
        || lam.length ≠ c.length || (r1 && c.length % 2 ≠ 0) then none
    else
      let T := mkTable errs gams c
      let lamP := projectIf r1 (c.length / 2) (vec lam)
      let Q := vec q
      pure (" ".intercalate [Proto.fmtRat (errQ T Q), Proto.fmtRat (lagr T Q lamP), Proto.fmtRat (lHigh T b Q),
        Proto.fmtRat (lLow T Q lamP (List.range T.nH)), Proto.fmtRat (trueGap T b Q lamP),
        Proto.fmtRat (maxViol T Q), Proto.fmtRats ((List.range T.nC).map (gamQ T Q))])
  | ["saddle.select", gaps, nu, mi] => do
    let gaps ← Proto.parseRats gaps
    let nu ← Proto.parseRat nu
    let mi ← Proto.parseNat mi
    if gaps.length < mi then none
    else
      let rec_ := recorded (vec gaps) nu mi
      match bestIter rec_ with
      | none => pure (toString rec_.length ++ " none none")
      | some i => pure (toString rec_.length ++ " " ++ toString i ++ " " ++ Proto.fmtRat (rec_.getD i 0))
  | _ => none

end Saddle
