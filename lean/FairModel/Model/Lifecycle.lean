/-
Model of the estimator life cycle (C19): one small state machine per mechanism the property's anchors
name, each written as the code is today, with a `Rule` flag wherever today's rule breaks the property
(`current` = the rule in the source as read, `repaired` = the minimal repair evaluated in the report).

  * `Moment.loadData`            fairlearn/reductions/_moments/moment.py:45-53   (`data_loaded` latch)
  * `gsStep`  (GridSearch)       fairlearn/reductions/_grid_search/grid_search.py:131-147, :229
  * `egStep`  (ExponentiatedGradient) exponentiated_gradient.py:137-185, _lagrangian.py:80-90
  * `toStep`  (ThresholdOptimizer)    _threshold_optimizer.py:315-325 (clone of the wrapped estimator per fit)
  * `crStep`  (CorrelationRemover)    _correlation_remover.py:114-123 (`_n_features_in_` latch inside fit)
  * `advStep` (adversarial)      _adversarial_mitigation.py:404-426, :629-705, :843; _backend_engine.py:41
  * `Spec`                       the property itself as an automaton (what every estimator should refine)

What is modelled: the latches / flags / attribute presence that decide what `fit`, `predict`, `pickle`
and `clone` do.  What is NOT modelled: the learned numbers (a fitted model is represented by *what it
depends on*: the data set, the `nu` that was used, the list of data sets an engine was trained on since it
was created), Python object identity, and the internals of `pickle` / `sklearn.base.clone` /
`copy.deepcopy` (pickle = identity on the modelled state; clone = "same parameters, no fitted
attributes, non-estimator parameters deep-copied *including their latches*").
Core Lean only.
-/
import FairModel.Model.Proto

namespace Lifecycle

/-- a data set: an identity (which rows) and its number of feature columns -/
structure Data where
  id : Nat
  width : Nat
deriving DecidableEq, Repr

inductive Op where
  | fit (d : Data)
  | predict (seed : Nat)
  | pickle
  | clone
deriving DecidableEq, Repr

inductive Rule where
  | current
  | repaired
deriving DecidableEq, Repr

/-- exception kinds that the modelled code paths can raise -/
inductive Err where
  | assertion   -- AssertionError  "data can be loaded only once"            (moment.py:45)
  | value       -- ValueError      width check inside CorrelationRemover.fit  (_correlation_remover.py:119)
  | notFitted   -- sklearn NotFittedError (check_is_fitted)
  | index       -- IndexError      GridSearch.predict: predictors_ emptied by a failed refit, best_idx_ kept
  | attribute   -- AttributeError  fitted attribute missing although check_is_fitted passes
  | pickling    -- the torch engine holds local classes / lambdas: not picklable once set up
deriving DecidableEq, Repr

/-- what an operation returned -/
inductive Res where
  | retSelf            -- fit returned the estimator
  | retNone            -- fit returned None
  | ok                 -- predict / pickle / clone completed
  | raised (e : Err)
deriving DecidableEq, Repr

/-- how the `nu` that a fit used was obtained -/
inductive Nu where
  | given              -- the constructor value
  | auto (d : Data)    -- computed from the first best response on data `d` (exponentiated_gradient.py:186)
deriving DecidableEq, Repr

/-- Observable class of an estimator's state: which freshly fitted twin it predicts like. -/
inductive Cls where
  | unfitted                       -- predict raises NotFittedError
  | fresh (d : Data)               -- predicts like a fresh, identically configured estimator fitted on `d`
  | staleNu (d nuFrom : Data)      -- fitted on `d` with the automatic `nu` of an earlier fit on `nuFrom`
  | other                          -- fitted, but like no fresh twin (training continued from earlier weights)
  | broken (e : Err)               -- predict raises `e`
deriving DecidableEq, Repr

structure Machine (σ : Type) where
  init : σ
  step : σ → Op → σ × Res

def Machine.runFrom {σ : Type} (M : Machine σ) (s : σ) (ops : List Op) : σ :=
  ops.foldl (fun s o => (M.step s o).1) s

/-- state after a call history, starting from a freshly constructed estimator -/
def Machine.run {σ : Type} (M : Machine σ) (ops : List Op) : σ := M.runFrom M.init ops

/-- (result, state after) of every operation of a history -/
def Machine.traceFrom {σ : Type} (M : Machine σ) (s : σ) : List Op → List (Res × σ)
  | [] => []
  | o :: os => ((M.step s o).2, (M.step s o).1) :: Machine.traceFrom M (M.step s o).1 os

def Machine.trace {σ : Type} (M : Machine σ) (ops : List Op) : List (Res × σ) := M.traceFrom M.init ops

/-- what the harness can see of a history: per operation the result and the observable class -/
def Machine.view {σ : Type} (M : Machine σ) (cls : σ → Cls) (ops : List Op) : List (Res × Cls) :=
  (M.trace ops).map (fun p => (p.1, cls p.2))

/-! ### the property as an automaton -/

/-- The specification: state = the data of the last `fit` since construction / the last `clone`. -/
def Spec : Machine (Option Data) where
  init := none
  step s
    | .fit d => (some d, .retSelf)
    | .predict _ => (s, match s with | none => .raised .notFitted | some _ => .ok)
    | .pickle => (s, .ok)
    | .clone => (none, .ok)

def specCls : Option Data → Cls
  | none => .unfitted
  | some d => .fresh d

/-! ### Moment (moment.py) -/

/-- the `data_loaded` latch of a `Moment` object and the data it holds -/
structure Moment where
  dataLoaded : Bool
  data : Option Data
deriving DecidableEq, Repr

def Moment.new : Moment := ⟨false, none⟩

/-- `Moment.load_data`: `assert self.data_loaded is False`, then store and latch. -/
def Moment.loadData (m : Moment) (d : Data) : Except Err Moment :=
  if m.dataLoaded then .error .assertion else .ok ⟨true, some d⟩

/-- How an estimator's `fit` treats the moment object referenced by its `constraints` parameter. -/
inductive MomentRule where
  | latched      -- today: `self.constraints.load_data(...)` in place on the user's one-shot object
  | copyPerFit   -- repair A: each fit loads a private deep copy, the user's object stays as it was
  | reentrant    -- repair B: `load_data` may be called again (the assertion is dropped), still in place
deriving DecidableEq, Repr

/-- Returns (user's object afterwards, the moment the fit works with). -/
def loadConstraints (r : MomentRule) (user : Moment) (d : Data) : Except Err (Moment × Moment) :=
  match r with
  | .latched => (user.loadData d).map (fun m => (m, m))
  | .copyPerFit => (user.loadData d).map (fun m => (user, m))
  | .reentrant => .ok (⟨true, some d⟩, ⟨true, some d⟩)

/-! ### GridSearch -/

structure GSRules where
  ret : Rule       -- F5a: `return` (None)  vs  `return self`
  moment : MomentRule    -- F5b
deriving DecidableEq, Repr

structure GSState where
  constraints : Moment               -- the object behind the `constraints` parameter
  predictors : Option (Option Data)  -- `predictors_`: absent / emptied list / trained on d
  bestIdx : Option Data              -- `best_idx_`: absent / chosen on d
deriving DecidableEq, Repr

def gsInit : GSState := ⟨Moment.new, none, none⟩

def gsStep (r : GSRules) (s : GSState) : Op → GSState × Res
  | .fit d =>
    -- grid_search.py:131-135: the result attributes are reset before the constraints are loaded
    let s1 := { s with predictors := some none }
    match loadConstraints r.moment s.constraints d with
    | .error e => (s1, .raised e)
    | .ok (user, _) =>
      ({ constraints := user, predictors := some (some d), bestIdx := some d },
       match r.ret with | .current => .retNone | .repaired => .retSelf)
  | .predict _ =>
    match s.predictors with
    | none => (s, .raised .notFitted)
    | some none => (s, .raised (if s.bestIdx.isSome then .index else .attribute))
    | some (some _) => (s, .ok)
  | .pickle => (s, .ok)
  -- sklearn.clone deep-copies the non-estimator parameter `constraints`, latch included
  | .clone => ({ constraints := s.constraints, predictors := none, bestIdx := none }, .ok)

def GS (r : GSRules) : Machine GSState := ⟨gsInit, gsStep r⟩

def gsCls (s : GSState) : Cls :=
  match s.predictors with
  | none => .unfitted
  | some none => .broken (if s.bestIdx.isSome then .index else .attribute)
  | some (some d) => if s.bestIdx = some d then .fresh d else .other

/-- the constructor parameters that the model tracks -/
def gsParams (s : GSState) : Moment := s.constraints

/-! ### ExponentiatedGradient -/

structure EGRules where
  moment : MomentRule    -- F5b (the `_Lagrangian` loads constraints and objective)
  nu : Rule        -- F5c (`self.nu = ...` inside fit)  vs  a local / fitted attribute
deriving DecidableEq, Repr

structure EGState where
  constraints : Moment
  nuParam : Option Nu                -- the `nu` constructor parameter: None / a value
  started : Bool                     -- `lambda_vecs_EG_` exists (set at the very top of fit)
  fitted : Option (Data × Nu)        -- `weights_`, `_hs`: trained on d with this nu
deriving DecidableEq, Repr

/-- `nuGiven`: the user passed a number for `nu` -/
def egInit (nuGiven : Bool) : EGState := ⟨Moment.new, if nuGiven then some .given else none, false, none⟩

def egStep (r : EGRules) (s : EGState) : Op → EGState × Res
  | .fit d =>
    let s1 := { s with started := true }
    match loadConstraints r.moment s.constraints d with
    | .error e => (s1, .raised e)
    | .ok (user, _) =>
      let nuUsed : Nu := match s.nuParam with | none => .auto d | some v => v
      ({ constraints := user,
         nuParam := match r.nu with | .current => some nuUsed | .repaired => s.nuParam,
         started := true, fitted := some (d, nuUsed) }, .retSelf)
  | .predict _ =>
    match s.fitted with
    | some _ => (s, .ok)
    | none => (s, .raised (if s.started then .attribute else .notFitted))
  | .pickle => (s, .ok)
  | .clone => ({ constraints := s.constraints, nuParam := s.nuParam, started := false, fitted := none }, .ok)

def EG (r : EGRules) (nuGiven : Bool) : Machine EGState := ⟨egInit nuGiven, egStep r⟩

/-- the `nu` a fresh estimator of this configuration uses on `d` -/
def egFreshNu (nuGiven : Bool) (d : Data) : Nu := if nuGiven then .given else .auto d

def egCls (nuGiven : Bool) (s : EGState) : Cls :=
  match s.fitted with
  | none => if s.started then .broken .attribute else .unfitted
  | some (d, nu) =>
    if nu = egFreshNu nuGiven d then .fresh d
    else match nu with
      | .auto d' => .staleNu d d'
      | .given => .other

def egParams (s : EGState) : Moment × Option Nu := (s.constraints, s.nuParam)

/-! ### ThresholdOptimizer -/

/-- A base learner in the worst case is history dependent: it is described by the list of data sets the
    *object* has been fitted on.  `clone` gives an object with an empty history. -/
structure TOState where
  userEstimator : List Data          -- fit history of the object passed as `estimator`
  fitted : Option (List Data × Data) -- (fit history of `estimator_`, data the thresholds were computed on)
deriving DecidableEq, Repr

def toInit : TOState := ⟨[], none⟩

/-- `clonePerFit = true` is the code (`self.estimator_ = clone(self.estimator)` then fit, prefit=False);
    `false` is the hypothetical "fit the user's object in place". -/
def toStep (clonePerFit : Bool) (s : TOState) : Op → TOState × Res
  | .fit d =>
    if clonePerFit then ({ s with fitted := some ([d], d) }, .retSelf)
    else ({ userEstimator := s.userEstimator ++ [d], fitted := some (s.userEstimator ++ [d], d) }, .retSelf)
  | .predict _ => (s, if s.fitted.isSome then .ok else .raised .notFitted)
  | .pickle => (s, .ok)
  -- clone clones the nested estimator: the copy has no fit history
  | .clone => (⟨[], none⟩, .ok)

def TO (clonePerFit : Bool) : Machine TOState := ⟨toInit, toStep clonePerFit⟩

def toCls (s : TOState) : Cls :=
  match s.fitted with
  | none => .unfitted
  | some (h, d) => if h = [d] then .fresh d else .other

def toParams (s : TOState) : List Data := s.userEstimator

/-! ### ThresholdOptimizer with `prefit=True` (_threshold_optimizer.py:317-327)

The user passes an estimator object that is already fitted; `fit` only checks it (`check_is_fitted`, a warning if
not), aliases it (`self.estimator_ = self.estimator`) and computes the thresholds from its scores.  It must never
call `fit` on the user's object.  `clone` clones the nested estimator, which drops its fitted state. -/

structure TOPreState where
  user : List Data                   -- fit history of the object passed as `estimator` ([] = unfitted)
  estimatorSet : Bool                -- `estimator_` exists (set before the scores are computed)
  fitted : Option (List Data × Data) -- (history of `estimator_` when the thresholds were computed, data used)
deriving DecidableEq, Repr

def toPreInit (h0 : List Data) : TOPreState := ⟨h0, false, none⟩

/-- `refits = false` is the code; `true` is the hypothetical "fit the user's object although prefit=True". -/
def toPreStep (refits : Bool) (s : TOPreState) : Op → TOPreState × Res
  | .fit d =>
    if refits then (⟨s.user ++ [d], true, some (s.user ++ [d], d)⟩, .retSelf)
    else if s.user.isEmpty then
      -- unfitted base learner: `_get_soft_predictions` fails after `estimator_` has been set
      ({ s with estimatorSet := true, fitted := none }, .raised .attribute)
    else (⟨s.user, true, some (s.user, d)⟩, .retSelf)
  | .predict _ =>
    (s, match s.fitted with
      | some _ => .ok
      | none => if s.estimatorSet then .raised .attribute else .raised .notFitted)
  | .pickle => (s, .ok)
  | .clone => (⟨[], false, none⟩, .ok)

def TOPre (refits : Bool) (h0 : List Data) : Machine TOPreState := ⟨toPreInit h0, toPreStep refits⟩

/-- fresh twin = a new ThresholdOptimizer(prefit=True) around the same, untouched fitted object (history `h0`) -/
def toPreCls (h0 : List Data) (s : TOPreState) : Cls :=
  match s.fitted with
  | none => if s.estimatorSet then .broken .attribute else .unfitted
  | some (h, d) => if h = h0 then .fresh d else .other

/-! ### CorrelationRemover -/

structure CRState where
  nFeatures : Option Nat             -- `_n_features_in_` (absent before the first fit)
  fitted : Option Data               -- `beta_`, `sensitive_mean_`, `lookup_` computed on d
deriving DecidableEq, Repr

def crInit : CRState := ⟨none, none⟩

def crStep (r : Rule) (s : CRState) : Op → CRState × Res
  | .fit d =>
    match r, s.nFeatures with
    | .current, some w =>
      -- `first_call = not hasattr(self, "_n_features_in_")`; `if not first_call: if w != X.shape[1]: raise`
      if w ≠ d.width then (s, .raised .value) else (⟨some d.width, some d⟩, .retSelf)
    | _, _ => (⟨some d.width, some d⟩, .retSelf)
  | .predict _ => (s, if s.fitted.isSome then .ok else .raised .notFitted)
  | .pickle => (s, .ok)
  | .clone => (⟨none, none⟩, .ok)

def CR (r : Rule) : Machine CRState := ⟨crInit, crStep r⟩

def crCls (s : CRState) : Cls :=
  match s.fitted with
  | none => .unfitted
  | some d => .fresh d

/-! ### adversarial estimators -/

structure AdvState where
  hasClasses : Bool                  -- `classes_` exists
  isSetup : Bool                     -- `_is_setup` exists (= `__sklearn_is_fitted__`)
  engine : Option (List Data)        -- `backendEngine_`: absent / data sets its networks were trained on
deriving DecidableEq, Repr

def advInit : AdvState := ⟨false, false, none⟩

/-- `BackendEngine.__init__` (_backend_engine.py:41): keep the networks only under warm_start with an
    existing engine, otherwise build new ones (seeded from `random_state`). -/
def newEngine (warmStart : Bool) (old : Option (List Data)) : List Data :=
  match warmStart, old with
  | true, some h => h
  | _, _ => []

def advStep (r : Rule) (warmStart : Bool) (s : AdvState) : Op → AdvState × Res
  | .fit d =>
    -- fit: `first_call = not hasattr(self, "classes_")`; `_validate_input(..., reinitialize=first_call)`
    -- runs `__setup` iff `not is_fitted or reinitialize`.
    -- Repaired: `reinitialize = first_call or not self.warm_start`.
    let setup : Bool := match r with
      | .current => !s.isSetup || !s.hasClasses
      | .repaired => !s.isSetup || !s.hasClasses || !warmStart
    let eng : List Data := if setup then newEngine warmStart s.engine else (s.engine.getD [])
    (⟨true, true, some (eng ++ [d])⟩, .retSelf)
  | .predict _ => (s, if s.isSetup then .ok else .raised .notFitted)
  | .pickle => (s, if s.engine.isSome then .raised .pickling else .ok)
  | .clone => (advInit, .ok)

def Adv (r : Rule) (warmStart : Bool) : Machine AdvState := ⟨advInit, advStep r warmStart⟩

def advCls (s : AdvState) : Cls :=
  if !s.isSetup then .unfitted
  else match s.engine with
    | none => .broken .attribute
    | some [d] => .fresh d
    | some _ => .other

/-! ### driver glue -/

def Err.fmt : Err → String
  | .assertion => "AssertionError"
  | .value => "ValueError"
  | .notFitted => "NotFittedError"
  | .index => "IndexError"
  | .attribute => "AttributeError"
  | .pickling => "PicklingError"

def Res.fmt : Res → String
  | .retSelf => "self"
  | .retNone => "none"
  | .ok => "ok"
  | .raised e => "raise." ++ e.fmt

def Cls.fmt : Cls → String
  | .unfitted => "U"
  | .fresh d => "D" ++ toString d.id
  | .staleNu d d' => "D" ++ toString d.id ++ "@nu" ++ toString d'.id
  | .other => "X"
  | .broken e => "B." ++ e.fmt

def parseRule (c : Char) : Option Rule :=
  if c = '0' then some .current else if c = '1' then some .repaired else none

def parseMomentRule (c : Char) : Option MomentRule :=
  if c = '0' then some .latched else if c = '1' then some .copyPerFit else if c = '2' then some .reentrant else none

def parseFlag (c : Char) : Option Bool :=
  if c = '0' then some false else if c = '1' then some true else none

/-- ops: `f<k>` fit data set k (1-based index into the width list), `p<seed>` predict, `k` pickle, `c` clone -/
def parseOp (widths : List Nat) (t : String) : Option Op :=
  match t.toList with
  | ['k'] => some .pickle
  | ['c'] => some .clone
  | 'p' :: rest => (String.ofList rest).toNat?.map .predict
  | 'f' :: rest =>
    match (String.ofList rest).toNat? with
    | some (k + 1) => (widths[k]?).map (fun w => .fit ⟨k + 1, w⟩)
    | _ => none
  | _ => none

def fmtView (v : List (Res × Cls)) (changed : List String) : String :=
  if v.isEmpty then "-" else
  ";".intercalate ((v.zip changed).map (fun (p, c) => p.1.fmt ++ ":" ++ p.2.fmt ++ ":" ++ c))

/-- per-operation "which tracked constructor parameter changed" column of the output -/
def changedCol {σ π : Type} [DecidableEq π] (M : Machine σ) (params : σ → π) (name : String)
    (ops : List Op) : List String :=
  let states := M.trace ops |>.map (·.2)
  let befores := M.init :: states
  (befores.zip states).map (fun (a, b) => if params a = params b then "-" else name)

/-- keep a changed-parameter entry only at `fit` operations (a clone is another object, not a change of this one) -/
def onlyAtFit (ops : List Op) (cs : List String) : List String :=
  (ops.zip cs).map (fun (o, c) => match o with | .fit _ => c | _ => "-")

/-- `lifecycle.run <machine> <rule bits> <config bits> <widths> <ops>`
    machine ∈ spec|to|cr|gs|eg|adv; rule bits (0 = today's rule, 1 = repaired; moment: 0 latched, 1 copy per
    fit, 2 re-entrant): gs = ret,moment; eg = moment,nu; cr = width; adv = setup;
    to = "-"; config bits: to = clonePerFit, eg = nuGiven, adv = warmStart, others "-".
    output: `res:cls:changed-param` per operation, `;`-separated. -/
def handle (toks : List String) : Option String :=
  match toks with
  | ["lifecycle.run", m, rules, cfg, widths, ops] => do
    let widths ← Proto.parseNats widths
    let ops ← Proto.parseList (parseOp widths) ops
    match m, rules.toList, cfg.toList with
    | "spec", ['-'], ['-'] =>
      pure (fmtView (Spec.view specCls ops) (ops.map (fun _ => "-")))
    | "to", ['-'], [c] => do
      let c ← parseFlag c
      pure (fmtView ((TO c).view toCls ops) (changedCol (TO c) toParams "estimator" ops))
    | "topre", ['-'], [c] => do
      -- config bit: 1 = the code (alias, no refit), 0 = hypothetical refit of the user's object; the user's estimator
      -- was fitted once on a data set of its own (id 9)
      let c ← parseFlag c
      let h0 : List Data := [⟨9, 3⟩]
      pure (fmtView ((TOPre (!c) h0).view (toPreCls h0) ops)
        (onlyAtFit ops (changedCol (TOPre (!c) h0) (fun s => s.user) "estimator(refitted)" ops)))
    | "cr", [r], ['-'] => do
      let r ← parseRule r
      pure (fmtView ((CR r).view crCls ops) (ops.map (fun _ => "-")))
    | "gs", [a, b], ['-'] => do
      let r : GSRules := ⟨← parseRule a, ← parseMomentRule b⟩
      -- the constraints *parameter* is the same object throughout; loading it is not a parameter change
      pure (fmtView ((GS r).view gsCls ops) (ops.map (fun _ => "-")))
    | "eg", [a, b], [c] => do
      let r : EGRules := ⟨← parseMomentRule a, ← parseRule b⟩
      let c ← parseFlag c
      pure (fmtView ((EG r c).view (egCls c) ops) (changedCol (EG r c) (fun s => s.nuParam) "nu" ops))
    | "adv", [r], [c] => do
      let r ← parseRule r
      let c ← parseFlag c
      pure (fmtView ((Adv r c).view advCls ops) (ops.map (fun _ => "-")))
    | _, _, _ => none
  | _ => none

end Lifecycle
