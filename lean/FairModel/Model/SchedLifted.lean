/-
Interpreter of the schedule configuration lifted from the source (`Generated/AdvScheduleSrc.lean`, a `SchedCfg.Cfg`):
the nested `for epoch in range(epochs): for batch in range(batches):` loops of
fairlearn/adversarial/_adversarial_mitigation.py `fit`, executing the statements of the batch loop in the lifted
ORDER with the lifted expressions, for a list of callbacks (each one = the predicate "returns True when called with
this `step`").  `fitSrc` is this interpreter at the lifted configuration; `Lemmas/SchedLifted.lean` proves that at
the reference configuration it is the `Schedule` model (flat schedule, fold of single steps), `Properties/C17.lean`
that the lifted configuration IS the reference one.

The decision rules of `predict` are interpreted from the lifted `Decision`s in the same way.
Core Lean only.
-/
import FairModel.Model.Schedule
import FairModel.Model.SchedCfg
import FairModel.Generated.AdvScheduleSrc

namespace SchedL
open SchedCfg

/-- Python-side encoding of an optional positive parameter: `none` is the sentinel `-1` -/
def enc : Option Nat → Int
  | none => -1
  | some k => (k : Int)

structure St (σ : Type) where
  state : σ
  /-- `self.n_iter_` -/
  nIter : Int
  /-- `return self` was executed -/
  returned : Bool
  /-- `break` was executed in the current epoch -/
  broke : Bool
  /-- callback invocations so far: (position in `callbacks_`, `step=` argument) -/
  calls : List (Nat × Int)

def accF : Acc → Bool → Bool → Bool
  | .orAcc, s, r => s || r
  | .andAcc, s, r => s && r
  | .last, _, r => r

/-- `for cb in self.callbacks_: result = cb(self, step=k, ..); stop = <acc>` -/
def runCbs (acc : Acc) (k : Int) : List (Int → Bool) → Nat → Bool → List (Nat × Int) → Bool × List (Nat × Int)
  | [], _, stop, calls => (stop, calls)
  | cb :: r, i, stop, calls => runCbs acc k r (i + 1) (accF acc stop (cb k)) (calls ++ [(i, k)])

def doExit {σ : Type} (e : Exit) (st : St σ) : St σ :=
  match e with
  | .returnSelf => { st with returned := true }
  | .breakInner => { st with broke := true }

def execEv {σ : Type} (cfg : Cfg) (maxIter : Int) (cbs : List (Int → Bool)) (trainStep : σ → Nat → Nat → σ)
    (lo hi : Nat) (st : St σ) : Ev → St σ
  | .train => { st with state := trainStep st.state lo hi }
  | .incIter => { st with nIter := cfg.incIter st.nIter }
  | .checkMax => if cfg.hitMax maxIter st.nIter then doExit cfg.exitMax st else st
  | .callbacks =>
    -- `if self.callbacks_:` (None or a non-empty list)
    if cbs.isEmpty then st else
    let r := runCbs cfg.stopAcc (cfg.cbStep st.nIter) cbs 0 cfg.stopInit st.calls
    let st' := { st with calls := r.2 }
    if r.1 then doExit cfg.exitStop st' else st'

/-- the rows `X[batch_slice]` of batch number `k` -/
def sliceSrc (cfg : Cfg) (n b : Int) (k : Nat) : Nat × Nat :=
  ((cfg.sliceLo k b n).toNat, (cfg.sliceHi k b n).toNat)

/-- one pass through the body of the batch loop -/
def bodyStep {σ : Type} (cfg : Cfg) (maxIter : Int) (cbs : List (Int → Bool)) (trainStep : σ → Nat → Nat → σ)
    (b n : Int) (st : St σ) (batch : Nat) : St σ :=
  if st.returned || st.broke then st else
  let sl := sliceSrc cfg n b batch
  cfg.body.foldl (fun st ev => if st.returned || st.broke then st else execEv cfg maxIter cbs trainStep sl.1 sl.2 st ev) st

/-- one pass through the body of the epoch loop (shuffle = False) -/
def epochStep {σ : Type} (cfg : Cfg) (maxIter : Int) (cbs : List (Int → Bool)) (trainStep : σ → Nat → Nat → σ)
    (b n bt : Int) (st : St σ) (_epoch : Nat) : St σ :=
  if st.returned then st else
  let st' := (List.range bt.toNat).foldl (bodyStep cfg maxIter cbs trainStep b n) { st with broke := false }
  { st' with broke := false }

/-- `fit(X, y)` with `X.shape[0] = n`; `bs`, `ep`, `mi` are the Python values of batch_size / epochs / max_iter
    (`-1` = unset); `none` = ValueError -/
def fit {σ : Type} (cfg : Cfg) (n : Nat) (bs ep mi : Int) (cbs : List (Int → Bool)) (trainStep : σ → Nat → Nat → σ)
    (s0 : σ) : Option (St σ) :=
  if cfg.rejects ep mi then none else
  let b := cfg.batchSize bs n
  let bt := cfg.batches n b
  let e := cfg.epochs ep mi bt
  some ((List.range e.toNat).foldl (epochStep cfg mi cbs trainStep b n bt) ⟨s0, cfg.nIterInit, false, false, []⟩)

/-- the slices of one epoch, from the lifted expressions -/
def epochSlicesSrc (cfg : Cfg) (n : Nat) (bs : Int) : List (Nat × Nat) :=
  let b := cfg.batchSize bs n
  (List.range (cfg.batches n b).toNat).map (sliceSrc cfg n b)

/-- the interpreter at the configuration lifted from the source -/
def fitSrc {σ : Type} := @fit σ AdvScheduleSrc.cfg

/-- the callback invocations the property documents for a list of executed steps and `m` callbacks:
    after every step whose `callbackFired` flag is set, all callbacks in list order with that step's number -/
def callsOf (m : Nat) (steps : List Schedule.Step) : List (Nat × Int) :=
  steps.flatMap (fun s => if s.callbackFired then (List.range' 0 m).map (fun i => (i, (s.stepNo : Int))) else [])

/-! ### the callback block with the lifted guard and the lifted check of the callbacks' results -/

/-- what a callback returned, as far as the source looks at it: its truth value and `isinstance(result, bool)` -/
structure CbRes where
  truthy : Bool
  isBool : Bool

def checkRes : ResultCheck → CbRes → Option ExcKind
  | .coerce, _ => none
  | .truthyNonBool e, r => if r.truthy && !r.isBool then some e else none
  | .nonBool e, r => if !r.isBool then some e else none

structure StV (σ : Type) where
  st : St σ
  /-- an exception left `fit` -/
  raised : Option ExcKind

/-- `for cb in self.callbacks_: result = cb(..); <check>; stop = <acc>`: a failing check leaves the loop at once -/
def runCbsV (acc : Acc) (chk : ResultCheck) (k : Int) :
    List (Int → CbRes) → Nat → Bool → List (Nat × Int) → Bool × List (Nat × Int) × Option ExcKind
  | [], _, stop, calls => (stop, calls, none)
  | cb :: r, i, stop, calls =>
    match checkRes chk (cb k) with
    | some e => (stop, calls ++ [(i, k)], some e)
    | none => runCbsV acc chk k r (i + 1) (accF acc stop (cb k).truthy) (calls ++ [(i, k)])

def cbBlockV {σ : Type} (cfg : Cfg) (chk : ResultCheck) (cbs : List (Int → CbRes)) (s : St σ) : StV σ :=
  let r := runCbsV cfg.stopAcc chk (cfg.cbStep s.nIter) cbs 0 cfg.stopInit s.calls
  let st' := { s with calls := r.2.1 }
  match r.2.2 with
  | some e => ⟨st', some e⟩
  | none => ⟨if r.1 then doExit cfg.exitStop st' else st', none⟩

def execEvV {σ : Type} (cfg : Cfg) (g : CbGuard) (chk : ResultCheck) (maxIter : Int) (cbs : List (Int → CbRes))
    (trainStep : σ → Nat → Nat → σ) (lo hi : Nat) (s : StV σ) : Ev → StV σ
  | .callbacks =>
    match g with
    | .truthy => if cbs.isEmpty then s else cbBlockV cfg chk cbs s.st
    | .unguarded => if cbs.isEmpty then { s with raised := some .typeError } else cbBlockV cfg chk cbs s.st
  | .train => { s with st := execEv cfg maxIter [] trainStep lo hi s.st .train }
  | .incIter => { s with st := execEv cfg maxIter [] trainStep lo hi s.st .incIter }
  | .checkMax => { s with st := execEv cfg maxIter [] trainStep lo hi s.st .checkMax }

def haltedV {σ : Type} (s : StV σ) : Bool := s.raised.isSome || s.st.returned || s.st.broke

def bodyStepV {σ : Type} (cfg : Cfg) (g : CbGuard) (chk : ResultCheck) (maxIter : Int) (cbs : List (Int → CbRes))
    (trainStep : σ → Nat → Nat → σ) (b n : Int) (s : StV σ) (batch : Nat) : StV σ :=
  if haltedV s then s else
  let sl := sliceSrc cfg n b batch
  cfg.body.foldl (fun s ev => if haltedV s then s else execEvV cfg g chk maxIter cbs trainStep sl.1 sl.2 s ev) s

def epochStepV {σ : Type} (cfg : Cfg) (g : CbGuard) (chk : ResultCheck) (maxIter : Int) (cbs : List (Int → CbRes))
    (trainStep : σ → Nat → Nat → σ) (b n bt : Int) (s : StV σ) (_epoch : Nat) : StV σ :=
  if s.raised.isSome || s.st.returned then s else
  let s' := (List.range bt.toNat).foldl (bodyStepV cfg g chk maxIter cbs trainStep b n) { s with st := { s.st with broke := false } }
  if s'.raised.isSome then s' else { s' with st := { s'.st with broke := false } }

/-- `fit` with callbacks that may return anything; `none` = rejected configuration (ValueError) -/
def fitV {σ : Type} (cfg : Cfg) (g : CbGuard) (chk : ResultCheck) (n : Nat) (bs ep mi : Int) (cbs : List (Int → CbRes))
    (trainStep : σ → Nat → Nat → σ) (s0 : σ) : Option (StV σ) :=
  if cfg.rejects ep mi then none else
  let b := cfg.batchSize bs n
  let bt := cfg.batches n b
  let e := cfg.epochs ep mi bt
  some ((List.range e.toNat).foldl (epochStepV cfg g chk mi cbs trainStep b n bt) ⟨⟨s0, cfg.nIterInit, false, false, []⟩, none⟩)

/-- the interpreter at the lifted configuration, guard and result check -/
def fitVSrc {σ : Type} := @fitV σ AdvScheduleSrc.cfg AdvScheduleSrc.cbGuard AdvScheduleSrc.cbResultCheck

/-- outcome of `fit` on a fresh estimator -/
inductive FitOut (σ : Type) where
  /-- `__setup` (run by `_validate_input`, before anything else) rejected batch_size / epochs / max_iter -/
  | setupError (e : ExcKind)
  /-- epochs and max_iter both unset: ValueError after the set-up -/
  | rejected
  | done (r : StV σ)

/-- `fit` for ANY integer batch_size / epochs / max_iter: the lifted range checks of `__setup` come first -/
def fitChecked {σ : Type} (n : Nat) (bs ep mi : Int) (cbs : List (Int → CbRes)) (trainStep : σ → Nat → Nat → σ) (s0 : σ) :
    FitOut σ :=
  if AdvScheduleSrc.paramRejected bs || AdvScheduleSrc.paramRejected ep || AdvScheduleSrc.paramRejected mi then
    .setupError AdvScheduleSrc.paramRejectedExc
  else match fitVSrc n bs ep mi cbs trainStep s0 with
    | none => .rejected
    | some r => .done r

/-! ### predict -/

/-- column chosen by a decision rule for one row of raw outputs (binary: the single output `o` against `t`) -/
def decideBinary (d : Decision) (t o : Rat) : Option Nat :=
  match d with
  | .threshold c => some (if c.eval o t then 1 else 0)
  | _ => none

def minOf : List Rat → Rat
  | [] => 0
  | [x] => x
  | x :: y :: r => let m := minOf (y :: r); if m < x then m else x

def decideMulti (d : Decision) (o : List Rat) : Option Nat :=
  match d with
  | .argmaxRow => some (Schedule.argmaxFirst o)
  | .argminRow => some (o.findIdx (fun v => v == minOf o))
  | _ => none

def predictBinarySrc (classes : List Int) (t o : Rat) : Option Int :=
  (decideBinary AdvScheduleSrc.binaryRule t o).bind (Schedule.labelAt classes)

def predictMultiSrc (classes : List Int) (o : List Rat) : Option Int :=
  (decideMulti AdvScheduleSrc.multiclassRule o).bind (Schedule.labelAt classes)

/-! ### driver glue -/

def parseCbs (s : String) : Option (List (List Nat)) :=
  if s = "x" then some [] else (s.splitOn ";").mapM Proto.parseNats

def parseSentinel (s : String) : Option Int :=
  if s = "-1" then some (-1) else (Proto.parseNat s).bind (fun k => if k = 0 then none else some (k : Int))

/-- one callback of `schedsrc.fitv`: `<steps returning True>|<steps returning a truthy non-bool>|<b: otherwise False, o: otherwise a falsy non-bool (None, 0)>` -/
def parseCbV (s : String) : Option (Int → CbRes) :=
  match s.splitOn "|" with
  | [t, nb, d] => do
    let t ← if t = "" then some [] else Proto.parseNats t
    let nb ← if nb = "" then some [] else Proto.parseNats nb
    let dflt ← if d = "b" then some true else if d = "o" then some false else none
    pure (fun k => if nb.any (fun s => (s : Int) == k) then ⟨true, false⟩
                   else if t.any (fun s => (s : Int) == k) then ⟨true, true⟩ else ⟨false, dflt⟩)
  | _ => none

def fmtExc : Option ExcKind → String
  | none => "-"
  | some .runtimeError => "RuntimeError"
  | some .valueError => "ValueError"
  | some .typeError => "TypeError"

def fmtPairs {α β} (f : α → String) (g : β → String) (l : List (α × β)) : String :=
  if l.isEmpty then "-" else ",".intercalate (l.map (fun p => f p.1 ++ ":" ++ g p.2))

/-- ops:
  `schedsrc.fit <n> <batch_size|-1> <epochs|-1> <max_iter|-1> <x | stops of cb0;stops of cb1;...>`
        -> `err` | `<n_iter> <slices lo:hi,...> <calls cb:step,...>`   (interpreter at the LIFTED configuration)
  `schedsrc.fitv <n> <batch_size|-1> <epochs|-1> <max_iter|-1> <x | T|N|d;T|N|d;...>`  (see `parseCbV`)
        -> `setup:<exception kind>` (a parameter fails the lifted range check; ANY integers are accepted here) | `err` |
           `<n_iter> <slices> <calls> <- | exception kind>`   (lifted guard and result check)
  `schedsrc.predbin <classes> <threshold | d (lifted default)> <outputs>` -> labels | `unmodelled`
  `schedsrc.predmulti <classes> <output matrix>`                          -> labels | `unmodelled` -/
def handle (toks : List String) : Option String :=
  match toks with
  | ["schedsrc.fit", n, bs, ep, mi, cbs] => do
    let n ← Proto.parseNat n
    let bs ← parseSentinel bs
    let ep ← parseSentinel ep
    let mi ← parseSentinel mi
    let cbs ← parseCbs cbs
    if n = 0 then none else
    let preds : List (Int → Bool) := cbs.map (fun stops => fun k => stops.any (fun s => (s : Int) == k))
    match fitSrc n bs ep mi preds (fun (log : List (Nat × Nat)) lo hi => log ++ [(lo, hi)]) [] with
    | none => pure "err"
    | some r => pure (toString r.nIter ++ " " ++ fmtPairs toString toString r.state ++ " " ++
        fmtPairs toString toString r.calls)
  | ["schedsrc.fitv", n, bs, ep, mi, cbs] => do
    let n ← Proto.parseNat n
    -- any integers: the domain guard is the LIFTED range check of `__setup` (inside `fitChecked`)
    let bs ← Proto.parseInt bs
    let ep ← Proto.parseInt ep
    let mi ← Proto.parseInt mi
    let cbs ← if cbs = "x" then some [] else (cbs.splitOn ";").mapM parseCbV
    if n = 0 then none else
    match fitChecked n bs ep mi cbs (fun (log : List (Nat × Nat)) lo hi => log ++ [(lo, hi)]) [] with
    | .setupError e => pure ("setup:" ++ fmtExc (some e))
    | .rejected => pure "err"
    | .done r => pure (toString r.st.nIter ++ " " ++ fmtPairs toString toString r.st.state ++ " " ++
        fmtPairs toString toString r.st.calls ++ " " ++ fmtExc r.raised)
  | ["schedsrc.predbin", cls, t, outs] => do
    let cls ← Proto.parseInts cls
    let t ← if t = "d" then some AdvScheduleSrc.thresholdDefault else Proto.parseRat t
    let outs ← Proto.parseRats outs
    if cls.length ≠ 2 then none else
    match outs.mapM (predictBinarySrc cls t) with
    | some labs => pure (Proto.fmtInts labs)
    | none => pure "unmodelled"
  | ["schedsrc.predmulti", cls, m] => do
    let cls ← Proto.parseInts cls
    let m ← Proto.parseMat m
    if cls.length < 3 || m.any (fun r => r.length ≠ cls.length) then none else
    match m.mapM (predictMultiSrc cls) with
    | some labs => pure (Proto.fmtInts labs)
    | none => pure "unmodelled"
  | _ => none

end SchedL
