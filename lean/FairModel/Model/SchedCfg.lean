/-
Vocabulary of the configuration that `harness/lifters/adv_schedule.py` lifts from
fairlearn/adversarial/_adversarial_mitigation.py (`fit`, `partial_fit`, `predict`, `_set_predictor_function`,
`_binary_predictor_function`) and _preprocessor.py (`FloatTransformer.inverse_transform`).
`Generated/AdvScheduleSrc.lean` imports this file and fills a `Cfg`; `Model/SchedLifted.lean` interprets it.
Core Lean only.

Integers are Python ints: `-1` is the "unset" sentinel of batch_size / epochs / max_iter.
-/

namespace SchedCfg

/-- Python `math.ceil(a / b)` on ints (true division then ceiling; exact below 2^53): `-⌊-a / b⌋` -/
def pyCeilDiv (a b : Int) : Int := -((-a).fdiv b)

/-- Python `math.floor(a / b)` and `a // b` on ints -/
def pyFloorDiv (a b : Int) : Int := a.fdiv b

/-- the statements of the inner loop body that matter for the schedule, in source order -/
inductive Ev where
  /-- `self.backendEngine_.train_step(X[batch_slice], y[batch_slice], A[batch_slice])` -/
  | train
  /-- `self.n_iter_ += 1` (the lifted `incIter` expression) -/
  | incIter
  /-- `if <hitMax>: return self` -/
  | checkMax
  /-- `if self.callbacks_: stop = <init>; for cb in self.callbacks_: result = cb(self, step=..); stop = <acc>; if stop: return self` -/
  | callbacks
deriving DecidableEq, Repr

/-- how the results of the callbacks are accumulated -/
inductive Acc where
  /-- `stop = stop or result` -/
  | orAcc
  /-- `stop = stop and result` -/
  | andAcc
  /-- `stop = result` / `stop = bool(result)`: the last callback decides -/
  | last
deriving DecidableEq, Repr

/-- how a stop condition leaves the loops -/
inductive Exit where
  /-- `return self`: leaves both loops -/
  | returnSelf
  /-- `break`: leaves the batch loop only, the next epoch starts -/
  | breakInner
deriving DecidableEq, Repr

inductive Cmp where
  | ge | gt | le | lt
deriving DecidableEq, Repr

def Cmp.eval : Cmp → Rat → Rat → Bool
  | .ge, a, b => decide (b ≤ a)
  | .gt, a, b => decide (b < a)
  | .le, a, b => decide (a ≤ b)
  | .lt, a, b => decide (a < b)

/-- where `X, y, A = self.backendEngine_.shuffle(X, y, A)` stands -/
inductive ShuffleAt where
  /-- first statement of the epoch loop, before the batch loop -/
  | perEpoch
  /-- inside the batch loop -/
  | perBatch
  /-- before the epoch loop -/
  | beforeLoops
  | never
deriving DecidableEq, Repr

/-- decision rule of a `predictor_function_` keyword -/
inductive Decision where
  /-- `(pred <cmp> self.threshold_value).astype(float)` -/
  | threshold (c : Cmp)
  /-- one-hot of `argmax(pred, axis=1)` (numpy: FIRST maximal entry of each row) -/
  | argmaxRow
  /-- one-hot of `argmin(pred, axis=1)` -/
  | argminRow
  /-- `lambda pred: pred` -/
  | identity
deriving DecidableEq, Repr

/-- the stages of `predict`, in source order -/
inductive Stage where
  /-- `self._raw_predict(X)` -/
  | rawPredict
  /-- `self.predictor_function_(y_pred)` -/
  | predictorFunction
  /-- `self._y_transform.inverse_transform(y_pred)` -/
  | inverseTransform
deriving DecidableEq, Repr

/-- the guard around the callback block of the batch loop -/
inductive CbGuard where
  /-- `if self.callbacks_:` (`callbacks_` is None or a non-empty list): no callbacks, no block -/
  | truthy
  /-- no guard: `for cb in self.callbacks_` with `callbacks_ = None` raises TypeError -/
  | unguarded
deriving DecidableEq, Repr

inductive ExcKind where
  | runtimeError | valueError | typeError
deriving DecidableEq, Repr

/-- what happens to the value a callback returns, before it is accumulated into the stop flag -/
inductive ResultCheck where
  /-- no check: the truth value of whatever was returned is used -/
  | coerce
  /-- `if result and not isinstance(result, bool): raise <e>`: falsy values of any type count as False -/
  | truthyNonBool (e : ExcKind)
  /-- `if not isinstance(result, bool): raise <e>` -/
  | nonBool (e : ExcKind)
deriving DecidableEq, Repr

structure Cfg where
  /-- `(self.epochs, self.max_iter)`: the configuration is rejected with ValueError -/
  rejects : Int → Int → Bool
  /-- `(self.batch_size, X.shape[0])` ↦ `batch_size` -/
  batchSize : Int → Int → Int
  /-- `(X.shape[0], batch_size)` ↦ `batches` -/
  batches : Int → Int → Int
  /-- `(self.epochs, self.max_iter, batches)` ↦ `epochs` -/
  epochs : Int → Int → Int → Int
  /-- `self.n_iter_ = <const>` before the loops -/
  nIterInit : Int
  /-- `(batch, batch_size, X.shape[0])` ↦ lower / upper bound of `batch_slice` -/
  sliceLo : Int → Int → Int → Int
  sliceHi : Int → Int → Int → Int
  /-- `self.n_iter_` ↦ its value after the increment statement -/
  incIter : Int → Int
  /-- `(self.max_iter, self.n_iter_)` ↦ the max_iter test -/
  hitMax : Int → Int → Bool
  exitMax : Exit
  /-- `stop = <const>` before the callback loop -/
  stopInit : Bool
  stopAcc : Acc
  /-- `self.n_iter_` ↦ the `step=` argument of the callbacks -/
  cbStep : Int → Int
  exitStop : Exit
  body : List Ev

/-- the schedule as the property documents it; `Lemmas/SchedLifted.lean` proves that its interpretation is the
    `Schedule` model, `C17.lifted_cfg` that the lifted configuration equals it -/
def reference : Cfg where
  rejects := fun e m => (e == -1) && (m == -1)
  batchSize := fun sbs n => if sbs == -1 then n else sbs
  batches := fun n b => pyCeilDiv n b
  epochs := fun se sm bt => if se == -1 then pyCeilDiv sm bt else se
  nIterInit := 0
  sliceLo := fun k b _ => k * b
  sliceHi := fun k b n => min ((k + 1) * b) n
  incIter := fun i => i + 1
  hitMax := fun m i => (m != -1) && decide (m ≤ i)
  exitMax := .returnSelf
  stopInit := false
  stopAcc := .orAcc
  cbStep := fun i => i
  exitStop := .returnSelf
  body := [.train, .incIter, .checkMax, .callbacks]

end SchedCfg
