/-
Model of the aggregates of `fairlearn.metrics.MetricFrame`
(`DisaggregatedResult.apply_grouping / difference / ratio`, `_disaggregated_result.py:97-291`,
and the cache / unwrapping of `_metric_frame.py:313-395`).  Core Lean only.

One metric column at a time: `byGroup : List (Key × Cell)` indexed by control ++ sensitive
values, `overall : List (Key × Cell)` indexed by the control values (the empty key when there are
no control features).  All arithmetic is IEEE-style on `XR` (`Model/XRArith.lean`): NaN cells are
skipped by min/max (`skipna=True`), `x/0` is ±inf or NaN.
Which grouping function each aggregate uses, and `ratio_sub_one`, come from the GENERATED file
`Generated/AggregateSpec.lean` (lifted from the Python source on every run).
-/
import FairModel.Model.Frame
import FairModel.Model.XRArith
import FairModel.Generated.AggregateSpec

namespace Aggregate
open Frame

inductive Method where
  | between | toOverall
deriving Repr, DecidableEq

inductive Errors where
  | raise | coerce
deriving Repr, DecidableEq

structure Tables where
  ncf : Nat
  byGroup : List (Key × Cell)
  overall : List (Key × Cell)
  /-- some OTHER column of the same frame holds a non-scalar cell (pandas aggregates the frame as a
      whole, so with `errors='raise'` that makes this column fail as well) -/
  othersNonscalar : Bool
deriving Repr

/-- the tables MetricFrame builds for one metric `f` (`DisaggregatedResult.create`) -/
def ofFrame {α : Type} (ncf nsf : Nat) (f : List α → Cell) (rows : List (Row α)) : Tables :=
  ⟨ncf, byGroup Cell.nan ncf nsf f rows, overall Cell.nan ncf f rows, false⟩

/-- `lambda y: y if np.isscalar(y) else np.nan` -/
def coerce : Cell → XR
  | .scalar x => x
  | .nonscalar => .nan
  | .raised => .nan

def isNonscalar : Cell → Bool
  | .nonscalar => true
  | _ => false

/-- does the frame contain a non-scalar cell -/
def hasNonscalar (t : Tables) : Bool :=
  t.othersNonscalar || t.byGroup.any (fun e => isNonscalar e.2) || t.overall.any (fun e => isNonscalar e.2)

/-- control part of a `by_group` index tuple -/
def stratumOf (t : Tables) (k : Key) : Key := k.take t.ncf

/-- `groupby(level=control_feature_names)`: the control combinations present in the by_group
    index (just the empty tuple when there are no control features) -/
def strata (t : Tables) : List Key := uniq (t.byGroup.map (fun e => stratumOf t e.1))

/-- the (coerced) values of the sensitive-feature groups of stratum `c` -/
def vals (t : Tables) (c : Key) : List XR :=
  (t.byGroup.filter (fun e => stratumOf t e.1 == c)).map (fun e => coerce e.2)

/-- `self.overall` at stratum `c` (NaN if the label is missing: pandas alignment) -/
def overallAt (t : Tables) (c : Key) : XR :=
  match t.overall.lookup c with
  | some cell => coerce cell
  | none => .nan

/-- `apply_grouping(grouping_function, control_feature_names, errors)` -/
def applyGrouping (g : Grouping) (e : Errors) (t : Tables) : Option (List (Key × XR)) :=
  if e = .raise ∧ hasNonscalar t then none     -- ValueError("Metric frame contains non-scalar cells...")
  else some ((strata t).map (fun c => (c, g.apply (vals t c))))

def groupMin := applyGrouping .min
def groupMax := applyGrouping .max

/-- `((mf - subtrahend).abs()).groupby(level=cf).max()` for one stratum -/
def diffOf (vs : List XR) (s : XR) : XR :=
  AggregateSpec.diffAgg.apply (vs.map (fun v => XR.abs (XR.sub v s)))

/-- `difference(control_feature_names, method, errors)`; `none` = an exception is raised -/
def difference (m : Method) (e : Errors) (t : Tables) : Option (List (Key × XR)) :=
  match m with
  | .between =>
    match applyGrouping AggregateSpec.diffBetweenSubtrahend e t with
    | none => none
    | some sub => some ((strata t).map (fun c => (c, diffOf (vals t c) ((sub.lookup c).getD .nan))))
  | .toOverall =>
    if hasNonscalar t then none               -- object-dtype arithmetic fails inside pandas (ValueError)
    else some ((strata t).map (fun c => (c, diffOf (vals t c) (overallAt t c))))

/-- `ratios.apply(transform(ratio_sub_one)).min()` for one stratum -/
def ratioOverallOf (vs : List XR) (o : XR) : XR :=
  AggregateSpec.ratioOverallAgg.apply (vs.map (fun v => AggregateSpec.ratioSubOne (XR.div v o)))

/-- `ratio(control_feature_names, method, errors)` -/
def ratio (m : Method) (e : Errors) (t : Tables) : Option (List (Key × XR)) :=
  match m with
  | .between =>
    match applyGrouping AggregateSpec.ratioBetweenNum e t, applyGrouping AggregateSpec.ratioBetweenDen e t with
    | some num, some den =>
      some (num.map (fun (c, x) => (c, XR.div x ((den.lookup c).getD .nan))))
    | _, _ => none
  | .toOverall =>
    if hasNonscalar t then none
    else some ((strata t).map (fun c => (c, ratioOverallOf (vals t c) (overallAt t c))))

/-! ### driver glue -/

def fmtKeys (ks : List Key) : String :=
  if ks.isEmpty then "none" else ";".intercalate (ks.map Proto.fmtStrs)

def fmtRes : Option (List (Key × XR)) → String
  | none => "err"
  | some t => fmtKeys (t.map (·.1)) ++ "|" ++
      (if t.isEmpty then "none" else ",".intercalate (t.map (fun e => e.2.fmt)))

def parseKeys (s : String) : Option (List Key) :=
  if s = "none" then some [] else (s.splitOn ";").mapM Proto.parseStrs

def parseCells (s : String) : Option (List Cell) :=
  if s = "none" then some [] else (s.splitOn ",").mapM Cell.parse

def mkTable (ks : List Key) (cs : List Cell) : Option (List (Key × Cell)) :=
  if ks.length = cs.length then some (ks.zip cs) else none

def allResults (t : Tables) : List (Option (List (Key × XR))) :=
  [groupMin .raise t, groupMin .coerce t, groupMax .raise t, groupMax .coerce t,
   difference .between .raise t, difference .between .coerce t,
   difference .toOverall .raise t, difference .toOverall .coerce t,
   ratio .between .raise t, ratio .between .coerce t,
   ratio .toOverall .raise t, ratio .toOverall .coerce t]

/-- op: `agg.eval <ncf> <othersNonscalar 0|1> <by keys> <by cells> <overall keys> <overall cells>`
    output: 12 space separated results (`<keys>|<values>` or `err`) in the order
    min(raise,coerce) max(raise,coerce) diff-between(r,c) diff-overall(r,c) ratio-between(r,c) ratio-overall(r,c) -/
def handle (toks : List String) : Option String :=
  match toks with
  | ["agg.eval", ncf, ons, bk, bc, ok, oc] => do
    let ncf ← Proto.parseNat ncf
    let ons ← Proto.parseBool ons
    let bg ← mkTable (← parseKeys bk) (← parseCells bc)
    let ov ← mkTable (← parseKeys ok) (← parseCells oc)
    if bg.isEmpty then none
    let t : Tables := ⟨ncf, bg, ov, ons⟩
    pure (" ".intercalate ((allResults t).map fmtRes))
  | _ => none

end Aggregate
