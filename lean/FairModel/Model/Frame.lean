/-
Model of the disaggregation performed by `fairlearn.metrics.MetricFrame`
(`_metric_frame.py:225-290`, `_disaggregated_result.py:293-390`,
`_annotated_metric_function.py:77-108`).  Core Lean only.

`all_data` is a list of rows.  A row carries
  * `dat`  — what the metric functions see of it (y_true, y_pred and the per-sample parameters:
             `AnnotatedMetricFunction.__call__` extracts exactly these columns of the slice), and
  * `cf`, `sf` — its control / sensitive feature values (strings; `Level`).
The metric is an ARBITRARY function `f : List α → β`; nothing below looks inside it.
The grouping columns are `control_feature_names + sensitive_feature_names`
(`DisaggregatedResult.create`), hence the index tuple of a row is `cf ++ sf`.
-/
import FairModel.Model.Proto

namespace Frame

abbrev Level := String
abbrev Key := List Level

structure Row (α : Type) where
  dat : α
  cf : List Level
  sf : List Level
deriving Repr

variable {α β κ : Type}

/-- index tuple in `by_group`: control columns first -/
def Row.key (r : Row α) : Key := r.cf ++ r.sf
/-- index tuple in `overall` (control columns only) -/
def Row.ckey (r : Row α) : Key := r.cf

/-- ordered insertion -/
def ins [LT κ] [DecidableLT κ] (a : κ) : List κ → List κ
  | [] => [a]
  | b :: l => if a < b then a :: b :: l else b :: ins a l

/-- `np.unique` / the key order of `DataFrame.groupby(sort=True)`: the sorted distinct values -/
def uniq [LT κ] [DecidableLT κ] [DecidableEq κ] (l : List κ) : List κ :=
  l.foldr (fun a acc => if a ∈ acc then acc else ins a acc) []

/-- values of grouping column `j` -/
def col (j : Nat) (keys : List Key) : List Level := keys.map (fun k => k.getD j "")

/-- `pd.MultiIndex.from_product`: first factor varies slowest -/
def product : List (List Level) → List Key
  | [] => [[]]
  | l :: ls => l.flatMap (fun a => (product ls).map (fun k => a :: k))

/-- the rows carrying exactly the index tuple `k` -/
def rowsOf (kf : Row α → Key) (k : Key) (rows : List (Row α)) : List (Row α) :=
  rows.filter (fun r => kf r == k)

/-- what the metric function sees of a slice -/
def slice (rs : List (Row α)) : List α := rs.map (·.dat)

/-- `data.groupby(names).apply(apply_to_dataframe, ...)`: one entry per OBSERVED tuple, sorted -/
def grouped (kf : Row α → Key) (f : List α → β) (rows : List (Row α)) : List (Key × β) :=
  (uniq (rows.map kf)).map (fun k => (k, f (slice (rowsOf kf k rows))))

/-- `temp.reindex(index=all_indices)`: missing labels get NaN (`nanv`) -/
def reindex (nanv : β) (idx : List Key) (t : List (Key × β)) : List (Key × β) :=
  idx.map (fun k => (k, (t.lookup k).getD nanv))

/-- the levels of each of the `n` grouping columns (`np.unique(data[col])`) -/
def levels (kf : Row α → Key) (n : Nat) (rows : List (Row α)) : List (List Level) :=
  (List.range n).map (fun j => uniq (col j (rows.map kf)))

/-- `DisaggregatedResult._apply_functions` with `n` grouping columns given by `kf`.
    n = 0: the metric on all rows; n = 1: the groupby result as it is (observed values);
    n > 1: re-indexed to the Cartesian product of the observed values of each column. -/
def applyFunctions (nanv : β) (kf : Row α → Key) (n : Nat) (f : List α → β)
    (rows : List (Row α)) : List (Key × β) :=
  if n = 0 then [([], f (slice rows))]
  else
    let temp := grouped kf f rows
    if n > 1 then reindex nanv (product (levels kf n rows)) temp else temp

/-- `MetricFrame.overall` (one entry with the empty key when there are no control features) -/
def overall (nanv : β) (ncf : Nat) (f : List α → β) (rows : List (Row α)) : List (Key × β) :=
  applyFunctions nanv Row.ckey ncf f rows

/-- `MetricFrame.by_group` -/
def byGroup (nanv : β) (ncf nsf : Nat) (f : List α → β) (rows : List (Row α)) : List (Key × β) :=
  applyFunctions nanv Row.key (ncf + nsf) f rows

/-- every row has `ncf` control and `nsf` sensitive values (MetricFrame checks the lengths) -/
def WF (ncf nsf : Nat) (rows : List (Row α)) : Prop :=
  ∀ r ∈ rows, r.cf.length = ncf ∧ r.sf.length = nsf

instance (ncf nsf : Nat) (rows : List (Row α)) : Decidable (WF ncf nsf rows) := by
  unfold WF; exact List.decidableBAll _ rows

/-! ### cells and the metric pool evaluated by the driver -/

/-- a metric value: a scalar (possibly NaN/±inf), something non-scalar (array, matrix), or
    "the metric function raised on this slice" (the exception leaves the MetricFrame constructor) -/
inductive Cell where
  | scalar (x : XR)
  | nonscalar
  | raised
deriving Repr, DecidableEq, Inhabited

def Cell.nan : Cell := .scalar .nan
def Cell.ofRat (q : Rat) : Cell := .scalar (.fin q)

def Cell.fmt : Cell → String
  | .scalar x => x.fmt
  | .nonscalar => "ns"
  | .raised => "raised"

def Cell.parse (s : String) : Option Cell :=
  if s = "ns" then some .nonscalar else if s = "raised" then some .raised
  else (XR.parse s).map .scalar

end Frame
