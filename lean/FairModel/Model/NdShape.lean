/-
numpy array SHAPES (core Lean only): the primitives that the shape-level translation of
`fairlearn/utils/_input_manipulations.py::_convert_to_ndarray_and_squeeze` and of the closed
expressions of `selection_rate` / `mean_prediction` (`Generated/SqueezeSrc.lean`, lifter
`harness/lifters/base_metrics.py::lift_squeeze`) are written in.  A shape is the list of the
dimensions; `[]` is a 0-d array (what numpy hands out as a scalar), `[n]` a vector.  TRUSTED
(checked through the correspondence op `nds.*` against real numpy / fairlearn):

  a.size -> `size`;  np.squeeze(a) -> `npSqueeze`;  a.reshape(k, ...) -> `npReshape`;  len(a) -> `npLen`
  (TypeError on a 0-d array);  np.ones(n) -> `[n]`;  a == x -> the shape of `a`;  np.dot(a, b) -> `npDot`;
  a.sum() -> `[]`;  a / b -> `npBroadcast`.
-/
import FairModel.Model.Proto

namespace NdShape

abbrev Shape := List Nat

inductive ShapeErr where
  | typeError    -- `len()` of a 0-d array
  | valueError   -- reshape to another size, `np.dot` of vectors of different lengths, a `raise ValueError`
  | unmodelled   -- an operand shape these primitives do not describe (ndim > 2 products, general broadcasting)
deriving Repr, DecidableEq

def ShapeErr.fmt : ShapeErr → String
  | .typeError => "err:type"
  | .valueError => "err:value"
  | .unmodelled => "err:unmodelled"

/-- `a.size` -/
def size (s : Shape) : Nat := s.foldr (· * ·) 1
/-- `np.squeeze(a)`: every unit dimension dropped -/
def npSqueeze (s : Shape) : Shape := s.filter (fun d => d != 1)
/-- `a.reshape(t)` -/
def npReshape (s t : Shape) : Except ShapeErr Shape := if size s == size t then .ok t else .error .valueError
/-- `len(a)` -/
def npLen : Shape → Except ShapeErr Nat
  | [] => .error .typeError
  | d :: _ => .ok d
/-- `np.dot(a, b)` for scalars, vectors and matrix · vector -/
def npDot : Shape → Shape → Except ShapeErr Shape
  | [], b => .ok b
  | a, [] => .ok a
  | [n], [m] => if n == m then .ok [] else .error .valueError
  | [n, k], [m] => if k == m then .ok [n] else .error .valueError
  | _, _ => .error .unmodelled
/-- `a.sum()` -/
def npSum (_ : Shape) : Shape := []
/-- the shape of `a / b` (and of every other elementwise binary operator) when one operand is 0-d or both agree -/
def npBroadcast : Shape → Shape → Except ShapeErr Shape
  | [], b => .ok b
  | a, [] => .ok a
  | a, b => if a == b then .ok a else .error .unmodelled

def fmtRes : Except ShapeErr Shape → String
  | .ok s => Proto.fmtNats s
  | .error e => e.fmt

end NdShape
