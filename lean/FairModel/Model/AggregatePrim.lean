/-
Pandas-level primitives from which the bodies of `DisaggregatedResult.apply_grouping / difference /
ratio` (`_disaggregated_result.py:97-291`) are assembled.  Core Lean only.

The lifter `harness/lifters/aggregate_gen.py` symbolically executes those three method bodies and
emits them as compositions of the primitives below (`Generated/AggregateGen.lean`:
`applyGroupingGen`, `differenceGen`, `ratioGen`); `Lemmas/AggregateGen.lean` proves the generated
functions equal to the hand-written model `Aggregate.applyGrouping / difference / ratio`.

A `Series` is one metric column with its index: a by_group column is indexed by control ++
sensitive values ("group level"), an `overall` column / an aggregate by the control values only
("stratum level", the empty key without control features).
-/
import FairModel.Model.Aggregate

namespace Aggregate

abbrev Series := List (Frame.Key × XR)

namespace Prim
open Frame

/-- `self.by_group.apply(lambda x: x.apply(lambda y: y if np.isscalar(y) else np.nan))` -/
def coerced (t : Tables) : Option Series := some (t.byGroup.map (fun e => (e.1, coerce e.2)))

/-- `self.by_group` used as a float column (a reduction / arithmetic on it): an object-dtype frame
    makes pandas raise (same over-approximation as `Aggregate.hasNonscalar`: any non-scalar cell of
    the frame) -/
def byGroupNum (t : Tables) : Option Series :=
  if hasNonscalar t then none else some (t.byGroup.map (fun e => (e.1, coerce e.2)))

/-- `self.overall` used in arithmetic -/
def overallNum (t : Tables) : Option Series :=
  if hasNonscalar t then none else some (t.overall.map (fun e => (e.1, coerce e.2)))

/-- `x ∘ y`, `x` at group level and `y` at stratum level: pandas aligns `y` on the control levels
    of `x`'s index (a missing label gives NaN) -/
def bcast (op : XR → XR → XR) (t : Tables) (x y : Series) : Series :=
  x.map (fun e => (e.1, op e.2 ((y.lookup (stratumOf t e.1)).getD .nan)))

/-- `x ∘ y`, both carrying the same kind of index: aligned label by label -/
def same (op : XR → XR → XR) (x y : Series) : Series :=
  x.map (fun e => (e.1, op e.2 ((y.lookup e.1).getD .nan)))

/-- elementwise `.abs()`, `.apply(lambda c: c.transform(f))` -/
def map (f : XR → XR) (x : Series) : Series := x.map (fun e => (e.1, f e.2))

/-- `.groupby(level=control_feature_names).g()`, and the plain `.g()` / `.agg(g, axis=0)` of a frame
    WITHOUT control features (one stratum, the empty key); also the column-wise `.g()` of a frame
    whose control levels were moved to the columns by `.unstack(level=control_feature_names)` -/
def aggLevel (g : Grouping) (t : Tables) (x : Series) : Series :=
  (uniq (x.map (fun e => stratumOf t e.1))).map
    (fun c => (c, g.apply ((x.filter (fun e => stratumOf t e.1 == c)).map (·.2))))

/-- a plain `.g()` applied to a frame that still carries control levels in its index: one value for
    the whole column (never what the current source does when there are control features; emitted
    by the lifter if an edit drops the `groupby`) -/
def aggAll (g : Grouping) (x : Series) : Series := [([], g.apply (x.map (·.2)))]

end Prim

end Aggregate
