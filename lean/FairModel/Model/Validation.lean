/-
Model of fairlearn's argument checking (core Lean only) for C20.

An entry point sees an input *descriptor*: only what the checks look at (row counts, the label vector,
group ids of the sensitive / control feature, names, numeric parameters).  `Outcome` is what the call does:
`ok` or the kind of exception.  The decision logic that exists in the source as tables or closed
conditions is NOT written here: it is imported from `Generated/ValidationTables.lean`, which the
translator regenerates from the working tree on every run.

Source mirrored:
  fairlearn/utils/_input_validation.py:81-123      `validate`, `validateWith` (hand-written) and `validateSrc` (the lifted
                                                    check list of Generated/ValidateSrc.lean, run by `runChecks`)
  fairlearn/postprocessing/_threshold_optimizer.py:280-339 + _tradeoff_curve_utilities.py:305-308,390-407   `toFit`
  fairlearn/metrics/_metric_frame.py:239-275, 954-960, 969-1021     `frame`
  utility_parity.py:101-114, error_rate.py:49-62, grid_search.py:92-100   `parity`, `costs`, `gridSearch` (generated)
  sklearn check_is_fitted in every predict / transform                       `predict`
  fairlearn/preprocessing/_correlation_remover.py:138-145,154-169            `corrFit`, `corrTransform`
-/
import FairModel.Model.Proto
import FairModel.Generated.ValidationTables
import FairModel.Generated.ValidateSrc

namespace Validation
open Generated.ValidationTables

inductive Outcome where
  | ok | valueError | typeError | runtimeError | notFitted
deriving DecidableEq, Repr

def Outcome.fmt : Outcome → String
  | .ok => "ok"
  | .valueError => "ValueError"
  | .typeError => "TypeError"
  | .runtimeError => "RuntimeError"
  | .notFitted => "NotFittedError"

/-- what `_validate_and_reformat_input` looks at -/
structure MitData where
  n : Nat                    -- rows of X
  y : Option (List Rat)      -- label vector; none = `y=None`
  sf : Option (List Nat)     -- sensitive feature as group ids; none = not supplied / None
  cf : Option (List Nat)     -- control feature; none = not supplied

def isBinary (y : List Rat) : Bool := y.all (fun v => v == 0 || v == 1)

/-- `_validate_and_reformat_input(X, y, enforce_binary_labels=e, sensitive_features=, control_features=)`
    with the default `expect_y=True, expect_sensitive_features=True` -/
def validate (enforceBinary : Bool) (d : MitData) : Outcome :=
  match d.y with
  | none => .valueError                                           -- "Must supply nonempty y"
  | some y =>
    if y.isEmpty then .valueError
    else if enforceBinary && !isBinary y then .valueError         -- labels not 0/1
    else if y.length != d.n then .valueError                      -- X and y rows
    else match d.sf with
      | none => .valueError                                       -- "Must specify sensitive_features"
      | some sf =>
        if sf.length != d.n then .valueError                      -- check_consistent_length(X, sf)
        else match d.cf with
          | none => .ok
          | some cf => if cf.length != d.n then .valueError else .ok

/-- `_validate_and_reformat_input` with explicit `expect_y`, `expect_sensitive_features`, `enforce_binary_labels`
    (_input_validation.py:81-113): the y checks run only under `expect_y`, the row comparison whenever y is given,
    a missing sensitive feature is an error only under `expect_sensitive_features` -/
def validateWith (expectY expectSf enforceBinary : Bool) (d : MitData) : Outcome :=
  let yBad : Bool := expectY && (match d.y with
    | none => true
    | some y => y.isEmpty || (enforceBinary && !isBinary y))
  if yBad then .valueError
  else if d.n == 0 then .valueError                        -- check_array(X, ..): at least one row
  else if (match d.y with | some y => y.length != d.n | none => false) then .valueError
  else
    let cfOut : Outcome := match d.cf with
      | none => .ok
      | some cf => if cf.length != d.n then .valueError else .ok
    match d.sf with
    | none => if expectSf then .valueError else cfOut
    | some sf => if sf.length != d.n then .valueError else cfOut

/-! ### the body of `_validate_and_reformat_input` AS LIFTED (Generated/ValidateSrc.lean): an ordered list of checks,
each with the condition under which it raises and the kind of exception; the call returns the kind of the first check
that fires.  `validate` / `validateWith` above are the hand-written reading of the same function; the bridge theorem
`Validation.validateSrc_eq_validateWith` (Lemmas/Validation.lean) proves the two equal for the list as it is in the
working tree.  The entry points below (`mitFit`, `toFit`, `toPredict`) compute WITH the lifted list. -/

section Lifted
open Generated.ValidateSrc

/-- membership of every label in the lifted label set (`set(np.unique(y)).issubset(set([0, 1]))`) -/
def labelsIn (s : List Rat) (y : List Rat) : Bool := y.all (fun v => s.any (fun l => v == l))

/-- what an atom of the lifted conditions means on a descriptor.  The descriptor's labels are a flat list of rationals and
    its features group ids, so the shape test of y and the element checks of the `check_array` calls on y / sf / cf
    (numeric dtype, finiteness) hold by construction; `check_array(X, ..)` (2-D, at least one row) holds iff `0 < n`. -/
def evalAtom (expectY expectSf enforceBinary : Bool) (d : MitData) : Atom → Bool
  | .expectY => expectY
  | .expectSf => expectSf
  | .enforceBinary => enforceBinary
  | .yGiven => d.y.isSome
  | .yNonempty => match d.y with | some y => !y.isEmpty | none => false
  | .yShapeOk => true
  | .yBinary => match d.y with | some y => labelsIn labelSet y | none => true
  | .yArrayOk => true
  | .yRowsMatch => match d.y with | some y => y.length == d.n | none => true
  | .xArrayOk => d.n != 0
  | .sfGiven => d.sf.isSome
  | .sfRowsMatch => match d.sf with | some sf => sf.length == d.n | none => true
  | .sfArrayOk => true
  | .cfGiven => d.cf.isSome
  | .cfRowsMatch => match d.cf with | some cf => cf.length == d.n | none => true
  | .cfArrayOk => true

def evalCond (f : Atom → Bool) : Cond → Bool
  | .tt => true
  | .atom a => f a
  | .neg c => !evalCond f c
  | .and a b => evalCond f a && evalCond f b
  | .or a b => evalCond f a || evalCond f b

/-- the first check (in source order) whose condition holds -/
def firstFailure (f : Atom → Bool) : List Check → Option Exc
  | [] => none
  | c :: cs => if evalCond f c.cond then some c.exc else firstFailure f cs

def excOutcome : Exc → Outcome
  | .valueError => .valueError
  | .typeError => .typeError
  | .runtimeError => .runtimeError

/-- run an ordered list of checks on a descriptor -/
def runChecks (cs : List Check) (expectY expectSf enforceBinary : Bool) (d : MitData) : Outcome :=
  match firstFailure (evalAtom expectY expectSf enforceBinary d) cs with
  | none => .ok
  | some e => excOutcome e

/-- `_validate_and_reformat_input(X, y, expect_y=, expect_sensitive_features=, enforce_binary_labels=, **kwargs)` as lifted -/
def validateSrc (expectY expectSf enforceBinary : Bool) (d : MitData) : Outcome :=
  runChecks checks expectY expectSf enforceBinary d

end Lifted

/-- the classification moments' `load_data`, `ExponentiatedGradient.fit`, `GridSearch.fit` (all go through
    `load_data` of the constraint and of the objective with `enforce_binary_labels=True`; `expect_y`,
    `expect_sensitive_features` at their defaults) -/
def mitFit (d : MitData) : Outcome := validateSrc true true true d

/-- labels of the rows of group `g` (pandas groupby on the sensitive feature) -/
def groupLabels (sf : List Nat) (y : List Rat) (g : Nat) : List Rat :=
  ((sf.zip y).filter (fun p => p.1 == g)).map (·.2)

/-- `_get_counts`: n_positive = sum(labels) for 0/1 labels -/
def nPositive (ls : List Rat) : Nat := (ls.filter (· == 1)).length
def nNegative (ls : List Rat) : Nat := ls.length - nPositive ls

def anyDegenerate (sf : List Nat) (y : List Rat) : Bool :=
  sf.any (fun g => degenerateGroup (nPositive (groupLabels sf y g)) (nNegative (groupLabels sf y g)))

/-- `ThresholdOptimizer.fit` -/
def toFit (estimatorGiven : Bool) (constraints objective : String) (d : MitData) : Outcome :=
  if !toFitPrefix estimatorGiven constraints objective d.cf.isSome then .valueError
  else match validateSrc true true toEnforcesBinary { d with cf := none } with
    | .ok =>
      match d.sf, d.y with
      | some sf, some y => if anyDegenerate sf y then .valueError else .ok
      | _, _ => .valueError
    | e => e

/-- one sensitive / control column of `MetricFrame`: its name (none = the name is not a string) and length -/
structure Col where
  name : Option String
  len : Nat

structure FrameArgs where
  nTrue : Nat
  nPred : Nat
  params : List Nat          -- lengths of the sample parameters
  sf : List Col              -- [] = sensitive_features=None
  cf : List Col

def hasDup : List String → Bool
  | [] => false
  | x :: xs => xs.contains x || hasDup xs

/-- `MetricFrame.__init__` argument checks -/
def frame (a : FrameArgs) : Outcome :=
  if a.nPred != a.nTrue then .valueError                                  -- check_consistent_length(y_true, y_pred)
  else if a.params.any (· != a.nTrue) then .valueError                    -- all_data[col] = np.asarray(param)
  else if a.sf.isEmpty then .valueError
  else if (a.sf ++ a.cf).any (fun c => c.name.isNone || c.len != a.nTrue) then .valueError
  else if hasDup ((a.sf ++ a.cf).filterMap (·.name)) then .valueError
  else .ok

/-- `UtilityParity.__init__` with the trailing slack guard present (`guard = true`) or absent: the if/elif chain on the
    bounds (lifted `parityCtor`), then `if self.eps < 0: raise` on the value the chain stored (lifted `parityEps`) -/
def parityWith (guard : Bool) (dGiven rGiven : Bool) (ratio diff slack : Rat) : Outcome :=
  if !parityCtor dGiven rGiven ratio then .valueError
  else if guard && decide (parityEps dGiven rGiven diff slack < 0) then .valueError
  else .ok

/-- the constructor of the parity moments as it is in the source (guard flag lifted) -/
def parity (dGiven rGiven : Bool) (ratio diff slack : Rat) : Outcome :=
  parityWith slackMustBeNonneg dGiven rGiven ratio diff slack

def costs (given isDict keysOk : Bool) (fp fn : Rat) : Outcome :=
  if errorRateCtor given isDict keysOk fp fn then .ok else .valueError

def gridSearch (isMoment ruleOk : Bool) (cw : Rat) : Outcome :=
  if gridSearchCtor isMoment ruleOk cw then .ok else .runtimeError

/-- every `predict` / `_pmf_predict` / `predict_proba` / `transform` starts with `check_is_fitted` -/
def predict (fitted : Bool) : Outcome := if fitted then .ok else .notFitted

/-- is (class, method) listed in the lifted table as starting with `check_is_fitted` -/
def isGuarded (cls method : String) : Bool := predictGuards.contains (cls, method, true)

/-- a named prediction entry point: NotFittedError before fit iff the lifted table says it is guarded -/
def predictM (cls method : String) (fitted : Bool) : Outcome :=
  if isGuarded cls method then predict fitted else .ok

/-- `ThresholdOptimizer.predict` / `_pmf_predict` (and the same methods of `InterpolatedThresholder`) at prediction time:
    `check_is_fitted`, then `_validate_and_reformat_input(X, y=<base predictions of the nX rows>, sensitive_features=..)`
    with the lifted expect_* / enforce flags -/
def toPredict (fitted sfGiven : Bool) (nX nSf : Nat) : Outcome :=
  if !fitted then .notFitted
  else validateSrc toPredictExpectsY toPredictExpectsSf toPredictEnforcesBinary
    ⟨nX, some (List.replicate nX 0), if sfGiven then some (List.replicate nSf 0) else none, none⟩

/-- `MetricFrame._get_annotated_metric_functions`: `sample_params` must be a dict; for a dict of metrics its keys must be
    metric names and every per-metric value must itself be a dict (`innerDict`) -/
def frameFns (spGiven spIsDict metricIsDict keysSubset innerDict : Bool) : Outcome :=
  if !frameFunctionsPrefix spGiven spIsDict metricIsDict keysSubset then .valueError
  else if !frameInnerParamsOk (if metricIsDict then innerDict else true) then .valueError
  else .ok

/-- `CorrelationRemover.fit`: every sensitive id must be a column (label or position) -/
def corrFit (cols ids : List Nat) : Outcome :=
  if ids.all (fun c => cols.contains c) then .ok else .valueError

def corrTransform (fitted : Bool) (mFit mNew : Nat) : Outcome :=
  if !fitted then .notFitted else if mFit != mNew then .valueError else .ok

/-- one call of an entry point with its descriptor -/
inductive Call where
  | mit (d : MitData)
  | thr (estimatorGiven : Bool) (constraints objective : String) (d : MitData)
  | frame (a : FrameArgs)
  | parity (dGiven rGiven : Bool) (ratio diff slack : Rat)   -- diff / slack: values of difference_bound / ratio_bound_slack
  | costs (given isDict keysOk : Bool) (fp fn : Rat)
  | gs (isMoment ruleOk : Bool) (cw : Rat)
  | predict (fitted : Bool)
  | corrFit (cols ids : List Nat)
  | corrTransform (fitted : Bool) (mFit mNew : Nat)
  | predictM (cls method : String) (fitted : Bool)
  | thrPredict (fitted sfGiven : Bool) (nX nSf : Nat)
  | frameFns (spGiven spIsDict metricIsDict keysSubset innerDict : Bool)

def run : Call → Outcome
  | .mit d => mitFit d
  | .thr e c o d => toFit e c o d
  | .frame a => frame a
  | .parity d r q df sl => parity d r q df sl
  | .costs g d k fp fn => costs g d k fp fn
  | .gs m r cw => gridSearch m r cw
  | .predict f => predict f
  | .corrFit cols ids => corrFit cols ids
  | .corrTransform f a b => corrTransform f a b
  | .predictM c m f => predictM c m f
  | .thrPredict f s a b => toPredict f s a b
  | .frameFns a b c d e => frameFns a b c d e

def accepts (c : Call) : Bool := run c == .ok

/-! ### driver glue -/

def parseOpt {α} (p : String → Option α) (s : String) : Option (Option α) :=
  if s = "none" then some none else (p s).map some

def mkCols (names : List String) (isStr : List Bool) (lens : List Nat) : Option (List Col) :=
  if names.length = isStr.length && names.length = lens.length then
    some ((names.zip (isStr.zip lens)).map (fun (nm, s, l) => ⟨if s then some nm else none, l⟩))
  else none

def parseBools := Proto.parseList Proto.parseBool

/-- ops:
  `val.mit <n> <y|none> <sf|none> <cf|none>`
  `val.src <expectY> <expectSf> <enforceBinary> <n> <y|none> <sf|none> <cf|none>`   (the lifted check list, any flags)
  `val.to <estimatorGiven> <constraints> <objective> <n> <y|none> <sf|none> <cf|none>`
  `val.frame <nTrue> <nPred> <paramLens> <sfNames> <sfIsStr> <sfLens> <cfNames> <cfIsStr> <cfLens>`
  `val.parity <dGiven> <rGiven> <ratio> <difference_bound> <ratio_bound_slack>`     `val.costs <given> <isDict> <keysOk> <fp> <fn>`
  `val.gs <isMoment> <ruleOk> <cw>`          `val.predict <fitted>`
  `val.corrfit <cols> <ids>`                 `val.corrtransform <fitted> <mFit> <mNew>`
  `val.predictm <class> <method> <fitted>`   `val.topredict <fitted> <sfGiven> <nX> <nSf>`
  `val.framefns <spGiven> <spIsDict> <metricIsDict> <keysSubset> <innerDict>` -/
def handle (toks : List String) : Option String :=
  match toks with
  | ["val.mit", n, y, sf, cf] => do
    let d : MitData := ⟨← Proto.parseNat n, ← parseOpt Proto.parseRats y, ← parseOpt Proto.parseNats sf,
      ← parseOpt Proto.parseNats cf⟩
    pure (mitFit d).fmt
  | ["val.src", ey, es, eb, n, y, sf, cf] => do
    let d : MitData := ⟨← Proto.parseNat n, ← parseOpt Proto.parseRats y, ← parseOpt Proto.parseNats sf,
      ← parseOpt Proto.parseNats cf⟩
    pure (validateSrc (← Proto.parseBool ey) (← Proto.parseBool es) (← Proto.parseBool eb) d).fmt
  | ["val.to", est, c, o, n, y, sf, cf] => do
    let d : MitData := ⟨← Proto.parseNat n, ← parseOpt Proto.parseRats y, ← parseOpt Proto.parseNats sf,
      ← parseOpt Proto.parseNats cf⟩
    pure (toFit (← Proto.parseBool est) (← Proto.parseStr c) (← Proto.parseStr o) d).fmt
  | ["val.frame", nt, np, ps, sn, ss, sl, cn, cs, cl] => do
    let sf ← mkCols (← Proto.parseStrs sn) (← parseBools ss) (← Proto.parseNats sl)
    let cf ← mkCols (← Proto.parseStrs cn) (← parseBools cs) (← Proto.parseNats cl)
    pure (frame ⟨← Proto.parseNat nt, ← Proto.parseNat np, ← Proto.parseNats ps, sf, cf⟩).fmt
  | ["val.parity", d, r, q, df, sl] => do
    pure (parity (← Proto.parseBool d) (← Proto.parseBool r) (← Proto.parseRat q) (← Proto.parseRat df)
      (← Proto.parseRat sl)).fmt
  | ["val.costs", g, d, k, fp, fn] => do
    pure (costs (← Proto.parseBool g) (← Proto.parseBool d) (← Proto.parseBool k) (← Proto.parseRat fp)
      (← Proto.parseRat fn)).fmt
  | ["val.gs", m, r, cw] => do
    pure (gridSearch (← Proto.parseBool m) (← Proto.parseBool r) (← Proto.parseRat cw)).fmt
  | ["val.predict", f] => do pure (predict (← Proto.parseBool f)).fmt
  | ["val.corrfit", cols, ids] => do pure (corrFit (← Proto.parseNats cols) (← Proto.parseNats ids)).fmt
  | ["val.corrtransform", f, a, b] => do
    pure (corrTransform (← Proto.parseBool f) (← Proto.parseNat a) (← Proto.parseNat b)).fmt
  | ["val.predictm", c, m, f] => do
    pure (predictM (← Proto.parseStr c) (← Proto.parseStr m) (← Proto.parseBool f)).fmt
  | ["val.topredict", f, s, a, b] => do
    pure (toPredict (← Proto.parseBool f) (← Proto.parseBool s) (← Proto.parseNat a) (← Proto.parseNat b)).fmt
  | ["val.framefns", a, b, c, d, e] => do
    pure (frameFns (← Proto.parseBool a) (← Proto.parseBool b) (← Proto.parseBool c) (← Proto.parseBool d)
      (← Proto.parseBool e)).fmt
  | _ => none

end Validation
