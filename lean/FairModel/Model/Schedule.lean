/-
Model of the training schedule of `fit` in fairlearn/adversarial/_adversarial_mitigation.py
(lines 450-532, `shuffle=False`) and of the decision rule of `predict` (lines 606-627, 803-841,
_preprocessor.py:116) — pure `Nat` / `Rat`, core Lean only.

  batch_size = -1, epochs = -1, max_iter = -1 are `none`.
  `stopAt k` = "some callback returns True when called with step = k".
  `hasCb`    = callbacks are configured (`callbacks_` non-empty).

Two independent definitions of the same loops:
  * `fitLoop`  — the nested `for epoch … for batch …` loops with their two early `return`s, threading an
                 arbitrary training state through `trainStep` (state, n_iter_, returned?);
  * `schedule` — the flat list of steps `{lo, hi, stepNo, callbackFired}` that are executed.
`Lemmas/Schedule.lean` proves `fitLoop` = left fold of `trainStep` over `schedule` (i.e. the same slices issued one by
one through `partial_fit`).
-/
import FairModel.Model.Proto

namespace Schedule

structure Step where
  lo : Nat
  hi : Nat
  stepNo : Nat
  callbackFired : Bool
deriving Repr, DecidableEq

/-- `math.ceil(a / b)` for positive `b` -/
def ceilDiv (a b : Nat) : Nat := (a + b - 1) / b

/-- `batch_size = X.shape[0] if self.batch_size == -1 else self.batch_size` -/
def batchSizeOf (n : Nat) (bs : Option Nat) : Nat :=
  match bs with
  | none => n
  | some b => b

/-- `batches = ceil(X.shape[0] / batch_size)` -/
def batchesOf (n b : Nat) : Nat := ceilDiv n b

/-- `epochs = ceil(self.max_iter / batches) if self.epochs == -1 else self.epochs`;
    `none` = the ValueError raised when both are -1 -/
def epochsOf (epochs maxIter : Option Nat) (batches : Nat) : Option Nat :=
  match epochs, maxIter with
  | some e, _ => some e
  | none, some m => some (ceilDiv m batches)
  | none, none => none

/-- `slice(batch * batch_size, min((batch + 1) * batch_size, X.shape[0]))` -/
def sliceOf (n b k : Nat) : Nat × Nat := (k * b, min ((k + 1) * b) n)

/-- `for batch in range(batches)` -/
def epochSlices (n b : Nat) : List (Nat × Nat) := (List.range (batchesOf n b)).map (sliceOf n b)

/-- `for epoch in range(epochs): for batch in range(batches)` without the early exits -/
def allSlices (n b epochs : Nat) : List (Nat × Nat) := (List.range epochs).flatMap (fun _ => epochSlices n b)

/-- `self.max_iter != -1 and self.n_iter_ >= self.max_iter` -/
def hitMax (maxIter : Option Nat) (k : Nat) : Bool :=
  match maxIter with
  | none => false
  | some m => decide (m ≤ k)

/-- the executed steps: after step `k = done + 1` first the max_iter test (return WITHOUT calling the callbacks),
    then the callbacks (all are called; return if one of them said True) -/
def run (maxIter : Option Nat) (hasCb : Bool) (stopAt : Nat → Bool) : Nat → List (Nat × Nat) → List Step
  | _, [] => []
  | done, (lo, hi) :: rest =>
    if hitMax maxIter (done + 1) then [⟨lo, hi, done + 1, false⟩]
    else if hasCb && stopAt (done + 1) then [⟨lo, hi, done + 1, true⟩]
    else ⟨lo, hi, done + 1, hasCb⟩ :: run maxIter hasCb stopAt (done + 1) rest

def schedule (n : Nat) (batchSize epochs maxIter : Option Nat) (hasCb : Bool) (stopAt : Nat → Bool) :
    Option (List Step) :=
  let b := batchSizeOf n batchSize
  match epochsOf epochs maxIter (batchesOf n b) with
  | none => none
  | some e => some (run maxIter hasCb stopAt 0 (allSlices n b e))

/-! ### the nested loops, literally -/

structure Loop (σ : Type) where
  state : σ
  nIter : Nat
  returned : Bool

/-- body of the inner loop (skipped once `fit` has returned) -/
def batchBody {σ : Type} (maxIter : Option Nat) (hasCb : Bool) (stopAt : Nat → Bool) (trainStep : σ → Nat → Nat → σ)
    (st : Loop σ) (sl : Nat × Nat) : Loop σ :=
  if st.returned then st
  else
    let s' := trainStep st.state sl.1 sl.2
    let k := st.nIter + 1
    if hitMax maxIter k then ⟨s', k, true⟩
    else if hasCb && stopAt k then ⟨s', k, true⟩
    else ⟨s', k, false⟩

def epochBody {σ : Type} (n b : Nat) (maxIter : Option Nat) (hasCb : Bool) (stopAt : Nat → Bool)
    (trainStep : σ → Nat → Nat → σ) (st : Loop σ) (_epoch : Nat) : Loop σ :=
  (epochSlices n b).foldl (batchBody maxIter hasCb stopAt trainStep) st

def fitLoop {σ : Type} (n : Nat) (batchSize epochs maxIter : Option Nat) (hasCb : Bool) (stopAt : Nat → Bool)
    (trainStep : σ → Nat → Nat → σ) (s0 : σ) : Option (Loop σ) :=
  let b := batchSizeOf n batchSize
  match epochsOf epochs maxIter (batchesOf n b) with
  | none => none
  | some e => some ((List.range e).foldl (epochBody n b maxIter hasCb stopAt trainStep) ⟨s0, 0, false⟩)

/-- the same slices issued one at a time (`partial_fit` = one `train_step` on the given rows) -/
def partialFitSeq {σ : Type} (trainStep : σ → Nat → Nat → σ) (s0 : σ) (steps : List Step) : σ :=
  steps.foldl (fun s st => trainStep s st.lo st.hi) s0

/-! ### predict -/

/-- `(pred >= threshold_value).astype(float)`: index of the class (0 = smaller label, 1 = larger = positive) -/
def predictBinary (t o : Rat) : Nat := if t ≤ o then 1 else 0

/-- the largest entry (0 for the empty list, which never occurs: a row of outputs has >= 1 column) -/
def maxOf : List Rat → Rat
  | [] => 0
  | [x] => x
  | x :: y :: r => let m := maxOf (y :: r); if x < m then m else x

/-- `numpy.argmax`: index of the FIRST maximal entry -/
def argmaxFirst (o : List Rat) : Nat := o.findIdx (fun v => v == maxOf o)

/-- inverse label transform: index into the sorted class list of the first call
    (OneHotEncoder.inverse_transform; for two classes the dropped first category decodes from 0) -/
def labelAt (classes : List Int) (i : Nat) : Option Int := classes[i]?

def predictBinaryLabel (classes : List Int) (t o : Rat) : Option Int := labelAt classes (predictBinary t o)
def predictMultiLabel (classes : List Int) (o : List Rat) : Option Int := labelAt classes (argmaxFirst o)

/-! ### driver glue -/

def parseOptNat (s : String) : Option (Option Nat) :=
  if s = "-1" then some none else (Proto.parseNat s).map some

def fmtStep (s : Step) : String :=
  s!"{s.lo}:{s.hi}:{s.stepNo}:{Proto.fmtBool s.callbackFired}"

def fmtSteps (l : List Step) : String := if l.isEmpty then "-" else ",".intercalate (l.map fmtStep)

/-- ops:
  `sched.run  <n> <batch_size|-1> <epochs|-1> <max_iter|-1> <hasCb> <stop steps>` -> `err` | `<n_iter> <steps lo:hi:k:cb,...>`
  `sched.loop <same arguments>`  (the nested-loop model with a recording trainStep) -> `err` | `<n_iter> <slices lo:hi,...>`
  `sched.predbin <classes> <threshold> <outputs>`   -> labels
  `sched.predmulti <classes> <output matrix>`       -> labels -/
def handle (toks : List String) : Option String :=
  match toks with
  | [op, n, bs, ep, mi, cb, stops] =>
    if op ≠ "sched.run" && op ≠ "sched.loop" then none else do
    let n ← Proto.parseNat n
    let bs ← parseOptNat bs
    let ep ← parseOptNat ep
    let mi ← parseOptNat mi
    let cb ← Proto.parseBool cb
    let stops ← Proto.parseNats stops
    if n = 0 || bs = some 0 || ep = some 0 || mi = some 0 then none else
    let stopAt : Nat → Bool := fun k => stops.contains k
    if op = "sched.run" then
      match schedule n bs ep mi cb stopAt with
      | none => pure "err"
      | some l => pure (toString l.length ++ " " ++ fmtSteps l)
    else
      match fitLoop n bs ep mi cb stopAt (fun (log : List (Nat × Nat)) lo hi => log ++ [(lo, hi)]) [] with
      | none => pure "err"
      | some r => pure (toString r.nIter ++ " " ++
          (if r.state.isEmpty then "-" else ",".intercalate (r.state.map (fun p => s!"{p.1}:{p.2}"))))
  | ["sched.predbin", cls, t, outs] => do
    let cls ← Proto.parseInts cls
    let t ← Proto.parseRat t
    let outs ← Proto.parseRats outs
    if cls.length ≠ 2 then none else
    let labs ← outs.mapM (predictBinaryLabel cls t)
    pure (Proto.fmtInts labs)
  | ["sched.predmulti", cls, m] => do
    let cls ← Proto.parseInts cls
    let m ← Proto.parseMat m
    if cls.length < 3 || m.any (fun r => r.length ≠ cls.length) then none else
    let labs ← m.mapM (predictMultiLabel cls)
    pure (Proto.fmtInts labs)
  | _ => none

end Schedule
