/-
MULTI-METRIC frames: `MetricFrame(metrics={...})` makes `by_group` a DataFrame with one column per
metric and `overall` a Series (no control features) / DataFrame (one row per control combination);
`group_min / group_max / difference / ratio` then run the SAME pandas expressions on whole frames
(`_disaggregated_result.py:97-291`) and return one Series / DataFrame with a column per metric.
Core Lean only.

A frame is kept ROW-MAJOR, as pandas indexes it: index tuple ↦ the row of cells (one per metric
column).  Element-wise operations (`-`, `/`, `.abs()`, `transform`) work row by row with `zipWith`,
index alignment looks up whole rows, reductions (`.agg(g, axis=0)`, `.groupby(level=...).g()`,
`.min()`, `.max()`) reduce column by column, and an exception raised for ONE column aborts the call
for ALL columns.  `Lemmas/AggregateFrame.lean` proves that column `j` of every frame aggregate is the
single-metric aggregate `Aggregate.*` of column `j` (`colTab`).

Error behaviour of frames that contain non-scalar cells, as observed on pandas 3 (arrays of ≥ 2
elements).  pandas raises only when a reduction has to COMPARE an object cell with another cell; the
min / max of a single object is that object (so `group_min(errors='raise')` of a one-group frame with
a non-scalar cell returns the cell).  The harness compares the rules below on every generated frame in
which each stratum has ≥ 2 by_group rows and each non-scalar by_group cell shares its (stratum, column)
with another non-NaN cell; on the remaining frames only the `errors='coerce'` results are compared:
  * `errors='raise'`  group_min / group_max / between_groups: ValueError iff a BY_GROUP cell is
    non-scalar (any column) — `overall` is not looked at;
  * `errors='coerce'` (same calls): non-scalar cells count as NaN, never fails;
  * `difference(to_overall)`: by_group is coerced, `self.overall` is not: fails iff an OVERALL cell is
    non-scalar (whatever `errors` is);
  * `ratio(to_overall)`: neither is coerced: fails iff any cell is non-scalar.
-/
import FairModel.Model.Aggregate

namespace AggFrame
open Frame Aggregate

structure FTables where
  ncf : Nat
  ncols : Nat
  byGroup : List (Key × List Cell)
  overall : List (Key × List Cell)
deriving Repr

/-- a float DataFrame, row-major -/
abbrev FrameX := List (Key × List XR)

/-- rectangular: every row has one cell per metric column -/
def Rect {β : Type} (n : Nat) (f : List (Key × List β)) : Prop := ∀ r ∈ f, r.2.length = n

instance {β : Type} (n : Nat) (f : List (Key × List β)) : Decidable (Rect n f) := by
  unfold Rect; exact List.decidableBAll _ f

def WF (ft : FTables) : Prop := Rect ft.ncols ft.byGroup ∧ Rect ft.ncols ft.overall

instance (ft : FTables) : Decidable (WF ft) := by unfold WF; infer_instance

/-- a by_group / an overall cell is non-scalar -/
def byNs (ft : FTables) : Bool := ft.byGroup.any (fun r => r.2.any isNonscalar)
def ovNs (ft : FTables) : Bool := ft.overall.any (fun r => r.2.any isNonscalar)

def cellAt (j : Nat) (r : List Cell) : Cell := r.getD j Cell.nan

/-- metric column `j` as a single-metric table (`othersNonscalar`: some OTHER column has a non-scalar cell) -/
def colTab (ft : FTables) (j : Nat) : Tables :=
  ⟨ft.ncf, ft.byGroup.map (fun r => (r.1, cellAt j r.2)), ft.overall.map (fun r => (r.1, cellAt j r.2)),
   ft.byGroup.any (fun r => (r.2.eraseIdx j).any isNonscalar) ||
   ft.overall.any (fun r => (r.2.eraseIdx j).any isNonscalar)⟩

/-- column `j` of a float frame -/
def colX (j : Nat) (f : FrameX) : List (Key × XR) := f.map (fun r => (r.1, r.2.getD j .nan))

/-- `by_group.apply(lambda x: x.apply(lambda y: y if np.isscalar(y) else np.nan))` -/
def coercedF (ft : FTables) : FrameX := ft.byGroup.map (fun r => (r.1, r.2.map coerce))
def overallF (ft : FTables) : FrameX := ft.overall.map (fun r => (r.1, r.2.map coerce))

/-- `DataFrame.agg(g, axis=0)`: column by column -/
def reduceCols (g : Grouping) (ncols : Nat) (rows : List (List XR)) : List XR :=
  (List.range ncols).map (fun j => g.apply (rows.map (fun r => r.getD j .nan)))

/-- `.groupby(level=control_feature_names).g()` (one stratum, the empty key, without control features) -/
def aggLevelF (g : Grouping) (ncf ncols : Nat) (f : FrameX) : FrameX :=
  (uniq (f.map (fun r => r.1.take ncf))).map
    (fun c => (c, reduceCols g ncols ((f.filter (fun r => r.1.take ncf == c)).map (·.2))))

/-- `x ∘ y`, `y` indexed by the control levels only: pandas aligns rows of `y` on the control part
    of `x`'s index (a missing label: a row of NaN) and then works cell by cell -/
def bcastF (op : XR → XR → XR) (ncf ncols : Nat) (x y : FrameX) : FrameX :=
  x.map (fun r => (r.1, List.zipWith op r.2 ((y.lookup (r.1.take ncf)).getD (List.replicate ncols .nan))))

/-- `x ∘ y`, same index -/
def sameF (op : XR → XR → XR) (ncols : Nat) (x y : FrameX) : FrameX :=
  x.map (fun r => (r.1, List.zipWith op r.2 ((y.lookup r.1).getD (List.replicate ncols .nan))))

def mapF (f : XR → XR) (x : FrameX) : FrameX := x.map (fun r => (r.1, r.2.map f))

/-- `apply_grouping(g, control_feature_names, errors)` on the whole frame -/
def applyGroupingF (g : Grouping) (e : Errors) (ft : FTables) : Option FrameX :=
  if e = .raise ∧ byNs ft then none
  else some (aggLevelF g ft.ncf ft.ncols (coercedF ft))

def groupMinF := applyGroupingF .min
def groupMaxF := applyGroupingF .max

def diffCore (ft : FTables) (sub : FrameX) : FrameX :=
  aggLevelF AggregateSpec.diffAgg ft.ncf ft.ncols (mapF XR.abs (bcastF XR.sub ft.ncf ft.ncols (coercedF ft) sub))

def differenceF (m : Method) (e : Errors) (ft : FTables) : Option FrameX :=
  match m with
  | .between => (applyGroupingF AggregateSpec.diffBetweenSubtrahend e ft).map (diffCore ft)
  | .toOverall => if ovNs ft then none else some (diffCore ft (overallF ft))

def ratioF (m : Method) (e : Errors) (ft : FTables) : Option FrameX :=
  match m with
  | .between =>
    match applyGroupingF AggregateSpec.ratioBetweenNum e ft, applyGroupingF AggregateSpec.ratioBetweenDen e ft with
    | some num, some den => some (sameF XR.div ft.ncols num den)
    | _, _ => none
  | .toOverall =>
    if byNs ft || ovNs ft then none
    else some (aggLevelF AggregateSpec.ratioOverallAgg ft.ncf ft.ncols
      (mapF AggregateSpec.ratioSubOne (bcastF XR.div ft.ncf ft.ncols (coercedF ft) (overallF ft))))

/-- by_group with its non-scalar cells replaced by NaN -/
def scrubBy (ft : FTables) : FTables :=
  { ft with byGroup := ft.byGroup.map (fun r => (r.1, r.2.map (fun c => if isNonscalar c then Cell.nan else c))) }

/-! ### driver glue -/

def fmtRow (r : List XR) : String := if r.isEmpty then "-" else ",".intercalate (r.map XR.fmt)

def fmtResF : Option FrameX → String
  | none => "err"
  | some t => fmtKeys (t.map (·.1)) ++ "|" ++
      (if t.isEmpty then "none" else ";".intercalate (t.map (fun e => fmtRow e.2)))

def parseRows (s : String) : Option (List (List Cell)) :=
  if s = "none" then some [] else (s.splitOn ";").mapM (fun r => (r.splitOn ",").mapM Cell.parse)

def mkFrame (ks : List Key) (rs : List (List Cell)) : Option (List (Key × List Cell)) :=
  if ks.length = rs.length then some (ks.zip rs) else none

def allResultsF (t : FTables) : List (Option FrameX) :=
  [groupMinF .raise t, groupMinF .coerce t, groupMaxF .raise t, groupMaxF .coerce t,
   differenceF .between .raise t, differenceF .between .coerce t,
   differenceF .toOverall .raise t, differenceF .toOverall .coerce t,
   ratioF .between .raise t, ratioF .between .coerce t,
   ratioF .toOverall .raise t, ratioF .toOverall .coerce t]

/-- the same 12 aggregates computed column by column with the single-metric model -/
def allResultsByColumn (t : FTables) (j : Nat) : List (Option (List (Key × XR))) :=
  allResults (colTab t j)

/-- op: `aggf.eval <ncf> <ncols> <by keys> <by rows> <overall keys> <overall rows>`  (rows: cells joined
    by ",", rows joined by ";").  Output: 12 space separated frame results (`<keys>|<rows>` or `err`),
    order as in `agg.eval`.  A frame that is not rectangular is rejected. -/
def handle (toks : List String) : Option String :=
  match toks with
  | ["aggf.eval", ncf, ncols, bk, br, ok, orows] => do
    let ncf ← Proto.parseNat ncf
    let ncols ← Proto.parseNat ncols
    let bg ← mkFrame (← parseKeys bk) (← parseRows br)
    let ov ← mkFrame (← parseKeys ok) (← parseRows orows)
    if bg.isEmpty then none
    let t : FTables := ⟨ncf, ncols, bg, ov⟩
    if ¬ WF t then none
    pure (" ".intercalate ((allResultsF t).map fmtResF))
  | _ => none

end AggFrame
