import FairModel.Lemmas.Prelude
import FairModel.Model.Pmf

namespace Pmf

/-! ### tie to the source: what the definitions LIFTED on every run from `_threshold_operation.py` and
`_interpolated_thresholder.py` (`Generated/ThresholderSrc.lean`) have to say; every proof below goes through these -/

theorem src_opGt (s t : Rat) : ThresholderSrc.opGt s t = true ↔ t < s := by simp [ThresholderSrc.opGt]
theorem src_opLt (s t : Rat) : ThresholderSrc.opLt s t = true ↔ s < t := by simp [ThresholderSrc.opLt]
theorem src_interp (p0 o0 p1 o1 : Rat) : ThresholderSrc.interp p0 o0 p1 o1 = p0 * o0 + p1 * o1 := rfl
theorem src_withIgnore (pi c v : Rat) : ThresholderSrc.withIgnore pi c v = pi * c + (1 - pi) * v := rfl
theorem src_initialProb (s : Rat) : ThresholderSrc.initialProb s = 0 := by
  unfold ThresholderSrc.initialProb; ring
theorem src_cols (p : Rat) : ThresholderSrc.col0 p = 1 - p ∧ ThresholderSrc.col1 p = p := ⟨rfl, rfl⟩
theorem src_probColumn : ThresholderSrc.probColumn = 1 := rfl
theorem src_drawsOne (p u : Rat) : ThresholderSrc.drawsOne p u = true ↔ u ≤ p := by simp [ThresholderSrc.drawsOne]

/-! ### threshold operations -/

theorem apply_zero_or_one (o : ThrOp) (s : Rat) : o.apply s = 0 ∨ o.apply s = 1 := by
  unfold ThrOp.apply
  split <;> first | (split <;> simp) | simp

theorem apply_nonneg (o : ThrOp) (s : Rat) : 0 ≤ o.apply s := by
  rcases apply_zero_or_one o s with h | h <;> rw [h] <;> norm_num

theorem apply_le_one (o : ThrOp) (s : Rat) : o.apply s ≤ 1 := by
  rcases apply_zero_or_one o s with h | h <;> rw [h] <;> norm_num

/-- a `>` threshold is a non-decreasing step function of the score -/
theorem apply_gt_mono (t : XR) (s s' : Rat) (h : s ≤ s') :
    (ThrOp.mk .gt t).apply s ≤ (ThrOp.mk .gt t).apply s' := by
  unfold ThrOp.apply
  cases t with
  | nan => simp
  | ninf => simp
  | pinf => simp
  | fin q =>
    simp only
    by_cases h1 : s > q
    · have h2 : s' > q := lt_of_lt_of_le h1 h
      simp [ThresholderSrc.opGt, h1, h2]
    · by_cases h2 : s' > q <;> simp [ThresholderSrc.opGt, h1, h2]

/-! ### one rule -/

theorem interp_nonneg (r : Rule) (s : Rat) (h0 : 0 ≤ r.p0) (h1 : 0 ≤ r.p1) : 0 ≤ r.interp s := by
  unfold Rule.interp; rw [src_interp]
  have a := apply_nonneg r.op0 s
  have b := apply_nonneg r.op1 s
  positivity

theorem interp_le (r : Rule) (s : Rat) (h0 : 0 ≤ r.p0) (h1 : 0 ≤ r.p1) : r.interp s ≤ r.p0 + r.p1 := by
  unfold Rule.interp; rw [src_interp]
  have a := apply_le_one r.op0 s
  have b := apply_le_one r.op1 s
  nlinarith [apply_nonneg r.op0 s, apply_nonneg r.op1 s]

/-- the propositional content of `Rule.valid eps` -/
structure Rule.Valid (eps : Rat) (r : Rule) : Prop where
  p0 : 0 ≤ r.p0
  p1 : 0 ≤ r.p1
  hi : r.p0 + r.p1 ≤ 1 + eps
  lo : 1 - eps ≤ r.p0 + r.p1
  ign : ∀ pi c, r.ignore = some (pi, c) → 0 ≤ pi ∧ pi ≤ 1 ∧ 0 ≤ c ∧ c ≤ 1

theorem valid_iff (eps : Rat) (r : Rule) : r.valid eps = true ↔ r.Valid eps := by
  unfold Rule.valid
  constructor
  · intro h
    simp only [Bool.and_eq_true, decide_eq_true_eq] at h
    obtain ⟨⟨⟨⟨a, b⟩, c⟩, d⟩, e⟩ := h
    refine ⟨a, b, c, d, ?_⟩
    intro pi cc hi
    rw [hi] at e
    simp only [Bool.and_eq_true, decide_eq_true_eq] at e
    obtain ⟨⟨⟨x, y⟩, z⟩, w⟩ := e
    exact ⟨x, y, z, w⟩
  · intro h
    simp only [Bool.and_eq_true, decide_eq_true_eq]
    refine ⟨⟨⟨⟨h.p0, h.p1⟩, h.hi⟩, h.lo⟩, ?_⟩
    cases hi : r.ignore with
    | none => rfl
    | some pc =>
      obtain ⟨pi, c⟩ := pc
      have := h.ign pi c hi
      simp [this.1, this.2.1, this.2.2.1, this.2.2.2]

theorem positive_nonneg (eps : Rat) (r : Rule) (s : Rat) (h : r.Valid eps) : 0 ≤ r.positive s := by
  unfold Rule.positive
  have hi := interp_nonneg r s h.p0 h.p1
  cases hg : r.ignore with
  | none => simpa using hi
  | some pc =>
    obtain ⟨pi, c⟩ := pc
    obtain ⟨a, b, c0, c1⟩ := h.ign pi c hg
    simp only [src_withIgnore]
    have : 0 ≤ 1 - pi := by linarith
    positivity

theorem positive_le (eps : Rat) (heps : 0 ≤ eps) (r : Rule) (s : Rat) (h : r.Valid eps) :
    r.positive s ≤ 1 + eps := by
  unfold Rule.positive
  have hi := interp_le r s h.p0 h.p1
  have hn := interp_nonneg r s h.p0 h.p1
  cases hg : r.ignore with
  | none => simp only; linarith [h.hi]
  | some pc =>
    obtain ⟨pi, c⟩ := pc
    obtain ⟨a, b, c0, c1⟩ := h.ign pi c hg
    simp only [src_withIgnore]
    have h1 : r.interp s ≤ 1 + eps := by linarith [h.hi]
    nlinarith

theorem positive_mono (eps : Rat) (r : Rule) (s s' : Rat) (h : r.Valid eps) (hgt : r.allGt = true)
    (hs : s ≤ s') : r.positive s ≤ r.positive s' := by
  have hc : r.op0.cmp = .gt ∧ r.op1.cmp = .gt := by
    unfold Rule.allGt at hgt
    simpa using hgt
  have e0 : r.op0 = ⟨.gt, r.op0.thr⟩ := by
    cases h0 : r.op0; simp only [h0] at hc; simp [hc.1]
  have e1 : r.op1 = ⟨.gt, r.op1.thr⟩ := by
    cases h1 : r.op1; simp only [h1] at hc; simp [hc.2]
  have m0 := apply_gt_mono r.op0.thr s s' hs
  have m1 := apply_gt_mono r.op1.thr s s' hs
  rw [← e0] at m0
  rw [← e1] at m1
  have hi : r.interp s ≤ r.interp s' := by
    unfold Rule.interp; rw [src_interp, src_interp]
    nlinarith [h.p0, h.p1]
  unfold Rule.positive
  cases hg : r.ignore with
  | none => simpa using hi
  | some pc =>
    obtain ⟨pi, c⟩ := pc
    obtain ⟨a, b, c0, c1⟩ := h.ign pi c hg
    simp only [src_withIgnore]
    nlinarith

/-! ### selection by group -/

theorem foldl_select_cases (dict : List (String × Rule)) (g : String) (s acc : Rat) :
    dict.foldl (fun acc e => if g = e.1 then e.2.positive s else acc) acc = acc ∨
    ∃ e ∈ dict, g = e.1 ∧
      dict.foldl (fun acc e => if g = e.1 then e.2.positive s else acc) acc = e.2.positive s := by
  induction dict generalizing acc with
  | nil => left; rfl
  | cons e rest ih =>
    simp only [List.foldl_cons]
    by_cases hg : g = e.1
    · rw [if_pos hg]
      rcases ih (e.2.positive s) with h | ⟨e', he', hge', h⟩
      · right; exact ⟨e, by simp, hg, h⟩
      · right; exact ⟨e', by simp [he'], hge', h⟩
    · rw [if_neg hg]
      rcases ih acc with h | ⟨e', he', hge', h⟩
      · left; exact h
      · right; exact ⟨e', by simp [he'], hge', h⟩

theorem thrPositive_cases (dict : List (String × Rule)) (g : String) (s : Rat) :
    thrPositive dict g s = 0 ∨ ∃ e ∈ dict, g = e.1 ∧ thrPositive dict g s = e.2.positive s := by
  unfold thrPositive
  rw [src_initialProb]
  exact foldl_select_cases dict g s 0

theorem foldl_select_absent (dict : List (String × Rule)) (g : String) (s acc : Rat)
    (h : ∀ e ∈ dict, g ≠ e.1) :
    dict.foldl (fun acc e => if g = e.1 then e.2.positive s else acc) acc = acc := by
  induction dict generalizing acc with
  | nil => rfl
  | cons e rest ih =>
    simp only [List.foldl_cons]
    have : g ≠ e.1 := h e (by simp)
    simp only [this, if_false]
    exact ih acc (fun e' he' => h e' (by simp [he']))

/-- with distinct keys (a Python dict) the rule of the row's own group is the one applied -/
theorem thrPositive_of_mem (dict : List (String × Rule)) (g : String) (r : Rule) (s : Rat)
    (hnd : (dict.map (·.1)).Nodup) (hm : (g, r) ∈ dict) : thrPositive dict g s = r.positive s := by
  unfold thrPositive
  generalize ThresholderSrc.initialProb s = acc
  induction dict generalizing acc with
  | nil => simp at hm
  | cons e rest ih =>
    simp only [List.foldl_cons]
    simp only [List.map_cons, List.nodup_cons] at hnd
    rcases List.mem_cons.mp hm with he | hrest
    · subst he
      simp only [if_true]
      apply foldl_select_absent
      intro e' he' heq
      exact hnd.1 (List.mem_map.mpr ⟨e', he', heq.symm⟩)
    · have hne : g ≠ e.1 := by
        intro heq
        apply hnd.1
        rw [← heq]
        exact List.mem_map.mpr ⟨(g, r), hrest, rfl⟩
      simp only [hne, if_false]
      exact ih hnd.2 hrest acc

theorem foldl_select_mono (dict : List (String × Rule)) (g : String) (s s' acc acc' : Rat)
    (hacc : acc ≤ acc') (h : ∀ e ∈ dict, e.2.positive s ≤ e.2.positive s') :
    dict.foldl (fun acc e => if g = e.1 then e.2.positive s else acc) acc ≤
    dict.foldl (fun acc e => if g = e.1 then e.2.positive s' else acc) acc' := by
  induction dict generalizing acc acc' with
  | nil => exact hacc
  | cons e rest ih =>
    simp only [List.foldl_cons]
    apply ih
    · by_cases hg : g = e.1
      · simp only [hg, if_true]; exact h e (by simp)
      · simp only [hg, if_false]; exact hacc
    · intro e' he'; exact h e' (by simp [he'])

/-! ### Bernoulli draw -/

theorem bernoulli_eq_one_iff (p u : Rat) : bernoulli p u = 1 ↔ u ≤ p := by
  unfold bernoulli
  by_cases h : p ≥ u <;> simp [ThresholderSrc.drawsOne, h]

theorem bernoulli_zero_or_one (p u : Rat) : bernoulli p u = 0 ∨ bernoulli p u = 1 := by
  unfold bernoulli
  by_cases h : p ≥ u <;> simp [ThresholderSrc.drawsOne, h]

/-! ### exponentiated gradient, classification -/

theorem find_of_mem_nodup (weights : List (Nat × Rat)) (e : Nat × Rat)
    (hnd : (weights.map (·.1)).Nodup) (he : e ∈ weights) :
    weights.find? (fun x => x.1 == e.1) = some e := by
  induction weights with
  | nil => simp at he
  | cons x xs ih =>
    simp only [List.map_cons, List.nodup_cons] at hnd
    rcases List.mem_cons.mp he with h | h
    · subst h; simp
    · have hne : x.1 ≠ e.1 := by
        intro heq
        apply hnd.1
        rw [heq]
        exact List.mem_map.mpr ⟨e, h, rfl⟩
      rw [List.find?_cons]
      have : (x.1 == e.1) = false := by simpa using hne
      rw [this]
      exact ih hnd.2 h

theorem weightOf_of_mem (weights : List (Nat × Rat)) (e : Nat × Rat)
    (hnd : (weights.map (·.1)).Nodup) (he : e ∈ weights) : weightOf weights e.1 = e.2 := by
  unfold weightOf
  rw [find_of_mem_nodup weights e hnd he]

/-- the lifted zero-weight mask of `_pmf_predict` (`EgPredict.egColumn`) in closed form -/
theorem maskedPred_def (preds : List Rat) (weights : List (Nat × Rat)) (t : Nat) :
    maskedPred preds weights t = if weightOf weights t = 0 then 0 else preds.getD t 0 := by
  unfold maskedPred EgPredict.egColumn
  rfl

/-- with distinct predictor ids the masked mixture is the plain id-aligned mixture -/
theorem egPositive_eq_sum (preds : List Rat) (weights : List (Nat × Rat))
    (hnd : (weights.map (·.1)).Nodup) :
    egPositive preds weights = (weights.map (fun e => preds.getD e.1 0 * e.2)).sum := by
  unfold egPositive
  rw [if_pos (by rfl : EgPredict.dotById = true)]
  congr 1
  apply List.map_congr_left
  intro e he
  unfold maskedPred EgPredict.egColumn
  rw [weightOf_of_mem weights e hnd he]
  by_cases h : e.2 = 0 <;> simp [h]

theorem sum_mul_le_sum (l : List (Rat × Rat)) (h : ∀ x ∈ l, 0 ≤ x.1 ∧ x.1 ≤ 1 ∧ 0 ≤ x.2) :
    0 ≤ (l.map (fun x => x.1 * x.2)).sum ∧ (l.map (fun x => x.1 * x.2)).sum ≤ (l.map (·.2)).sum := by
  induction l with
  | nil => simp
  | cons x xs ih =>
    have hx := h x (by simp)
    have := ih (fun y hy => h y (by simp [hy]))
    simp only [List.map_cons, List.sum_cons]
    constructor
    · have : 0 ≤ x.1 * x.2 := mul_nonneg hx.1 hx.2.2
      linarith
    · nlinarith [hx.1, hx.2.1, hx.2.2]

/-! ### `RandomState.choice` -/

theorem take_sum_nonneg (l : List Rat) (h : ∀ p ∈ l, 0 ≤ p) (k : Nat) : 0 ≤ (l.take k).sum := by
  apply List.sum_nonneg
  intro p hp
  exact h p (List.mem_of_mem_take hp)

theorem choiceIdxFrom_eq_iff (probs : List Rat) (h : ∀ p ∈ probs, 0 ≤ p) (acc u : Rat) (hacc : acc ≤ u)
    (i : Nat) (hi : i < probs.length) :
    choiceIdxFrom acc probs u = i ↔
      acc + (probs.take i).sum ≤ u ∧ u < acc + (probs.take (i + 1)).sum := by
  induction probs generalizing acc i with
  | nil => simp at hi
  | cons p ps ih =>
    have hp : 0 ≤ p := h p (by simp)
    have hps : ∀ q ∈ ps, 0 ≤ q := fun q hq => h q (by simp [hq])
    unfold choiceIdxFrom
    cases i with
    | zero =>
      by_cases hle : acc + p ≤ u
      · simp only [hle, if_true]
        constructor
        · intro h0; omega
        · rintro ⟨_, h2⟩
          simp at h2
          linarith
      · simp only [hle, if_false, true_iff]
        simp
        exact ⟨hacc, lt_of_not_ge hle⟩
    | succ j =>
      have hj : j < ps.length := by simpa using hi
      by_cases hle : acc + p ≤ u
      · simp only [hle, if_true]
        have := ih hps (acc + p) hle j hj
        constructor
        · intro h0
          have h0' : choiceIdxFrom (acc + p) ps u = j := by omega
          have := this.mp h0'
          simp only [List.take_succ_cons, List.sum_cons]
          constructor <;> linarith [this.1, this.2]
        · rintro ⟨h1, h2⟩
          simp only [List.take_succ_cons, List.sum_cons] at h1 h2
          have : choiceIdxFrom (acc + p) ps u = j := this.mpr ⟨by linarith, by linarith⟩
          omega
      · simp only [hle, if_false]
        constructor
        · intro h0; omega
        · rintro ⟨h1, _⟩
          exfalso
          simp only [List.take_succ_cons, List.sum_cons] at h1
          have := take_sum_nonneg ps hps j
          apply hle
          linarith

theorem choiceIdxFrom_lt (probs : List Rat) (acc u : Rat) (hacc : acc ≤ u) (hu : u < acc + probs.sum) :
    choiceIdxFrom acc probs u < probs.length := by
  induction probs generalizing acc with
  | nil => simp at hu; linarith
  | cons p ps ih =>
    unfold choiceIdxFrom
    by_cases hle : acc + p ≤ u
    · simp only [hle, if_true, List.length_cons]
      have := ih (acc + p) hle (by simp only [List.sum_cons] at hu; linarith)
      omega
    · simp [hle]

/-- with `weights_.index = 0..T-1` the id-ordered weights are the stored values in order -/
theorem aligned_weights (weights : List (Nat × Rat)) (h : aligned weights = true) :
    (List.range weights.length).map (weightOf weights) = weights.map (·.2) := by
  have hids : weights.map (·.1) = List.range weights.length := by
    unfold aligned at h
    simpa using h
  have hnd : (weights.map (·.1)).Nodup := by rw [hids]; exact List.nodup_range
  apply List.ext_getElem
  · simp
  · intro t h1 h2
    have ht : t < weights.length := by simpa using h2
    simp only [List.getElem_map, List.getElem_range]
    have hid : (weights[t]).1 = t := by
      have : (weights.map (·.1))[t]'(by simpa using ht) = (List.range weights.length)[t]'(by simpa using ht) := by
        simp only [hids]
      simpa using this
    have := weightOf_of_mem weights weights[t] hnd (List.getElem_mem ht)
    rw [hid] at this
    exact this


end Pmf
