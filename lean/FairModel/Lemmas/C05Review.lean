/-
Review additions for C05 (and C04): the comparison class of the optimality theorems stated FROM FIRST PRINCIPLES.

A competing rule of one group is an `OpMix`: finitely many `ThresholdOperation`s (arbitrary thresholds: finite, ±inf, equal
to a score; operator "<" only when `flip`) with non-negative weights summing to 1.  Its probability of predicting 1 on a
score is `OpMix.prob`, its expected metrics are `m.eval (expCM prob rows)` — computed from the ROWS, not from tradeoff
points.  `opMix_metric` (n-ary affinity of every METRIC_DICT entry) and `opMix_to_mixture` (sweep completeness) reduce such
a rule to a `Mixture` of tradeoff points, the class `C05.optimal_simple` / `optimal_EO` are stated over.
-/
import FairModel.Lemmas.ThresholdOpt
import FairModel.Lemmas.ThresholdComplete

set_option linter.unusedSimpArgs false
set_option linter.unusedVariables false

namespace Threshold
open ThresholdGen

/-- a randomised threshold rule of one group, from first principles: weighted threshold operations -/
abbrev OpMix := List (Rat × Op)

/-- P(prediction = 1 | score s) -/
def OpMix.prob (m : OpMix) (s : Rat) : Rat := (m.map (fun wo => wo.1 * ind (wo.2.apply s))).sum

def OpMix.weight (m : OpMix) : Rat := (m.map (·.1)).sum

/-- weights ≥ 0 summing to 1; the operator "<" is allowed only when `flip` -/
def OpMix.Valid (flip : Bool) (m : OpMix) : Prop :=
  (∀ wo ∈ m, 0 ≤ wo.1 ∧ (wo.2.gt = true ∨ flip = true)) ∧ m.weight = 1

/-! ### linear forms -/

theorem wsum_lin4 {α} (l : List (Rat × α)) (a b c d : Rat) (f1 f2 f3 f4 : α → Rat) :
    a * (l.map (fun x => x.1 * f1 x.2)).sum + b * (l.map (fun x => x.1 * f2 x.2)).sum +
      c * (l.map (fun x => x.1 * f3 x.2)).sum + d * (l.map (fun x => x.1 * f4 x.2)).sum =
    (l.map (fun x => x.1 * (a * f1 x.2 + b * f2 x.2 + c * f3 x.2 + d * f4 x.2))).sum := by
  induction l with
  | nil => simp
  | cons x l ih =>
    simp only [List.map_cons, List.sum_cons]
    rw [← ih]; ring

theorem wsum_const {α} (l : List (Rat × α)) (f : α → Rat) (c : Rat) (h : ∀ x ∈ l, f x.2 = c) :
    (l.map (fun x => x.1 * f x.2)).sum = (l.map (·.1)).sum * c := by
  induction l with
  | nil => simp
  | cons x l ih =>
    simp only [List.map_cons, List.sum_cons]
    rw [ih (fun y hy => h y (by simp [hy])), h x (by simp)]; ring

theorem wsum_add {α} (l : List (Rat × α)) (f g : α → Rat) :
    (l.map (fun x => x.1 * f x.2)).sum + (l.map (fun x => x.1 * g x.2)).sum =
    (l.map (fun x => x.1 * (f x.2 + g x.2))).sum := by
  induction l with
  | nil => simp
  | cons x l ih =>
    simp only [List.map_cons, List.sum_cons]
    rw [← ih]; ring

theorem wsum_congr {α} (l : List (Rat × α)) (f g : α → Rat) (h : ∀ x ∈ l, f x.2 = g x.2) :
    (l.map (fun x => x.1 * f x.2)).sum = (l.map (fun x => x.1 * g x.2)).sum := by
  induction l with
  | nil => simp
  | cons x l ih =>
    simp only [List.map_cons, List.sum_cons]
    rw [ih (fun y hy => h y (by simp [hy])), h x (by simp)]

/-- weighted entrywise sum of confusion matrices -/
def CM.lin (ws : List (Rat × CM)) : CM :=
  { true_positives := (ws.map (fun x => x.1 * x.2.true_positives)).sum,
    false_positives := (ws.map (fun x => x.1 * x.2.false_positives)).sum,
    true_negatives := (ws.map (fun x => x.1 * x.2.true_negatives)).sum,
    false_negatives := (ws.map (fun x => x.1 * x.2.false_negatives)).sum }

/-- for a fixed number `P` of positives and `Nn` of negatives every METRIC_DICT entry is a LINEAR form of the four
    confusion counts (coefficients built from `1/P`, `1/Nn`, `1/(P+Nn)`; with Lean's `x/0 = 0` also when one is 0) -/
theorem metric_linear_form (m : Metric) (P Nn : Rat) :
    ∃ a b c d : Rat, ∀ X : CM, X.positives = P → X.negatives = Nn →
      m.eval X = a * X.true_positives + b * X.false_positives + c * X.true_negatives + d * X.false_negatives := by
  have hn : ∀ X : CM, X.positives = P → X.negatives = Nn → X.n = P + Nn := by
    intro X hP hN
    rw [← hP, ← hN]; simp only [CM.n, CM.positives, CM.negatives]; ring
  cases m
  · exact ⟨(P + Nn)⁻¹, (P + Nn)⁻¹, 0, 0, fun X hP hN => by
      simp only [Metric.eval, hn X hP hN, CM.predicted_positives, div_eq_mul_inv]; ring⟩
  · exact ⟨0, Nn⁻¹, 0, 0, fun X hP hN => by simp only [Metric.eval, hN, div_eq_mul_inv]; ring⟩
  · exact ⟨0, 0, 0, P⁻¹, fun X hP hN => by simp only [Metric.eval, hP, div_eq_mul_inv]; ring⟩
  · exact ⟨P⁻¹, 0, 0, 0, fun X hP hN => by simp only [Metric.eval, hP, div_eq_mul_inv]; ring⟩
  · exact ⟨0, 0, Nn⁻¹, 0, fun X hP hN => by simp only [Metric.eval, hN, div_eq_mul_inv]; ring⟩
  · exact ⟨(P + Nn)⁻¹, 0, (P + Nn)⁻¹, 0, fun X hP hN => by
      simp only [Metric.eval, hn X hP hN, div_eq_mul_inv]; ring⟩
  · exact ⟨1 / 2 * P⁻¹, 0, 1 / 2 * Nn⁻¹, 0, fun X hP hN => by
      simp only [Metric.eval, hP, hN, div_eq_mul_inv]; ring⟩

/-- **n-ary `metric_affine`**: for confusion matrices with the same positives and the same negatives, every metric of a
    weighted sum with total weight 1 is the weighted sum of the metric values -/
theorem metric_affine_list (m : Metric) (ws : List (Rat × CM)) (P Nn : Rat) (hsum : (ws.map (·.1)).sum = 1)
    (hP : ∀ x ∈ ws, x.2.positives = P) (hN : ∀ x ∈ ws, x.2.negatives = Nn) :
    m.eval (CM.lin ws) = (ws.map (fun x => x.1 * m.eval x.2)).sum := by
  obtain ⟨a, b, c, d, hlin⟩ := metric_linear_form m P Nn
  have hLP : (CM.lin ws).positives = P := by
    simp only [CM.lin, CM.positives]
    rw [wsum_add ws (fun X => X.true_positives) (fun X => X.false_negatives),
      wsum_const ws (fun X => X.true_positives + X.false_negatives) P (fun x hx => hP x hx), hsum, one_mul]
  have hLN : (CM.lin ws).negatives = Nn := by
    simp only [CM.lin, CM.negatives]
    rw [wsum_add ws (fun X => X.true_negatives) (fun X => X.false_positives),
      wsum_const ws (fun X => X.true_negatives + X.false_positives) Nn (fun x hx => hN x hx), hsum, one_mul]
  rw [hlin _ hLP hLN]
  simp only [CM.lin]
  rw [wsum_lin4 ws a b c d (fun X => X.true_positives) (fun X => X.false_positives) (fun X => X.true_negatives)
    (fun X => X.false_negatives)]
  exact (wsum_congr ws (fun X => m.eval X)
    (fun X => a * X.true_positives + b * X.false_positives + c * X.true_negatives + d * X.false_negatives)
    (fun x hx => hlin x.2 (hP x hx) (hN x hx))).symm

/-! ### expected confusion counts of an `OpMix`, computed from the rows -/

theorem opMix_sum_sel (sel : Row → Bool) (m : OpMix) (rows : List Row) :
    sumBy (fun r => if sel r then m.prob r.score else 0) rows =
      (m.map (fun wo => wo.1 * sumBy (fun r => if sel r then ind (wo.2.apply r.score) else 0) rows)).sum := by
  induction m with
  | nil =>
    simp only [OpMix.prob, List.map_nil, List.sum_nil]
    rw [sumBy_congr (g := fun _ => (0 : Rat) * 0 + 0 * 0) (fun r _ => by split <;> ring), sumBy_lin]; ring
  | cons wo m ih =>
    simp only [List.map_cons, List.sum_cons]
    rw [← ih]
    have : ∀ r ∈ rows, (if sel r then OpMix.prob (wo :: m) r.score else 0) =
        wo.1 * (if sel r then ind (wo.2.apply r.score) else 0) + 1 * (if sel r then OpMix.prob m r.score else 0) := by
      intro r _
      simp only [OpMix.prob, List.map_cons, List.sum_cons]
      split <;> ring
    rw [sumBy_congr this, sumBy_lin]; ring

theorem opMix_sum_sel_compl (sel : Row → Bool) (m : OpMix) (rows : List Row) :
    sumBy (fun r => if sel r then m.weight - m.prob r.score else 0) rows =
      (m.map (fun wo => wo.1 * sumBy (fun r => if sel r then 1 - ind (wo.2.apply r.score) else 0) rows)).sum := by
  induction m with
  | nil =>
    simp only [OpMix.prob, OpMix.weight, List.map_nil, List.sum_nil]
    rw [sumBy_congr (g := fun _ => (0 : Rat) * 0 + 0 * 0) (fun r _ => by split <;> ring), sumBy_lin]; ring
  | cons wo m ih =>
    simp only [List.map_cons, List.sum_cons]
    rw [← ih]
    have : ∀ r ∈ rows, (if sel r then OpMix.weight (wo :: m) - OpMix.prob (wo :: m) r.score else 0) =
        wo.1 * (if sel r then 1 - ind (wo.2.apply r.score) else 0) +
          1 * (if sel r then OpMix.weight m - OpMix.prob m r.score else 0) := by
      intro r _
      simp only [OpMix.prob, OpMix.weight, List.map_cons, List.sum_cons]
      split <;> ring
    rw [sumBy_congr this, sumBy_lin]; ring

/-- the expected confusion counts of an `OpMix` of total weight 1 on `rows` are the weighted sum of the confusion counts
    of its operations -/
theorem expCM_opMix (m : OpMix) (rows : List Row) (hw : m.weight = 1) :
    expCM m.prob rows = CM.lin (m.map (fun wo => (wo.1, confusion wo.2 rows))) := by
  have e1 := opMix_sum_sel (fun r => r.label) m rows
  have e2 := opMix_sum_sel (fun r => !r.label) m rows
  have e3 := opMix_sum_sel_compl (fun r => !r.label) m rows
  have e4 := opMix_sum_sel_compl (fun r => r.label) m rows
  rw [hw] at e3 e4
  apply CM.ext'
  · simp only [expCM, CM.lin, confusion, List.map_map, Function.comp_def]
    exact e1
  · simp only [expCM, CM.lin, confusion, List.map_map, Function.comp_def]
    rw [sumBy_congr (g := fun r => if !r.label then m.prob r.score else 0) (fun r _ => by cases r.label <;> simp), e2]
    congr 1; apply List.map_congr_left; intro wo _
    congr 1; apply sumBy_congr; intro r _; cases r.label <;> simp
  · simp only [expCM, CM.lin, confusion, List.map_map, Function.comp_def]
    rw [sumBy_congr (g := fun r => if !r.label then 1 - m.prob r.score else 0) (fun r _ => by cases r.label <;> simp), e3]
    congr 1; apply List.map_congr_left; intro wo _
    congr 1; apply sumBy_congr; intro r _; cases r.label <;> simp
  · simp only [expCM, CM.lin, confusion, List.map_map, Function.comp_def]
    exact e4

/-- **expected metric of a randomised threshold rule, from the rows** = weighted sum of the metrics of its operations -/
theorem opMix_metric (mt : Metric) (m : OpMix) (rows : List Row) (hw : m.weight = 1) :
    mt.eval (expCM m.prob rows) = (m.map (fun wo => wo.1 * mt.eval (confusion wo.2 rows))).sum := by
  rw [expCM_opMix m rows hw,
    metric_affine_list mt _ (nPos rows : Rat) (nNeg rows : Rat) (by simpa [OpMix.weight, Function.comp_def] using hw)
      (fun x hx => by
        obtain ⟨wo, _, rfl⟩ := List.mem_map.mp hx
        exact expCM_positives _ rows)
      (fun x hx => by
        obtain ⟨wo, _, rfl⟩ := List.mem_map.mp hx
        exact expCM_negatives _ rows)]
  simp only [List.map_map, Function.comp_def]

/-- **every randomised threshold rule is a mixture of tradeoff points** with the same expected metric pair -/
theorem opMix_to_mixture (flip : Bool) (xm ym : Metric) (rows : List Row) (m : OpMix) (hv : m.Valid flip) :
    ∃ M : Mixture, M.Valid (rawPoints flip xm ym rows) ∧
      M.x = xm.eval (expCM m.prob rows) ∧ M.y = ym.eval (expCM m.prob rows) := by
  rw [opMix_metric xm m rows hv.2, opMix_metric ym m rows hv.2]
  obtain ⟨hmem, hw⟩ := hv
  suffices h : ∃ M : Mixture, (∀ wp ∈ M, 0 ≤ wp.1 ∧ wp.2 ∈ rawPoints flip xm ym rows) ∧ M.weight = m.weight ∧
      M.x = (m.map (fun wo => wo.1 * xm.eval (confusion wo.2 rows))).sum ∧
      M.y = (m.map (fun wo => wo.1 * ym.eval (confusion wo.2 rows))).sum by
    obtain ⟨M, h1, h2, h3, h4⟩ := h
    exact ⟨M, ⟨h1, by rw [h2]; exact hw⟩, h3, h4⟩
  clear hw
  induction m with
  | nil => exact ⟨[], by simp, rfl, rfl, rfl⟩
  | cons wo m ih =>
    obtain ⟨M, h1, h2, h3, h4⟩ := ih (fun x hx => hmem x (by simp [hx]))
    obtain ⟨hw0, hop⟩ := hmem wo (by simp)
    obtain ⟨p, hp, _, hc⟩ := sweep_complete flip xm ym rows wo.2 hop
    obtain ⟨hpx, hpy⟩ := rawPoints_sound flip xm ym rows p hp
    refine ⟨(wo.1, p) :: M, ?_, ?_, ?_, ?_⟩
    · intro wp hwp
      rcases List.mem_cons.mp hwp with rfl | h
      · exact ⟨hw0, hp⟩
      · exact h1 wp h
    · simp only [Mixture.weight, OpMix.weight, List.map_cons, List.sum_cons] at h2 ⊢; rw [h2]
    · simp only [Mixture.x, List.map_cons, List.sum_cons] at h3 ⊢; rw [h3, hpx, hc]
    · simp only [Mixture.y, List.map_cons, List.sum_cons] at h4 ⊢; rw [h4, hpy, hc]

/-! ### overall expected confusion counts of an arbitrary family of per-group randomised predictors -/

/-- sum over groups of the expected confusion counts of the group's predictor on the group's rows -/
def overallCMp (groups : List (List Row)) (probs : List (Rat → Rat)) : CM :=
  (List.zipWith (fun g p => expCM p g) groups probs).foldr CM.add CM.zero

theorem overallCMp_eq (x y : Rat) : ∀ (groups : List (List Row)) (probs : List (Rat → Rat)),
    probs.length = groups.length →
    (∀ j (hj : j < groups.length) (hj' : j < probs.length),
      nPos groups[j] ≠ 0 ∧ nNeg groups[j] ≠ 0 ∧
      eoXMetric.eval (expCM probs[j] groups[j]) = x ∧ eoYMetric.eval (expCM probs[j] groups[j]) = y) →
    overallCMp groups probs = eoCounts (totalNeg groups) (totalPos groups) x y := by
  intro groups
  induction groups with
  | nil =>
    intro probs _ _
    apply CM.ext' <;> simp [overallCMp, CM.zero, eoCounts, totalNeg, totalPos]
  | cons g G ih =>
    intro probs hlen h
    cases probs with
    | nil => simp at hlen
    | cons r R =>
      have h0 := h 0 (by simp) (by simp)
      simp only [List.getElem_cons_zero] at h0
      have hrest := ih R (by simpa using hlen) (fun j hj hj' => by
        have := h (j + 1) (by simp; omega) (by simp; omega)
        simpa using this)
      have hhead := expCM_of_rates r g x y h0.1 h0.2.1 h0.2.2.1 h0.2.2.2
      unfold overallCMp at hrest ⊢
      simp only [List.zipWith_cons_cons, List.foldr_cons]
      rw [hrest, hhead, eoCounts_add]
      simp [totalNeg, totalPos]

theorem overallCM_eq_overallCMp (groups : List (List Row)) (rules : List Rule) :
    overallCM groups rules = overallCMp groups (rules.map ruleProb) := by
  unfold overallCM overallCMp
  congr 1
  induction groups generalizing rules with
  | nil => simp
  | cons g G ih =>
    cases rules with
    | nil => simp
    | cons r R => simp [ih R]

end Threshold
