import FairModel.Lemmas.Prelude
import FairModel.Model.Frame

/-! Helper lemmas about the MetricFrame model: `ins`/`uniq` (sorted distinct values), `product`
(Cartesian index), `grouped`/`reindex` (groupby + reindex) and the partition of the rows. -/

namespace Frame

variable {α β κ : Type}

section uniq
variable [LT κ] [DecidableLT κ]

theorem ins_perm (a : κ) (l : List κ) : (ins a l).Perm (a :: l) := by
  induction l with
  | nil => simp [ins]
  | cons b l ih =>
    unfold ins
    split
    · exact List.Perm.refl _
    · exact (List.Perm.cons b ih).trans (List.Perm.swap a b l)

theorem mem_ins {a x : κ} {l : List κ} : x ∈ ins a l ↔ x = a ∨ x ∈ l := by
  rw [(ins_perm a l).mem_iff]; simp

variable [DecidableEq κ]

theorem mem_uniq {x : κ} {l : List κ} : x ∈ uniq l ↔ x ∈ l := by
  induction l with
  | nil => simp [uniq]
  | cons a l ih =>
    have hstep : uniq (a :: l) = if a ∈ uniq l then uniq l else ins a (uniq l) := rfl
    rw [hstep]
    split
    · next h =>
      rw [ih, List.mem_cons]
      constructor
      · exact Or.inr
      · rintro (rfl | h')
        · exact ih.mp h
        · exact h'
    · rw [mem_ins, ih, List.mem_cons]

theorem nodup_uniq (l : List κ) : (uniq l).Nodup := by
  induction l with
  | nil => simp [uniq]
  | cons a l ih =>
    have hstep : uniq (a :: l) = if a ∈ uniq l then uniq l else ins a (uniq l) := rfl
    rw [hstep]
    split
    · exact ih
    · next h =>
      rw [(ins_perm a (uniq l)).nodup_iff]
      exact List.nodup_cons.mpr ⟨h, ih⟩

omit [DecidableEq κ] in
/-- `ins` keeps a strictly increasing list strictly increasing (needs a strict total order) -/
theorem pairwise_ins (htr : ∀ a b c : κ, a < b → b < c → a < c)
    (htri : ∀ a b : κ, a < b ∨ a = b ∨ b < a)
    (a : κ) (l : List κ) (ha : a ∉ l) (hl : l.Pairwise (· < ·)) : (ins a l).Pairwise (· < ·) := by
  induction l with
  | nil => simp [ins]
  | cons b l ih =>
    unfold ins
    have hb := List.pairwise_cons.mp hl
    split
    · next hab =>
      refine List.pairwise_cons.mpr ⟨?_, hl⟩
      intro x hx
      rcases List.mem_cons.mp hx with rfl | hx
      · exact hab
      · exact htr _ _ _ hab (hb.1 x hx)
    · next hab =>
      have hne : a ≠ b := fun h => ha (by simp [h])
      have hba : b < a := by
        rcases htri a b with h | h | h
        · exact absurd h hab
        · exact absurd h hne
        · exact h
      refine List.pairwise_cons.mpr ⟨?_, ih (fun h => ha (List.mem_cons_of_mem _ h)) hb.2⟩
      intro x hx
      rcases mem_ins.mp hx with rfl | hx
      · exact hba
      · exact hb.1 x hx

theorem pairwise_uniq (htr : ∀ a b c : κ, a < b → b < c → a < c)
    (htri : ∀ a b : κ, a < b ∨ a = b ∨ b < a) (l : List κ) : (uniq l).Pairwise (· < ·) := by
  induction l with
  | nil => simp [uniq]
  | cons a l ih =>
    have hstep : uniq (a :: l) = if a ∈ uniq l then uniq l else ins a (uniq l) := rfl
    rw [hstep]
    split
    · exact ih
    · next h => exact pairwise_ins htr htri a _ h ih

theorem uniq_replicate (a : κ) : ∀ n : Nat, 0 < n → uniq (List.replicate n a) = [a] := by
  intro n hn
  induction n with
  | zero => omega
  | succ n ih =>
    cases n with
    | zero => simp [List.replicate, uniq, ins]
    | succ n =>
      have h := ih (by omega)
      rw [List.replicate_succ]
      have hstep : uniq (a :: List.replicate (n + 1) a) =
          if a ∈ uniq (List.replicate (n + 1) a) then uniq (List.replicate (n + 1) a)
          else ins a (uniq (List.replicate (n + 1) a)) := rfl
      rw [hstep, h]; simp

end uniq

/-! ### the Cartesian product index -/

theorem mem_product {k : Key} {ls : List (List Level)} :
    k ∈ product ls ↔ List.Forall₂ (fun a l => a ∈ l) k ls := by
  induction ls generalizing k with
  | nil =>
    simp only [product, List.mem_singleton]
    constructor
    · rintro rfl; exact List.Forall₂.nil
    · intro h; cases h; rfl
  | cons l ls ih =>
    simp only [product, List.mem_flatMap, List.mem_map]
    constructor
    · rintro ⟨a, ha, k', hk', rfl⟩
      exact List.Forall₂.cons ha (ih.mp hk')
    · intro h
      cases h with
      | cons ha ht => exact ⟨_, ha, _, ih.mpr ht, rfl⟩

theorem nodup_product {ls : List (List Level)} (h : ∀ l ∈ ls, l.Nodup) : (product ls).Nodup := by
  induction ls with
  | nil => simp [product]
  | cons l ls ih =>
    have hl : l.Nodup := h l (by simp)
    have hls := ih (fun x hx => h x (by simp [hx]))
    simp only [product]
    rw [List.nodup_flatMap]
    constructor
    · intro a _
      exact hls.map (fun x y hxy => by injection hxy)
    · refine hl.pairwise_of_forall_ne ?_
      intro a _ b _ hab x hx1 hx2
      simp only [List.mem_map] at hx1 hx2
      obtain ⟨k1, _, rfl⟩ := hx1
      obtain ⟨k2, _, h2⟩ := hx2
      injection h2 with h2a _
      exact hab h2a.symm

/-- positional form of membership in the product index -/
theorem forall2_iff_getD {k : Key} {ls : List (List Level)} :
    List.Forall₂ (fun a l => a ∈ l) k ls ↔
      k.length = ls.length ∧ ∀ j, j < ls.length → k.getD j "" ∈ ls.getD j [] := by
  induction ls generalizing k with
  | nil =>
    constructor
    · intro h; cases h; simp
    · rintro ⟨h, _⟩
      have : k = [] := List.eq_nil_of_length_eq_zero (by simpa using h)
      subst this; exact List.Forall₂.nil
  | cons l ls ih =>
    constructor
    · intro h
      cases h with
      | cons ha ht =>
        have := ih.mp ht
        refine ⟨by simp [this.1], ?_⟩
        intro j hj
        cases j with
        | zero => simpa using ha
        | succ j => simpa using this.2 j (by simpa using hj)
    · rintro ⟨hlen, h⟩
      cases k with
      | nil => simp at hlen
      | cons a k =>
        refine List.Forall₂.cons (by simpa using h 0 (by simp)) (ih.mpr ⟨by simpa using hlen, ?_⟩)
        intro j hj
        simpa using h (j + 1) (by simpa using hj)

/-! ### groupby / reindex -/

theorem lookup_map_self [BEq κ] [LawfulBEq κ] (g : κ → β) (ks : List κ) (k : κ) :
    (ks.map (fun k => (k, g k))).lookup k = if k ∈ ks then some (g k) else none := by
  induction ks with
  | nil => simp
  | cons a ks ih =>
    simp only [List.map_cons, List.lookup_cons, List.mem_cons]
    by_cases h : k = a
    · subst h; simp
    · have : (k == a) = false := by simpa using h
      simp [this, ih, h]

theorem rowsOf_eq_nil_iff (kf : Row α → Key) (k : Key) (rows : List (Row α)) :
    rowsOf kf k rows = [] ↔ k ∉ rows.map kf := by
  simp only [rowsOf, List.filter_eq_nil_iff, List.mem_map, beq_iff_eq]
  constructor
  · rintro h ⟨r, hr, rfl⟩; exact h r hr rfl
  · intro h r hr he; exact h ⟨r, hr, he⟩

theorem mem_rowsOf {kf : Row α → Key} {k : Key} {rows : List (Row α)} {r : Row α} :
    r ∈ rowsOf kf k rows ↔ r ∈ rows ∧ kf r = k := by
  simp [rowsOf]

/-- lookup in the groupby result -/
theorem lookup_grouped (kf : Row α → Key) (f : List α → β) (rows : List (Row α)) (k : Key) :
    (grouped kf f rows).lookup k =
      if rowsOf kf k rows = [] then none else some (f (slice (rowsOf kf k rows))) := by
  unfold grouped
  rw [lookup_map_self (fun k => f (slice (rowsOf kf k rows)))]
  have : k ∈ uniq (rows.map kf) ↔ ¬ rowsOf kf k rows = [] := by
    rw [mem_uniq, rowsOf_eq_nil_iff]; simp
  by_cases h : rowsOf kf k rows = []
  · simp [h, this.not.mpr (by simpa using h)]
  · simp [h, this.mpr h]

/-! ### partition of the rows by index tuple -/

theorem flatMap_ite_singleton [DecidableEq κ] (ks : List κ) (hnd : ks.Nodup) (a : κ) (x : β)
    (ha : a ∈ ks) : ks.flatMap (fun k => if a = k then [x] else []) = [x] := by
  induction ks with
  | nil => simp at ha
  | cons b ks ih =>
    have hb := List.nodup_cons.mp hnd
    simp only [List.flatMap_cons]
    by_cases hab : a = b
    · subst hab
      have : ks.flatMap (fun k => if a = k then [x] else []) = [] := by
        rw [List.flatMap_eq_nil_iff]
        intro k hk
        have : a ≠ k := fun h => hb.1 (h ▸ hk)
        simp [this]
      simp [this]
    · have ha' : a ∈ ks := by
        rcases List.mem_cons.mp ha with h | h
        · exact absurd h hab
        · exact h
      simp [hab, ih hb.2 ha']

theorem flatMap_filter_ite (p : κ → Bool) (g : κ → List β) (ks : List κ) :
    (ks.filter p).flatMap g = ks.flatMap (fun k => if p k then g k else []) := by
  induction ks with
  | nil => rfl
  | cons a ks ih => by_cases h : p a <;> simp [h, ih]

theorem getD_map_range (g : Nat → List Level) (n j : Nat) (hj : j < n) :
    ((List.range n).map g).getD j [] = g j := by
  simp [List.getD_eq_getElem?_getD, hj]

/-- For any duplicate-free list of keys containing every observed key, the slices `rowsOf k`
    taken together are a rearrangement of the rows: no row is lost, none is counted twice. -/
theorem partition_perm (kf : Row α → Key) (rows : List (Row α)) (ks : List Key) (hnd : ks.Nodup)
    (hall : ∀ r ∈ rows, kf r ∈ ks) : (ks.flatMap (fun k => rowsOf kf k rows)).Perm rows := by
  induction rows with
  | nil => simp [rowsOf]
  | cons r rs ih =>
    have hrs := ih (fun x hx => hall x (by simp [hx]))
    have hr : kf r ∈ ks := hall r (by simp)
    have hsplit : ∀ k, rowsOf kf k (r :: rs) = (if kf r = k then [r] else []) ++ rowsOf kf k rs := by
      intro k
      simp only [rowsOf, List.filter_cons, beq_iff_eq]
      split <;> simp
    have h1 : ks.flatMap (fun k => rowsOf kf k (r :: rs)) =
        ks.flatMap (fun k => (if kf r = k then [r] else []) ++ rowsOf kf k rs) := by
      congr 1; funext k; exact hsplit k
    rw [h1]
    refine (List.flatMap_append_perm ks _ _).symm.trans ?_
    rw [flatMap_ite_singleton ks hnd (kf r) r hr]
    exact List.Perm.cons r hrs

/-! ### the order on levels and index tuples (strings by code point, tuples lexicographic) -/

theorem level_tri (a b : Level) : a < b ∨ a = b ∨ b < a := by
  by_cases h1 : a < b
  · exact Or.inl h1
  by_cases h2 : b < a
  · exact Or.inr (Or.inr h2)
  exact Or.inr (Or.inl (Std.Trichotomous.trichotomous a b h1 h2))

theorem level_trans (a b c : Level) : a < b → b < c → a < c := String.lt_trans

theorem key_trans (a b c : Key) : a < b → b < c → a < c :=
  haveI : Trans (fun (x y : String) => x < y) (fun x y => x < y) (fun x y => x < y) := ⟨String.lt_trans⟩
  List.lt_trans

theorem key_tri (a b : Key) : a < b ∨ a = b ∨ b < a := by
  induction a generalizing b with
  | nil =>
    cases b with
    | nil => simp
    | cons y ys => left; exact List.nil_lt_cons _ _
  | cons x xs ih =>
    cases b with
    | nil => right; right; exact List.nil_lt_cons _ _
    | cons y ys =>
      rw [List.cons_lt_cons_iff, List.cons_lt_cons_iff]
      rcases level_tri x y with h | h | h
      · exact Or.inl (Or.inl h)
      · subst h
        rcases ih ys with h' | h' | h'
        · exact Or.inl (Or.inr ⟨rfl, h'⟩)
        · subst h'; exact Or.inr (Or.inl rfl)
        · exact Or.inr (Or.inr (Or.inr ⟨rfl, h'⟩))
      · exact Or.inr (Or.inr (Or.inl h))

/-- the product of strictly increasing level lists is strictly increasing (lexicographic) -/
theorem pairwise_product {ls : List (List Level)} (h : ∀ l ∈ ls, l.Pairwise (· < ·)) :
    (product ls).Pairwise (· < ·) := by
  induction ls with
  | nil => simp [product]
  | cons l ls ih =>
    have hl := h l (by simp)
    have hls := ih (fun x hx => h x (by simp [hx]))
    simp only [product]
    rw [List.pairwise_flatMap]
    constructor
    · intro a _
      rw [List.pairwise_map]
      exact hls.imp (fun hxy => List.cons_lt_cons_iff.mpr (Or.inr ⟨rfl, hxy⟩))
    · refine hl.imp ?_
      intro a b hab x hx y hy
      simp only [List.mem_map] at hx hy
      obtain ⟨_, _, rfl⟩ := hx
      obtain ⟨_, _, rfl⟩ := hy
      exact List.cons_lt_cons_iff.mpr (Or.inl hab)
end Frame
