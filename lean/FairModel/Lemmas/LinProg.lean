import FairModel.Lemmas.EGLoop
import FairModel.Model.LinProg

/-!
Helper lemmas for `Model/LinProg.lean`: what the rows of the GENERATED matrices are, and what their dot products with
`(Q, t)` / `(lambda, mu)` mean in terms of the Saddle model.
-/
namespace LinProg
open Saddle Finset

/-! ### dot products -/

theorem dot_eq_sum : ∀ (a b : List Rat), dot a b = ∑ i ∈ range a.length, a.getD i 0 * b.getD i 0
  | [], b => by simp [dot]
  | x :: a, [] => by simp [dot]
  | x :: a, y :: b => by
    have ih := dot_eq_sum a b
    unfold dot at ih ⊢
    rw [List.length_cons, Finset.sum_range_succ']
    simp only [List.zipWith_cons_cons, List.sum_cons, List.getD_cons_succ, List.getD_cons_zero, ih]
    ring

theorem dot_append_single (a b : List Rat) (x y : Rat) (h : a.length = b.length) :
    dot (a ++ [x]) (b ++ [y]) = dot a b + x * y := by
  unfold dot
  rw [List.zipWith_append h]
  simp

theorem getD_range_map (n : Nat) (f : Nat → Rat) (i : Nat) (hi : i < n) : ((List.range n).map f).getD i 0 = f i := by
  simp [List.getD_eq_getElem?_getD, hi]

theorem dot_range_map (n : Nat) (f : Nat → Rat) (b : List Rat) :
    dot ((List.range n).map f) b = ∑ i ∈ range n, f i * b.getD i 0 := by
  rw [dot_eq_sum]
  simp only [List.length_map, List.length_range]
  apply Finset.sum_congr rfl
  intro i hi
  rw [getD_range_map n f i (Finset.mem_range.mp hi)]

theorem sum_vec (Q : List Rat) : ∑ i ∈ range Q.length, vec Q i = Q.sum := by
  have := EGLoop.sum_range_getD Q
  rw [EGLoop.sumTo_def] at this
  exact this

/-! ### the generated primal matrices -/

theorem Aub_length (T : Table) : (Aub T).length = T.nC := by
  simp [Aub, LinProgGen.lpAub, LinProgGen.hcat, LinProgGen.subRows, LinProgGen.negM, LinProgGen.onesM, gammasOf, boundOf]

theorem Aub_row (T : Table) (j : Nat) (hj : j < T.nC) :
    (Aub T).getD j [] = (List.range T.nH).map (fun i => T.gam j i - T.c j) ++ [-1] := by
  simp [Aub, LinProgGen.lpAub, LinProgGen.hcat, LinProgGen.subRows, LinProgGen.negM, LinProgGen.onesM, LinProgGen.onesV,
    LinProgGen.negV, gammasOf, boundOf, List.getD_eq_getElem?_getD, hj]

theorem bub_get (T : Table) (j : Nat) : (bub T).getD j 0 = 0 := by
  simp [bub, LinProgGen.lpBub, LinProgGen.zerosV, List.getD_eq_getElem?_getD, List.getElem?_replicate]
  split <;> rfl

theorem Aeq_eq (T : Table) : Aeq T = [List.replicate T.nH 1 ++ [0]] := by
  simp [Aeq, LinProgGen.lpAeq, LinProgGen.hcat, LinProgGen.onesM, LinProgGen.zerosM, LinProgGen.onesV, LinProgGen.zerosV]

theorem beq_eq : beq = [1] := by
  simp [beq, LinProgGen.lpBeq, LinProgGen.onesV]

theorem c_eq (T : Table) (B : Rat) : c T B = (List.range T.nH).map T.err ++ [B] := by
  simp [c, LinProgGen.lpC, errorsOf]

theorem replicate_one_eq (n : Nat) : List.replicate n (1 : Rat) = (List.range n).map (fun _ => (1 : Rat)) := by
  induction n with
  | zero => rfl
  | succ n ih => rw [List.replicate_succ', List.range_succ, List.map_append, ih]; rfl

/-- row `j` of `A_ub` against `(Q, t)` -/
theorem Aub_dot (T : Table) (Q : List Rat) (t : Rat) (hQ : Q.length = T.nH) (j : Nat) (hj : j < T.nC) :
    dot ((Aub T).getD j []) (Q ++ [t]) = (∑ i ∈ range T.nH, (T.gam j i - T.c j) * vec Q i) - t := by
  rw [Aub_row T j hj, dot_append_single _ _ _ _ (by simp [hQ]), dot_range_map]
  unfold vec; ring

theorem Aeq_dot (T : Table) (Q : List Rat) (t : Rat) (hQ : Q.length = T.nH) :
    dot (List.replicate T.nH 1 ++ [0]) (Q ++ [t]) = Q.sum := by
  rw [dot_append_single _ _ _ _ (by simp [hQ]), replicate_one_eq, dot_range_map, ← sum_vec Q, hQ]
  unfold vec; simp

theorem c_dot (T : Table) (B : Rat) (Q : List Rat) (t : Rat) (hQ : Q.length = T.nH) :
    dot (c T B) (Q ++ [t]) = errQ T (vec Q) + B * t := by
  rw [c_eq, dot_append_single _ _ _ _ (by simp [hQ]), dot_range_map, errQ, sumTo_eq]
  congr 1
  apply Finset.sum_congr rfl
  intro i _; unfold vec; ring

/-- with weights summing to one, the `A_ub` row sum is the constraint violation of the mixture -/
theorem row_sum_eq_viol (T : Table) (Q : List Rat) (hQ : Q.length = T.nH) (hs : Q.sum = 1) (j : Nat) :
    ∑ i ∈ range T.nH, (T.gam j i - T.c j) * vec Q i = viol T (vec Q) j := by
  rw [viol_def]
  unfold gamQ
  rw [sumTo_eq]
  have h1 : ∑ i ∈ range T.nH, (T.gam j i - T.c j) * vec Q i
      = ∑ i ∈ range T.nH, vec Q i * T.gam j i - T.c j * ∑ i ∈ range T.nH, vec Q i := by
    rw [Finset.mul_sum, ← Finset.sum_sub_distrib]
    apply Finset.sum_congr rfl
    intro i _; ring
  rw [h1, ← hQ, sum_vec Q, hs]; ring

/-! ### the generated dual matrices -/

theorem dualA_length (T : Table) : (dualA T).length = T.nH + 1 := by
  simp [dualA, LinProgGen.dualAub, LinProgGen.hcat, LinProgGen.negM, LinProgGen.transposeM]

theorem Aub_eq (T : Table) :
    Aub T = (List.range T.nC).map (fun j => (List.range T.nH).map (fun i => T.gam j i - T.c j) ++ [-1]) := by
  apply List.ext_getElem
  · simp [Aub_length]
  · intro j h1 h2
    have hj : j < T.nC := by rw [Aub_length] at h1; exact h1
    have := Aub_row T j hj
    rw [List.getD_eq_getElem?_getD, List.getElem?_eq_getElem h1] at this
    simp only [Option.getD_some] at this
    rw [this]; simp

theorem dualA_eq (T : Table) :
    dualA T = (List.range (T.nH + 1)).map (fun i =>
      LinProgGen.negV ((Aub T).map (fun r => r.getD i 0)) ++ [(List.replicate T.nH (1 : Rat) ++ [0]).getD i 0]) := by
  simp only [dualA, LinProgGen.dualAub, LinProgGen.hcat, LinProgGen.negM, LinProgGen.transposeM, Aeq_eq, List.map_map,
    List.zipWith_map, List.zipWith_self, List.map_cons, List.map_nil, Function.comp_def]

theorem getD_range_map' {α : Type} (n : Nat) (f : Nat → α) (d : α) (i : Nat) (hi : i < n) :
    ((List.range n).map f).getD i d = f i := by
  simp [List.getD_eq_getElem?_getD, hi]

/-- row `i < nH` of `dual_A_ub`: minus column `i` of `A_ub`, then column `i` of `A_eq` -/
theorem dualA_row_lo (T : Table) (i : Nat) (hi : i < T.nH) :
    (dualA T).getD i [] = (List.range T.nC).map (fun j => -(T.gam j i - T.c j)) ++ [1] := by
  rw [dualA_eq, getD_range_map' _ _ _ _ (by omega), Aub_eq]
  simp only [LinProgGen.negV, List.map_map, Function.comp_def]
  congr 1
  · apply List.map_congr_left
    intro j _
    rw [List.getD_eq_getElem?_getD, List.getElem?_append_left (by simpa using hi)]
    simp [hi]
  · rw [List.getD_eq_getElem?_getD, List.getElem?_append_left (by simpa using hi)]
    simp [hi]

/-- row `nH` of `dual_A_ub` (the slack column of the primal): `+1` per constraint, `0` for the free variable -/
theorem dualA_row_hi (T : Table) :
    (dualA T).getD T.nH [] = (List.range T.nC).map (fun _ => (1 : Rat)) ++ [0] := by
  rw [dualA_eq, getD_range_map' _ _ _ _ (by omega), Aub_eq]
  simp only [LinProgGen.negV, List.map_map, Function.comp_def]
  congr 1
  · apply List.map_congr_left
    intro j _
    rw [List.getD_eq_getElem?_getD, List.getElem?_append_right (by simp)]
    simp
  · rw [List.getD_eq_getElem?_getD, List.getElem?_append_right (by simp)]
    simp

theorem dualB_get (T : Table) (B : Rat) (i : Nat) (hi : i ≤ T.nH) :
    (dualB T B).getD i 0 = if i < T.nH then T.err i else B := by
  simp only [dualB, LinProgGen.dualBub, c_eq, List.getD_eq_getElem?_getD]
  by_cases h : i < T.nH
  · rw [List.getElem?_append_left (by simpa using h)]; simp [h]
  · have : i = T.nH := by omega
    subst this
    rw [List.getElem?_append_right (by simp)]; simp

theorem dualC_eq (T : Table) : dualC T = List.replicate T.nC 0 ++ [-1] := by
  simp [dualC, LinProgGen.dualC, bub, LinProgGen.lpBub, LinProgGen.zerosV, beq_eq, LinProgGen.negV]

theorem dot_replicate_zero : ∀ (n : Nat) (l : List Rat), dot (List.replicate n 0) l = 0
  | 0, _ => by simp [dot]
  | n + 1, [] => by simp [dot]
  | n + 1, x :: l => by
    have := dot_replicate_zero n l
    unfold dot at this ⊢
    simp [List.replicate_succ, this]

/-! ### element-wise vs index-wise statements -/

theorem forall_mem_iff_vec (Q : List Rat) : (∀ x ∈ Q, 0 ≤ x) ↔ ∀ i < Q.length, 0 ≤ vec Q i := by
  constructor
  · intro h i hi
    unfold vec
    rw [List.getD_eq_getElem?_getD, List.getElem?_eq_getElem hi]
    exact h _ (List.getElem_mem hi)
  · intro h x hx
    obtain ⟨i, hi, rfl⟩ := List.getElem_of_mem hx
    have := h i hi
    unfold vec at this
    rw [List.getD_eq_getElem?_getD, List.getElem?_eq_getElem hi] at this
    exact this

theorem getD_append_single_lt (l : List Rat) (x : Rat) (i : Nat) (hi : i < l.length) :
    (l ++ [x]).getD i 0 = vec l i := by
  unfold vec
  rw [List.getD_eq_getElem?_getD, List.getD_eq_getElem?_getD, List.getElem?_append_left hi]

/-! ### the maximum violation is attained -/

theorem foldMax_mem (f : Nat → Rat) : ∀ (l : List Nat) (init : Rat),
    l.foldl (fun acc j => EGGen.max2 acc (f j)) init = init ∨
    ∃ j ∈ l, l.foldl (fun acc j => EGGen.max2 acc (f j)) init = f j
  | [], _ => Or.inl rfl
  | k :: l, init => by
    simp only [List.foldl_cons]
    rcases foldMax_mem f l (EGGen.max2 init (f k)) with h | ⟨j, hj, h⟩
    · rw [h]
      unfold EGGen.max2
      split
      · right; exact ⟨k, by simp, rfl⟩
      · left; rfl
    · right; exact ⟨j, by simp [hj], h⟩

theorem maxViol_attained (T : Table) (Q : Nat → Rat) (h : 0 < T.nC) : ∃ j < T.nC, maxViol T Q = viol T Q j := by
  rw [maxViol_def]
  rcases foldMax_mem (viol T Q) (List.range T.nC) (viol T Q 0) with h1 | ⟨j, hj, h1⟩
  · exact ⟨0, h, h1⟩
  · exact ⟨j, List.mem_range.mp hj, h1⟩

end LinProg
