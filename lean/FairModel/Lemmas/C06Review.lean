/-
Helper lemmas added by review R1 for C06: injectivity of the control/event format in BOTH arguments (for events of
equal length), and the event selectors of the EqualizedOdds moment inside a control stratum.
-/
import FairModel.Lemmas.MomentsRates

namespace Moments

/-- `control={c},{e}` determines `c` and `e` when the two events have the same length (label events do) -/
theorem ctrlFormat_inj2 (c c' e e' : String) (hlen : e.toList.length = e'.toList.length)
    (h : MomentsSrc.ctrlFormat c e = MomentsSrc.ctrlFormat c' e') : c = c' ∧ e = e' := by
  unfold MomentsSrc.ctrlFormat at h
  have h2 := congrArg String.toList h
  simp only [String.toList_append] at h2
  -- strip the (empty) suffix, then split off the events by length
  have h3 := List.append_cancel_right h2
  have he : e.toList = e'.toList := List.append_inj_right' h3 hlen
  have hp := List.append_inj_left' h3 hlen
  have h4 := List.append_cancel_right hp
  have h5 := List.append_cancel_left h4
  exact ⟨String.toList_inj.mp h5, String.toList_inj.mp he⟩

/-- a bare event never equals a formatted one of an event of the same length -/
theorem ne_ctrlFormat_of_len (c e e' : String) (hlen : e.toList.length = e'.toList.length) :
    e ≠ MomentsSrc.ctrlFormat c e' := by
  intro h
  unfold MomentsSrc.ctrlFormat at h
  have h2 := congrArg (fun s => s.toList.length) h
  simp only [String.toList_append, List.length_append] at h2
  have : (0 : Nat) < ("control=" : String).toList.length := by decide
  omega

theorem labelEvent_len (y : Int) (hy : y = 0 ∨ y = 1) : (MomentsSrc.labelEvent y).toList.length = 7 := by
  rcases hy with rfl | rfl <;> decide +kernel

theorem labelEvent_inj01 (y y' : Int) (hy : y = 0 ∨ y = 1) (hy' : y' = 0 ∨ y' = 1)
    (h : MomentsSrc.labelEvent y = MomentsSrc.labelEvent y') : y = y' := by
  rcases hy with rfl | rfl <;> rcases hy' with rfl | rfl <;> first | rfl | (exfalso; revert h; decide +kernel)

/-- EqualizedOdds with control features: the event `control=c0,label=lab` selects exactly the rows of stratum `c0`
    with label `lab` (binary labels) -/
theorem eo_inE_stratum (r : Row) (c0 : String) (lab : Int) (hy : r.y = 0 ∨ r.y = 1) (hl : lab = 0 ∨ lab = 1) :
    inE (eventOf .eo) (MomentsSrc.ctrlFormat c0 (MomentsSrc.labelEvent lab)) r = ((r.c == some c0) && (r.y == lab)) := by
  have hlen : (MomentsSrc.labelEvent r.y).toList.length = (MomentsSrc.labelEvent lab).toList.length := by
    rw [labelEvent_len _ hy, labelEvent_len _ hl]
  unfold inE eventOf baseEvent
  cases hc : r.c with
  | none =>
    have := ne_ctrlFormat_of_len c0 _ _ hlen
    simp [this]
  | some c =>
    by_cases h1 : c = c0 ∧ r.y = lab
    · obtain ⟨rfl, h2⟩ := h1
      simp [h2]
    · have : MomentsSrc.ctrlFormat c (MomentsSrc.labelEvent r.y) ≠ MomentsSrc.ctrlFormat c0 (MomentsSrc.labelEvent lab) := by
        intro h
        obtain ⟨e1, e2⟩ := ctrlFormat_inj2 _ _ _ _ hlen h
        exact h1 ⟨e1, labelEvent_inj01 _ _ hy hl e2⟩
      have hL : (some (MomentsSrc.ctrlFormat c (MomentsSrc.labelEvent r.y))
          == some (MomentsSrc.ctrlFormat c0 (MomentsSrc.labelEvent lab))) = false := by
        rw [beq_eq_false_iff_ne]; intro e; exact this (Option.some.inj e)
      have hR : ((some c == some c0) && (r.y == lab)) = false := by
        by_cases hcc : c = c0
        · have hyl : r.y ≠ lab := fun e => h1 ⟨hcc, e⟩
          have : (r.y == lab) = false := by rw [beq_eq_false_iff_ne]; exact hyl
          rw [this, Bool.and_false]
        · have : (some c == some c0) = false := by
            rw [beq_eq_false_iff_ne]; intro e; exact hcc (Option.some.inj e)
          rw [this, Bool.false_and]
      simp only [hL, hR]

/-- EqualizedOdds without control features: the event `label=lab` selects the rows with label `lab` -/
theorem eo_inE_plain (r : Row) (lab : Int) (hc : r.c = none) (hy : r.y = 0 ∨ r.y = 1) (hl : lab = 0 ∨ lab = 1) :
    inE (eventOf .eo) (MomentsSrc.labelEvent lab) r = (true && (r.y == lab)) := by
  unfold inE eventOf baseEvent
  rw [hc]
  by_cases h : r.y = lab
  · simp [h]
  · have : MomentsSrc.labelEvent r.y ≠ MomentsSrc.labelEvent lab := fun e => h (labelEvent_inj01 _ _ hy hl e)
    simp [this, h]

theorem nat_repr_single (n : Nat) (d : Nat) (hd : d < 10) (h : n.repr = d.repr) : n = d := by
  by_cases hn : n < 10
  · rw [Nat.repr_of_lt hn, Nat.repr_of_lt hd] at h
    have h2 := congrArg String.toList h
    simp only [String.toList_singleton, List.cons.injEq, and_true] at h2
    have key : ∀ n < 10, ∀ d < 10, Nat.digitChar n = Nat.digitChar d → n = d := by decide
    exact key n hn d hd h2
  · exfalso
    have h10 : 10 ≤ n := Nat.le_of_not_lt hn
    rw [Nat.repr_of_ge h10, Nat.repr_of_lt hd] at h
    have h2 := congrArg (fun s => s.toList.length) h
    simp only [String.toList_append, String.toList_singleton, List.length_append, List.length_cons, List.length_nil] at h2
    have : (n / 10).repr.toList ≠ [] := by
      intro e
      exact Nat.repr_ne_empty (n := n / 10) (String.toList_inj.mp (by simp at e))
    have := List.length_pos_of_ne_nil this
    omega

theorem toString_int_eq_digit (y : Int) (d : Nat) (hd : d < 10) (h : toString y = toString (d : Int)) : y = d := by
  rw [Int.toString_eq_repr, Int.toString_eq_repr, Int.repr_eq_if, Int.repr_eq_if] at h
  have hd0 : (0 : Int) ≤ (d : Int) := Int.natCast_nonneg d
  simp only [hd0, if_true, Int.toNat_natCast] at h
  by_cases hy : 0 ≤ y
  · simp only [hy, if_true] at h
    have := nat_repr_single _ d hd h
    omega
  · exfalso
    simp only [hy, if_false] at h
    rw [Nat.repr_of_lt hd] at h
    have h2 := congrArg String.toList h
    simp only [String.toList_append, String.toList_singleton] at h2
    have h3 : ("-" : String).toList = ['-'] := by decide
    rw [h3] at h2
    simp only [List.cons_append, List.nil_append, List.cons.injEq] at h2
    have key : ∀ d < 10, Nat.digitChar d ≠ '-' := by decide
    exact key d hd h2.1.symm

theorem labelEvent_inj_digit (y : Int) (d : Nat) (hd : d < 10)
    (h : MomentsSrc.labelEvent y = MomentsSrc.labelEvent (d : Int)) : y = d := by
  unfold MomentsSrc.labelEvent at h
  have h2 := congrArg String.toList h
  simp only [String.toList_append] at h2
  have h3 := List.append_cancel_left h2
  exact toString_int_eq_digit y d hd (String.toList_inj.mp h3)


/-- EqualizedOdds without control features, ANY row (no assumption on its label): the event `label=d` (d a digit, in
    particular 0 or 1) selects exactly the rows with label `d` -/
theorem eo_inE_plain_all (r : Row) (d : Nat) (hd : d < 10) (hc : r.c = none) :
    inE (eventOf .eo) (MomentsSrc.labelEvent (d : Int)) r = (true && (r.y == (d : Int))) := by
  unfold inE eventOf baseEvent
  rw [hc]
  by_cases h : r.y = (d : Int)
  · simp [h]
  · have : MomentsSrc.labelEvent r.y ≠ MomentsSrc.labelEvent (d : Int) := fun e => h (labelEvent_inj_digit _ d hd e)
    simp [this, h]

/-! ### the means and the BaseMetrics rows depend on the selector only through the rows present -/

theorem meanOn_congr (p q : Row → Bool) (rows : List Row) (u : List Rat) (h : ∀ r ∈ rows, p r = q r) :
    meanOn p rows u = meanOn q rows u := by
  unfold meanOn
  rw [List.filter_congr h]
  congr 2
  exact List.map_congr_left (fun r hr => by rw [h r hr])

theorem toBM_congr (p q : Row → Bool) (rows : List Row) (hp : List Int) (h : ∀ r ∈ rows, p r = q r) :
    toBM p rows hp = toBM q rows hp := by
  unfold toBM
  congr 1
  exact List.filter_congr (fun t ht => h t.1 (List.of_mem_zip ht).1)


/-! ### selectors of the real event rules for ALL rows (what the `hS : ∀ r, …` hypotheses of C06X need) -/

/-- a formatted event never equals a bare label event (first characters `c` / `l`) -/
theorem ctrlFormat_ne_labelEvent (c e : String) (d : Int) : MomentsSrc.ctrlFormat c e ≠ MomentsSrc.labelEvent d := by
  intro h
  unfold MomentsSrc.ctrlFormat MomentsSrc.labelEvent at h
  have h2 := congrArg String.toList h
  simp only [String.toList_append] at h2
  have e1 : ("control=" : String).toList = 'c' :: ("ontrol=" : String).toList := by decide
  have e2 : ("label" : String).toList = 'l' :: ("abel" : String).toList := by decide
  rw [e1, e2] at h2
  simp only [List.cons_append, List.cons.injEq] at h2
  exact absurd h2.1 (by decide)

/-- TPR parity, any row: the bare event `label=1` selects exactly the rows WITHOUT control value and label 1 -/
theorem tpr_inE_nocontrol (r : Row) :
    inE (eventOf .tpr) (MomentsSrc.labelEvent 1) r = ((r.c == none) && (r.y == 1)) := by
  unfold inE eventOf baseEvent
  cases hc : r.c with
  | none => by_cases hy : r.y = 1 <;> simp [hy, MomentsSrc.tprLabel]
  | some c =>
    by_cases hy : r.y = 1
    · have := ctrlFormat_ne_labelEvent c (MomentsSrc.labelEvent 1) 1
      simp [hy, MomentsSrc.tprLabel, this]
    · simp [hy, MomentsSrc.tprLabel]

theorem fpr_inE_nocontrol (r : Row) :
    inE (eventOf .fpr) (MomentsSrc.labelEvent 0) r = ((r.c == none) && (r.y == 0)) := by
  unfold inE eventOf baseEvent
  cases hc : r.c with
  | none => by_cases hy : r.y = 0 <;> simp [hy, MomentsSrc.fprLabel]
  | some c =>
    by_cases hy : r.y = 0
    · have := ctrlFormat_ne_labelEvent c (MomentsSrc.labelEvent 0) 0
      simp [hy, MomentsSrc.fprLabel, this]
    · simp [hy, MomentsSrc.fprLabel]

/-- EqualizedOdds, any row (any label, with or without control value): the bare event `label=lab` selects exactly
    the rows without control value and label `lab` (lab ∈ {0,1}) -/
theorem eo_inE_nocontrol (r : Row) (lab : Int) (hl : lab = 0 ∨ lab = 1) :
    inE (eventOf .eo) (MomentsSrc.labelEvent lab) r = ((r.c == none) && (r.y == lab)) := by
  cases hc : r.c with
  | none =>
    have h0 := eo_inE_plain_all r 0 (by decide) hc
    have h1 := eo_inE_plain_all r 1 (by decide) hc
    rcases hl with rfl | rfl
    · simpa using h0
    · simpa using h1
  | some c =>
    unfold inE eventOf baseEvent
    rw [hc]
    have := ctrlFormat_ne_labelEvent c (MomentsSrc.labelEvent r.y) lab
    simp [this]

end Moments
