import FairModel.Lemmas.Perm
import FairModel.Lemmas.PermAggregate
import FairModel.Model.Perm

/-! Relabelling of feature values (C12): a column-wise injective relabelling of the index tuples renames the
entries of the result tables and changes nothing else (up to the order of the index, which is the sorted order
of the NEW labels). -/

namespace Perm
open Frame

variable {α β : Type}

/-! ### `mapCols` -/

theorem mapCols_length (σs : Nat → Level → Level) (k : Key) : (mapCols σs k).length = k.length := by
  induction k generalizing σs with
  | nil => rfl
  | cons a k ih => simp [mapCols, ih]

theorem mapCols_append (σs : Nat → Level → Level) (a b : Key) :
    mapCols σs (a ++ b) = mapCols σs a ++ mapCols (fun j => σs (a.length + j)) b := by
  induction a generalizing σs with
  | nil => simp [mapCols]
  | cons x a ih =>
    simp only [List.cons_append, mapCols, ih, List.length_cons]
    have : (fun j => σs (a.length + j + 1)) = (fun j => σs (a.length + 1 + j)) := by
      funext j; congr 1; omega
    rw [this]

theorem mapCols_getD (σs : Nat → Level → Level) (k : Key) (j : Nat) (hj : j < k.length) :
    (mapCols σs k).getD j "" = σs j (k.getD j "") := by
  induction k generalizing σs j with
  | nil => simp at hj
  | cons a k ih =>
    cases j with
    | zero => simp [mapCols]
    | succ j =>
      simp only [mapCols, List.getD_cons_succ]
      exact ih (fun j => σs (j + 1)) j (by simpa using hj)

theorem mapCols_injective (σs : Nat → Level → Level) (hinj : ∀ j, Function.Injective (σs j)) :
    Function.Injective (mapCols σs) := by
  intro k
  induction k generalizing σs with
  | nil =>
    intro k' h
    cases k' with
    | nil => rfl
    | cons b k' => simp [mapCols] at h
  | cons a k ih =>
    intro k' h
    cases k' with
    | nil => simp [mapCols] at h
    | cons b k' =>
      simp only [mapCols, List.cons.injEq] at h
      rw [hinj 0 h.1, ih (fun j => σs (j + 1)) (fun j => hinj (j + 1)) h.2]

theorem mapCols_id (σs : Nat → Level → Level) (k : Key) (h : ∀ j, j < k.length → σs j = id) :
    mapCols σs k = k := by
  induction k generalizing σs with
  | nil => rfl
  | cons a k ih =>
    simp only [mapCols]
    rw [h 0 (by simp), ih (fun j => σs (j + 1)) (fun j hj => h (j + 1) (by simpa using hj))]
    rfl

theorem mapCols_take (σs : Nat → Level → Level) (k : Key) (n : Nat) :
    (mapCols σs k).take n = mapCols σs (k.take n) := by
  induction k generalizing σs n with
  | nil => simp [mapCols]
  | cons a k ih =>
    cases n with
    | zero => simp [mapCols]
    | succ n => simp [mapCols, ih]

theorem renCols_key (σs : Nat → Level → Level) (r : Row α) : (renCols σs r).key = mapCols σs r.key := by
  simp [renCols, Row.key, mapCols_append]

theorem renCols_ckey (σs : Nat → Level → Level) (r : Row α) : (renCols σs r).ckey = mapCols σs r.ckey := rfl

theorem renCols_dat (σs : Nat → Level → Level) (r : Row α) : (renCols σs r).dat = r.dat := rfl

theorem renCols_wf (σs : Nat → Level → Level) {ncf nsf : Nat} {rows : List (Row α)} (h : WF ncf nsf rows) :
    WF ncf nsf (rows.map (renCols σs)) := by
  intro r hr
  simp only [List.mem_map] at hr
  obtain ⟨r0, hr0, rfl⟩ := hr
  simpa [renCols, mapCols_length] using h r0 hr0

/-! ### sorted distinct values of relabelled values -/

section uniq
variable {κ : Type} [LT κ] [DecidableLT κ] [DecidableEq κ]

theorem uniq_map_perm (g : κ → κ) (hg : Function.Injective g) (l : List κ) :
    (uniq (l.map g)).Perm ((uniq l).map g) := by
  rw [List.perm_ext_iff_of_nodup (nodup_uniq _) ((nodup_uniq l).map hg)]
  intro x
  simp only [mem_uniq, List.mem_map]

end uniq

/-! ### the Cartesian index of relabelled levels -/

theorem product_perm (js : List Nat) (g g' : Nat → List Level) (h : ∀ j ∈ js, (g j).Perm (g' j)) :
    (product (js.map g)).Perm (product (js.map g')) := by
  induction js with
  | nil => simp [product]
  | cons j js ih =>
    have ih' := ih (fun x hx => h x (by simp [hx]))
    simp only [List.map_cons, product]
    refine (List.Perm.flatMap_right _ (h j (by simp))).trans ?_
    apply List.Perm.flatMap_left
    intro a _
    exact ih'.map _

theorem product_mapCols (σs : Nat → Level → Level) (g : Nat → List Level) (s n : Nat) :
    product ((List.range' s n).map (fun j => (g j).map (σs j))) =
      (product ((List.range' s n).map g)).map (mapCols (fun i => σs (s + i))) := by
  induction n generalizing s with
  | zero => simp [product, mapCols]
  | succ n ih =>
    simp only [List.range'_succ, List.map_cons, product, ih (s + 1)]
    simp only [List.flatMap_map, List.map_flatMap, List.map_map]
    apply List.flatMap_congr
    intro a _
    apply List.map_congr_left
    intro k _
    simp only [Function.comp, mapCols, Nat.add_zero, List.cons.injEq, true_and]
    congr 1
    funext i
    congr 1
    omega

/-! ### the tables of relabelled rows -/

section tables
variable (nanv : β) (kf : Row α → Key) (ren : Row α → Row α) (σs : Nat → Level → Level)
  (hkey : ∀ r, kf (ren r) = mapCols σs (kf r)) (hdat : ∀ r, (ren r).dat = r.dat)
  (hinj : ∀ j, Function.Injective (σs j))

include hkey hinj in
theorem rowsOf_rename (k : Key) (rows : List (Row α)) :
    rowsOf kf (mapCols σs k) (rows.map ren) = (rowsOf kf k rows).map ren := by
  unfold rowsOf
  rw [List.filter_map]
  congr 1
  apply List.filter_congr
  intro r _
  simp only [Function.comp, hkey]
  by_cases h : kf r = k
  · simp [h]
  · have : mapCols σs (kf r) ≠ mapCols σs k := fun he => h (mapCols_injective σs hinj he)
    simp [h, this]

include hdat in
theorem slice_rename (rs : List (Row α)) : slice (rs.map ren) = slice rs := by
  simp [slice, hdat]

include hkey hdat hinj in
theorem grouped_rename (f : List α → β) (rows : List (Row α)) :
    (grouped kf f (rows.map ren)).Perm ((grouped kf f rows).map (fun e => (mapCols σs e.1, e.2))) := by
  unfold grouped
  have h1 : (rows.map ren).map kf = (rows.map kf).map (mapCols σs) := by
    simp only [List.map_map]
    apply List.map_congr_left
    intro r _
    exact hkey r
  rw [h1]
  refine ((uniq_map_perm (mapCols σs) (mapCols_injective σs hinj) (rows.map kf)).map _).trans ?_
  simp only [List.map_map]
  apply List.Perm.of_eq
  apply List.map_congr_left
  intro k _
  simp only [Function.comp, rowsOf_rename kf ren σs hkey hinj, slice_rename ren hdat]

include hkey hdat hinj in
theorem lookup_grouped_rename (f : List α → β) (rows : List (Row α)) (k : Key) :
    (grouped kf f (rows.map ren)).lookup (mapCols σs k) = (grouped kf f rows).lookup k := by
  rw [lookup_grouped, lookup_grouped, rowsOf_rename kf ren σs hkey hinj, slice_rename ren hdat]
  by_cases h : rowsOf kf k rows = [] <;> simp [h]

include hkey in
theorem col_rename (n : Nat) (rows : List (Row α)) (hlen : ∀ r ∈ rows, (kf r).length = n) (j : Nat) (hj : j < n) :
    col j ((rows.map ren).map kf) = (col j (rows.map kf)).map (σs j) := by
  simp only [col, List.map_map]
  apply List.map_congr_left
  intro r hr
  simp only [Function.comp, hkey]
  exact mapCols_getD σs (kf r) j (by rw [hlen r hr]; exact hj)

include hkey hinj in
theorem product_levels_rename (n : Nat) (rows : List (Row α)) (hlen : ∀ r ∈ rows, (kf r).length = n) :
    (product (levels kf n (rows.map ren))).Perm ((product (levels kf n rows)).map (mapCols σs)) := by
  unfold levels
  have h2 := product_mapCols σs (fun j => uniq (col j (rows.map kf))) 0 n
  simp only [Nat.zero_add] at h2
  rw [List.range_eq_range', ← h2]
  apply product_perm
  intro j hj
  have hj' : j < n := by simpa [List.mem_range'] using hj
  rw [col_rename kf ren σs hkey n rows hlen j hj']
  exact uniq_map_perm (σs j) (hinj j) _

include hkey hdat hinj in
/-- `_apply_functions` on relabelled rows: the same entries under the relabelled index tuples -/
theorem applyFunctions_rename (n : Nat) (f : List α → β) (rows : List (Row α))
    (hlen : ∀ r ∈ rows, (kf r).length = n) :
    (applyFunctions nanv kf n f (rows.map ren)).Perm
      ((applyFunctions nanv kf n f rows).map (fun e => (mapCols σs e.1, e.2))) := by
  unfold applyFunctions
  split
  · simp [slice_rename ren hdat, mapCols]
  · dsimp only
    split
    · unfold reindex
      refine ((product_levels_rename kf ren σs hkey hinj n rows hlen).map _).trans ?_
      simp only [List.map_map]
      apply List.Perm.of_eq
      apply List.map_congr_left
      intro k _
      simp only [Function.comp, lookup_grouped_rename kf ren σs hkey hdat hinj]
    · exact grouped_rename kf ren σs hkey hdat hinj f rows

end tables

/-- rows whose grouping key and payload are untouched give the same table -/
theorem applyFunctions_congr (nanv : β) (kf : Row α → Key) (ren : Row α → Row α)
    (hkey : ∀ r, kf (ren r) = kf r) (hdat : ∀ r, (ren r).dat = r.dat) (n : Nat) (f : List α → β)
    (rows : List (Row α)) :
    applyFunctions nanv kf n f (rows.map ren) = applyFunctions nanv kf n f rows := by
  have h1 : (rows.map ren).map kf = rows.map kf := by
    simp only [List.map_map]
    apply List.map_congr_left
    intro r _
    exact hkey r
  have h2 : ∀ k, slice (rowsOf kf k (rows.map ren)) = slice (rowsOf kf k rows) := by
    intro k
    unfold rowsOf
    rw [List.filter_map, slice_rename ren hdat]
    congr 2
    funext r
    simp [Function.comp, hkey]
  unfold applyFunctions grouped levels
  simp only [h1, h2, slice_rename ren hdat]

end Perm

/-! ### aggregates of a frame whose index tuples are relabelled within their stratum -/

namespace Aggregate
open Frame

/-- relabel the index tuples of the `by_group` table -/
def mapKeys (τ : Key → Key) (t : Tables) : Tables :=
  { t with byGroup := t.byGroup.map (fun e => (τ e.1, e.2)) }

variable {t : Tables} {τ : Key → Key}

theorem strata_mapKeys (h : ∀ k, (τ k).take t.ncf = k.take t.ncf) : strata (mapKeys τ t) = strata t := by
  simp [strata, stratumOf, mapKeys, List.map_map, Function.comp_def, h]

theorem vals_mapKeys (h : ∀ k, (τ k).take t.ncf = k.take t.ncf) (c : Key) : vals (mapKeys τ t) c = vals t c := by
  simp [vals, stratumOf, mapKeys, List.filter_map, List.map_map, Function.comp_def, h]

theorem hasNonscalar_mapKeys : hasNonscalar (mapKeys τ t) = hasNonscalar t := by
  simp [hasNonscalar, mapKeys, List.any_map, Function.comp_def]

theorem overallAt_mapKeys (c : Key) : overallAt (mapKeys τ t) c = overallAt t c := rfl

theorem applyGrouping_mapKeys (h : ∀ k, (τ k).take t.ncf = k.take t.ncf) (g : Grouping) (e : Errors) :
    applyGrouping g e (mapKeys τ t) = applyGrouping g e t := by
  simp only [applyGrouping, hasNonscalar_mapKeys, strata_mapKeys h, vals_mapKeys h]

theorem difference_mapKeys (h : ∀ k, (τ k).take t.ncf = k.take t.ncf) (m : Method) (e : Errors) :
    difference m e (mapKeys τ t) = difference m e t := by
  cases m <;>
    simp only [difference, applyGrouping_mapKeys h, hasNonscalar_mapKeys, strata_mapKeys h, vals_mapKeys h,
      overallAt_mapKeys]

theorem ratio_mapKeys (h : ∀ k, (τ k).take t.ncf = k.take t.ncf) (m : Method) (e : Errors) :
    ratio m e (mapKeys τ t) = ratio m e t := by
  cases m <;>
    simp only [ratio, applyGrouping_mapKeys h, hasNonscalar_mapKeys, strata_mapKeys h, vals_mapKeys h,
      overallAt_mapKeys]

end Aggregate
